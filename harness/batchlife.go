//go:build verif

package main

// batchlife.go — C17, mode "life" of the "batch" subcommand: life after bulk construction.
//
// Every bulk constructor (NewArrayFromBatchData, ByteSliceToByteArray, NewMapFromBatchData and
// CopyNonRefSimple of arrays and maps) hands back slabs it assembled itself instead of slabs grown
// by individual operations.  "Valid exactly as if built by individual operations" therefore has a
// second half that an inspection right after the build cannot see: the result must go on BEHAVING
// like an ordinary container while the very slab objects of the build are still in memory.  Each
// history of this mode
//   1. builds a result of a chosen shape (single slab; one index slab; 2..4 index slabs on one
//      level; three and more levels - small slab sizes make the tall shapes cheap), from a stream
//      or from a source container living in the same or in another storage;
//   2. keeps operating on the RESULT in the same session (no commit, no reload): episodes of
//      clustered inserts / removes / overwrites with bigger or smaller values at low, middle, high,
//      quantile and random positions (each long enough to split or merge a data slab under any of
//      the index slabs), appends, pops, scattered operations; for maps runs of new keys, clusters of
//      removals / overwrites of neighbours in iteration order, scattered removals, absent keys;
//   3. after every episode: count and VerifyArray / VerifyMap; after the burst: full content
//      against a shadow (iteration, EVERY Get, sibling-link traversal), storage health, the source
//      is unchanged; then commit, reopen in a brand-new storage, the same comparison again, and a
//      second, shorter burst on the reopened result.
// Nothing is written to the model trace.  Tags: bl<k>; blc<j> = histories of copyshare_cmd.go (sources
// with a past in a nested world), appended as an independent stream.

import (
	"fmt"
	"strings"

	"github.com/onflow/atree"
	testutils "github.com/onflow/atree/test_utils"
)

const (
	lifeArrayBatch = iota
	lifeBytes
	lifeMapBatch
	lifeArrayCopy
	lifeMapCopy
)

var lifeKindNames = []string{"array_batch", "bytes", "map_batch", "array_copy", "map_copy"}
var lifeWhat = []string{
	"array built by NewArrayFromBatchData",
	"byte array built by ByteSliceToByteArray",
	"map built by NewMapFromBatchData",
	"array copied by CopyNonRefSimple",
	"map copied by CopyNonRefSimple",
}

// order in which the kinds are visited (history k has kind lifeCycle[k % len])
var lifeCycle = []int{lifeArrayBatch, lifeMapBatch, lifeArrayBatch, lifeBytes, lifeArrayCopy, lifeArrayBatch, lifeMapBatch, lifeBytes, lifeMapCopy, lifeArrayBatch}

var lifeSizes = []uint32{256, 300, 512, 1024}

type lifeCtx struct {
	r      *batchRun
	hr     *Rng
	base   *LogBase
	st     *atree.PersistentSlabStorage
	nRoots int
	what   string
	budget int // remaining operations
	maxLen int
	// source (optional): srcCheck reports a change of the source, srcReopen re-handles it on a new storage
	srcCheck  func(phase string)
	srcReopen func(st2 *atree.PersistentSlabStorage)
}

func (c *lifeCtx) viol(msg, phase, detail string) {
	c.r.viol("C17: "+c.what+": "+msg, fmt.Sprintf("[%s] %s", phase, detail))
}

func (c *lifeCtx) health(phase string) {
	if c.r.failed {
		return
	}
	if _, err := atree.CheckStorageHealth(c.st, c.nRoots); err != nil {
		c.viol("storage health check fails after ordinary operations on the result", phase, err.Error())
	}
}

// episode length: a few, half a leaf, one and a half leaves, three leaves
func (c *lifeCtx) runLen(perLeaf int) int {
	hr := c.hr
	m := 1
	switch hr.Pick(20, 25, 35, 20) {
	case 0:
		m = 1 + hr.Intn(3)
	case 1:
		m = perLeaf/2 + 1 + hr.Intn(3)
	case 2:
		m = perLeaf*3/2 + 2 + hr.Intn(perLeaf/2+1)
	default:
		m = perLeaf*3 + 3
	}
	m = min(m, 400, c.budget)
	c.budget -= m
	c.r.lifeSteps += m
	return m
}

// position among lim possible ones (0..lim-1): low, high, middle, a sixteenth-quantile, anywhere
func (c *lifeCtx) pos(lim int) int {
	hr := c.hr
	if lim <= 1 {
		return 0
	}
	p := 0
	switch hr.Pick(14, 14, 12, 40, 20) {
	case 0:
		p = hr.Intn(min(4, lim))
	case 1:
		p = lim - 1 - hr.Intn(min(4, lim))
	case 2:
		p = lim/2 + hr.Intn(5) - 2
	case 3:
		p = lim*(1+hr.Intn(15))/16 + hr.Intn(5) - 2
	default:
		p = hr.Intn(lim)
	}
	return max(0, min(lim-1, p))
}

// ---------------------------------------------------------------------------------------------
// arrays
// ---------------------------------------------------------------------------------------------

type lifeArr struct {
	*lifeCtx
	arr     *atree.Array
	addr    atree.Address
	ti      uint64
	shadow  []int64
	bytes   bool
	perLeaf int
	nextID  int64
	el      batchElems
}

const (
	vcTiny = iota
	vcSmall
	vcMedium
	vcNear
	vcExt
	vcMixed
)

func (l *lifeArr) newVal(class int) (atree.Value, int64) {
	hr := l.hr
	if class == vcMixed {
		class = hr.Pick(25, 20, 20, 30, 5)
	}
	if l.bytes {
		b := byte(hr.Intn(24))
		if class != vcTiny {
			b = byte(24 + hr.Intn(232))
		}
		return testutils.Uint8Value(b), int64(b)
	}
	inl := int(atree.MaxInlineArrayElementSize())
	l.nextID++
	switch class {
	case vcTiny:
		n := uint64(hr.Intn(24))
		return testutils.Uint64Value(n), int64(n)
	case vcSmall:
		ws := []uint64{24, 256, 65536, 1 << 32}
		n := ws[hr.Intn(len(ws))] + uint64(hr.Intn(200))
		return testutils.Uint64Value(n), int64(n)
	case vcMedium:
		a := batchStr(l.nextID, 3+hr.Intn(max(1, inl/3)), inl)
		return a.v, a.id
	case vcNear:
		a := batchStr(l.nextID, inl-hr.Intn(3), inl)
		return a.v, a.id
	default:
		a := batchStr(l.nextID, inl+1+hr.Intn(120), inl)
		return a.v, a.id
	}
}

func (l *lifeArr) valClass() int {
	return []int{vcTiny, vcSmall, vcMedium, vcNear, vcExt, vcMixed}[l.hr.Pick(15, 10, 15, 35, 5, 20)]
}

// old is a storable handed back by Set / Remove: its identity must be the shadow's, an external
// value slab is released.
func (l *lifeArr) handBack(old atree.Storable, want int64, phase, op string, i int) {
	id, _ := l.el.info(old)
	if id != want {
		l.viol(op+" hands back a different element than the one stored at that position", phase, fmt.Sprintf("i=%d got %d want %d", i, id, want))
	}
	if sid, ok := old.(atree.SlabIDStorable); ok {
		if err := l.st.Remove(atree.SlabID(sid)); err != nil {
			l.viol("external value slab cannot be removed", phase, err.Error())
		}
	}
}

func (l *lifeArr) insert(i int, class int, phase string) bool {
	v, id := l.newVal(class)
	var err error
	if i == len(l.shadow) && l.hr.Bool() {
		l.r.rep.Op("life_array_append")
		err = l.arr.Append(v)
	} else {
		l.r.rep.Op("life_array_insert")
		err = l.arr.Insert(uint64(i), v)
	}
	if err != nil {
		l.viol("Insert/Append fails on the result", phase, fmt.Sprintf("i=%d of %d: %v", i, len(l.shadow), err))
		return false
	}
	l.shadow = append(l.shadow, 0)
	copy(l.shadow[i+1:], l.shadow[i:])
	l.shadow[i] = id
	return true
}

func (l *lifeArr) remove(i int, phase string) bool {
	l.r.rep.Op("life_array_remove")
	old, err := l.arr.Remove(uint64(i))
	if err != nil {
		l.viol("Remove fails on the result", phase, fmt.Sprintf("i=%d of %d: %v", i, len(l.shadow), err))
		return false
	}
	l.handBack(old, l.shadow[i], phase, "Remove", i)
	l.shadow = append(l.shadow[:i], l.shadow[i+1:]...)
	return !l.r.failed
}

func (l *lifeArr) set(i int, class int, phase string) bool {
	l.r.rep.Op("life_array_set")
	v, id := l.newVal(class)
	old, err := l.arr.Set(uint64(i), v)
	if err != nil {
		l.viol("Set fails on the result", phase, fmt.Sprintf("i=%d of %d: %v", i, len(l.shadow), err))
		return false
	}
	l.handBack(old, l.shadow[i], phase, "Set", i)
	l.shadow[i] = id
	return !l.r.failed
}

func (l *lifeArr) quick(phase string) bool {
	if l.r.failed {
		return false
	}
	if l.arr.Count() != uint64(len(l.shadow)) {
		l.viol("count differs from the number of elements after ordinary operations", phase, fmt.Sprintf("%d vs %d", l.arr.Count(), len(l.shadow)))
		return false
	}
	if err := atree.VerifyArray(l.arr, l.addr, testutils.NewSimpleTypeInfo(l.ti), testutils.CompareTypeInfo, testutils.GetHashInput, true); err != nil {
		l.viol("result is not a valid array (VerifyArray) after ordinary operations", phase, err.Error())
		return false
	}
	return true
}

func (l *lifeArr) episode(phase string) {
	hr := l.hr
	kind := hr.Pick(30, 18, 10, 8, 8, 6, 6, 4, 10)
	m := l.runLen(l.perLeaf)
	n := func() int { return len(l.shadow) }
	switch kind {
	case 0: // run of inserts around one position
		p := l.pos(n() + 1)
		class := l.valClass()
		walk := hr.Intn(3)
		for j := 0; j < m; j++ {
			i := p
			switch walk {
			case 1:
				i = p + j
			case 2:
				i = p + hr.Intn(3)
			}
			if !l.insert(min(i, n()), class, phase) {
				return
			}
		}
		l.r.rep.Event("life_run_insert")
	case 1: // run of removals at one position
		p := l.pos(n())
		for j := 0; j < m && n() > 0; j++ {
			if !l.remove(min(p, n()-1), phase) {
				return
			}
		}
		l.r.rep.Event("life_run_remove")
	case 2, 3: // overwrite neighbours with bigger / smaller values
		p := l.pos(n())
		class := vcTiny
		if kind == 2 {
			class = vcNear
			if hr.Chance(12) {
				class = vcExt
			}
		}
		for j := 0; j < m && p+j < n(); j++ {
			if !l.set(p+j, class, phase) {
				return
			}
		}
		l.r.rep.Event("life_run_set")
	case 4:
		class := l.valClass()
		for j := 0; j < m; j++ {
			if !l.insert(n(), class, phase) {
				return
			}
		}
	case 5:
		for j := 0; j < m && n() > 0; j++ {
			if !l.remove(n()-1, phase) {
				return
			}
		}
	case 6:
		class := l.valClass()
		for j := 0; j < m; j++ {
			if !l.insert(0, class, phase) {
				return
			}
		}
	case 7:
		for j := 0; j < m && n() > 0; j++ {
			if !l.remove(0, phase) {
				return
			}
		}
	default: // scattered single operations
		for j := 0; j < m; j++ {
			ok := true
			switch {
			case n() > 0 && hr.Chance(35):
				ok = l.remove(hr.Intn(n()), phase)
			case n() > 0 && hr.Chance(40):
				ok = l.set(hr.Intn(n()), vcMixed, phase)
			default:
				ok = l.insert(hr.Intn(n()+1), vcMixed, phase)
			}
			if !ok {
				return
			}
		}
		l.r.rep.Event("life_scattered")
	}
}

func (l *lifeArr) burst(phase string, episodes int) {
	for e := 0; e < episodes && !l.r.failed && l.budget > 0; e++ {
		ph := fmt.Sprintf("%s, episode %d", phase, e)
		l.episode(ph)
		if !l.quick(ph) {
			return
		}
	}
}

// full comparison with the shadow
func (l *lifeArr) check(phase string) bool {
	if !l.quick(phase) {
		return false
	}
	k := 0
	err := l.arr.IterateReadOnly(func(v atree.Value) (bool, error) {
		if k < len(l.shadow) && valID(v) != l.shadow[k] && !l.r.failed {
			l.viol("iteration yields a different element than the one put there", phase, fmt.Sprintf("position %d: got %d want %d", k, valID(v), l.shadow[k]))
		}
		k++
		return true, nil
	})
	if err != nil || k != len(l.shadow) {
		l.viol("iteration does not yield every element once after ordinary operations", phase, fmt.Sprintf("%d of %d, %v", k, len(l.shadow), err))
		return false
	}
	for i := range l.shadow {
		v, err := l.arr.Get(uint64(i))
		if err != nil {
			l.viol("Get fails on an index below Count after ordinary operations", phase, fmt.Sprintf("i=%d of %d: %v", i, len(l.shadow), err))
			return false
		}
		if valID(v) != l.shadow[i] {
			l.viol("Get returns a different element than the one put there", phase, fmt.Sprintf("i=%d got %d want %d", i, valID(v), l.shadow[i]))
			return false
		}
	}
	els, err := atree.VerifArrayStorables(l.arr)
	if err != nil || len(els) != len(l.shadow) {
		l.viol("traversal along sibling links does not yield every element after ordinary operations", phase, fmt.Sprintf("%d of %d, %v", len(els), len(l.shadow), err))
		return false
	}
	for j, s := range els {
		if id, _ := l.el.info(s); id != l.shadow[j] {
			l.viol("traversal along sibling links differs from the content", phase, fmt.Sprintf("position %d", j))
			return false
		}
	}
	if t, ok := l.arr.Type().(testutils.SimpleTypeInfo); !ok || t.Value() != l.ti {
		l.viol("type information changed", phase, fmt.Sprint(l.arr.Type()))
	}
	if l.bytes {
		back, err := atree.ByteArrayToByteSlice[testutils.Uint8Value](l.arr)
		if err != nil || len(back) != len(l.shadow) {
			l.viol("ByteArrayToByteSlice fails or has the wrong length after ordinary operations", phase, fmt.Sprintf("%d of %d, %v", len(back), len(l.shadow), err))
			return false
		}
		for j, b := range back {
			if int64(b) != l.shadow[j] {
				l.viol("ByteArrayToByteSlice differs from the content", phase, fmt.Sprintf("position %d", j))
				return false
			}
		}
	}
	l.health(phase)
	if l.srcCheck != nil && !l.r.failed {
		l.srcCheck(phase)
	}
	return !l.r.failed
}

func (l *lifeArr) reopen() bool {
	phase := "commit and reopen"
	var err error
	if l.hr.Bool() {
		err = l.st.FastCommit(1 + l.hr.Intn(4))
	} else {
		err = l.st.NondeterministicFastCommit(1 + l.hr.Intn(4))
	}
	if err != nil {
		l.viol("commit fails after ordinary operations on the result", phase, err.Error())
		return false
	}
	st2 := newStorage(l.base)
	a2, err := atree.NewArrayWithRootID(st2, l.arr.SlabID())
	if err != nil {
		l.viol("result cannot be reopened by its root identifier after commit", phase, err.Error())
		return false
	}
	l.st, l.arr = st2, a2 // the old wrapper is dropped (one wrapper per container)
	l.el = batchElems{&arrayRun{st: st2}}
	if l.srcReopen != nil {
		l.srcReopen(st2)
	}
	return !l.r.failed
}

func (l *lifeArr) shape() (leaves, metas, height int) {
	d, err := atree.VerifArrayDump(l.arr, l.el.info)
	if err != nil {
		return 0, 0, 0
	}
	sh, ok := parseDump(d)
	if !ok {
		return 0, 0, 0
	}
	return len(sh.leafCounts), sh.metas, sh.height
}

func (l *lifeArr) live(firstEpisodes int) {
	r := l.r
	l0, m0, h0 := l.shape()
	if l0 > 0 {
		l.perLeaf = max(2, len(l.shadow)/l0)
	}
	l.noteShape("built", l0, m0, h0)
	if !l.check("right after the construction") {
		return
	}
	l.burst("same session", firstEpisodes)
	if r.failed || !l.check("after the burst, same session") {
		return
	}
	l1, m1, h1 := l.shape()
	l.noteShape("after_burst", l1, m1, h1)
	if !l.reopen() || !l.check("after commit and reopen") {
		return
	}
	if l.hr.Chance(60) {
		l.budget = max(l.budget, 300)
		l.burst("after reopen", 2+l.hr.Intn(3))
		if r.failed || !l.check("after the second burst") {
			return
		}
		if l.hr.Bool() && l.reopen() {
			l.check("after the second commit and reopen")
		}
	}
}

func (c *lifeCtx) noteShape(when string, leaves, index, height int) {
	rep := c.r.rep
	if index > height-1 && height >= 2 { // (then the tree has a root above them: height >= 3)
		rep.Event("life_" + when + "_two_or_more_index_slabs_on_a_level")
	}
	if height >= 4 {
		rep.Event("life_" + when + "_three_or_more_index_levels")
	}
	if height == 1 {
		rep.Event("life_" + when + "_single_slab")
	}
	if when == "built" {
		rep.Event(fmt.Sprintf("life_built_T_%d_height_%d", c.r.T, height))
	}
}

// number of leaves to aim at: single slab; one index slab; 2..4 index slabs on a level; 3 levels
func lifeTargetLeaves(hr *Rng, maxH int) (int, int) {
	switch hr.Pick(5, 12, 48, 27, 8) {
	case 0:
		return 1, 0
	case 1:
		return 2 + hr.Intn(maxH-1), 1
	case 2:
		return maxH + 1 + hr.Intn(3*maxH), 2
	case 3:
		return maxH*maxH + 1 + hr.Intn(3*maxH), 3
	default:
		return 0, 4 // free length
	}
}

// lifeCalibrate scales a length so that a build of that length has about L leaves (never above limit)
func lifeCalibrate(L, n, limit int, leaves func(n int) int) int {
	for it := 0; it < 2; it++ {
		n = max(1, min(n, limit))
		lv := leaves(n)
		if lv <= 0 || lv == L {
			break
		}
		n = n*L/lv + 1
	}
	return max(1, min(n, limit))
}

func probeLeafCount(famSeed uint64, mix int, T uint32, n int) int {
	env := newBatchEnv(7)
	i := 0
	arr, err := atree.NewArrayFromBatchData(env.st, env.addr, testutils.NewSimpleTypeInfo(40), func() (atree.Value, error) {
		if i == n {
			return nil, nil
		}
		i++
		return batchVal(famSeed, mix, T, i-1).v, nil
	})
	if err != nil {
		return 0
	}
	d, err := atree.VerifArrayDump(arr, env.el.info)
	if err != nil {
		return 0
	}
	sh, ok := parseDump(d)
	if !ok {
		return 0
	}
	return len(sh.leafCounts)
}

func (r *batchRun) lifeArrayBatch(hr *Rng, maxLen, budget int) {
	T := r.T
	st6 := atree.VerifSettings()
	maxH := int((st6[2] - 12) / 14)
	famSeed := hr.U64()
	mix := hr.Intn(nMixes)
	// average stored size of the family
	avg := func(mix int) int {
		t := 0
		for i := 0; i < 40; i++ {
			t += int(batchVal(famSeed, mix, T, i).sz)
		}
		return max(1, t/40)
	}
	per := func(mix int) int { return max(1, (int(T)-20)/avg(mix)) }
	L, class := lifeTargetLeaves(hr, maxH)
	n := L * per(mix)
	if class == 4 {
		n = hr.Intn(maxLen + 1)
	}
	if n > maxLen {
		mix = mixNearLimit
		n = L * per(mix)
	}
	for n > maxLen && class > 1 {
		class--
		switch class {
		case 2:
			L = maxH + 1 + hr.Intn(3*maxH)
		case 1:
			L = 2 + hr.Intn(maxH-1)
		}
		n = L * per(mix)
	}
	if class >= 1 && class <= 3 {
		// the estimate is rough (leaves are filled beyond the target size): count the leaves of a probe build
		n = lifeCalibrate(L, n, maxLen, func(n int) int { return probeLeafCount(famSeed, mix, T, n) })
	}
	n = min(n, maxLen)
	n += hr.Intn(3)

	base := NewLogBase()
	st := newStorage(base)
	addr := mkAddr(1 + uint64(hr.Intn(2)))
	c := &lifeCtx{r: r, hr: hr, base: base, st: st, what: lifeWhat[lifeArrayBatch], budget: budget, maxLen: maxLen}
	ti := uint64(40 + hr.Intn(3))
	vals := make([]aval, n)
	ids := make([]int64, n)
	for i := range vals {
		vals[i] = batchVal(famSeed, mix, T, i)
		ids[i] = vals[i].id
	}
	// the stream: the values themselves, or the iterator of a source array (same or other storage)
	var src *atree.Array
	srcSt := st
	next := func() (atree.Value, error) { return nil, nil }
	i := 0
	switch hr.Pick(45, 35, 20) {
	case 0:
		next = func() (atree.Value, error) {
			if i == len(vals) {
				return nil, nil
			}
			i++
			return vals[i-1].v, nil
		}
	default:
		srcBase := base
		if hr.Chance(35) {
			srcBase = NewLogBase()
			srcSt = newStorage(srcBase)
		} else {
			c.nRoots++
		}
		var err error
		src, err = atree.NewArray(srcSt, mkAddr(1), testutils.NewSimpleTypeInfo(ti))
		must(err)
		for _, v := range vals {
			must(src.Append(v.v))
		}
		it, err := src.ReadOnlyIterator()
		must(err)
		next = func() (atree.Value, error) { return it.Next() }
		r.rep.Event("life_stream_from_source_array")
		srcFp := arrFingerprint(src)
		srcVals, _ := arrValues(src)
		sameStorage := srcSt == st
		c.srcCheck = func(phase string) {
			if arrFingerprint(src) != srcFp {
				c.viol("operating on the result changed the source array", phase, "")
			}
		}
		c.srcReopen = func(st2 *atree.PersistentSlabStorage) {
			if !sameStorage {
				return
			}
			s2, err := atree.NewArrayWithRootID(st2, src.SlabID())
			if err != nil {
				c.viol("source array cannot be reopened after the commit", "commit and reopen", err.Error())
				return
			}
			src = s2
			v2, err := arrValues(s2)
			if err != nil || strings.Join(v2, ";") != strings.Join(srcVals, ";") {
				c.viol("source array has a different content after commit and reopen", "commit and reopen", fmt.Sprint(err))
			}
			srcFp = arrFingerprint(s2)
		}
	}
	r.rep.Op("life_array_batch")
	arr, err := atree.NewArrayFromBatchData(st, addr, testutils.NewSimpleTypeInfo(ti), next)
	if err != nil {
		c.viol("NewArrayFromBatchData failed", "build", fmt.Sprintf("n=%d mix=%s: %v", n, mixNames[mix], err))
		return
	}
	c.nRoots++
	l := &lifeArr{lifeCtx: c, arr: arr, addr: addr, ti: ti, shadow: ids, perLeaf: per(mix), nextID: 5_000_000, el: batchElems{&arrayRun{st: st}}}
	r.rep.Event("life_mix_" + mixNames[mix])
	l.live(4 + hr.Intn(7))
}

func (r *batchRun) lifeBytes(hr *Rng, maxLen, budget int) {
	T := r.T
	st6 := atree.VerifSettings()
	maxH := int((st6[2] - 12) / 14)
	per := max(1, (int(T)-20)*2/7)
	L, class := lifeTargetLeaves(hr, maxH)
	maxBytes := maxLen * 4
	n := L * per
	if class == 4 {
		n = hr.Intn(maxBytes + 1)
	}
	for n > maxBytes && class > 1 {
		class--
		switch class {
		case 2:
			L = maxH + 1 + hr.Intn(3*maxH)
		case 1:
			L = 2 + hr.Intn(maxH-1)
		}
		n = L * per
	}
	n = min(n, maxBytes)
	kind := hr.Intn(3)
	buf := make([]byte, min(maxBytes, 2*n+8)+2)
	for i := range buf {
		switch kind {
		case 0:
			buf[i] = byte(hr.Intn(24))
		case 1:
			buf[i] = byte(24 + hr.Intn(232))
		default:
			buf[i] = byte(hr.Intn(256))
		}
	}
	if class >= 1 && class <= 3 {
		// leaves are filled beyond the estimate: count the leaves of a probe build of a prefix
		n = lifeCalibrate(L, n, len(buf)-2, func(n int) int {
			env := newBatchEnv(7)
			arr, err := atree.ByteSliceToByteArray[testutils.Uint8Value](env.st, env.addr, testutils.NewSimpleTypeInfo(40), buf[:n], 0)
			if err != nil {
				return 0
			}
			d, err := atree.VerifArrayDump(arr, env.el.info)
			if err != nil {
				return 0
			}
			sh, ok := parseDump(d)
			if !ok {
				return 0
			}
			return len(sh.leafCounts)
		})
	}
	n += hr.Intn(3)
	data := buf[:n]
	ids := make([]int64, n)
	for i := range data {
		ids[i] = int64(data[i])
	}
	base := NewLogBase()
	st := newStorage(base)
	addr := mkAddr(1 + uint64(hr.Intn(2)))
	c := &lifeCtx{r: r, hr: hr, base: base, st: st, what: lifeWhat[lifeBytes], budget: budget, maxLen: maxLen}
	ti := uint64(40 + hr.Intn(3))
	ests := []uint32{0, 0, 1, 3, 4, 100}
	r.rep.Op("life_bytes_to_array")
	arr, err := atree.ByteSliceToByteArray[testutils.Uint8Value](st, addr, testutils.NewSimpleTypeInfo(ti), data, ests[hr.Intn(len(ests))])
	if err != nil {
		c.viol("ByteSliceToByteArray failed", "build", fmt.Sprintf("n=%d: %v", n, err))
		return
	}
	c.nRoots = 1
	orig := string(data)
	c.srcCheck = func(phase string) {
		if string(data) != orig {
			c.viol("operating on the result changed the source byte slice", phase, "")
		}
	}
	l := &lifeArr{lifeCtx: c, arr: arr, addr: addr, ti: ti, shadow: ids, bytes: true, perLeaf: per, el: batchElems{&arrayRun{st: st}}}
	l.live(4 + hr.Intn(7))
}

func (r *batchRun) lifeArrayCopy(hr *Rng, maxLen, budget int) {
	T := r.T
	base := NewLogBase()
	st := newStorage(base)
	addr := mkAddr(1)
	c := &lifeCtx{r: r, hr: hr, base: base, st: st, what: lifeWhat[lifeArrayCopy], budget: budget, maxLen: maxLen, nRoots: 1}
	ti := uint64(40 + hr.Intn(3))
	src, err := atree.NewArray(st, addr, testutils.NewSimpleTypeInfo(ti))
	must(err)
	inl := int(atree.MaxInlineArrayElementSize())
	limit := []int{int(T) / 4, int(T) / 2, int(T), int(atree.VerifSettings()[2])}[hr.Pick(15, 15, 35, 35)]
	var ids []int64
	big := hr.Chance(40)
	for k := 0; k < 2000; k++ {
		var a aval
		switch {
		case big && hr.Chance(60):
			a = batchStr(int64(k+1), 3+hr.Intn(inl-2), inl)
		case hr.Chance(30):
			a = batchStr(int64(k+1), 3+hr.Intn(12), inl)
		default:
			v := testutils.Uint64Value(uint64(hr.Intn(1 << (1 + hr.Intn(30)))))
			a = aval{id: int64(v), v: v, sz: int64(v.ByteSize())}
		}
		if h := atree.VerifArrayRootHeader(src); int(h[1])+int(a.sz) > limit {
			break
		}
		must(src.Append(a.v))
		ids = append(ids, a.id)
	}
	if !src.IsWithinSingleSlab() || !src.CanCopyNonRefSimple() {
		r.rep.Event("life_copy_source_not_copyable")
		return
	}
	dst := addr
	if hr.Bool() {
		dst = mkAddr(9)
	}
	r.rep.Op("life_array_copy")
	cp, err := src.CopyNonRefSimple(dst)
	if err != nil {
		c.viol("CopyNonRefSimple failed although CanCopyNonRefSimple is true", "build", err.Error())
		return
	}
	c.nRoots = 2
	srcFp := arrFingerprint(src)
	srcVals, _ := arrValues(src)
	c.srcCheck = func(phase string) {
		if arrFingerprint(src) != srcFp {
			c.viol("operating on the copy changed the source array", phase, "")
		}
	}
	c.srcReopen = func(st2 *atree.PersistentSlabStorage) {
		s2, err := atree.NewArrayWithRootID(st2, src.SlabID())
		if err != nil {
			c.viol("source array cannot be reopened after the commit", "commit and reopen", err.Error())
			return
		}
		src = s2
		v2, err := arrValues(s2)
		if err != nil || strings.Join(v2, ";") != strings.Join(srcVals, ";") {
			c.viol("source array has a different content after commit and reopen", "commit and reopen", fmt.Sprint(err))
		}
		srcFp = arrFingerprint(s2)
	}
	l := &lifeArr{lifeCtx: c, arr: cp, addr: dst, ti: ti, shadow: append([]int64(nil), ids...), perLeaf: max(2, int(T)/12), nextID: 5_000_000, el: batchElems{&arrayRun{st: st}}}
	// the copy starts as one slab: a longer burst makes it grow into a tree of several levels
	l.live(8 + hr.Intn(9))
	if r.failed {
		return
	}
	// the other direction: operate on the source, the copy keeps its content
	ls := &lifeArr{lifeCtx: &lifeCtx{r: r, hr: hr, base: base, st: l.st, what: "source of an array copied by CopyNonRefSimple", budget: 300, nRoots: 2},
		arr: src, addr: addr, ti: ti, shadow: append([]int64(nil), ids...), perLeaf: l.perLeaf, nextID: 7_000_000, el: l.el}
	ls.burst("operating on the source", 3+hr.Intn(3))
	if r.failed {
		return
	}
	ls.check("after operating on the source")
	l.srcCheck = nil
	l.check("after operating on the source")
}

// ---------------------------------------------------------------------------------------------
// maps
// ---------------------------------------------------------------------------------------------

type lifeMap struct {
	*lifeCtx
	m       *atree.OrderedMap
	addr    atree.Address
	ti      uint64
	mk      func() atree.DigesterBuilder
	keys    map[string]atree.Value
	vals    map[string]string
	gone    []atree.Value // some removed keys
	nextKey uint64
	perLeaf int
}

func valStr(v atree.Value) string { return fmt.Sprintf("%T:%v", v, v) }

func (l *lifeMap) newKey() atree.Value {
	hr := l.hr
	l.nextKey++
	keyLim := int(atree.MaxInlineMapKeySize())
	switch hr.Pick(50, 30, 20) {
	case 0:
		return testutils.Uint64Value(1<<40 + l.nextKey)
	case 1:
		return testutils.NewStringValue(fmt.Sprintf("n%d|%s", l.nextKey, strings.Repeat("k", hr.Intn(12))))
	default:
		return testutils.NewStringValue(fmt.Sprintf("n%d|%s", l.nextKey, strings.Repeat("k", max(0, keyLim-14+hr.Intn(6)))))
	}
}

func keyByteSize(k atree.Value) uint32 {
	switch x := k.(type) {
	case testutils.Uint64Value:
		return x.ByteSize()
	case testutils.StringValue:
		return x.ByteSize()
	}
	return 9
}

func (l *lifeMap) newVal(k atree.Value, class int) atree.Value {
	hr := l.hr
	if class == vcMixed {
		class = hr.Pick(25, 20, 20, 30, 5)
	}
	room := int(atree.MaxInlineMapElementSize()) - int(keyByteSize(k)) - 1
	switch class {
	case vcTiny:
		return testutils.Uint64Value(uint64(hr.Intn(24)))
	case vcSmall:
		if hr.Bool() {
			return testutils.NewSomeValue(testutils.Uint64Value(uint64(hr.Intn(1 << 20))))
		}
		return testutils.Uint64Value(uint64(hr.Intn(1 << 30)))
	case vcMedium:
		return testutils.NewStringValue(randStr(hr, 1+hr.Intn(max(1, room/3))))
	case vcNear:
		return testutils.NewStringValue(randStr(hr, max(1, room-5+hr.Intn(4))))
	default:
		return testutils.NewStringValue(randStr(hr, int(atree.MaxInlineMapElementSize())+hr.Intn(100)))
	}
}

func (l *lifeMap) valClass() int {
	return []int{vcTiny, vcSmall, vcMedium, vcNear, vcExt, vcMixed}[l.hr.Pick(15, 15, 15, 30, 5, 20)]
}

// storedStr renders a storable handed back by Set / Remove as the value it stands for
func (l *lifeMap) storedStr(s atree.Storable) string {
	v, err := s.StoredValue(l.st)
	if err != nil {
		return "unreadable: " + err.Error()
	}
	return valStr(v)
}

func (l *lifeMap) release(s atree.Storable, phase string) {
	if sid, ok := s.(atree.SlabIDStorable); ok {
		if err := l.st.Remove(atree.SlabID(sid)); err != nil {
			l.viol("external slab cannot be removed", phase, err.Error())
		}
	}
}

func (l *lifeMap) set(k atree.Value, class int, phase string) bool {
	l.r.rep.Op("life_map_set")
	v := l.newVal(k, class)
	ks := keyStr(k)
	old, err := l.m.Set(testutils.CompareValue, testutils.GetHashInput, k, v)
	if err != nil {
		var cle *atree.CollisionLimitError
		if asErr(err, &cle) {
			if _, present := l.vals[ks]; !present {
				l.r.rep.Err("CollisionLimitError")
				return true
			}
		}
		l.viol("Set fails on the result", phase, fmt.Sprintf("key %s: %v", ks, err))
		return false
	}
	prev, present := l.vals[ks]
	switch {
	case present && old == nil:
		l.viol("Set on a present key hands back no previous value", phase, ks)
	case !present && old != nil:
		l.viol("Set on an absent key hands back a previous value", phase, ks)
	case present:
		if got := l.storedStr(old); got != prev {
			l.viol("Set hands back a different previous value than the one stored", phase, fmt.Sprintf("key %s: got %.60s want %.60s", ks, got, prev))
		}
		l.release(old, phase)
	}
	l.keys[ks] = k
	l.vals[ks] = valStr(v)
	return !l.r.failed
}

func (l *lifeMap) remove(k atree.Value, phase string) bool {
	l.r.rep.Op("life_map_remove")
	ks := keyStr(k)
	kst, vst, err := l.m.Remove(testutils.CompareValue, testutils.GetHashInput, k)
	prev, present := l.vals[ks]
	if !present {
		var knf *atree.KeyNotFoundError
		if err == nil || !asErr(err, &knf) {
			l.viol("Remove of an absent key is not refused with KeyNotFoundError", phase, fmt.Sprintf("key %s: %v", ks, err))
			return false
		}
		l.r.rep.Err("KeyNotFoundError")
		return true
	}
	if err != nil {
		l.viol("Remove of a present key fails on the result", phase, fmt.Sprintf("key %s: %v", ks, err))
		return false
	}
	if got := l.storedStr(vst); got != prev {
		l.viol("Remove hands back a different value than the one stored", phase, fmt.Sprintf("key %s: got %.60s want %.60s", ks, got, prev))
	}
	if got := l.storedStr(kst); got != ks {
		l.viol("Remove hands back a different key", phase, fmt.Sprintf("key %s: got %.60s", ks, got))
	}
	l.release(kst, phase)
	l.release(vst, phase)
	delete(l.keys, ks)
	delete(l.vals, ks)
	if len(l.gone) < 8 {
		l.gone = append(l.gone, k)
	}
	return !l.r.failed
}

func (l *lifeMap) order() []atree.Value {
	var out []atree.Value
	_ = l.m.IterateReadOnlyKeys(func(k atree.Value) (bool, error) {
		out = append(out, k)
		return true, nil
	})
	return out
}

func (l *lifeMap) quick(phase string) bool {
	if l.r.failed {
		return false
	}
	if l.m.Count() != uint64(len(l.vals)) {
		l.viol("count differs from the number of entries after ordinary operations", phase, fmt.Sprintf("%d vs %d", l.m.Count(), len(l.vals)))
		return false
	}
	if err := atree.VerifyMap(l.m, l.addr, testutils.NewSimpleTypeInfo(l.ti), testutils.CompareTypeInfo, testutils.GetHashInput, true); err != nil {
		l.viol("result is not a valid map (VerifyMap) after ordinary operations", phase, err.Error())
		return false
	}
	return true
}

func (l *lifeMap) episode(phase string) {
	hr := l.hr
	kind := hr.Pick(30, 18, 10, 8, 12, 12, 10)
	m := l.runLen(l.perLeaf)
	switch kind {
	case 0: // run of new keys
		class := l.valClass()
		for j := 0; j < m; j++ {
			if !l.set(l.newKey(), class, phase) {
				return
			}
		}
		l.r.rep.Event("life_run_new_keys")
	case 1, 2, 3: // neighbours in iteration order: remove / overwrite bigger / overwrite smaller
		ord := l.order()
		if len(ord) != len(l.vals) {
			l.viol("key iteration does not yield every key once", phase, fmt.Sprintf("%d of %d", len(ord), len(l.vals)))
			return
		}
		p := l.pos(len(ord))
		for j := 0; j < m && p+j < len(ord); j++ {
			ok := true
			switch kind {
			case 1:
				ok = l.remove(ord[p+j], phase)
			case 2:
				class := vcNear
				if hr.Chance(12) {
					class = vcExt
				}
				ok = l.set(ord[p+j], class, phase)
			default:
				ok = l.set(ord[p+j], vcTiny, phase)
			}
			if !ok {
				return
			}
		}
		l.r.rep.Event("life_run_neighbours")
	case 4, 5: // scattered removals / overwrites
		ord := l.order()
		for j := 0; j < m && len(ord) > 0; j++ {
			k := ord[hr.Intn(len(ord))]
			ok := true
			if kind == 4 {
				ok = l.remove(k, phase) // a key removed twice is an absent key the second time
			} else {
				ok = l.set(k, vcMixed, phase)
			}
			if !ok {
				return
			}
		}
		l.r.rep.Event("life_scattered")
	default: // mixed: new keys, absent keys, removals
		ord := l.order()
		for j := 0; j < m; j++ {
			ok := true
			switch {
			case hr.Chance(10):
				ok = l.remove(testutils.Uint64Value(1<<50+uint64(hr.Intn(1000))), phase)
			case len(ord) > 0 && hr.Chance(40):
				ok = l.remove(ord[hr.Intn(len(ord))], phase)
			default:
				ok = l.set(l.newKey(), vcMixed, phase)
			}
			if !ok {
				return
			}
		}
	}
}

func (l *lifeMap) burst(phase string, episodes int) {
	for e := 0; e < episodes && !l.r.failed && l.budget > 0; e++ {
		ph := fmt.Sprintf("%s, episode %d", phase, e)
		l.episode(ph)
		if !l.quick(ph) {
			return
		}
	}
}

// full comparison with the shadow; returns the iteration order
func (l *lifeMap) check(phase string) ([]string, bool) {
	if !l.quick(phase) {
		return nil, false
	}
	seen := map[string]bool{}
	var ord []string
	err := l.m.IterateReadOnly(func(k, v atree.Value) (bool, error) {
		ks := keyStr(k)
		ord = append(ord, ks)
		if l.r.failed {
			return true, nil
		}
		want, present := l.vals[ks]
		switch {
		case !present:
			l.viol("iteration yields a key that is not in the map", phase, ks)
		case seen[ks]:
			l.viol("iteration yields a key twice", phase, ks)
		case valStr(v) != want:
			l.viol("iteration yields a different value than the one put there", phase, fmt.Sprintf("key %s", ks))
		}
		seen[ks] = true
		return true, nil
	})
	if err != nil || len(ord) != len(l.vals) {
		l.viol("iteration does not yield every entry once after ordinary operations", phase, fmt.Sprintf("%d of %d, %v", len(ord), len(l.vals), err))
		return nil, false
	}
	if l.r.failed {
		return nil, false
	}
	for ks, k := range l.keys {
		v, err := l.m.Get(testutils.CompareValue, testutils.GetHashInput, k)
		if err != nil {
			l.viol("Get fails on a present key after ordinary operations", phase, fmt.Sprintf("key %s: %v", ks, err))
			return nil, false
		}
		if valStr(v) != l.vals[ks] {
			l.viol("Get returns a different value than the one put there", phase, fmt.Sprintf("key %s", ks))
			return nil, false
		}
	}
	for _, k := range l.gone {
		if _, present := l.vals[keyStr(k)]; present {
			continue
		}
		_, err := l.m.Get(testutils.CompareValue, testutils.GetHashInput, k)
		var knf *atree.KeyNotFoundError
		if err == nil || !asErr(err, &knf) {
			l.viol("Get of a removed key is not refused with KeyNotFoundError", phase, fmt.Sprintf("key %s: %v", keyStr(k), err))
			return nil, false
		}
	}
	if t, ok := l.m.Type().(testutils.SimpleTypeInfo); !ok || t.Value() != l.ti {
		l.viol("type information changed", phase, fmt.Sprint(l.m.Type()))
	}
	l.health(phase)
	if l.srcCheck != nil && !l.r.failed {
		l.srcCheck(phase)
	}
	return ord, !l.r.failed
}

func (l *lifeMap) reopen() bool {
	phase := "commit and reopen"
	var err error
	if l.hr.Bool() {
		err = l.st.FastCommit(1 + l.hr.Intn(4))
	} else {
		err = l.st.NondeterministicFastCommit(1 + l.hr.Intn(4))
	}
	if err != nil {
		l.viol("commit fails after ordinary operations on the result", phase, err.Error())
		return false
	}
	st2 := newStorage(l.base)
	m2, err := atree.NewMapWithRootID(st2, l.m.SlabID(), l.mk())
	if err != nil {
		l.viol("result cannot be reopened by its root identifier after commit", phase, err.Error())
		return false
	}
	l.st, l.m = st2, m2
	if l.srcReopen != nil {
		l.srcReopen(st2)
	}
	return !l.r.failed
}

func (l *lifeMap) live(firstEpisodes int) {
	r := l.r
	h0, l0, i0, _, _, err := atree.VerifMapTreeShape(l.m)
	if err == nil {
		l.noteShape("built", l0, i0, h0)
		if l0 > 0 {
			l.perLeaf = max(2, len(l.vals)/l0)
		}
	}
	if _, ok := l.check("right after the construction"); !ok {
		return
	}
	l.burst("same session", firstEpisodes)
	if r.failed {
		return
	}
	ord1, ok := l.check("after the burst, same session")
	if !ok {
		return
	}
	if h1, l1, i1, _, _, err := atree.VerifMapTreeShape(l.m); err == nil {
		l.noteShape("after_burst", l1, i1, h1)
	}
	if !l.reopen() {
		return
	}
	ord2, ok := l.check("after commit and reopen")
	if !ok {
		return
	}
	if strings.Join(ord1, ";") != strings.Join(ord2, ";") {
		l.viol("iteration order differs before and after commit and reopen", "after commit and reopen", "")
		return
	}
	if l.hr.Chance(60) {
		l.budget = max(l.budget, 300)
		l.burst("after reopen", 2+l.hr.Intn(3))
		if r.failed {
			return
		}
		if _, ok := l.check("after the second burst"); !ok {
			return
		}
		if l.hr.Bool() && l.reopen() {
			l.check("after the second commit and reopen")
		}
	}
}

// fill a source map with n entries of a size mix; returns shadow
func lifeFillMap(hr *Rng, m *atree.OrderedMap, st *atree.PersistentSlabStorage, from, n int, mix int, stop func() bool,
	keys map[string]atree.Value, vals map[string]string) {
	keyLim := int(atree.MaxInlineMapKeySize())
	for i := from; i < from+n; i++ {
		var k atree.Value
		kid := uint64(i)*7 + uint64(hr.Intn(7))
		kk := hr.Pick(60, 25, 15)
		if mix == 0 {
			kk = 0
		}
		switch kk {
		case 0:
			k = testutils.Uint64Value(kid)
		case 1:
			k = testutils.NewStringValue(fmt.Sprintf("%d|%s", kid, strings.Repeat("k", hr.Intn(14))))
		default:
			k = testutils.NewStringValue(fmt.Sprintf("%d|%s", kid, strings.Repeat("k", max(0, keyLim-14+hr.Intn(6)))))
		}
		room := int(atree.MaxInlineMapElementSize()) - int(keyByteSize(k)) - 1
		var v atree.Value
		switch mix {
		case 0: // small
			v = testutils.Uint64Value(uint64(hr.Intn(1 << 16)))
		case 1: // near the inline limit
			v = testutils.NewStringValue(randStr(hr, max(1, room-5+hr.Intn(4))))
		default:
			switch hr.Pick(35, 30, 25, 10) {
			case 0:
				v = testutils.Uint64Value(uint64(hr.Intn(1 << 20)))
			case 1:
				v = testutils.NewStringValue(randStr(hr, 1+hr.Intn(max(1, room/2))))
			case 2:
				v = testutils.NewStringValue(randStr(hr, max(1, room-5+hr.Intn(4))))
			default:
				v = testutils.NewSomeValue(testutils.Uint64Value(uint64(i)))
			}
		}
		if stop != nil {
			// single-slab sources: stop before the root would have to split
			h := atree.VerifMapRootHeader(m)
			if int(h[1])+8+int(keyByteSize(k))+len(valStr(v))+8 > int(atree.VerifSettings()[0]) || stop() {
				break
			}
		}
		old, err := m.Set(testutils.CompareValue, testutils.GetHashInput, k, v)
		if err != nil {
			var cle *atree.CollisionLimitError
			if asErr(err, &cle) {
				continue
			}
			must(err)
		}
		if sid, ok := old.(atree.SlabIDStorable); ok {
			must(st.Remove(atree.SlabID(sid)))
		}
		keys[keyStr(k)] = k
		vals[keyStr(k)] = valStr(v)
	}
}

func (r *batchRun) lifeMapBatch(hr *Rng, maxLen, budget int) {
	T := r.T
	st6 := atree.VerifSettings()
	maxH := int((st6[2] - 12) / 18)
	mix := hr.Pick(35, 35, 30)
	per := []int{max(1, (int(T)-30)/17), 2, 4}[mix]
	L, class := lifeTargetLeaves(hr, maxH)
	cap3 := min(maxLen, 6000)
	n := L * per
	if class == 4 {
		n = hr.Intn(cap3 + 1)
	}
	if n > cap3 {
		mix, per = 1, 2
		n = L * per
	}
	for n > cap3 && class > 1 {
		class--
		switch class {
		case 2:
			L = maxH + 1 + hr.Intn(3*maxH)
		case 1:
			L = 2 + hr.Intn(maxH-1)
		}
		n = L * per
	}
	n = min(n, cap3) + hr.Intn(3)
	mod := uint64(0)
	if hr.Chance(25) {
		mod = uint64(max(4, n/(4+hr.Intn(20))))
		r.rep.Event("life_map_with_collisions")
	}
	mk := func() atree.DigesterBuilder {
		if mod != 0 {
			return newCollideL0Builder(mod)
		}
		return atree.NewDefaultDigesterBuilder()
	}
	base := NewLogBase()
	st := newStorage(base)
	srcSt := st
	sameStorage := true
	if hr.Chance(35) {
		srcSt = newStorage(NewLogBase())
		sameStorage = false
	}
	ti := uint64(50 + hr.Intn(3))
	src, err := atree.NewMap(srcSt, mkAddr(1), mk(), testutils.NewSimpleTypeInfo(ti))
	must(err)
	keys, vals := map[string]atree.Value{}, map[string]string{}
	lifeFillMap(hr, src, srcSt, 0, n, mix, nil, keys, vals)
	if class == 2 || class == 3 {
		// the estimate is rough: count the leaves of a throw-away build and extend the source if they are too few
		need := maxH + 1
		if class == 3 {
			need = maxH*maxH + 1
		}
		filled := n
		for it := 0; it < 3; it++ {
			pit, err := src.ReadOnlyIterator()
			must(err)
			probe, err := atree.NewMapFromBatchData(newStorage(NewLogBase()), mkAddr(3), mk(), testutils.NewSimpleTypeInfo(ti), testutils.CompareValue, testutils.GetHashInput, src.Seed(),
				func() (atree.Value, atree.Value, error) { return pit.Next() })
			if err != nil {
				break
			}
			_, lv, _, _, _, err := atree.VerifMapTreeShape(probe)
			if err != nil || lv == 0 || lv >= need {
				break
			}
			more := filled*(need+need/8)/lv - filled + 2
			if filled+more > cap3 {
				if class == 3 { // out of reach within the budget: settle for two or more index slabs on one level
					class, need = 2, maxH+1
					if lv >= need {
						break
					}
					more = min(more, cap3-filled)
				} else {
					more = cap3 - filled
				}
			}
			if more <= 0 {
				break
			}
			lifeFillMap(hr, src, srcSt, filled, more, mix, nil, keys, vals)
			filled += more
		}
	}
	addr := mkAddr(1 + uint64(hr.Intn(2)))
	c := &lifeCtx{r: r, hr: hr, base: base, st: st, what: lifeWhat[lifeMapBatch], budget: budget, maxLen: maxLen}
	if sameStorage {
		c.nRoots = 1
	}
	it, err := src.ReadOnlyIterator()
	must(err)
	r.rep.Op("life_map_batch")
	cp, err := atree.NewMapFromBatchData(st, addr, mk(), testutils.NewSimpleTypeInfo(ti), testutils.CompareValue, testutils.GetHashInput, src.Seed(),
		func() (atree.Value, atree.Value, error) { return it.Next() })
	if err != nil {
		c.viol("NewMapFromBatchData failed on the source's own order and seed", "build", fmt.Sprintf("n=%d: %v", len(vals), err))
		return
	}
	c.nRoots++
	srcFp, _ := mapFingerprint(src)
	srcPairs, _ := mapPairs(src)
	c.srcCheck = func(phase string) {
		if fp, _ := mapFingerprint(src); fp != srcFp {
			c.viol("operating on the result changed the source map", phase, "")
		}
	}
	c.srcReopen = func(st2 *atree.PersistentSlabStorage) {
		if !sameStorage {
			return
		}
		s2, err := atree.NewMapWithRootID(st2, src.SlabID(), mk())
		if err != nil {
			c.viol("source map cannot be reopened after the commit", "commit and reopen", err.Error())
			return
		}
		src = s2
		p2, err := mapPairs(s2)
		if err != nil || strings.Join(p2, ";") != strings.Join(srcPairs, ";") {
			c.viol("source map has a different content after commit and reopen", "commit and reopen", fmt.Sprint(err))
		}
		srcFp, _ = mapFingerprint(s2)
	}
	l := &lifeMap{lifeCtx: c, m: cp, addr: addr, ti: ti, mk: mk, keys: keys, vals: vals, perLeaf: per}
	l.live(4 + hr.Intn(7))
}

func (r *batchRun) lifeMapCopy(hr *Rng, maxLen, budget int) {
	T := r.T
	base := NewLogBase()
	st := newStorage(base)
	addr := mkAddr(1)
	c := &lifeCtx{r: r, hr: hr, base: base, st: st, what: lifeWhat[lifeMapCopy], budget: budget, maxLen: maxLen, nRoots: 1}
	ti := uint64(50 + hr.Intn(3))
	mk := func() atree.DigesterBuilder { return atree.NewDefaultDigesterBuilder() }
	src, err := atree.NewMap(st, addr, mk(), testutils.NewSimpleTypeInfo(ti))
	must(err)
	want := hr.Intn(60)
	cnt := 0
	keys, vals := map[string]atree.Value{}, map[string]string{}
	lifeFillMap(hr, src, st, 0, 200, hr.Pick(40, 20, 40), func() bool { cnt++; return cnt > want }, keys, vals)
	if !src.IsWithinSingleSlab() || !src.CanCopyNonRefSimple() {
		r.rep.Event("life_copy_source_not_copyable")
		return
	}
	dst := addr
	if hr.Bool() {
		dst = mkAddr(9)
	}
	r.rep.Op("life_map_copy")
	cp, err := src.CopyNonRefSimple(dst, mk())
	if err != nil {
		c.viol("CopyNonRefSimple failed although CanCopyNonRefSimple is true", "build", err.Error())
		return
	}
	c.nRoots = 2
	srcFp, _ := mapFingerprint(src)
	srcPairs, _ := mapPairs(src)
	c.srcCheck = func(phase string) {
		if fp, _ := mapFingerprint(src); fp != srcFp {
			c.viol("operating on the copy changed the source map", phase, "")
		}
	}
	c.srcReopen = func(st2 *atree.PersistentSlabStorage) {
		s2, err := atree.NewMapWithRootID(st2, src.SlabID(), mk())
		if err != nil {
			c.viol("source map cannot be reopened after the commit", "commit and reopen", err.Error())
			return
		}
		src = s2
		p2, err := mapPairs(s2)
		if err != nil || strings.Join(p2, ";") != strings.Join(srcPairs, ";") {
			c.viol("source map has a different content after commit and reopen", "commit and reopen", fmt.Sprint(err))
		}
		srcFp, _ = mapFingerprint(s2)
	}
	cpKeys := map[string]atree.Value{}
	cpVals := map[string]string{}
	for k, v := range keys {
		cpKeys[k] = v
	}
	for k, v := range vals {
		cpVals[k] = v
	}
	l := &lifeMap{lifeCtx: c, m: cp, addr: dst, ti: ti, mk: mk, keys: cpKeys, vals: cpVals, perLeaf: max(2, int(T)/24)}
	l.live(8 + hr.Intn(9))
	if r.failed {
		return
	}
	// the other direction: operate on the source, the copy keeps its content
	ls := &lifeMap{lifeCtx: &lifeCtx{r: r, hr: hr, base: base, st: l.st, what: "source of a map copied by CopyNonRefSimple", budget: 300, nRoots: 2},
		m: src, addr: addr, ti: ti, mk: mk, keys: keys, vals: vals, perLeaf: l.perLeaf, nextKey: 1 << 20}
	ls.burst("operating on the source", 3+hr.Intn(3))
	if r.failed {
		return
	}
	ls.check("after operating on the source")
	l.srcCheck = nil
	l.check("after operating on the source")
}

// ---------------------------------------------------------------------------------------------

const lifeRule = "mode life: -n histories, kinds in a fixed cycle (4 NewArrayFromBatchData, 2 ByteSliceToByteArray, 2 NewMapFromBatchData, 1 array CopyNonRefSimple, 1 map CopyNonRefSimple per 10), slab sizes {256,300,512,1024}; result shapes: single slab / one index slab / 2..4 index slabs on one level / three levels / free length (bounded by -steps*10 elements), streams from values or from the iterator of a source container in the same or another storage; then IN THE SAME SESSION 4..16 episodes of ordinary operations on the result (runs of inserts, removes, overwrites with bigger / smaller / external values at low, middle, high, 1/16-quantile and random positions, each up to three leaves long; appends, pops, front operations, scattered operations; maps: runs of new keys, removal / overwrite of neighbours in iteration order, scattered, absent keys); after every episode count + VerifyArray/VerifyMap; after the burst iteration, EVERY Get, sibling links, handed-back elements, type, storage health, source unchanged; commit, reopen in a new storage, same comparison (+ same iteration order for maps), second burst on the reopened result, second reopen; copies additionally: operate on the source, the copy keeps its content; plus max(10,n/10) histories blc<j> of the copyshare subcommand (sources with a past inside a nested world, copied and then operated on together with their copies, nested containers coming and going; see its rule). non-trivial = built result has two or more index slabs on one level"

func (r *batchRun) runLife(a Args, rng *Rng, maxLen int) {
	budget := max(600, a.Steps*8)
	for k := 0; k < a.N; k++ {
		hr := rng.Fork(uint64(k))
		tag := fmt.Sprintf("bl%d", k)
		if !want(tag) {
			continue
		}
		kind := lifeCycle[k%len(lifeCycle)]
		r.hist, r.tag, r.failed = 400000+k, tag, false
		r.T = lifeSizes[hr.Pick(40, 20, 25, 15)]
		atree.VerifSetThreshold(r.T)
		r.rep.Event("life_" + lifeKindNames[kind])
		r.rep.Event(fmt.Sprintf("life_T_%d", r.T))
		before := r.rep.Events["life_built_two_or_more_index_slabs_on_a_level"]
		r.guard(func() {
			switch kind {
			case lifeArrayBatch:
				r.lifeArrayBatch(hr, maxLen, budget)
			case lifeBytes:
				r.lifeBytes(hr, maxLen, budget)
			case lifeMapBatch:
				r.lifeMapBatch(hr, maxLen, budget)
			case lifeArrayCopy:
				r.lifeArrayCopy(hr, maxLen, budget)
			default:
				r.lifeMapCopy(hr, maxLen, budget)
			}
		})
		if r.rep.Events["life_built_two_or_more_index_slabs_on_a_level"] > before {
			r.rep.Distinct(fmt.Sprintf("l/%d/%d/%d", kind, r.T, k))
		}
		if r.failed {
			r.rep.Event("life_history_with_violation")
		}
		r.lifeHists++
	}
	// histories blc<j>: copies (all five ways) of sources WITH A PAST inside a random nested world, then life
	// of both the copy and the source with nested containers coming and going (copyshare_cmd.go).  An
	// independent stream after the loop above, so that the histories bl<k> are what they always were.
	cr := rng.Fork(0xC0B1E5)
	steps := min(100, max(20, a.Steps))
	for j := 0; j < max(10, a.N/10); j++ {
		hr := cr.Fork(uint64(j))
		tag := fmt.Sprintf("blc%d", j)
		if !want(tag) {
			continue
		}
		r.rep.Event("life_copy_world")
		r.lifeSteps += csHistory(r.rep, 450000+j, tag, hr, steps)
		r.lifeHists++
	}
}
