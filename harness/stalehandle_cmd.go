//go:build verif

package main

// stalehandle_cmd.go — C08/C11: a handle to a nested container obtained BEFORE a cache eviction keeps
// working after the container has been taken out of its parent.
//
// History (one wrapper per container): a committed multi-slab parent (array or map) holds a small child
// (array or map, inlined, possibly wrapped) at a random slot; a fresh storage is opened on the ledger, the
// child's handle is obtained through the parent, then — under schedule s — the child is removed from /
// overwritten in the parent and afterwards grown through the OLD handle until its root slab splits;
// commit; reopen; the detached child must hold exactly the shadow content, the parent must verify and no
// longer hold it.  Schedules (C08: cache evictions between operations never change an outcome):
//   0 no eviction, 1 DropCache after obtaining the handle, 2 DropCache after the detach,
//   3 DropCache at both points, 4 commit + DropCache after obtaining the handle.
// Every observable (errors, counts, content after reopen, registers of the detached child and of the
// parent) must be the same under every schedule.

import (
	"crypto/sha256"
	"fmt"

	"github.com/onflow/atree"
	testutils "github.com/onflow/atree/test_utils"
)

func init() { register("stalehandle", cmdStaleHandle) }

type shCase struct {
	T          uint32
	parentMap  bool
	childMap   bool
	wrapped    bool
	n          int // scalar elements of the parent
	pos        int
	childInit  int
	grow       int
	overwrite  bool // detach by overwriting the slot instead of removing it
	touchFirst bool // mutate the child once through the handle before the detach
}

func shChildValue(c shCase, v atree.Value) atree.Value {
	if c.wrapped {
		return testutils.NewSomeValue(v)
	}
	return v
}

// shRun executes the case under one schedule and returns a fingerprint of everything observable
func shRun(c shCase, sched int) (fp string, failure string) {
	atree.VerifSetThreshold(c.T)
	ti := testutils.NewSimpleTypeInfo(42)
	addr := mkAddr(3)
	base := NewLogBase()
	st := newStorage(base)
	cmpv, hip := testutils.CompareValue, testutils.GetHashInput

	var parr *atree.Array
	var pmap *atree.OrderedMap
	var err error
	if c.parentMap {
		pmap, err = atree.NewMap(st, addr, atree.NewDefaultDigesterBuilder(), ti)
	} else {
		parr, err = atree.NewArray(st, addr, ti)
	}
	must(err)
	for i := 0; i < c.n; i++ {
		if c.parentMap {
			_, err = pmap.Set(cmpv, hip, testutils.Uint64Value(i), testutils.Uint64Value(i*7))
		} else {
			err = parr.Append(testutils.Uint64Value(i * 7))
		}
		must(err)
	}
	var child atree.Value
	if c.childMap {
		m, e := atree.NewMap(st, addr, atree.NewDefaultDigesterBuilder(), ti)
		must(e)
		for i := 0; i < c.childInit; i++ {
			_, e = m.Set(cmpv, hip, testutils.Uint64Value(i), testutils.Uint64Value(i))
			must(e)
		}
		child = m
	} else {
		a, e := atree.NewArray(st, addr, ti)
		must(e)
		for i := 0; i < c.childInit; i++ {
			must(a.Append(testutils.Uint64Value(i)))
		}
		child = a
	}
	key := testutils.Uint64Value(1000000 + c.pos)
	if c.parentMap {
		_, err = pmap.Set(cmpv, hip, key, shChildValue(c, child))
	} else {
		err = parr.Insert(uint64(c.pos), shChildValue(c, child))
	}
	must(err)
	must(st.FastCommit(2))

	// the session under test: fresh storage over the ledger
	st2 := newStorage(base)
	var rootID atree.SlabID
	if c.parentMap {
		rootID = pmap.SlabID()
		pmap, err = atree.NewMapWithRootID(st2, rootID, atree.NewDefaultDigesterBuilder())
	} else {
		rootID = parr.SlabID()
		parr, err = atree.NewArrayWithRootID(st2, rootID)
	}
	if err != nil {
		return "", "C08: committed parent cannot be reopened: " + err.Error()
	}
	var got atree.Value
	if c.parentMap {
		got, err = pmap.Get(cmpv, hip, key)
	} else {
		got, err = parr.Get(uint64(c.pos))
	}
	if err != nil {
		return "", "C08: child cannot be read through the reopened parent: " + err.Error()
	}
	if sv, ok := got.(testutils.SomeValue); ok {
		got = sv.Value
	}
	var harr *atree.Array
	var hmap *atree.OrderedMap
	var childID atree.SlabID
	if c.childMap {
		hmap = got.(*atree.OrderedMap)
	} else {
		harr = got.(*atree.Array)
	}
	count := c.childInit
	add := func() error {
		var e error
		if c.childMap {
			_, e = hmap.Set(cmpv, hip, testutils.Uint64Value(count), testutils.Uint64Value(count))
		} else {
			e = harr.Append(testutils.Uint64Value(count))
		}
		if e == nil {
			count++
		}
		return e
	}
	if c.touchFirst {
		if e := add(); e != nil {
			return "", "C10: mutation through the handle of an attached child failed: " + e.Error()
		}
	}
	if sched == 1 || sched == 3 {
		st2.DropCache()
	}
	if sched == 4 {
		if e := st2.FastCommit(2); e != nil {
			return "", "C08: commit failed: " + e.Error()
		}
		st2.DropCache()
	}
	// detach
	var old atree.Storable
	if c.parentMap {
		if c.overwrite {
			old, err = pmap.Set(cmpv, hip, key, testutils.Uint64Value(5))
		} else {
			_, old, err = pmap.Remove(cmpv, hip, key)
		}
	} else {
		if c.overwrite {
			old, err = parr.Set(uint64(c.pos), testutils.Uint64Value(5))
		} else {
			old, err = parr.Remove(uint64(c.pos))
		}
	}
	if err != nil {
		return "", "C11: removing/overwriting the child in its parent failed: " + err.Error()
	}
	_ = old // the caller keeps using its handle; the returned reference names the same container
	if sched == 2 || sched == 3 {
		st2.DropCache()
	}
	// grow through the OLD handle
	for i := 0; i < c.grow; i++ {
		if e := add(); e != nil {
			return "", fmt.Sprintf("C11: mutation %d through the handle of the detached container failed: %v", i, e)
		}
	}
	if e := st2.FastCommit(2); e != nil {
		return "", "C11: commit after mutating a detached container through its handle failed: " + e.Error()
	}
	// reopen and compare (an inlined container has no slab identifier of its own; the detached one has)
	if c.childMap {
		childID = hmap.SlabID()
	} else {
		childID = harr.SlabID()
	}
	st3 := newStorage(base)
	fp = fmt.Sprintf("count=%d;", count)
	if c.childMap {
		m3, e := atree.NewMapWithRootID(st3, childID, atree.NewDefaultDigesterBuilder())
		if e != nil {
			return "", "C11: the detached container cannot be reloaded by its identifier: " + e.Error()
		}
		if m3.Count() != uint64(count) {
			return "", fmt.Sprintf("C11: the reloaded detached map has %d entries, the handle wrote %d", m3.Count(), count)
		}
		for i := 0; i < count; i++ {
			v, e := m3.Get(cmpv, hip, testutils.Uint64Value(i))
			if e != nil || v != testutils.Uint64Value(i) {
				return "", fmt.Sprintf("C11: the reloaded detached map lost key %d (%v)", i, e)
			}
		}
		if e := atree.VerifyMap(m3, addr, ti, testutils.CompareTypeInfo, hip, true); e != nil {
			return "", "C11: the reloaded detached map is not valid: " + e.Error()
		}
	} else {
		a3, e := atree.NewArrayWithRootID(st3, childID)
		if e != nil {
			return "", "C11: the detached container cannot be reloaded by its identifier: " + e.Error()
		}
		if a3.Count() != uint64(count) {
			return "", fmt.Sprintf("C11: the reloaded detached array has %d elements, the handle wrote %d", a3.Count(), count)
		}
		for i := 0; i < count; i++ {
			v, e := a3.Get(uint64(i))
			if e != nil || v != testutils.Uint64Value(i) {
				return "", fmt.Sprintf("C11: the reloaded detached array differs at %d (%v)", i, e)
			}
		}
		if e := atree.VerifyArray(a3, addr, ti, testutils.CompareTypeInfo, hip, true); e != nil {
			return "", "C11: the reloaded detached array is not valid: " + e.Error()
		}
	}
	if c.parentMap {
		p3, e := atree.NewMapWithRootID(st3, rootID, atree.NewDefaultDigesterBuilder())
		if e != nil {
			return "", "C11: the former parent cannot be reloaded: " + e.Error()
		}
		want := uint64(c.n)
		if c.overwrite {
			want++
		}
		if p3.Count() != want {
			return "", fmt.Sprintf("C11: the former parent has %d entries, expected %d", p3.Count(), want)
		}
		if e := atree.VerifyMap(p3, addr, ti, testutils.CompareTypeInfo, hip, true); e != nil {
			return "", "C11: the former parent is not valid: " + e.Error()
		}
	} else {
		p3, e := atree.NewArrayWithRootID(st3, rootID)
		if e != nil {
			return "", "C11: the former parent cannot be reloaded: " + e.Error()
		}
		want := uint64(c.n)
		if c.overwrite {
			want++
		}
		if p3.Count() != want {
			return "", fmt.Sprintf("C11: the former parent has %d elements, expected %d", p3.Count(), want)
		}
		if e := atree.VerifyArray(p3, addr, ti, testutils.CompareTypeInfo, hip, true); e != nil {
			return "", "C11: the former parent is not valid: " + e.Error()
		}
	}
	// registers: the final ledger must not depend on the schedule
	hsh := sha256.New()
	for _, id := range base.SortedIDs() {
		fmt.Fprintf(hsh, "%s:%x;", id, base.Segs[id])
	}
	fp += fmt.Sprintf("%x", hsh.Sum(nil))
	return fp, ""
}

func cmdStaleHandle(a Args) {
	rep := NewReport(a.Prop, a.Seed)
	rep.Rule = "a committed multi-slab parent (array or map, 3..600 scalars, slab sizes 256/512/1024) holds a small inlined child (array or map, possibly wrapped); in a fresh storage the child's handle is obtained through the parent, optionally used once, then under schedule {no eviction, DropCache after obtaining the handle, DropCache after the detach, both, commit+DropCache} the child is removed from or overwritten in the parent and grown through the OLD handle until its root splits; commit; reopen: the detached container reloads with exactly what the handle wrote, the former parent verifies without it; errors, content and final registers are the same under every schedule. non-trivial = the parent has more than one slab (the slab holding the inlined child can be evicted)"
	rng := NewRng(a.Seed)
	defer atree.VerifSetThreshold(1024)
	n := a.N
	if n <= 0 {
		n = 200
	}
	for h := 0; h < n; h++ {
		hr := rng.Fork(uint64(h))
		tag := fmt.Sprintf("sh%d", h)
		if !want(tag) {
			continue
		}
		c := shCase{T: []uint32{256, 512, 1024}[hr.Intn(3)], parentMap: hr.Bool(), childMap: hr.Bool(), wrapped: hr.Chance(30),
			childInit: hr.Intn(4), overwrite: hr.Chance(40), touchFirst: hr.Chance(40)}
		c.n = []int{3, 40, 150, 400, 600}[hr.Intn(5)]
		c.pos = hr.Intn(c.n + 1)
		c.grow = []int{1, 10, 120, 400}[hr.Intn(4)]
		rep.Histories++
		if c.n >= 40 {
			rep.Distinct(fmt.Sprintf("%+v", c))
		}
		var ref string
		for sched := 0; sched < 5; sched++ {
			var fp, failure string
			func() {
				defer func() {
					if r := recover(); r != nil {
						failure = fmt.Sprintf("C08: panic in the implementation: %v", r)
					}
				}()
				fp, failure = shRun(c, sched)
			}()
			rep.Steps++
			rep.Op(fmt.Sprintf("schedule_%d", sched))
			if failure != "" {
				rep.Violate(h, tag, sched, failure, fmt.Sprintf("schedule %d case %+v", sched, c))
				break
			}
			if sched == 0 {
				ref = fp
			} else if fp != ref {
				rep.Violate(h, tag, sched, "C08: content or final registers differ between cache schedules", fmt.Sprintf("schedule %d vs 0, case %+v", sched, c))
				break
			}
		}
	}
	rep.Sample("case: parent kind/size, child kind, wrapped, slot, initial size, growth, detach by remove/overwrite; 5 cache schedules each")
	rep.Write(a.Out + "/report.json")
}
