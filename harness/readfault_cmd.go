//go:build verif

package main

// readfault_cmd.go — transient ledger READ faults at every call index of every operation, then retry.
//
// A scenario is a committed container tree (flat multi-slab array / map, or a parent holding inlined
// and multi-slab child containers).  Every case starts from a byte copy of the committed ledger and a
// FRESH PersistentSlabStorage (cold cache), obtains the target container by its root identifier (or
// through its parent, optionally dropping the read cache again), and executes ONE operation with the
// k-th ledger read failing once.  For every k below the number of reads the fault-free twin performs:
//
//   * read-only requests (Get/Has, every iterator flavour, incl. retrying Next() on the SAME iterator)
//     and the reads of the DESCENT of a mutation (the reads the lookup of the same index/key does):
//       - the request fails with an ExternalError wrapping the ledger's error, or succeeds;
//       - if it failed it left no trace: deep dump of the root (all slabs, cached counts/sizes,
//         elements), Count() of root and target, VerifyArray/VerifyMap as before           (C18)
//       - the RETRY of the same request returns what the twin that never saw a fault returned,
//         the content read through the public API and the slab tree equal the twin's, and after
//         commit the registers are byte-identical to the twin's                     (C01 / C02 / C13)
//   * reads after the point of mutation (rebalancing, propagation to a parent) and PopIterate are
//     executed as well, but only watched for panics (the unchanged library is not atomic there).
//
// Nothing here knows what the operations are supposed to return: the oracle is the twin.
//
// Modes `iter` (default of -prop C13) and `retry` additionally run the iterator retry matrix of
// readfault_iter.go on every scenario: every iterator object x every advancing method (and mixtures)
// x a transient fault at the reads of the drain, the failed call retried on the same iterator.

import (
	"errors"
	"fmt"
	"strings"

	"github.com/onflow/atree"
	testutils "github.com/onflow/atree/test_utils"
)

func init() { register("readfault", cmdReadFault) }

// ---------- value specifications (pure data: a scenario is a function of its seed) ----------

const (
	rfUint = iota
	rfStr
	rfArr
	rfMap
)

type rfSpec struct {
	kind  int
	n     uint64
	s     string
	some  bool      // wrapped in SomeValue
	elems []*rfSpec // array elements / map values
	keys  []*rfSpec // map keys (scalars, pairwise distinct)
}

func (v *rfSpec) isCont() bool { return v.kind == rfArr || v.kind == rfMap }

var (
	rfArrTI = testutils.NewSimpleTypeInfo(41)
	rfMapTI = testutils.NewSimpleTypeInfo(51)
)

func rfScalar(r *Rng, large bool) *rfSpec {
	switch r.Pick(50, 35, 15) {
	case 0:
		bs := []uint64{0, 23, 24, 255, 256, 65535, 65536, 1 << 32, 1<<64 - 1}
		if r.Chance(30) {
			return &rfSpec{kind: rfUint, n: bs[r.Intn(len(bs))]}
		}
		return &rfSpec{kind: rfUint, n: r.U64() >> uint(r.Intn(60))}
	case 1:
		return &rfSpec{kind: rfStr, s: randStr(r, 1+r.Intn(20))}
	default:
		if large {
			return &rfSpec{kind: rfStr, s: randStr(r, int(atree.MaxInlineArrayElementSize())+r.Intn(120))} // its own slab
		}
		return &rfSpec{kind: rfStr, s: randStr(r, 20+r.Intn(20))}
	}
}

// rfKey makes the i-th key of a map: distinct by construction.
func rfKey(r *Rng, i int, large bool) *rfSpec {
	switch {
	case large && i%29 == 13:
		return &rfSpec{kind: rfStr, s: fmt.Sprintf("K%05d%s", i, strings.Repeat("y", int(atree.MaxInlineMapKeySize())+i%7))} // key in its own slab
	case i%3 == 0:
		return &rfSpec{kind: rfStr, s: fmt.Sprintf("k%05d%s", i, strings.Repeat("x", i%11))}
	default:
		return &rfSpec{kind: rfUint, n: uint64(i)*1000003 + uint64(r.Intn(1000))*1000000007}
	}
}

// rfCont makes a container with n elements; nested children only if depth > 0.
func rfCont(r *Rng, isMap bool, n int, depth int, scale int) *rfSpec {
	c := &rfSpec{kind: rfArr}
	if isMap {
		c.kind = rfMap
	}
	kids := 10 + r.Intn(14) // bound on the number of child containers of one container
	for i := 0; i < n; i++ {
		var e *rfSpec
		if depth > 0 && kids > 0 && r.Chance(12) {
			kids--
			switch r.Pick(45, 25, 30) {
			case 0: // small, inlinable
				e = rfCont(r, r.Chance(40), r.Intn(4), 0, scale)
			case 1: // around the inline limit
				e = rfCont(r, r.Chance(40), 6+r.Intn(10), 0, scale)
			default: // its own slab tree, several slabs
				e = rfCont(r, r.Chance(40), (40+r.Intn(90))*scale, depth-1, scale)
			}
			e.some = r.Chance(15)
		} else {
			e = rfScalar(r, r.Chance(25))
			e.some = r.Chance(5)
		}
		c.elems = append(c.elems, e)
		if isMap {
			c.keys = append(c.keys, rfKey(r, i, true))
		}
	}
	return c
}

func (v *rfSpec) scalarValue() atree.Value {
	var x atree.Value
	if v.kind == rfUint {
		x = testutils.Uint64Value(v.n)
	} else {
		x = testutils.NewStringValue(v.s)
	}
	return x
}

// rfBuild materialises a specification in the storage (children are complete before they are attached).
func rfBuild(st *atree.PersistentSlabStorage, addr atree.Address, v *rfSpec, rootDigester atree.DigesterBuilder) atree.Value {
	var out atree.Value
	switch v.kind {
	case rfArr:
		a, err := atree.NewArray(st, addr, rfArrTI)
		must(err)
		for _, e := range v.elems {
			must(a.Append(rfBuild(st, addr, e, nil)))
		}
		out = a
	case rfMap:
		db := rootDigester
		if db == nil {
			db = atree.NewDefaultDigesterBuilder()
		}
		m, err := atree.NewMap(st, addr, db, rfMapTI)
		must(err)
		for i, e := range v.elems {
			old, err := m.Set(testutils.CompareValue, testutils.GetHashInput, v.keys[i].scalarValue(), rfBuild(st, addr, e, nil))
			must(err)
			if old != nil {
				panic("readfault: duplicate key in specification")
			}
		}
		out = m
	default:
		out = v.scalarValue()
	}
	if v.some {
		out = testutils.NewSomeValue(out)
	}
	return out
}

// ---------- scenario ----------

type rfStep struct {
	idx int // position in the parent's specification (array index / index into keys)
}

type rfScenario struct {
	T      uint32
	kind   string
	root   *rfSpec
	mod    uint64 // root map: 0 = default digester, else first-level digests folded modulo mod
	base   *LogBase
	rootID atree.SlabID
	addr   atree.Address
}

func (sc *rfScenario) digester() atree.DigesterBuilder {
	if sc.mod == 0 {
		return atree.NewDefaultDigesterBuilder()
	}
	return newCollideL0Builder(sc.mod)
}

func rfNewScenario(r *Rng, mode string) *rfScenario {
	sc := &rfScenario{addr: mkAddr(21)}
	sc.T = []uint32{256, 256, 256, 512}[r.Intn(4)]
	scale := int(sc.T / 256)
	var kinds []string
	switch mode {
	case "array":
		kinds = []string{"arr", "arr", "arr", "narr", "narr"}
	case "map":
		kinds = []string{"map", "map", "map", "nmap", "nmap"}
	default:
		kinds = []string{"arr", "arr", "map", "map", "narr", "nmap"}
	}
	sc.kind = kinds[r.Intn(len(kinds))]
	switch sc.kind {
	case "arr":
		n := (40 + r.Intn(160)) * scale
		if r.Chance(45) {
			n = (380 + r.Intn(420)) * scale // two levels of index slabs at T=256
		}
		sc.root = rfCont(r, false, n, 0, scale)
	case "map":
		n := (30 + r.Intn(120)) * scale
		if r.Chance(35) {
			n = (250 + r.Intn(250)) * scale
		}
		sc.root = rfCont(r, true, n, 0, scale)
		if r.Chance(55) {
			sc.mod = uint64(3 + r.Intn(n/4+1)) // collision groups, some of them external
		}
	case "narr":
		sc.root = rfCont(r, false, (60+r.Intn(200))*scale, 1+r.Intn(2), scale)
	default:
		sc.root = rfCont(r, true, (40+r.Intn(120))*scale, 1+r.Intn(2), scale)
		if r.Chance(30) {
			sc.mod = uint64(5 + r.Intn(30))
		}
	}
	if sc.kind == "narr" || sc.kind == "nmap" {
		// make sure there is at least one multi-slab child of each kind
		for _, isMap := range []bool{false, true} {
			c := rfCont(r, isMap, (50+r.Intn(100))*scale, 0, scale)
			pos := r.Intn(len(sc.root.elems))
			sc.root.elems[pos] = c
		}
	}
	atree.VerifSetThreshold(sc.T)
	sc.base = NewLogBase()
	st := newStorage(sc.base)
	var db atree.DigesterBuilder
	if sc.root.kind == rfMap {
		db = sc.digester()
	}
	root := rfBuild(st, sc.addr, sc.root, db)
	switch x := root.(type) {
	case *atree.Array:
		sc.rootID = x.SlabID()
	case *atree.OrderedMap:
		sc.rootID = x.SlabID()
	}
	must(st.FastCommit(2))
	return sc
}

// ---------- one live instance of the scenario (fresh process) ----------

type rfInst struct {
	sc   *rfScenario
	base *LogBase
	st   *atree.PersistentSlabStorage
	root atree.Value
	tgt  atree.Value
}

func (sc *rfScenario) specAt(path []rfStep) *rfSpec {
	s := sc.root
	for _, p := range path {
		s = s.elems[p.idx]
	}
	return s
}

// open: copy of the ledger, fresh storage, root by identifier, target through its ancestors.
func (sc *rfScenario) open(path []rfStep, drop bool) *rfInst {
	in := &rfInst{sc: sc, base: sc.base.Clone()}
	in.st = newStorage(in.base)
	if sc.root.kind == rfArr {
		a, err := atree.NewArrayWithRootID(in.st, sc.rootID)
		must(err)
		in.root = a
	} else {
		m, err := atree.NewMapWithRootID(in.st, sc.rootID, sc.digester())
		must(err)
		in.root = m
	}
	cur, spec := in.root, sc.root
	for _, p := range path {
		var v atree.Value
		var err error
		switch c := cur.(type) {
		case *atree.Array:
			v, err = c.Get(uint64(p.idx))
		case *atree.OrderedMap:
			v, err = c.Get(testutils.CompareValue, testutils.GetHashInput, spec.keys[p.idx].scalarValue())
		}
		must(err)
		cur = unwrapValueAll(v)
		spec = spec.elems[p.idx]
	}
	in.tgt = cur
	if drop {
		in.st.DropCache()
	}
	return in
}

func rfCount(v atree.Value) uint64 {
	switch x := v.(type) {
	case *atree.Array:
		return x.Count()
	case *atree.OrderedMap:
		return x.Count()
	}
	return 0
}

func (in *rfInst) verify() error {
	switch x := in.root.(type) {
	case *atree.Array:
		return atree.VerifyArray(x, in.sc.addr, rfArrTI, testutils.CompareTypeInfo, testutils.GetHashInput, true)
	case *atree.OrderedMap:
		return atree.VerifyMap(x, in.sc.addr, rfMapTI, testutils.CompareTypeInfo, testutils.GetHashInput, true)
	}
	return nil
}

func (in *rfInst) deep() string {
	d, err := atree.VerifDeepDump(in.st, in.root)
	if err != nil {
		d += " !" + err.Error()
	}
	return d
}

// state: everything a failed request must leave alone (verification only for mutations: it is the
// expensive part and a lookup / iteration is compared by its deep dump at every fault position).
func (in *rfInst) state(verify bool) string {
	s := fmt.Sprintf("count(root)=%d count(target)=%d ", rfCount(in.root), rfCount(in.tgt))
	if verify {
		if err := in.verify(); err != nil {
			s += "verify: " + err.Error() + " "
		}
	}
	return s + in.deep()
}

// ---------- rendering through the public API ----------

const rfMaxDepth = 8

func rfRenderValue(v atree.Value, depth int) string {
	if depth > rfMaxDepth {
		return "<deep>"
	}
	switch x := v.(type) {
	case nil:
		return "nil"
	case testutils.SomeValue:
		inner, _ := x.UnwrapAtreeValue()
		return "Some(" + rfRenderValue(inner, depth+1) + ")"
	case *atree.Array:
		var sb strings.Builder
		fmt.Fprintf(&sb, "[%d:", x.Count())
		n := uint64(0)
		err := x.IterateReadOnly(func(e atree.Value) (bool, error) {
			sb.WriteByte(' ')
			sb.WriteString(rfRenderValue(e, depth+1))
			n++
			return n <= x.Count()+4, nil
		})
		if err != nil {
			sb.WriteString(" !" + err.Error())
		}
		sb.WriteByte(']')
		return sb.String()
	case *atree.OrderedMap:
		var sb strings.Builder
		fmt.Fprintf(&sb, "{%d:", x.Count())
		n := uint64(0)
		err := x.IterateReadOnly(func(k, e atree.Value) (bool, error) {
			sb.WriteByte(' ')
			sb.WriteString(rfRenderValue(k, depth+1))
			sb.WriteByte('=')
			sb.WriteString(rfRenderValue(e, depth+1))
			n++
			return n <= x.Count()+4, nil
		})
		if err != nil {
			sb.WriteString(" !" + err.Error())
		}
		sb.WriteByte('}')
		return sb.String()
	}
	return fmt.Sprintf("%T:%v", v, v)
}

// rfPublic: what a client sees: Count, every position through Get / every key through Get, and the
// read-only iteration.
func rfPublic(v atree.Value, keys []atree.Value) string {
	var sb strings.Builder
	switch x := v.(type) {
	case *atree.Array:
		n := x.Count()
		fmt.Fprintf(&sb, "Count=%d Get:", n)
		for i := uint64(0); i < n; i++ {
			e, err := x.Get(i)
			if err != nil {
				fmt.Fprintf(&sb, " %d:!%v", i, err)
				continue
			}
			sb.WriteByte(' ')
			sb.WriteString(rfRenderValue(e, 1))
		}
		if _, err := x.Get(n); err == nil {
			sb.WriteString(" Get(Count) succeeded")
		}
	case *atree.OrderedMap:
		fmt.Fprintf(&sb, "Count=%d Get:", x.Count())
		for _, k := range keys {
			e, err := x.Get(testutils.CompareValue, testutils.GetHashInput, k)
			if err != nil {
				var knf *atree.KeyNotFoundError
				if errors.As(err, &knf) {
					continue
				}
				fmt.Fprintf(&sb, " %v:!%v", k, err)
				continue
			}
			fmt.Fprintf(&sb, " %v=%s", k, rfRenderValue(e, 1))
		}
	}
	sb.WriteString(" Iterate:")
	sb.WriteString(rfRenderValue(v, 0))
	return sb.String()
}

// ---------- operations ----------

type rfOut struct {
	vals    []any
	retries int
}

func (o *rfOut) add(x any) { o.vals = append(o.vals, x) }

func rfRenderOut(st atree.SlabStorage, o *rfOut) string {
	var sb strings.Builder
	for i, x := range o.vals {
		if i > 0 {
			sb.WriteByte(' ')
		}
		switch v := x.(type) {
		case nil:
			sb.WriteString("nil")
		case string:
			sb.WriteString(v)
		case atree.Storable:
			sv, err := v.StoredValue(st)
			if err != nil {
				sb.WriteString("!" + err.Error())
			} else {
				sb.WriteString(rfRenderValue(sv, 1))
			}
		case atree.Value:
			sb.WriteString(rfRenderValue(v, 1))
		default:
			fmt.Fprintf(&sb, "%v", v)
		}
	}
	return sb.String()
}

type rfOp struct {
	name    string
	fam     string // property the request belongs to: C01 array requests, C02 map requests, C13 iteration
	path    []rfStep
	drop    bool
	weak    bool                                    // never atomic in the unchanged library (PopIterate): panics only
	roMap   bool                                    // read-only map iterator retried on the same iterator
	prep    func(in *rfInst) any                    // creates the values the request needs (no ledger reads)
	run     func(in *rfInst, p any, o *rfOut) error // the request (may be called again = retry)
	descent func(in *rfInst)                        // the lookup whose reads are the descent of the mutation; nil: all reads
	keys    []atree.Value                           // keys to look at in the final state of a map target
}

func rfIsInjected(err error) bool {
	return err != nil && (errors.Is(err, errInjected) || strings.Contains(err.Error(), errInjected.Error()))
}

func rfErrSig(err error) string {
	if err == nil {
		return ""
	}
	return fmt.Sprintf(" error %T: %v", err, err)
}

const rfRetryLimit = 3

// drainArr: Next() until the end; a failed Next() is retried on the SAME iterator.
func rfDrainArr(it atree.ArrayIterator, bound uint64, o *rfOut) error {
	for n := uint64(0); ; {
		v, err := it.Next()
		if err != nil {
			if rfIsInjected(err) && o.retries < rfRetryLimit {
				o.retries++
				continue
			}
			return err
		}
		if v == nil {
			return nil
		}
		o.add(v)
		if n++; n > bound {
			return fmt.Errorf("iterator yielded more than %d elements", bound)
		}
	}
}

func rfDrainMap(it atree.MapIterator, pattern []int, bound uint64, o *rfOut) error {
	for n := uint64(0); ; {
		var k, v atree.Value
		var err error
		mode := pattern[int(n)%len(pattern)]
		switch mode {
		case 0:
			k, v, err = it.Next()
		case 1:
			k, err = it.NextKey()
		default:
			v, err = it.NextValue()
			k = v
		}
		if err != nil {
			if rfIsInjected(err) && o.retries < rfRetryLimit {
				o.retries++
				continue
			}
			return err
		}
		if k == nil {
			return nil
		}
		switch mode {
		case 0:
			o.add("k")
			o.add(k)
			o.add("v")
			o.add(v)
		case 1:
			o.add("k")
			o.add(k)
		default:
			o.add("v")
			o.add(v)
		}
		if n++; n > bound {
			return fmt.Errorf("iterator yielded more than %d elements", bound)
		}
	}
}

// rfNewValSpec: a value for Set/Insert.
func rfNewValSpec(r *Rng, scale int) *rfSpec {
	switch r.Pick(45, 15, 15, 10, 15) {
	case 0:
		return rfScalar(r, false)
	case 1:
		return rfScalar(r, true)
	case 2:
		return rfCont(r, r.Bool(), r.Intn(4), 0, scale)
	case 3:
		return rfCont(r, r.Bool(), (30+r.Intn(40))*scale, 0, scale)
	default:
		v := rfScalar(r, false)
		v.some = true
		return v
	}
}

func (sc *rfScenario) arrayOps(r *Rng, path []rfStep, drop bool, ts *rfSpec, fams map[string]bool) []rfOp {
	n := uint64(len(ts.elems))
	scale := int(sc.T / 256)
	idx := func(max uint64) uint64 { // max exclusive
		if max == 0 {
			return 0
		}
		switch r.Intn(10) {
		case 0:
			return 0
		case 1:
			return max - 1
		}
		return uint64(r.Intn(int(max)))
	}
	arr := func(in *rfInst) *atree.Array { return in.tgt.(*atree.Array) }
	lookup := func(i uint64) func(in *rfInst) {
		return func(in *rfInst) { _, _ = atree.VerifArrayGetStorable(arr(in), i) }
	}
	mk := func(name, fam string) rfOp { return rfOp{name: name, fam: fam, path: path, drop: drop} }
	var ops []rfOp
	if fams["C01"] {
		for _, kind := range []int{0, 1, 2, 3, 4, 4} {
			if n == 0 && kind != 2 && kind != 3 {
				continue
			}
			switch kind {
			case 0:
				i := idx(n)
				op := mk(fmt.Sprintf("Array.Get(%d)", i), "C01")
				op.run = func(in *rfInst, _ any, o *rfOut) error {
					v, err := arr(in).Get(i)
					if err == nil {
						o.add(v)
					}
					return err
				}
				ops = append(ops, op)
			case 1:
				i := idx(n)
				vs := rfNewValSpec(r, scale)
				op := mk(fmt.Sprintf("Array.Set(%d, %s)", i, rfSpecName(vs)), "C01")
				op.prep = func(in *rfInst) any { return rfBuild(in.st, sc.addr, vs, nil) }
				op.run = func(in *rfInst, p any, o *rfOut) error {
					old, err := arr(in).Set(i, p.(atree.Value))
					if err == nil {
						o.add(old)
					}
					return err
				}
				op.descent = lookup(i)
				ops = append(ops, op)
			case 2:
				i := idx(n + 1)
				vs := rfNewValSpec(r, scale)
				op := mk(fmt.Sprintf("Array.Insert(%d, %s)", i, rfSpecName(vs)), "C01")
				op.prep = func(in *rfInst) any { return rfBuild(in.st, sc.addr, vs, nil) }
				op.run = func(in *rfInst, p any, o *rfOut) error { return arr(in).Insert(i, p.(atree.Value)) }
				if i < n {
					op.descent = lookup(i)
				} else if n > 0 {
					op.descent = lookup(n - 1)
				} else {
					op.descent = func(*rfInst) {}
				}
				ops = append(ops, op)
			case 3:
				vs := rfNewValSpec(r, scale)
				op := mk(fmt.Sprintf("Array.Append(%s)", rfSpecName(vs)), "C01")
				op.prep = func(in *rfInst) any { return rfBuild(in.st, sc.addr, vs, nil) }
				op.run = func(in *rfInst, p any, o *rfOut) error { return arr(in).Append(p.(atree.Value)) }
				if n > 0 {
					op.descent = lookup(n - 1)
				} else {
					op.descent = func(*rfInst) {}
				}
				ops = append(ops, op)
			default:
				i := idx(n)
				op := mk(fmt.Sprintf("Array.Remove(%d)", i), "C01")
				op.run = func(in *rfInst, _ any, o *rfOut) error {
					old, err := arr(in).Remove(i)
					if err == nil {
						o.add(old)
					}
					return err
				}
				op.descent = lookup(i)
				ops = append(ops, op)
			}
		}
	}
	if fams["C01"] {
		if i, ok := rfPickChild(r, ts); ok {
			ops = append(ops, sc.childMutationOp(mk(fmt.Sprintf("Array.Get(%d) then a mutation through the obtained child handle (%s)", i, rfSpecName(ts.elems[i])), "C01"),
				ts.elems[i], func(in *rfInst) (atree.Value, error) { return arr(in).Get(uint64(i)) }))
		}
	}
	if fams["C13"] && n > 0 {
		s := idx(n)
		e := s + idx(n-s+1)
		if r.Chance(60) && n > 20 { // a long range: crosses slab boundaries
			s = uint64(r.Intn(int(n / 4)))
			e = n - uint64(r.Intn(int(n/4)))
		}
		nop := func(atree.Value) {}
		type mkIt func(a *atree.Array) (atree.ArrayIterator, error)
		its := []struct {
			name  string
			mk    mkIt
			bound uint64
		}{
			{"Iterator", func(a *atree.Array) (atree.ArrayIterator, error) { return a.Iterator() }, n},
			{"ReadOnlyIterator", func(a *atree.Array) (atree.ArrayIterator, error) { return a.ReadOnlyIterator() }, n},
			{"ReadOnlyIteratorWithMutationCallback", func(a *atree.Array) (atree.ArrayIterator, error) {
				return a.ReadOnlyIteratorWithMutationCallback(nop)
			}, n},
			{fmt.Sprintf("RangeIterator(%d,%d)", s, e), func(a *atree.Array) (atree.ArrayIterator, error) { return a.RangeIterator(s, e) }, e - s},
			{fmt.Sprintf("ReadOnlyRangeIterator(%d,%d)", s, e), func(a *atree.Array) (atree.ArrayIterator, error) { return a.ReadOnlyRangeIterator(s, e) }, e - s},
			{fmt.Sprintf("ReadOnlyRangeIteratorWithMutationCallback(%d,%d)", s, e), func(a *atree.Array) (atree.ArrayIterator, error) {
				return a.ReadOnlyRangeIteratorWithMutationCallback(s, e, nop)
			}, e - s},
		}
		for _, f := range its {
			f := f
			op := mk("Array."+f.name+" drained by Next(), a failed Next() retried on the same iterator", "C13")
			op.run = func(in *rfInst, _ any, o *rfOut) error {
				it, err := f.mk(arr(in))
				if err != nil {
					return err
				}
				return rfDrainArr(it, f.bound, o)
			}
			ops = append(ops, op)
		}
		cbs := []struct {
			name string
			call func(a *atree.Array, fn atree.ArrayIterationFunc) error
		}{
			{"Iterate", func(a *atree.Array, fn atree.ArrayIterationFunc) error { return a.Iterate(fn) }},
			{"IterateReadOnly", func(a *atree.Array, fn atree.ArrayIterationFunc) error { return a.IterateReadOnly(fn) }},
			{"IterateReadOnlyWithMutationCallback", func(a *atree.Array, fn atree.ArrayIterationFunc) error {
				return a.IterateReadOnlyWithMutationCallback(fn, nop)
			}},
			{fmt.Sprintf("IterateRange(%d,%d)", s, e), func(a *atree.Array, fn atree.ArrayIterationFunc) error { return a.IterateRange(s, e, fn) }},
			{fmt.Sprintf("IterateReadOnlyRange(%d,%d)", s, e), func(a *atree.Array, fn atree.ArrayIterationFunc) error {
				return a.IterateReadOnlyRange(s, e, fn)
			}},
			{fmt.Sprintf("IterateReadOnlyRangeWithMutationCallback(%d,%d)", s, e), func(a *atree.Array, fn atree.ArrayIterationFunc) error {
				return a.IterateReadOnlyRangeWithMutationCallback(s, e, fn, nop)
			}},
		}
		for _, f := range cbs {
			f := f
			op := mk("Array."+f.name, "C13")
			op.run = func(in *rfInst, _ any, o *rfOut) error {
				cnt := uint64(0)
				return f.call(arr(in), func(v atree.Value) (bool, error) {
					o.add(v)
					cnt++
					return cnt <= n+4, nil
				})
			}
			ops = append(ops, op)
		}
		op := mk("Array.PopIterate", "C13")
		op.weak = true
		op.run = func(in *rfInst, _ any, o *rfOut) error {
			return arr(in).PopIterate(func(s atree.Storable) { o.add(fmt.Sprintf("%T", s)) })
		}
		ops = append(ops, op)
	}
	return ops
}

// rfPickChild picks an element of the container that is itself a container (preferring the multi-slab ones).
func rfPickChild(r *Rng, ts *rfSpec) (int, bool) {
	var big, all []int
	for i, e := range ts.elems {
		if e.isCont() {
			all = append(all, i)
			if len(e.elems) >= 30 {
				big = append(big, i)
			}
		}
	}
	if len(big) > 0 && r.Chance(70) {
		return big[r.Intn(len(big))], true
	}
	if len(all) > 0 {
		return all[r.Intn(len(all))], true
	}
	return 0, false
}

// childMutationOp: the request obtains a child container from the target (the ledger reads of the
// lookup and of the child's root slab) and appends / sets one element through the obtained handle
// (the ledger reads of the child's own descent).  Strict region: all of these reads.
func (sc *rfScenario) childMutationOp(op rfOp, cs *rfSpec, get func(in *rfInst) (atree.Value, error)) rfOp {
	newKey := testutils.NewStringValue("zz-new-key")
	mutate := func(c atree.Value, dry bool) error {
		switch x := unwrapValueAll(c).(type) {
		case *atree.Array:
			if dry {
				if n := x.Count(); n > 0 {
					_, _ = atree.VerifArrayGetStorable(x, n-1)
				}
				return nil
			}
			return x.Append(testutils.Uint64Value(424242))
		case *atree.OrderedMap:
			if dry {
				_, _ = x.Has(testutils.CompareValue, testutils.GetHashInput, newKey)
				return nil
			}
			_, err := x.Set(testutils.CompareValue, testutils.GetHashInput, newKey, testutils.Uint64Value(424242))
			return err
		}
		return fmt.Errorf("readfault: element is %T, not a container", c)
	}
	op.run = func(in *rfInst, _ any, o *rfOut) error {
		c, err := get(in)
		if err != nil {
			return err
		}
		if err := mutate(c, false); err != nil {
			return err
		}
		o.add(c)
		return nil
	}
	op.descent = func(in *rfInst) {
		if c, err := get(in); err == nil {
			_ = mutate(c, true)
		}
	}
	_ = cs
	return op
}

func rfSpecName(v *rfSpec) string {
	s := ""
	switch v.kind {
	case rfUint:
		s = fmt.Sprintf("uint %d", v.n)
	case rfStr:
		s = fmt.Sprintf("string of %d bytes", len(v.s))
	case rfArr:
		s = fmt.Sprintf("new array of %d", len(v.elems))
	default:
		s = fmt.Sprintf("new map of %d", len(v.elems))
	}
	if v.some {
		s = "Some(" + s + ")"
	}
	return s
}

func (sc *rfScenario) mapOps(r *Rng, path []rfStep, drop bool, ts *rfSpec, fams map[string]bool) []rfOp {
	n := len(ts.keys)
	scale := int(sc.T / 256)
	m := func(in *rfInst) *atree.OrderedMap { return in.tgt.(*atree.OrderedMap) }
	cmp, hip := atree.ValueComparator(testutils.CompareValue), atree.HashInputProvider(testutils.GetHashInput)
	present := func() atree.Value { return ts.keys[r.Intn(n)].scalarValue() }
	absent := func() atree.Value {
		if r.Bool() {
			return testutils.Uint64Value(1<<62 + r.U64()%100000)
		}
		return testutils.NewStringValue("absent-" + randStr(r, 1+r.Intn(12)))
	}
	lookup := func(k atree.Value) func(in *rfInst) {
		return func(in *rfInst) { _, _ = m(in).Has(cmp, hip, k) }
	}
	mk := func(name, fam string) rfOp { return rfOp{name: name, fam: fam, path: path, drop: drop} }
	var ops []rfOp
	if fams["C02"] {
		for _, kind := range []int{0, 1, 2, 2, 3, 3} {
			var k atree.Value
			isPresent := n > 0 && r.Chance(75)
			if isPresent {
				k = present()
			} else {
				k = absent()
			}
			kn := fmt.Sprintf("%v", k)
			if len(kn) > 24 {
				kn = kn[:24] + "…"
			}
			if !isPresent {
				kn += " (absent)"
			}
			switch kind {
			case 0:
				op := mk("OrderedMap.Get("+kn+")", "C02")
				op.run = func(in *rfInst, _ any, o *rfOut) error {
					v, err := m(in).Get(cmp, hip, k)
					if err == nil {
						o.add(v)
					}
					return err
				}
				ops = append(ops, op)
			case 1:
				op := mk("OrderedMap.Has("+kn+")", "C02")
				op.run = func(in *rfInst, _ any, o *rfOut) error {
					ok, err := m(in).Has(cmp, hip, k)
					if err == nil {
						o.add(fmt.Sprint(ok))
					}
					return err
				}
				ops = append(ops, op)
			case 2:
				vs := rfNewValSpec(r, scale)
				op := mk("OrderedMap.Set("+kn+", "+rfSpecName(vs)+")", "C02")
				op.prep = func(in *rfInst) any { return rfBuild(in.st, sc.addr, vs, nil) }
				op.run = func(in *rfInst, p any, o *rfOut) error {
					old, err := m(in).Set(cmp, hip, k, p.(atree.Value))
					if err == nil {
						o.add(old)
					}
					return err
				}
				op.descent = lookup(k)
				op.keys = []atree.Value{k}
				ops = append(ops, op)
			default:
				op := mk("OrderedMap.Remove("+kn+")", "C02")
				op.run = func(in *rfInst, _ any, o *rfOut) error {
					ks, vs, err := m(in).Remove(cmp, hip, k)
					if err == nil {
						o.add(ks)
						o.add(vs)
					}
					return err
				}
				op.descent = lookup(k)
				op.keys = []atree.Value{k}
				ops = append(ops, op)
			}
		}
	}
	if fams["C02"] {
		if i, ok := rfPickChild(r, ts); ok {
			k := ts.keys[i].scalarValue()
			ops = append(ops, sc.childMutationOp(mk(fmt.Sprintf("OrderedMap.Get(%v) then a mutation through the obtained child handle (%s)", k, rfSpecName(ts.elems[i])), "C02"),
				ts.elems[i], func(in *rfInst) (atree.Value, error) { return m(in).Get(cmp, hip, k) }))
		}
	}
	if fams["C13"] && n > 0 {
		bound := uint64(n)
		nop := func(atree.Value) {}
		patterns := [][]int{{0}, {1}, {2}, {0, 1, 2, 2, 1, 0, 0}}
		for _, ro := range []int{0, 1, 2} {
			pat := patterns[r.Intn(len(patterns))]
			names := []string{"Iterator", "ReadOnlyIterator", "ReadOnlyIteratorWithMutationCallback"}
			op := mk(fmt.Sprintf("OrderedMap.%s drained by Next/NextKey/NextValue (pattern %v), a failed call retried on the same iterator", names[ro], pat), "C13")
			op.roMap = ro != 0
			ro := ro
			op.run = func(in *rfInst, _ any, o *rfOut) error {
				var it atree.MapIterator
				var err error
				switch ro {
				case 0:
					it, err = m(in).Iterator(cmp, hip)
				case 1:
					it, err = m(in).ReadOnlyIterator()
				default:
					it, err = m(in).ReadOnlyIteratorWithMutationCallback(nop, nop)
				}
				if err != nil {
					return err
				}
				return rfDrainMap(it, pat, bound, o)
			}
			ops = append(ops, op)
		}
		type entryFn func(fn atree.MapEntryIterationFunc) error
		type elemFn func(fn atree.MapElementIterationFunc) error
		entries := []struct {
			name string
			call func(mm *atree.OrderedMap) entryFn
		}{
			{"Iterate", func(mm *atree.OrderedMap) entryFn {
				return func(fn atree.MapEntryIterationFunc) error { return mm.Iterate(cmp, hip, fn) }
			}},
			{"IterateReadOnly", func(mm *atree.OrderedMap) entryFn {
				return func(fn atree.MapEntryIterationFunc) error { return mm.IterateReadOnly(fn) }
			}},
			{"IterateReadOnlyWithMutationCallback", func(mm *atree.OrderedMap) entryFn {
				return func(fn atree.MapEntryIterationFunc) error {
					return mm.IterateReadOnlyWithMutationCallback(fn, nop, nop)
				}
			}},
		}
		for _, f := range entries {
			f := f
			op := mk("OrderedMap."+f.name, "C13")
			op.run = func(in *rfInst, _ any, o *rfOut) error {
				cnt := uint64(0)
				return f.call(m(in))(func(k, v atree.Value) (bool, error) {
					o.add(k)
					o.add(v)
					cnt++
					return cnt <= bound+4, nil
				})
			}
			ops = append(ops, op)
		}
		elems := []struct {
			name string
			call func(mm *atree.OrderedMap) elemFn
		}{
			{"IterateKeys", func(mm *atree.OrderedMap) elemFn {
				return func(fn atree.MapElementIterationFunc) error { return mm.IterateKeys(cmp, hip, fn) }
			}},
			{"IterateReadOnlyKeys", func(mm *atree.OrderedMap) elemFn {
				return func(fn atree.MapElementIterationFunc) error { return mm.IterateReadOnlyKeys(fn) }
			}},
			{"IterateReadOnlyKeysWithMutationCallback", func(mm *atree.OrderedMap) elemFn {
				return func(fn atree.MapElementIterationFunc) error {
					return mm.IterateReadOnlyKeysWithMutationCallback(fn, nop)
				}
			}},
			{"IterateValues", func(mm *atree.OrderedMap) elemFn {
				return func(fn atree.MapElementIterationFunc) error { return mm.IterateValues(cmp, hip, fn) }
			}},
			{"IterateReadOnlyValues", func(mm *atree.OrderedMap) elemFn {
				return func(fn atree.MapElementIterationFunc) error { return mm.IterateReadOnlyValues(fn) }
			}},
			{"IterateReadOnlyValuesWithMutationCallback", func(mm *atree.OrderedMap) elemFn {
				return func(fn atree.MapElementIterationFunc) error {
					return mm.IterateReadOnlyValuesWithMutationCallback(fn, nop)
				}
			}},
		}
		for _, f := range elems {
			f := f
			op := mk("OrderedMap."+f.name, "C13")
			op.run = func(in *rfInst, _ any, o *rfOut) error {
				cnt := uint64(0)
				return f.call(m(in))(func(v atree.Value) (bool, error) {
					o.add(v)
					cnt++
					return cnt <= bound+4, nil
				})
			}
			ops = append(ops, op)
		}
		op := mk("OrderedMap.PopIterate", "C13")
		op.weak = true
		op.run = func(in *rfInst, _ any, o *rfOut) error {
			return m(in).PopIterate(func(k, v atree.Storable) { o.add(fmt.Sprintf("%T=%T", k, v)) })
		}
		ops = append(ops, op)
	}
	return ops
}

// targets: the root and the child containers (depth 1 and 2) that are not wrapped.
func (sc *rfScenario) targets() [][]rfStep {
	out := [][]rfStep{nil}
	var walk func(s *rfSpec, path []rfStep, depth int)
	walk = func(s *rfSpec, path []rfStep, depth int) {
		if depth >= 2 {
			return
		}
		for i, e := range s.elems {
			if !e.isCont() {
				continue
			}
			p := append(append([]rfStep{}, path...), rfStep{i})
			out = append(out, p)
			walk(e, p, depth+1)
		}
	}
	walk(sc.root, nil, 0)
	return out
}

// ---------- running one operation at every fault position ----------

type rfRun struct {
	rep   *Report
	hist  int
	tag   string
	sc    *rfScenario
	nviol int
	all   bool // every fault position also for long iterations
	rng   *Rng
}

func (r *rfRun) viol(step int, what, detail string) {
	r.nviol++
	if r.nviol <= 4 {
		r.rep.Violate(r.hist, r.tag, step, what, clip(fmt.Sprintf("scenario %s T=%d digester-fold=%d | %s", r.sc.kind, r.sc.T, r.sc.mod, detail), 900))
	}
}

func rfCall(f func() error) (err error, pan string) {
	defer func() {
		if p := recover(); p != nil {
			pan = fmt.Sprint(p)
		}
	}()
	return f(), ""
}

func rfDiff(a, b string) string {
	i := 0
	for i < len(a) && i < len(b) && a[i] == b[i] {
		i++
	}
	lo := i - 50
	if lo < 0 {
		lo = 0
	}
	return fmt.Sprintf("first difference at byte %d: %q vs %q", i, clip(a[lo:], 150), clip(b[lo:], 150))
}

func (r *rfRun) where(op *rfOp) string {
	t := "root"
	if len(op.path) > 0 {
		t = "child at"
		s := r.sc.root
		for _, p := range op.path {
			t += fmt.Sprintf(" /%d", p.idx)
			s = s.elems[p.idx]
		}
		t += fmt.Sprintf(" (%s, handle obtained through the parent", rfSpecName(s))
		if op.drop {
			t += ", read cache dropped afterwards"
		}
		t += ")"
	}
	return t
}

func (r *rfRun) doOp(opIdx int, op *rfOp) {
	sc := r.sc
	rep := r.rep
	prep := func(in *rfInst) any {
		if op.prep == nil {
			return nil
		}
		return op.prep(in)
	}
	// reference instance: the state before the request, the reads of the descent, the target's slabs
	ref := sc.open(op.path, op.drop)
	nDesc := -1
	if op.descent != nil {
		ref.base.ArmRead(-1)
		op.descent(ref)
		nDesc = ref.base.nRead
	}
	tree := map[atree.SlabID]bool{}
	if ids, err := atree.VerifContainerSlabIDs(ref.tgt); err == nil {
		for _, id := range ids {
			tree[id] = true
		}
	}
	mutation := op.descent != nil
	before := ref.state(mutation)

	// the twin that never sees a fault
	tw := sc.open(op.path, op.drop)
	tp := prep(tw)
	tw.base.ArmRead(-1)
	var tout rfOut
	terr, tpan := rfCall(func() error { return op.run(tw, tp, &tout) })
	nr := tw.base.nRead
	if tpan != "" {
		r.viol(opIdx, op.fam+": "+op.name+" panicked without any fault", r.where(op)+": "+tpan)
		return
	}
	want := rfRenderOut(tw.st, &tout) + rfErrSig(terr)
	rep.Op(strings.SplitN(op.name, "(", 2)[0])
	rep.EventN("ledger_reads_of_fault_free_requests", nr)
	if nr == 0 {
		rep.Event("request_without_ledger_read")
		return
	}
	var twPublic, twDeep string
	var twBase *LogBase
	if !op.weak {
		twPublic = rfPublic(tw.root, op.keys)
		if len(op.path) > 0 {
			twPublic += " target: " + rfPublic(tw.tgt, op.keys)
		}
		twDeep = tw.deep()
		if err := tw.verify(); err != nil {
			rep.Event("twin_fails_verification")
			return
		}
		if err := tw.st.FastCommit(2); err != nil {
			rep.Event("twin_commit_failed")
			return
		}
		twBase = tw.base
	}

	// fault positions
	var ks []int
	if nr <= 24 || r.all {
		for k := 0; k < nr; k++ {
			ks = append(ks, k)
		}
	} else {
		seen := map[int]bool{0: true, 1: true, nr - 1: true}
		ks = []int{0, 1, nr - 1}
		for len(ks) < 24 {
			k := r.rng.Intn(nr)
			if !seen[k] {
				seen[k] = true
				ks = append(ks, k)
			}
		}
		rep.Event("fault_positions_sampled")
	}
	for ki, k := range ks {
		strict := !op.weak && (nDesc < 0 || k < nDesc)
		full := mutation || ki == len(ks)-1 // lookups and iterations: complete final comparison at one position only
		// 0: retry at once; 1: inspect the state between the failure and the retry;
		// 2 (mutations): the first ledger read of the retry fails as well, inspect, retry again
		variants := []int{0, 1}
		if mutation {
			variants = []int{0, 1, 2}
		}
		if !strict {
			variants = []int{0}
		}
		for _, variant := range variants {
			inspect := variant == 1
			if r.nviol > 4 {
				return
			}
			in := sc.open(op.path, op.drop)
			p := prep(in)
			in.base.LogReads = true
			in.base.ResetLog()
			in.base.ArmRead(k)
			var o1 rfOut
			err1, pan := rfCall(func() error { return op.run(in, p, &o1) })
			fired := in.base.nRead > k
			in.base.ArmRead(-1)
			var failedID atree.SlabID
			for _, c := range in.base.Log {
				if c.Fail {
					failedID = c.ID
				}
			}
			ctx := fmt.Sprintf("%s on the %s, ledger read %d of %d (register %s) failing once", op.name, r.where(op), k, nr, failedID)
			rep.Event("cases")
			if pan != "" {
				r.viol(opIdx, op.fam+": the implementation panicked on a transient ledger read failure", ctx+": "+pan)
				continue
			}
			if !fired {
				rep.Event("armed_fault_not_reached")
				continue
			}
			if err1 != nil && !rfIsInjected(err1) && rfErrSig(err1) != rfErrSig(terr) {
				rep.Event("faulted_request_failed_with_another_error")
			}
			if !strict {
				rep.Event("fault_after_the_point_of_mutation_or_in_PopIterate")
				if err1 != nil {
					rep.Event("non_atomic_request_failed")
				}
				continue
			}
			rep.Event("strict_cases")
			if len(op.path) > 0 {
				rep.Event("strict_cases_on_a_child_handle")
			}
			if mutation {
				rep.Event("strict_cases_in_the_descent_of_a_mutation")
			}
			valueRead := !tree[failedID]
			if err1 == nil {
				if o1.retries > 0 {
					rep.EventN("next_calls_retried_on_the_same_iterator", o1.retries)
				} else {
					rep.Event("fault_absorbed_by_the_request")
				}
				if got := rfRenderOut(in.st, &o1); got != want {
					if op.roMap && valueRead {
						// observation on the unchanged library: readOnlyMapIterator advances its element
						// cursor before the stored value of the element is read (map_iterator.go Next/NextKey/NextValue)
						rep.Event("observation_readonly_map_iterator_skips_element_after_failed_value_read")
						continue
					}
					what := op.fam + ": a request that hit a transient ledger read failure returned something else than the fault-free twin"
					if o1.retries > 0 {
						what = op.fam + ": iteration continued by retrying the failed Next() on the same iterator yields a different sequence than the fault-free twin"
					}
					r.viol(opIdx, what, ctx+": "+rfDiff(got, want))
					break
				}
			} else {
				var ee *atree.ExternalError
				if rfIsInjected(err1) && !errors.As(err1, &ee) {
					r.viol(opIdx, "C18: a failed ledger read is not reported as ExternalError", ctx+fmt.Sprintf(": %T %v", err1, err1))
				}
				if inspect {
					if after := in.state(mutation); after != before {
						r.viol(opIdx, "C18: a request refused because of a failed ledger read left a trace", ctx+": "+rfDiff(after, before))
						continue
					}
				}
				if variant == 2 {
					in.base.ArmRead(0)
					var ox rfOut
					errx, panx := rfCall(func() error { return op.run(in, p, &ox) })
					again := in.base.nRead > 0
					in.base.ArmRead(-1)
					if panx != "" {
						r.viol(opIdx, op.fam+": the retried request panicked on a second transient ledger read failure", ctx+": "+panx)
						continue
					}
					if again {
						rep.Event("second_fault_in_the_retry")
						if !rfIsInjected(errx) {
							r.viol(opIdx, "C18: a failed ledger read during the retry is not reported", ctx+fmt.Sprintf(": %T %v", errx, errx))
							continue
						}
						if after := in.state(mutation); after != before {
							r.viol(opIdx, "C18: a retried request refused because of a second failed ledger read left a trace", ctx+": "+rfDiff(after, before))
							continue
						}
					} else if errx == nil {
						// the retry needed no ledger read: it is the retry
						if got := rfRenderOut(in.st, &ox); got != want {
							r.viol(opIdx, op.fam+": the retry of a request that failed on a transient ledger read failure does not behave like the request on the fault-free twin", ctx+": "+rfDiff(got, want))
						}
						rep.Event("retry_without_ledger_read")
						continue
					}
				}
				var o2 rfOut
				err2, pan2 := rfCall(func() error { return op.run(in, p, &o2) })
				if pan2 != "" {
					r.viol(opIdx, op.fam+": the retried request panicked", ctx+": "+pan2)
					continue
				}
				if got := rfRenderOut(in.st, &o2) + rfErrSig(err2); got != want {
					r.viol(opIdx, op.fam+": the retry of a request that failed on a transient ledger read failure does not behave like the request on the fault-free twin", ctx+": "+rfDiff(got, want))
					continue
				}
				rep.Event("retried_requests")
			}
			// final state against the twin
			if !full {
				if c, w := fmt.Sprint(rfCount(in.root), rfCount(in.tgt)), fmt.Sprint(rfCount(tw.root), rfCount(tw.tgt)); c != w {
					r.viol(opIdx, op.fam+": Count() after a lookup / iteration with a transient ledger read failure differs from the fault-free twin", ctx+": "+c+" vs "+w)
				}
				if err1 == nil {
					break // nothing failed: the second run would be the same
				}
				continue
			}
			pub := rfPublic(in.root, op.keys)
			if len(op.path) > 0 {
				pub += " target: " + rfPublic(in.tgt, op.keys)
			}
			if pub != twPublic {
				r.viol(opIdx, op.fam+": content read through the public API after failure and retry differs from the fault-free twin", ctx+": "+rfDiff(pub, twPublic))
				continue
			}
			if d := in.deep(); d != twDeep {
				r.viol(opIdx, op.fam+": slab tree (cached counts, sizes, elements) after failure and retry differs from the fault-free twin", ctx+": "+rfDiff(d, twDeep))
				continue
			}
			if err := in.verify(); err != nil {
				r.viol(opIdx, op.fam+": container invalid after failure and retry", ctx+": "+err.Error())
				continue
			}
			if err := in.st.FastCommit(2); err != nil {
				r.viol(opIdx, op.fam+": commit failed after failure and retry", ctx+": "+err.Error())
				continue
			}
			if d := SameRegisters(in.base, twBase); d != "" {
				r.viol(opIdx, op.fam+": registers committed after failure and retry differ from the fault-free twin", ctx+": "+clip(d, 300))
			}
			if err1 == nil {
				break // nothing failed: the second run would be the same
			}
		}
	}
}

func cmdReadFault(a Args) {
	prop := a.Prop
	if prop == "" {
		prop = "C18"
	}
	mode := a.Mode
	all := false
	if strings.HasSuffix(mode, "+all") {
		all = true
		mode = strings.TrimSuffix(mode, "+all")
	}
	if prop == "C10" || strings.HasPrefix(mode, "handles") {
		// child handles obtained BEFORE a faulted and retried parent request (readfault_handles.go);
		// -mode array / map restricts the kind of the parent
		cmdReadFaultHandles(a, strings.TrimPrefix(strings.TrimPrefix(mode, "handles"), "-"), all)
		return
	}
	if mode == "" {
		switch prop {
		case "C01":
			mode = "array"
		case "C02":
			mode = "map"
		case "C13":
			mode = "iter"
		default:
			mode = "all"
		}
	}
	fams := map[string]bool{}
	switch mode {
	case "array":
		fams["C01"] = true
	case "map":
		fams["C02"] = true
	case "iter":
		fams["C13"] = true
	case "retry": // the iterator retry matrix alone (readfault_iter.go)
	default:
		fams["C01"], fams["C02"], fams["C13"] = true, true, true
	}
	matrix := mode == "iter" || mode == "retry"
	matrixBudget := 16 // fault positions per drained iterator
	if all {
		matrixBudget = 64
	}
	rep := NewReport(prop, a.Seed)
	rep.Rule = "committed scenario (flat array / map over several slabs and index levels, or a parent with inlined and multi-slab child arrays/maps, large strings in their own slabs, SomeValue wrappers, root maps with folded first-level digests = collision groups) at T in {256,512}; " +
		"per request (Array Get/Set/Insert/Append/Remove, OrderedMap Get/Has/Set/Remove with present and absent keys, every iterator flavour drained with Next/NextKey/NextValue where a failed call is retried on the SAME iterator, every Iterate* callback flavour, PopIterate) on the root or on a child handle obtained through the parent: " +
		"a fault-free twin on a copy of the ledger with a fresh storage (cold cache) gives the number R of ledger reads and the reference answer; for every k<R (24 sampled incl. 0,1,R-1 if R>24) a fresh copy executes the request with read k failing once: " +
		"reads of lookups/iterations and of the descent of a mutation are strict: error must be ExternalError; deep dump + Count + VerifyArray/VerifyMap unchanged (checked in one of the runs per k, another retries at once, a third one for mutations lets the first read of the retry fail as well); the retried request must return what the twin returned; content through Get/iteration, deep slab dump, verification and the committed registers must equal the twin's. " +
		"reads after the point of mutation and PopIterate: panics only. non-trivial = scenario with >= 10 strict cases"
	if matrix {
		rep.Rule += ". Iterator retry matrix (modes iter, retry): on the root, up to two multi-slab child maps, two multi-slab child arrays and one small child (cold cache, cache dropped after obtaining the handle, or partially warmed by lookups) EVERY iterator object (Array Iterator / ReadOnly / ReadOnlyWithMutationCallback / the three range iterators with random bounds; OrderedMap Iterator / ReadOnly / ReadOnlyWithMutationCallback, each advanced by Next only, NextKey only, NextValue only, a random mixture on one iterator, and a mixture where the retry uses another method) is drained with ledger read k failing once for every k below the reads of the fault-free twin (16 per drain, 64 with +all: stratified over method in progress x register of the container's tree or key/value/child register, plus first and last), and for the mutable map iterator with the hash-input provider / comparator failing once; the failed call is retried on the same iterator; the concatenated yield must equal the twin's (projection of the Next()-only drain), the end is sticky, Count() and the loaded-value iteration afterwards equal the twin's; read-only map iterators after a failed key/value register read: observation only"
	}
	master := NewRng(a.Seed)
	defer atree.VerifSetThreshold(1024)
	nOps := a.Steps
	if nOps <= 0 || nOps >= 300 {
		nOps = 10
	}
	for h := 0; h < a.N; h++ {
		hr := master.Fork(uint64(h) + 1)
		tag := fmt.Sprintf("rf%d", h)
		if !want(tag) {
			continue
		}
		strict0 := rep.Events["strict_cases"]
		r := &rfRun{rep: rep, hist: h, tag: tag, all: all, rng: hr.Fork(7)}
		func() {
			defer func() {
				if p := recover(); p != nil {
					if r.sc == nil {
						r.sc = &rfScenario{}
					}
					r.viol(0, "C18: the harness or the implementation panicked outside a request", fmt.Sprint(p))
				}
				atree.VerifSetThreshold(1024)
			}()
			sc := rfNewScenario(hr, mode)
			r.sc = sc
			targets := sc.targets()
			gr := hr.Fork(3)
			// candidate requests: on the root and on up to three children
			var ops []rfOp
			pickTargets := [][]rfStep{nil}
			var bigTargets [][]rfStep
			for _, t := range targets[1:] {
				if len(sc.specAt(t).elems) >= 30 {
					bigTargets = append(bigTargets, t)
				}
			}
			for i := 0; i < 3 && len(targets) > 1; i++ {
				if len(bigTargets) > 0 && gr.Chance(75) {
					pickTargets = append(pickTargets, bigTargets[gr.Intn(len(bigTargets))])
				} else {
					pickTargets = append(pickTargets, targets[1+gr.Intn(len(targets)-1)])
				}
			}
			for _, path := range pickTargets {
				ts := sc.specAt(path)
				if ts.some {
					continue
				}
				drop := len(path) > 0 && gr.Chance(60)
				if ts.kind == rfArr {
					ops = append(ops, sc.arrayOps(gr, path, drop, ts, fams)...)
				} else {
					ops = append(ops, sc.mapOps(gr, path, drop, ts, fams)...)
				}
			}
			mr := hr.Fork(11) // drawn after everything else: the requests of a history do not depend on the matrix
			if len(ops) == 0 {
				if matrix {
					r.iterMatrix(mr, matrixBudget)
				} else {
					rep.Event("scenario_without_request_of_the_selected_family")
				}
				return
			}
			// a random selection of nOps of them (all if fewer)
			for i := len(ops) - 1; i > 0; i-- {
				j := gr.Intn(i + 1)
				ops[i], ops[j] = ops[j], ops[i]
			}
			if len(ops) > nOps {
				ops = ops[:nOps]
			}
			for i := range ops {
				r.doOp(i, &ops[i])
				rep.Steps++
			}
			if matrix && r.nviol <= 4 {
				r.iterMatrix(mr, matrixBudget)
			}
			if h < 3 {
				rep.Sample(fmt.Sprintf("%s: %s T=%d fold=%d, %d registers, %d child containers, first request: %s on the %s", tag, sc.kind, sc.T, sc.mod, len(sc.base.Segs), len(targets)-1, ops[0].name, r.where(&ops[0])))
			}
		}()
		rep.Histories++
		if rep.Events["strict_cases"]-strict0 >= 10 && r.nviol == 0 {
			rep.Distinct(fmt.Sprintf("%s/T%d/fold%t/regs%d", r.sc.kind, r.sc.T, r.sc.mod != 0, len(r.sc.base.Segs)/8))
		}
	}
	rep.Write(a.Out + "/report.json")
	fmt.Printf("readfault: %d scenarios, %d requests, %d cases (%d strict), %d violations, %d distinct\n",
		rep.Histories, rep.Steps, rep.Events["cases"], rep.Events["strict_cases"], len(rep.Violations), rep.Nontrivial)
}
