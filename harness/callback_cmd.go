//go:build verif

// callback: OrderedMap.Get / Has with FAILING caller-supplied components (hash-input provider,
// digester, comparator, ledger read) in lock step with the Coq model coq/theories/Callback.v
// (engine "callback", coq/theories/CallbackTrace.v).
//
// A history builds one map with the generator of the "maptree" command (4-level table digester,
// collisions on every level, external collision groups, several slab sizes; every mutation is
// checked against MapTree.v as there).  At several points the map is committed and opened by its
// root in a FRESH storage (the reader) whose ledger, digester builder, hash-input provider and
// comparator count their calls, record them, and fail according to a plan.  For a sample of keys
// (present, absent, colliding probes, preferably inside collision groups):
//   - a dry run (no fault) gives the number of calls of every component;
//   - EVERY call index of EVERY component is failed in turn (plain error), plus the index one past
//     the last call (a fault that is never reached), plus variants: sticky faults, errors that
//     already carry an atree category, a failing digester that hands back another key's digest.
//
// Recorded per lookup and compared with the model: the result class (value / not found / failure of
// component c with category) and the complete ordered list of component calls with their arguments
// (key hashed, digest level, stored key compared, slab read).
//
// Model-independent oracles (property C18, last sentence):
//   - a checked component call that failed with an uncategorised error => ExternalError wrapping it;
//   - no call failed => the shadow dictionary's answer;
//   - a lookup writes nothing (write set empty, ledger unchanged) and the fault-free lookup that
//     follows a failed one gives the shadow dictionary's answer.
//
// Recorded as events, never as violations (DESIGN 7.3 observations): a digester error at level >= 1 is
// dropped (map_element.go:366,568); an error that already is an atree User/Fatal error keeps its
// category (errors.go:501); a KeyNotFoundError returned by a component makes Has answer false.
package main

import (
	"errors"
	"fmt"

	"github.com/onflow/atree"
	testutils "github.com/onflow/atree/test_utils"
)

func init() { register("callback", cmdCallback) }

const (
	cbNone = 0
	cbHip  = 1
	cbDig  = 2
	cbCmp  = 3
	cbRead = 4
)

var cbCompName = [5]string{"none", "hash-input provider", "digester", "comparator", "ledger read"}
var cbKindName = [5]string{"plain", "user", "fatal", "external", "keynotfound"}

var errCbInjected = errors.New("callback: injected failure of a caller-supplied component")

type cbPlan struct {
	comp   int
	idx    int
	sticky bool
	kind   int
	junk   uint64
}

// cbFaults counts and records the calls of the caller-supplied components and fails the planned ones.
type cbFaults struct {
	plan     cbPlan
	n        [5]int
	events   []uint64 // (component, argument) pairs in call order
	injected error    // the last error handed out
	injComp  int
	injLevel int // level of the last failed digester call
	nInj     int
}

func (f *cbFaults) arm(p cbPlan) {
	f.plan = p
	f.n = [5]int{}
	f.events = f.events[:0]
	f.injected, f.injComp, f.injLevel, f.nInj = nil, 0, -1, 0
}

func (f *cbFaults) call(comp int, arg uint64, key atree.Value) error {
	k := f.n[comp]
	f.n[comp]++
	f.events = append(f.events, uint64(comp), arg)
	if f.plan.comp != comp || !(k == f.plan.idx || (f.plan.sticky && k > f.plan.idx)) {
		return nil
	}
	var e error
	switch f.plan.kind {
	case 1:
		e = atree.NewUserError(errCbInjected)
	case 2:
		e = atree.NewFatalError(errCbInjected)
	case 3:
		e = atree.NewExternalError(errCbInjected, "caller")
	case 4:
		e = atree.NewKeyNotFoundError(key)
	default:
		e = errCbInjected
	}
	f.injected, f.injComp = e, comp
	f.nInj++
	if comp == cbDig {
		f.injLevel = int(arg)
	}
	return e
}

func (f *cbFaults) cmp(_ atree.SlabStorage, v atree.Value, s atree.Storable) (bool, error) {
	sid, _, _ := mpeIdent(s)
	if err := f.call(cbCmp, sid, v); err != nil {
		return false, err
	}
	vid, _, _ := mpeIdent(v)
	return vid == sid, nil
}

func (f *cbFaults) hip(v atree.Value, buf []byte) ([]byte, error) {
	id, _, _ := mpeIdent(v)
	if err := f.call(cbHip, id, v); err != nil {
		return nil, err
	}
	return testutils.GetHashInput(v, buf)
}

// cbBuilder: like the built-in builder it asks the hash-input provider first and hands its error back.
type cbBuilder struct {
	table map[uint64][mpeLevels]uint64
	f     *cbFaults
}

type cbDigester struct {
	d   [mpeLevels]uint64
	f   *cbFaults
	key atree.Value
}

func (b *cbBuilder) SetSeed(_ uint64, _ uint64) {}

func (b *cbBuilder) Digest(hip atree.HashInputProvider, v atree.Value) (atree.Digester, error) {
	var scratch [32]byte
	if _, err := hip(v, scratch[:]); err != nil {
		return nil, err
	}
	id, _, ok := mpeIdent(v)
	if !ok {
		return nil, fmt.Errorf("callback digester: value %T has no key identity", v)
	}
	d, ok := b.table[id]
	if !ok {
		return nil, fmt.Errorf("callback digester: key %d has no digests", id)
	}
	return &cbDigester{d: d, f: b.f, key: v}, nil
}

func (g *cbDigester) DigestPrefix(level uint) ([]atree.Digest, error) {
	if level > mpeLevels {
		return nil, atree.NewHashLevelErrorf("cannot get digest < level %d: level must be [0, %d]", level, mpeLevels)
	}
	var p []atree.Digest
	for i := uint(0); i < level; i++ {
		p = append(p, atree.Digest(g.d[i]))
	}
	return p, nil
}

// Digest counts EVERY call, the one for level == Levels() (list mode) included.
func (g *cbDigester) Digest(level uint) (atree.Digest, error) {
	if err := g.f.call(cbDig, uint64(level), g.key); err != nil {
		return atree.Digest(g.f.plan.junk), err
	}
	if level >= mpeLevels {
		return 0, atree.NewHashLevelErrorf("cannot get digest at level %d: level must be [0, %d)", level, mpeLevels)
	}
	return atree.Digest(g.d[level]), nil
}

func (g *cbDigester) Reset()       {}
func (g *cbDigester) Levels() uint { return mpeLevels }

// cbBase: the ledger of the reader.
type cbBase struct {
	*LogBase
	f *cbFaults
}

func (b *cbBase) Retrieve(id atree.SlabID) ([]byte, bool, error) {
	if err := b.f.call(cbRead, id.IndexAsUint64(), nil); err != nil {
		return nil, false, err
	}
	return b.LogBase.Retrieve(id)
}

func cbCategory(err error) int {
	var ue *atree.UserError
	var fe *atree.FatalError
	var ee *atree.ExternalError
	switch {
	case errors.As(err, &ee):
		return 3
	case errors.As(err, &fe):
		return 2
	case errors.As(err, &ue):
		return 1
	}
	return 0
}

type cbRun struct {
	*mtrRun
	f   *cbFaults
	rst *atree.PersistentSlabStorage
	rm  *atree.OrderedMap

	nLook, nReached, nUnreached, nDropped int
	maxCmp, maxRead, maxDig               int
	sawCmp2, sawRead2, sawExtRead         bool
	sawDropAbsent                         bool
}

func (r *cbRun) c18(what, detail string) { r.viol("C18: "+what, detail) }

// openReader commits the map and opens it by its root in a fresh storage with the recording components.
func (r *cbRun) openReader() bool {
	if r.dead || !r.commit() {
		return false
	}
	r.f = &cbFaults{}
	r.f.arm(cbPlan{})
	r.rst = newStorage(&cbBase{LogBase: r.base, f: r.f})
	var m *atree.OrderedMap
	err, pan := mpeCall(func() error {
		var e error
		m, e = atree.NewMapWithRootID(r.rst, r.m.SlabID(), &cbBuilder{table: r.b.table, f: r.f})
		return e
	})
	if err != nil {
		r.c18("the committed map cannot be opened by its root", fmt.Sprintf("panic=%v %v", pan, err))
		return false
	}
	r.rm = m
	r.rst.DropCache()
	r.emit([]uint64{30}, []uint64{0})
	return true
}

func (r *cbRun) drop() {
	r.rst.DropCache()
	r.emit([]uint64{30}, []uint64{0})
}

// lookup performs one Get/Has on the reader under the plan, emits the step, applies the oracles and
// returns the per-component call counts.
func (r *cbRun) lookup(has bool, k *mtrKey, p cbPlan) [5]int {
	f := r.f
	cur, present := r.shadow[k.id]
	writesBefore := len(r.base.Log)
	f.arm(p)
	var v atree.Value
	var b bool
	err, pan := mpeCall(func() error {
		var e error
		if has {
			b, e = r.rm.Has(f.cmp, f.hip, k.val)
		} else {
			v, e = r.rm.Get(f.cmp, f.hip, k.val)
		}
		return e
	})
	counts := f.n
	events := append([]uint64{}, f.events...)
	injected, injComp, injLevel, nInj := f.injected, f.injComp, f.injLevel, f.nInj
	f.arm(cbPlan{})
	r.nLook++
	name := "Get"
	hz := uint64(0)
	if has {
		name, hz = "Has", 1
	}
	what := fmt.Sprintf("OrderedMap.%s(key %d, present %t) with the %s failing (%s error) at call %d (sticky %t)", name, k.id, present, cbCompName[p.comp], cbKindName[p.kind], p.idx, p.sticky)
	r.rep.Op("lookup." + name + ".fail_" + cbCompName[p.comp])

	// --- the observation line
	var obs []uint64
	switch {
	case pan:
		r.c18(what+" panicked", fmt.Sprint(err))
		obs = []uint64{3}
	case err == nil && has:
		x := uint64(0)
		if b {
			x = 1
		}
		obs = []uint64{0, x}
	case err == nil:
		vid, vsz, ok := mpeIdent(v)
		if !ok {
			r.c18(what+" returned an unexpected value", fmt.Sprintf("%T", v))
		}
		obs = []uint64{0, vid, vsz}
	case injected != nil && errors.Is(err, injected):
		obs = []uint64{2, uint64(injComp), uint64(cbCategory(err))}
	case mpeClass(err) == 1:
		obs = []uint64{1}
	default:
		obs = []uint64{3}
	}
	obs = append(obs, uint64(len(events)/2))
	obs = append(obs, events...)
	sticky := uint64(0)
	if p.sticky {
		sticky = 1
	}
	op := []uint64{31, hz, k.id, uint64(p.comp), uint64(p.idx), sticky, uint64(p.kind), p.junk}
	op = append(op, k.d[:]...)
	r.emit(op, obs)

	// --- oracles
	if pan {
		return counts
	}
	if counts[cbCmp] > r.maxCmp {
		r.maxCmp = counts[cbCmp]
	}
	if counts[cbRead] > r.maxRead {
		r.maxRead = counts[cbRead]
	}
	if counts[cbDig] > r.maxDig {
		r.maxDig = counts[cbDig]
	}
	if counts[cbCmp] >= 2 {
		r.sawCmp2 = true
	}
	if counts[cbRead] >= 2 {
		r.sawRead2 = true
	}
	// a lookup writes nothing
	if d, _ := atree.VerifStorageKeys(r.rst); len(d) != 0 {
		r.c18(what+" left slabs in the write set", fmt.Sprint(len(d)))
	}
	if len(r.base.Log) != writesBefore {
		r.c18(what+" wrote to the ledger", fmt.Sprint(r.base.Log[writesBefore:]))
	}
	answerIsShadow := func() bool {
		if has {
			return err == nil && b == present
		}
		if !present {
			return err != nil && mpeClass(err) == 1
		}
		if err != nil {
			return false
		}
		vid, vsz, _ := mpeIdent(v)
		return vid == cur.vid && vsz == cur.vsz
	}
	checked := nInj > 0 && !(injComp == cbDig && injLevel >= 1)
	switch {
	case nInj == 0:
		r.nUnreached++
		if !answerIsShadow() {
			r.c18(what+": no component call failed, but the answer is not the dictionary's", fmt.Sprint(err))
		}
	case checked:
		r.nReached++
		if err == nil {
			if has && p.kind == 4 && !b {
				r.rep.Event("observation_component_KeyNotFoundError_makes_Has_answer_false")
			} else {
				r.c18(what+": the failure of the component was not reported", "nil error")
			}
			break
		}
		if !errors.Is(err, injected) {
			r.c18(what+": the error does not wrap the component's error", err.Error())
		}
		cat := cbCategory(err)
		if p.kind == 0 || p.kind == 3 {
			r.rep.Err("ExternalError")
			if cat != 3 {
				r.c18(what+": the failure is not reported as ExternalError", fmt.Sprintf("category %d: %v", cat, err))
			}
		} else {
			r.rep.Event("observation_component_error_already_categorised_keeps_category_" + cbKindName[p.kind])
			if cat == 3 {
				r.rep.Event("categorised_component_error_reported_external")
			}
		}
	default:
		// only dropped digester errors (level >= 1)
		r.nDropped++
		r.rep.Event("observation_digester_error_at_level_1_or_deeper_dropped")
		if err == nil || cbCategory(err) != 3 {
			r.rep.Event("observation_dropped_digester_error_not_reported_as_external")
		}
		if !answerIsShadow() {
			if present {
				r.sawDropAbsent = true
				r.rep.Event("observation_present_key_reported_absent_after_dropped_digester_error")
			} else {
				r.c18(what+": absent key, dropped digester error, unexpected answer", fmt.Sprint(err))
			}
		}
	}
	return counts
}

// faultFree: the lookup that follows a failed one answers like the dictionary (no trace).
func (r *cbRun) faultFree(has bool, k *mtrKey) {
	r.lookup(has, k, cbPlan{})
}

// probe: one key, every failure position of every component.
func (r *cbRun) probe(k *mtrKey, thorough bool) {
	rng := r.rng
	for _, has := range []bool{false, true} {
		if has && !thorough && rng.Chance(50) {
			continue
		}
		r.drop()
		n := r.lookup(has, k, cbPlan{})
		if r.dead {
			return
		}
		if n[cbRead] >= 1 {
			// an external group's slab is read after the index slabs
			r.sawExtRead = r.sawExtRead || n[cbDig] >= 2 && n[cbRead] > r.maxH
		}
		for comp := cbHip; comp <= cbRead; comp++ {
			for idx := 0; idx <= n[comp]; idx++ {
				if idx == n[comp] && !rng.Chance(40) {
					continue // a fault that is never reached: sampled
				}
				p := cbPlan{comp: comp, idx: idx}
				if comp == cbDig {
					switch rng.Pick(40, 30, 30) {
					case 1:
						if o := r.pickLive(); o != nil && idx < mpeLevels {
							p.junk = o.d[idx]
						}
					case 2:
						if idx < mpeLevels {
							p.junk = k.d[idx] // fails but hands back the right digest
						}
					}
				}
				r.drop()
				r.lookup(has, k, p)
				if rng.Chance(35) {
					r.faultFree(has, k) // warm: what the failed lookup read stays cached
				}
			}
		}
		// variants
		nv := 2
		if thorough {
			nv = 6
		}
		for i := 0; i < nv; i++ {
			comp := cbHip + rng.Intn(4)
			if n[comp] == 0 {
				continue
			}
			p := cbPlan{comp: comp, idx: rng.Intn(n[comp]), sticky: rng.Chance(50), kind: rng.Intn(5)}
			if comp == cbDig && rng.Bool() {
				if o := r.pickLive(); o != nil {
					p.junk = o.d[1+rng.Intn(mpeLevels-1)]
				}
			}
			if rng.Chance(60) {
				r.drop()
			}
			r.lookup(has, k, p)
			r.faultFree(has, k)
		}
	}
}

// probeKeys picks keys that exercise the deep paths: members of collision groups, colliding probes.
func (r *cbRun) probeKeys(n int, thorough bool) {
	if !r.openReader() {
		return
	}
	byD0 := map[uint64]int{}
	byAll := map[[mpeLevels]uint64]int{}
	for _, k := range r.live {
		byD0[k.d[0]]++
		byAll[k.d]++
	}
	// r.live is in a deterministic order (map iteration is not)
	var grouped, full []*mtrKey
	for _, k := range r.live {
		if byD0[k.d[0]] >= 2 {
			grouped = append(grouped, k)
		}
		if byAll[k.d] >= 2 {
			full = append(full, k)
		}
	}
	for i := 0; i < n && !r.dead; i++ {
		var k *mtrKey
		switch r.rng.Pick(25, 25, 20, 30) {
		case 0:
			if len(full) > 0 {
				k = full[r.rng.Intn(len(full))]
			} else if len(grouped) > 0 {
				k = grouped[r.rng.Intn(len(grouped))]
			}
		case 1:
			if len(grouped) > 0 {
				k = grouped[r.rng.Intn(len(grouped))]
			}
		case 2:
			k = r.pickLive()
		default:
			k = r.pickAbsent()
		}
		if k == nil {
			k = r.pickLive()
		}
		if k == nil {
			k = r.pickAbsent()
		}
		if k == nil {
			return
		}
		r.probe(k, thorough)
	}
}

func (r *cbRun) run(maxSteps int, perPoint int, thorough bool) {
	rng := r.rng
	if !r.setup(maxSteps) {
		return
	}
	// full collisions (list-mode groups, several comparator calls per lookup) are rare in the maptree
	// generator: in two thirds of the histories some keys and probes take over another key's digests
	if rng.Chance(67) {
		for _, ks := range [][]*mtrKey{r.pool, r.probes} {
			for _, k := range ks {
				if rng.Chance(12) {
					k.d = r.pool[rng.Intn(len(r.pool))].d
					r.b.table[k.id] = k.d
				}
			}
		}
	}
	r.tr.Hist(r.tag, uint64(r.T), r.maxInline, r.limit, mpeLevels, r.m.SlabID().IndexAsUint64())
	nk := len(r.pool)
	target := nk - rng.Intn(nk/8+1)
	phase := func(kind int, dir int, until func() bool, budget int) {
		for k := 0; k < budget && !r.dead && !until(); k++ {
			r.randomOp(kind, dir)
		}
	}
	phase(0, 0, func() bool { return len(r.shadow) >= target/2 }, nk*2)
	r.probeKeys(perPoint, thorough)
	phase(0, 0, func() bool { return len(r.shadow) >= target }, nk*3)
	r.shape()
	r.probeKeys(perPoint*2, thorough)
	phase(1, 0, func() bool { return false }, nk*2/5+5)
	r.probeKeys(perPoint, thorough)
	phase(2, rng.Intn(3), func() bool { return len(r.shadow) <= nk/3 }, nk*2)
	r.shape()
	r.probeKeys(perPoint, thorough)
	if !r.dead {
		r.verify("the end of the history")
	}
}

// cbDirected: the read of a value that lives in its own slab (OrderedMap.Get only), no model:
// Get makes exactly one ledger read more than Has, every read failure is an ExternalError.
func cbDirected(rep *Report, rng *Rng) {
	atree.VerifSetThreshold(256)
	defer atree.VerifSetThreshold(1024)
	base := NewLogBase()
	st := newStorage(base)
	m, err := atree.NewMap(st, mkAddr(9), atree.NewDefaultDigesterBuilder(), testutils.NewSimpleTypeInfo(77))
	must(err)
	nk := 150 + rng.Intn(200)
	big := uint64(rng.Intn(nk))
	for i := 0; i < nk; i++ {
		var v atree.Value = testutils.Uint64Value(uint64(i))
		if uint64(i) == big {
			v = testutils.NewStringValue(randStr(rng, 600))
		}
		_, err := m.Set(testutils.CompareValue, testutils.GetHashInput, testutils.Uint64Value(uint64(i)), v)
		must(err)
	}
	must(st.FastCommit(2))
	f := &cbFaults{}
	f.arm(cbPlan{})
	rst := newStorage(&cbBase{LogBase: base, f: f})
	rm, err := atree.NewMapWithRootID(rst, m.SlabID(), atree.NewDefaultDigesterBuilder())
	must(err)
	key := testutils.Uint64Value(big)
	viol := func(what, detail string) { rep.Violate(-1, "directed", 0, "C18: "+what, detail) }
	count := func(get bool, p cbPlan) (int, error) {
		rst.DropCache()
		f.arm(p)
		var e error
		if get {
			_, e = rm.Get(testutils.CompareValue, f.hip, key)
		} else {
			_, e = rm.Has(testutils.CompareValue, f.hip, key)
		}
		n := f.n[cbRead]
		f.arm(cbPlan{})
		return n, e
	}
	nHas, e1 := count(false, cbPlan{})
	nGet, e2 := count(true, cbPlan{})
	if e1 != nil || e2 != nil {
		viol("directed lookup failed", fmt.Sprint(e1, e2))
		return
	}
	rep.EventN("directed_reads_of_Get_with_value_slab", nGet)
	if nGet != nHas+1 {
		viol("Get of a value stored in its own slab does not make exactly one ledger read more than Has", fmt.Sprintf("Get %d Has %d", nGet, nHas))
	}
	for k := 0; k <= nGet; k++ {
		n, e := count(true, cbPlan{comp: cbRead, idx: k})
		rep.Op("directed.fail_ledger read")
		if k < nGet {
			if e == nil || cbCategory(e) != 3 || !errors.Is(e, errCbInjected) {
				viol(fmt.Sprintf("Get with ledger read %d of %d failing is not an ExternalError wrapping the ledger's error", k, nGet), fmt.Sprint(e))
			}
			if n != k+1 {
				viol("the lookup went on reading after the failed read", fmt.Sprintf("%d reads, fault at %d", n, k))
			}
			rep.Err("ExternalError")
		} else if e != nil {
			viol("a fault that is never reached changed the answer", e.Error())
		}
		if d, _ := atree.VerifStorageKeys(rst); len(d) != 0 {
			viol("a lookup left slabs in the write set", fmt.Sprint(len(d)))
		}
	}
	for k := 0; k < 2; k++ { // the hash-input provider of the built-in builder: one call
		_, e := count(true, cbPlan{comp: cbHip, idx: k})
		if k == 0 && (e == nil || cbCategory(e) != 3) {
			viol("Get with the hash-input provider failing (built-in digester builder) is not an ExternalError", fmt.Sprint(e))
		}
		if k == 1 && e != nil {
			viol("the built-in builder called the hash-input provider twice", e.Error())
		}
	}
}

// cbDirectedSetPrecheck reproduces the recorded observation about the lookup INSIDE a mutation:
// hkeyElements.Set (map_elements_hashkey.go:315-326) runs elem.Get to tell an update from an insert
// when the collision limit is reached and drops every error of it except KeyNotFoundError; a
// comparator that fails once (transient) is therefore not reported and the Set goes on.
func cbDirectedSetPrecheck(rep *Report) {
	lib := mpeReadLibDefaultLimit()
	atree.VerifSetMaxCollisionLimitPerDigest(0)
	defer atree.VerifSetMaxCollisionLimitPerDigest(lib)
	st := newStorage(NewLogBase())
	m, err := atree.NewMap(st, mkAddr(9), atree.NewDefaultDigesterBuilder(), testutils.NewSimpleTypeInfo(79))
	must(err)
	key := testutils.Uint64Value(5)
	_, err = m.Set(testutils.CompareValue, testutils.GetHashInput, key, testutils.Uint64Value(1))
	must(err)
	f := &cbFaults{}
	cmp := func(s atree.SlabStorage, v atree.Value, x atree.Storable) (bool, error) {
		if e := f.call(cbCmp, 0, v); e != nil {
			return false, e
		}
		return testutils.CompareValue(s, v, x)
	}
	f.arm(cbPlan{comp: cbCmp, idx: 0})
	_, err = m.Set(cmp, testutils.GetHashInput, key, testutils.Uint64Value(2))
	calls := f.n[cbCmp]
	f.arm(cbPlan{})
	switch {
	case err == nil && calls >= 2:
		rep.Event("observation_set_precheck_comparator_failure_discarded")
		v, e := m.Get(testutils.CompareValue, testutils.GetHashInput, key)
		if e != nil || v != testutils.Uint64Value(2) {
			rep.Violate(-1, "directed-set", 0, "C18: Set that dropped a comparator failure did not store the value", fmt.Sprint(v, e))
		}
	case err != nil && cbCategory(err) == 3:
		rep.Event("set_precheck_comparator_failure_reported_as_external")
	default:
		rep.Event(fmt.Sprintf("set_precheck_other_outcome_calls_%d_err_%v", calls, err))
	}
}

// cbDirectedArray: Array.Get through a cold multi-level array, no model: every ledger read fails in
// turn (all error kinds); a read failure is an ExternalError unless the ledger's error already
// carries a category; the lookup stops at the failed read; a value in its own slab costs one read more.
func cbDirectedArray(rep *Report, rng *Rng) {
	atree.VerifSetThreshold(256)
	defer atree.VerifSetThreshold(1024)
	base := NewLogBase()
	st := newStorage(base)
	arr, err := atree.NewArray(st, mkAddr(8), testutils.NewSimpleTypeInfo(78))
	must(err)
	n := 400 + rng.Intn(2000)
	big := map[int]bool{}
	for i := 0; i < n; i++ {
		var v atree.Value = testutils.Uint64Value(uint64(i))
		if rng.Chance(3) {
			v = testutils.NewStringValue(randStr(rng, 300))
			big[i] = true
		}
		must(arr.Append(v))
	}
	must(st.FastCommit(2))
	f := &cbFaults{}
	f.arm(cbPlan{})
	rst := newStorage(&cbBase{LogBase: base, f: f})
	ra, err := atree.NewArrayWithRootID(rst, arr.SlabID())
	must(err)
	viol := func(what, detail string) { rep.Violate(-1, "directed-array", 0, "C18: "+what, detail) }
	get := func(i int, p cbPlan) (int, error) {
		rst.DropCache()
		f.arm(p)
		_, e := ra.Get(uint64(i))
		nr := f.n[cbRead]
		f.arm(cbPlan{})
		return nr, e
	}
	var plainDepth = -1
	for t := 0; t < 25; t++ {
		i := rng.Intn(n)
		if t%3 == 0 && len(big) > 0 {
			// map iteration order is random: pick the want-th large element in index order
			i = -1
			want := rng.Intn(len(big))
			for j := 0; j < n; j++ {
				if big[j] {
					if want == 0 {
						i = j
						break
					}
					want--
				}
			}
		}
		nr, e := get(i, cbPlan{})
		if e != nil {
			viol("directed Array.Get failed", e.Error())
			return
		}
		rep.Event(fmt.Sprintf("directed_array_get_ledger_reads_%d", nr))
		if !big[i] {
			if plainDepth >= 0 && nr != plainDepth {
				viol("Array.Get of inline elements makes different numbers of ledger reads in a balanced tree", fmt.Sprintf("%d vs %d", nr, plainDepth))
			}
			plainDepth = nr
		} else if plainDepth >= 0 && nr != plainDepth+1 {
			viol("Array.Get of a value stored in its own slab does not make exactly one ledger read more", fmt.Sprintf("%d vs %d", nr, plainDepth))
		}
		for k := 0; k <= nr; k++ {
			kind := rng.Pick(60, 10, 10, 10, 10)
			made, e := get(i, cbPlan{comp: cbRead, idx: k, kind: kind})
			rep.Op("directed.array.fail_ledger read")
			switch {
			case k == nr:
				if e != nil {
					viol("a fault that is never reached changed the answer of Array.Get", e.Error())
				}
			case e == nil:
				viol(fmt.Sprintf("Array.Get with ledger read %d of %d failing succeeded", k, nr), "")
			default:
				if made != k+1 {
					viol("Array.Get went on reading after the failed read", fmt.Sprintf("%d reads, fault at %d", made, k))
				}
				if kind == 0 || kind == 3 {
					rep.Err("ExternalError")
					if cbCategory(e) != 3 || !errors.Is(e, errCbInjected) {
						viol(fmt.Sprintf("Array.Get with ledger read %d of %d failing is not an ExternalError wrapping the ledger's error", k, nr), e.Error())
					}
				} else {
					rep.Event("observation_component_error_already_categorised_keeps_category_" + cbKindName[kind])
				}
			}
			if d, _ := atree.VerifStorageKeys(rst); len(d) != 0 {
				viol("Array.Get left slabs in the write set", fmt.Sprint(len(d)))
			}
		}
	}
}

func cmdCallback(a Args) {
	tr := NewTrace(a.Out + "/trace.txt")
	rep := NewReport(a.Prop, a.Seed)
	rep.Rule = "one OrderedMap per history built by the maptree generator (4-level table digester: distinct / sequential / clustered / hot level-0 digests, " +
		"collision groups on all levels, external groups; T in {256,300,512,1024}); at four points the map is committed and opened by its root in a fresh storage " +
		"whose ledger, digester, hash-input provider and comparator record their calls and fail by plan; per sampled key (45% members of collision groups, 25% any " +
		"present key, 30% absent keys incl. colliding probes) and per Get/Has: a dry run, then EVERY call index of EVERY component failed in turn with a plain error " +
		"(+ sampled: the index one past the last call, sticky faults, errors already carrying an atree category or being a KeyNotFoundError, a failing digester handing " +
		"back 0 / another key's digest / the right digest), cold cache or the cache left by the previous lookup; compared with the Coq model per lookup: result class, " +
		"failing component, category, and the complete ordered list of component calls with arguments; oracles: checked failure => ExternalError wrapping the " +
		"component's error, unreached fault => dictionary answer, nothing written, fault-free retry => dictionary answer; directed: value in its own slab = one " +
		"more ledger read. non-trivial = history with >= 2 comparator calls in one lookup, >= 2 ledger reads, a dropped digester error that hid a present key"
	lib := mpeReadLibDefaultLimit()
	defer func() {
		atree.VerifSetThreshold(1024)
		atree.VerifSetMaxCollisionLimitPerDigest(lib)
	}()
	root := NewRng(a.Seed)
	thorough := a.Mode == "thorough"
	perPoint := 3
	if thorough {
		perPoint = 8
	}
	for h := 0; h < a.N; h++ {
		hr := root.Fork(uint64(h))
		tag := fmt.Sprintf("h%d", h)
		if !want(tag) {
			continue
		}
		r := &cbRun{mtrRun: &mtrRun{rep: rep, tr: tr, hist: h, tag: tag, rng: hr}}
		func() {
			defer func() {
				if p := recover(); p != nil {
					r.viol("C18: unexpected panic outside a library call", fmt.Sprint(p))
					r.dead = true
				}
				atree.VerifSetThreshold(1024)
				atree.VerifSetMaxCollisionLimitPerDigest(lib)
			}()
			r.run(a.Steps, perPoint, thorough)
		}()
		rep.Event(fmt.Sprintf("hist_max_comparator_calls_in_a_lookup_%d", min(r.maxCmp, 6)))
		rep.Event(fmt.Sprintf("hist_max_ledger_reads_in_a_lookup_%d", r.maxRead))
		rep.Event(fmt.Sprintf("hist_max_digester_calls_in_a_lookup_%d", r.maxDig))
		rep.EventN("lookups", r.nLook)
		rep.EventN("lookups_checked_failure_reached", r.nReached)
		rep.EventN("lookups_fault_free_or_unreached", r.nUnreached)
		rep.EventN("lookups_dropped_digester_errors_only", r.nDropped)
		if r.sawCmp2 && r.sawRead2 {
			rep.Distinct(fmt.Sprintf("T%d %s h%d cmp%d rd%d dig%d drop%t", r.T, r.mode, r.maxH, r.maxCmp, r.maxRead, r.maxDig, r.sawDropAbsent))
		}
		rep.Sample(fmt.Sprintf("history %s: T=%d %s, %d keys, height %d: %d lookups (%d with a checked failure reached, %d fault-free or unreached, %d with dropped digester errors only), at most %d comparator calls / %d ledger reads / %d digester calls per lookup",
			tag, r.T, r.mode, len(r.pool), r.maxH, r.nLook, r.nReached, r.nUnreached, r.nDropped, r.maxCmp, r.maxRead, r.maxDig))
	}
	if want("directed") {
		dr := root.Fork(1 << 40)
		for i := 0; i < 3; i++ {
			func() {
				defer func() {
					if p := recover(); p != nil {
						rep.Violate(-1, "directed", 0, "C18: directed case panicked", fmt.Sprint(p))
					}
				}()
				cbDirected(rep, dr.Fork(uint64(i)))
				cbDirectedArray(rep, dr.Fork(uint64(100+i)))
				cbDirectedSetPrecheck(rep)
			}()
		}
	}
	tr.Close()
	rep.Histories = tr.Hists
	rep.Steps = tr.Steps
	rep.Write(a.Out + "/report.json")
}
