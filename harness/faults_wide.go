//go:build verif

package main

// faults_wide.go — C14, WIDE commits: many dirty slabs of one flat container, deletions and writes in the
// same commit, and every worker count of both commits — in particular the order-relaxed commit with
// FEWER workers than modified slabs, where encoder goroutines are still producing results while the
// committing goroutine talks to the ledger.  Part of `harness faults` (default mode: a fifth of the
// budget; `-mode wide`: only these).  Tags fw<h>.
//
// A history is a function of its seed: one array or one map of scalar values (1..9-byte integers) at
// T in {256, 512, 1024}, three phases each followed by a commit:
//
//	build   elements are added until the write set holds S slabs, S in 5..200 (T=512: ..100, T=1024: ..50; all
//	        first writes);
//	mutate  a contiguous range of 20..75 % of the elements (front / middle / end of the iteration order) is
//	        removed — data slabs merge, persisted registers are DELETED —, every Stride-th remaining
//	        element is overwritten (most remaining slabs become dirty) and a few elements are added;
//	tail    1..6 single operations.
//
// A fault-free twin (FastCommit, 1 worker) records ledger and call log per commit (D deletions, M writes).
// For every commit with >= 2 ledger calls and every flavour in
//
//	NondeterministicFastCommit workers 1, 2, 3 (always) and one of 4 / 8 / 64;  FastCommit one of 1 / 2 / 8
//
// the history is re-executed from scratch and one ledger call of that commit fails: positions 0, D-1 (last
// deletion), D, D+1 (first writes of the relaxed commit), D+M/2, W-2, W-1 and two random ones for the
// relaxed commit (it issues its deletions first); first / middle / last / first deletion / one random for
// FastCommit.  Faults on deletions of the relaxed commit and every third other case are SLOW (the armed
// call takes 2 ms before it fails: workers run ahead of the committing goroutine).  Oracles:
//
//   - the attempt RETURNS (watchdog of commit_watchdog.go), with an *ExternalError, exactly one call failed;
//   - every owned pending slab is still pending, unaltered, its register untouched — or its call succeeded,
//     it left the write set and its register holds the twin's bytes (absent for a deletion); nothing else
//     was touched; Deltas / DeltasWithoutTempAddresses agree;
//   - Count, every element (array: positional iteration; map: Get of every key + iteration count) equal the
//     expected content after the failure;
//   - (30 %) a second fault during the retry; then a fault-free retry of the same flavour succeeds, nothing
//     owned is pending, the ledger is byte-identical to the twin's after that commit, a fresh storage over a
//     copy of the ledger reloads the expected content; the history continued to its end produces the twin's
//     final ledger.

import (
	"errors"
	"fmt"

	"github.com/onflow/atree"
	testutils "github.com/onflow/atree/test_utils"
)

const wideRule = "one flat array or map of 1..9-byte integers at T in {256,512,1024}; build until S in 5..200 slabs are pending, commit; remove a contiguous 20-75% range (slabs merge, registers deleted), overwrite every Stride-th remaining element, add a few, commit; 1-6 single operations, commit. Fault-free twin (FastCommit 1 worker). For every commit and flavour {NondeterministicFastCommit workers 1,2,3 and one of 4/8/64; FastCommit one of 1/2/8} one ledger call fails at positions {0, last deletion, first and second write, middle write, W-2, W-1, 2 random} (relaxed) / {first, middle, last, first deletion, random} (FastCommit); faults on deletions of the relaxed commit and every third other case take 2 ms before failing. The attempt must return (watchdog) with *ExternalError after exactly one failed call; pending slabs still pending and untouched or written with the twin's bytes; content (Count, every element) unchanged; optional second fault; fault-free retry succeeds, ledger byte-identical to the twin's, fresh storage reloads the content; continued history ends in the twin's final ledger. non-trivial = wide history all of whose cases ran with a commit of >=5 writes and a commit with >=1 deletion and >=2 writes"

type wideSpec struct {
	Seed   uint64
	T      uint32
	IsMap  bool
	Slabs  int
	Cut    int // 0 front, 1 middle, 2 end
	CutPct int
	Stride int
	Grow   int
	Tail   int
}

func (sp wideSpec) String() string {
	kind := "array"
	if sp.IsMap {
		kind = "map"
	}
	return fmt.Sprintf("wide %s seed=%d T=%d build-until-slabs=%d cut=%d/%d%% stride=%d grow=%d tail=%d", kind, sp.Seed, sp.T, sp.Slabs, sp.Cut, sp.CutPct, sp.Stride, sp.Grow, sp.Tail)
}

func newWideSpec(hr *Rng) wideSpec {
	sp := wideSpec{Seed: hr.U64(), T: []uint32{256, 512, 1024}[hr.Pick(50, 30, 20)], IsMap: hr.Chance(40)}
	switch hr.Pick(35, 40, 25) {
	case 0:
		sp.Slabs = 5 + hr.Intn(8)
	case 1:
		sp.Slabs = 13 + hr.Intn(28)
	default:
		sp.Slabs = 41 + hr.Intn(160)
	}
	if max := int(51200 / sp.T); sp.Slabs > max { // bounds the number of elements (T=1024: 50 slabs, T=512: 100)
		sp.Slabs = max - hr.Intn(max/4)
	}
	sp.Cut = hr.Intn(3)
	sp.CutPct = 20 + hr.Intn(56)
	sp.Stride = 3 + hr.Intn(30)
	sp.Grow = hr.Intn(40)
	sp.Tail = 1 + hr.Intn(6)
	return sp
}

type wideExec struct {
	sp    wideSpec
	base  *LogBase
	st    *atree.PersistentSlabStorage
	r     *Rng // consumed by the operations only
	arr   *atree.Array
	m     *atree.OrderedMap
	vals  []uint64          // expected array content
	mv    map[uint64]uint64 // expected map content
	nextK uint64
	phase int
	bad   string
}

const wideAddr = 0x77

func newWideExec(sp wideSpec) *wideExec {
	x := &wideExec{sp: sp, base: NewLogBase(), r: NewRng(sp.Seed), mv: map[uint64]uint64{}}
	x.st = newStorage(x.base)
	return x
}

func (x *wideExec) fail(format string, args ...any) {
	if x.bad == "" {
		x.bad = fmt.Sprintf(format, args...)
	}
}

func (x *wideExec) val() uint64 { return x.r.U64() >> uint(8*x.r.Intn(8)) }

func (x *wideExec) newKey() uint64 {
	x.nextK++
	return x.nextK * 0x9E3779B97F4A7C15
}

func (x *wideExec) mapSet(k, v uint64) {
	if _, err := x.m.Set(testutils.CompareValue, testutils.GetHashInput, testutils.Uint64Value(k), testutils.Uint64Value(v)); err != nil {
		x.fail("OrderedMap.Set failed: %v", err)
		return
	}
	x.mv[k] = v
}

func (x *wideExec) mapRemove(k uint64) {
	if _, _, err := x.m.Remove(testutils.CompareValue, testutils.GetHashInput, testutils.Uint64Value(k)); err != nil {
		x.fail("OrderedMap.Remove failed: %v", err)
		return
	}
	delete(x.mv, k)
}

func (x *wideExec) arrAppend(v uint64) {
	if err := x.arr.Append(testutils.Uint64Value(v)); err != nil {
		x.fail("Array.Append failed: %v", err)
		return
	}
	x.vals = append(x.vals, v)
}

func (x *wideExec) arrSet(i int, v uint64) {
	if _, err := x.arr.Set(uint64(i), testutils.Uint64Value(v)); err != nil {
		x.fail("Array.Set failed: %v", err)
		return
	}
	x.vals[i] = v
}

func (x *wideExec) arrRemove(i int) {
	if _, err := x.arr.Remove(uint64(i)); err != nil {
		x.fail("Array.Remove failed: %v", err)
		return
	}
	x.vals = append(x.vals[:i], x.vals[i+1:]...)
}

// mapOrder lists the keys in the map's iteration order.
func (x *wideExec) mapOrder() []uint64 {
	var ks []uint64
	err := x.m.IterateReadOnlyKeys(func(k atree.Value) (bool, error) {
		u, ok := k.(testutils.Uint64Value)
		if !ok {
			return false, fmt.Errorf("key of type %T", k)
		}
		ks = append(ks, uint64(u))
		return true, nil
	})
	if err != nil {
		x.fail("OrderedMap.IterateReadOnlyKeys failed: %v", err)
	}
	return ks
}

// runPhase executes the next phase (0 build, 1 mutate, 2 tail); panics of the library become failures.
func (x *wideExec) runPhase() {
	defer func() {
		if r := recover(); r != nil {
			x.fail("panic in implementation during phase %d: %v", x.phase, r)
		}
		x.phase++
	}()
	sp := x.sp
	switch x.phase {
	case 0:
		var err error
		if sp.IsMap {
			x.m, err = atree.NewMap(x.st, mkAddr(wideAddr), atree.NewDefaultDigesterBuilder(), testutils.NewSimpleTypeInfo(52))
		} else {
			x.arr, err = atree.NewArray(x.st, mkAddr(wideAddr), testutils.NewSimpleTypeInfo(42))
		}
		if err != nil {
			x.fail("container creation failed: %v", err)
			return
		}
		for n := 0; x.bad == "" && int(x.st.DeltasWithoutTempAddresses()) < sp.Slabs && n < 200000; n++ {
			if sp.IsMap {
				x.mapSet(x.newKey(), x.val())
			} else {
				x.arrAppend(x.val())
			}
		}
	case 1:
		if sp.IsMap {
			order := x.mapOrder()
			n := len(order)
			cnt := n * sp.CutPct / 100
			start := []int{0, (n - cnt) / 2, n - cnt}[sp.Cut]
			for _, k := range order[start : start+cnt] {
				if x.bad != "" {
					return
				}
				x.mapRemove(k)
			}
			rest := append(append([]uint64(nil), order[:start]...), order[start+cnt:]...)
			for i := x.r.Intn(sp.Stride); i < len(rest) && x.bad == ""; i += sp.Stride {
				x.mapSet(rest[i], x.val())
			}
			for i := 0; i < sp.Grow && x.bad == ""; i++ {
				x.mapSet(x.newKey(), x.val())
			}
			return
		}
		n := len(x.vals)
		cnt := n * sp.CutPct / 100
		start := []int{0, (n - cnt) / 2, n - cnt}[sp.Cut]
		for i := 0; i < cnt; i++ {
			if _, err := x.arr.Remove(uint64(start)); err != nil {
				x.fail("Array.Remove failed: %v", err)
				return
			}
		}
		x.vals = append(x.vals[:start], x.vals[start+cnt:]...)
		for i := x.r.Intn(sp.Stride); i < len(x.vals) && x.bad == ""; i += sp.Stride {
			x.arrSet(i, x.val())
		}
		for i := 0; i < sp.Grow && x.bad == ""; i++ {
			x.arrAppend(x.val())
		}
	default:
		for i := 0; i < sp.Tail && x.bad == ""; i++ {
			if sp.IsMap {
				order := x.mapOrder()
				switch {
				case len(order) == 0 || x.r.Chance(40):
					x.mapSet(x.newKey(), x.val())
				case x.r.Bool():
					x.mapSet(order[x.r.Intn(len(order))], x.val())
				default:
					x.mapRemove(order[x.r.Intn(len(order))])
				}
				continue
			}
			switch {
			case len(x.vals) == 0 || x.r.Chance(40):
				x.arrAppend(x.val())
			case x.r.Bool():
				x.arrSet(x.r.Intn(len(x.vals)), x.val())
			default:
				x.arrRemove(x.r.Intn(len(x.vals)))
			}
		}
	}
}

// content compares what the container returns with the expected content; fresh != nil: through new
// wrappers opened by root identifier in that storage.
func (x *wideExec) content(fresh *atree.PersistentSlabStorage) (diff string) {
	defer func() {
		if r := recover(); r != nil {
			diff = fmt.Sprintf("panic while reading: %v", r)
		}
	}()
	if x.sp.IsMap {
		m := x.m
		if fresh != nil {
			var err error
			if m, err = atree.NewMapWithRootID(fresh, x.m.SlabID(), atree.NewDefaultDigesterBuilder()); err != nil {
				return "map cannot be opened by its root identifier: " + err.Error()
			}
		}
		if m.Count() != uint64(len(x.mv)) {
			return fmt.Sprintf("Count %d, expected %d", m.Count(), len(x.mv))
		}
		for k, want := range x.mv {
			v, err := m.Get(testutils.CompareValue, testutils.GetHashInput, testutils.Uint64Value(k))
			if err != nil {
				return fmt.Sprintf("Get(%d): %v", k, err)
			}
			if got, ok := v.(testutils.Uint64Value); !ok || uint64(got) != want {
				return fmt.Sprintf("Get(%d) = %v, expected %d", k, v, want)
			}
		}
		n := 0
		if err := m.IterateReadOnly(func(k, v atree.Value) (bool, error) { n++; return true, nil }); err != nil {
			return "IterateReadOnly: " + err.Error()
		}
		if n != len(x.mv) {
			return fmt.Sprintf("iteration returned %d entries, expected %d", n, len(x.mv))
		}
		return ""
	}
	a := x.arr
	if fresh != nil {
		var err error
		if a, err = atree.NewArrayWithRootID(fresh, x.arr.SlabID()); err != nil {
			return "array cannot be opened by its root identifier: " + err.Error()
		}
	}
	if a.Count() != uint64(len(x.vals)) {
		return fmt.Sprintf("Count %d, expected %d", a.Count(), len(x.vals))
	}
	i := 0
	err := a.IterateReadOnly(func(v atree.Value) (bool, error) {
		if got, ok := v.(testutils.Uint64Value); !ok || i >= len(x.vals) || uint64(got) != x.vals[i] {
			return false, fmt.Errorf("element %d = %v differs from the expected content", i, v)
		}
		i++
		return true, nil
	})
	if err != nil {
		return err.Error()
	}
	if i != len(x.vals) {
		return fmt.Sprintf("iteration returned %d elements, expected %d", i, len(x.vals))
	}
	return ""
}

// commit runs one commit under the watchdog.
func (x *wideExec) commit(nondet bool, workers int) (err error, log []BaseCall, hung string) {
	x.base.ResetLog()
	o := watchedCommit(x.st, nondet, workers)
	log = append([]BaseCall(nil), x.base.Log...)
	if o.hung != "" {
		return nil, log, o.hung
	}
	if o.pan != "" {
		x.fail("panic in implementation during %s: %s", commitFlavour(nondet, workers), o.pan)
	}
	x.base.ResetLog()
	return o.err, log, ""
}

type wideTwin struct {
	snaps  []*LogBase
	logs   [][]BaseCall
	bad    string
	wedged bool
}

func runWideTwin(sp wideSpec) (t wideTwin) {
	x := newWideExec(sp)
	for x.phase < 3 && x.bad == "" {
		x.runPhase()
		if x.bad != "" {
			break
		}
		err, log, hung := x.commit(false, 1)
		if hung != "" {
			t.wedged = true
			x.fail("C14: a fault-free commit does not return | %s", wdDetail(hung, false, 1, -1, "no fault armed", log))
			break
		}
		if err != nil {
			x.fail("fault-free commit failed: %v", err)
			break
		}
		t.snaps = append(t.snaps, x.base.Clone())
		t.logs = append(t.logs, log)
		if d := x.content(nil); d != "" {
			x.fail("content after a fault-free commit: %s", d)
		} else if d := x.content(newStorage(x.base.Clone())); d != "" {
			x.fail("C14: content reloaded by a fresh storage after a fault-free commit: %s", d)
		}
	}
	t.bad = x.bad
	return t
}

// runWideCase re-executes the history; ledger call k of commit c fails.  Returns the number of faulted
// attempts and whether a commit did not return.
func runWideCase(sp wideSpec, twin wideTwin, c, k int, v faultVariant, slow bool, fr *Rng, rep *Report, viol func(step int, what, detail string)) (attempts int, wedged bool) {
	x := newWideExec(sp)
	base, st := x.base, x.st
	ctx := fmt.Sprintf("commit #%d, ledger call %d of %d fails, %s", c, k, len(twin.logs[c]), commitFlavour(v.nondet, v.workers))
	if slow {
		ctx += ", the failing call takes " + slowFaultDelay.String()
	}
	bad := func(what, detail string) { viol(c, what, ctx+" | "+detail) }

	commitPlain := func() bool {
		err, log, hung := x.commit(v.nondet, v.workers)
		if hung != "" {
			wedged = true
			bad("C14: a commit during which no ledger call fails does not return", wdDetail(hung, v.nondet, v.workers, int(st.DeltasWithoutTempAddresses()), "no fault armed", log))
			return false
		}
		if x.bad != "" {
			return false
		}
		if err != nil {
			bad("C14: commit without injected fault failed", err.Error())
			return false
		}
		if n := st.DeltasWithoutTempAddresses(); n != 0 {
			bad("C14: owned pending changes remain after a successful commit", fmt.Sprint(n))
			return false
		}
		return true
	}

	faulted := func(k int, slow bool) bool {
		attempts++
		pend := ownedDeltas(st)
		nAll := int(st.Deltas())
		before := segSnapshot(base)
		nStores := 0
		for _, live := range pend {
			if live {
				nStores++
			}
		}
		armSlow(base, k, slow)
		err, log, hung := x.commit(v.nondet, v.workers)
		if hung != "" {
			wedged = true
			rep.Event("commit_did_not_return")
			bad("C14: a commit with a failing ledger call does not return (it neither reports the error nor finishes)",
				wdDetail(hung, v.nondet, v.workers, len(pend), fmt.Sprintf("ledger call %d of this attempt armed to fail; write set: %d writes, %d deletions", k, nStores, len(pend)-nStores), log))
			return false
		}
		disarmSlow(base)
		if x.bad != "" {
			return false
		}
		nFail, failed := 0, BaseCall{}
		okCalls := map[atree.SlabID]byte{}
		for _, cl := range log {
			if cl.Fail {
				nFail++
				failed = cl
			} else {
				okCalls[cl.ID] = cl.Kind
			}
		}
		if nFail != 1 {
			bad("C14: armed ledger fault did not fire exactly once", fmt.Sprintf("fired %d times; %d pending; err: %v; calls: %s", nFail, len(pend), err, clip(logStr(log), 300)))
			return false
		}
		class := "write"
		if failed.Kind == 'D' {
			class = "deletion"
		}
		fl := "fast"
		if v.nondet {
			fl = "relaxed"
		}
		rep.Event("wide_fault_on_" + class + "_" + fl)
		if v.nondet && v.workers < nStores {
			rep.Event("wide_relaxed_attempts_with_fewer_workers_than_modified_slabs")
			if len(okCalls) < len(pend)-2 {
				rep.Event("wide_relaxed_fewer_workers_fault_on_non_final_call")
			}
		}
		if err == nil {
			bad("C14: commit with a failed ledger call returned no error", clip(logStr(log), 300))
			return false
		}
		var ee *atree.ExternalError
		if !errors.As(err, &ee) {
			bad("C14: ledger failure not reported as ExternalError", fmt.Sprintf("%T %v", err, err))
		} else {
			rep.Err("ExternalError")
		}
		after := ownedDeltas(st)
		want := twin.snaps[c]
		for id, live := range pend {
			kind, done := okCalls[id]
			alive, still := after[id]
			switch {
			case done && still:
				bad("C14: change written to the ledger is still pending", id.String())
			case !done && !still:
				bad("C14: pending change lost by a failed commit (neither pending nor written)", id.String())
			case !done:
				if alive != live {
					bad("C14: pending change altered by a failed commit", id.String())
				}
				d, ok := base.Segs[id]
				if bd, bok := before[id]; ok != bok || string(d) != bd {
					bad("C14: register of a still-pending change was modified", id.String())
				}
			default:
				if (kind == 'S') != live {
					bad("C14: ledger call kind disagrees with the pending change", id.String())
				}
				d, ok := base.Segs[id]
				wd, wok := want.Segs[id]
				if ok != live || wok != live || string(d) != string(wd) {
					bad("C14: register written by the failed commit differs from the fault-free encoding", id.String())
				}
			}
		}
		for id := range after {
			if _, ok := pend[id]; !ok {
				bad("C14: failed commit created a pending change", id.String())
			}
		}
		for id := range okCalls {
			if _, ok := pend[id]; !ok {
				bad("C14: commit touched a register without pending change", id.String())
			}
		}
		if _, still := after[failed.ID]; !still {
			bad("C14: the change whose ledger call failed is no longer pending", failed.ID.String())
		}
		if got, wantN := int(st.DeltasWithoutTempAddresses()), len(pend)-len(okCalls); got != wantN {
			bad("C14: DeltasWithoutTempAddresses inconsistent with the successful ledger calls", fmt.Sprintf("got %d want %d", got, wantN))
		}
		if got, wantN := int(st.Deltas()), nAll-len(okCalls); got != wantN {
			bad("C14: Deltas inconsistent with the successful ledger calls", fmt.Sprintf("got %d want %d", got, wantN))
		}
		if d := x.content(nil); d != "" {
			bad("C14: reads after a failed commit do not return the latest values", d)
			return false
		}
		return true
	}

	for x.phase < 3 && x.bad == "" {
		x.runPhase()
		if x.bad != "" {
			break
		}
		ci := x.phase - 1
		if ci != c {
			if !commitPlain() {
				return attempts, wedged
			}
			continue
		}
		if !faulted(k, slow) {
			return attempts, wedged
		}
		if rem := int(st.DeltasWithoutTempAddresses()); rem > 0 && fr.Chance(30) {
			if !faulted(fr.Intn(rem), fr.Bool()) {
				return attempts, wedged
			}
			rep.Event("second_fault_in_retry")
		}
		if !commitPlain() {
			return attempts, wedged
		}
		if d := SameRegisters(twin.snaps[c], base); d != "" {
			bad("C14: registers after retry differ from the fault-free twin", clip(d, 300))
			return attempts, wedged
		}
		if d := x.content(nil); d != "" {
			bad("C14: reads after the successful retry do not return the latest values", d)
			return attempts, wedged
		}
		if d := x.content(newStorage(base.Clone())); d != "" {
			bad("C14: content reloaded by a fresh storage after the successful retry differs", d)
			return attempts, wedged
		}
	}
	if x.bad != "" {
		bad("C14: history failed: "+x.bad, "")
		return attempts, wedged
	}
	if d := SameRegisters(twin.snaps[len(twin.snaps)-1], base); d != "" {
		bad("C14: final registers of the history continued after recovery differ from the fault-free twin", clip(d, 300))
	}
	return attempts, wedged
}

// widePositions chooses the fault positions of one commit for one flavour.
func widePositions(log []BaseCall, nondet bool, fr *Rng) []int {
	W, D, firstDel := len(log), 0, -1
	for i, cl := range log {
		if cl.Kind == 'D' {
			D++
			if firstDel < 0 {
				firstDel = i
			}
		}
	}
	M := W - D
	var cand []int
	if nondet {
		cand = []int{0, D - 1, D, D + 1, D + M/2, W - 2, W - 1, fr.Intn(W), fr.Intn(W)}
	} else {
		cand = []int{0, W / 2, W - 1, firstDel, fr.Intn(W)}
	}
	seen := map[int]bool{}
	var ks []int
	for _, k := range cand {
		if k >= 0 && k < W && !seen[k] {
			seen[k] = true
			ks = append(ks, k)
		}
	}
	return ks
}

// runWideFaults runs wide histories until `budget` faulted attempts were made; returns their number.
func runWideFaults(a Args, rep *Report, rng *Rng, budget int) int {
	total := 0
	for h := 0; h < a.N; h++ {
		hr := rng.Fork(uint64(h))
		tag := fmt.Sprintf("fw%d", h)
		if !want(tag) {
			continue
		}
		if total >= budget {
			rep.Event("wide_budget_exhausted")
			break
		}
		if wdExhausted() {
			rep.Event("run_stopped_after_commits_that_did_not_return")
			break
		}
		sp := newWideSpec(hr)
		atree.VerifSetThreshold(sp.T)
		nviol := len(rep.Violations)
		viol := func(step int, what, detail string) {
			rep.Violate(h, tag, step, what, clip(detail, 700)+" | "+sp.String())
		}
		twin := runWideTwin(sp)
		rep.Histories++
		rep.Steps += 3
		rep.Event("wide_histories")
		if twin.bad != "" {
			viol(0, "C14: fault-free twin failed", twin.bad)
			continue
		}
		fr := hr.Fork(99)
		wedged := false
		bigWrite, mixed := false, false
		for c, log := range twin.logs {
			W, D := len(log), 0
			for _, cl := range log {
				if cl.Kind == 'D' {
					D++
				}
			}
			rep.EventN("wide_twin_ledger_calls", W)
			rep.EventN("wide_twin_deletions", D)
			if W-D >= 5 {
				bigWrite = true
			}
			if D >= 1 && W-D >= 2 {
				mixed = true
			}
			if W < 2 {
				continue
			}
			vs := []faultVariant{
				{"nondet-w1", true, 1}, {"nondet-w2", true, 2}, {"nondet-w3", true, 3},
				{"nondet-wN", true, []int{4, 8, 64}[(h+c)%3]},
				{"fast-wN", false, []int{1, 2, 8}[(h+c)%3]},
			}
			for vi, v := range vs {
				cr := fr.Fork(uint64(c*100 + vi)) // own generator per (commit, flavour): the order of a relaxed commit must not shift later cases
				for ki, k := range widePositions(log, v.nondet, cr) {
					if len(rep.Violations) > nviol+5 || wedged {
						break
					}
					slow := (v.nondet && k < D) || (ki+vi+c)%3 == 0
					n, wd := runWideCase(sp, twin, c, k, v, slow, cr, rep, viol)
					total += n
					wedged = wd
					rep.Event("wide_cases")
				}
			}
		}
		if bigWrite && mixed && !wedged && len(rep.Violations) == nviol {
			rep.Distinct("wide:" + ledgerDigest(twin.snaps[len(twin.snaps)-1]))
		}
		if h < 1 {
			ws := make([]int, len(twin.logs))
			for i, l := range twin.logs {
				ws[i] = len(l)
			}
			rep.Sample(fmt.Sprintf("%s: %s; ledger calls per commit %v", tag, sp, ws))
		}
	}
	return total
}
