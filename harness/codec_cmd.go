//go:build verif

package main

// codec_cmd.go — C06 (reported slab sizes equal the bytes written) and C07 (slab encoding is
// canonical, self-describing and round-trips exactly).
//
// States come from random World histories (workload.go) at several slab sizes: flat and nested
// containers, wrappers, large values, forced digest collisions, and composite-typed child maps
// (compact encoding).  After every k-th operation every slab visible in the storage, and after
// every commit every register, is checked on the implementation alone (oracles 1-4 below).
// Slabs of the kinds the Coq model (Codec.v) covers are written to trace.txt: operation =
// structural dump, answer = the bytes.

import (
	"bytes"
	"fmt"
	"hash/fnv"
	"reflect"
	"sort"
	"strings"

	"github.com/fxamacker/cbor/v2"
	"github.com/onflow/atree"
	testutils "github.com/onflow/atree/test_utils"
)

// ---------- composite type info (own tag number: testutils.CompositeTypeInfo collides with atree's tag 246) ----------

const codecCompositeTag = 201

type codecCompositeTI struct{ id uint64 }

var _ atree.TypeInfo = codecCompositeTI{}

func (t codecCompositeTI) Copy() atree.TypeInfo { return t }
func (t codecCompositeTI) IsComposite() bool    { return true }
func (t codecCompositeTI) Identifier() string   { return fmt.Sprintf("codecComposite(%d)", t.id) }
func (t codecCompositeTI) Encode(e *cbor.StreamEncoder) error {
	if err := e.EncodeTagHead(codecCompositeTag); err != nil {
		return err
	}
	return e.EncodeUint64(t.id)
}

func codecDecodeTypeInfo(dec *cbor.StreamDecoder) (atree.TypeInfo, error) {
	t, err := dec.NextType()
	if err != nil {
		return nil, err
	}
	switch t {
	case cbor.UintType:
		v, err := dec.DecodeUint64()
		if err != nil {
			return nil, err
		}
		return testutils.NewSimpleTypeInfo(v), nil
	case cbor.TagType:
		n, err := dec.DecodeTagNumber()
		if err != nil {
			return nil, err
		}
		if n != codecCompositeTag {
			return nil, fmt.Errorf("codec: unknown type info tag %d", n)
		}
		v, err := dec.DecodeUint64()
		if err != nil {
			return nil, err
		}
		return codecCompositeTI{v}, nil
	}
	return nil, fmt.Errorf("codec: cannot decode type info of CBOR type %s", t)
}

func codecTypeInfoKV(ti atree.TypeInfo) (uint64, uint64) {
	switch t := ti.(type) {
	case testutils.SimpleTypeInfo:
		return 0, t.Value()
	case codecCompositeTI:
		return 1, t.id
	}
	return 9, 0
}

// codecDecMode: the default cbor.DecOptions stop at 32 nested levels, which encodings with deep
// collision groups holding inlined containers exceed (counted as "needs_more_than_32_nested_levels");
// applications configure their own limit, so the checks run with a generous one.
var codecDecMode = func() cbor.DecMode {
	m, err := cbor.DecOptions{MaxNestedLevels: 1024}.DecMode()
	if err != nil {
		panic(err)
	}
	return m
}()

func codecStorage(base atree.BaseStorage) *atree.PersistentSlabStorage {
	return atree.NewPersistentSlabStorage(base, encMode, codecDecMode, testutils.DecodeStorable, codecDecodeTypeInfo)
}

// codecStorageT: storage for histories that hold values of the harness' own tuple type (codectuple.go).
func codecStorageT(base atree.BaseStorage) *atree.PersistentSlabStorage {
	return atree.NewPersistentSlabStorage(base, encMode, codecDecMode, codecDecodeStorable, codecDecodeTypeInfo)
}

// ---------- table-driven digester with tiny per-level alphabets ----------

type codecDigesterBuilder struct {
	alph   [4]uint64
	k0, k1 uint64
}

func (b *codecDigesterBuilder) SetSeed(k0, k1 uint64) { b.k0, b.k1 = k0, k1 }

func (b *codecDigesterBuilder) Digest(hip atree.HashInputProvider, v atree.Value) (atree.Digester, error) {
	var scratch [64]byte
	msg, err := hip(v, scratch[:])
	if err != nil {
		return nil, err
	}
	f := fnv.New64a()
	f.Write(msg)
	h := f.Sum64()
	d := &codecDigester{}
	for l := 0; l < 4; l++ {
		x := (h >> (13 * uint(l))) % b.alph[l]
		d.d[l] = atree.Digest((x + 1) * 0x0123456789ABCDEF) // odd multiplier: injective, exercises all 8 bytes
	}
	return d, nil
}

type codecDigester struct{ d [4]atree.Digest }

func (d *codecDigester) DigestPrefix(level uint) ([]atree.Digest, error) {
	if level > 4 {
		return nil, atree.NewHashLevelErrorf("cannot get digest < level %d", level)
	}
	return append([]atree.Digest(nil), d.d[:level]...), nil
}
func (d *codecDigester) Digest(level uint) (atree.Digest, error) {
	if level >= 4 {
		return 0, atree.NewHashLevelErrorf("cannot get digest at level %d", level)
	}
	return d.d[level], nil
}
func (d *codecDigester) Reset()       {}
func (d *codecDigester) Levels() uint { return 4 }

// ---------- dumping ----------

type codecDump struct {
	unknown bool // a storable kind the dump does not describe
}

func (cd *codecDump) leaf(d *atree.VerifDumper, s atree.Storable) []uint64 {
	sz := uint64(s.ByteSize())
	switch v := s.(type) {
	case testutils.Uint8Value:
		return []uint64{1, sz, 8, uint64(v)}
	case testutils.Uint16Value:
		return []uint64{1, sz, 16, uint64(v)}
	case testutils.Uint32Value:
		return []uint64{1, sz, 32, uint64(v)}
	case testutils.Uint64Value:
		return []uint64{1, sz, 64, uint64(v)}
	case testutils.StringValue:
		str := v.String()
		out := make([]uint64, 0, 3+len(str))
		out = append(out, 2, sz, uint64(len(str)))
		for i := 0; i < len(str); i++ {
			out = append(out, uint64(str[i]))
		}
		return out
	case testutils.SomeStorable:
		return append([]uint64{4, sz}, d.Storable(v.Storable)...)
	case codecTupleStorable:
		// not a kind the byte-level models describe (unknown), but dumped in full for the
		// decoded-equals-encoded comparison
		cd.unknown = true
		out := []uint64{7, sz, uint64(len(v.elems))}
		for _, e := range v.elems {
			out = append(out, d.Storable(e)...)
		}
		return out
	}
	cd.unknown = true
	return []uint64{9, sz}
}

func codecDumpSlab(slab atree.Slab, normalize bool) ([]uint64, bool) {
	cd := &codecDump{}
	d := &atree.VerifDumper{Leaf: cd.leaf, TypeInfo: codecTypeInfoKV, Normalize: normalize}
	return d.Slab(slab), cd.unknown
}

// codecWalk collects, from the storables of one slab at any inlining/wrapping depth, what the
// oracles and the measured distribution need.
type codecWalk struct {
	hasRef   bool
	inlined  int
	compact  int
	saving   int
	maxDepth int
	unknown  bool
	kinds    map[string]int
	refAt    map[string]int // optional: where the references are ("depth<d>[/some][/tuple]...")
}

func (cw *codecWalk) storable(s atree.Storable, depth int) { cw.visit(s, depth, "") }

// visit: ctx names the wrappers/tuples the storable sits under (innermost last), for the
// measured distribution of WHERE a slab's references are.
func (cw *codecWalk) visit(s atree.Storable, depth int, ctx string) {
	if depth > cw.maxDepth {
		cw.maxDepth = depth
	}
	switch v := s.(type) {
	case atree.SlabIDStorable:
		cw.hasRef = true
		cw.kinds["slabid"]++
		if cw.refAt != nil {
			cw.refAt[fmt.Sprintf("depth%d%s", depth, ctx)]++
		}
	case *atree.ArrayDataSlab:
		cw.inlined++
		cw.kinds["inlined_array"]++
		for _, c := range v.ChildStorables() {
			cw.visit(c, depth+1, ctx)
		}
	case *atree.MapDataSlab:
		cw.inlined++
		if sv, ok := atree.VerifCompactSaving(v); ok {
			cw.compact++
			cw.saving += sv
			cw.kinds["inlined_compact_map"]++
		} else {
			cw.kinds["inlined_map"]++
		}
		for _, c := range v.ChildStorables() {
			cw.visit(c, depth+1, ctx)
		}
	case testutils.SomeStorable:
		cw.kinds["some"]++
		if !strings.HasSuffix(ctx, "/some") {
			ctx += "/some"
		}
		cw.visit(v.Storable, depth, ctx)
	case codecTupleStorable:
		cw.kinds["tuple"]++
		cw.unknown = true // outside the byte-level models
		for _, c := range v.ChildStorables() {
			cw.visit(c, depth, ctx+"/tuple")
		}
	case testutils.Uint8Value:
		cw.kinds["uint8"]++
	case testutils.Uint16Value:
		cw.kinds["uint16"]++
	case testutils.Uint32Value:
		cw.kinds["uint32"]++
	case testutils.Uint64Value:
		cw.kinds["uint64"]++
	case testutils.StringValue:
		cw.kinds["string"]++
	default:
		cw.unknown = true
		cw.kinds["other"]++
	}
}

func codecWalkSlab(slab atree.Slab) *codecWalk {
	cw := &codecWalk{kinds: map[string]int{}}
	for _, c := range slab.ChildStorables() {
		cw.storable(c, 0)
	}
	return cw
}

var codecKindNames = map[int]string{1: "array_data", 2: "array_meta", 3: "map_data", 4: "map_meta", 5: "storable", 6: "collision_group_data"}

// ---------- the checker ----------

type codecChecker struct {
	rep     *Report
	tr      *Trace
	hist    int
	tag     string
	step    int
	T       uint32
	compact bool // history uses composite-typed child maps
	checks  int
	seen    map[uint64]bool // per history: (bytes, dump) fingerprints already decoded and traced
	traced  int
	maxTr   int
	rich    bool // saw a slab with inlined children, a collision group or a compact map
	sampled bool
	dec     atree.StorableDecoder // nil: testutils.DecodeStorable
	ptrTrue map[int]int           // per slab kind: slabs whose has-pointers flag was checked with content true / false
	ptrFals map[int]int
}

func (c *codecChecker) decoder() atree.StorableDecoder {
	if c.dec != nil {
		return c.dec
	}
	return testutils.DecodeStorable
}

func (c *codecChecker) bad(what, detail string) {
	c.rep.Violate(c.hist, c.tag, c.step, what, fmt.Sprintf("T=%d %s", c.T, detail))
}

func hashWords(h uint64, ws []uint64) uint64 {
	for _, w := range ws {
		h ^= w
		h *= 0x100000001b3
		h ^= h >> 29
	}
	return h
}

func hashBytes(h uint64, b []byte) uint64 {
	for _, x := range b {
		h ^= uint64(x)
		h *= 0x100000001b3
	}
	return h ^ (h >> 31)
}

func eqWords(a, b []uint64) bool {
	if len(a) != len(b) {
		return false
	}
	for i := range a {
		if a[i] != b[i] {
			return false
		}
	}
	return true
}

func firstDiff(a, b []uint64) string {
	n := len(a)
	if len(b) < n {
		n = len(b)
	}
	for i := 0; i < n; i++ {
		if a[i] != b[i] {
			return fmt.Sprintf("word %d: %d vs %d (lengths %d, %d)", i, a[i], b[i], len(a), len(b))
		}
	}
	return fmt.Sprintf("lengths %d vs %d", len(a), len(b))
}

func trunc(s string) string {
	if len(s) > 300 {
		return s[:300] + "..."
	}
	return s
}

// checkSlab runs oracles 1-3 on one (not inlined) slab; where = "mem" or "reg".
func (c *codecChecker) checkSlab(slab atree.Slab, where string) {
	defer func() {
		if r := recover(); r != nil {
			c.bad("C07: panic while encoding/decoding a slab", fmt.Sprint(r))
		}
	}()
	c.checks++
	rep := c.rep
	id := slab.SlabID()
	kind := atree.VerifSlabKind(slab)
	kname := codecKindNames[kind]
	isData := kind == 1 || kind == 3 || kind == 6
	hasExtra := atree.VerifSlabHasExtraData(slab)
	cw := codecWalkSlab(slab)

	// --- oracle 1: reported size vs written bytes
	sec, err := atree.VerifEncodeSections(slab, encMode)
	if err != nil {
		c.bad("C07: a slab visible in storage cannot be encoded", fmt.Sprintf("%s %s: %v", kname, id, err))
		return
	}
	b := sec.Bytes
	reported := int(slab.ByteSize())
	if sec.EncExtraData != sec.ParsedExtraData || sec.EncInlinedExtraData != sec.ParsedInlinedExtraData {
		c.bad("C06: extra-data sections measured at the encoder differ from those parsed from the bytes",
			fmt.Sprintf("%s %s: encoder %d+%d, parsed %d+%d", kname, id, sec.EncExtraData, sec.EncInlinedExtraData, sec.ParsedExtraData, sec.ParsedInlinedExtraData))
	}
	if sec.HasNext != sec.HeadHasNext {
		c.bad("C07: has-next head bit disagrees with the sibling link", fmt.Sprintf("%s %s: link %v bit %v", kname, id, sec.HasNext, sec.HeadHasNext))
	}
	if sec.HeadHasInlined != (sec.EncInlinedExtraData > 0) || sec.HeadHasInlined != (cw.inlined > 0) {
		c.bad("C07: has-inlined-slabs head bit disagrees with the content", fmt.Sprintf("%s %s: bit %v, section %d bytes, inlined children %d", kname, id, sec.HeadHasInlined, sec.EncInlinedExtraData, cw.inlined))
	}
	omitted := 0
	if isData && !hasExtra && !sec.HasNext {
		omitted = 16 // the empty sibling link of a non-root data slab is accounted for but not written
	}
	if !c.compact && cw.saving != 0 {
		c.bad("C06: compact form used although no composite type is present", fmt.Sprintf("%s %s", kname, id))
	}
	written := len(b) - sec.EncExtraData - sec.EncInlinedExtraData
	if written+omitted+cw.saving != reported {
		c.bad("C06: reported slab size differs from the bytes written",
			fmt.Sprintf("%s %s (%s): reported %d, encoding %d - extra %d - inlinedExtra %d + omittedNext %d + hoistedCompact %d = %d",
				kname, id, where, reported, len(b), sec.EncExtraData, sec.EncInlinedExtraData, omitted, cw.saving, written+omitted+cw.saving))
	}
	if written > reported {
		c.bad("C06: more bytes written than reported", fmt.Sprintf("%s %s: %d > %d", kname, id, written, reported))
	}

	// --- oracle 3: head flags readable from the raw bytes
	isRoot, e1 := atree.IsRootOfAnObject(b)
	hasPtr, e2 := atree.HasPointers(b)
	hasLimit, e3 := atree.HasSizeLimit(b)
	if e1 != nil || e2 != nil || e3 != nil {
		c.bad("C07: head flags cannot be read from the encoding", fmt.Sprint(e1, e2, e3))
	}
	if isRoot != hasExtra {
		c.bad("C07: root flag does not describe the slab", fmt.Sprintf("%s %s: flag %v, has extra data %v", kname, id, isRoot, hasExtra))
	}
	if hasLimit != !atree.VerifSlabAnySize(slab) {
		c.bad("C07: size-limit flag does not describe the slab", fmt.Sprintf("%s %s: flag %v, anySize %v", kname, id, hasLimit, atree.VerifSlabAnySize(slab)))
	}
	wantPtr := cw.hasRef
	if kind == 2 || kind == 4 {
		wantPtr = false // index slabs: the format defines the bit as 0 (they have no elements)
	}
	if hasPtr != wantPtr {
		c.bad("C07: has-pointers flag does not describe the elements", fmt.Sprintf("%s %s (%s): flag %v, content %v, head %x", kname, id, where, hasPtr, wantPtr, b[:2]))
	}
	if c.ptrTrue != nil {
		if wantPtr {
			c.ptrTrue[kind]++
		} else {
			c.ptrFals[kind]++
		}
		// measured distribution: where the references of this slab are
		cr := &codecWalk{kinds: map[string]int{}, refAt: map[string]int{}}
		for _, ch := range slab.ChildStorables() {
			cr.storable(ch, 0)
		}
		for at := range cr.refAt {
			rep.Event("refs_at:" + kname + ":" + at)
			if len(cr.refAt) == 1 {
				rep.Event("refs_only_at:" + kname + ":" + at)
			}
		}
		if kind == 5 {
			if cw.kinds["tuple"] > 0 {
				rep.Event(fmt.Sprintf("storable_slab_tuple_ref:%v", wantPtr))
			} else {
				rep.Event(fmt.Sprintf("storable_slab_plain_ref:%v", wantPtr))
			}
		}
	}

	// --- measured distribution
	rep.Event("slab:" + kname)
	if where == "reg" {
		rep.Event("slab_from_register")
	}
	if cw.inlined > 0 {
		c.rich = true
		rep.Event("slab_with_inlined_children")
		rep.Event(fmt.Sprintf("inline_depth:%d", cw.maxDepth))
	} else if isData {
		rep.Event("slab_without_inlined_children")
	}
	if cw.compact > 0 {
		rep.Event("slab_with_compact_map")
	}
	if sec.InlinedExtraDataCount < cw.inlined {
		rep.Event("slab_sharing_inlined_extra_data") // same-typed inlined arrays / same-shaped compact maps share one entry
	}
	if sec.InlinedExtraDataCount > cw.inlined {
		c.bad("C07: more inlined extra-data entries than inlined children", fmt.Sprintf("%s %s: %d > %d", kname, id, sec.InlinedExtraDataCount, cw.inlined))
	}
	if omitted > 0 {
		rep.Event("omitted_next_16")
	}
	if isData && !hasExtra && sec.HasNext {
		rep.Event("written_next")
	}
	if hasExtra {
		rep.Event("root_slab")
	}
	if hasPtr {
		rep.Event("flag_has_pointers")
	}
	if !hasLimit {
		rep.Event("flag_any_size")
	}
	for k, n := range cw.kinds {
		rep.EventN("elem:"+k, n)
	}
	if kind == 3 || kind == 6 {
		s, ig, eg, lm, ml := atree.VerifMapElementStats(slab)
		rep.EventN("elem:map_entry", s)
		rep.EventN("elem:inline_collision_group", ig)
		rep.EventN("elem:external_collision_group", eg)
		rep.EventN("elem:list_mode_group", lm)
		if ig+eg+lm > 0 || kind == 6 {
			c.rich = true
		}
		if ml > 0 {
			rep.Event(fmt.Sprintf("digest_level:%d", ml))
		}
	}

	// --- oracle 2: decode, re-encode, compare content (skipped when this exact state was done before)
	raw, unknown := codecDumpSlab(slab, false)
	fp := hashWords(hashBytes(uint64(kind), b), raw)
	if c.seen[fp] {
		rep.Event("repeat_state")
		return
	}
	c.seen[fp] = true
	rep.Event("distinct_state")

	// --- trace for the byte-level model (written before decoding, so that a slab the
	// implementation cannot read back still reaches the model)
	func() {
		covered := cw.inlined == 0 && !unknown && !cw.unknown
		if !covered {
			rep.Event("model_uncovered")
			return
		}
		if c.traced >= c.maxTr {
			rep.Event("model_covered_not_traced")
			return
		}
		c.traced++
		rep.Event("model_traced:" + kname)
		obs := make([]uint64, len(b))
		for i, x := range b {
			obs[i] = uint64(x)
		}
		c.tr.StepU(raw, nil, obs)
	}()

	d, err := atree.DecodeSlab(id, b, codecDecMode, c.decoder(), codecDecodeTypeInfo)
	if err != nil {
		c.bad("C07: an encoding produced by the library cannot be decoded", fmt.Sprintf("%s %s: %v", kname, id, err))
		return
	}
	if _, err := atree.DecodeSlab(id, b, decMode, c.decoder(), codecDecodeTypeInfo); err != nil {
		rep.Event("needs_more_than_32_nested_levels")
		if !c.sampled {
			c.sampled = true
			rep.Sample(fmt.Sprintf("default cbor.DecOptions cannot decode %s %s (T=%d, %d inlined children, depth %d): %v", kname, id, c.T, cw.inlined, cw.maxDepth, err))
		}
	}
	if int(d.ByteSize()) != reported {
		c.bad("C06: decoded slab reports a different size than the slab that produced the bytes", fmt.Sprintf("%s %s: %d vs %d", kname, id, d.ByteSize(), reported))
	}
	b2, err := atree.EncodeSlab(d, encMode)
	if err != nil {
		c.bad("C07: decoded slab cannot be re-encoded", fmt.Sprintf("%s %s: %v", kname, id, err))
		return
	}
	if !bytes.Equal(b, b2) {
		c.bad("C07: decode then re-encode does not give identical bytes", fmt.Sprintf("%s %s: %x vs %x", kname, id, b, b2))
	}
	if cw.compact == 0 {
		draw, _ := codecDumpSlab(d, false)
		if !eqWords(raw, draw) {
			c.bad("C07: decoded slab differs in content from the encoded one", fmt.Sprintf("%s %s: %s", kname, id, firstDiff(raw, draw)))
		}
		s1, s2 := fmt.Sprint(slab.ChildStorables()), fmt.Sprint(d.ChildStorables())
		if s1 != s2 {
			c.bad("C07: decoded slab's elements print differently", fmt.Sprintf("%s %s: %s vs %s", kname, id, trunc(s1), trunc(s2)))
		}
	} else {
		n1, _ := codecDumpSlab(slab, true)
		n2, _ := codecDumpSlab(d, true)
		if !eqWords(n1, n2) {
			c.bad("C07: decoded slab differs in content (compared up to seed/order of compact maps)", fmt.Sprintf("%s %s: %s", kname, id, firstDiff(n1, n2)))
		}
	}

	// --- extraneous data: index slabs and array data slabs must reject it (their decoders check);
	// the decoders of map data slabs and storable slabs have no such check: recorded, not alarmed
	if dx, err := atree.DecodeSlab(id, append(append([]byte{}, b...), 0), codecDecMode, c.decoder(), codecDecodeTypeInfo); err == nil {
		if kind == 1 || kind == 2 || kind == 4 {
			c.bad("C07: an encoding followed by an extraneous byte is accepted", fmt.Sprintf("%s %s", kname, id))
		} else {
			rep.Event("trailing_byte_accepted:" + kname)
			if b3, err := atree.EncodeSlab(dx, encMode); err == nil && bytes.Equal(b3, b) {
				rep.Event("trailing_byte_dropped_on_reencode")
			}
		}
	} else {
		rep.Event("trailing_byte_rejected:" + kname)
	}

}

// checkAll checks every slab visible in the storage.
func (c *codecChecker) checkAll(w *World) {
	for _, id := range w.LiveIDs() {
		slab, found, err := w.St.Retrieve(id)
		if err != nil {
			c.bad("C07: a slab visible in storage cannot be retrieved (decode failure)", fmt.Sprintf("%s: %v", id, err))
			continue
		}
		if !found {
			continue
		}
		c.checkSlab(slab, "mem")
	}
}

// checkRegisters decodes and checks every register of the ledger (directly after a commit).
func (c *codecChecker) checkRegisters(w *World) {
	ids := w.Base.SortedIDs()
	for _, id := range ids {
		reg := w.Base.Segs[id]
		d, err := atree.DecodeSlab(id, reg, codecDecMode, c.decoder(), codecDecodeTypeInfo)
		if err != nil {
			c.bad("C07: a committed register cannot be decoded", fmt.Sprintf("%s: %v", id, err))
			continue
		}
		b2, err := atree.EncodeSlab(d, encMode)
		if err != nil || !bytes.Equal(reg, b2) {
			c.bad("C07: register decode then re-encode does not give identical bytes", fmt.Sprintf("%s: %v %x vs %x", id, err, reg, b2))
		}
		// the in-memory slab that produced the register reports the same size and bytes
		if m, found, err := w.St.Retrieve(id); err == nil && found {
			if m.ByteSize() != d.ByteSize() {
				c.bad("C06: slab decoded from its register reports a different size than the in-memory slab", fmt.Sprintf("%s: %d vs %d", id, d.ByteSize(), m.ByteSize()))
			}
			if mb, err := atree.EncodeSlab(m, encMode); err == nil && !bytes.Equal(mb, reg) {
				c.bad("C07: committed register differs from the encoding of the in-memory slab", id.String())
			}
		}
		c.checkSlab(d, "reg")
	}
}

// checkSerialization runs the in-repo serialization verifiers on every root (oracle 4).
func (c *codecChecker) checkSerialization(w *World) {
	cmp := func(a, b atree.Storable) bool { return reflect.DeepEqual(a, b) }
	for _, r := range w.Roots {
		var err error
		switch x := r.(type) {
		case *svArr:
			err = atree.VerifyArraySerialization(x.arr, codecDecMode, encMode, c.decoder(), codecDecodeTypeInfo, cmp)
		case *svMap:
			err = atree.VerifyMapSerialization(x.m, codecDecMode, encMode, c.decoder(), codecDecodeTypeInfo, cmp)
		}
		c.rep.Event("serialization_verifier_runs")
		if err != nil {
			c.bad("C07: in-repo serialization verifier failed", trunc(err.Error()))
		}
	}
}

// ---------- extra workload steps ----------

type codecAbort struct{}

// codecInjectCompact creates a composite-typed child map with string keys from a tiny set (so
// that several children share type and key set) and stores it into a random live container.
func codecInjectCompact(w *World, depthLeft int) (atree.Value, SV) {
	r := w.Rng
	ti := codecCompositeTI{uint64(r.Intn(3))}
	m, err := atree.NewMap(w.St, w.Addr, w.Opts.Digester(), ti)
	must(err)
	sm := &svMap{m: m, vals: map[string]SV{}, ti: 50, vid: m.ValueID()}
	names := []string{"a", "b", "c", "name", "balance"}
	n := r.Intn(4)
	perm := []int{0, 1, 2, 3, 4}
	if r.Chance(50) {
		// same field set as its siblings: these children share one compact-map description
		n = 3
		ti = codecCompositeTI{1}
		m, err = atree.NewMap(w.St, w.Addr, w.Opts.Digester(), ti)
		must(err)
		sm = &svMap{m: m, vals: map[string]SV{}, ti: 50, vid: m.ValueID()}
	} else {
		for i := range perm {
			j := i + r.Intn(len(perm)-i)
			perm[i], perm[j] = perm[j], perm[i]
		}
	}
	for i := 0; i < n; i++ {
		k := testutils.NewStringValue(names[perm[i]])
		var v atree.Value
		var s SV
		if depthLeft > 0 && r.Chance(20) {
			v, s = codecInjectCompact(w, depthLeft-1)
		} else {
			v = codecSmallScalar(r)
			s = &svScalar{v}
		}
		old, err := m.Set(testutils.CompareValue, testutils.GetHashInput, k, v)
		must(err)
		if old != nil {
			panic("codec: fresh key had a previous value")
		}
		sm.keys = append(sm.keys, k)
		sm.vals[keyStr(k)] = s
	}
	return m, sm
}

func codecSmallScalar(r *Rng) atree.Value {
	switch r.Intn(5) {
	case 0:
		return testutils.Uint8Value(r.Intn(256))
	case 1:
		return testutils.Uint16Value(r.Intn(65536))
	case 2:
		return testutils.Uint32Value(uint32(r.U64()))
	case 3:
		return testutils.Uint64Value(r.U64() >> uint(r.Intn(64)))
	}
	return testutils.NewStringValue(randStr(r, r.Intn(30)))
}

// codecRefTarget creates a small stand-alone array or map that a tuple refers to (never mutated afterwards).
func codecRefTarget(st atree.SlabStorage, addr atree.Address, r *Rng) atree.Value {
	if r.Chance(70) {
		a, err := atree.NewArray(st, addr, testutils.NewSimpleTypeInfo(uint64(40+r.Intn(3))))
		must(err)
		for k := r.Intn(4); k > 0; k-- {
			must(a.Append(codecSmallScalar(r)))
		}
		return a
	}
	m, err := atree.NewMap(st, addr, atree.NewDefaultDigesterBuilder(), testutils.NewSimpleTypeInfo(uint64(50+r.Intn(3))))
	must(err)
	for k := r.Intn(4); k > 0; k-- {
		_, err := m.Set(testutils.CompareValue, testutils.GetHashInput, testutils.Uint64Value(uint64(r.Intn(50))), codecSmallScalar(r))
		must(err)
	}
	return m
}

// codecNewTuple creates a tuple value.  refs: number of components that refer to another slab
// (plain, Some-wrapped, or inside a nested small tuple); pad: length of a string component
// (0 = none) that decides whether the tuple fits in line; the other components are small scalars.
func codecNewTuple(st atree.SlabStorage, addr atree.Address, r *Rng, refs int, pad int) codecTuple {
	var vs []atree.Value
	for i := 0; i < refs; i++ {
		var v atree.Value = codecRefTarget(st, addr, r)
		switch r.Intn(6) {
		case 0:
			for k := 1 + r.Intn(3); k > 0; k-- {
				v = testutils.NewSomeValue(v)
			}
		case 1:
			v = newCodecTuple(codecSmallScalar(r), v)
		case 2:
			v = testutils.NewSomeValue(newCodecTuple(v))
		}
		vs = append(vs, v)
	}
	for k := r.Intn(3); k > 0; k-- {
		vs = append(vs, codecSmallScalar(r))
	}
	if pad > 0 {
		vs = append(vs, testutils.NewStringValue(randStr(r, pad)))
	}
	if r.Chance(20) {
		vs = append(vs, newCodecTuple(codecSmallScalar(r))) // a nested tuple without references
	}
	for i := range vs { // components in random order
		j := i + r.Intn(len(vs)-i)
		vs[i], vs[j] = vs[j], vs[i]
	}
	return newCodecTuple(vs...)
}

// codecInjectTuple: a random tuple for the World histories (shadow: a scalar compared by content rendering).
func codecInjectTuple(w *World) (atree.Value, SV) {
	r := w.Rng
	refs := r.Pick(25, 55, 20)
	pad := 0
	switch r.Intn(3) {
	case 1: // around the inline limits
		lim := int(atree.MaxInlineArrayElementSize())
		if r.Bool() {
			lim = int(atree.MaxInlineMapElementSize()) / 2
		}
		pad = lim - 40 + r.Intn(50)
		if pad < 1 {
			pad = 1
		}
	case 2: // too large for any parent
		pad = int(atree.MaxInlineArrayElementSize()) + r.Intn(200)
	}
	var v atree.Value = codecNewTuple(w.St, w.Addr, r, refs, pad)
	var s SV = &svScalar{v}
	if w.Opts.Wrap && r.Chance(25) {
		for k := 1 + r.Intn(2); k > 0; k-- {
			v, s = testutils.NewSomeValue(v), &svSome{s}
		}
	}
	return v, s
}

// codecPut stores (v, s) into a random live container through that container's own wrapper.
func codecPut(w *World, container bool, mk func(depthLeft int) (atree.Value, SV)) {
	cs := w.containers()
	if len(cs) == 0 {
		return
	}
	c := cs[w.Rng.Intn(len(cs))]
	if container && c.depth >= w.Opts.MaxDepth {
		// keep the nesting bounded: fall back to a root
		c = cs[0]
	}
	v, s := mk(w.Opts.MaxDepth - c.depth - 1)
	switch x := c.s.(type) {
	case *svArr:
		if err := x.arr.Append(v); err != nil {
			w.Fail("C01: append failed", err.Error())
			return
		}
		x.elems = append(x.elems, s)
	case *svMap:
		k := w.randKey()
		old, err := x.m.Set(testutils.CompareValue, testutils.GetHashInput, k, v)
		if err != nil {
			w.Fail("C02: map set failed", err.Error())
			return
		}
		ks := keyStr(k)
		prev, had := x.vals[ks]
		if !had {
			x.keys = append(x.keys, k)
		}
		x.vals[ks] = s
		if had {
			w.handleRemoved(old, prev)
		}
	}
}

// codecCompareAll compares the content of every root with the shadow values (no type-info check,
// so it also works for composite-typed maps).
func codecCompareAll(w *World) {
	for i, r := range w.Roots {
		w.Compare(r, rootValue(r), fmt.Sprintf("root%d", i))
	}
}

// codecReopen is World.Reopen with the codec's type-info decoder.
func codecReopen(w *World) { codecReopenWith(w, codecStorage) }

func codecReopenWith(w *World, mk func(atree.BaseStorage) *atree.PersistentSlabStorage) {
	w.St = mk(w.Base)
	for _, r := range w.Roots {
		switch x := r.(type) {
		case *svArr:
			a, err := atree.NewArrayWithRootID(w.St, x.arr.SlabID())
			if err != nil {
				w.Fail("C03: array cannot be reopened by its root identifier", err.Error())
				continue
			}
			w.rehandle(x, a)
		case *svMap:
			m, err := atree.NewMapWithRootID(w.St, x.m.SlabID(), w.Opts.Digester())
			if err != nil {
				w.Fail("C03: map cannot be reopened by its root identifier", err.Error())
				continue
			}
			w.rehandle(x, m)
		}
	}
}

// ---------- the command ----------

func init() { register("codec", cmdCodec) }

func cmdCodec(a Args) {
	prop := a.Prop
	if prop == "" {
		prop = "C07"
	}
	rep := NewReport(prop, a.Seed)
	rep.Rule = "random World histories at slab sizes {256,300,512,1024,4096} in five flavours (flat, nested depth<=3 with wrappers and large values, forced digest collisions with a table-driven digester, composite-typed child maps = compact encoding, mixed); every slab visible in storage after every k-th operation and every register after each commit: (1) len(EncodeSlab) - extra data - inlined extra data + omitted empty next link (16) + hoisted compact-map bytes == ByteSize, sections measured at the encoder and parsed from the bytes; (2) DecodeSlab succeeds, reports the same size, re-encodes to identical bytes, structural dump equal (compact maps: up to seed/order); (3) head flags from raw bytes vs content; (4) VerifyArraySerialization/VerifyMapSerialization on every root; non-trivial = history with at least one slab with inlined children, one collision group or one compact map"
	tr := NewTrace(a.Out + "/trace.txt")
	rng := NewRng(a.Seed)
	sizes := []uint32{256, 300, 512, 1024, 4096}
	every := 2
	maxTracePerHist := 120
	if a.Mode == "thorough" {
		maxTracePerHist = 40
	}
	if a.Depth > 2 {
		every = a.Depth
	}
	// -mode tuples: the same histories, plus values of the harness' own tuple type (codectuple.go:
	// container storables with references inside that can become large-value slabs); no model trace
	tuples := a.Mode == "tuples"
	mkStorage := codecStorage
	if tuples {
		mkStorage = codecStorageT
		maxTracePerHist = 0
		rep.Rule += "; -mode tuples: additionally immutable tuples (own value type; components: references to stand-alone arrays/maps, plain / Some-wrapped / inside a nested tuple, scalars, a string sized below / around / above the inline limits) are stored into random live containers, so that large-value slabs WITH references inside and in-line container storables with references exist; not traced for the byte-level model"
	}
	defer atree.VerifSetThreshold(1024)
	total := 0
	for h := 0; h < a.N; h++ {
		hr := rng.Fork(uint64(h))
		tag := fmt.Sprintf("h%d", h)
		if !want(tag) {
			continue
		}
		T := sizes[hr.Intn(len(sizes))]
		atree.VerifSetThreshold(T)
		flavour := h % 5 // 0 flat, 1 nested, 2 collisions, 3 compact, 4 mixed (collisions + nested)
		opts := WorldOpts{Addr: 1 + uint64(hr.Intn(3)), Maps: true, Wrap: hr.Chance(60), LargeVals: hr.Chance(60), PopChild: true, KeySpace: 60, SelfSet: hr.Chance(40)}
		compact := false
		collide := false
		switch flavour {
		case 0:
			opts.MaxDepth = 0
		case 1:
			opts.MaxDepth = 1 + hr.Intn(3)
		case 2:
			opts.MaxDepth = 0
			collide = true
		case 3:
			opts.MaxDepth = 1 + hr.Intn(3)
			compact = true
		case 4:
			opts.MaxDepth = 1 + hr.Intn(2)
			collide = true
			compact = hr.Bool()
		}
		if collide {
			alph := [4]uint64{uint64(2 + hr.Intn(4)), uint64(1 + hr.Intn(3)), uint64(1 + hr.Intn(2)), uint64(1 + hr.Intn(2))}
			opts.Digester = func() atree.DigesterBuilder { return &codecDigesterBuilder{alph: alph} }
			opts.KeySpace = 90
		}
		base := NewLogBase()
		w := NewWorld(base, hr, opts, rep)
		w.St = mkStorage(base)
		ck := &codecChecker{rep: rep, tr: tr, hist: h, tag: tag, T: T, compact: compact, seen: map[uint64]bool{}, maxTr: maxTracePerHist}
		if tuples {
			ck.dec = codecDecodeStorable
			ck.ptrTrue, ck.ptrFals = map[int]int{}, map[int]int{}
		}
		if a.Mode == "thorough" && h%5 != 0 {
			ck.maxTr = 0 // keep the trace of the thorough tier at a replayable size
		}
		tr.Hist(tag, codecCompositeTag, uint64(T), uint64(flavour))
		w.Fail = func(what, detail string) {
			// not a C06/C07 observation: the workload itself failed (other properties' business)
			rep.Err("workload: " + what)
			panic(codecAbort{})
		}
		step := 0
		func() {
			defer func() {
				if r := recover(); r != nil {
					if _, ok := r.(codecAbort); ok {
						return
					}
					ck.bad("C07: panic in implementation", fmt.Sprint(r))
				}
			}()
			nroots := 1 + hr.Intn(2)
			for i := 0; i < nroots; i++ {
				if hr.Bool() {
					w.NewArrayRoot()
				} else {
					w.NewMapRoot()
				}
			}
			for step = 0; step < a.Steps; step++ {
				ck.step = step
				switch {
				case tuples && hr.Chance(12):
					codecPut(w, false, func(int) (atree.Value, SV) { return codecInjectTuple(w) })
					rep.Op("put.tuple")
				case compact && hr.Chance(25):
					codecPut(w, true, func(dl int) (atree.Value, SV) { return codecInjectCompact(w, dl) })
					rep.Op("put.compositemap")
				case hr.Chance(8):
					codecPut(w, false, func(int) (atree.Value, SV) { v := codecSmallScalar(hr); return v, &svScalar{v} })
					rep.Op("put.smallscalar")
				default:
					w.Step()
				}
				if step%every == every-1 {
					ck.checkAll(w)
				}
				if compact && step%3 == 2 {
					codecCompareAll(w) // C08: slabs decoded from the ledger behave like their in-memory originals
				}
				if step%23 == 22 {
					ck.checkSerialization(w)
				}
				if step%17 == 16 {
					w.Commit(1 + hr.Intn(3))
					ck.checkRegisters(w)
					rep.Op("commit")
					if !collide && hr.Chance(40) {
						codecReopenWith(w, mkStorage)
						rep.Op("reopen")
						if !compact {
							w.VerifyAll(false)
						}
						codecCompareAll(w)
					}
				}
			}
			ck.checkAll(w)
			ck.checkSerialization(w)
		}()
		total += ck.checks
		rep.Histories++
		rep.Steps += step
		if ck.rich {
			rep.Distinct(tag)
		}
	}
	rep.Events["slab_checks"] = total
	tr.Close()
	keys := make([]string, 0, len(rep.Events))
	for k := range rep.Events {
		keys = append(keys, k)
	}
	sort.Strings(keys)
	rep.Sample(fmt.Sprintf("slab checks %d; distinct states %d; traced %d steps", total, rep.Events["distinct_state"], tr.Steps))
	rep.Write(a.Out + "/report.json")
	fmt.Printf("codec: histories=%d slab_checks=%d distinct=%d traced=%d uncovered=%d violations=%d\n",
		rep.Histories, total, rep.Events["distinct_state"], tr.Steps, rep.Events["model_uncovered"], len(rep.Violations))
}
