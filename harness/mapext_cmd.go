//go:build verif

package main

// Subcommand "mapext": large KEYS and VALUES of map entries (each in its own StorableSlab) in lock
// step with coq/theories/MapExt.v (engine chk_mapext, coq/theories/MapExtTrace.v), for C09.
//
// One root OrderedMap per history under a 4-level table digester with collisions (so that large
// entries also sit in inline and external collision groups and in multi-slab trees), slab sizes
// 256..1024.  Keys and values are small scalars or strings "id|padding" whose size is drawn around
// the inline limits (limit-1, limit, limit+1) and far above them.  The caller's duty of C09 is
// carried out: after every operation every StorableSlab handed back (previous value of an
// overwrite, key and value of a Remove, everything PopIterate passes to the callback) is removed
// from the storage.
//
// Model-independent oracle after EVERY mutation (own walk through the verif hooks): the registers
// of the storage (write set + cache + ledger) are exactly the slabs reachable from the root: tree
// slabs, external collision groups, and the StorableSlab of every key / value reference; none is
// reachable twice; every one belongs to the map's address; a reference resolves to a StorableSlab
// whose content is the expected key / value.  A refused or failed operation leaves no trace.
// Emptying (by removes or PopIterate) leaves exactly the root.
//
// Lock step: per mutation the answer, the slab index of every storable handed back, the
// storeSlab/Remove log (incl. the new StorableSlabs, in call order), the allocator and the root
// header; with "dump" the whole tree and the external slab indexes (key, value) of every entry.

import (
	"fmt"
	"sort"

	"github.com/onflow/atree"
	testutils "github.com/onflow/atree/test_utils"
)

func init() { register("mapext", cmdMapExt) }

type mxKey struct {
	id  uint64
	val atree.Value
	ksz uint64 // TRUE encoded size
	d   [mpeLevels]uint64
}

type mxEntry struct {
	k    *mxKey
	vid  uint64
	vsz  uint64 // STORED size
	kext uint64 // slab index of the key's StorableSlab, 0 = inline
	vext uint64
	seq  uint64
}

type mxRun struct {
	rep  *Report
	tr   *Trace
	hist int
	tag  string
	step int
	rng  *Rng

	T         uint32
	maxInline uint64
	maxKey    uint64
	limit     uint64
	mode      string
	kprof     int
	vprof     int

	base *LogBase
	st   *atree.PersistentSlabStorage
	rec  *RecStorage
	addr atree.Address
	ti   atree.TypeInfo
	m    *atree.OrderedMap
	b    *mpeBuilder

	pool    []*mxKey
	probes  []*mxKey
	live    []*mxKey
	livePos map[uint64]int
	shadow  map[uint64]*mxEntry
	seq     uint64
	vctr    uint64

	nLargeKey, nLargeVal, nBackVal, nBackKey, nUpdLargeKey int
	sawExtGroupLarge, sawInlGroupLarge, sawSplit, sawMerge bool
	maxH                                                   int
	nReopen                                                int
	dead                                                   bool
}

const mxRefSize = 19 // SlabIDStorable: tag (2) + byte string head (1) + 16

func (r *mxRun) viol(what, detail string) {
	if len(detail) > 400 {
		detail = detail[:400] + "..."
	}
	r.rep.Violate(r.hist, r.tag, r.step, what, fmt.Sprintf("T=%d %s", r.T, detail))
}

func (r *mxRun) emit(op []uint64, obs []uint64) {
	r.tr.StepU(op, nil, obs)
	r.step++
}

func (r *mxRun) unexpected(op string, err error, panicked bool) {
	kind := "error"
	if panicked {
		kind = "panic"
		r.rep.Err("panic")
	} else {
		r.rep.Err("other")
	}
	r.viol("C09: unexpected error ("+kind+") in "+op, fmt.Sprint(err))
	r.dead = true
}

// ident resolves a storable: identity, STORED size, slab index of its StorableSlab (0 = inline)
func (r *mxRun) ident(s atree.Storable) (id, sz, ext uint64, ok bool) {
	if ref, isRef := s.(atree.SlabIDStorable); isRef {
		sid := atree.SlabID(ref)
		slab, found, err := r.st.Retrieve(sid)
		if err != nil || !found {
			return ^uint64(0), uint64(s.ByteSize()), sid.IndexAsUint64(), false
		}
		ss, isSS := slab.(*atree.StorableSlab)
		if !isSS {
			return ^uint64(0), uint64(s.ByteSize()), sid.IndexAsUint64(), false
		}
		ch := ss.ChildStorables()
		if len(ch) != 1 {
			return ^uint64(0), uint64(s.ByteSize()), sid.IndexAsUint64(), false
		}
		id, _, ok = mpeIdent(ch[0])
		return id, uint64(s.ByteSize()), sid.IndexAsUint64(), ok
	}
	id, sz, ok = mpeIdent(s)
	return id, sz, 0, ok
}

// dispose: the caller's duty — remove the StorableSlab of a storable handed back
func (r *mxRun) dispose(s atree.Storable) {
	if ref, isRef := s.(atree.SlabIDStorable); isRef {
		if err := r.st.Remove(atree.SlabID(ref)); err != nil {
			r.viol("C09: handed-back slab cannot be removed", err.Error())
		}
	}
}

// ---------- keys, values ----------

func mxString(rng *Rng, id uint64, size int) testutils.StringValue {
	// a string "id|pad" whose ENCODED size is as close to [size] as the head allows
	head := fmt.Sprintf("%d|", id)
	n := size - 1
	if size >= 25 {
		n = size - 2
	}
	if size >= 258 {
		n = size - 3
	}
	if n < len(head) {
		n = len(head)
	}
	return testutils.NewStringValue(head + mpePad(rng, n-len(head)))
}

func (r *mxRun) newKey(used map[uint64]bool) *mxKey {
	rng := r.rng
	for {
		var id uint64
		switch rng.Pick(20, 30, 30, 20) {
		case 0:
			id = uint64(rng.Intn(24))
		case 1:
			id = 24 + uint64(rng.Intn(232))
		case 2:
			id = 256 + uint64(rng.Intn(65536-256))
		default:
			id = 65536 + rng.U64()%(1<<40)
		}
		if used[id] {
			continue
		}
		used[id] = true
		k := &mxKey{id: id}
		mk := int(r.maxKey)
		var w []int
		switch r.kprof {
		case 0: // mostly small
			w = []int{50, 25, 5, 5, 5, 10}
		case 1: // mixed
			w = []int{20, 20, 10, 10, 10, 30}
		default: // mostly large
			w = []int{8, 7, 5, 10, 10, 60}
		}
		switch rng.Pick(w...) {
		case 0:
			k.val = testutils.Uint64Value(id)
		case 1:
			k.val = mxString(rng, id, 3+rng.Intn(mk-2))
		case 2:
			k.val = mxString(rng, id, mk-1)
		case 3:
			k.val = mxString(rng, id, mk) // the largest inline key
		case 4:
			k.val = mxString(rng, id, mk+1) // the smallest external key
		default:
			k.val = mxString(rng, id, mk+2+rng.Intn(2*int(r.T)))
		}
		_, k.ksz, _ = mpeIdent(k.val)
		return k
	}
}

// size of the key as stored
func (r *mxRun) storedKey(k *mxKey) uint64 {
	if k.ksz > r.maxKey {
		return mxRefSize
	}
	return k.ksz
}

func (r *mxRun) newValue(k *mxKey) (atree.Value, uint64, uint64) {
	rng := r.rng
	vmax := int(r.maxInline - r.storedKey(k) - 1)
	r.vctr++
	vid := r.vctr
	var w []int
	switch r.vprof {
	case 0:
		w = []int{50, 25, 5, 5, 5, 10}
	case 1:
		w = []int{20, 20, 10, 10, 10, 30}
	default:
		w = []int{8, 7, 5, 10, 10, 60}
	}
	var v atree.Value
	switch rng.Pick(w...) {
	case 0:
		if rng.Chance(30) {
			vid = 1<<33 + vid
		}
		v = testutils.Uint64Value(vid)
	case 1:
		v = mxString(rng, vid, 3+rng.Intn(vmax-2))
	case 2:
		v = mxString(rng, vid, vmax-1)
	case 3:
		v = mxString(rng, vid, vmax)
	case 4:
		v = mxString(rng, vid, vmax+1)
	default:
		v = mxString(rng, vid, vmax+2+rng.Intn(2*int(r.T)))
	}
	_, vsz, _ := mpeIdent(v)
	return v, vid, vsz
}

func (r *mxRun) genDigests() {
	rng := r.rng
	n := len(r.pool)
	small := func() []uint64 { return mpeAlphabet(rng, 1+rng.Intn(3)) }
	for _, k := range r.pool {
		for l := 1; l < mpeLevels; l++ {
			k.d[l] = rng.U64()
		}
	}
	switch rng.Pick(25, 35, 40) {
	case 0:
		r.mode = "distinct"
		d0 := mtrDistinct(rng, n, true)
		for i, k := range r.pool {
			k.d[0] = d0[i]
		}
	case 1:
		r.mode = "clustered"
		na := n/2 + 1
		a0 := mtrDistinct(rng, na, true)
		a1, a2, a3 := small(), small(), small()
		for _, k := range r.pool {
			k.d[0] = a0[rng.Intn(na)]
			if rng.Chance(70) {
				k.d[1] = a1[rng.Intn(len(a1))]
				if rng.Chance(60) {
					k.d[2] = a2[rng.Intn(len(a2))]
					if rng.Chance(50) {
						k.d[3] = a3[rng.Intn(len(a3))]
					}
				}
			}
		}
	default:
		r.mode = "hot"
		nh := 1 + rng.Intn(3)
		hot := mtrDistinct(rng, nh, true)
		d0 := mtrDistinct(rng, n, true)
		a2 := small()
		for i, k := range r.pool {
			if rng.Chance(40) {
				k.d[0] = hot[rng.Intn(nh)]
				if rng.Chance(25) {
					k.d[1] = uint64(rng.Intn(3))
					if rng.Chance(50) {
						k.d[2] = a2[rng.Intn(len(a2))]
					}
				}
			} else {
				k.d[0] = d0[i]
			}
		}
	}
}

// ---------- the own walk and the C09 oracle ----------

type mxWalk struct {
	tree    []uint64 // MapTreeTrace TREE encoding
	entries []mxEntry
	ids     []atree.SlabID // every slab reachable from the root, in walk order
	ok      bool
}

func (r *mxRun) walk() *mxWalk {
	w := &mxWalk{}
	var seq []mxEntry
	half := false
	bad := ""
	cb := func(s atree.Storable) (uint64, uint64) {
		id, sz, ext, ok := r.ident(s)
		if !ok {
			bad = fmt.Sprintf("storable %T (ref index %d) does not resolve to a key/value", s, ext)
		}
		if ext != 0 {
			sid := atree.SlabID(s.(atree.SlabIDStorable))
			w.ids = append(w.ids, sid)
			if sid.AddressAsUint64() != atree.SlabID(r.m.SlabID()).AddressAsUint64() {
				bad = fmt.Sprintf("StorableSlab %s is not at the map's address", sid)
			}
		}
		if !half {
			seq = append(seq, mxEntry{k: &mxKey{id: id, ksz: sz}, kext: ext})
		} else {
			e := &seq[len(seq)-1]
			e.vid, e.vsz, e.vext = id, sz, ext
		}
		half = !half
		return id, sz
	}
	var d []uint64
	err, pan := mpeCall(func() error {
		var e error
		d, e = atree.VerifMapTreeDump(r.m, cb)
		return e
	})
	if err != nil {
		r.viol("C09: slab tree cannot be walked", fmt.Sprintf("panic=%v %v", pan, err))
		r.dead = true
		return w
	}
	if bad != "" {
		r.viol("C09: a key/value reference does not resolve (dangling or foreign slab)", bad)
	}
	h, _, _, ext, ids, err := atree.VerifMapTreeShape(r.m)
	if err != nil {
		r.viol("C09: slab tree cannot be walked", err.Error())
		r.dead = true
		return w
	}
	if h > r.maxH {
		r.maxH = h
	}
	_ = ext
	w.ids = append(w.ids, ids...)
	w.tree = d
	w.entries = seq
	w.ok = true
	return w
}

// registers = reachable, nothing twice, entries agree with the shadow
func (r *mxRun) oracle(w *mxWalk, where string) {
	if !w.ok {
		return
	}
	reach := map[atree.SlabID]bool{}
	for _, id := range w.ids {
		if reach[id] {
			r.viol("C09: slab reachable twice from the root (doubly owned)", id.String()+" after "+where)
		}
		reach[id] = true
	}
	ww := &World{St: r.st, Base: r.base}
	live := ww.LiveIDs()
	for _, id := range live {
		if !reach[id] {
			r.viol("C09: slab in storage is not reachable from the root (leak)", fmt.Sprintf("%s after %s (reachable=%d live=%d)", id, where, len(reach), len(live)))
			break
		}
	}
	if len(live) < len(reach) {
		lv := map[atree.SlabID]bool{}
		for _, id := range live {
			lv[id] = true
		}
		for id := range reach {
			if !lv[id] {
				r.viol("C09: reachable slab is not in storage (dangling)", id.String()+" after "+where)
				break
			}
		}
	}
	if len(w.entries) != len(r.shadow) {
		r.viol("C09: walk yields a different number of entries than the dictionary", fmt.Sprintf("%d vs %d after %s", len(w.entries), len(r.shadow), where))
		return
	}
	for _, e := range w.entries {
		s, ok := r.shadow[e.k.id]
		if !ok {
			r.viol("C09: walk yields a key that is not in the dictionary", fmt.Sprint(e.k.id))
			return
		}
		if e.vid != s.vid || e.vsz != s.vsz || e.k.ksz != r.storedKey(s.k) {
			r.viol("C09: walk yields a wrong entry", fmt.Sprintf("key %d: (ksz %d, vid %d, vsz %d) want (%d, %d, %d)", e.k.id, e.k.ksz, e.vid, e.vsz, r.storedKey(s.k), s.vid, s.vsz))
			return
		}
		if (e.kext != 0) != (s.k.ksz > r.maxKey) {
			r.viol("C09: key externalised on the wrong side of the inline key limit", fmt.Sprintf("key %d size %d limit %d ext %d", e.k.id, s.k.ksz, r.maxKey, e.kext))
		}
		if s.kext != e.kext || s.vext != e.vext {
			// the key slab of an entry never changes; the value slab only by Set on that key
			r.viol("C09: the StorableSlab of an untouched key/value changed", fmt.Sprintf("key %d: (%d,%d) was (%d,%d)", e.k.id, e.kext, e.vext, s.kext, s.vext))
			s.kext, s.vext = e.kext, e.vext
		}
	}
	err, pan := mpeCall(func() error {
		_, e := atree.CheckStorageHealth(r.st, 1)
		return e
	})
	if err != nil {
		r.viol("C09: CheckStorageHealth failed after "+where, fmt.Sprintf("panic=%v %v", pan, err))
	}
}

func (r *mxRun) verifyMap(where string) {
	err, pan := mpeCall(func() error {
		return atree.VerifyMap(r.m, r.addr, r.ti, testutils.CompareTypeInfo, testutils.GetHashInput, true)
	})
	if err != nil {
		r.viol("C09: VerifyMap failed after "+where, fmt.Sprintf("panic=%v %v", pan, err))
	}
}

func (r *mxRun) wantDump() uint64 {
	n := len(r.shadow)
	if n <= 40 || r.step%16 == 0 {
		return 1
	}
	return 0
}

// XT: log, allocator, root header, count, (dump) tree + wf flag + ext table
func (r *mxRun) tail(w *mxWalk, dump bool) []uint64 {
	out := []uint64{uint64(len(r.rec.Log) / 2)}
	stores, removes := 0, 0
	for k := 0; k+1 < len(r.rec.Log); k += 2 {
		out = append(out, uint64(r.rec.Log[k]), uint64(r.rec.Log[k+1]))
		if r.rec.Log[k] == 1 {
			stores++
		} else {
			removes++
		}
	}
	if stores >= 4 {
		r.sawSplit = true
	}
	if removes > 0 {
		r.sawMerge = true
	}
	r.rec.Log = r.rec.Log[:0]
	out = append(out, r.base.LastIndex(r.addr))
	h := atree.VerifMapRootHeader(r.m)
	out = append(out, h[0], h[1], h[2], h[3])
	if dump && w.ok {
		out = append(out, w.tree...)
		out = append(out, 1)
		out = append(out, uint64(len(w.entries)))
		for _, e := range w.entries {
			out = append(out, e.k.id, e.kext, e.vext)
		}
	}
	return out
}

func (r *mxRun) groupStats(w *mxWalk) {
	// a large entry inside a collision group: look at the tree encoding is costly; use the shadow:
	// two live keys with the same level-0 digest one of which is external
	byD0 := map[uint64][]*mxEntry{}
	for _, e := range r.shadow {
		byD0[e.k.d[0]] = append(byD0[e.k.d[0]], e)
	}
	_, _, _, ext, _, err := atree.VerifMapTreeShape(r.m)
	for _, g := range byD0 {
		if len(g) < 2 {
			continue
		}
		for _, e := range g {
			if e.kext != 0 || e.vext != 0 {
				r.sawInlGroupLarge = true
				if err == nil && ext > 0 {
					r.sawExtGroupLarge = true
				}
			}
		}
	}
}

// ---------- shadow helpers ----------

func (r *mxRun) addLive(k *mxKey) {
	r.livePos[k.id] = len(r.live)
	r.live = append(r.live, k)
}

func (r *mxRun) delLive(k *mxKey) {
	p, ok := r.livePos[k.id]
	if !ok {
		return
	}
	last := r.live[len(r.live)-1]
	r.live[p] = last
	r.livePos[last.id] = p
	r.live = r.live[:len(r.live)-1]
	delete(r.livePos, k.id)
}

func (r *mxRun) fanout(k *mxKey) int {
	seen := map[uint64]bool{}
	for _, x := range r.live {
		if x.d[0] == k.d[0] {
			seen[x.d[1]] = true
		}
	}
	return len(seen)
}

func (r *mxRun) expectedOrder() []*mxEntry {
	out := make([]*mxEntry, 0, len(r.shadow))
	for _, e := range r.shadow {
		out = append(out, e)
	}
	sort.Slice(out, func(i, j int) bool {
		a, b := out[i], out[j]
		for l := 0; l < mpeLevels; l++ {
			if a.k.d[l] != b.k.d[l] {
				return a.k.d[l] < b.k.d[l]
			}
		}
		return a.seq < b.seq
	})
	return out
}

// ---------- operations ----------

func (r *mxRun) doSet(k *mxKey) {
	cur, present := r.shadow[k.id]
	name := "set_new"
	if present {
		name = "set_existing"
	}
	v, vid, vsz := r.newValue(k)
	keyLarge := k.ksz > r.maxKey
	valLarge := vsz > r.maxInline-r.storedKey(k)-1
	switch {
	case keyLarge && valLarge:
		name += "_largekey_largevalue"
	case keyLarge:
		name += "_largekey"
	case valLarge:
		name += "_largevalue"
	}
	r.rep.Op(name)
	d := r.wantDump()
	op := []uint64{1, k.id, k.ksz, vid, vsz, d, k.d[0], k.d[1], k.d[2], k.d[3]}
	n := r.fanout(k)
	wantRefused := !present && n >= 1 && uint64(n-1) >= r.limit
	allocBefore := r.base.LastIndex(r.addr)
	regsBefore := len((&World{St: r.st, Base: r.base}).LiveIDs())

	var prev atree.Storable
	err, pan := mpeCall(func() error {
		var e error
		prev, e = r.m.Set(testutils.CompareValue, testutils.GetHashInput, k.val, v)
		return e
	})
	if err != nil {
		if pan || mpeClass(err) != 2 {
			r.unexpected(name, err, pan)
			r.emit(op, []uint64{3})
			return
		}
		r.rep.Err("CollisionLimitError")
		if present || !wantRefused {
			r.viol("C09: Set refused although the collision limit does not apply", fmt.Sprintf("key %d fanout %d limit %d", k.id, n, r.limit))
		}
		if len(r.rec.Log) != 0 || r.base.LastIndex(r.addr) != allocBefore ||
			len((&World{St: r.st, Base: r.base}).LiveIDs()) != regsBefore {
			r.viol("C09: refused insert left a trace (a StorableSlab was created for the key or value)", fmt.Sprintf("key %d log %v alloc %d -> %d", k.id, r.rec.Log, allocBefore, r.base.LastIndex(r.addr)))
		}
		w := r.walk()
		if r.dead {
			r.emit(op, []uint64{3})
			return
		}
		r.oracle(w, name+" (refused)")
		r.emit(op, append([]uint64{2}, r.tail(w, d == 1)...))
		return
	}
	var ans []uint64
	if prev == nil {
		if present {
			r.viol("C09: Set on a present key returned no previous value", fmt.Sprintf("key %d", k.id))
		}
		ans = []uint64{0, 0}
	} else {
		pvid, pvsz, pvext, ok := r.ident(prev)
		if !ok {
			r.viol("C09: Set returned a previous storable that does not resolve", fmt.Sprintf("%T", prev))
		}
		if !present {
			r.viol("C09: Set on an absent key returned a previous value", fmt.Sprintf("key %d prev %d", k.id, pvid))
		} else if pvid != cur.vid || pvsz != cur.vsz || pvext != cur.vext {
			r.viol("C09: Set returned the wrong previous value storable", fmt.Sprintf("key %d got (%d,%d,slab %d) want (%d,%d,slab %d)", k.id, pvid, pvsz, pvext, cur.vid, cur.vsz, cur.vext))
		}
		if pvext != 0 {
			r.nBackVal++
		}
		ans = []uint64{0, 1, pvid, pvsz, pvext}
		r.dispose(prev)
	}
	if present && keyLarge {
		r.nUpdLargeKey++
	}
	if !present && keyLarge {
		r.nLargeKey++
	}
	if valLarge {
		r.nLargeVal++
	}
	stVsz := vsz
	if valLarge {
		stVsz = mxRefSize
	}
	oldKext := uint64(0)
	if e, ok := r.shadow[k.id]; ok {
		oldKext = e.kext
		e.vid, e.vsz = vid, stVsz
	} else {
		r.seq++
		r.shadow[k.id] = &mxEntry{k: k, vid: vid, vsz: stVsz, seq: r.seq}
		r.addLive(k)
	}
	w := r.walk()
	if r.dead {
		r.emit(op, []uint64{3})
		return
	}
	// the slabs of the touched entry, as found by the walk
	allocAfter := r.base.LastIndex(r.addr)
	for _, e := range w.entries {
		if e.k.id != k.id {
			continue
		}
		sh := r.shadow[k.id]
		if present && e.kext != oldKext {
			r.viol("C09: the key slab of an existing entry changed on overwrite", fmt.Sprintf("key %d: %d -> %d", k.id, oldKext, e.kext))
		}
		if !present && e.kext != 0 && !(e.kext > allocBefore && e.kext <= allocAfter) {
			r.viol("C09: the key slab of a new entry is not a fresh slab", fmt.Sprintf("key %d: %d not in (%d,%d]", k.id, e.kext, allocBefore, allocAfter))
		}
		if e.vext != 0 && !(e.vext > allocBefore && e.vext <= allocAfter) {
			r.viol("C09: the value slab of a Set is not a fresh slab", fmt.Sprintf("key %d: %d not in (%d,%d]", k.id, e.vext, allocBefore, allocAfter))
		}
		if (e.vext != 0) != valLarge {
			r.viol("C09: value externalised on the wrong side of the inline value limit", fmt.Sprintf("key %d value size %d limit %d ext %d", k.id, vsz, r.maxInline-r.storedKey(k)-1, e.vext))
		}
		sh.kext, sh.vext = e.kext, e.vext
	}
	r.oracle(w, name)
	r.emit(op, append(ans, r.tail(w, d == 1)...))
	if r.m.Count() != uint64(len(r.shadow)) {
		r.viol("C09: Count differs from the dictionary", fmt.Sprintf("%d vs %d", r.m.Count(), len(r.shadow)))
	}
	if r.step%16 == 0 {
		r.verifyMap(name)
		r.groupStats(w)
	}
}

func (r *mxRun) doRemove(k *mxKey) {
	cur, present := r.shadow[k.id]
	name := "remove_absent"
	if present {
		name = "remove_present"
		if cur.kext != 0 || cur.vext != 0 {
			name = "remove_present_external"
		}
	}
	r.rep.Op(name)
	d := r.wantDump()
	op := []uint64{4, k.id, d, k.d[0], k.d[1], k.d[2], k.d[3]}
	allocBefore := r.base.LastIndex(r.addr)
	var ks, vs atree.Storable
	err, pan := mpeCall(func() error {
		var e error
		ks, vs, e = r.m.Remove(testutils.CompareValue, testutils.GetHashInput, k.val)
		return e
	})
	if err != nil {
		if pan || mpeClass(err) != 1 {
			r.unexpected(name, err, pan)
			r.emit(op, []uint64{3})
			return
		}
		r.rep.Err("KeyNotFoundError")
		if present {
			r.viol("C09: Remove of a present key reported key-not-found", fmt.Sprintf("key %d", k.id))
		}
		if len(r.rec.Log) != 0 || r.base.LastIndex(r.addr) != allocBefore {
			r.viol("C09: failed Remove left a trace", fmt.Sprint(r.rec.Log))
		}
		w := r.walk()
		if r.dead {
			r.emit(op, []uint64{3})
			return
		}
		r.emit(op, append([]uint64{1}, r.tail(w, d == 1)...))
		return
	}
	kid, ksz, kext, ok1 := r.ident(ks)
	vid, vsz, vext, ok2 := r.ident(vs)
	if !ok1 || !ok2 {
		r.viol("C09: Remove returned storables that do not resolve", fmt.Sprintf("%T %T", ks, vs))
	}
	if !present {
		r.viol("C09: Remove of an absent key succeeded", fmt.Sprintf("key %d", k.id))
	} else {
		if kid != k.id || ksz != r.storedKey(k) || vid != cur.vid || vsz != cur.vsz || kext != cur.kext || vext != cur.vext {
			r.viol("C09: Remove returned the wrong storables", fmt.Sprintf("key %d got (%d,%d,slab %d,%d,%d,slab %d) want (%d,%d,slab %d,%d,%d,slab %d)",
				k.id, kid, ksz, kext, vid, vsz, vext, k.id, r.storedKey(k), cur.kext, cur.vid, cur.vsz, cur.vext))
		}
		delete(r.shadow, k.id)
		r.delLive(k)
	}
	if kext != 0 {
		r.nBackKey++
	}
	if vext != 0 {
		r.nBackVal++
	}
	r.dispose(ks)
	r.dispose(vs)
	w := r.walk()
	if r.dead {
		r.emit(op, []uint64{3})
		return
	}
	r.oracle(w, name)
	r.emit(op, append([]uint64{0, kid, ksz, kext, vid, vsz, vext}, r.tail(w, d == 1)...))
	if len(r.shadow) == 0 {
		ww := &World{St: r.st, Base: r.base}
		if live := ww.LiveIDs(); len(live) != 1 || live[0] != r.m.SlabID() {
			r.viol("C09: emptying the map (and disposing of what was handed back) did not release every other slab", fmt.Sprint(live))
		}
		r.rep.Event("emptied_by_removes")
	}
	if r.step%16 == 0 {
		r.verifyMap(name)
	}
}

func (r *mxRun) doGet(k *mxKey) {
	cur, present := r.shadow[k.id]
	name := "get_absent"
	if present {
		name = "get_present"
	}
	r.rep.Op(name)
	op := []uint64{2, k.id, k.d[0], k.d[1], k.d[2], k.d[3]}
	var v atree.Value
	err, pan := mpeCall(func() error {
		var e error
		v, e = r.m.Get(testutils.CompareValue, testutils.GetHashInput, k.val)
		return e
	})
	if err != nil {
		if pan || mpeClass(err) != 1 {
			r.unexpected(name, err, pan)
			r.emit(op, []uint64{3})
			return
		}
		if present {
			r.viol("C09: Get of a present key reported key-not-found", fmt.Sprintf("key %d", k.id))
		}
		r.emit(op, []uint64{1})
		return
	}
	vid, _, ok := mpeIdent(v)
	if !ok || !present || vid != cur.vid {
		r.viol("C09: Get returned the wrong value", fmt.Sprintf("key %d got %d", k.id, vid))
	}
	vsz := uint64(0)
	if present {
		vsz = cur.vsz
	}
	r.emit(op, []uint64{0, vid, vsz})
	if len(r.rec.Log) != 0 {
		r.viol("C09: Get wrote to the storage", fmt.Sprint(r.rec.Log))
		r.rec.Log = r.rec.Log[:0]
	}
}

func (r *mxRun) doIterate() {
	r.rep.Op("iterate_readonly")
	var got [][2]uint64
	err, pan := mpeCall(func() error {
		return r.m.IterateReadOnly(func(k, v atree.Value) (bool, error) {
			kid, _, _ := mpeIdent(k)
			vid, _, _ := mpeIdent(v)
			got = append(got, [2]uint64{kid, vid})
			return true, nil
		})
	})
	if err != nil {
		r.unexpected("iterate", err, pan)
		r.emit([]uint64{6}, []uint64{3})
		return
	}
	want := r.expectedOrder()
	if len(got) != len(want) {
		r.viol("C09: iteration yields the wrong number of pairs", fmt.Sprintf("%d vs %d", len(got), len(want)))
	} else {
		for i := range got {
			if got[i][0] != want[i].k.id || got[i][1] != want[i].vid {
				r.viol("C09: iteration yields a wrong pair (a reference resolved to the wrong slab)", fmt.Sprintf("pos %d", i))
				break
			}
		}
	}
	obs := []uint64{0, uint64(len(got))}
	for _, p := range got {
		obs = append(obs, p[0], p[1])
	}
	r.emit([]uint64{6}, obs)
}

func (r *mxRun) doPop() {
	r.rep.Op("pop_iterate")
	type popped struct {
		ks, vs atree.Storable
	}
	var got []popped
	err, pan := mpeCall(func() error {
		return r.m.PopIterate(func(ks, vs atree.Storable) {
			got = append(got, popped{ks, vs})
		})
	})
	if err != nil {
		r.unexpected("pop_iterate", err, pan)
		r.emit([]uint64{8, 1}, []uint64{3})
		return
	}
	want := r.expectedOrder()
	obs := []uint64{0, uint64(len(got))}
	if len(got) != len(want) {
		r.viol("C09: PopIterate yields the wrong number of pairs", fmt.Sprintf("%d vs %d", len(got), len(want)))
	}
	for i, p := range got {
		kid, _, kext, ok1 := r.ident(p.ks)
		vid, _, vext, ok2 := r.ident(p.vs)
		if !ok1 || !ok2 {
			r.viol("C09: PopIterate handed out a storable that does not resolve", fmt.Sprintf("pos %d", i))
		}
		if len(got) == len(want) {
			e := want[len(want)-1-i]
			if kid != e.k.id || vid != e.vid || kext != e.kext || vext != e.vext {
				r.viol("C09: PopIterate handed out the wrong storables", fmt.Sprintf("pos %d: (%d slab %d, %d slab %d) want (%d slab %d, %d slab %d)", i, kid, kext, vid, vext, e.k.id, e.kext, e.vid, e.vext))
			}
		}
		if kext != 0 {
			r.nBackKey++
		}
		if vext != 0 {
			r.nBackVal++
		}
		obs = append(obs, kid, kext, vid, vext)
	}
	for _, p := range got {
		r.dispose(p.ks)
		r.dispose(p.vs)
	}
	r.shadow = map[uint64]*mxEntry{}
	r.live = r.live[:0]
	r.livePos = map[uint64]int{}
	w := r.walk()
	if r.dead {
		r.emit([]uint64{8, 1}, []uint64{3})
		return
	}
	r.oracle(w, "pop_iterate")
	r.emit([]uint64{8, 1}, append(obs, r.tail(w, true)...))
	ww := &World{St: r.st, Base: r.base}
	if live := ww.LiveIDs(); len(live) != 1 || live[0] != r.m.SlabID() {
		r.viol("C09: PopIterate + disposing of everything handed out did not leave exactly the root", fmt.Sprint(live))
	}
	r.verifyMap("pop_iterate")
}

// commit, reopen from a copy of the ledger: same entries, same external slabs
func (r *mxRun) reopenCheck() {
	r.nReopen++
	err, pan := mpeCall(func() error { return r.st.FastCommit(2) })
	if err != nil {
		r.viol("C09: commit failed", fmt.Sprintf("panic=%v %v", pan, err))
		return
	}
	// after commit the ledger alone holds exactly the reachable registers
	w := r.walk()
	if r.dead || !w.ok {
		return
	}
	reach := map[atree.SlabID]bool{}
	for _, id := range w.ids {
		reach[id] = true
	}
	if len(r.base.Segs) != len(reach) {
		r.viol("C09: committed registers differ from the slabs reachable from the root", fmt.Sprintf("ledger=%d reachable=%d", len(r.base.Segs), len(reach)))
	}
	for id := range r.base.Segs {
		if !reach[id] {
			r.viol("C09: committed register is not reachable from the root (leak)", id.String())
			break
		}
	}
	st2 := newStorage(r.base.Clone())
	b2 := &mpeBuilder{table: r.b.table}
	var m2 *atree.OrderedMap
	err, pan = mpeCall(func() error {
		var e error
		m2, e = atree.NewMapWithRootID(st2, r.m.SlabID(), b2)
		return e
	})
	if err != nil {
		r.viol("C09: map cannot be reopened", fmt.Sprintf("panic=%v %v", pan, err))
		return
	}
	want := r.expectedOrder()
	j := 0
	err, pan = mpeCall(func() error {
		return m2.IterateReadOnly(func(k, v atree.Value) (bool, error) {
			kid, _, _ := mpeIdent(k)
			vid, _, _ := mpeIdent(v)
			if j >= len(want) || kid != want[j].k.id || vid != want[j].vid {
				r.viol("C09: reopened map content differs (a key/value slab did not survive the commit)", fmt.Sprintf("pos %d", j))
				j = len(want) + 1
				return false, nil
			}
			j++
			return true, nil
		})
	})
	if err != nil {
		r.viol("C09: iterating the reopened map failed", fmt.Sprintf("panic=%v %v", pan, err))
		return
	}
	if j < len(want) {
		r.viol("C09: reopened map yields fewer pairs", fmt.Sprintf("%d of %d", j, len(want)))
	}
	err, pan = mpeCall(func() error {
		_, e := atree.CheckStorageHealth(st2, 1)
		return e
	})
	if err != nil {
		r.viol("C09: CheckStorageHealth failed on the reopened storage", fmt.Sprintf("panic=%v %v", pan, err))
	}
}

// ---------- observation: value.Storable fails after the key slab was stored ----------

type mxFailingValue struct{ testutils.StringValue }

func (mxFailingValue) Storable(atree.SlabStorage, atree.Address, uint32) (atree.Storable, error) {
	return nil, fmt.Errorf("mapext: the client's Value cannot produce a storable")
}

// probeFailedValueStorable runs on the EMPTY map at the end of a history (not a trace step, never a
// violation): a Set of a new large key whose value.Storable fails.  The key's StorableSlab has been
// stored by then and stays behind (recorded in DESIGN as an observation: it needs a failure of the
// client's code or of the storage).  The orphan is removed afterwards.
func (r *mxRun) probeFailedValueStorable() {
	if len(r.shadow) != 0 {
		return
	}
	ww := &World{St: r.st, Base: r.base}
	before := ww.LiveIDs()
	allocBefore := r.base.LastIndex(r.addr)
	key := mxString(r.rng, 1<<50, int(r.maxKey)+5)
	r.b.table[1<<50] = [mpeLevels]uint64{r.rng.U64(), r.rng.U64(), r.rng.U64(), r.rng.U64()}
	err, pan := mpeCall(func() error {
		_, e := r.m.Set(testutils.CompareValue, testutils.GetHashInput, key, mxFailingValue{testutils.NewStringValue("x")})
		return e
	})
	r.rec.Log = r.rec.Log[:0]
	if pan || err == nil {
		r.rep.Event("observation_probe_unexpected_outcome")
		return
	}
	after := ww.LiveIDs()
	switch {
	case len(after) == len(before)+1 && r.base.LastIndex(r.addr) == allocBefore+1:
		r.rep.Event("observation_failed_value_storable_orphans_key_slab")
		if err := r.st.Remove(mkID(r.addr2(), allocBefore+1)); err != nil {
			r.rep.Event("observation_probe_unexpected_outcome")
		}
	case len(after) == len(before):
		r.rep.Event("observation_failed_value_storable_leaves_nothing")
	default:
		r.rep.Event("observation_probe_unexpected_outcome")
	}
	if r.m.Count() != 0 {
		r.viol("C09: a failed Set changed the element count", fmt.Sprint(r.m.Count()))
	}
}

func (r *mxRun) addr2() uint64 { return r.m.SlabID().AddressAsUint64() }

// ---------- key choice, history ----------

func (r *mxRun) pickLive() *mxKey {
	if len(r.live) == 0 {
		return nil
	}
	return r.live[r.rng.Intn(len(r.live))]
}

func (r *mxRun) pickDead() *mxKey {
	if len(r.live) >= len(r.pool) {
		return nil
	}
	for t := 0; t < 16; t++ {
		k := r.pool[r.rng.Intn(len(r.pool))]
		if _, ok := r.shadow[k.id]; !ok {
			return k
		}
	}
	for _, k := range r.pool {
		if _, ok := r.shadow[k.id]; !ok {
			return k
		}
	}
	return nil
}

func (r *mxRun) pickAbsent() *mxKey {
	if r.rng.Chance(50) && len(r.probes) > 0 {
		return r.probes[r.rng.Intn(len(r.probes))]
	}
	if k := r.pickDead(); k != nil {
		return k
	}
	if len(r.probes) > 0 {
		return r.probes[r.rng.Intn(len(r.probes))]
	}
	return nil
}

func (r *mxRun) randomOp(phase int) {
	rng := r.rng
	var w []int
	switch phase {
	case 0: // grow
		w = []int{60, 14, 5, 2, 6, 2, 1}
	case 1: // churn
		w = []int{20, 32, 22, 4, 8, 4, 2}
	default: // shrink
		w = []int{3, 10, 70, 3, 6, 3, 1}
	}
	var k *mxKey
	switch rng.Pick(w...) {
	case 0:
		if k = r.pickDead(); k == nil {
			k = r.pickLive()
		}
		if k != nil {
			r.doSet(k)
		}
	case 1:
		if k = r.pickLive(); k == nil {
			k = r.pickDead()
		}
		if k != nil {
			r.doSet(k)
		}
	case 2:
		if k = r.pickLive(); k == nil {
			k = r.pickAbsent()
		}
		if k != nil {
			r.doRemove(k)
		}
	case 3:
		if k = r.pickAbsent(); k != nil {
			r.doRemove(k)
		}
	case 4:
		if k = r.pickLive(); k == nil {
			k = r.pickAbsent()
		}
		if k != nil {
			r.doGet(k)
		}
	case 5:
		if k = r.pickAbsent(); k != nil {
			r.doGet(k)
		}
	default:
		r.doIterate()
	}
}

func (r *mxRun) setup(maxSteps int) bool {
	rng := r.rng
	r.T = []uint32{256, 300, 512, 1024}[rng.Pick(40, 20, 25, 15)]
	r.limit = []uint64{0, 1, 2, 3, 255}[rng.Pick(5, 8, 8, 9, 70)]
	set := atree.VerifSetThreshold(r.T)
	r.maxInline, r.maxKey = uint64(set[4]), uint64(set[5])
	atree.VerifSetMaxCollisionLimitPerDigest(uint32(r.limit))
	r.kprof = rng.Pick(35, 40, 25)
	r.vprof = rng.Pick(35, 40, 25)
	var nk int
	switch rng.Pick(55, 45) {
	case 0:
		nk = 8 + rng.Intn(40)
	default:
		nk = 60 + rng.Intn(200)
	}
	if lim := maxSteps * 2 / 7; nk > lim && lim >= 8 {
		nk = lim
	}
	used := map[uint64]bool{}
	for i := 0; i < nk; i++ {
		r.pool = append(r.pool, r.newKey(used))
	}
	r.genDigests()
	for t := 0; t < 6; t++ { // never inserted; half of them collide with a pool key at level 0
		k := r.newKey(used)
		k.d = [mpeLevels]uint64{rng.U64(), rng.U64(), rng.U64(), rng.U64()}
		if t%2 == 0 {
			src := r.pool[rng.Intn(len(r.pool))]
			k.d[0] = src.d[0]
			if rng.Bool() {
				k.d[1] = src.d[1]
			}
		}
		r.probes = append(r.probes, k)
	}
	r.b = &mpeBuilder{table: map[uint64][mpeLevels]uint64{}}
	for _, k := range r.pool {
		r.b.table[k.id] = k.d
	}
	for _, k := range r.probes {
		r.b.table[k.id] = k.d
	}
	r.base = NewLogBase()
	r.st = newStorage(r.base)
	r.rec = &RecStorage{In: r.st}
	r.addr = mkAddr(1 + uint64(rng.Intn(3)))
	r.ti = testutils.NewSimpleTypeInfo(42)
	r.livePos = map[uint64]int{}
	r.shadow = map[uint64]*mxEntry{}
	err, pan := mpeCall(func() error {
		var e error
		r.m, e = atree.NewMap(r.rec, r.addr, r.b, r.ti)
		return e
	})
	if err != nil {
		r.unexpected("NewMap", err, pan)
		return false
	}
	r.rec.Log = r.rec.Log[:0]
	return true
}

func (r *mxRun) run(maxSteps int) {
	rng := r.rng
	if !r.setup(maxSteps) {
		return
	}
	r.tr.Hist(r.tag, uint64(r.T), r.maxInline, r.limit, mpeLevels, r.m.SlabID().IndexAsUint64())
	nk := len(r.pool)
	phase := func(kind int, until func() bool, budget int) {
		for k := 0; k < budget && !r.dead && !until(); k++ {
			r.randomOp(kind)
			if r.step%61 == 60 && !r.dead {
				r.reopenCheck()
			}
		}
	}
	target := nk - rng.Intn(nk/6+1)
	phase(0, func() bool { return len(r.shadow) >= target }, nk*3)
	if !r.dead {
		r.doIterate()
	}
	phase(1, func() bool { return false }, nk*4/5+10)
	if !r.dead {
		r.reopenCheck()
	}
	if rng.Chance(60) {
		// shrink to empty by removes, regrow
		phase(2, func() bool { return len(r.shadow) == 0 }, nk*3)
		phase(0, func() bool { return len(r.shadow) >= nk/2+1 }, nk*2)
		phase(1, func() bool { return false }, nk/4+5)
	}
	if !r.dead {
		r.doIterate()
		r.reopenCheck()
	}
	if !r.dead {
		r.doPop()
	}
	// the emptied map remains usable
	for i := 0; i < 5 && !r.dead; i++ {
		if k := r.pickDead(); k != nil {
			r.doSet(k)
		}
	}
	if !r.dead {
		r.doPop()
	}
	if !r.dead {
		r.probeFailedValueStorable()
	}
}

func (r *mxRun) summarize() {
	flag := func(b bool, name string) string {
		if b {
			r.rep.Event("hist_saw_" + name)
			return "1"
		}
		return "0"
	}
	r.rep.EventN("large_key_slabs_created", r.nLargeKey)
	r.rep.EventN("large_value_slabs_created", r.nLargeVal)
	r.rep.EventN("key_slabs_handed_back", r.nBackKey)
	r.rep.EventN("value_slabs_handed_back", r.nBackVal)
	r.rep.EventN("updates_of_an_entry_with_a_large_key", r.nUpdLargeKey)
	r.rep.EventN("reopen_checks", r.nReopen)
	r.rep.Event("mode_" + r.mode)
	r.rep.Event(fmt.Sprintf("T_%d", r.T))
	r.rep.Event(fmt.Sprintf("hist_max_height_%d", r.maxH))
	fp := fmt.Sprintf("T%d lim%d %s k%d v%d h%d sp%s mg%s ig%s xg%s", r.T, r.limit, r.mode, r.kprof, r.vprof, r.maxH,
		flag(r.sawSplit, "split"), flag(r.sawMerge, "slab_removed"),
		flag(r.sawInlGroupLarge, "large_entry_in_collision_group"), flag(r.sawExtGroupLarge, "large_entry_with_external_group"))
	if r.dead {
		r.rep.Event("hist_aborted")
	}
	if r.nLargeKey > 0 && r.nLargeVal > 0 && r.nBackKey > 0 && r.nBackVal > 0 {
		r.rep.Distinct(fp)
	}
	r.rep.Sample(fmt.Sprintf("history %s: %d steps, %d keys, %d key slabs, %d value slabs, %d+%d handed back, %s", r.tag, r.step, len(r.pool), r.nLargeKey, r.nLargeVal, r.nBackKey, r.nBackVal, fp))
}

func cmdMapExt(a Args) {
	tr := NewTrace(a.Out + "/trace.txt")
	rep := NewReport(a.Prop, a.Seed)
	rep.Rule = "one root OrderedMap per history (grow, churn with overwrites, optionally shrink to empty and regrow, PopIterate, reuse, PopIterate) under a 4-level table digester " +
		"(distinct / clustered / hot level-0 digests: large entries inside inline and external collision groups), T in {256,300,512,1024}, collision limit 255 or 0..3, 8..260 keys; " +
		"keys and values are scalars or strings sized around the inline limits (limit-1, limit, limit+1) and up to 2T above: large ones live in their own StorableSlab; " +
		"the harness removes every StorableSlab it is handed back (previous value of an overwrite, key and value of Remove, everything PopIterate hands out). " +
		"After EVERY mutation: own walk (tree slabs, external groups, key/value references) == registers of the storage (write set + cache + ledger), nothing reachable twice, every reference resolves to a StorableSlab " +
		"at the map's address holding the expected key/value, the slab of an untouched key/value never changes, CheckStorageHealth; refused/failed operations leave no trace; emptied map == root only; " +
		"every 61 steps commit: ledger registers == reachable, reopen from the ledger bytes (content, health). Lock step with the Coq model MapExt.v: answer, slab index of every storable handed back, " +
		"storeSlab/Remove log incl. the new StorableSlabs in call order, allocator, root header, whole tree and the (key slab, value slab) of every entry when <= 40 keys or every 16th step. " +
		"non-trivial = history that created large keys AND large values and was handed back both kinds"
	lib := mpeReadLibDefaultLimit()
	defer func() {
		atree.VerifSetThreshold(1024)
		atree.VerifSetMaxCollisionLimitPerDigest(lib)
	}()
	root := NewRng(a.Seed)
	for h := 0; h < a.N; h++ {
		hr := root.Fork(uint64(h))
		tag := fmt.Sprintf("h%d", h)
		if !want(tag) {
			continue
		}
		r := &mxRun{rep: rep, tr: tr, hist: h, tag: tag, rng: hr}
		func() {
			defer func() {
				if p := recover(); p != nil {
					r.viol("C09: unexpected error (panic outside a library call)", fmt.Sprint(p))
					r.dead = true
				}
				atree.VerifSetThreshold(1024)
				atree.VerifSetMaxCollisionLimitPerDigest(lib)
			}()
			r.run(a.Steps)
		}()
		r.summarize()
	}
	tr.Close()
	rep.Histories = tr.Hists
	rep.Steps = tr.Steps
	rep.Write(a.Out + "/report.json")
}
