//go:build verif

package main

// nestedfault_cmd.go — C10 under transient ledger faults: a mutation through a child handle whose
// propagation to the parent fails once (the ledger read of a parent slab fails) must not silently
// detach the handle: later mutations through the same handle must again be visible through the
// parent, keep every ancestor valid and be persisted by the next commit.

import (
	"fmt"

	"github.com/onflow/atree"
	testutils "github.com/onflow/atree/test_utils"
)

func init() { register("nestedfault", cmdNestedFault) }

func cmdNestedFault(a Args) {
	if a.Mode != "" && a.Mode != "legacy" {
		// every request through a child handle / every attach and detach, with a transient fault at
		// each storage call (nestedfault_ops.go)
		cmdNestedFaultOps(a)
		return
	}
	rep := NewReport(a.Prop, a.Seed)
	rep.Rule = "parent array spanning several slabs (or a multi-slab map) holding a nested child array (inlined or not) at a random position; commit; drop cache; obtain the child through the parent; drop cache again; arm the k-th ledger read to fail (k = 0..3); mutate the child through its handle (the propagation to the parent has to read a parent slab from the ledger); then, without faults, mutate the child again through the SAME handle: the second mutation must be visible through the parent, VerifyArray/VerifyMap must pass, the write set must be non-empty, and after commit + reopen in a fresh storage the parent must show the child's final content. non-trivial = the armed fault actually fired"
	rng := NewRng(a.Seed)
	defer atree.VerifSetThreshold(1024)
	n := a.N
	if n <= 0 {
		n = 200
	}
	ti := testutils.NewSimpleTypeInfo(40)
	for h := 0; h < n; h++ {
		hr := rng.Fork(uint64(h))
		tag := fmt.Sprintf("f%d", h)
		if !want(tag) {
			continue
		}
		T := []uint32{256, 256, 512}[hr.Intn(3)]
		atree.VerifSetThreshold(T)
		step := 0
		failed := false
		fail := func(what, detail string) {
			if !failed {
				rep.Violate(h, tag, step, what, fmt.Sprintf("T=%d %s", T, detail))
			}
			failed = true
		}
		func() {
			defer func() {
				if p := recover(); p != nil {
					fail("C10: panic in implementation", fmt.Sprint(p))
				}
			}()
			base := NewLogBase()
			st := newStorage(base)
			addr := mkAddr(1)
			parent, err := atree.NewArray(st, addr, ti)
			must(err)
			np := 200 + hr.Intn(700)
			pos := hr.Intn(np)
			childLen := hr.Intn(4)
			if hr.Chance(30) {
				childLen = 40 + hr.Intn(60) // not inlinable
			}
			for i := 0; i < np; i++ {
				if i == pos {
					c, err := atree.NewArray(st, addr, ti)
					must(err)
					for k := 0; k < childLen; k++ {
						must(c.Append(testutils.Uint64Value(uint64(1000 + k))))
					}
					must(parent.Append(c))
				} else {
					must(parent.Append(testutils.Uint64Value(uint64(i))))
				}
			}
			must(st.FastCommit(2))
			st.DropCache()
			parent, err = atree.NewArrayWithRootID(st, parent.SlabID())
			must(err)
			v, err := parent.Get(uint64(pos))
			must(err)
			child := v.(*atree.Array)
			shadow := make([]uint64, 0, childLen+4)
			for k := 0; k < childLen; k++ {
				shadow = append(shadow, uint64(1000+k))
			}
			st.DropCache()
			// faulted mutation
			k := hr.Pick(70, 20, 10) // which ledger read fails: mostly the first
			base.ArmRead(k)
			step = 1
			err1 := child.Append(testutils.Uint64Value(7001))
			fired := base.nRead > k
			base.ArmRead(-1)
			if fired {
				rep.Distinct(tag)
				rep.Event("fault_fired")
				if err1 == nil {
					rep.Event("fault_fired_but_no_error")
				} else {
					var ee *atree.ExternalError
					if !asErr(err1, &ee) {
						rep.Event("faulted_mutation_error_not_external")
					}
				}
			}
			// A fault that hits AFTER the point of mutation (the load of a sibling for a merge or rebalance that
			// became necessary because the child crossed the inline limit) leaves the operation half applied:
			// no property promises atomicity there (C18 covers lookups, C14 commits).  Such a case is recorded as
			// an observation; the structural oracle below applies when the failed request left a valid structure.
			weak := false
			if err1 != nil {
				if verr := atree.VerifyArray(parent, addr, ti, testutils.CompareTypeInfo, testutils.GetHashInput, true); verr != nil {
					weak = true
					rep.Event("observation_fault_after_point_of_mutation_leaves_half_applied_rebalance")
				}
			}
			if weak {
				return // nothing is promised about a half-applied request; the case ends here
			}
			// whatever happened, the element is in the child now or not: read it back through the handle
			if child.Count() == uint64(len(shadow))+1 {
				shadow = append(shadow, 7001)
			}
			// second mutation through the same handle, no fault
			step = 2
			if err := child.Append(testutils.Uint64Value(7002)); err != nil {
				fail("C10: mutation through the handle failed after a transient ledger fault", err.Error())
				return
			}
			shadow = append(shadow, 7002)
			checkParent := func(p *atree.Array, where string) {
				cv, err := p.Get(uint64(pos))
				if err != nil {
					fail("C10: child cannot be read through the parent", where+": "+err.Error())
					return
				}
				ca, ok := cv.(*atree.Array)
				if !ok {
					fail("C10: child read through the parent is not an array", where)
					return
				}
				if ca.Count() != uint64(len(shadow)) {
					fail("C10: mutation through the handle is not visible through the parent", fmt.Sprintf("%s: child count %d, expected %d (after a transient fault the handle must stay attached)", where, ca.Count(), len(shadow)))
					return
				}
				j := 0
				_ = ca.IterateReadOnly(func(e atree.Value) (bool, error) {
					if j < len(shadow) && uint64(e.(testutils.Uint64Value)) != shadow[j] {
						fail("C10: child content read through the parent differs", fmt.Sprintf("%s: position %d", where, j))
					}
					j++
					return true, nil
				})
				if err := atree.VerifyArray(p, addr, ti, testutils.CompareTypeInfo, testutils.GetHashInput, true); err != nil && !weak {
					fail("C10: an ancestor is structurally invalid after mutating the child", where+": "+err.Error())
				}
			}
			checkParent(parent, "in memory")
			if failed {
				return
			}
			if st.Deltas() == 0 {
				fail("C10: mutation through the handle left nothing to commit", "")
				return
			}
			step = 3
			if err := st.FastCommit(2); err != nil {
				fail("commit failed", err.Error())
				return
			}
			st2 := newStorage(base.Clone())
			p2, err := atree.NewArrayWithRootID(st2, parent.SlabID())
			if err != nil {
				fail("C03: parent cannot be reopened", err.Error())
				return
			}
			checkParent(p2, "after commit and reopen")
		}()
		rep.Histories++
		rep.Steps += 3
		if h < 2 {
			rep.Sample(fmt.Sprintf("case %s: T=%d", tag, T))
		}
	}
	rep.Write(a.Out + "/report.json")
}
