//go:build verif

package main

// iter_cmd.go — subcommand "iter" (property C13): every way of enumerating an Array / OrderedMap
// is run at checkpoints of random histories and compared with a shadow (plain slice; insertion-
// ordered dictionary + canonical order computed from the digest table).  Flavours: mutable,
// read-only, range, keys-only, values-only, loaded-values (fully and partially loaded), reverse
// bulk pop; in-iteration overwrite of the current element, mutation of nested children through
// yielded handles, the read-only mutation contract, invalid ranges.

import (
	"errors"
	"fmt"
	"sort"
	"strconv"
	"strings"

	"github.com/onflow/atree"
	testutils "github.com/onflow/atree/test_utils"
)

func init() { register("iter", cmdIter) }

const (
	itClsStr = uint64(1) << 48
	itClsArr = uint64(2) << 48
	itClsMap = uint64(3) << 48
)

// itVal is the shadow of one element value (array element or map value).
type itVal struct {
	kind  int // 0 uint, 1 string stored inline, 2 string above the inline limit, 3 child array, 4 child map
	ident uint64
	v     atree.Value       // the value to hand to the library (children: creation handle, dropped after insertion)
	carr  []uint64          // child array: element numbers, carr[0] = identity marker
	cmap  map[uint64]uint64 // child map: key number -> value number, key 0 = identity marker
	ckeys uint64            // child map: next fresh key
}

type itEnv struct {
	rep    *Report
	hist   int
	tag    string
	cp     int
	rng    *Rng
	T      uint32
	cfg    [6]uint32
	base   *LogBase
	st     *atree.PersistentSlabStorage
	rec    *RecStorage
	addr   atree.Address
	nextID uint64
	failed bool
	what   string
	nviol  int
	thor   bool
}

func (e *itEnv) viol(what, detail string) {
	if len(detail) > 500 {
		detail = detail[:500] + "..."
	}
	if e.nviol < 3 {
		e.rep.Violate(e.hist, e.tag, e.cp, what, fmt.Sprintf("%s T=%d cp=%d %s", e.what, e.T, e.cp, detail))
	}
	e.nviol++
	e.failed = true
}

func itTI(n uint64) atree.TypeInfo { return testutils.NewSimpleTypeInfo(n) }

// itStrOfSize builds the string value "id|xxx…" whose encoded size is total (or the smallest possible).
func itStrOfSize(id uint64, total int) testutils.StringValue {
	head := strconv.FormatUint(id, 10) + "|"
	l := total - 1
	if total > 24 {
		l = total - 2
	}
	if total > 257 {
		l = total - 3
	}
	if l < len(head) {
		l = len(head)
	}
	return testutils.NewStringValue(head + strings.Repeat("x", l-len(head)))
}

func (e *itEnv) freshID() uint64 {
	e.nextID++
	return e.nextID
}

func (e *itEnv) strVal(total int, inl int) *itVal {
	id := e.freshID()
	s := itStrOfSize(id, total)
	k := 1
	if int(s.ByteSize()) > inl {
		k = 2
	}
	return &itVal{kind: k, ident: itClsStr | id, v: s}
}

func (e *itEnv) uintVal() *itVal {
	id := e.freshID()
	bases := []uint64{0, 0, 1 << 24, 1 << 40}
	n := bases[e.rng.Intn(len(bases))] + id
	return &itVal{kind: 0, ident: n, v: testutils.Uint64Value(n)}
}

// childNum is a number stored inside child containers (two encoded widths).
func (e *itEnv) childNum() uint64 {
	if e.rng.Bool() {
		return uint64(e.rng.Intn(200))
	}
	return 1<<33 + uint64(e.rng.Intn(1<<20))
}

func (e *itEnv) childSize(inl int) int {
	switch e.rng.Pick(55, 25, 20) {
	case 0:
		return e.rng.Intn(4)
	case 1: // around the inline limit
		return inl/9 + e.rng.Intn(inl/6+2)
	default: // several slabs
		return int(e.T)/6 + e.rng.Intn(int(e.T)/4)
	}
}

func (e *itEnv) childArr(inl int) *itVal {
	id := e.freshID()
	a, err := atree.NewArray(e.rec, e.addr, itTI(43))
	must(err)
	must(a.Append(testutils.Uint64Value(id)))
	v := &itVal{kind: 3, ident: itClsArr | id, v: a, carr: []uint64{id}}
	for k := e.childSize(inl); k > 0; k-- {
		x := e.childNum()
		must(a.Append(testutils.Uint64Value(x)))
		v.carr = append(v.carr, x)
	}
	return v
}

func (e *itEnv) childMap(inl int) *itVal {
	id := e.freshID()
	m, err := atree.NewMap(e.rec, e.addr, atree.NewDefaultDigesterBuilder(), itTI(53))
	must(err)
	_, err = m.Set(testutils.CompareValue, testutils.GetHashInput, testutils.Uint64Value(0), testutils.Uint64Value(id))
	must(err)
	v := &itVal{kind: 4, ident: itClsMap | id, v: m, cmap: map[uint64]uint64{0: id}, ckeys: 1}
	for k := e.childSize(inl) / 2; k > 0; k-- {
		x := e.childNum()
		_, err = m.Set(testutils.CompareValue, testutils.GetHashInput, testutils.Uint64Value(v.ckeys), testutils.Uint64Value(x))
		must(err)
		v.cmap[v.ckeys] = x
		v.ckeys++
	}
	return v
}

// newVal creates an element whose stored size is chosen where the code branches; inl is the
// inline limit at the place the value goes to.
func (e *itEnv) newVal(inl int, nested bool) *itVal {
	rng := e.rng
	wa, wm := 7, 6
	if !nested {
		wa, wm = 0, 0
	}
	switch rng.Pick(30, 16, 10, 7, 10, 8, 6, wa, wm) {
	case 0:
		return e.uintVal()
	case 1:
		return e.strVal(3+rng.Intn(20), inl)
	case 2: // just fits / just does not fit the inline limit
		return e.strVal(inl-3+rng.Intn(6), inl)
	case 3: // well above the limit: stored in its own slab
		return e.strVal(inl+1+rng.Intn(200), inl)
	case 4:
		return e.strVal(inl/2-4+rng.Intn(8), inl)
	case 5:
		return e.strVal(int(e.T)/8+rng.Intn(8), inl)
	case 6:
		return e.strVal(8+rng.Intn(inl), inl)
	case 7:
		return e.childArr(inl)
	default:
		return e.childMap(inl)
	}
}

// dispose frees everything a storable handed back by the library owns.
func (e *itEnv) dispose(s atree.Storable) {
	if s == nil {
		return
	}
	v, err := s.StoredValue(e.st)
	if err != nil {
		e.viol("C13: harness: StoredValue of a returned storable failed", err.Error())
		return
	}
	switch c := v.(type) {
	case *atree.Array:
		err = c.PopIterate(func(atree.Storable) {})
	case *atree.OrderedMap:
		err = c.PopIterate(func(atree.Storable, atree.Storable) {})
	}
	if err != nil {
		e.viol("C13: harness: emptying a removed child failed", err.Error())
	}
	if sid, ok := s.(atree.SlabIDStorable); ok {
		if err := e.st.Remove(atree.SlabID(sid)); err != nil {
			e.viol("C13: harness: removing a returned slab failed", err.Error())
		}
	}
}

// itIdent maps a value handed out by the library to the harness identity.
func itIdent(v atree.Value) (uint64, bool) {
	switch x := v.(type) {
	case testutils.Uint64Value:
		return uint64(x), true
	case testutils.StringValue:
		s := x.String()
		i := strings.IndexByte(s, '|')
		if i <= 0 {
			return 0, false
		}
		n, err := strconv.ParseUint(s[:i], 10, 64)
		if err != nil {
			return 0, false
		}
		return itClsStr | n, true
	case *atree.Array:
		if x.Count() == 0 {
			return 0, false
		}
		m, err := x.Get(0)
		if err != nil {
			return 0, false
		}
		if u, ok := m.(testutils.Uint64Value); ok {
			return itClsArr | uint64(u), true
		}
	case *atree.OrderedMap:
		m, err := x.Get(testutils.CompareValue, testutils.GetHashInput, testutils.Uint64Value(0))
		if err != nil {
			return 0, false
		}
		if u, ok := m.(testutils.Uint64Value); ok {
			return itClsMap | uint64(u), true
		}
	}
	return 0, false
}

func itIdents(vs []atree.Value) []uint64 {
	out := make([]uint64, len(vs))
	for i, v := range vs {
		id, ok := itIdent(v)
		if !ok {
			id = ^uint64(0)
		}
		out[i] = id
	}
	return out
}

func itIdentStorable(st atree.SlabStorage, s atree.Storable) uint64 {
	v, err := s.StoredValue(st)
	if err != nil {
		return ^uint64(0)
	}
	id, ok := itIdent(v)
	if !ok {
		return ^uint64(0)
	}
	return id
}

// childDiff compares a child container handed out by the library with its shadow ("" = equal).
func itChildDiff(v atree.Value, want *itVal) string {
	switch c := v.(type) {
	case *atree.Array:
		if want.kind != 3 {
			return "array where the shadow has none"
		}
		if c.Count() != uint64(len(want.carr)) {
			return fmt.Sprintf("child array count %d, want %d", c.Count(), len(want.carr))
		}
		j := 0
		bad := ""
		err := c.IterateReadOnly(func(x atree.Value) (bool, error) {
			u, ok := x.(testutils.Uint64Value)
			if !ok || j >= len(want.carr) || uint64(u) != want.carr[j] {
				bad = fmt.Sprintf("child array position %d", j)
				return false, nil
			}
			j++
			return true, nil
		})
		if err != nil {
			return err.Error()
		}
		return bad
	case *atree.OrderedMap:
		if want.kind != 4 {
			return "map where the shadow has none"
		}
		if c.Count() != uint64(len(want.cmap)) {
			return fmt.Sprintf("child map count %d, want %d", c.Count(), len(want.cmap))
		}
		for k, x := range want.cmap {
			g, err := c.Get(testutils.CompareValue, testutils.GetHashInput, testutils.Uint64Value(k))
			if err != nil {
				return fmt.Sprintf("child map key %d: %v", k, err)
			}
			if u, ok := g.(testutils.Uint64Value); !ok || uint64(u) != x {
				return fmt.Sprintf("child map key %d holds %v, want %d", k, g, x)
			}
		}
		return ""
	}
	if want.kind >= 3 {
		return fmt.Sprintf("%T where the shadow has a container", v)
	}
	return ""
}

func itSameSeq(a, b []uint64) int {
	for i := 0; i < len(a) && i < len(b); i++ {
		if a[i] != b[i] {
			return i
		}
	}
	if len(a) != len(b) {
		return min(len(a), len(b))
	}
	return -1
}

func itIsSubseq(sub, full []uint64) bool {
	j := 0
	for _, x := range full {
		if j < len(sub) && sub[j] == x {
			j++
		}
	}
	return j == len(sub)
}

func itShort(xs []uint64) string {
	if len(xs) > 12 {
		return fmt.Sprint(xs[:12]) + fmt.Sprintf("…(%d)", len(xs))
	}
	return fmt.Sprint(xs)
}

// cmpSeq reports a violation if a flavour's sequence differs from the expected one.
func (e *itEnv) cmpSeq(flavour, order string, got, want []uint64) bool {
	if p := itSameSeq(got, want); p >= 0 {
		var g, w string
		if p < len(got) {
			g = strconv.FormatUint(got[p], 10)
		} else {
			g = "end"
		}
		if p < len(want) {
			w = strconv.FormatUint(want[p], 10)
		} else {
			w = "end"
		}
		e.viol("C13: "+flavour+" does not yield every element exactly once in "+order,
			fmt.Sprintf("yielded %d, expected %d; first difference at position %d: got %s want %s", len(got), len(want), p, g, w))
		return false
	}
	return true
}

func itLoad(st *atree.PersistentSlabStorage, ids []atree.SlabID, batch bool) error {
	if batch {
		return st.BatchPreload(ids, 3)
	}
	for _, id := range ids {
		if _, _, err := st.Retrieve(id); err != nil {
			return err
		}
	}
	return nil
}

func (e *itEnv) removesInLog() int {
	n := 0
	for k := 0; k+1 < len(e.rec.Log); k += 2 {
		if e.rec.Log[k] == 0 {
			n++
		}
	}
	return n
}

func (e *itEnv) commit() bool {
	e.rec.Log = e.rec.Log[:0]
	if err := e.st.FastCommit(2); err != nil {
		e.viol("C13: harness: commit failed", err.Error())
		return false
	}
	return true
}

// subsets of the non-root slabs to load: named special cases first, then random densities
type itSubset struct {
	name string
	ids  []atree.SlabID
}

func (e *itEnv) subsets(all []atree.SlabID, leaves, inner map[uint64]bool) []itSubset {
	rng := e.rng
	var out []itSubset
	out = append(out, itSubset{"only_root", nil})
	out = append(out, itSubset{"all", all})
	pick := func(keep func(id atree.SlabID) bool) []atree.SlabID {
		var r []atree.SlabID
		for _, id := range all {
			if keep(id) {
				r = append(r, id)
			}
		}
		return r
	}
	if len(leaves) > 0 {
		var ls []uint64
		for k := range leaves {
			ls = append(ls, k)
		}
		sort.Slice(ls, func(i, j int) bool { return ls[i] < ls[j] })
		drop := ls[rng.Intn(len(ls))]
		out = append(out, itSubset{"all_but_one_leaf", pick(func(id atree.SlabID) bool { return id.IndexAsUint64() != drop })})
		out = append(out, itSubset{"tree_only_half_leaves", pick(func(id atree.SlabID) bool {
			x := id.IndexAsUint64()
			return inner[x] || (leaves[x] && rng.Bool())
		})})
		out = append(out, itSubset{"no_leaf", pick(func(id atree.SlabID) bool { return !leaves[id.IndexAsUint64()] })})
	}
	if len(inner) > 0 {
		out = append(out, itSubset{"no_index_slabs_below_root", pick(func(id atree.SlabID) bool { return !inner[id.IndexAsUint64()] })})
		var is []uint64
		for k := range inner {
			is = append(is, k)
		}
		sort.Slice(is, func(i, j int) bool { return is[i] < is[j] })
		drop := is[rng.Intn(len(is))]
		out = append(out, itSubset{"all_but_one_index_slab", pick(func(id atree.SlabID) bool { return id.IndexAsUint64() != drop })})
	}
	for _, p := range []int{10, 30, 50, 70, 90} {
		out = append(out, itSubset{fmt.Sprintf("random_%d", p), pick(func(atree.SlabID) bool { return rng.Chance(p) })})
	}
	return out
}

var (
	itErrSOOB *atree.SliceOutOfBoundsError
	itErrISI  *atree.InvalidSliceIndexError
	itErrMut  *atree.ReadOnlyIteratorElementMutationError
	_         = errors.As
)

// ======================================================================================
// arrays
// ======================================================================================

type itArr struct {
	*itEnv
	arr    *atree.Array
	shadow []*itVal
	ti     uint64
	maxH   int
}

func (r *itArr) inl() int { return int(r.cfg[3]) }

func (r *itArr) want() []uint64 {
	out := make([]uint64, len(r.shadow))
	for i, v := range r.shadow {
		out[i] = v.ident
	}
	return out
}

func (r *itArr) insert(i uint64, v *itVal) {
	var err error
	if i == uint64(len(r.shadow)) && r.rng.Bool() {
		err = r.arr.Append(v.v)
	} else {
		err = r.arr.Insert(i, v.v)
	}
	if err != nil {
		r.viol("C13: harness: in-range insert failed", err.Error())
		return
	}
	if v.kind >= 3 {
		v.v = nil // handle discipline: the creation wrapper is not used again
	}
	r.shadow = append(r.shadow, nil)
	copy(r.shadow[i+1:], r.shadow[i:])
	r.shadow[i] = v
}

func (r *itArr) remove(i uint64) {
	old, err := r.arr.Remove(i)
	if err != nil {
		r.viol("C13: harness: in-range remove failed", err.Error())
		return
	}
	r.shadow = append(r.shadow[:i], r.shadow[i+1:]...)
	r.dispose(old)
}

func (r *itArr) set(i uint64, v *itVal) {
	old, err := r.arr.Set(i, v.v)
	if err != nil {
		r.viol("C13: harness: in-range set failed", err.Error())
		return
	}
	if v.kind >= 3 {
		v.v = nil
	}
	r.shadow[i] = v
	r.dispose(old)
}

func (r *itArr) pos(max uint64) uint64 {
	switch r.rng.Pick(50, 15, 25, 10) {
	case 0:
		return uint64(r.rng.Intn(int(max) + 1))
	case 1:
		return 0
	case 2:
		return max
	default:
		if max > 3 {
			return max - uint64(r.rng.Intn(3))
		}
		return max
	}
}

func (r *itArr) growTo(n int) {
	for len(r.shadow) < n && !r.failed {
		r.insert(r.pos(uint64(len(r.shadow))), r.newVal(r.inl(), true))
	}
}

func (r *itArr) shrinkTo(n int) {
	for len(r.shadow) > n && !r.failed {
		r.remove(r.pos(uint64(len(r.shadow) - 1)))
	}
}

func (r *itArr) churn(k int) {
	for ; k > 0 && !r.failed; k-- {
		n := uint64(len(r.shadow))
		switch r.rng.Pick(35, 30, 35) {
		case 0:
			r.insert(r.pos(n), r.newVal(r.inl(), true))
		case 1:
			if n > 0 {
				r.remove(r.pos(n - 1))
			}
		default:
			if n > 0 {
				r.set(r.pos(n-1), r.newVal(r.inl(), true))
			}
		}
	}
}

// ---------- slab tree as dumped by the hook ----------

type itElem struct {
	ident uint64
	ext   uint64
}

type itNode struct {
	data  bool
	idx   uint64
	elems []itElem
	hidx  []uint64 // the parent's copy of the children's slab indexes
	kids  []*itNode
}

type itTree struct {
	root   *itNode
	height int
	leaves []*itNode
	inner  map[uint64]bool // index slabs below the root
	leaf   map[uint64]bool // data slabs below the root
	starts []uint64        // first index of every leaf, plus the total count
}

func (r *itArr) dumpTree() *itTree {
	var els []itElem
	d, err := atree.VerifArrayDump(r.arr, func(s atree.Storable) (int64, uint64) {
		e := itElem{ident: itIdentStorable(r.st, s)}
		if sid, ok := s.(atree.SlabIDStorable); ok {
			e.ext = atree.SlabID(sid).IndexAsUint64()
		}
		els = append(els, e)
		return 0, e.ext
	})
	if err != nil {
		r.viol("C13: harness: slab tree cannot be walked", err.Error())
		return nil
	}
	t := &itTree{inner: map[uint64]bool{}, leaf: map[uint64]bool{}}
	p, ep := 0, 0
	var rec func(depth int) *itNode
	rec = func(depth int) *itNode {
		if depth+1 > t.height {
			t.height = depth + 1
		}
		if d[p] == 0 {
			nd := &itNode{data: true, idx: uint64(d[p+1])}
			n := int(d[p+5])
			p += 6 + 3*n
			nd.elems = els[ep : ep+n]
			ep += n
			t.leaves = append(t.leaves, nd)
			if depth > 0 {
				t.leaf[nd.idx] = true
			}
			return nd
		}
		nd := &itNode{idx: uint64(d[p+1])}
		n := int(d[p+4])
		for k := 0; k < n; k++ {
			nd.hidx = append(nd.hidx, uint64(d[p+5+3*k]))
		}
		p += 5 + 4*n
		if depth > 0 {
			t.inner[nd.idx] = true
		}
		for k := 0; k < n; k++ {
			nd.kids = append(nd.kids, rec(depth+1))
		}
		return nd
	}
	t.root = rec(0)
	c := uint64(0)
	for _, l := range t.leaves {
		t.starts = append(t.starts, c)
		c += uint64(len(l.elems))
	}
	t.starts = append(t.starts, c)
	r.maxH = max(r.maxH, t.height)
	return t
}

// expectedLoaded evaluates the model of Iter.v: descend through loaded children only, skip
// elements whose own slab is not loaded.
func (t *itTree) expectedLoaded(loaded map[uint64]bool) []uint64 {
	var out []uint64
	var rec func(n *itNode)
	rec = func(n *itNode) {
		if n.data {
			for _, e := range n.elems {
				if e.ext == 0 || loaded[e.ext] {
					out = append(out, e.ident)
				}
			}
			return
		}
		for k, c := range n.kids {
			if loaded[n.hidx[k]] {
				rec(c)
			}
		}
	}
	rec(t.root)
	return out
}

// ---------- flavours ----------

type itArrFlavour struct {
	name string
	run  func(a *atree.Array, cb atree.ArrayIterationFunc) error
}

func itDrainArr(it atree.ArrayIterator, cb atree.ArrayIterationFunc) error {
	for {
		v, err := it.Next()
		if err != nil {
			return err
		}
		if v == nil {
			v2, err2 := it.Next()
			if err2 != nil || v2 != nil {
				return fmt.Errorf("iterator yields %v/%v after reporting the end", v2, err2)
			}
			return nil
		}
		resume, err := cb(v)
		if err != nil {
			return err
		}
		if !resume {
			return nil
		}
	}
}

func (r *itArr) fullFlavours() []itArrFlavour {
	mutCb := func(atree.Value) {
		r.viol("C13: read-only iteration reported a mutation although nothing was mutated", "")
	}
	canMut := func(it atree.ArrayIterator, want bool, name string) {
		if it.CanMutate() != want {
			r.viol("C13: "+name+" reports the wrong CanMutate()", fmt.Sprint(it.CanMutate()))
		}
	}
	return []itArrFlavour{
		{"Iterator+Next", func(a *atree.Array, cb atree.ArrayIterationFunc) error {
			it, err := a.Iterator()
			if err != nil {
				return err
			}
			canMut(it, true, "Iterator")
			return itDrainArr(it, cb)
		}},
		{"ReadOnlyIterator+Next", func(a *atree.Array, cb atree.ArrayIterationFunc) error {
			it, err := a.ReadOnlyIterator()
			if err != nil {
				return err
			}
			canMut(it, false, "ReadOnlyIterator")
			return itDrainArr(it, cb)
		}},
		{"ReadOnlyIteratorWithMutationCallback+Next", func(a *atree.Array, cb atree.ArrayIterationFunc) error {
			it, err := a.ReadOnlyIteratorWithMutationCallback(mutCb)
			if err != nil {
				return err
			}
			canMut(it, false, "ReadOnlyIteratorWithMutationCallback")
			return itDrainArr(it, cb)
		}},
		{"Iterate", func(a *atree.Array, cb atree.ArrayIterationFunc) error { return a.Iterate(cb) }},
		{"IterateReadOnly", func(a *atree.Array, cb atree.ArrayIterationFunc) error { return a.IterateReadOnly(cb) }},
		{"IterateReadOnlyWithMutationCallback", func(a *atree.Array, cb atree.ArrayIterationFunc) error {
			return a.IterateReadOnlyWithMutationCallback(cb, mutCb)
		}},
		{"ReadOnlyLoadedValueIterator+Next(all loaded)", func(a *atree.Array, cb atree.ArrayIterationFunc) error {
			it, err := a.ReadOnlyLoadedValueIterator()
			if err != nil {
				return err
			}
			canMut(it, false, "ReadOnlyLoadedValueIterator")
			return itDrainArr(it, cb)
		}},
		{"IterateReadOnlyLoadedValues(all loaded)", func(a *atree.Array, cb atree.ArrayIterationFunc) error {
			return a.IterateReadOnlyLoadedValues(cb)
		}},
	}
}

func (r *itArr) rangeFlavours(a, b uint64) []itArrFlavour {
	mutCb := func(atree.Value) {
		r.viol("C13: read-only range iteration reported a mutation although nothing was mutated", "")
	}
	return []itArrFlavour{
		{"RangeIterator+Next", func(ar *atree.Array, cb atree.ArrayIterationFunc) error {
			it, err := ar.RangeIterator(a, b)
			if err != nil {
				return err
			}
			if it == nil {
				return fmt.Errorf("nil iterator without error")
			}
			return itDrainArr(it, cb)
		}},
		{"ReadOnlyRangeIterator+Next", func(ar *atree.Array, cb atree.ArrayIterationFunc) error {
			it, err := ar.ReadOnlyRangeIterator(a, b)
			if err != nil {
				return err
			}
			if it == nil {
				return fmt.Errorf("nil iterator without error")
			}
			return itDrainArr(it, cb)
		}},
		{"ReadOnlyRangeIteratorWithMutationCallback+Next", func(ar *atree.Array, cb atree.ArrayIterationFunc) error {
			it, err := ar.ReadOnlyRangeIteratorWithMutationCallback(a, b, mutCb)
			if err != nil {
				return err
			}
			if it == nil {
				return fmt.Errorf("nil iterator without error")
			}
			return itDrainArr(it, cb)
		}},
		{"IterateRange", func(ar *atree.Array, cb atree.ArrayIterationFunc) error { return ar.IterateRange(a, b, cb) }},
		{"IterateReadOnlyRange", func(ar *atree.Array, cb atree.ArrayIterationFunc) error {
			return ar.IterateReadOnlyRange(a, b, cb)
		}},
		{"IterateReadOnlyRangeWithMutationCallback", func(ar *atree.Array, cb atree.ArrayIterationFunc) error {
			return ar.IterateReadOnlyRangeWithMutationCallback(a, b, cb, mutCb)
		}},
	}
}

// collect runs one flavour and returns the yielded values (bounded).
func (r *itArr) collect(a *atree.Array, f itArrFlavour, bound int) ([]atree.Value, error) {
	var vs []atree.Value
	err := f.run(a, func(v atree.Value) (bool, error) {
		vs = append(vs, v)
		return len(vs) <= bound, nil
	})
	return vs, err
}

func (r *itArr) checkFull() {
	want := r.want()
	n := len(want)
	for fi, f := range r.fullFlavours() {
		if r.failed {
			return
		}
		r.rep.Op("array:" + f.name)
		vs, err := r.collect(r.arr, f, n+8)
		if err != nil {
			r.viol("C13: array "+f.name+" failed", err.Error())
			return
		}
		if !r.cmpSeq("array "+f.name, "index order", itIdents(vs), want) {
			return
		}
		if fi == 0 || fi == 4 || fi == 7 { // nested content as seen through yielded handles
			for i, v := range vs {
				if r.shadow[i].kind >= 3 {
					if d := itChildDiff(v, r.shadow[i]); d != "" {
						r.viol("C13: array "+f.name+" yields a nested container with the wrong content", fmt.Sprintf("index %d: %s", i, d))
						return
					}
				}
			}
		}
	}
	// lookups agree with the enumeration
	step := 1
	if n > 300 {
		step = n / 150
	}
	for i := 0; i < n; i += step {
		v, err := r.arr.Get(uint64(i))
		if err != nil {
			r.viol("C13: Get of an enumerated index failed", fmt.Sprintf("%d: %v", i, err))
			return
		}
		if id, _ := itIdent(v); id != want[i] {
			r.viol("C13: array enumeration disagrees with Get", fmt.Sprintf("index %d: Get=%d enumerated=%d", i, id, want[i]))
			return
		}
	}
	if r.arr.Count() != uint64(n) {
		r.viol("C13: number of yielded elements differs from Count()", fmt.Sprintf("%d vs %d", n, r.arr.Count()))
	}
}

func (r *itArr) rangeList(t *itTree) [][2]uint64 {
	n := uint64(len(r.shadow))
	var out [][2]uint64
	if n <= 12 {
		for a := uint64(0); a <= n; a++ {
			for b := a; b <= n; b++ {
				out = append(out, [2]uint64{a, b})
			}
		}
		return out
	}
	rng := r.rng
	out = append(out, [2]uint64{0, 0}, [2]uint64{0, n}, [2]uint64{n, n}, [2]uint64{n - 1, n}, [2]uint64{0, 1})
	k := uint64(rng.Intn(int(n)))
	out = append(out, [2]uint64{k, k + 1})
	// points at and next to slab boundaries
	nb := len(t.starts)
	near := func(j int) uint64 {
		p := t.starts[j]
		switch rng.Intn(3) {
		case 0:
			if p > 0 {
				return p - 1
			}
		case 1:
			if p < n {
				return p + 1
			}
		}
		return p
	}
	budget := 30000
	if r.thor {
		budget = 200000
	}
	for c := 0; c < 24; c++ {
		j := rng.Intn(nb)
		span := 1 + rng.Intn(3)
		if rng.Chance(15) {
			span = rng.Intn(nb)
		}
		j2 := min(nb-1, j+span)
		a, b := t.starts[j], t.starts[j2]
		switch rng.Intn(5) {
		case 0: // exactly one or several whole slabs
		case 1:
			a = near(j)
		case 2:
			b = near(j2)
		case 3:
			a, b = near(j), near(j2)
		default: // last index of a slab as start, first of the next as end
			if t.starts[j2] > 0 {
				a = t.starts[j2] - 1
			}
			b = min(n, t.starts[j2]+1)
		}
		if a > b {
			a, b = b, a
		}
		if int(b-a) > budget {
			continue
		}
		budget -= int(b - a)
		out = append(out, [2]uint64{a, b})
	}
	for c := 0; c < 20; c++ {
		a := uint64(rng.Intn(int(n) + 1))
		b := uint64(rng.Intn(int(n) + 1))
		if a > b {
			a, b = b, a
		}
		if rng.Chance(70) && b-a > 40 {
			b = a + uint64(rng.Intn(40))
		}
		if int(b-a) > budget {
			continue
		}
		budget -= int(b - a)
		out = append(out, [2]uint64{a, b})
	}
	return out
}

func (r *itArr) checkRanges(t *itTree) {
	want := r.want()
	for _, ab := range r.rangeList(t) {
		a, b := ab[0], ab[1]
		r.rep.Event("ranges")
		for _, f := range r.rangeFlavours(a, b) {
			if r.failed {
				return
			}
			r.rep.Op("array:" + f.name)
			vs, err := r.collect(r.arr, f, int(b-a)+8)
			if err != nil {
				r.viol("C13: valid range rejected or failed in "+f.name, fmt.Sprintf("[%d,%d) of %d: %v", a, b, len(want), err))
				return
			}
			if !r.cmpSeq(fmt.Sprintf("array %s [%d,%d) of %d", f.name, a, b, len(want)), "index order", itIdents(vs), want[a:b]) {
				return
			}
		}
	}
}

func (r *itArr) checkInvalidRanges() {
	n := uint64(len(r.shadow))
	cases := [][2]uint64{{n + 1, n + 1}, {n + 1, n + 2}, {0, n + 1}, {n, n + 1}, {n + 7, 0}, {1 << 32, 1 << 32}, {0, 1 << 63},
		{1 << 63, 0}, {^uint64(0), ^uint64(0)}, {1 << 32, 5}, {^uint64(0), 0}, {1 << 63, 1<<63 + 1}}
	if n >= 1 {
		cases = append(cases, [2]uint64{1, 0}, [2]uint64{n, n - 1}, [2]uint64{n, 0}, [2]uint64{uint64(r.rng.Intn(int(n))) + 1, 0})
	}
	for _, ab := range cases {
		a, b := ab[0], ab[1]
		if a <= n && b <= n && a <= b {
			continue
		}
		r.rep.Event("invalid_ranges")
		wantOOB := a > n || b > n
		for _, f := range r.rangeFlavours(a, b) {
			called := 0
			err := f.run(r.arr, func(atree.Value) (bool, error) { called++; return true, nil })
			where := fmt.Sprintf("%s [%d,%d) of %d", f.name, a, b, n)
			if called > 0 {
				r.viol("C13: callback invoked for an invalid range", where)
				return
			}
			if err == nil {
				r.viol("C13: invalid range accepted", where)
				return
			}
			if wantOOB {
				r.rep.Err("SliceOutOfBoundsError")
				if !errors.As(err, &itErrSOOB) {
					r.viol("C13: range beyond the end not rejected with SliceOutOfBoundsError", where+": "+err.Error())
					return
				}
			} else {
				r.rep.Err("InvalidSliceIndexError")
				if !errors.As(err, &itErrISI) {
					r.viol("C13: range with start > end not rejected with InvalidSliceIndexError", where+": "+err.Error())
					return
				}
			}
			var ue *atree.UserError
			var fe *atree.FatalError
			if !errors.As(err, &ue) || errors.As(err, &fe) {
				r.viol("C13: invalid range not categorised as UserError", where+": "+err.Error())
				return
			}
		}
	}
}

// checkLoaded: loaded-value iteration over a fresh storage in which only a subset of the slabs is
// in memory must yield exactly what the model of Iter.v computes from the slab tree — in
// particular an in-order subsequence of the full enumeration.
func (r *itArr) checkLoaded(t *itTree) {
	want := r.want()
	rootID := r.arr.SlabID()
	var all []atree.SlabID
	for _, id := range r.base.SortedIDs() {
		if id != rootID {
			all = append(all, id)
		}
	}
	for si, sub := range r.subsets(all, t.leaf, t.inner) {
		if r.failed {
			return
		}
		r.rep.Event("loaded_subsets")
		r.rep.Event("loaded_subset:" + strings.TrimRight(sub.name, "0123456789"))
		st2 := newStorage(r.base)
		a2, err := atree.NewArrayWithRootID(st2, rootID)
		if err != nil {
			r.viol("C13: harness: array cannot be reopened", err.Error())
			return
		}
		if err := itLoad(st2, sub.ids, si%2 == 1); err != nil {
			r.viol("C13: harness: preloading slabs failed", err.Error())
			return
		}
		loaded := map[uint64]bool{}
		for _, id := range sub.ids {
			loaded[id.IndexAsUint64()] = true
		}
		exp := t.expectedLoaded(loaded)
		var vs []atree.Value
		name := "IterateReadOnlyLoadedValues"
		cb := func(v atree.Value) (bool, error) {
			vs = append(vs, v)
			return len(vs) <= len(want)+8, nil
		}
		if si%3 == 0 {
			name = "ReadOnlyLoadedValueIterator+Next"
			var it *atree.ArrayLoadedValueIterator
			it, err = a2.ReadOnlyLoadedValueIterator()
			if err == nil {
				err = itDrainArr(it, cb)
			}
		} else {
			err = a2.IterateReadOnlyLoadedValues(cb)
		}
		r.rep.Op("array:" + name + "(partially loaded)")
		where := fmt.Sprintf("subset %s (%d of %d slabs)", sub.name, len(sub.ids), len(all))
		if err != nil {
			r.viol("C13: array loaded-value iteration over a partially loaded array failed", where+": "+err.Error())
			return
		}
		got := itIdents(vs) // identification may load slabs: only after the iteration
		if !itIsSubseq(got, want) {
			r.viol("C13: array loaded-value iteration is not an in-order subsequence of the full enumeration",
				fmt.Sprintf("%s: got %s", where, itShort(got)))
			return
		}
		if p := itSameSeq(got, exp); p >= 0 {
			r.viol("C13: array loaded-value iteration does not yield exactly the elements reachable through loaded slabs",
				fmt.Sprintf("%s: yielded %d, expected %d, first difference at position %d", where, len(got), len(exp), p))
			return
		}
		if len(exp) > 0 && len(exp) < len(want) {
			r.rep.Event("loaded_subsets_strict_nonempty_subsequence")
		}
		if sub.name == "all" && len(got) != len(want) {
			r.viol("C13: array loaded-value iteration with every slab loaded is not the full enumeration", where)
		}
	}
}

func (r *itArr) checkPopOnClone() {
	want := r.want()
	r.rep.Op("array:PopIterate")
	st2 := newStorage(r.base.Clone())
	a2, err := atree.NewArrayWithRootID(st2, r.arr.SlabID())
	if err != nil {
		r.viol("C13: harness: array cannot be reopened", err.Error())
		return
	}
	var ss []atree.Storable
	if err := a2.PopIterate(func(s atree.Storable) { ss = append(ss, s) }); err != nil {
		r.viol("C13: array PopIterate failed", err.Error())
		return
	}
	got := make([]uint64, len(ss))
	for i, s := range ss {
		got[len(ss)-1-i] = itIdentStorable(st2, s)
	}
	if !r.cmpSeq("array PopIterate (reversed)", "reverse index order", got, want) {
		return
	}
	if a2.Count() != 0 {
		r.viol("C13: array not empty after PopIterate", fmt.Sprint(a2.Count()))
	}
	k := 0
	_ = a2.IterateReadOnly(func(atree.Value) (bool, error) { k++; return true, nil })
	if k != 0 {
		r.viol("C13: emptied array still yields elements", fmt.Sprint(k))
	}
}

// checkReadOnlyContract: mutating a nested container obtained from a read-only iterator is
// refused with ReadOnlyIteratorElementMutationError and reported through the callback; the
// enumeration itself goes on unaffected.  Runs in a scratch storage over the committed state.
func (r *itArr) checkReadOnlyContract() {
	var kids []int
	for i, v := range r.shadow {
		if v.kind >= 3 {
			kids = append(kids, i)
		}
	}
	if len(kids) == 0 {
		return
	}
	want := r.want()
	target := map[int]bool{}
	for k := 0; k < 3; k++ {
		target[kids[r.rng.Intn(len(kids))]] = true
	}
	st2 := newStorage(r.base)
	a2, err := atree.NewArrayWithRootID(st2, r.arr.SlabID())
	if err != nil {
		r.viol("C13: harness: array cannot be reopened", err.Error())
		return
	}
	variant := r.rng.Intn(4)
	cbCalls := 0
	var cbVal atree.Value
	mutCb := func(v atree.Value) { cbCalls++; cbVal = v }
	var got []uint64
	lo, hi := uint64(0), uint64(len(want))
	fn := func(v atree.Value) (bool, error) {
		i := int(lo) + len(got)
		id, _ := itIdent(v)
		got = append(got, id)
		if target[i] {
			r.rep.Event("readonly_child_mutation_attempts")
			before := cbCalls
			var merr error
			switch c := v.(type) {
			case *atree.Array:
				switch r.rng.Intn(3) {
				case 0:
					merr = c.Append(testutils.Uint64Value(7))
				case 1:
					_, merr = c.Set(0, testutils.Uint64Value(r.shadow[i].carr[0]))
				default:
					if c.Count() > 1 {
						_, merr = c.Remove(c.Count() - 1)
					} else {
						merr = c.Insert(1, testutils.Uint64Value(8))
					}
				}
			case *atree.OrderedMap:
				if r.rng.Bool() {
					_, merr = c.Set(testutils.CompareValue, testutils.GetHashInput, testutils.Uint64Value(1<<40), testutils.Uint64Value(1))
				} else {
					_, _, merr = c.Remove(testutils.CompareValue, testutils.GetHashInput, testutils.Uint64Value(0))
				}
			default:
				r.viol("C13: read-only iteration yields a scalar where a container is stored", fmt.Sprint(i))
				return false, nil
			}
			if merr == nil || !errors.As(merr, &itErrMut) {
				r.viol("C13: mutating a container obtained from a read-only array iterator was not refused with ReadOnlyIteratorElementMutationError",
					fmt.Sprintf("index %d variant %d: %v", i, variant, merr))
				return false, nil
			}
			if variant != 1 {
				if cbCalls != before+1 || cbVal != v {
					r.viol("C13: mutation callback of the read-only array iterator not invoked exactly once with the mutated element",
						fmt.Sprintf("index %d variant %d: calls %d", i, variant, cbCalls-before))
					return false, nil
				}
			}
		}
		return len(got) <= len(want)+8, nil
	}
	switch variant {
	case 0:
		r.rep.Op("array:IterateReadOnlyWithMutationCallback(mutation)")
		err = a2.IterateReadOnlyWithMutationCallback(fn, mutCb)
	case 1:
		r.rep.Op("array:IterateReadOnly(mutation)")
		err = a2.IterateReadOnly(fn)
	case 2:
		r.rep.Op("array:ReadOnlyIteratorWithMutationCallback+Next(mutation)")
		var it atree.ArrayIterator
		it, err = a2.ReadOnlyIteratorWithMutationCallback(mutCb)
		if err == nil {
			err = itDrainArr(it, fn)
		}
	default:
		r.rep.Op("array:IterateReadOnlyRangeWithMutationCallback(mutation)")
		k := kids[r.rng.Intn(len(kids))]
		lo = uint64(r.rng.Intn(k + 1))
		hi = uint64(k + 1 + r.rng.Intn(len(want)-k))
		err = a2.IterateReadOnlyRangeWithMutationCallback(lo, hi, fn, mutCb)
	}
	if r.failed {
		return
	}
	if err != nil {
		r.viol("C13: read-only array iteration failed after a refused child mutation", err.Error())
		return
	}
	r.cmpSeq("read-only array iteration with refused child mutations", "index order", got, want[lo:hi])
}

// overwritePass: overwrite the current element inside a mutable iteration.
func (r *itArr) overwritePass(mode int) {
	if r.failed {
		return
	}
	n := len(r.shadow)
	if n == 0 {
		return
	}
	want := r.want()
	lo, hi := 0, n
	variant := r.rng.Intn(3)
	if variant == 2 {
		lo = r.rng.Intn(n)
		hi = lo + 1 + r.rng.Intn(n-lo)
	}
	dens := []int{100, 40, 10}[r.rng.Intn(3)]
	inl := r.inl()
	r.rec.Log = r.rec.Log[:0]
	var got []uint64
	var olds []atree.Storable
	splits, merges := 0, 0
	fn := func(v atree.Value) (bool, error) {
		i := lo + len(got)
		id, _ := itIdent(v)
		got = append(got, id)
		if i < n && r.rng.Chance(dens) {
			var nv *itVal
			switch mode {
			case 0: // grow: slabs split
				nv = r.strVal(inl-r.rng.Intn(inl/3+1), inl)
			case 1: // shrink: slabs merge
				if r.rng.Bool() {
					nv = r.uintVal()
				} else {
					nv = r.strVal(3+r.rng.Intn(6), inl)
				}
			default:
				nv = r.newVal(inl, false)
				if nv.kind == 2 {
					nv = r.strVal(inl, inl)
				}
			}
			alloc := r.base.LastIndex(r.addr)
			rm := r.removesInLog()
			old, err := r.arr.Set(uint64(i), nv.v)
			if err != nil {
				r.viol("C13: overwriting the current element during mutable array iteration failed", fmt.Sprintf("index %d: %v", i, err))
				return false, nil
			}
			if oid := itIdentStorable(r.st, old); oid != r.shadow[i].ident {
				r.viol("C13: overwriting the current element during mutable array iteration returned a different previous element",
					fmt.Sprintf("index %d: got %d want %d", i, oid, r.shadow[i].ident))
				return false, nil
			}
			olds = append(olds, old)
			r.shadow[i] = nv
			r.rep.Event("in_iteration_overwrites")
			if r.base.LastIndex(r.addr) != alloc {
				splits++
				r.rep.Event("in_iteration_overwrites_with_split")
			}
			if r.removesInLog() != rm {
				merges++
				r.rep.Event("in_iteration_overwrites_with_merge")
			}
		}
		return len(got) <= n+8, nil
	}
	var err error
	switch variant {
	case 0:
		r.rep.Op("array:Iterate(overwrite current)")
		err = r.arr.Iterate(fn)
	case 1:
		r.rep.Op("array:Iterator+Next(overwrite current)")
		var it atree.ArrayIterator
		it, err = r.arr.Iterator()
		if err == nil {
			err = itDrainArr(it, fn)
		}
	default:
		r.rep.Op("array:IterateRange(overwrite current)")
		err = r.arr.IterateRange(uint64(lo), uint64(hi), fn)
	}
	if r.failed {
		return
	}
	if err != nil {
		r.viol("C13: mutable array iteration failed while the current element was overwritten", err.Error())
		return
	}
	if !r.cmpSeq("mutable array iteration with overwrites of the current element", "index order (no skip, no repeat)", got, want[lo:hi]) {
		return
	}
	for _, o := range olds {
		r.dispose(o)
	}
	r.afterMutationCheck("in-iteration overwrites")
}

// afterMutationCheck: content equals the shadow (children included) and the tree is well formed.
func (r *itArr) afterMutationCheck(what string) {
	if r.failed {
		return
	}
	want := r.want()
	var vs []atree.Value
	if err := r.arr.IterateReadOnly(func(v atree.Value) (bool, error) { vs = append(vs, v); return len(vs) <= len(want)+8, nil }); err != nil {
		r.viol("C13: array iteration failed after "+what, err.Error())
		return
	}
	if !r.cmpSeq("array content after "+what, "index order", itIdents(vs), want) {
		return
	}
	for i, v := range vs {
		if d := itChildDiff(v, r.shadow[i]); d != "" {
			r.viol("C13: nested container content wrong after "+what, fmt.Sprintf("index %d: %s", i, d))
			return
		}
	}
	if err := atree.VerifyArray(r.arr, r.addr, itTI(r.ti), testutils.CompareTypeInfo, testutils.GetHashInput, true); err != nil {
		r.viol("C13: array is not well formed after "+what, err.Error())
	}
}

func (r *itArr) reloadCheck(what string) {
	if r.failed || !r.commit() {
		return
	}
	st2 := newStorage(r.base)
	a2, err := atree.NewArrayWithRootID(st2, r.arr.SlabID())
	if err != nil {
		r.viol("C13: array cannot be reopened after "+what, err.Error())
		return
	}
	want := r.want()
	var vs []atree.Value
	if err := a2.IterateReadOnly(func(v atree.Value) (bool, error) { vs = append(vs, v); return len(vs) <= len(want)+8, nil }); err != nil {
		r.viol("C13: reloaded array iteration failed after "+what, err.Error())
		return
	}
	if !r.cmpSeq("reloaded array content after "+what, "index order", itIdents(vs), want) {
		return
	}
	for i, v := range vs {
		if d := itChildDiff(v, r.shadow[i]); d != "" {
			r.viol("C13: nested change not visible after commit and reload ("+what+")", fmt.Sprintf("index %d: %s", i, d))
			return
		}
	}
}

func itSortedKeys(m map[uint64]uint64) []uint64 {
	ks := make([]uint64, 0, len(m))
	for k := range m {
		ks = append(ks, k)
	}
	sort.Slice(ks, func(i, j int) bool { return ks[i] < ks[j] })
	return ks
}

// mutateChild changes a nested container through the handle the iterator yielded.
func (e *itEnv) mutateChild(v atree.Value, sh *itVal, inl int) error {
	rng := e.rng
	switch c := v.(type) {
	case *atree.Array:
		if sh.kind != 3 || c.Count() != uint64(len(sh.carr)) {
			return fmt.Errorf("the yielded container is not the one stored at this position")
		}
		was := c.Inlined()
		switch rng.Pick(30, 25, 25, 20) {
		case 0: // a few appends
			for k := 1 + rng.Intn(3); k > 0; k-- {
				x := e.childNum()
				if err := c.Append(testutils.Uint64Value(x)); err != nil {
					return err
				}
				sh.carr = append(sh.carr, x)
			}
		case 1: // grow past the inline limit
			for k := inl/3 + rng.Intn(inl/3+2); k > 0; k-- {
				x := e.childNum()
				i := uint64(1 + rng.Intn(len(sh.carr)))
				if err := c.Insert(i, testutils.Uint64Value(x)); err != nil {
					return err
				}
				sh.carr = append(sh.carr, 0)
				copy(sh.carr[i+1:], sh.carr[i:])
				sh.carr[i] = x
			}
		case 2: // shrink back to (almost) nothing
			keep := 1 + rng.Intn(3)
			for len(sh.carr) > keep {
				i := uint64(1 + rng.Intn(len(sh.carr)-1))
				if _, err := c.Remove(i); err != nil {
					return err
				}
				sh.carr = append(sh.carr[:i], sh.carr[i+1:]...)
			}
		default:
			if len(sh.carr) > 1 {
				i := 1 + rng.Intn(len(sh.carr)-1)
				x := e.childNum()
				if _, err := c.Set(uint64(i), testutils.Uint64Value(x)); err != nil {
					return err
				}
				sh.carr[i] = x
			}
		}
		if was && !c.Inlined() {
			e.rep.Event("child_left_parent_slab")
		} else if !was && c.Inlined() {
			e.rep.Event("child_back_inline")
		}
	case *atree.OrderedMap:
		if sh.kind != 4 || c.Count() != uint64(len(sh.cmap)) {
			return fmt.Errorf("the yielded container is not the one stored at this position")
		}
		was := c.Inlined()
		set := func(k, x uint64) error {
			_, err := c.Set(testutils.CompareValue, testutils.GetHashInput, testutils.Uint64Value(k), testutils.Uint64Value(x))
			if err == nil {
				sh.cmap[k] = x
			}
			return err
		}
		switch rng.Pick(30, 25, 25, 20) {
		case 0:
			for k := 1 + rng.Intn(3); k > 0; k-- {
				if err := set(sh.ckeys, e.childNum()); err != nil {
					return err
				}
				sh.ckeys++
			}
		case 1:
			for k := inl/6 + rng.Intn(inl/6+2); k > 0; k-- {
				if err := set(sh.ckeys, e.childNum()); err != nil {
					return err
				}
				sh.ckeys++
			}
		case 2:
			keep := 1 + rng.Intn(3)
			for _, k := range itSortedKeys(sh.cmap) { // fixed order: histories must be reproducible
				if len(sh.cmap) <= keep {
					break
				}
				if k == 0 {
					continue
				}
				if _, _, err := c.Remove(testutils.CompareValue, testutils.GetHashInput, testutils.Uint64Value(k)); err != nil {
					return err
				}
				delete(sh.cmap, k)
			}
		default:
			for _, k := range itSortedKeys(sh.cmap) {
				if k != 0 {
					if err := set(k, e.childNum()); err != nil {
						return err
					}
					break
				}
			}
		}
		if was && !c.Inlined() {
			e.rep.Event("child_left_parent_slab")
		} else if !was && c.Inlined() {
			e.rep.Event("child_back_inline")
		}
	default:
		return fmt.Errorf("the iterator yielded %T where a container is stored", v)
	}
	return nil
}

func (r *itArr) nestedPass() {
	if r.failed {
		return
	}
	// make sure there is something to mutate
	nk := 0
	for _, v := range r.shadow {
		if v.kind >= 3 {
			nk++
		}
	}
	for k := nk; k < 3 && !r.failed; k++ {
		if r.rng.Bool() {
			r.insert(r.pos(uint64(len(r.shadow))), r.childArr(r.inl()))
		} else {
			r.insert(r.pos(uint64(len(r.shadow))), r.childMap(r.inl()))
		}
	}
	if r.failed {
		return
	}
	n := len(r.shadow)
	want := r.want()
	dens := []int{100, 50, 20}[r.rng.Intn(3)]
	var got []uint64
	fn := func(v atree.Value) (bool, error) {
		i := len(got)
		id, _ := itIdent(v)
		got = append(got, id)
		if i < n && r.shadow[i].kind >= 3 && r.rng.Chance(dens) {
			r.rep.Event("in_iteration_child_mutations")
			if err := r.mutateChild(v, r.shadow[i], r.inl()); err != nil {
				r.viol("C13: mutating a nested container through the handle yielded by a mutable array iterator failed", fmt.Sprintf("index %d: %v", i, err))
				return false, nil
			}
		}
		return len(got) <= n+8, nil
	}
	var err error
	if r.rng.Bool() {
		r.rep.Op("array:Iterate(mutate nested)")
		err = r.arr.Iterate(fn)
	} else {
		r.rep.Op("array:Iterator+Next(mutate nested)")
		var it atree.ArrayIterator
		it, err = r.arr.Iterator()
		if err == nil {
			err = itDrainArr(it, fn)
		}
	}
	if r.failed {
		return
	}
	if err != nil {
		r.viol("C13: mutable array iteration failed while nested containers were mutated", err.Error())
		return
	}
	if !r.cmpSeq("mutable array iteration with nested mutations", "index order (no skip, no repeat)", got, want) {
		return
	}
	r.afterMutationCheck("nested mutations during iteration")
	r.reloadCheck("nested mutations during iteration")
}

func (r *itArr) checkpoint() {
	if r.failed {
		return
	}
	r.cp++
	if !r.commit() {
		return
	}
	// everything in memory for the fully loaded flavours
	for _, id := range r.base.SortedIDs() {
		if _, _, err := r.st.Retrieve(id); err != nil {
			r.viol("C13: harness: retrieve failed", err.Error())
			return
		}
	}
	t := r.dumpTree()
	if t == nil {
		return
	}
	r.rep.Event("checkpoints_array")
	r.rep.Event(fmt.Sprintf("array_height_%d", t.height))
	if len(t.leaves) > 1 {
		r.rep.Event("checkpoints_multi_slab")
		r.rep.Distinct(fmt.Sprintf("A T%d h%d leaves%d n%d", r.T, t.height, len(t.leaves), len(r.shadow)))
	}
	r.checkFull()
	if !r.failed {
		r.checkRanges(t)
	}
	if !r.failed {
		r.checkInvalidRanges()
	}
	if !r.failed {
		r.checkLoaded(t)
	}
	if !r.failed {
		r.checkPopOnClone()
	}
	if !r.failed {
		r.checkReadOnlyContract()
	}
}

func itPickSize(rng *Rng, small, mid, large, huge int) int {
	switch rng.Pick(15, 35, 35, 15) {
	case 0:
		return rng.Intn(small + 1)
	case 1:
		return small + 1 + rng.Intn(mid-small)
	case 2:
		return mid + rng.Intn(large-mid)
	default:
		return large + rng.Intn(huge-large+1)
	}
}

func (r *itArr) run() {
	target := itPickSize(r.rng, 12, 100, 600, 3000)
	r.checkpoint() // empty
	r.growTo(target / 3)
	r.checkpoint()
	r.growTo(2 * target / 3)
	r.checkpoint()
	r.growTo(target)
	r.checkpoint()
	r.churn(max(10, target/5))
	r.checkpoint()
	r.overwritePass(r.rng.Intn(3))
	r.checkpoint()
	r.churn(max(10, target/10))
	r.nestedPass()
	r.checkpoint()
	r.overwritePass(0)
	r.shrinkTo(target / 2)
	r.checkpoint()
	r.overwritePass(1)
	r.checkpoint()
	r.shrinkTo(min(len(r.shadow), r.rng.Intn(13)))
	r.nestedPass()
	r.checkpoint()
	r.shrinkTo(0)
	r.checkpoint()
	r.growTo(1 + r.rng.Intn(12))
	r.overwritePass(2)
	r.checkpoint()
	if r.failed {
		return
	}
	// finally the real array is emptied by PopIterate
	want := r.want()
	var ss []atree.Storable
	if err := r.arr.PopIterate(func(s atree.Storable) { ss = append(ss, s) }); err != nil {
		r.viol("C13: array PopIterate failed", err.Error())
		return
	}
	got := make([]uint64, len(ss))
	for i, s := range ss {
		got[len(ss)-1-i] = itIdentStorable(r.st, s)
	}
	r.cmpSeq("array PopIterate (reversed)", "reverse index order", got, want)
	for _, s := range ss {
		r.dispose(s)
	}
	r.shadow = nil
	if !r.failed {
		if _, err := atree.CheckStorageHealth(r.st, 1); err != nil {
			r.viol("C13: harness: storage health after the final PopIterate", err.Error())
		}
	}
}

// ======================================================================================
// maps
// ======================================================================================

// itBuilder: table-driven digests, or (inner != nil) the default digester with every digest
// vector recorded so that the canonical order can be computed outside the library.
//
// With rec != nil (mode "pooled") the digester handed to the library is the library's own pooled
// digester, untouched (nothing computed or cached in it beforehand); the digest vector for the
// canonical order is read from a SECOND pooled digester obtained from an identically seeded default
// builder, which goes straight back to the library's pool (alternately before / after the
// library's digester is taken out, so that both pool orders occur).
type itBuilder struct {
	table map[uint64][mpeLevels]uint64
	inner atree.DigesterBuilder
	rec   atree.DigesterBuilder
	calls uint64
}

func (b *itBuilder) SetSeed(k0, k1 uint64) {
	if b.inner != nil {
		b.inner.SetSeed(k0, k1)
	}
	if b.rec != nil {
		b.rec.SetSeed(k0, k1)
	}
}

func (b *itBuilder) record(hip atree.HashInputProvider, v atree.Value, id uint64) error {
	dg, err := b.rec.Digest(hip, v)
	if err != nil {
		return err
	}
	defer atree.VerifPutDigester(dg)
	var d [mpeLevels]uint64
	for l := uint(0); l < mpeLevels; l++ {
		x, err := dg.Digest(l)
		if err != nil {
			return err
		}
		d[l] = uint64(x)
	}
	b.table[id] = d
	return nil
}

func (b *itBuilder) Digest(hip atree.HashInputProvider, v atree.Value) (atree.Digester, error) {
	id, _, ok := mpeIdent(v)
	if !ok {
		return nil, fmt.Errorf("iter digester: value %T has no key identity", v)
	}
	if b.inner == nil {
		d, ok := b.table[id]
		if !ok {
			return nil, fmt.Errorf("iter digester: key %d has no digests", id)
		}
		return &mpeDigester{d: d}, nil
	}
	if b.rec != nil {
		b.calls++
		_, known := b.table[id]
		if !known && b.calls%2 == 0 {
			if err := b.record(hip, v, id); err != nil {
				return nil, err
			}
			known = true
		}
		dg, err := b.inner.Digest(hip, v)
		if err != nil {
			return nil, err
		}
		if !known {
			if err := b.record(hip, v, id); err != nil {
				atree.VerifPutDigester(dg)
				return nil, err
			}
		}
		return dg, nil
	}
	dg, err := b.inner.Digest(hip, v)
	if err != nil {
		return nil, err
	}
	if _, ok := b.table[id]; !ok {
		var d [mpeLevels]uint64
		for l := uint(0); l < mpeLevels; l++ {
			x, err := dg.Digest(l)
			if err != nil {
				return nil, err
			}
			d[l] = uint64(x)
		}
		b.table[id] = d
	}
	return dg, nil
}

type itKey struct {
	id  uint64
	val atree.Value
	ksz uint32
	grp int // pooled mode: index of the hash-input group (level-0 digest class), -1 = ordinary hash input
}

// itPooled: state of the mode "pooled" — the library's DEFAULT (pooled) digester with REAL digest
// collisions forced through the HashInputProvider alone.  CircleHash64 (level 0) multiplies
// (word ^ pi1) into its state, so a hash input whose first word is pi1 zeroes the state whatever
// the seed and the second word are: all inputs  pi1 | X | tail  share one level-0 digest per tail
// (inputs of 9..16 bytes starting with pi1: digest 0); the same holds for a leading 64-byte block
// pi1 X1 pi2 X2 pi3 X3 pi4 X4.  Levels 1..3 (BLAKE3 of the input) then differ unless two keys have
// the SAME hash input, which gives collisions on every level and a list at the bottom.
type itPooled struct {
	groups  [][]byte       // group g: hash input = prefix(X) | groups[g]  (form by length, see message)
	forms   []int          // 0: 9..16 bytes, 1: 17..32 bytes, 2: > 64 bytes, 3: > 80 bytes
	l0      []uint64       // level-0 digest of group g as computed by the library's digester (groups may share it)
	live    map[uint64]int // live keys per level-0 digest (kept below the collision limit)
	xpool   []uint64       // X values shared by several keys: identical hash inputs
	pPlain  int
	pSame   int
	scratch bool
	msg     map[uint64][]byte
}

type itEntry struct {
	k   *itKey
	v   *itVal
	seq uint64
}

type itMap struct {
	*itEnv
	m       *atree.OrderedMap
	b       *itBuilder
	hip     atree.HashInputProvider
	pl      *itPooled
	mode    string
	alpha   [mpeLevels][]uint64
	shadow  map[uint64]*itEntry
	live    []*itKey
	livePos map[uint64]int
	seq     uint64
	keyCtr  uint64
	ti      uint64
	maxH    int
	kinds   map[string]bool
}

func (r *itMap) newKey() *itKey {
	rng := r.rng
	r.keyCtr++
	bases := []uint64{0, 0, 1 << 24, 1 << 40}
	id := bases[rng.Intn(len(bases))] + r.keyCtr
	k := &itKey{id: id, grp: -1}
	if r.pl != nil {
		// keys of nested maps are small numbers: keep the two key spaces apart, the provider is
		// also applied to nested maps by VerifyMap
		id += itPooledKeyBase
		k.id = id
		r.pooledAssign(k)
	}
	maxKey := int(r.cfg[5])
	if rng.Chance(55) {
		v := testutils.Uint64Value(id)
		k.val, k.ksz = v, v.ByteSize()
	} else {
		head := fmt.Sprintf("%d|", id)
		padMax := maxKey - 2 - len(head)
		pad := 0
		if padMax > 0 {
			switch rng.Pick(50, 35, 15) {
			case 0:
				pad = rng.Intn(min(padMax, 6) + 1)
			case 1:
				pad = rng.Intn(padMax + 1)
			default:
				pad = padMax
			}
		}
		v := testutils.NewStringValue(head + strings.Repeat("k", pad))
		k.val, k.ksz = v, v.ByteSize()
	}
	if r.b.inner == nil {
		var d [mpeLevels]uint64
		for l := 0; l < mpeLevels; l++ {
			if r.alpha[l] == nil {
				d[l] = rng.U64()
			} else {
				d[l] = r.alpha[l][rng.Intn(len(r.alpha[l]))]
			}
		}
		r.b.table[id] = d
	}
	return k
}

func (r *itMap) setupDigests(target int) {
	rng := r.rng
	r.b = &itBuilder{table: map[uint64][mpeLevels]uint64{}}
	small := func() []uint64 { return mpeAlphabet(rng, 1+rng.Intn(4)) }
	switch rng.Pick(14, 34, 16, 12, 24) {
	case 0: // every level has 1..4 digests: few huge groups, lists at the bottom
		r.mode = "tiny"
		for l := 0; l < mpeLevels; l++ {
			r.alpha[l] = small()
		}
	case 1: // many level-0 digests, each shared by a few keys
		r.mode = "mix"
		g := []int{2, 3, 6}[rng.Intn(3)]
		r.alpha[0] = mpeAlphabet(rng, max(2, target/g))
		for l := 1; l < mpeLevels; l++ {
			r.alpha[l] = small()
		}
		if rng.Chance(40) {
			r.alpha[3] = nil
		}
	case 2: // deep groups ending in lists
		r.mode = "deep"
		r.alpha[0] = mpeAlphabet(rng, max(1, target/8))
		r.alpha[1] = mpeAlphabet(rng, 1)
		r.alpha[2] = mpeAlphabet(rng, 1+rng.Intn(2))
		r.alpha[3] = mpeAlphabet(rng, 1+rng.Intn(2))
	case 3:
		r.mode = "nocoll"
	default:
		r.mode = "default"
		r.b.inner = atree.NewDefaultDigesterBuilder()
	}
}

const (
	itPooledKeyBase = uint64(1) << 22
	itPi1           = uint64(0x13198A2E03707344)
	itPi2           = uint64(0xA4093822299F31D0)
	itPi3           = uint64(0x082EFA98EC4E6C89)
	itPi4           = uint64(0x452821E638D01377)
	itPooledMaxLive = 200 // per level-0 digest; the collision limit is 255
)

func (r *itMap) setupPooled(target int) {
	rng := r.rng
	r.mode = "pooled"
	r.b = &itBuilder{table: map[uint64][mpeLevels]uint64{}, inner: atree.NewDefaultDigesterBuilder(), rec: atree.NewDefaultDigesterBuilder()}
	pl := &itPooled{msg: map[uint64][]byte{}, scratch: rng.Bool()}
	g := []int{2, 3, 6, 20, 60}[rng.Pick(25, 25, 20, 20, 10)]
	ng := max(1, target/g)
	if rng.Chance(15) {
		ng = 1 + rng.Intn(3)
	}
	seen := map[string]bool{}
	for len(pl.groups) < ng {
		form := rng.Pick(20, 55, 15, 10)
		var tail []byte
		if form > 0 {
			tail = make([]byte, 1+rng.Intn(16))
			for i := range tail {
				tail[i] = byte(rng.Intn(256))
			}
			if rng.Chance(50) { // tails that differ in one byte only
				tail[len(tail)-1] = byte(len(pl.groups))
			}
		}
		key := fmt.Sprint(form, tail)
		if form == 0 {
			key = "0" // every input of this form has digest 0: one group
		}
		if seen[key] {
			continue
		}
		seen[key] = true
		pl.groups = append(pl.groups, tail)
		pl.forms = append(pl.forms, form)
	}
	// the level-0 digest of a group does not depend on the seed or on X: ask the library's digester
	pl.live = map[uint64]int{}
	probe := atree.NewDefaultDigesterBuilder()
	probe.SetSeed(1, 1)
	for g := range pl.groups {
		var d [2]uint64
		for j := range d {
			m := pl.message(g, uint64(j)*0x9e3779b97f4a7c15+1, true)
			dg, err := probe.Digest(func(atree.Value, []byte) ([]byte, error) { return m, nil }, testutils.Uint64Value(0))
			must(err)
			x, err := dg.Digest(0)
			must(err)
			d[j] = uint64(x)
			atree.VerifPutDigester(dg)
		}
		if d[0] != d[1] {
			r.rep.Event("pooled_group_without_forced_collision")
			d[0] = ^uint64(g) // no common digest: nothing to limit
		}
		pl.l0 = append(pl.l0, d[0])
	}
	for k := 1 + rng.Intn(4); k > 0; k-- {
		pl.xpool = append(pl.xpool, uint64(rng.Intn(1<<16)))
	}
	pl.pPlain = []int{0, 10, 30, 60}[rng.Intn(4)]
	pl.pSame = []int{0, 5, 15, 40}[rng.Intn(4)]
	r.pl = pl
	r.hip = r.pooledHip
}

// pooledAssign fixes the hash input of a new key.
func (r *itMap) pooledAssign(k *itKey) {
	rng, pl := r.rng, r.pl
	if rng.Chance(pl.pPlain) {
		return
	}
	g := rng.Intn(len(pl.groups))
	if rng.Chance(30) { // prefer a few groups: some become large (external)
		g = rng.Intn(min(len(pl.groups), 3))
	}
	if pl.live[pl.l0[g]] >= itPooledMaxLive {
		return
	}
	x := k.id
	if rng.Chance(pl.pSame) {
		x = pl.xpool[rng.Intn(len(pl.xpool))]
	}
	pl.msg[k.id] = pl.message(g, x, x == k.id)
	pl.live[pl.l0[g]]++
	k.grp = g
}

// message builds the hash input of group g for the free word x.
func (pl *itPooled) message(g int, x uint64, own bool) []byte {
	le := func(b []byte, w uint64) []byte {
		return append(b, byte(w), byte(w>>8), byte(w>>16), byte(w>>24), byte(w>>32), byte(w>>40), byte(w>>48), byte(w>>56))
	}
	var m []byte
	switch pl.forms[g] {
	case 0: // 9..16 bytes
		m = le(le(nil, itPi1), x)
		m = m[:9+int(x%8)]
		if own {
			m = m[:16]
		}
	case 1:
		m = le(le(nil, itPi1), x)
	case 2:
		m = le(le(le(le(le(le(le(le(nil, itPi1), x), itPi2), x^1), itPi3), x^2), itPi4), x^3)
	default:
		m = le(le(le(le(le(le(le(le(nil, itPi1), x), itPi2), x^1), itPi3), x^2), itPi4), x^3)
		m = le(le(m, itPi1), x^4)
	}
	return append(m, pl.groups[g]...)
}

func (r *itMap) pooledHip(v atree.Value, buf []byte) ([]byte, error) {
	if id, _, ok := mpeIdent(v); ok {
		if m, ok := r.pl.msg[id]; ok {
			if r.pl.scratch && len(m) <= len(buf) {
				return buf[:copy(buf, m)], nil
			}
			return m, nil
		}
	}
	return testutils.GetHashInput(v, buf)
}

func (r *itMap) vinl(k *itKey) int { return int(atree.VerifMaxInlineMapValueSize(k.ksz)) }

func (r *itMap) addLive(k *itKey) {
	r.livePos[k.id] = len(r.live)
	r.live = append(r.live, k)
}

func (r *itMap) delLive(k *itKey) {
	p := r.livePos[k.id]
	last := r.live[len(r.live)-1]
	r.live[p] = last
	r.livePos[last.id] = p
	r.live = r.live[:len(r.live)-1]
	delete(r.livePos, k.id)
}

func (r *itMap) setNew() {
	k := r.newKey()
	v := r.newVal(r.vinl(k), true)
	old, err := r.m.Set(testutils.CompareValue, r.hip, k.val, v.v)
	if err != nil {
		r.viol("C13: harness: map insert failed", err.Error())
		return
	}
	if old != nil {
		r.viol("C13: harness: insert of a fresh key returned a previous value", fmt.Sprint(k.id))
		return
	}
	if v.kind >= 3 {
		v.v = nil
	}
	r.seq++
	r.shadow[k.id] = &itEntry{k: k, v: v, seq: r.seq}
	r.addLive(k)
}

func (r *itMap) setExisting() {
	if len(r.live) == 0 {
		return
	}
	k := r.live[r.rng.Intn(len(r.live))]
	v := r.newVal(r.vinl(k), true)
	old, err := r.m.Set(testutils.CompareValue, r.hip, k.val, v.v)
	if err != nil {
		r.viol("C13: harness: map update failed", err.Error())
		return
	}
	if v.kind >= 3 {
		v.v = nil
	}
	r.shadow[k.id].v = v
	r.dispose(old)
}

func (r *itMap) removeOne() {
	if len(r.live) == 0 {
		return
	}
	k := r.live[r.rng.Intn(len(r.live))]
	_, vs, err := r.m.Remove(testutils.CompareValue, r.hip, k.val)
	if err != nil {
		r.viol("C13: harness: map remove failed", err.Error())
		return
	}
	delete(r.shadow, k.id)
	r.delLive(k)
	if k.grp >= 0 {
		r.pl.live[r.pl.l0[k.grp]]--
	}
	r.dispose(vs)
}

func (r *itMap) growTo(n int) {
	for len(r.shadow) < n && !r.failed {
		r.setNew()
	}
}

func (r *itMap) shrinkTo(n int) {
	for len(r.shadow) > n && !r.failed {
		r.removeOne()
	}
}

func (r *itMap) churn(k int) {
	for ; k > 0 && !r.failed; k-- {
		switch r.rng.Pick(35, 30, 35) {
		case 0:
			r.setNew()
		case 1:
			r.removeOne()
		default:
			r.setExisting()
		}
	}
}

// order: canonical order = lexicographic by digest vector, ties by insertion order
func (r *itMap) order() []*itEntry {
	out := make([]*itEntry, 0, len(r.shadow))
	for _, e := range r.shadow {
		out = append(out, e)
	}
	tb := r.b.table
	sort.Slice(out, func(i, j int) bool {
		a, b := tb[out[i].k.id], tb[out[j].k.id]
		for l := 0; l < mpeLevels; l++ {
			if a[l] != b[l] {
				return a[l] < b[l]
			}
		}
		return out[i].seq < out[j].seq
	})
	return out
}

func itKeysOf(es []*itEntry) []uint64 {
	out := make([]uint64, len(es))
	for i, e := range es {
		out[i] = e.k.id
	}
	return out
}

func itValsOf(es []*itEntry) []uint64 {
	out := make([]uint64, len(es))
	for i, e := range es {
		out[i] = e.v.ident
	}
	return out
}

func itKeyIdents(ks []atree.Value) []uint64 {
	out := make([]uint64, len(ks))
	for i, k := range ks {
		id, _, ok := mpeIdent(k)
		if !ok {
			id = ^uint64(0)
		}
		out[i] = id
	}
	return out
}

// ---------- flavours ----------

type itMapFlavour struct {
	name    string
	keys    bool
	vals    bool
	mutable bool
	run     func(m *atree.OrderedMap, cb func(k, v atree.Value) (bool, error)) error
}

func itDrainMap(it atree.MapIterator, mode int, cb func(k, v atree.Value) (bool, error)) error {
	for {
		var k, v atree.Value
		var err error
		switch mode {
		case 0:
			k, v, err = it.Next()
		case 1:
			k, err = it.NextKey()
		default:
			v, err = it.NextValue()
		}
		if err != nil {
			return err
		}
		if (mode != 2 && k == nil) || (mode == 2 && v == nil) {
			k2, v2, err2 := it.Next()
			if err2 != nil || k2 != nil || v2 != nil {
				return fmt.Errorf("iterator yields %v/%v/%v after reporting the end", k2, v2, err2)
			}
			return nil
		}
		resume, err := cb(k, v)
		if err != nil {
			return err
		}
		if !resume {
			return nil
		}
	}
}

func (r *itMap) flavours() []itMapFlavour {
	cmp, hip := atree.ValueComparator(testutils.CompareValue), r.hip
	mutCb := func(atree.Value) {
		r.viol("C13: read-only map iteration reported a mutation although nothing was mutated", "")
	}
	onlyK := func(cb func(k, v atree.Value) (bool, error)) atree.MapElementIterationFunc {
		return func(k atree.Value) (bool, error) { return cb(k, nil) }
	}
	onlyV := func(cb func(k, v atree.Value) (bool, error)) atree.MapElementIterationFunc {
		return func(v atree.Value) (bool, error) { return cb(nil, v) }
	}
	type cbT = func(k, v atree.Value) (bool, error)
	mk := func(name string, mode int, mutable bool, get func(m *atree.OrderedMap) (atree.MapIterator, error)) itMapFlavour {
		suffix := []string{"+Next", "+NextKey", "+NextValue"}[mode]
		return itMapFlavour{name + suffix, mode != 2, mode != 1, mutable, func(m *atree.OrderedMap, cb cbT) error {
			it, err := get(m)
			if err != nil {
				return err
			}
			if it.CanMutate() != mutable {
				r.viol("C13: "+name+" reports the wrong CanMutate()", fmt.Sprint(it.CanMutate()))
			}
			return itDrainMap(it, mode, cb)
		}}
	}
	var fs []itMapFlavour
	for mode := 0; mode < 3; mode++ {
		fs = append(fs,
			mk("Iterator", mode, true, func(m *atree.OrderedMap) (atree.MapIterator, error) { return m.Iterator(cmp, hip) }),
			mk("ReadOnlyIterator", mode, false, func(m *atree.OrderedMap) (atree.MapIterator, error) { return m.ReadOnlyIterator() }),
			mk("ReadOnlyIteratorWithMutationCallback", mode, false, func(m *atree.OrderedMap) (atree.MapIterator, error) {
				return m.ReadOnlyIteratorWithMutationCallback(mutCb, mutCb)
			}),
			mk("ReadOnlyLoadedValueIterator(all loaded)", mode, false, func(m *atree.OrderedMap) (atree.MapIterator, error) {
				return m.ReadOnlyLoadedValueIterator()
			}),
		)
	}
	fs = append(fs,
		itMapFlavour{"Iterate", true, true, true, func(m *atree.OrderedMap, cb cbT) error { return m.Iterate(cmp, hip, cb) }},
		itMapFlavour{"IterateReadOnly", true, true, false, func(m *atree.OrderedMap, cb cbT) error { return m.IterateReadOnly(cb) }},
		itMapFlavour{"IterateReadOnlyWithMutationCallback", true, true, false, func(m *atree.OrderedMap, cb cbT) error {
			return m.IterateReadOnlyWithMutationCallback(cb, mutCb, mutCb)
		}},
		itMapFlavour{"IterateKeys", true, false, true, func(m *atree.OrderedMap, cb cbT) error { return m.IterateKeys(cmp, hip, onlyK(cb)) }},
		itMapFlavour{"IterateReadOnlyKeys", true, false, false, func(m *atree.OrderedMap, cb cbT) error { return m.IterateReadOnlyKeys(onlyK(cb)) }},
		itMapFlavour{"IterateReadOnlyKeysWithMutationCallback", true, false, false, func(m *atree.OrderedMap, cb cbT) error {
			return m.IterateReadOnlyKeysWithMutationCallback(onlyK(cb), mutCb)
		}},
		itMapFlavour{"IterateValues", false, true, true, func(m *atree.OrderedMap, cb cbT) error { return m.IterateValues(cmp, hip, onlyV(cb)) }},
		itMapFlavour{"IterateReadOnlyValues", false, true, false, func(m *atree.OrderedMap, cb cbT) error { return m.IterateReadOnlyValues(onlyV(cb)) }},
		itMapFlavour{"IterateReadOnlyValuesWithMutationCallback", false, true, false, func(m *atree.OrderedMap, cb cbT) error {
			return m.IterateReadOnlyValuesWithMutationCallback(onlyV(cb), mutCb)
		}},
		itMapFlavour{"IterateReadOnlyLoadedValues(all loaded)", true, true, false, func(m *atree.OrderedMap, cb cbT) error {
			return m.IterateReadOnlyLoadedValues(cb)
		}},
	)
	return fs
}

func (r *itMap) checkFull() {
	ord := r.order()
	wantK, wantV := itKeysOf(ord), itValsOf(ord)
	n := len(ord)
	for fi, f := range r.flavours() {
		if r.failed {
			return
		}
		r.rep.Op("map:" + f.name)
		var ks, vs []atree.Value
		err := f.run(r.m, func(k, v atree.Value) (bool, error) {
			ks = append(ks, k)
			vs = append(vs, v)
			return len(ks) <= n+8, nil
		})
		if err != nil {
			r.viol("C13: map "+f.name+" failed", err.Error())
			return
		}
		if f.keys && !r.cmpSeq("map "+f.name+" (keys)", "canonical order (digest vector, then insertion)", itKeyIdents(ks), wantK) {
			return
		}
		if f.vals && !r.cmpSeq("map "+f.name+" (values)", "canonical order (digest vector, then insertion)", itIdents(vs), wantV) {
			return
		}
		if f.vals && (fi == 0 || fi == 13 || fi == 21) {
			for i, v := range vs {
				if ord[i].v.kind >= 3 {
					if d := itChildDiff(v, ord[i].v); d != "" {
						r.viol("C13: map "+f.name+" yields a nested container with the wrong content", fmt.Sprintf("position %d: %s", i, d))
						return
					}
				}
			}
		}
	}
	if r.m.Count() != uint64(n) {
		r.viol("C13: number of yielded entries differs from Count()", fmt.Sprintf("%d vs %d", n, r.m.Count()))
		return
	}
	// lookups agree with the enumeration
	step := 1
	if n > 300 {
		step = n / 150
	}
	for i := 0; i < n; i += step {
		e := ord[i]
		v, err := r.m.Get(testutils.CompareValue, r.hip, e.k.val)
		if err != nil {
			r.viol("C13: Get of an enumerated key failed", fmt.Sprintf("key %d: %v", e.k.id, err))
			return
		}
		if id, _ := itIdent(v); id != e.v.ident {
			r.viol("C13: map enumeration disagrees with Get", fmt.Sprintf("key %d: Get=%d enumerated=%d", e.k.id, id, e.v.ident))
			return
		}
		ok, err := r.m.Has(testutils.CompareValue, r.hip, e.k.val)
		if err != nil || !ok {
			r.viol("C13: Has of an enumerated key is false", fmt.Sprintf("key %d: %v", e.k.id, err))
			return
		}
	}
}

// checkMixed (mode "pooled"): one iterator object driven by a random mixture of Next / NextKey /
// NextValue, with lookups of other keys between the steps (they take digesters out of the
// library's pool and put them back while the iterator holds its position).
func (r *itMap) checkMixed() {
	ord := r.order()
	n := len(ord)
	cmp := atree.ValueComparator(testutils.CompareValue)
	for variant := 0; variant < 3 && !r.failed; variant++ {
		var it atree.MapIterator
		var err error
		name := ""
		switch variant {
		case 0:
			name = "Iterator+mixed Next/NextKey/NextValue"
			it, err = r.m.Iterator(cmp, r.hip)
		case 1:
			name = "Iterator+NextKey with lookups between the steps"
			it, err = r.m.Iterator(cmp, r.hip)
		default:
			name = "ReadOnlyIterator+mixed Next/NextKey/NextValue"
			it, err = r.m.ReadOnlyIterator()
		}
		r.rep.Op("map:" + name)
		if err != nil {
			r.viol("C13: map "+name+" failed", err.Error())
			return
		}
		for i := 0; ; i++ {
			mode := r.rng.Intn(3)
			if variant == 1 {
				mode = 1
			}
			var k, v atree.Value
			switch mode {
			case 0:
				k, v, err = it.Next()
			case 1:
				k, err = it.NextKey()
			default:
				v, err = it.NextValue()
			}
			if err != nil {
				r.viol("C13: map "+name+" failed", fmt.Sprintf("after %d of %d entries: %v", i, n, err))
				return
			}
			if (mode != 2 && k == nil) || (mode == 2 && v == nil) {
				if i != n {
					r.viol("C13: map "+name+" does not yield every element exactly once in canonical order (digest vector, then insertion)",
						fmt.Sprintf("ended after %d of %d entries", i, n))
					return
				}
				break
			}
			if i >= n {
				r.viol("C13: map "+name+" does not yield every element exactly once in canonical order (digest vector, then insertion)",
					fmt.Sprintf("yields more than the %d entries", n))
				return
			}
			if mode != 2 {
				if id, _, ok := mpeIdent(k); !ok || id != ord[i].k.id {
					r.viol("C13: map "+name+" does not yield every element exactly once in canonical order (digest vector, then insertion)",
						fmt.Sprintf("position %d of %d: key %d, expected %d", i, n, id, ord[i].k.id))
					return
				}
			}
			if mode != 1 {
				if id, _ := itIdent(v); id != ord[i].v.ident {
					r.viol("C13: map "+name+" does not yield every element exactly once in canonical order (digest vector, then insertion)",
						fmt.Sprintf("position %d of %d: value %d, expected %d", i, n, id, ord[i].v.ident))
					return
				}
			}
			if variant == 1 || r.rng.Chance(25) {
				e := ord[r.rng.Intn(n)]
				g, err := r.m.Get(cmp, r.hip, e.k.val)
				if err != nil {
					r.viol("C13: Get of an enumerated key failed", fmt.Sprintf("key %d during %s: %v", e.k.id, name, err))
					return
				}
				if id, _ := itIdent(g); id != e.v.ident {
					r.viol("C13: map enumeration disagrees with Get", fmt.Sprintf("key %d during %s: Get=%d enumerated=%d", e.k.id, name, id, e.v.ident))
					return
				}
			}
		}
	}
}

type itMapDump struct {
	entries []atree.VerifMapIterEntry
	height  int
	leaf    map[uint64]bool // level-0 data slabs and external group slabs below the root
	inner   map[uint64]bool
	nData   int
	nExt    int
	nInline int
	nList   int
}

func (r *itMap) dump() *itMapDump {
	es, h, ds, err := atree.VerifMapIterDump(r.m)
	if err != nil {
		r.viol("C13: harness: map slab tree cannot be walked", err.Error())
		return nil
	}
	d := &itMapDump{entries: es, height: h, leaf: map[uint64]bool{}, inner: map[uint64]bool{}, nData: len(ds)}
	root := r.m.SlabID()
	isData := map[atree.SlabID]bool{}
	for _, id := range ds {
		isData[id] = true
		if id != root {
			d.leaf[id.IndexAsUint64()] = true
		}
	}
	ext := map[atree.SlabID]bool{}
	inl := map[[2]int]bool{}
	lists := map[string]bool{}
	for _, e := range es {
		for pi, id := range e.Path {
			switch {
			case isData[id]:
			case e.Group == 2 && pi == len(e.Path)-1:
				ext[id] = true
				d.leaf[id.IndexAsUint64()] = true
			default:
				d.inner[id.IndexAsUint64()] = true
			}
		}
		if e.Group == 1 {
			inl[[2]int{e.Slab, e.Pos}] = true
		}
		if e.List {
			lists[fmt.Sprint(e.Slab, e.Pos, e.Group)] = true
		}
	}
	d.nExt, d.nInline, d.nList = len(ext), len(inl), len(lists)
	r.maxH = max(r.maxH, h)
	return d
}

func (d *itMapDump) expectedLoaded(st atree.SlabStorage, loaded map[uint64]bool) (ks, vs []uint64) {
	for _, e := range d.entries {
		ok := true
		for _, id := range e.Path {
			if !loaded[id.IndexAsUint64()] {
				ok = false
				break
			}
		}
		if !ok {
			continue
		}
		if sid, isID := e.Value.(atree.SlabIDStorable); isID && !loaded[atree.SlabID(sid).IndexAsUint64()] {
			continue
		}
		if sid, isID := e.Key.(atree.SlabIDStorable); isID && !loaded[atree.SlabID(sid).IndexAsUint64()] {
			continue
		}
		kid, _, _ := mpeIdent(e.Key)
		ks = append(ks, kid)
		vs = append(vs, itIdentStorable(st, e.Value))
	}
	return
}

func (r *itMap) reopen(base *LogBase) (*atree.PersistentSlabStorage, *atree.OrderedMap, error) {
	st2 := newStorage(base)
	b2 := &itBuilder{table: r.b.table}
	if r.b.inner != nil {
		b2.inner = atree.NewDefaultDigesterBuilder()
	}
	if r.b.rec != nil {
		b2.rec = atree.NewDefaultDigesterBuilder()
	}
	m2, err := atree.NewMapWithRootID(st2, r.m.SlabID(), b2)
	return st2, m2, err
}

func (r *itMap) checkLoaded(d *itMapDump) {
	ord := r.order()
	wantK := itKeysOf(ord)
	rootID := r.m.SlabID()
	var all []atree.SlabID
	for _, id := range r.base.SortedIDs() {
		if id != rootID {
			all = append(all, id)
		}
	}
	for si, sub := range r.subsets(all, d.leaf, d.inner) {
		if r.failed {
			return
		}
		r.rep.Event("loaded_subsets")
		r.rep.Event("loaded_subset:" + strings.TrimRight(sub.name, "0123456789"))
		st2, m2, err := r.reopen(r.base)
		if err != nil {
			r.viol("C13: harness: map cannot be reopened", err.Error())
			return
		}
		if err := itLoad(st2, sub.ids, si%2 == 1); err != nil {
			r.viol("C13: harness: preloading slabs failed", err.Error())
			return
		}
		loaded := map[uint64]bool{}
		for _, id := range sub.ids {
			loaded[id.IndexAsUint64()] = true
		}
		expK, expV := d.expectedLoaded(r.st, loaded)
		var ks, vs []atree.Value
		cb := func(k, v atree.Value) (bool, error) {
			ks = append(ks, k)
			vs = append(vs, v)
			return len(ks) <= len(wantK)+8, nil
		}
		name := "IterateReadOnlyLoadedValues"
		mode := 0
		if si%3 == 0 {
			mode = (si / 3) % 3
			name = "ReadOnlyLoadedValueIterator" + []string{"+Next", "+NextKey", "+NextValue"}[mode]
			var it *atree.MapLoadedValueIterator
			it, err = m2.ReadOnlyLoadedValueIterator()
			if err == nil {
				err = itDrainMap(it, mode, cb)
			}
		} else {
			err = m2.IterateReadOnlyLoadedValues(cb)
		}
		r.rep.Op("map:" + name + "(partially loaded)")
		where := fmt.Sprintf("subset %s (%d of %d slabs)", sub.name, len(sub.ids), len(all))
		if err != nil {
			r.viol("C13: map loaded-value iteration over a partially loaded map failed", where+": "+err.Error())
			return
		}
		if mode != 2 {
			got := itKeyIdents(ks)
			if !itIsSubseq(got, wantK) {
				r.viol("C13: map loaded-value iteration is not an in-order subsequence of the full enumeration",
					fmt.Sprintf("%s: got %s", where, itShort(got)))
				return
			}
			if p := itSameSeq(got, expK); p >= 0 {
				r.viol("C13: map loaded-value iteration does not yield exactly the entries reachable through loaded slabs",
					fmt.Sprintf("%s: yielded %d, expected %d, first difference at position %d", where, len(got), len(expK), p))
				return
			}
		}
		if mode != 1 {
			got := itIdents(vs)
			if !itIsSubseq(got, itValsOf(ord)) {
				r.viol("C13: map loaded-value iteration (values) is not an in-order subsequence of the full enumeration",
					fmt.Sprintf("%s: got %s", where, itShort(got)))
				return
			}
			if p := itSameSeq(got, expV); p >= 0 {
				r.viol("C13: map loaded-value iteration does not yield exactly the values reachable through loaded slabs",
					fmt.Sprintf("%s: yielded %d, expected %d, first difference at position %d", where, len(got), len(expV), p))
				return
			}
		}
		if len(expK) > 0 && len(expK) < len(wantK) {
			r.rep.Event("loaded_subsets_strict_nonempty_subsequence")
		}
		if sub.name == "all" && len(expK) != len(wantK) {
			r.viol("C13: map loaded-value iteration with every slab loaded is not the full enumeration", where)
		}
	}
}

func (r *itMap) popCheck(st atree.SlabStorage, m *atree.OrderedMap) []atree.Storable {
	ord := r.order()
	r.rep.Op("map:PopIterate")
	var kss, vss []atree.Storable
	if err := m.PopIterate(func(k, v atree.Storable) { kss = append(kss, k); vss = append(vss, v) }); err != nil {
		r.viol("C13: map PopIterate failed", err.Error())
		return nil
	}
	n := len(kss)
	gk, gv := make([]uint64, n), make([]uint64, n)
	for i := range kss {
		id, _, ok := mpeIdent(kss[i])
		if !ok {
			id = ^uint64(0)
		}
		gk[n-1-i] = id
		gv[n-1-i] = itIdentStorable(st, vss[i])
	}
	if !r.cmpSeq("map PopIterate (reversed, keys)", "reverse canonical order", gk, itKeysOf(ord)) {
		return nil
	}
	if !r.cmpSeq("map PopIterate (reversed, values)", "reverse canonical order", gv, itValsOf(ord)) {
		return nil
	}
	if m.Count() != 0 {
		r.viol("C13: map not empty after PopIterate", fmt.Sprint(m.Count()))
	}
	k := 0
	_ = m.IterateReadOnly(func(atree.Value, atree.Value) (bool, error) { k++; return true, nil })
	if k != 0 {
		r.viol("C13: emptied map still yields entries", fmt.Sprint(k))
	}
	return vss
}

func (r *itMap) checkReadOnlyContract() {
	ord := r.order()
	var kids []int
	for i, e := range ord {
		if e.v.kind >= 3 {
			kids = append(kids, i)
		}
	}
	if len(kids) == 0 {
		return
	}
	target := map[int]bool{}
	for k := 0; k < 3; k++ {
		target[kids[r.rng.Intn(len(kids))]] = true
	}
	_, m2, err := r.reopen(r.base)
	if err != nil {
		r.viol("C13: harness: map cannot be reopened", err.Error())
		return
	}
	variant := r.rng.Intn(4)
	kCalls, vCalls := 0, 0
	var cbVal atree.Value
	keyCb := func(atree.Value) { kCalls++ }
	valCb := func(v atree.Value) { vCalls++; cbVal = v }
	var gotV []uint64
	fn := func(_, v atree.Value) (bool, error) {
		i := len(gotV)
		id, _ := itIdent(v)
		gotV = append(gotV, id)
		if target[i] {
			r.rep.Event("readonly_child_mutation_attempts")
			before := vCalls
			var merr error
			switch c := v.(type) {
			case *atree.Array:
				if r.rng.Bool() {
					merr = c.Append(testutils.Uint64Value(7))
				} else {
					_, merr = c.Set(0, testutils.Uint64Value(ord[i].v.carr[0]))
				}
			case *atree.OrderedMap:
				if r.rng.Bool() {
					_, merr = c.Set(testutils.CompareValue, testutils.GetHashInput, testutils.Uint64Value(1<<40), testutils.Uint64Value(1))
				} else {
					_, _, merr = c.Remove(testutils.CompareValue, testutils.GetHashInput, testutils.Uint64Value(0))
				}
			default:
				r.viol("C13: read-only iteration yields a scalar where a container is stored", fmt.Sprint(i))
				return false, nil
			}
			if merr == nil || !errors.As(merr, &itErrMut) {
				r.viol("C13: mutating a container obtained from a read-only map iterator was not refused with ReadOnlyIteratorElementMutationError",
					fmt.Sprintf("position %d variant %d: %v", i, variant, merr))
				return false, nil
			}
			if variant != 1 && (vCalls != before+1 || cbVal != v || kCalls != 0) {
				r.viol("C13: value-mutation callback of the read-only map iterator not invoked exactly once with the mutated value",
					fmt.Sprintf("position %d variant %d: value calls %d key calls %d", i, variant, vCalls-before, kCalls))
				return false, nil
			}
		}
		return len(gotV) <= len(ord)+8, nil
	}
	switch variant {
	case 0:
		r.rep.Op("map:IterateReadOnlyWithMutationCallback(mutation)")
		err = m2.IterateReadOnlyWithMutationCallback(fn, keyCb, valCb)
	case 1:
		r.rep.Op("map:IterateReadOnly(mutation)")
		err = m2.IterateReadOnly(fn)
	case 2:
		r.rep.Op("map:IterateReadOnlyValuesWithMutationCallback(mutation)")
		err = m2.IterateReadOnlyValuesWithMutationCallback(func(v atree.Value) (bool, error) { return fn(nil, v) }, valCb)
	default:
		r.rep.Op("map:ReadOnlyIteratorWithMutationCallback+Next(mutation)")
		var it atree.MapIterator
		it, err = m2.ReadOnlyIteratorWithMutationCallback(keyCb, valCb)
		if err == nil {
			err = itDrainMap(it, 0, fn)
		}
	}
	if r.failed {
		return
	}
	if err != nil {
		r.viol("C13: read-only map iteration failed after a refused child mutation", err.Error())
		return
	}
	r.cmpSeq("read-only map iteration with refused child mutations", "canonical order", gotV, itValsOf(ord))
}

func (r *itMap) afterMutationCheck(what string, m *atree.OrderedMap, verify bool) {
	if r.failed {
		return
	}
	ord := r.order()
	var ks, vs []atree.Value
	if err := m.IterateReadOnly(func(k, v atree.Value) (bool, error) {
		ks = append(ks, k)
		vs = append(vs, v)
		return len(ks) <= len(ord)+8, nil
	}); err != nil {
		r.viol("C13: map iteration failed after "+what, err.Error())
		return
	}
	if !r.cmpSeq("map keys after "+what, "canonical order", itKeyIdents(ks), itKeysOf(ord)) {
		return
	}
	if !r.cmpSeq("map values after "+what, "canonical order", itIdents(vs), itValsOf(ord)) {
		return
	}
	for i, v := range vs {
		if d := itChildDiff(v, ord[i].v); d != "" {
			r.viol("C13: nested container content wrong after "+what, fmt.Sprintf("position %d: %s", i, d))
			return
		}
	}
	if verify {
		if err := atree.VerifyMap(m, r.addr, itTI(r.ti), testutils.CompareTypeInfo, r.hip, true); err != nil {
			r.viol("C13: map is not well formed after "+what, err.Error())
		}
	}
}

func (r *itMap) reloadCheck(what string) {
	if r.failed || !r.commit() {
		return
	}
	_, m2, err := r.reopen(r.base)
	if err != nil {
		r.viol("C13: map cannot be reopened after "+what, err.Error())
		return
	}
	r.afterMutationCheck(what+" (after commit and reload)", m2, false)
}

// overwritePass: m.Set(currentKey, v) inside a mutable iteration.
func (r *itMap) overwritePass(mode int) {
	if r.failed {
		return
	}
	ord := r.order()
	n := len(ord)
	if n == 0 {
		return
	}
	wantK := itKeysOf(ord)
	before := r.dump()
	if before == nil {
		return
	}
	variant := r.rng.Intn(3)
	dens := []int{100, 40, 10}[r.rng.Intn(3)]
	r.rec.Log = r.rec.Log[:0]
	var got []uint64
	var olds []atree.Storable
	fn := func(k, _ atree.Value) (bool, error) {
		i := len(got)
		id, _, _ := mpeIdent(k)
		got = append(got, id)
		if i < n && id == wantK[i] && r.rng.Chance(dens) {
			e := ord[i]
			inl := r.vinl(e.k)
			var nv *itVal
			switch mode {
			case 0:
				nv = r.strVal(inl-r.rng.Intn(inl/3+1), inl)
			case 1:
				if r.rng.Bool() {
					nv = r.uintVal()
				} else {
					nv = r.strVal(3+r.rng.Intn(6), inl)
				}
			default:
				nv = r.newVal(inl, false)
				if nv.kind == 2 {
					nv = r.strVal(inl, inl)
				}
			}
			alloc := r.base.LastIndex(r.addr)
			rm := r.removesInLog()
			old, err := r.m.Set(testutils.CompareValue, r.hip, k, nv.v)
			if err != nil {
				r.viol("C13: overwriting the current entry during mutable map iteration failed", fmt.Sprintf("position %d key %d: %v", i, id, err))
				return false, nil
			}
			if old == nil || itIdentStorable(r.st, old) != e.v.ident {
				r.viol("C13: overwriting the current entry during mutable map iteration returned a different previous value",
					fmt.Sprintf("position %d key %d", i, id))
				return false, nil
			}
			olds = append(olds, old)
			e.v = nv
			r.rep.Event("in_iteration_overwrites")
			if r.base.LastIndex(r.addr) != alloc {
				r.rep.Event("in_iteration_overwrites_with_split")
			}
			if r.removesInLog() != rm {
				r.rep.Event("in_iteration_overwrites_with_merge")
			}
		}
		return len(got) <= n+8, nil
	}
	cmp, hip := atree.ValueComparator(testutils.CompareValue), r.hip
	var err error
	switch variant {
	case 0:
		r.rep.Op("map:Iterate(overwrite current)")
		err = r.m.Iterate(cmp, hip, fn)
	case 1:
		r.rep.Op("map:Iterator+Next(overwrite current)")
		var it atree.MapIterator
		it, err = r.m.Iterator(cmp, hip)
		if err == nil {
			err = itDrainMap(it, 0, fn)
		}
	default:
		r.rep.Op("map:IterateKeys(overwrite current)")
		err = r.m.IterateKeys(cmp, hip, func(k atree.Value) (bool, error) { return fn(k, nil) })
	}
	if r.failed {
		return
	}
	if err != nil {
		r.viol("C13: mutable map iteration failed while the current entry was overwritten", err.Error())
		return
	}
	if !r.cmpSeq("mutable map iteration with overwrites of the current entry", "canonical order (no skip, no repeat)", got, wantK) {
		return
	}
	for _, o := range olds {
		r.dispose(o)
	}
	if after := r.dump(); after != nil {
		if after.nExt > before.nExt {
			r.rep.EventN("in_iteration_pass_inline_group_became_external", after.nExt-before.nExt)
		}
		if after.nData != before.nData {
			r.rep.Event("in_iteration_pass_changed_data_slab_count")
		}
	}
	r.afterMutationCheck("in-iteration overwrites", r.m, true)
}

func (r *itMap) nestedPass() {
	if r.failed {
		return
	}
	nk := 0
	for _, e := range r.shadow {
		if e.v.kind >= 3 {
			nk++
		}
	}
	for k := nk; k < 3 && !r.failed; k++ {
		key := r.newKey()
		var v *itVal
		if r.rng.Bool() {
			v = r.childArr(r.vinl(key))
		} else {
			v = r.childMap(r.vinl(key))
		}
		if _, err := r.m.Set(testutils.CompareValue, r.hip, key.val, v.v); err != nil {
			r.viol("C13: harness: map insert failed", err.Error())
			return
		}
		v.v = nil
		r.seq++
		r.shadow[key.id] = &itEntry{k: key, v: v, seq: r.seq}
		r.addLive(key)
	}
	ord := r.order()
	n := len(ord)
	wantK := itKeysOf(ord)
	dens := []int{100, 50, 20}[r.rng.Intn(3)]
	var got []uint64
	pos := 0
	fn := func(k, v atree.Value) (bool, error) {
		i := pos
		pos++
		if k != nil {
			id, _, _ := mpeIdent(k)
			got = append(got, id)
		} else {
			got = append(got, wantK[min(i, n-1)])
			if id, _ := itIdent(v); i >= n || id != ord[i].v.ident {
				got[len(got)-1] = ^uint64(0)
			}
		}
		if i < n && ord[i].v.kind >= 3 && r.rng.Chance(dens) {
			r.rep.Event("in_iteration_child_mutations")
			if err := r.mutateChild(v, ord[i].v, r.vinl(ord[i].k)); err != nil {
				r.viol("C13: mutating a nested container through the handle yielded by a mutable map iterator failed", fmt.Sprintf("position %d: %v", i, err))
				return false, nil
			}
		}
		return pos <= n+8, nil
	}
	cmp, hip := atree.ValueComparator(testutils.CompareValue), r.hip
	var err error
	switch r.rng.Intn(3) {
	case 0:
		r.rep.Op("map:Iterate(mutate nested)")
		err = r.m.Iterate(cmp, hip, fn)
	case 1:
		r.rep.Op("map:Iterator+Next(mutate nested)")
		var it atree.MapIterator
		it, err = r.m.Iterator(cmp, hip)
		if err == nil {
			err = itDrainMap(it, 0, fn)
		}
	default:
		r.rep.Op("map:IterateValues(mutate nested)")
		err = r.m.IterateValues(cmp, hip, func(v atree.Value) (bool, error) { return fn(nil, v) })
	}
	if r.failed {
		return
	}
	if err != nil {
		r.viol("C13: mutable map iteration failed while nested containers were mutated", err.Error())
		return
	}
	if !r.cmpSeq("mutable map iteration with nested mutations", "canonical order (no skip, no repeat)", got, wantK) {
		return
	}
	r.afterMutationCheck("nested mutations during iteration", r.m, true)
	r.reloadCheck("nested mutations during iteration")
}

func (r *itMap) checkpoint() {
	if r.failed {
		return
	}
	r.cp++
	if !r.commit() {
		return
	}
	for _, id := range r.base.SortedIDs() {
		if _, _, err := r.st.Retrieve(id); err != nil {
			r.viol("C13: harness: retrieve failed", err.Error())
			return
		}
	}
	d := r.dump()
	if d == nil {
		return
	}
	r.rep.Event("checkpoints_map")
	r.rep.Event(fmt.Sprintf("map_height_%d", d.height))
	r.rep.EventN("inline_groups_crossed", d.nInline)
	r.rep.EventN("external_groups_crossed", d.nExt)
	r.rep.EventN("list_mode_groups_crossed", d.nList)
	// groups first or last in a data slab
	edge := 0
	for i, e := range d.entries {
		if e.Group != 0 && ((i > 0 && d.entries[i-1].Slab != e.Slab) || (i+1 < len(d.entries) && d.entries[i+1].Slab != e.Slab)) {
			edge++
		}
	}
	r.rep.EventN("groups_at_data_slab_boundary", edge)
	if d.nInline > 0 {
		r.kinds["inline"] = true
	}
	if d.nExt > 0 {
		r.kinds["external"] = true
	}
	if d.nList > 0 {
		r.kinds["list"] = true
	}
	if d.nData > 1 {
		r.rep.Event("checkpoints_multi_slab")
		r.rep.Distinct(fmt.Sprintf("M %s T%d h%d data%d ext%d inl%d n%d", r.mode, r.T, d.height, d.nData, d.nExt, d.nInline, len(r.shadow)))
	}
	r.checkFull()
	if !r.failed && r.pl != nil {
		r.checkMixed()
	}
	if !r.failed {
		r.checkLoaded(d)
	}
	if !r.failed {
		st2, m2, err := r.reopen(r.base.Clone())
		if err != nil {
			r.viol("C13: harness: map cannot be reopened", err.Error())
			return
		}
		r.popCheck(st2, m2)
	}
	if !r.failed {
		r.checkReadOnlyContract()
	}
}

func (r *itMap) run() {
	target := itPickSize(r.rng, 12, 80, 400, 1500)
	if r.mode == "pooled" {
		r.setupPooled(target)
	} else {
		r.setupDigests(target)
	}
	var err error
	r.m, err = atree.NewMap(r.rec, r.addr, r.b, itTI(r.ti))
	must(err)
	r.checkpoint()
	r.growTo(target / 3)
	r.checkpoint()
	r.growTo(2 * target / 3)
	r.checkpoint()
	r.growTo(target)
	r.checkpoint()
	r.churn(max(10, target/5))
	r.checkpoint()
	r.overwritePass(r.rng.Intn(3))
	r.checkpoint()
	r.churn(max(10, target/10))
	r.nestedPass()
	r.checkpoint()
	r.overwritePass(0)
	r.shrinkTo(target / 2)
	r.checkpoint()
	r.overwritePass(1)
	r.checkpoint()
	r.shrinkTo(min(len(r.shadow), r.rng.Intn(13)))
	r.nestedPass()
	r.checkpoint()
	r.shrinkTo(0)
	r.checkpoint()
	r.growTo(1 + r.rng.Intn(12))
	r.overwritePass(2)
	r.checkpoint()
	if r.failed {
		return
	}
	vss := r.popCheck(r.st, r.m)
	for _, s := range vss {
		r.dispose(s)
	}
	r.shadow = map[uint64]*itEntry{}
	if !r.failed {
		if _, err := atree.CheckStorageHealth(r.st, 1); err != nil {
			r.viol("C13: harness: storage health after the final PopIterate", err.Error())
		}
	}
}

// ======================================================================================

func cmdIter(a Args) {
	rep := NewReport(a.Prop, a.Seed)
	rep.Rule = "even histories: one Array, odd: one OrderedMap; T in {256,512,1024}; target size 0..3000 elements / 0..1500 entries " +
		"(15% <=12, 35% small, 35% medium, 15% large); values: unsigned integers, strings at/below/above the inline limit (own slab), child arrays " +
		"and child maps (inlined, standalone, multi-slab); maps: table digesters (tiny alphabets 1..4 on every level / many level-0 digests with " +
		"1..4 below / deep groups ending in lists / collision-free) or the default digester with recorded digests; phases grow, churn, shrink, " +
		"empty, regrow with 12 checkpoints; per checkpoint: commit, every enumeration flavour vs the shadow (slice; dictionary sorted by digest " +
		"vector then insertion), Get/Has, ranges (all for <=12 elements, else at and next to data-slab boundaries + random) and invalid ranges " +
		"through 6 entry points, >=8 loaded subsets in a fresh storage vs the formula of Iter.v, PopIterate on a clone, refused mutation through " +
		"read-only handles; between checkpoints: overwrite of the current element and mutation of nested children inside mutable iteration. " +
		"non-trivial = checkpoint on a multi-slab container, distinct by kind, T, height, slab counts, size"
	defer func() {
		atree.VerifSetThreshold(1024)
		atree.VerifSetMaxCollisionLimitPerDigest(255)
	}()
	pooled := strings.HasPrefix(a.Mode, "pooled")
	if pooled {
		rep.Rule = "mode pooled: every history one OrderedMap using the library's DEFAULT pooled digester (atree.NewDefaultDigesterBuilder, handed to " +
			"the library untouched; digest vectors for the canonical order read from a second, identically seeded pooled digester) with REAL collisions " +
			"forced through the HashInputProvider: hash inputs pi1|X|tail (9..16, 17..32, >64, >80 bytes) share the level-0 digest per tail " +
			"(1..target/2 groups of 2..60 keys, up to 200 live keys per group: inline and external groups), 0/5/15/40% of the keys repeat the whole " +
			"hash input of other keys (collision on all four levels: nested groups ending in lists), 0/10/30/60% ordinary hash inputs; provider " +
			"writes into the digester's scratch buffer or returns its own slice; otherwise the phases, checkpoints, flavours and oracles of the " +
			"default mode (every enumeration flavour vs the dictionary sorted by digest vector then insertion, Get/Has, loaded subsets, PopIterate, " +
			"in-iteration overwrites and nested mutation) plus iterator objects driven by mixed Next/NextKey/NextValue calls with lookups between steps"
	}
	root := NewRng(a.Seed)
	hists, cps := 0, 0
	maxHA, maxHM := 0, 0
	for h := 0; h < a.N; h++ {
		hr := root.Fork(uint64(h))
		tag := fmt.Sprintf("h%d", h)
		if pooled {
			tag = fmt.Sprintf("p%d", h)
		}
		if !want(tag) {
			continue
		}
		hists++
		T := []uint32{256, 512, 1024}[hr.Pick(45, 30, 25)]
		set := atree.VerifSetThreshold(T)
		atree.VerifSetMaxCollisionLimitPerDigest(255)
		base := NewLogBase()
		st := newStorage(base)
		env := &itEnv{rep: rep, hist: h, tag: tag, rng: hr, T: T, cfg: set, base: base, st: st, rec: &RecStorage{In: st},
			addr: mkAddr(1 + uint64(hr.Intn(3))), thor: a.Mode == "thorough"}
		func() {
			defer func() {
				if p := recover(); p != nil {
					env.viol("C13: panic in implementation", fmt.Sprint(p))
				}
			}()
			if h%2 == 0 && !pooled {
				env.what = "array"
				ti := uint64(40 + hr.Intn(3))
				arr, err := atree.NewArray(env.rec, env.addr, itTI(ti))
				must(err)
				r := &itArr{itEnv: env, arr: arr, ti: ti}
				r.run()
				maxHA = max(maxHA, r.maxH)
				if h < 4 {
					rep.Sample(fmt.Sprintf("history %s: array T=%d, %d checkpoints, max height %d", tag, T, env.cp, r.maxH))
				}
			} else {
				env.what = "map"
				r := &itMap{itEnv: env, shadow: map[uint64]*itEntry{}, livePos: map[uint64]int{}, ti: uint64(50 + hr.Intn(3)), kinds: map[string]bool{},
					hip: testutils.GetHashInput}
				if pooled {
					r.mode = "pooled"
				}
				r.run()
				maxHM = max(maxHM, r.maxH)
				rep.Event("map_mode_" + r.mode)
				for k := range r.kinds {
					rep.Event("map_histories_crossing_" + k + "_groups")
				}
				if h < 4 {
					rep.Sample(fmt.Sprintf("history %s: map %s T=%d, %d checkpoints, max height %d", tag, r.mode, T, env.cp, r.maxH))
				}
			}
		}()
		cps += env.cp
		rep.Event(fmt.Sprintf("T_%d", T))
		atree.VerifSetThreshold(1024)
	}
	rep.Events["max_tree_height_array"] = maxHA
	rep.Events["max_tree_height_map"] = maxHM
	rep.Histories = hists
	rep.Steps = cps
	rep.Write(a.Out + "/report.json")
}
