//go:build verif

package main

// healthhist_cmd.go — C20 over HISTORIES: "the storage produced by ANY valid history is healthy, its
// roots are exactly the live roots, and GetAllChildReferences returns exactly the reachable present /
// broken references" — asked at every point of the history, not only at its end.
//
// Three families of valid histories (all through the public API, one wrapper per container):
//
//	wave   1..2 root containers (array / map) are prefilled, committed and then driven through a sequence
//	       of target sizes (0, 1, 2, 3, a few, tens, hundreds of elements): multi-level trees grow and
//	       shrink ACROSS commits (root split, split of non-root children, merges, promotion of a child to
//	       root, PopIterate), with element flavours small / large value in its own slab / child container
//	       too large to inline / inlined child (holding references) / mixed, overwrites and mutations through
//	       child handles; the commit regime (after every op, every 2nd, sparse, never) changes per phase
//	tiny   many short-lived containers of 1..3 elements: create, commit, remove the elements one by one
//	       (or PopIterate), commit, re-grow, dispose of the root — single-element containers whose element
//	       is held by reference, removal of everything, removed roots
//	world  the random nested workload of workload.go (wrappers, detached roots, pops through child handles)
//	       under the same commit regimes
//
// After EVERY operation (uncommitted changes pending, right after a root replacement or removal):
// the harness walks the visible state (write set over read cache over ledger bytes) on its own and
// compares GetAllChildReferences of every live root, of one random slab and of identifiers that
// disappeared earlier (removed roots, merged slabs, deleted values: the query must fail) with its own
// reachability; own verdict "healthy, roots = live roots"; CheckStorageHealth on the live storage.
// After EVERY commit: a fresh storage over a copy of the ledger, every register loaded (Retrieve or
// BatchPreload), own graph of the ledger bytes healthy with roots = live roots, CheckStorageHealth with
// and without the root count, GetAllChildReferences of every root on the loaded and on a cold storage,
// element count of every reopened root.

import (
	"fmt"
	"strings"
	"time"

	"github.com/onflow/atree"
	testutils "github.com/onflow/atree/test_utils"
)

func init() { register("healthhist", cmdHealthHist) }

type hhFlavour int

const (
	hhSmall hhFlavour = iota
	hhBigRef
	hhBigChild
	hhSmallChild
	hhMixed
)

var hhFlavourNames = []string{"small", "bigref", "bigchild", "smallchild", "mixed"}

type hhRun struct {
	*hcRun
	w       *World
	base    *LogBase
	hr      *Rng
	failed  bool
	prev    map[atree.SlabID]bool // identifiers visible at the previous query
	gone    []atree.SlabID        // identifiers that disappeared (never reused: the allocator is monotonic)
	nk, nv  uint64
	budget  int
	pReopen int
	staleOK bool // saw a root whose read-cache entry differs from its write-set entry
	ledgers int
	nops    int
	full    bool // -mode full: three times larger containers
}

func cmdHealthHist(a Args) {
	rep := NewReport(a.Prop, a.Seed)
	rep.Rule = "valid histories with commits at arbitrary points (regimes: after every op / every 2nd / sparse / never, redrawn per phase; reopen after 20% of the commits) at slab sizes 256/512/1024: wave = 1..2 root arrays/maps prefilled, committed, then driven through target sizes 0,1,2,3,few,tens,hundreds (multi-level trees growing and shrinking across commits, root split/promotion, non-root splits and merges, PopIterate, overwrites, child-handle mutations; element flavours small, large value in own slab, child too large to inline, inlined child holding references, mixed; maps also with folded first-level digests and keys above the inline limit); tiny = short-lived containers of 1..3 elements (create, commit, remove one by one, commit, regrow, dispose root); world = random nested workload. After EVERY op (changes pending): own walk of write set over cache over ledger; GetAllChildReferences of every live root, a random slab and previously removed ids vs own reachability; own health verdict with roots = live roots; CheckStorageHealth on the live storage. After EVERY commit: fresh storage over the ledger copy, all registers loaded (Retrieve / BatchPreload), own graph healthy with roots = live roots, CheckStorageHealth with/without count, GetAllChildReferences on loaded and cold storage, element counts. non-trivial = history in which a root was queried while its read-cache entry was stale (root replaced or removed since the last commit) and at least 3 ledger checks ran"
	tr := NewTrace(a.Out + "/trace.txt")
	rng := NewRng(a.Seed)
	sizes := []uint32{256, 512, 1024}
	defer atree.VerifSetThreshold(1024)
	steps := a.Steps
	if steps <= 0 {
		steps = 200
	}
	total := 0
	for k := 0; k < a.N; k++ {
		hr := rng.Fork(uint64(k))
		tag := fmt.Sprintf("q%d", k)
		if !want(tag) {
			continue
		}
		T := sizes[k%len(sizes)]
		if hr.Chance(40) {
			T = 256 // small slabs: deep trees with few elements
		}
		atree.VerifSetThreshold(T)
		r := &hcRun{rep: rep, hist: k, tag: tag, T: T}
		if k < 3 {
			// a bounded part of the queries is also replayed on the model (engine health)
			r.tr = tr
			tr.Hist(tag, uint64(T))
		}
		kind := a.Mode
		if kind == "" || kind == "full" {
			kind = []string{"wave", "tiny", "wave", "world", "wave", "tiny"}[(k/3)%6]
		}
		h := &hhRun{hcRun: r, hr: hr, budget: steps, prev: map[atree.SlabID]bool{}, full: a.Mode == "full"}
		func() {
			defer func() {
				if p := recover(); p != nil {
					r.viol("C20: panic", fmt.Sprint(p))
				}
			}()
			h.run(kind)
		}()
		rep.Op("history." + kind)
		rep.Histories++
		rep.Steps += r.step
		total += r.verdicts
		if h.staleOK && h.ledgers >= 3 {
			rep.Distinct(tag)
		}
	}
	rep.Events["verdicts"] = total
	tr.Close()
	rep.Write(a.Out + "/report.json")
}

// ---------- the checks ----------

func (h *hhRun) liveRootSet() map[atree.SlabID]bool {
	m := map[atree.SlabID]bool{}
	for _, x := range h.w.Roots {
		m[rootID(x)] = true
	}
	return m
}

// ownHealthy: the harness's own analysis of a graph must say healthy with roots = live roots.
func (h *hhRun) ownHealthy(label string, g *hcGraph) {
	live := h.liveRootSet()
	v := g.analyse(len(live))
	same := len(v.roots) == len(live)
	for _, x := range v.roots {
		same = same && live[x]
	}
	if !v.healthy || !same {
		h.viol("C20: the storage produced by a valid history is not healthy or its roots are not the live containers",
			fmt.Sprintf("%s: %s unreferenced slabs=%v live roots=%d slabs=%d", label, v.why, v.roots, len(live), len(g.ids)))
	}
}

// query runs the reference queries and the health check on the LIVE storage (changes may be pending).
func (h *hhRun) query(label string) {
	if h.failed {
		return
	}
	if h.tr != nil && h.step > 250 {
		h.tr = nil
	}
	w := h.w
	g, err := hcPersistentGraph(w.St, h.base)
	if err != nil {
		h.viol("harness: register does not decode", label+": "+err.Error())
		h.failed = true
		return
	}
	// identifiers that disappeared since the previous query
	var lost []atree.SlabID
	for id := range h.prev {
		if !g.present(id) {
			lost = append(lost, id)
		}
	}
	sortIDs(lost) // map order must not leak into the history
	h.gone = append(h.gone, lost...)
	if len(h.gone) > 96 {
		h.gone = h.gone[len(h.gone)-96:]
	}
	h.prev = map[atree.SlabID]bool{}
	for _, id := range g.ids {
		h.prev[id] = true
	}
	h.rep.Events["slabs_max"] = hhMax(h.rep.Events["slabs_max"], len(g.ids))

	h.ownHealthy(label, g)
	for _, x := range w.Roots {
		id := rootID(x)
		h.coverage(id)
		h.childRefs(label+".root", w.St, g, id)
	}
	if len(g.ids) > 0 {
		h.childRefs(label+".any", w.St, g, g.ids[h.hr.Intn(len(g.ids))])
	}
	if n := len(h.gone); n > 0 {
		h.coverage(h.gone[n-1])
		h.childRefs(label+".removed", w.St, g, h.gone[n-1])
		x := h.gone[h.hr.Intn(n)]
		h.coverage(x)
		h.childRefs(label+".removed", w.St, g, x)
	}
	if len(g.ids) <= 40 || h.hr.Chance(15) {
		h.check(label+".health", w.St, g, len(w.Roots))
	}
}

// coverage: is the read-cache entry of id stale with respect to the write set?
func (h *hhRun) coverage(id atree.SlabID) {
	d, okd := atree.VerifStorageDeltaSlab(h.w.St, id)
	c, okc := atree.VerifStorageCacheSlab(h.w.St, id)
	if okd && okc && c != nil && d != c {
		if d == nil {
			h.rep.Event("query_removed_since_commit")
		} else {
			h.rep.Event("query_root_replaced_since_commit")
		}
		h.staleOK = true
	}
}

// depth: the longest reference chain below the given slabs (slab-tree height plus nesting).
func (g *hcGraph) depth(roots map[atree.SlabID]bool) int {
	memo := map[atree.SlabID]int{}
	var rec func(id atree.SlabID, fuel int) int
	rec = func(id atree.SlabID, fuel int) int {
		if d, ok := memo[id]; ok || fuel == 0 {
			return d
		}
		memo[id] = 0
		d := 0
		for _, c := range g.refs[id] {
			if x := 1 + rec(c, fuel-1); x > d {
				d = x
			}
		}
		memo[id] = d
		return d
	}
	best := 0
	for id := range roots {
		if d := rec(id, 64); d > best {
			best = d
		}
	}
	return best
}

func hhMax(a, b int) int {
	if a > b {
		return a
	}
	return b
}

// ledgerCheck: what a new process sees after the commit.
func (h *hhRun) ledgerCheck() {
	if h.failed {
		return
	}
	h.ledgers++
	h.rep.Event("ledger_check")
	cb := h.base.Clone()
	st := newStorage(cb)
	ids := cb.SortedIDs()
	if h.hr.Bool() {
		done := make(chan error, 1)
		workers := 1 + h.hr.Intn(4)
		go func() {
			defer func() {
				if p := recover(); p != nil {
					done <- fmt.Errorf("panic: %v", p)
				}
			}()
			done <- st.BatchPreload(ids, workers)
		}()
		select {
		case err := <-done:
			if err != nil {
				h.viol("C20: a register written by a commit of a valid history cannot be loaded", "BatchPreload: "+err.Error())
				return
			}
		case <-time.After(30 * time.Second):
			h.viol("C20: BatchPreload of the registers of a valid history does not return", fmt.Sprintf("%d registers", len(ids)))
			h.failed = true
			return
		}
		h.rep.Op("load.batchpreload")
	} else {
		for _, id := range ids {
			_, found, err := st.Retrieve(id)
			if err != nil || !found {
				h.viol("C20: a register written by a commit of a valid history cannot be loaded", fmt.Sprintf("%s: found=%v err=%v", id, found, err))
				return
			}
		}
		h.rep.Op("load.retrieve")
	}
	g, err := hcPersistentGraph(st, cb)
	if err != nil {
		h.viol("C20: a register written by a commit of a valid history cannot be decoded", err.Error())
		return
	}
	n := len(h.w.Roots)
	h.rep.Events["ref_depth_max"] = hhMax(h.rep.Events["ref_depth_max"], g.depth(h.liveRootSet()))
	h.ownHealthy("reopened", g)
	h.check("reopened.health", st, g, n)
	if h.hr.Chance(30) {
		h.check("reopened.health.nocount", st, g, -1)
	}
	cold := newStorage(cb)
	for _, x := range h.w.Roots {
		id := rootID(x)
		h.childRefs("reopened.root", st, g, id)
		h.childRefs("reopened.cold", cold, g, id)
		// element count of the reopened container (durability of the last operation)
		var got, wantN uint64
		var oerr error
		switch c := x.(type) {
		case *svArr:
			var a2 *atree.Array
			a2, oerr = atree.NewArrayWithRootID(st, id)
			if oerr == nil {
				got, wantN = a2.Count(), uint64(len(c.elems))
			}
		case *svMap:
			var m2 *atree.OrderedMap
			m2, oerr = atree.NewMapWithRootID(st, id, atree.NewDefaultDigesterBuilder())
			if oerr == nil {
				got, wantN = m2.Count(), uint64(len(c.keys))
			}
		}
		if oerr != nil {
			h.viol("C03: a live root cannot be reopened from the committed ledger", fmt.Sprintf("%s: %v", id, oerr))
		} else if got != wantN {
			h.viol("C03: the reopened root does not hold the committed number of elements", fmt.Sprintf("%s: %d, expected %d", id, got, wantN))
		}
	}
	if n := len(h.gone); n > 0 {
		h.childRefs("reopened.removed", st, g, h.gone[n-1])
	}
}

func (h *hhRun) commit() {
	if h.failed {
		return
	}
	nv := len(h.rep.Violations)
	defer func() {
		if len(h.rep.Violations) > nv {
			h.failed = true
		}
	}()
	h.w.Commit(1 + h.hr.Intn(4))
	if h.failed {
		return
	}
	h.rep.Event("commit")
	h.ledgerCheck()
	if h.failed {
		return
	}
	if h.hr.Chance(h.pReopen) {
		h.w.Reopen()
		h.rep.Event("reopen")
	}
	if h.hr.Chance(50) {
		h.query("committed")
	}
}

// after: the checks after one operation; then possibly a commit.
func (h *hhRun) after(what string, pCommit int) {
	h.budget--
	h.nops++
	nv := len(h.rep.Violations)
	h.query("pending")
	if !h.failed && h.hr.Chance(pCommit) {
		h.commit()
	}
	if len(h.rep.Violations) > nv {
		h.failed = true // one failing point per history: the rest of the history would only repeat it
		h.rep.Sample(fmt.Sprintf("%s T=%d: first violation of the history after operation #%d (%s)", h.tag, h.T, h.nops, what))
	}
}

func (h *hhRun) regime() int {
	return []int{100, 50, 15, 4, 0}[h.hr.Pick(35, 20, 20, 15, 10)]
}

// ---------- values ----------

func (h *hhRun) refLen() int {
	n := int(atree.MaxInlineArrayElementSize())
	if m := int(atree.MaxInlineMapElementSize()); m > n {
		n = m
	}
	return n
}

func (h *hhRun) scalar(big bool) (atree.Value, SV) {
	r := h.hr
	h.nv++
	var v atree.Value
	switch {
	case big:
		v = testutils.NewStringValue(randStr(r, h.refLen()+1+r.Intn(80)))
	case r.Chance(70):
		v = testutils.Uint64Value(1<<32 + h.nv)
	default:
		v = testutils.NewStringValue(randStr(r, 1+r.Intn(20)))
	}
	return v, &svScalar{v}
}

func (h *hhRun) value(fl hhFlavour, depth int) (atree.Value, SV) {
	r := h.hr
	w := h.w
	if fl == hhMixed {
		fl = []hhFlavour{hhSmall, hhBigRef, hhBigChild, hhSmallChild}[r.Pick(40, 25, 12, 23)]
	}
	if depth >= 2 && (fl == hhBigChild || fl == hhSmallChild) {
		fl = hhSmall
	}
	var v atree.Value
	var s SV
	switch fl {
	case hhSmall:
		v, s = h.scalar(false)
	case hhBigRef:
		v, s = h.scalar(true)
	default:
		n := r.Intn(3)
		asMap := r.Chance(45)
		if fl == hhBigChild {
			if asMap {
				n = h.refLen()/20 + 3
			} else {
				n = h.refLen()/9 + 3
			}
		}
		innerRef := r.Chance(30)
		if asMap {
			ti := uint64(50 + r.Intn(3))
			m, err := atree.NewMap(w.St, w.Addr, w.Opts.Digester(), w.ti(ti))
			must(err)
			sm := &svMap{m: m, vals: map[string]SV{}, ti: ti, vid: m.ValueID()}
			for i := 0; i < n; i++ {
				ev, es := h.scalar(innerRef && i == 0)
				if fl == hhSmallChild && depth == 0 && r.Chance(15) {
					ev, es = h.value(hhSmallChild, depth+1)
				}
				h.mapSet(sm, h.newKey(false), ev, es)
			}
			v, s = m, sm
		} else {
			ti := uint64(40 + r.Intn(3))
			a, err := atree.NewArray(w.St, w.Addr, w.ti(ti))
			must(err)
			sa := &svArr{arr: a, ti: ti, vid: a.ValueID()}
			for i := 0; i < n; i++ {
				ev, es := h.scalar(innerRef && i == 0)
				if fl == hhSmallChild && depth == 0 && r.Chance(15) {
					ev, es = h.value(hhSmallChild, depth+1)
				}
				h.arrInsert(sa, uint64(len(sa.elems)), ev, es)
			}
			v, s = a, sa
		}
	}
	if w.Opts.Wrap && r.Chance(12) {
		v, s = testutils.NewSomeValue(v), &svSome{s}
	}
	return v, s
}

func (h *hhRun) newKey(refs bool) atree.Value {
	h.nk++
	i := h.nk
	switch {
	case refs && i%13 == 6:
		// a key above the inline key limit: the element holds a slab reference as KEY
		return testutils.NewStringValue(fmt.Sprintf("K%05d%s", i, strings.Repeat("y", int(atree.MaxInlineMapKeySize())+int(i%9))))
	case i%3 == 0:
		return testutils.NewStringValue(fmt.Sprintf("k%05d%s", i, strings.Repeat("x", int(i%17))))
	}
	return testutils.Uint64Value((i * 2654435761) % (1 << 32))
}

// ---------- operations (shadow kept exact: Reopen re-handles the containers through it) ----------

func (h *hhRun) arrInsert(sa *svArr, i uint64, v atree.Value, s SV) {
	var err error
	if i == uint64(len(sa.elems)) && h.hr.Bool() {
		err = sa.arr.Append(v)
	} else {
		err = sa.arr.Insert(i, v)
	}
	if err != nil {
		h.w.Fail("C01: in-range insert failed", err.Error())
		return
	}
	sa.elems = append(sa.elems, nil)
	copy(sa.elems[i+1:], sa.elems[i:])
	sa.elems[i] = s
}

func (h *hhRun) arrSet(sa *svArr, i uint64, v atree.Value, s SV) {
	old, err := sa.arr.Set(i, v)
	if err != nil {
		h.w.Fail("C01: in-range set failed", err.Error())
		return
	}
	prev := sa.elems[i]
	sa.elems[i] = s
	h.w.handleRemoved(old, prev)
}

func (h *hhRun) mapSet(sm *svMap, k atree.Value, v atree.Value, s SV) {
	old, err := sm.m.Set(testutils.CompareValue, testutils.GetHashInput, k, v)
	if err != nil {
		h.w.Fail("C02: map set failed", err.Error())
		return
	}
	ks := keyStr(k)
	prev, had := sm.vals[ks]
	if had != (old != nil) {
		h.w.Fail("C02: Set returned previous value inconsistently", ks)
	}
	if !had {
		sm.keys = append(sm.keys, k)
	}
	sm.vals[ks] = s
	if had {
		h.w.handleRemoved(old, prev)
	}
}

type hhTarget struct {
	n       int
	pCommit int
	pop     bool
}

type hhCont struct {
	s       SV
	fl      hhFlavour
	targets []hhTarget
}

func hhSize(s SV) int {
	switch c := s.(type) {
	case *svArr:
		return len(c.elems)
	case *svMap:
		return len(c.keys)
	}
	return 0
}

func (h *hhRun) pos(n int, forInsert bool) uint64 {
	m := n
	if forInsert {
		m = n + 1
	}
	if m <= 0 {
		return 0
	}
	switch h.hr.Intn(3) {
	case 0:
		return 0
	case 1:
		return uint64(m - 1)
	}
	return uint64(h.hr.Intn(m))
}

func (h *hhRun) grow(c *hhCont) string {
	v, s := h.value(c.fl, 0)
	switch x := c.s.(type) {
	case *svArr:
		h.arrInsert(x, h.pos(len(x.elems), true), v, s)
		h.rep.Op("arr.insert")
		return "arr.insert"
	case *svMap:
		h.mapSet(x, h.newKey(c.fl != hhSmall), v, s)
		h.rep.Op("map.set")
		return "map.set"
	}
	return "skip"
}

func (h *hhRun) shrink(c *hhCont) string {
	switch x := c.s.(type) {
	case *svArr:
		if len(x.elems) == 0 {
			return "skip"
		}
		h.w.arrRemove(x, h.pos(len(x.elems), false))
		h.rep.Op("arr.remove")
		return "arr.remove"
	case *svMap:
		if len(x.keys) == 0 {
			return "skip"
		}
		h.w.mapRemove(x, x.keys[h.pos(len(x.keys), false)])
		h.rep.Op("map.remove")
		return "map.remove"
	}
	return "skip"
}

func (h *hhRun) overwrite(c *hhCont) string {
	if hhSize(c.s) == 0 {
		return "skip"
	}
	v, s := h.value(c.fl, 0)
	switch x := c.s.(type) {
	case *svArr:
		h.arrSet(x, h.pos(len(x.elems), false), v, s)
		h.rep.Op("arr.set")
		return "arr.set"
	case *svMap:
		h.mapSet(x, x.keys[h.pos(len(x.keys), false)], v, s)
		h.rep.Op("map.overwrite")
		return "map.overwrite"
	}
	return "skip"
}

// popAll empties a container with PopIterate.
func (h *hhRun) popAll(c *hhCont) string {
	w := h.w
	switch x := c.s.(type) {
	case *svArr:
		k := len(x.elems)
		err := x.arr.PopIterate(func(s atree.Storable) { k--; w.dispose(s) })
		if err != nil || k != 0 {
			w.Fail("C13: array PopIterate failed or did not visit every element once", fmt.Sprint(err, k))
		}
		x.elems = nil
		h.rep.Op("arr.pop")
		return "arr.pop"
	case *svMap:
		k := len(x.keys)
		err := x.m.PopIterate(func(ks, s atree.Storable) { k--; w.dispose(ks); w.dispose(s) })
		if err != nil || k != 0 {
			w.Fail("C13: map PopIterate failed or did not visit every entry once", fmt.Sprint(err, k))
		}
		x.keys, x.vals = nil, map[string]SV{}
		h.rep.Op("map.pop")
		return "map.pop"
	}
	return "skip"
}

// childOp mutates a random child container of c through its own handle (inline <-> stand-alone).
func (h *hhRun) childOp(c *hhCont) string {
	var kids []SV
	switch x := c.s.(type) {
	case *svArr:
		for _, e := range x.elems {
			switch unwrapSV(e).(type) {
			case *svArr, *svMap:
				kids = append(kids, unwrapSV(e))
			}
		}
	case *svMap:
		for _, k := range x.keys {
			e := x.vals[keyStr(k)]
			switch unwrapSV(e).(type) {
			case *svArr, *svMap:
				kids = append(kids, unwrapSV(e))
			}
		}
	}
	if len(kids) == 0 {
		return "skip"
	}
	kid := &hhCont{s: kids[h.hr.Intn(len(kids))], fl: hhSmall}
	if h.hr.Chance(25) {
		kid.fl = hhBigRef
	}
	n := 1
	if h.hr.Chance(30) {
		n = 2 + h.hr.Intn(h.refLen()/9+2) // enough to cross the inline limit in one burst
	}
	grow := h.hr.Chance(55) || hhSize(kid.s) == 0
	for ; n > 0; n-- {
		if grow {
			h.growDepth(kid, 1)
		} else {
			h.shrink(kid)
		}
	}
	h.rep.Op("child.op")
	return "child.op"
}

func (h *hhRun) growDepth(c *hhCont, depth int) {
	v, s := h.value(c.fl, depth)
	switch x := c.s.(type) {
	case *svArr:
		h.arrInsert(x, h.pos(len(x.elems), true), v, s)
	case *svMap:
		h.mapSet(x, h.newKey(false), v, s)
	}
}

func (h *hhRun) newRoot(asMap bool) SV {
	if asMap {
		return h.w.NewMapRoot()
	}
	return h.w.NewArrayRoot()
}

// disposeRoot empties and removes a live root.
func (h *hhRun) disposeRoot(s SV) {
	w := h.w
	id := rootID(s)
	w.dispose(atree.SlabIDStorable(id))
	for i, r := range w.Roots {
		if r == s {
			w.Roots = append(w.Roots[:i], w.Roots[i+1:]...)
			break
		}
	}
	switch x := s.(type) {
	case *svArr:
		x.elems = nil
	case *svMap:
		x.keys, x.vals = nil, map[string]SV{}
	}
	h.rep.Op("root.dispose")
}

func (h *hhRun) drawSize(fl hhFlavour, asMap bool) int {
	r := h.hr
	big := 250
	if asMap {
		big = 160
	}
	switch fl {
	case hhBigRef, hhMixed, hhSmallChild:
		big = 90
	case hhBigChild:
		big = 24
	}
	if h.full {
		big *= 3
	}
	switch r.Pick(10, 10, 7, 5, 20, 28, 20) {
	case 0:
		return 0
	case 1:
		return 1
	case 2:
		return 2
	case 3:
		return 3
	case 4:
		return 4 + r.Intn(9)
	case 5:
		return 13 + r.Intn(hhMax(1, hhMin(48, big-12)))
	}
	return big/2 + r.Intn(big/2+1)
}

func hhMin(a, b int) int {
	if a < b {
		return a
	}
	return b
}

// ---------- the histories ----------

func (h *hhRun) run(kind string) {
	hr := h.hr
	h.base = NewLogBase()
	addr := 1 + uint64(hr.Intn(2))
	opts := WorldOpts{Addr: addr, MaxDepth: 1 + hr.Intn(3), Wrap: hr.Chance(40), Maps: true,
		Detach: hr.Chance(35), LargeVals: hr.Chance(60), PopChild: true, KeySpace: []int{60, 60, 400}[hr.Intn(3)], SelfSet: hr.Chance(50)}
	if kind != "world" && hr.Chance(25) {
		// real digests with the first level folded into a small alphabet: collision groups, external group slabs
		mod := uint64(6 + hr.Intn(10))
		opts.RootDigester = func() atree.DigesterBuilder { return newCollideL0Builder(mod) }
		h.rep.Event("folded_digests")
	}
	h.pReopen = []int{0, 20, 20, 50}[hr.Intn(4)]
	h.w = NewWorld(h.base, hr, opts, h.rep)
	h.w.Fail = func(what, detail string) {
		if !h.failed {
			h.rep.Event("workload_failure")
			h.rep.Sample(fmt.Sprintf("workload failure in %s T=%d (not C20): %s: %s", h.tag, h.T, what, detail))
		}
		h.failed = true
	}
	switch kind {
	case "tiny":
		h.tiny()
	case "world":
		h.world()
	default:
		h.wave()
	}
	if h.failed {
		return
	}
	// the end of every history: commit; then (mostly) everything is removed
	h.commit()
	if h.failed || !hr.Chance(70) {
		return
	}
	for len(h.w.Roots) > 0 && !h.failed {
		h.disposeRoot(h.w.Roots[hr.Intn(len(h.w.Roots))])
		h.after("dispose", []int{100, 0, 0}[hr.Intn(3)])
	}
	h.commit()
}

func (h *hhRun) wave() {
	hr := h.hr
	var conts []*hhCont
	for n := 1 + hr.Pick(70, 30); n > 0; n-- {
		asMap := hr.Bool()
		c := &hhCont{s: h.newRoot(asMap), fl: []hhFlavour{hhSmall, hhBigRef, hhBigChild, hhSmallChild, hhMixed}[hr.Pick(35, 20, 10, 10, 25)]}
		h.rep.Event("wave." + hhFlavourNames[c.fl])
		// prefill without per-operation checks, then commit (the usual "loaded account")
		for k := h.drawSize(c.fl, asMap); k > 0 && !h.failed; k-- {
			h.grow(c)
		}
		conts = append(conts, c)
	}
	if hr.Chance(85) {
		h.commit()
	}
	for h.budget > 0 && !h.failed {
		c := conts[hr.Intn(len(conts))]
		if len(c.targets) == 0 {
			_, asMap := c.s.(*svMap)
			t := hhTarget{n: h.drawSize(c.fl, asMap), pCommit: h.regime()}
			if t.n == 0 && hr.Chance(25) {
				t.pop = true
			}
			c.targets = append(c.targets, t)
		}
		t := c.targets[0]
		cur := hhSize(c.s)
		if cur == t.n {
			c.targets = c.targets[1:]
			// sitting at the target: a commit and one more look
			if hr.Chance(50) {
				h.commit()
			}
			h.budget--
			continue
		}
		var what string
		switch {
		case t.pop && cur > 0:
			what = h.popAll(c)
		case hr.Chance(6) && cur > 0:
			what = h.overwrite(c)
		case hr.Chance(5):
			what = h.childOp(c)
		case (cur < t.n) != hr.Chance(5):
			what = h.grow(c)
		default:
			what = h.shrink(c)
		}
		h.after(what, t.pCommit)
	}
	// drain: half of the histories shrink every container to nothing, operation by operation
	if !h.failed && hr.Bool() {
		pc := h.regime()
		for _, c := range conts {
			for hhSize(c.s) > 0 && !h.failed {
				h.after(h.shrink(c), pc)
			}
		}
		h.rep.Event("drained")
	}
}

func (h *hhRun) tiny() {
	hr := h.hr
	var live []*hhCont
	for h.budget > 0 && !h.failed {
		asMap := hr.Chance(40)
		c := &hhCont{s: h.newRoot(asMap), fl: []hhFlavour{hhBigRef, hhBigChild, hhSmallChild, hhSmall, hhMixed}[hr.Pick(35, 20, 15, 10, 20)]}
		live = append(live, c)
		h.after("root.new", 0)
		n := 1 + hr.Pick(50, 30, 20)
		pc := []int{100, 50, 0}[hr.Pick(40, 30, 30)]
		for i := 0; i < n && !h.failed; i++ {
			h.after(h.grow(c), pc)
		}
		if hr.Chance(85) {
			h.commit()
		}
		pc = []int{100, 50, 0}[hr.Pick(45, 25, 30)]
		if hr.Chance(10) {
			h.after(h.popAll(c), pc)
		}
		for hhSize(c.s) > 0 && !h.failed {
			if hr.Chance(8) {
				h.after(h.childOp(c), pc)
			}
			h.after(h.shrink(c), pc)
		}
		if hr.Chance(60) {
			h.commit()
		}
		if hr.Chance(30) {
			for i := 1 + hr.Intn(2); i > 0 && !h.failed; i-- {
				h.after(h.grow(c), pc)
			}
		}
		// dispose of some live root (always when there are many)
		for (len(live) > 3 || (len(live) > 0 && hr.Chance(55))) && !h.failed {
			i := hr.Intn(len(live))
			h.disposeRoot(live[i].s)
			live = append(live[:i], live[i+1:]...)
			h.after("root.dispose", pc)
		}
	}
}

func (h *hhRun) world() {
	hr := h.hr
	w := h.w
	for n := 1 + hr.Intn(3); n > 0; n-- {
		h.newRoot(hr.Bool())
	}
	pc := h.regime()
	for s := 0; h.budget > 0 && !h.failed; s++ {
		if s%25 == 24 {
			pc = h.regime()
		}
		what := w.Step()
		h.after("world."+what, pc)
	}
}
