//go:build verif

package main

// nestedfault_ops.go — every operation through a CHILD handle and every attach / detach of a
// container, executed with ONE transient fault at each storage call the operation makes.
//
// A scenario is a committed tree: a root array or map (usually spanning several slabs) holding child
// arrays and maps of every size class — empty / small inlined, tuned to sit just below the inline
// limit of their slot, tuned to sit just above it (stand-alone, one slab), stand-alone mid-size,
// several slabs — nested up to three levels deep, some wrapped in SomeValue; plus a few committed
// stand-alone ("loose") containers that are not attached anywhere yet.
//
// A case starts from a byte copy of the committed ledger and a FRESH PersistentSlabStorage behind a
// wrapping SlabStorage; the handles of the root and of every container on the path to the target are
// obtained once, top-down, through Get (one wrapper per container, kept for the whole case).  Under a
// cache schedule (keep / DropCache / DropCache then read the target once) ONE request is executed
// through the target's handle: Append / Insert / Set / Remove with scalars, large strings (their own
// slab), values that push the target across the inline limit of its slot in either direction, attaching
// a new or a committed stand-alone container, detaching (Remove / overwrite) an inlined or stand-alone
// child.  A fault-free twin gives the storage calls the request makes:
//
//	R  ledger reads (cache misses)            fail once at the ledger (BaseStorage.Retrieve)
//	G  SlabStorage.Retrieve                   fail once at the wrapping storage
//	S  SlabStorage.Store                      fail once at the wrapping storage
//	D  SlabStorage.Remove                     fail once at the wrapping storage
//
// For every (kind, k) a fresh case executes the request with call k of that kind failing.  Then
//
//	(a) at once, before anything else touches the containers: every slab in the write set, in the read
//	    cache and every root slab a handle holds satisfies the size equation of the codec checks
//	    (reported ByteSize == bytes written - extra data sections + the omitted empty sibling link),
//	    and a slab decoded from those bytes reports the same size                              (C06)
//	(b) if the request failed and nothing changed that a client can see (content through the root,
//	    content through the target handle): VerifyArray / VerifyMap of the root pass; the SAME request
//	    is retried through the SAME handle: it must answer what the twin answered             (C18/C08)
//	(c) if the request failed after it had taken effect in the target (the library is not atomic
//	    there): the client goes on through the SAME handle — it repeats the request if that is
//	    idempotent (Set of a scalar), else it performs one more mutation — the twin performs the same
//	    two requests without fault
//	(d) final state against the twin: content through the root, content through the target handle ==
//	    content of the target re-read through its ancestors, Count, VerifyArray / VerifyMap, commit,
//	    content after reopening the committed ledger in a fresh storage, and (when no slab index was
//	    burnt by the failed attempt) byte-identical registers                                (C08/C10)
//
// Nothing here knows what a request is supposed to do: the oracle is the fault-free twin and the
// size equation.

import (
	"bytes"
	"errors"
	"fmt"
	"hash/fnv"
	"sort"
	"strings"

	"github.com/onflow/atree"
	testutils "github.com/onflow/atree/test_utils"
)

var (
	nfArrTI = testutils.NewSimpleTypeInfo(41)
	nfMapTI = testutils.NewSimpleTypeInfo(51)
)

var errNfInjected = errors.New("injected storage fault")

// ---------- wrapping storage ----------

type nfCall struct {
	kind byte
	id   atree.SlabID
	fail bool
}

// nfStorage wraps the persistent storage; the containers only ever see the wrapper.
type nfStorage struct {
	*atree.PersistentSlabStorage
	arm   byte // 0: no fault; 'G' / 'S' / 'D': fail call k of that kind
	k     int
	cnt   [256]int
	fired bool
	log   []nfCall
	on    bool // record calls
}

func (s *nfStorage) hit(kind byte, id atree.SlabID) bool {
	n := s.cnt[kind]
	s.cnt[kind]++
	fail := s.arm == kind && n == s.k
	if fail {
		s.fired = true
	}
	if s.on {
		s.log = append(s.log, nfCall{kind, id, fail})
	}
	return fail
}

func (s *nfStorage) Retrieve(id atree.SlabID) (atree.Slab, bool, error) {
	if s.hit('G', id) {
		return nil, false, fmt.Errorf("%w: Retrieve(%s)", errNfInjected, id)
	}
	return s.PersistentSlabStorage.Retrieve(id)
}

func (s *nfStorage) Store(id atree.SlabID, slab atree.Slab) error {
	if s.hit('S', id) {
		return fmt.Errorf("%w: Store(%s)", errNfInjected, id)
	}
	return s.PersistentSlabStorage.Store(id, slab)
}

func (s *nfStorage) Remove(id atree.SlabID) error {
	if s.hit('D', id) {
		return fmt.Errorf("%w: Remove(%s)", errNfInjected, id)
	}
	return s.PersistentSlabStorage.Remove(id)
}

func (s *nfStorage) reset() {
	s.arm, s.k, s.fired = 0, 0, false
	s.cnt = [256]int{}
	s.log = s.log[:0]
}

func nfIsInjected(err error) bool {
	return err != nil && (errors.Is(err, errInjected) || errors.Is(err, errNfInjected) ||
		strings.Contains(err.Error(), errInjected.Error()) || strings.Contains(err.Error(), errNfInjected.Error()))
}

// ---------- scenario description (filled while the scenario is built) ----------

type nfNode struct {
	isMap bool
	class string
	n     int             // arrays: number of elements
	keys  []atree.Value   // maps: keys in insertion order
	kids  map[int]*nfNode // position (array index / index into keys) -> child container
	some  map[int]bool    // child is wrapped in SomeValue
}

type nfStep struct {
	pos int // array index / index into the parent's keys
}

type nfLoose struct {
	id    atree.SlabID
	isMap bool
	n     int
}

type nfScenario struct {
	T      uint32
	addr   atree.Address
	root   *nfNode
	rootID atree.SlabID
	base   *LogBase
	loose  []nfLoose
	desc   string
}

type nfBuilder struct {
	r    *Rng
	st   atree.SlabStorage
	addr atree.Address
	seq  uint64
}

func nfUnwrap(v atree.Value) atree.Value {
	for i := 0; i < 8; i++ {
		w, ok := v.(testutils.SomeValue)
		if !ok {
			return v
		}
		v, _ = w.UnwrapAtreeValue()
	}
	return v
}

func (b *nfBuilder) small() atree.Value { // 3 bytes encoded
	b.seq++
	return testutils.Uint64Value(300 + b.seq%60000)
}

func nfKey(i int) atree.Value { // 3 bytes encoded, pairwise distinct
	return testutils.Uint64Value(uint64(1000 + i))
}

func nfInlined(v atree.Value) bool {
	switch x := v.(type) {
	case *atree.Array:
		return x.Inlined()
	case *atree.OrderedMap:
		return x.Inlined()
	}
	return false
}

func (b *nfBuilder) add(v atree.Value, nd *nfNode, e atree.Value) {
	switch x := v.(type) {
	case *atree.Array:
		must(x.Append(e))
		nd.n++
	case *atree.OrderedMap:
		k := nfKey(len(nd.keys))
		old, err := x.Set(testutils.CompareValue, testutils.GetHashInput, k, e)
		must(err)
		if old != nil {
			panic("nestedfault: duplicate key while building")
		}
		nd.keys = append(nd.keys, k)
	}
}

func (b *nfBuilder) dropLast(v atree.Value, nd *nfNode) {
	switch x := v.(type) {
	case *atree.Array:
		_, err := x.Remove(uint64(nd.n - 1))
		must(err)
		nd.n--
	case *atree.OrderedMap:
		k := nd.keys[len(nd.keys)-1]
		_, _, err := x.Remove(testutils.CompareValue, testutils.GetHashInput, k)
		must(err)
		nd.keys = nd.keys[:len(nd.keys)-1]
	}
}

func (nd *nfNode) size() int {
	if nd.isMap {
		return len(nd.keys)
	}
	return nd.n
}

// classes of child containers
const (
	nfSmall  = iota // 0..3 scalars, inlined
	nfUnder         // inlined, less than one element below the inline limit of its slot
	nfOver          // stand-alone single slab, less than one element above the inline limit
	nfMid           // stand-alone single slab, well above the limit
	nfMulti         // several slabs
	nfNest          // small container holding containers
	nfMultiN        // several slabs, holding containers
)

var nfClassNames = []string{"small", "under-limit", "over-limit", "mid", "multi-slab", "nested", "multi-slab-nested"}

// cont creates a container of the class; tune (may be nil) must be called right after the container
// has been put into its parent: it grows the container through its creation handle until it sits
// at the inline limit of that slot.
func (b *nfBuilder) cont(isMap bool, class int, depthLeft int) (atree.Value, *nfNode, func()) {
	r := b.r
	nd := &nfNode{isMap: isMap, class: nfClassNames[class], kids: map[int]*nfNode{}, some: map[int]bool{}}
	var v atree.Value
	if isMap {
		m, err := atree.NewMap(b.st, b.addr, atree.NewDefaultDigesterBuilder(), nfMapTI)
		must(err)
		v = m
	} else {
		a, err := atree.NewArray(b.st, b.addr, nfArrTI)
		must(err)
		v = a
	}
	var tune func()
	addKid := func() {
		if depthLeft <= 0 {
			b.add(v, nd, b.small())
			return
		}
		cls := []int{nfSmall, nfSmall, nfUnder, nfOver, nfMid, nfNest}[r.Intn(6)]
		if depthLeft == 1 && cls == nfNest {
			cls = nfSmall
		}
		kv, knd, ktune := b.cont(r.Chance(50), cls, depthLeft-1)
		pos := nd.size()
		var e atree.Value = kv
		if r.Chance(12) {
			e = testutils.NewSomeValue(kv)
			nd.some[pos] = true
		}
		b.add(v, nd, e)
		nd.kids[pos] = knd
		if ktune != nil {
			ktune()
		}
	}
	switch class {
	case nfSmall:
		for i, n := 0, r.Intn(4); i < n; i++ {
			b.add(v, nd, b.small())
		}
	case nfUnder, nfOver:
		for i, n := 0, 1+r.Intn(3); i < n; i++ {
			b.add(v, nd, b.small())
		}
		tune = func() {
			for i := 0; i < 400 && nfInlined(v); i++ {
				b.add(v, nd, b.small())
			}
			if nfInlined(v) {
				panic("nestedfault: container does not leave its parent while growing")
			}
			if class == nfUnder {
				b.dropLast(v, nd)
				if !nfInlined(v) {
					panic("nestedfault: container does not return into its parent after shrinking")
				}
			}
		}
	case nfMid:
		// between the inline limit and the slab size
		n := int(atree.MaxInlineArrayElementSize())/3 + 6 + r.Intn(8)
		if isMap {
			n = int(atree.MaxInlineMapElementSize())/14 + 3 + r.Intn(3)
		}
		for i := 0; i < n; i++ {
			b.add(v, nd, b.small())
		}
	case nfMulti, nfMultiN:
		n := 70 + r.Intn(90)
		kids := 0
		if class == nfMultiN {
			kids = 2 + r.Intn(3)
		}
		at := map[int]bool{}
		for len(at) < kids {
			at[r.Intn(n)] = true
		}
		for i := 0; i < n; i++ {
			if at[i] {
				addKid()
			} else {
				b.add(v, nd, testutils.Uint64Value(uint64(1_000_000+i)))
			}
		}
	case nfNest:
		n := 1 + r.Intn(3)
		for i := 0; i < n; i++ {
			if r.Chance(35) {
				b.add(v, nd, b.small())
			}
			addKid()
		}
	}
	return v, nd, tune
}

func nfNewScenario(r *Rng) *nfScenario {
	sc := &nfScenario{addr: mkAddr(33)}
	sc.T = []uint32{256, 256, 256, 512}[r.Intn(4)]
	atree.VerifSetThreshold(sc.T)
	sc.base = NewLogBase()
	st := newStorage(sc.base)
	b := &nfBuilder{r: r, st: st, addr: sc.addr}
	rootIsMap := r.Chance(45)
	nRoot := 60 + r.Intn(160)
	if r.Chance(15) {
		nRoot = 3 + r.Intn(8) // a root that is one slab: no ledger read is needed for its own update
	}
	if sc.T == 512 {
		nRoot *= 2
	}
	nd := &nfNode{isMap: rootIsMap, class: "root", kids: map[int]*nfNode{}, some: map[int]bool{}}
	var root atree.Value
	if rootIsMap {
		m, err := atree.NewMap(st, sc.addr, atree.NewDefaultDigesterBuilder(), nfMapTI)
		must(err)
		root, sc.rootID = m, m.SlabID()
	} else {
		a, err := atree.NewArray(st, sc.addr, nfArrTI)
		must(err)
		root, sc.rootID = a, a.SlabID()
	}
	nKids := 7 + r.Intn(5)
	if nKids > nRoot {
		nKids = nRoot
	}
	at := map[int]int{}
	classes := []int{nfSmall, nfUnder, nfOver, nfMid, nfMulti, nfNest, nfNest, nfMultiN, nfUnder, nfOver, nfSmall, nfNest}
	off := r.Intn(len(classes))
	for i := 0; len(at) < nKids; i++ {
		p := r.Intn(nRoot)
		if _, ok := at[p]; !ok {
			at[p] = classes[(i+off)%len(classes)]
		}
	}
	for i := 0; i < nRoot; i++ {
		cls, ok := at[i]
		if !ok {
			b.add(root, nd, testutils.Uint64Value(uint64(1_000_000+i)))
			continue
		}
		depth := 0
		if cls == nfNest || cls == nfMultiN {
			depth = 1 + r.Intn(2)
		}
		kv, knd, ktune := b.cont(r.Chance(50), cls, depth)
		var e atree.Value = kv
		if r.Chance(10) {
			e = testutils.NewSomeValue(kv)
			nd.some[i] = true
		}
		b.add(root, nd, e)
		nd.kids[i] = knd
		if ktune != nil {
			ktune()
		}
	}
	sc.root = nd
	// committed stand-alone containers, not attached anywhere
	for i, n := 0, 2+r.Intn(2); i < n; i++ {
		isMap := r.Chance(50)
		cls := []int{nfSmall, nfSmall, nfMid}[r.Intn(3)]
		v, lnd, _ := b.cont(isMap, cls, 0)
		var id atree.SlabID
		switch x := v.(type) {
		case *atree.Array:
			id = x.SlabID()
		case *atree.OrderedMap:
			id = x.SlabID()
		}
		sc.loose = append(sc.loose, nfLoose{id: id, isMap: isMap, n: lnd.size()})
	}
	must(st.FastCommit(2))
	sc.desc = fmt.Sprintf("T=%d root=%s of %d, %d children, %d registers", sc.T, map[bool]string{false: "array", true: "map"}[rootIsMap], nRoot, nKids, len(sc.base.Segs))
	return sc
}

// targets lists the paths to every container of the scenario (the root has the empty path).
func (sc *nfScenario) targets() [][]nfStep {
	out := [][]nfStep{nil}
	var walk func(nd *nfNode, path []nfStep)
	walk = func(nd *nfNode, path []nfStep) {
		var ps []int
		for p := range nd.kids {
			ps = append(ps, p)
		}
		sort.Ints(ps)
		for _, p := range ps {
			np := append(append([]nfStep{}, path...), nfStep{p})
			out = append(out, np)
			walk(nd.kids[p], np)
		}
	}
	walk(sc.root, nil)
	return out
}

func (sc *nfScenario) nodeAt(path []nfStep) *nfNode {
	nd := sc.root
	for _, p := range path {
		nd = nd.kids[p.pos]
	}
	return nd
}

// ---------- one live instance (a fresh process over a copy of the committed ledger) ----------

type nfInst struct {
	sc    *nfScenario
	base  *LogBase
	inner *atree.PersistentSlabStorage
	st    *nfStorage
	hs    []atree.Value // handles: root, ..., target
	path  []nfStep

	skipped int
}

func nfGet(c atree.Value, nd *nfNode, pos int) (atree.Value, error) {
	switch x := c.(type) {
	case *atree.Array:
		return x.Get(uint64(pos))
	case *atree.OrderedMap:
		return x.Get(testutils.CompareValue, testutils.GetHashInput, nd.keys[pos])
	}
	return nil, fmt.Errorf("nestedfault: %T is not a container", c)
}

func (sc *nfScenario) open(path []nfStep, sched int) *nfInst {
	in := &nfInst{sc: sc, base: sc.base.Clone(), path: path}
	in.inner = newStorage(in.base)
	in.st = &nfStorage{PersistentSlabStorage: in.inner}
	var root atree.Value
	if sc.root.isMap {
		m, err := atree.NewMapWithRootID(in.st, sc.rootID, atree.NewDefaultDigesterBuilder())
		must(err)
		root = m
	} else {
		a, err := atree.NewArrayWithRootID(in.st, sc.rootID)
		must(err)
		root = a
	}
	in.hs = []atree.Value{root}
	nd := sc.root
	cur := root
	for _, p := range path {
		v, err := nfGet(cur, nd, p.pos)
		must(err)
		cur = nfUnwrap(v)
		nd = nd.kids[p.pos]
		in.hs = append(in.hs, cur)
	}
	switch sched {
	case 1:
		in.inner.DropCache()
	case 2:
		in.inner.DropCache()
		if len(path) > 0 {
			var sb strings.Builder
			nfRender(&sb, in.tgt(), 0)
		}
	}
	return in
}

func (in *nfInst) root() atree.Value { return in.hs[0] }
func (in *nfInst) tgt() atree.Value  { return in.hs[len(in.hs)-1] }

func nfCount(v atree.Value) uint64 {
	switch x := v.(type) {
	case *atree.Array:
		return x.Count()
	case *atree.OrderedMap:
		return x.Count()
	}
	return 0
}

func (in *nfInst) verify() error {
	switch x := in.root().(type) {
	case *atree.Array:
		return atree.VerifyArray(x, in.sc.addr, nfArrTI, testutils.CompareTypeInfo, testutils.GetHashInput, true)
	case *atree.OrderedMap:
		return atree.VerifyMap(x, in.sc.addr, nfMapTI, testutils.CompareTypeInfo, testutils.GetHashInput, true)
	}
	return nil
}

// ---------- rendering through the public API (read-only iteration) ----------

func nfScalarText(v atree.Value) string {
	s := fmt.Sprint(v)
	if len(s) > 28 {
		h := fnv.New64a()
		h.Write([]byte(s))
		return fmt.Sprintf("%T(%d bytes #%x)", v, len(s), h.Sum64()&0xffffff)
	}
	return fmt.Sprintf("%T:%s", v, s)
}

func nfRender(sb *strings.Builder, v atree.Value, depth int) {
	if depth > 8 {
		sb.WriteString("<deep>")
		return
	}
	switch x := v.(type) {
	case nil:
		sb.WriteString("nil")
	case testutils.SomeValue:
		inner, _ := x.UnwrapAtreeValue()
		sb.WriteString("Some(")
		nfRender(sb, inner, depth+1)
		sb.WriteByte(')')
	case *atree.Array:
		fmt.Fprintf(sb, "[%d:", x.Count())
		n := uint64(0)
		err := x.IterateReadOnly(func(e atree.Value) (bool, error) {
			sb.WriteByte(' ')
			nfRender(sb, e, depth+1)
			n++
			return n <= x.Count()+4, nil
		})
		if err != nil {
			sb.WriteString(" !" + err.Error())
		}
		sb.WriteByte(']')
	case *atree.OrderedMap:
		fmt.Fprintf(sb, "{%d:", x.Count())
		n := uint64(0)
		err := x.IterateReadOnly(func(k, e atree.Value) (bool, error) {
			sb.WriteByte(' ')
			nfRender(sb, k, depth+1)
			sb.WriteByte('=')
			nfRender(sb, e, depth+1)
			n++
			return n <= x.Count()+4, nil
		})
		if err != nil {
			sb.WriteString(" !" + err.Error())
		}
		sb.WriteByte('}')
	default:
		sb.WriteString(nfScalarText(v))
	}
}

func nfText(v atree.Value) string {
	var sb strings.Builder
	nfRender(&sb, v, 0)
	return sb.String()
}

// quiet runs f with fault injection and call counting suspended (rendering of what a request
// returned is not part of the request).
func (in *nfInst) quiet(f func()) {
	st, b := in.st, in.base
	arm, cnt, on := st.arm, st.cnt, st.on
	failRead, nRead, logReads := b.FailRead, b.nRead, b.LogReads
	st.arm, st.on = 0, false
	b.FailRead, b.LogReads = -1, false
	defer func() {
		st.arm, st.cnt, st.on = arm, cnt, on
		b.FailRead, b.nRead, b.LogReads = failRead, nRead, logReads
	}()
	f()
}

func nfStorableText(in *nfInst, s atree.Storable) (out string) {
	if s == nil {
		return "nil"
	}
	in.quiet(func() {
		v, err := s.StoredValue(in.st)
		if err != nil {
			out = "!" + err.Error()
			return
		}
		out = nfText(v)
	})
	return out
}

// walk re-obtains the target through its ancestors, starting at the root handle.
func (in *nfInst) walk() (atree.Value, error) {
	cur := in.root()
	nd := in.sc.root
	for _, p := range in.path {
		v, err := nfGet(cur, nd, p.pos)
		if err != nil {
			return nil, err
		}
		cur = nfUnwrap(v)
		nd = nd.kids[p.pos]
	}
	return cur, nil
}

// viaRoot: the content of the target re-read through its ancestors.
func (in *nfInst) viaRoot() string {
	v, err := in.walk()
	if err != nil {
		return "!" + err.Error()
	}
	return nfText(v)
}

// flags: the inline status of every container on the path and of the values given to the request.
func (in *nfInst) flags(extra []atree.Value) string {
	var sb strings.Builder
	for _, v := range append(append([]atree.Value{}, in.hs[1:]...), extra...) {
		switch x := nfUnwrap(v).(type) {
		case *atree.Array:
			fmt.Fprintf(&sb, "%v,", x.Inlined())
		case *atree.OrderedMap:
			fmt.Fprintf(&sb, "%v,", x.Inlined())
		}
	}
	return sb.String()
}

// rootIDs: the root slab identifiers of the containers on the path and of the values given to the request.
func (in *nfInst) rootIDs(extra []atree.Value) map[atree.SlabID]bool {
	out := map[atree.SlabID]bool{}
	for _, v := range append(append([]atree.Value{}, in.hs[1:]...), extra...) {
		switch x := nfUnwrap(v).(type) {
		case *atree.Array:
			out[atree.VerifArrayRoot(x).SlabID()] = true
		case *atree.OrderedMap:
			out[atree.VerifMapRoot(x).SlabID()] = true
		}
	}
	return out
}

type nfSnap struct {
	root   string // content through the root
	handle string // content through the target handle
}

func (in *nfInst) snap() nfSnap {
	return nfSnap{root: nfText(in.root()), handle: nfText(in.tgt())}
}

// ---------- oracle (a): size equation on every slab in memory ----------

func nfSizeCheck(slab atree.Slab) (what, detail string) {
	defer func() {
		if p := recover(); p != nil {
			what, detail = "C06: panic while encoding a slab that is visible in storage", fmt.Sprintf("%T %s: %v", slab, slab.SlabID(), p)
		}
	}()
	id := slab.SlabID()
	kind := atree.VerifSlabKind(slab)
	sec, err := atree.VerifEncodeSections(slab, encMode)
	if err != nil {
		return "C06: a slab visible in storage cannot be encoded", fmt.Sprintf("%s: %v", id, err)
	}
	omitted := 0
	if (kind == 1 || kind == 3 || kind == 6) && !atree.VerifSlabHasExtraData(slab) && !sec.HasNext {
		omitted = 16
	}
	reported := int(slab.ByteSize())
	written := len(sec.Bytes) - sec.EncExtraData - sec.EncInlinedExtraData
	if written+omitted != reported {
		return "C06: reported slab size differs from the bytes written",
			fmt.Sprintf("%s %s: reported %d, encoding %d - extra %d - inlinedExtra %d + omittedNext %d = %d", codecKindNames[kind], id, reported, len(sec.Bytes), sec.EncExtraData, sec.EncInlinedExtraData, omitted, written+omitted)
	}
	d, err := atree.DecodeSlab(id, sec.Bytes, decMode, testutils.DecodeStorable, testutils.DecodeTypeInfo)
	if err != nil {
		return "C07: an encoding produced by the library cannot be decoded", fmt.Sprintf("%s %s: %v", codecKindNames[kind], id, err)
	}
	if int(d.ByteSize()) != reported {
		return "C06: slab decoded from its register reports a different size than the slab that produced the bytes",
			fmt.Sprintf("%s %s: decoded %d, in memory %d", codecKindNames[kind], id, d.ByteSize(), reported)
	}
	b2, err := atree.EncodeSlab(d, encMode)
	if err != nil || !bytes.Equal(b2, sec.Bytes) {
		return "C07: decode then re-encode does not give identical bytes", fmt.Sprintf("%s %s: %v", codecKindNames[kind], id, err)
	}
	return "", ""
}

// nfSizer applies the size equation to the slab objects that exist right after a faulted request:
// the stand-alone root slabs held by the handles and by the values given to the request, and the
// slabs of the write set and of the read cache (collected at once, checked when the case is classified).
type nfSizer struct {
	in      *nfInst
	seen    map[atree.Slab]bool
	onPath  map[atree.SlabID]bool
	vals    []atree.Value
	pending []atree.Slab
	where   []string
	n       int
	skipped int
}

func (in *nfInst) newSizer(extra []atree.Value) *nfSizer {
	z := &nfSizer{in: in, seen: map[atree.Slab]bool{}, onPath: map[atree.SlabID]bool{}}
	z.vals = append(append([]atree.Value{}, in.hs...), extra...)
	for _, v := range z.vals[1:] {
		switch x := nfUnwrap(v).(type) {
		case *atree.Array:
			z.onPath[atree.VerifArrayRoot(x).SlabID()] = true
		case *atree.OrderedMap:
			z.onPath[atree.VerifMapRoot(x).SlabID()] = true
		}
	}
	deltas, cache := atree.VerifStorageKeys(in.inner)
	var ids []atree.SlabID
	for id, ok := range deltas {
		if ok {
			ids = append(ids, id)
		}
	}
	for id, ok := range cache {
		if _, shadowed := deltas[id]; ok && !shadowed {
			ids = append(ids, id)
		}
	}
	sortIDs(ids)
	for _, id := range ids {
		if s, ok := atree.VerifStorageDeltaSlab(in.inner, id); ok {
			if s != nil {
				z.pending, z.where = append(z.pending, s), append(z.where, "write set")
			}
			continue
		}
		if s, ok := atree.VerifStorageCacheSlab(in.inner, id); ok && s != nil {
			z.pending, z.where = append(z.pending, s), append(z.where, "read cache")
		}
	}
	return z
}

// holds: the slab holds (directly or through inlined slabs) a container of the path or a value the
// request was given.  When the propagation of a mutation to the ancestors has failed, the cached
// size of such a slab is stale by design (the library is not atomic there).
func (z *nfSizer) holds(s atree.Storable, depth int) bool {
	if depth > 16 {
		return false
	}
	for _, c := range s.ChildStorables() {
		for i := 0; i < 8; i++ {
			w, ok := c.(atree.WrapperStorable)
			if !ok {
				break
			}
			c = w.UnwrapAtreeStorable()
		}
		if sl, ok := c.(atree.Slab); ok {
			if z.onPath[sl.SlabID()] || z.holds(sl, depth+1) {
				return true
			}
		}
	}
	return false
}

func (z *nfSizer) check(s atree.Slab) (what, detail string) {
	if s == nil || z.seen[s] {
		return "", ""
	}
	z.seen[s] = true
	defer func() {
		if p := recover(); p != nil {
			what, detail = "", "" // a slab that cannot even be walked is left to the storage-wide check
		}
	}()
	if z.holds(s, 0) {
		z.skipped++
		return "", ""
	}
	z.n++
	return nfSizeCheck(s)
}

// handles checks the stand-alone root slabs held by handles / given values.
func (z *nfSizer) handles() (string, string) {
	for _, v := range z.vals {
		var s atree.Slab
		inl := false
		switch x := nfUnwrap(v).(type) {
		case *atree.Array:
			s, inl = atree.VerifArrayRoot(x), x.Inlined()
		case *atree.OrderedMap:
			s, inl = atree.VerifMapRoot(x), x.Inlined()
		}
		if s == nil || inl {
			continue
		}
		if w, d := z.check(s); w != "" {
			return w, "root slab held by a handle: " + d
		}
	}
	return "", ""
}

// storage checks the slabs that were in the write set / read cache right after the request.
func (z *nfSizer) storage() (string, string) {
	for i, s := range z.pending {
		if w, d := z.check(s); w != "" {
			return w, z.where[i] + ": " + d
		}
	}
	return "", ""
}

// nfSizeCheckStorage applies the size equation to every slab object of the write set and the read
// cache of a storage and to the given root slabs (used by attach_cmd.go).
func nfSizeCheckStorage(pst *atree.PersistentSlabStorage, roots []atree.Slab) (string, string) {
	seen := map[atree.Slab]bool{}
	check := func(s atree.Slab, where string) (string, string) {
		if s == nil || seen[s] {
			return "", ""
		}
		seen[s] = true
		if w, d := nfSizeCheck(s); w != "" {
			return w, where + ": " + d
		}
		return "", ""
	}
	for _, s := range roots {
		if w, d := check(s, "root slab held by a handle"); w != "" {
			return w, d
		}
	}
	deltas, cache := atree.VerifStorageKeys(pst)
	var ids []atree.SlabID
	for id := range deltas {
		ids = append(ids, id)
	}
	for id := range cache {
		if _, shadowed := deltas[id]; !shadowed {
			ids = append(ids, id)
		}
	}
	sortIDs(ids)
	for _, id := range ids {
		if s, ok := atree.VerifStorageDeltaSlab(pst, id); ok {
			if w, d := check(s, "write set"); w != "" {
				return w, d
			}
			continue
		}
		if s, ok := atree.VerifStorageCacheSlab(pst, id); ok {
			if w, d := check(s, "read cache"); w != "" {
				return w, d
			}
		}
	}
	return "", ""
}

// nfMeteredVsWritten: the size the storage meters for the uncommitted slabs equals the bytes that a
// commit writes for them (without the extra data sections, plus the omitted empty sibling links).
func nfMeteredVsWritten(pst *atree.PersistentSlabStorage) (what, detail string) {
	defer func() {
		if p := recover(); p != nil {
			what, detail = "C06: panic while encoding the write set", fmt.Sprint(p)
		}
	}()
	deltas, _ := atree.VerifStorageKeys(pst)
	total := uint64(0)
	for id, ok := range deltas {
		if !ok || id.AddressAsUint64() == 0 {
			continue
		}
		slab, _ := atree.VerifStorageDeltaSlab(pst, id)
		sec, err := atree.VerifEncodeSections(slab, encMode)
		if err != nil {
			return "C06: a slab of the write set cannot be encoded", fmt.Sprintf("%s: %v", id, err)
		}
		kind := atree.VerifSlabKind(slab)
		w := len(sec.Bytes) - sec.EncExtraData - sec.EncInlinedExtraData
		if (kind == 1 || kind == 3 || kind == 6) && !atree.VerifSlabHasExtraData(slab) && !sec.HasNext {
			w += 16
		}
		total += uint64(w)
	}
	if m := pst.DeltasSizeWithoutTempAddresses(); m != total {
		return "C06: metered size of the uncommitted slabs differs from the bytes written for them", fmt.Sprintf("metered %d, written %d", m, total)
	}
	return "", ""
}

// ---------- requests ----------

type nfOp struct {
	name   string
	kind   string // for the measured distribution
	idem   bool   // repeating the request after it has taken effect changes nothing
	prep   func(in *nfInst) any
	run    func(in *nfInst, p any) (string, error)
	extras func(p any) []atree.Value
}

func nfSettle(in *nfInst) (string, error) {
	switch x := in.tgt().(type) {
	case *atree.Array:
		return "", x.Append(testutils.Uint64Value(77777))
	case *atree.OrderedMap:
		old, err := x.Set(testutils.CompareValue, testutils.GetHashInput, testutils.NewStringValue("zz-settle"), testutils.Uint64Value(77777))
		if err != nil {
			return "", err
		}
		return nfStorableText(in, old), nil
	}
	return "", nil
}

// nfValSpec describes a value handed to a request; build() materialises it in the instance.
type nfValSpec struct {
	kind  int // 0 small uint, 1 medium string, 2 large string (own slab), 3 new container, 4 committed loose container
	n     uint64
	s     string
	isMap bool
	elems int
	loose nfLoose
	some  bool
}

func (vs nfValSpec) name() string {
	var s string
	switch vs.kind {
	case 0:
		s = fmt.Sprintf("uint %d", vs.n)
	case 1, 2:
		s = fmt.Sprintf("string of %d bytes", len(vs.s))
	case 3:
		s = fmt.Sprintf("new %s of %d", map[bool]string{false: "array", true: "map"}[vs.isMap], vs.elems)
	default:
		s = fmt.Sprintf("committed stand-alone %s %s of %d", map[bool]string{false: "array", true: "map"}[vs.loose.isMap], vs.loose.id, vs.loose.n)
	}
	if vs.some {
		s = "Some(" + s + ")"
	}
	return s
}

func (vs nfValSpec) build(in *nfInst) atree.Value {
	var v atree.Value
	switch vs.kind {
	case 0:
		v = testutils.Uint64Value(vs.n)
	case 1, 2:
		v = testutils.NewStringValue(vs.s)
	case 3:
		if vs.isMap {
			m, err := atree.NewMap(in.st, in.sc.addr, atree.NewDefaultDigesterBuilder(), nfMapTI)
			must(err)
			for i := 0; i < vs.elems; i++ {
				_, err := m.Set(testutils.CompareValue, testutils.GetHashInput, nfKey(i), testutils.Uint64Value(uint64(400+i)))
				must(err)
			}
			v = m
		} else {
			a, err := atree.NewArray(in.st, in.sc.addr, nfArrTI)
			must(err)
			for i := 0; i < vs.elems; i++ {
				must(a.Append(testutils.Uint64Value(uint64(400 + i))))
			}
			v = a
		}
	default:
		if vs.loose.isMap {
			m, err := atree.NewMapWithRootID(in.st, vs.loose.id, atree.NewDefaultDigesterBuilder())
			must(err)
			v = m
		} else {
			a, err := atree.NewArrayWithRootID(in.st, vs.loose.id)
			must(err)
			v = a
		}
	}
	if vs.some {
		v = testutils.NewSomeValue(v)
	}
	return v
}

func (sc *nfScenario) scalarSpec(r *Rng) nfValSpec {
	switch r.Pick(50, 25, 25) {
	case 0:
		return nfValSpec{kind: 0, n: uint64(300 + r.Intn(60000))}
	case 1:
		return nfValSpec{kind: 1, s: randStr(r, 12+r.Intn(30))}
	default:
		return nfValSpec{kind: 2, s: randStr(r, int(atree.MaxInlineArrayElementSize())+r.Intn(100))}
	}
}

func (sc *nfScenario) contSpec(r *Rng) nfValSpec {
	vs := nfValSpec{kind: 3, isMap: r.Chance(55), some: r.Chance(10)}
	switch r.Pick(55, 20, 25) {
	case 0:
		vs.elems = r.Intn(4)
	case 1:
		vs.elems = int(atree.MaxInlineArrayElementSize())/3 + 8 // stand-alone
		if vs.isMap {
			vs.elems = int(atree.MaxInlineMapElementSize())/14 + 4
		}
	default:
		if len(sc.loose) > 0 {
			vs.kind = 4
			vs.loose = sc.loose[r.Intn(len(sc.loose))]
		} else {
			vs.elems = 1
		}
	}
	return vs
}

func nfExtras(p any) []atree.Value {
	if v, ok := p.(atree.Value); ok {
		return []atree.Value{v}
	}
	return nil
}

// ops: candidate requests on the target described by nd.
func (sc *nfScenario) ops(r *Rng, nd *nfNode) []nfOp {
	var ops []nfOp
	var scalarPos, kidPos []int
	for i := 0; i < nd.size(); i++ {
		if _, ok := nd.kids[i]; ok {
			kidPos = append(kidPos, i)
		} else {
			scalarPos = append(scalarPos, i)
		}
	}
	pickScalar := func() (int, bool) {
		if len(scalarPos) == 0 {
			return 0, false
		}
		return scalarPos[r.Intn(len(scalarPos))], true
	}
	pickKid := func() (int, bool) {
		if len(kidPos) == 0 {
			return 0, false
		}
		return kidPos[r.Intn(len(kidPos))], true
	}
	if !nd.isMap {
		arr := func(in *nfInst) *atree.Array { return in.tgt().(*atree.Array) }
		n := nd.n
		for _, attach := range []bool{false, true} {
			var vs nfValSpec
			kind := "scalar"
			if attach {
				vs = sc.contSpec(r)
				kind = "attach"
			} else {
				vs = sc.scalarSpec(r)
			}
			prep := func(in *nfInst) any { return vs.build(in) }
			ops = append(ops, nfOp{name: "Array.Append(" + vs.name() + ")", kind: "append-" + kind, prep: prep, extras: nfExtras,
				run: func(in *nfInst, p any) (string, error) { return "", arr(in).Append(p.(atree.Value)) }})
			i := r.Intn(n + 1)
			ops = append(ops, nfOp{name: fmt.Sprintf("Array.Insert(%d, %s)", i, vs.name()), kind: "insert-" + kind, prep: prep, extras: nfExtras,
				run: func(in *nfInst, p any) (string, error) { return "", arr(in).Insert(uint64(i), p.(atree.Value)) }})
			if j, ok := pickScalar(); ok {
				ops = append(ops, nfOp{name: fmt.Sprintf("Array.Set(%d, %s)", j, vs.name()), kind: "set-" + kind, idem: !attach, prep: prep, extras: nfExtras,
					run: func(in *nfInst, p any) (string, error) {
						old, err := arr(in).Set(uint64(j), p.(atree.Value))
						if err != nil {
							return "", err
						}
						return nfStorableText(in, old), nil
					}})
			}
		}
		if j, ok := pickScalar(); ok {
			ops = append(ops, nfOp{name: fmt.Sprintf("Array.Remove(%d)", j), kind: "remove-scalar",
				run: func(in *nfInst, _ any) (string, error) {
					old, err := arr(in).Remove(uint64(j))
					if err != nil {
						return "", err
					}
					return nfStorableText(in, old), nil
				}})
		}
		if j, ok := pickKid(); ok {
			ops = append(ops, nfOp{name: fmt.Sprintf("Array.Remove(%d) detaching the %s child", j, nd.kids[j].class), kind: "detach-remove",
				run: func(in *nfInst, _ any) (string, error) {
					old, err := arr(in).Remove(uint64(j))
					if err != nil {
						return "", err
					}
					return nfStorableText(in, old), nil
				}})
		}
		if j, ok := pickKid(); ok {
			vs := sc.scalarSpec(r)
			ops = append(ops, nfOp{name: fmt.Sprintf("Array.Set(%d, %s) overwriting the %s child", j, vs.name(), nd.kids[j].class), kind: "detach-set",
				prep: func(in *nfInst) any { return vs.build(in) },
				run: func(in *nfInst, p any) (string, error) {
					old, err := arr(in).Set(uint64(j), p.(atree.Value))
					if err != nil {
						return "", err
					}
					return nfStorableText(in, old), nil
				}})
		}
		return ops
	}
	m := func(in *nfInst) *atree.OrderedMap { return in.tgt().(*atree.OrderedMap) }
	cmp, hip := atree.ValueComparator(testutils.CompareValue), atree.HashInputProvider(testutils.GetHashInput)
	set := func(k atree.Value) func(in *nfInst, p any) (string, error) {
		return func(in *nfInst, p any) (string, error) {
			old, err := m(in).Set(cmp, hip, k, p.(atree.Value))
			if err != nil {
				return "", err
			}
			return nfStorableText(in, old), nil
		}
	}
	remove := func(k atree.Value) func(in *nfInst, p any) (string, error) {
		return func(in *nfInst, _ any) (string, error) {
			ks, vs, err := m(in).Remove(cmp, hip, k)
			if err != nil {
				return "", err
			}
			return nfStorableText(in, ks) + "=" + nfStorableText(in, vs), nil
		}
	}
	newKey := func() atree.Value {
		if r.Chance(70) {
			return nfKey(len(nd.keys) + 1 + r.Intn(50))
		}
		return testutils.NewStringValue("new-" + randStr(r, 1+r.Intn(10)))
	}
	for _, attach := range []bool{false, true} {
		var vs nfValSpec
		kind := "scalar"
		if attach {
			vs = sc.contSpec(r)
			kind = "attach"
		} else {
			vs = sc.scalarSpec(r)
		}
		prep := func(in *nfInst) any { return vs.build(in) }
		k := newKey()
		ops = append(ops, nfOp{name: fmt.Sprintf("OrderedMap.Set(new key %v, %s)", k, vs.name()), kind: "mapset-new-" + kind, idem: !attach, prep: prep, extras: nfExtras, run: set(k)})
		if j, ok := pickScalar(); ok {
			k := nd.keys[j]
			ops = append(ops, nfOp{name: fmt.Sprintf("OrderedMap.Set(present key %v, %s)", k, vs.name()), kind: "mapset-present-" + kind, idem: !attach, prep: prep, extras: nfExtras, run: set(k)})
		}
	}
	if j, ok := pickScalar(); ok {
		k := nd.keys[j]
		ops = append(ops, nfOp{name: fmt.Sprintf("OrderedMap.Remove(%v)", k), kind: "mapremove-scalar", run: remove(k)})
	}
	if j, ok := pickKid(); ok {
		k := nd.keys[j]
		ops = append(ops, nfOp{name: fmt.Sprintf("OrderedMap.Remove(%v) detaching the %s child", k, nd.kids[j].class), kind: "detach-mapremove", run: remove(k)})
	}
	if j, ok := pickKid(); ok {
		k := nd.keys[j]
		vs := sc.scalarSpec(r)
		ops = append(ops, nfOp{name: fmt.Sprintf("OrderedMap.Set(%v, %s) overwriting the %s child", k, vs.name(), nd.kids[j].class), kind: "detach-mapset",
			prep: func(in *nfInst) any { return vs.build(in) }, run: set(k)})
	}
	return ops
}

// ---------- running one request at every fault position ----------

type nfRun struct {
	rep   *Report
	hist  int
	tag   string
	sc    *nfScenario
	rng   *Rng
	nviol int
	all   bool
	kinds string // fault kinds to use
}

func (r *nfRun) viol(step int, what, detail string) {
	r.nviol++
	if r.nviol <= 4 {
		r.rep.Violate(r.hist, r.tag, step, what, nfClip(r.sc.desc+" | "+detail, 1100))
	}
}

type nfResult struct {
	out  string
	err  error
	pan  string
	snap nfSnap
	via  string
	cnt  string
	ver  error
	base *LogBase
	last uint64
	re   string // content after reopening the committed ledger
	cerr error
}

func nfCallOp(f func() (string, error)) (out string, err error, pan string) {
	defer func() {
		if p := recover(); p != nil {
			pan = fmt.Sprint(p)
		}
	}()
	out, err = f()
	return
}

func nfClip(s string, n int) string {
	if len(s) > n {
		return s[:n] + "..."
	}
	return s
}

func nfDiff(a, b string) string {
	i := 0
	for i < len(a) && i < len(b) && a[i] == b[i] {
		i++
	}
	lo := i - 60
	if lo < 0 {
		lo = 0
	}
	return fmt.Sprintf("first difference at byte %d: %q vs %q", i, nfClip(a[lo:], 170), nfClip(b[lo:], 170))
}

func nfErrText(err error) string {
	if err == nil {
		return ""
	}
	return fmt.Sprintf(" error %T: %v", err, err)
}

// safeCommit commits, unless a slab of the write set makes the encoder panic (FastCommit encodes
// in worker goroutines: such a panic would take the process down).
func (in *nfInst) safeCommit() (err error) {
	deltas, _ := atree.VerifStorageKeys(in.inner)
	for id, ok := range deltas {
		if !ok {
			continue
		}
		s, _ := atree.VerifStorageDeltaSlab(in.inner, id)
		func() {
			defer func() {
				if p := recover(); p != nil {
					err = fmt.Errorf("encoding slab %s of the write set panics: %v", id, p)
				}
			}()
			if _, e := atree.EncodeSlab(s, encMode); e != nil && err == nil {
				err = fmt.Errorf("slab %s of the write set cannot be encoded: %w", id, e)
			}
		}()
	}
	if err != nil {
		return err
	}
	return in.inner.FastCommit(2)
}

// finish observes the final state of an instance: content, verification, commit, reopen.
func (in *nfInst) finish(res *nfResult) {
	res.snap = in.snap()
	res.via = in.viaRoot()
	cs := make([]string, len(in.hs))
	for i, h := range in.hs {
		cs[i] = fmt.Sprint(nfCount(h))
	}
	res.cnt = strings.Join(cs, "/")
	res.ver = in.verify()
	res.cerr = in.safeCommit()
	res.base = in.base
	res.last = in.base.LastIndex(in.sc.addr)
	if res.cerr == nil {
		st2 := newStorage(in.base.Clone())
		var v atree.Value
		var err error
		if in.sc.root.isMap {
			v, err = atree.NewMapWithRootID(st2, in.sc.rootID, atree.NewDefaultDigesterBuilder())
		} else {
			v, err = atree.NewArrayWithRootID(st2, in.sc.rootID)
		}
		if err != nil {
			res.re = "!" + err.Error()
		} else {
			res.re = nfText(v)
		}
	}
}

func (r *nfRun) where(path []nfStep, sched int) string {
	t := "root"
	if len(path) > 0 {
		t = "child at"
		nd := r.sc.root
		for _, p := range path {
			if nd.isMap {
				t += fmt.Sprintf(" /%v", nd.keys[p.pos])
			} else {
				t += fmt.Sprintf(" /%d", p.pos)
			}
			if nd.some[p.pos] {
				t += "(Some)"
			}
			nd = nd.kids[p.pos]
		}
		t += fmt.Sprintf(" (%s %s of %d, depth %d)", nd.class, map[bool]string{false: "array", true: "map"}[nd.isMap], nd.size(), len(path))
	}
	return t + ", " + []string{"cache kept", "read cache dropped after the handles were obtained", "read cache dropped, then the target read once"}[sched]
}

func (r *nfRun) doOp(opIdx int, path []nfStep, sched int, op *nfOp) {
	sc, rep := r.sc, r.rep
	prep := func(in *nfInst) any {
		if op.prep == nil {
			return nil
		}
		return op.prep(in)
	}
	// twins are built on demand: seq is the number of times the request is performed, settle whether
	// the extra mutation follows
	twins := map[string]*nfResult{}
	var calls [256]int
	schedMain := sched
	var twinS func(sched int, reps int, settle bool) *nfResult
	twin := func(reps int, settle bool) *nfResult { return twinS(sched, reps, settle) }
	twinS = func(sched int, reps int, settle bool) *nfResult {
		key := fmt.Sprintf("%d/%d/%v", sched, reps, settle)
		if t, ok := twins[key]; ok {
			return t
		}
		in := sc.open(path, sched)
		p := prep(in)
		res := &nfResult{}
		for i := 0; i < reps && res.err == nil && res.pan == ""; i++ {
			if i == 0 {
				in.st.reset()
				in.base.ArmRead(-1)
			}
			res.out, res.err, res.pan = nfCallOp(func() (string, error) { return op.run(in, p) })
			if i == 0 && key == fmt.Sprintf("%d/1/false", schedMain) {
				calls = in.st.cnt
				calls['R'] = in.base.nRead
			}
		}
		if settle && res.err == nil && res.pan == "" {
			_, res.err, res.pan = nfCallOp(func() (string, error) { return nfSettle(in) })
		}
		if res.err == nil && res.pan == "" {
			in.finish(res)
		}
		twins[key] = res
		return res
	}
	t1 := twin(1, false)
	ctx0 := fmt.Sprintf("%s on the %s", op.name, r.where(path, sched))
	if t1.pan != "" {
		r.viol(opIdx, "C10: a request panicked without any fault", ctx0+": "+t1.pan)
		return
	}
	if t1.err != nil {
		rep.Event("request_refused_without_fault")
		return
	}
	if t1.ver != nil || t1.cerr != nil {
		rep.Event("twin_not_clean")
		return
	}
	rep.Op(op.kind)
	// C08 literally: without any fault, the outcome does not depend on where the slabs are served from
	for s2 := 0; s2 < 3; s2++ {
		if s2 == sched {
			continue
		}
		tx := twinS(s2, 1, false)
		ctxs := fmt.Sprintf("%s vs the same request with %s", ctx0, []string{"the cache kept", "the read cache dropped after the handles were obtained", "the read cache dropped and the target read once"}[s2])
		switch {
		case tx.pan != "" || tx.err != nil:
			r.viol(opIdx, "C08: a request that succeeds under one cache schedule fails under another (no fault involved)", ctxs+": "+tx.pan+nfErrText(tx.err))
		case tx.out != t1.out:
			r.viol(opIdx, "C08: the answer of a request differs between cache schedules (no fault involved)", ctxs+": "+nfDiff(t1.out, tx.out))
		case tx.snap != t1.snap || tx.via != t1.via || tx.cnt != t1.cnt || tx.re != t1.re:
			r.viol(opIdx, "C08: the content after a request differs between cache schedules (no fault involved)", ctxs+": "+nfDiff(t1.snap.root+t1.via+t1.cnt+t1.re, tx.snap.root+tx.via+tx.cnt+tx.re))
		case tx.ver != nil || tx.cerr != nil:
			r.viol(opIdx, "C08: structural validity after a request differs between cache schedules (no fault involved)", ctxs+fmt.Sprintf(": %v %v", tx.ver, tx.cerr))
		default:
			if d := SameRegisters(t1.base, tx.base); d != "" {
				r.viol(opIdx, "C08: the committed registers differ between cache schedules (no fault involved)", ctxs+": "+nfClip(d, 300))
			} else {
				rep.Event("cross_schedule_twins_equal")
			}
		}
	}
	ref := sc.open(path, sched)
	// the slabs a lookup of the target through its ancestors retrieves: the descent of every
	// ancestor update
	descent := map[atree.SlabID]bool{}
	ref.st.reset()
	ref.st.on = true
	_, _ = ref.walk()
	ref.st.on = false
	for _, l := range ref.st.log {
		descent[l.id] = true
	}
	before := ref.snap() // (this warms the reference instance only)
	if info, err := atree.VerifContainerInfo(ref.tgt()); err == nil {
		switch {
		case len(path) == 0:
			rep.Event("target:root")
		case info.Inlined:
			rep.Event("target:inlined")
		case info.DataSlabs <= 1:
			rep.Event("target:stand-alone-one-slab")
		default:
			rep.Event("target:several-slabs")
		}
		rep.Event(fmt.Sprintf("target_depth:%d", len(path)))
	}

	type pos struct {
		kind byte
		k    int
	}
	var cases []pos
	for _, kind := range []byte(r.kinds) {
		n := calls[kind]
		limit := 10
		if kind == 'G' {
			limit = 6
		}
		if n <= limit || r.all {
			for k := 0; k < n; k++ {
				cases = append(cases, pos{kind, k})
			}
			continue
		}
		seen := map[int]bool{0: true, n - 1: true}
		cases = append(cases, pos{kind, 0}, pos{kind, n - 1})
		for len(seen) < limit {
			k := r.rng.Intn(n)
			if !seen[k] {
				seen[k] = true
				cases = append(cases, pos{kind, k})
			}
		}
	}
	for _, c := range cases {
		if r.nviol > 4 {
			return
		}
		in := sc.open(path, sched)
		p := prep(in)
		in.st.reset()
		in.st.on = true
		in.base.LogReads = true
		in.base.ResetLog()
		if c.kind == 'R' {
			in.base.ArmRead(c.k)
		} else {
			in.base.ArmRead(-1)
			in.st.arm, in.st.k = c.kind, c.k
		}
		var extra []atree.Value
		if op.extras != nil {
			extra = op.extras(p)
		}
		flagsBefore := in.flags(extra)
		pathIDs := in.rootIDs(extra)
		lastBefore := in.base.LastIndex(sc.addr)
		out1, err1, pan := nfCallOp(func() (string, error) { return op.run(in, p) })
		fired := in.st.fired || (c.kind == 'R' && in.base.nRead > c.k)
		in.base.ArmRead(-1)
		in.st.arm = 0
		in.st.on = false
		var failedID atree.SlabID
		if c.kind == 'R' {
			for _, l := range in.base.Log {
				if l.Fail {
					failedID = l.ID
				}
			}
		} else {
			for _, l := range in.st.log {
				if l.fail {
					failedID = l.id
				}
			}
		}
		kindName := map[byte]string{'R': "ledger read", 'G': "SlabStorage.Retrieve", 'S': "SlabStorage.Store", 'D': "SlabStorage.Remove"}[c.kind]
		ctx := fmt.Sprintf("%s, %s %d of %d (%s) failing once", ctx0, kindName, c.k, calls[c.kind], failedID)
		rep.Event("cases")
		if pan != "" {
			r.viol(opIdx, "C10: the implementation panicked on a transient storage fault", ctx+": "+pan)
			continue
		}
		if !fired {
			rep.Event("armed_fault_not_reached")
			continue
		}
		rep.Event("fault:" + kindName)
		// (a) size equation, before anything else touches the containers: the containers the client
		// holds.  The other slabs of the storage are collected now and checked below: after a failed
		// Store / Remove that came after the point of mutation the storage may hold slabs the library
		// was about to discard (emptied by a merge), which nobody claims to be encodable
		sizer := in.newSizer(extra)
		sizeViol := func(what, detail string) {
			r.viol(opIdx, what, ctx+fmt.Sprintf(" (request returned%s): ", nfErrText(err1))+detail)
		}
		if what, detail := sizer.handles(); what != "" {
			sizeViol(what, detail)
			continue
		}
		if c.kind == 'R' || c.kind == 'G' {
			if what, detail := sizer.storage(); what != "" {
				sizeViol(what, detail)
				continue
			}
		}
		countSized := func() {
			rep.EventN("slabs_size_checked_after_a_fault", sizer.n)
			rep.EventN("ancestor_slabs_with_stale_size_by_design_skipped", sizer.skipped)
			sizer.n, sizer.skipped = 0, 0
		}
		countSized()
		if (c.kind == 'S' || c.kind == 'D') && err1 != nil && in.snap() == before && in.flags(extra) == flagsBefore {
			// nothing visible changed: every slab of the storage must be consistent
			if what, detail := sizer.storage(); what != "" {
				sizeViol(what, detail)
				continue
			}
			countSized()
			rep.Event("storage_wide_size_check_after_a_failed_write_without_visible_effect")
		}
		if c.kind == 'S' {
			// the library does not claim to survive a failing Store (PersistentSlabStorage.Store never
			// fails): size equation and panics only
			rep.Event("store_fault:size_equation_and_panics_only")
			_, _, pan2 := nfCallOp(func() (string, error) { return nfSettle(in) })
			if pan2 != "" {
				r.viol(opIdx, "C10: a mutation through the same handle after a failed Store panicked", ctx+": "+pan2)
			}
			continue
		}
		flagsAfter := in.flags(extra)
		continued := false
		var want *nfResult
		level := 2 // 2: everything is compared with the twin; 1: content only; 0: nothing (panics only)
		switch {
		case err1 == nil:
			rep.Event("fault_absorbed_by_the_request")
			if out1 != t1.out {
				r.viol(opIdx, "C08: a request that hit a transient storage fault and reported success answered something else than the fault-free twin", ctx+": "+nfDiff(out1, t1.out))
				continue
			}
			want = t1
		default:
			if !nfIsInjected(err1) {
				rep.Event("faulted_request_failed_with_another_error")
			} else {
				var ee *atree.ExternalError
				if !errors.As(err1, &ee) {
					rep.Event("injected_fault_not_reported_as_ExternalError")
				}
			}
			after := in.snap()
			if after == before && flagsAfter == flagsBefore {
				// (b) failed without visible effect
				rep.Event("failed_without_visible_effect")
				if err := in.verify(); err != nil {
					r.viol(opIdx, "C18: a request that failed on a transient storage fault and changed nothing visible left the root container invalid", ctx+": "+err.Error())
					continue
				}
				if sched != 0 {
					in.inner.DropCache()
				}
				out2, err2, pan2 := nfCallOp(func() (string, error) { return op.run(in, p) })
				if pan2 != "" {
					r.viol(opIdx, "C10: the retried request panicked", ctx+": "+pan2)
					continue
				}
				if got, w := out2+nfErrText(err2), t1.out; got != w {
					r.viol(opIdx, "C08: the retry (same handle) of a request that failed on a transient storage fault without visible effect does not answer what the fault-free twin answered", ctx+": "+nfDiff(got, w))
					continue
				}
				rep.Event("retried_requests")
				want = t1
			} else {
				// (c) failed after it had taken effect: the client goes on through the same handle
				rep.Event("failed_after_taking_effect")
				continued = true
				switch {
				case flagsAfter != flagsBefore:
					// a container of the path moved out of / into its parent during the failed request and
					// the parent did not learn about it: the library does not repair that by itself
					// (a stand-alone child that is not inlinable never notifies its parent)
					level = 0
					rep.Event("class:inline_status_changed_during_the_failed_request")
				case c.kind == 'D' && pathIDs[failedID], c.kind != 'D' && descent[failedID]:
					// the fault hit the descent of an ancestor's update (or the Remove of Inline): no
					// ancestor slab was touched by the failed propagation
					rep.Event("class:fault_in_the_descent_of_an_ancestor_update")
				default:
					// a sibling could not be loaded for a merge / rebalance, a slab could not be removed after
					// a merge, ...: the unchanged library leaves counts and slab trees half-updated there
					// (see readfault: reads after the point of mutation)
					level = 0
					rep.Event("class:fault_after_the_point_of_mutation_of_a_slab_tree")
				}
				if level == 2 && strings.HasPrefix(op.kind, "detach") {
					// what the failed request would have returned (the detached container) is lost with the
					// error: registers that are not reachable from the root may differ
					level = 1
					rep.Event("class:detached_value_lost_with_the_error")
				}
				if sched != 0 {
					in.inner.DropCache()
				}
				if op.idem {
					_, err2, pan2 := nfCallOp(func() (string, error) { return op.run(in, p) })
					if pan2 != "" {
						r.viol(opIdx, "C10: the repeated request panicked", ctx+": "+pan2)
						continue
					}
					if err2 != nil {
						if level > 0 {
							r.viol(opIdx, "C10: repeating an idempotent request through the same handle after a transient storage fault fails", ctx+": "+err2.Error())
						}
						continue
					}
					rep.Event("repeated_idempotent_requests")
					want = twin(2, false)
				} else {
					_, err2, pan2 := nfCallOp(func() (string, error) { return nfSettle(in) })
					if pan2 != "" {
						r.viol(opIdx, "C10: a mutation through the same handle after a transient storage fault panicked", ctx+": "+pan2)
						continue
					}
					if err2 != nil {
						if level > 0 {
							r.viol(opIdx, "C10: a mutation through the same handle after a transient storage fault fails", ctx+": "+err2.Error())
						}
						continue
					}
					rep.Event("follow_up_mutations")
					want = twin(1, true)
				}
				if want.err != nil || want.pan != "" {
					rep.Event("twin_of_the_continuation_refused")
					continue
				}
				if level == 0 {
					// not claimed; recorded: does what the client did through the handle reach the root?
					var got nfResult
					in.finish(&got)
					switch {
					case got.snap.root != want.snap.root || got.re != want.re:
						rep.Event("observation:content_through_the_root_differs_from_the_twin_after_a_non_atomic_failure")
						if got.snap.root != want.snap.root {
							rep.Sample("observation (not claimed), history " + r.tag + ": " + r.sc.desc + " | " + ctx + ": content through the root differs from the twin's after the client went on through the same handle: " + nfDiff(got.snap.root, want.snap.root))
						} else {
							rep.Event("observation:content_after_commit_and_reopen_differs_from_the_twin_after_a_non_atomic_failure")
						}
					case got.ver != nil:
						rep.Event("observation:root_invalid_after_a_non_atomic_failure")
					default:
						rep.Event("observation:non_atomic_failure_healed_by_the_continuation")
					}
					continue
				}
			}
		}
		// (d) final state against the twin
		var got nfResult
		in.finish(&got)
		if got.snap.root != want.snap.root {
			r.viol(opIdx, "C08: content read through the root after a transient storage fault and the client's retry differs from the fault-free twin", ctx+": "+nfDiff(got.snap.root, want.snap.root))
			continue
		}
		if got.snap.handle != want.snap.handle {
			r.viol(opIdx, "C08: content read through the target handle after a transient storage fault and the client's retry differs from the fault-free twin", ctx+": "+nfDiff(got.snap.handle, want.snap.handle))
			continue
		}
		if got.via != want.via {
			r.viol(opIdx, "C10: the target re-read through its ancestors differs from the fault-free twin (a mutation through the handle did not reach the parent)", ctx+": "+nfDiff(got.via, want.via))
			continue
		}
		if got.cnt != want.cnt {
			r.viol(opIdx, "C08: Count() of the containers on the path differs from the fault-free twin", ctx+": "+got.cnt+" vs "+want.cnt)
			continue
		}
		if level < 2 {
			if got.cerr != nil {
				rep.Event("observation:commit_impossible_after_a_fault_past_the_point_of_mutation")
			} else if got.re != want.re {
				r.viol(opIdx, "C08: content after commit and reopen differs from the fault-free twin", ctx+": "+nfDiff(got.re, want.re))
				continue
			}
			rep.Event("content_equal_to_the_twin")
			continue
		}
		if got.ver != nil && want.ver == nil {
			r.viol(opIdx, "C10: the root container is invalid after a transient storage fault and the client's retry", ctx+": "+got.ver.Error())
			continue
		}
		if got.cerr != nil {
			r.viol(opIdx, "C08: commit fails after a transient storage fault and the client's retry", ctx+": "+got.cerr.Error())
			continue
		}
		if got.re != want.re {
			r.viol(opIdx, "C08: content after commit and reopen differs from the fault-free twin", ctx+": "+nfDiff(got.re, want.re))
			continue
		}
		if got.last != want.last {
			rep.Event("slab_index_burnt_by_the_failed_attempt")
			continue
		}
		if continued && !op.idem {
			// the ancestors of the twin saw two updates, those of the faulted run one: merges and
			// rebalances may legitimately have been decided differently
			rep.Event("registers_not_compared:continuation_is_another_request")
			continue
		}
		if continued && want.last != lastBefore {
			// identifiers were allocated by the request or the continuation: after a failed propagation
			// the ancestors see the sizes in another order, so splits (and their identifiers) may
			// legitimately come in another order
			rep.Event("registers_not_compared:identifiers_allocated_around_a_failed_propagation")
			continue
		}
		if d := SameRegisters(got.base, want.base); d != "" {
			r.viol(opIdx, "C08: registers committed after a transient storage fault and the client's retry differ from the fault-free twin", ctx+": "+nfClip(d, 300))
			continue
		}
		rep.Event("registers_equal_to_the_twin")
	}
}

func cmdNestedFaultOps(a Args) {
	prop := a.Prop
	if prop == "" {
		prop = "C08"
	}
	mode := a.Mode
	all := false
	if strings.HasSuffix(mode, "+all") {
		all = true
		mode = strings.TrimSuffix(mode, "+all")
	}
	kinds := "RGSD"
	switch mode {
	case "reads":
		kinds = "RG"
	case "writes":
		kinds = "SD"
	}
	rep := NewReport(prop, a.Seed)
	rep.Rule = "committed tree: root array/map (mostly several slabs) with child arrays/maps of the classes small inlined / tuned just below / just above the inline limit of their slot / stand-alone one slab / several slabs / nested up to 3 levels, some wrapped in SomeValue, plus committed unattached containers; T in {256,512}. " +
		"Per case: copy of the ledger, fresh storage behind a wrapping SlabStorage, handles of root..target obtained once top-down, cache schedule {keep, DropCache, DropCache+read target}; one request through the target handle (Append/Insert/Set/Remove with scalars, strings in their own slab, attaching new or committed stand-alone containers, detaching children by Remove/overwrite) with call k of kind {ledger read, Retrieve, Store, Remove} failing once, for every k the fault-free twin performs (sampled above 10). " +
		"Oracles: size equation (reported == written - extra sections + omitted sibling link, decoded size equal) on every slab of write set, cache and handle roots directly after the fault; failure without visible effect => root verifies, retry through the same handle answers like the twin; failure after effect => client repeats (idempotent) or mutates once more through the same handle, twin does the same without fault; final: content through root, through the handle, target re-read through ancestors, Counts, VerifyArray/VerifyMap, commit, content after reopen, registers (unless the failed attempt burnt a slab index) equal the twin's. non-trivial = scenario with >= 10 fired faults"
	master := NewRng(a.Seed)
	defer atree.VerifSetThreshold(1024)
	nOps := a.Steps
	if nOps <= 0 || nOps >= 300 {
		nOps = 8
	}
	for h := 0; h < a.N; h++ {
		hr := master.Fork(uint64(h) + 1)
		tag := fmt.Sprintf("o%d", h)
		if !want(tag) {
			continue
		}
		fired0 := rep.Events["cases"] - rep.Events["armed_fault_not_reached"]
		r := &nfRun{rep: rep, hist: h, tag: tag, all: all, rng: hr.Fork(7), kinds: kinds}
		func() {
			defer func() {
				if p := recover(); p != nil {
					if r.sc == nil {
						r.sc = &nfScenario{}
					}
					r.viol(0, "C10: the harness or the implementation panicked outside a request", fmt.Sprint(p))
				}
				atree.VerifSetThreshold(1024)
			}()
			sc := nfNewScenario(hr)
			r.sc = sc
			gr := hr.Fork(3)
			targets := sc.targets()
			type job struct {
				path  []nfStep
				sched int
				op    nfOp
			}
			var jobs []job
			for i := 0; i < nOps; i++ {
				var path []nfStep
				if len(targets) > 1 && !gr.Chance(15) {
					path = targets[1+gr.Intn(len(targets)-1)]
					// prefer deep targets
					for t := 0; t < 2 && len(path) < 2; t++ {
						if q := targets[1+gr.Intn(len(targets)-1)]; len(q) > len(path) {
							path = q
						}
					}
				}
				ops := sc.ops(gr, sc.nodeAt(path))
				if len(ops) == 0 {
					continue
				}
				jobs = append(jobs, job{path, gr.Pick(25, 55, 20), ops[gr.Intn(len(ops))]})
			}
			for i := range jobs {
				r.doOp(i, jobs[i].path, jobs[i].sched, &jobs[i].op)
				rep.Steps++
			}
			if h < 1 && len(jobs) > 0 {
				rep.Sample(fmt.Sprintf("%s: %s; %d containers; first request: %s on the %s", tag, sc.desc, len(targets), jobs[0].op.name, r.where(jobs[0].path, jobs[0].sched)))
			}
		}()
		rep.Histories++
		if rep.Events["cases"]-rep.Events["armed_fault_not_reached"]-fired0 >= 10 && r.nviol == 0 {
			rep.Distinct(tag)
		}
	}
	rep.Write(a.Out + "/report.json")
	fmt.Printf("nestedfault ops: %d scenarios, %d requests, %d cases, %d violations, %d non-trivial\n", rep.Histories, rep.Steps, rep.Events["cases"], len(rep.Violations), rep.Nontrivial)
}
