//go:build verif

package main

// readfault_iter.go — the iterator retry matrix of `readfault -prop C13` (modes `iter` and `retry`).
//
// For a committed scenario (readfault_cmd.go) and every selected target container (the root, multi-slab
// child arrays / maps reached through the parent, a small child; optionally with the read cache dropped
// or partially warmed by lookups) EVERY iterator object of the public API is drained completely:
//
//   Array       Iterator, ReadOnlyIterator, ReadOnlyIteratorWithMutationCallback, RangeIterator,
//               ReadOnlyRangeIterator, ReadOnlyRangeIteratorWithMutationCallback           (Next)
//   OrderedMap  Iterator, ReadOnlyIterator, ReadOnlyIteratorWithMutationCallback, each advanced by
//               Next only, NextKey only, NextValue only, a random mixture of the three on one iterator,
//               and a mixture where the RETRY of a failed call uses another method than the failed one
//
// A fault-free twin (copy of the ledger, fresh storage) gives the reference sequence, the number R of
// ledger reads and, per read, the advancing call it belongs to.  Then, for every read k < R (stratified
// sample when R exceeds the budget: every (method, kind of register) class is hit), a fresh copy drains
// the same iterator with read k failing once; the caller retries the failed call ON THE SAME ITERATOR.
// For the mutable map iterator the same is done with the caller-supplied hash-input provider and the
// comparator failing once (they are the other fallible components of the next-key lookup).
//
// Oracles (nothing knows what the container holds; the reference is the twin):
//   * the concatenation of everything yielded equals the twin's sequence: nothing skipped, nothing
//     repeated, no early end, no unrelated error; the end is sticky (every method reports the end again);
//   * fault-free: a keys-only / values-only / mixed drain yields the projections of the pairs the same
//     iterator flavour yields when advanced by Next() alone; a range is the slice of the full drain;
//   * Count() is unchanged, and the loaded-value iteration after the retried drain equals the twin's
//     (the fault left nothing half-loaded).
// Known behaviour of the UNCHANGED library kept as observation events, never violations: the read-only
// map iterator advances its element cursor before the stored value of a key / value is read, so a
// failed read of a key / value register (not a slab of the map's own tree) followed by a retry skips
// that element (DESIGN.md 7.3).

import (
	"errors"
	"fmt"
	"sort"
	"strings"

	"github.com/onflow/atree"
	testutils "github.com/onflow/atree/test_utils"
)

// ---------- fallible caller-supplied components ----------

type rfComp struct {
	nHip, nCmp       int
	failHip, failCmp int // call index failing once; -1 = never
}

func newRfComp() *rfComp { return &rfComp{failHip: -1, failCmp: -1} }

func (c *rfComp) hip(v atree.Value, buf []byte) ([]byte, error) {
	k := c.nHip
	c.nHip++
	if k == c.failHip {
		return nil, fmt.Errorf("transient hash-input failure: %w", errInjected)
	}
	return testutils.GetHashInput(v, buf)
}

func (c *rfComp) cmp(st atree.SlabStorage, v atree.Value, s atree.Storable) (bool, error) {
	k := c.nCmp
	c.nCmp++
	if k == c.failCmp {
		return false, fmt.Errorf("transient comparator failure: %w", errInjected)
	}
	return testutils.CompareValue(st, v, s)
}

// ---------- shallow rendering (never reads the ledger) ----------

func rfShallow(v atree.Value, depth int) string {
	if depth > rfMaxDepth {
		return "<deep>"
	}
	switch x := v.(type) {
	case nil:
		return "nil"
	case testutils.SomeValue:
		inner, _ := x.UnwrapAtreeValue()
		return "Some(" + rfShallow(inner, depth+1) + ")"
	case *atree.Array:
		return fmt.Sprintf("array#%x(%d)", x.ValueID(), x.Count())
	case *atree.OrderedMap:
		return fmt.Sprintf("map#%x(%d)", x.ValueID(), x.Count())
	}
	return fmt.Sprintf("%T:%v", v, v)
}

// ---------- iterator flavours ----------

const (
	rfmNext = iota
	rfmKey
	rfmValue
)

var rfMethodName = []string{"Next", "NextKey", "NextValue"}

type rfFlavour struct {
	name    string
	isMap   bool
	roMap   bool // read-only map iterator: not retry-safe for key / value registers in the unchanged library
	comps   bool // uses the caller's comparator and hash-input provider
	rng     bool // array range [s,e)
	s, e    uint64
	bound   uint64
	mkArr   func(a *atree.Array) (atree.ArrayIterator, error)
	mkMap   func(m *atree.OrderedMap, c *rfComp) (atree.MapIterator, error)
	fullKey string // flavour whose complete Next() drain is the reference for projections / slices
}

func rfArrayFlavours(r *Rng, n uint64) []rfFlavour {
	nop := func(atree.Value) {}
	bounds := func() (uint64, uint64) {
		if n == 0 {
			return 0, 0
		}
		switch r.Intn(5) {
		case 0:
			return 0, n
		case 1: // long range: crosses slab boundaries
			s := uint64(r.Intn(int(n/4 + 1)))
			return s, n - uint64(r.Intn(int(n/4+1)))
		case 2: // tail
			return uint64(r.Intn(int(n))), n
		case 3: // head
			return 0, uint64(r.Intn(int(n + 1)))
		}
		s := uint64(r.Intn(int(n)))
		return s, s + uint64(r.Intn(int(n-s+1)))
	}
	out := []rfFlavour{
		{name: "Array.Iterator", bound: n, mkArr: func(a *atree.Array) (atree.ArrayIterator, error) { return a.Iterator() }},
		{name: "Array.ReadOnlyIterator", bound: n, mkArr: func(a *atree.Array) (atree.ArrayIterator, error) { return a.ReadOnlyIterator() }},
		{name: "Array.ReadOnlyIteratorWithMutationCallback", bound: n, mkArr: func(a *atree.Array) (atree.ArrayIterator, error) {
			return a.ReadOnlyIteratorWithMutationCallback(nop)
		}},
	}
	for i := 0; i < 3; i++ {
		s, e := bounds()
		f := rfFlavour{rng: true, s: s, e: e, bound: e - s}
		switch i {
		case 0:
			f.name = fmt.Sprintf("Array.RangeIterator(%d,%d)", s, e)
			f.mkArr = func(a *atree.Array) (atree.ArrayIterator, error) { return a.RangeIterator(s, e) }
			f.fullKey = "Array.Iterator"
		case 1:
			f.name = fmt.Sprintf("Array.ReadOnlyRangeIterator(%d,%d)", s, e)
			f.mkArr = func(a *atree.Array) (atree.ArrayIterator, error) { return a.ReadOnlyRangeIterator(s, e) }
			f.fullKey = "Array.ReadOnlyIterator"
		default:
			f.name = fmt.Sprintf("Array.ReadOnlyRangeIteratorWithMutationCallback(%d,%d)", s, e)
			f.mkArr = func(a *atree.Array) (atree.ArrayIterator, error) {
				return a.ReadOnlyRangeIteratorWithMutationCallback(s, e, nop)
			}
			f.fullKey = "Array.ReadOnlyIteratorWithMutationCallback"
		}
		out = append(out, f)
	}
	return out
}

func rfMapFlavours(n uint64) []rfFlavour {
	nop := func(atree.Value) {}
	return []rfFlavour{
		{name: "OrderedMap.Iterator", isMap: true, comps: true, bound: n, mkMap: func(m *atree.OrderedMap, c *rfComp) (atree.MapIterator, error) {
			return m.Iterator(c.cmp, c.hip)
		}},
		{name: "OrderedMap.ReadOnlyIterator", isMap: true, roMap: true, bound: n, mkMap: func(m *atree.OrderedMap, _ *rfComp) (atree.MapIterator, error) {
			return m.ReadOnlyIterator()
		}},
		{name: "OrderedMap.ReadOnlyIteratorWithMutationCallback", isMap: true, roMap: true, bound: n, mkMap: func(m *atree.OrderedMap, _ *rfComp) (atree.MapIterator, error) {
			return m.ReadOnlyIteratorWithMutationCallback(nop, nop)
		}},
	}
}

// ---------- a drain ----------

// rfPlan: the advancing method used at position n (number of elements yielded so far), and the one
// used when the call at position n is retried.
type rfPlan struct {
	name  string
	first []int8
	retry []int8
	sw    bool // retry differs from first somewhere
}

func (p *rfPlan) method(n uint64, attempt int) int {
	if attempt > 0 {
		return int(p.retry[int(n)%len(p.retry)])
	}
	return int(p.first[int(n)%len(p.first)])
}

func rfPlans(r *Rng, isMap bool, n uint64) []rfPlan {
	if !isMap {
		return []rfPlan{{name: "Next", first: []int8{0}, retry: []int8{0}}}
	}
	ps := []rfPlan{
		{name: "Next", first: []int8{0}, retry: []int8{0}},
		{name: "NextKey", first: []int8{1}, retry: []int8{1}},
		{name: "NextValue", first: []int8{2}, retry: []int8{2}},
	}
	l := int(n) + 2
	if l > 64 {
		l = 37 + r.Intn(27) // period unrelated to the slab fan-out
	}
	mix := make([]int8, l)
	for i := range mix {
		mix[i] = int8(r.Intn(3))
	}
	ps = append(ps, rfPlan{name: "a mixture of Next/NextKey/NextValue", first: mix, retry: mix})
	mix2 := make([]int8, l)
	alt := make([]int8, l)
	for i := range mix2 {
		mix2[i] = int8(r.Intn(3))
		alt[i] = int8((int(mix2[i]) + 1 + r.Intn(2)) % 3)
	}
	ps = append(ps, rfPlan{name: "a mixture of Next/NextKey/NextValue, the failed call retried with another of the three methods", first: mix2, retry: alt, sw: true})
	return ps
}

type rfYield struct {
	method int
	k, v   atree.Value
}

type rfCallInfo struct {
	method    int // -1: the constructor
	pos       uint64
	readStart int
	hipStart  int
	cmpStart  int
}

type rfDrain struct {
	ys        []rfYield
	calls     []rfCallInfo
	retries   int
	failPos   int64 // position of the (last) failed call; -1 none; -2 the constructor
	failMeth  int
	err       error
	stickyBad string
}

// rfDoDrain creates the iterator and advances it to the end; a call failing with the injected error is
// retried (the constructor: called again; an advancing call: on the same iterator).
func rfDoDrain(in *rfInst, f *rfFlavour, p *rfPlan, c *rfComp, record bool) *rfDrain {
	d := &rfDrain{failPos: -1}
	note := func(method int, pos uint64) {
		if record {
			d.calls = append(d.calls, rfCallInfo{method, pos, in.base.nRead, c.nHip, c.nCmp})
		}
	}
	var ait atree.ArrayIterator
	var mit atree.MapIterator
	for {
		note(-1, 0)
		var err error
		if f.isMap {
			mit, err = f.mkMap(in.tgt.(*atree.OrderedMap), c)
		} else {
			ait, err = f.mkArr(in.tgt.(*atree.Array))
		}
		if err == nil {
			break
		}
		if rfIsInjected(err) && d.retries < rfRetryLimit {
			d.retries++
			d.failPos = -2
			continue
		}
		d.err = err
		return d
	}
	call := func(method int) (k, v atree.Value, err error) {
		if !f.isMap {
			v, err = ait.Next()
			return v, v, err
		}
		switch method {
		case rfmNext:
			return mit.Next()
		case rfmKey:
			k, err = mit.NextKey()
			return k, nil, err
		default:
			v, err = mit.NextValue()
			return v, v, err
		}
	}
	n, attempt := uint64(0), 0
	for {
		method := p.method(n, attempt)
		note(method, n)
		k, v, err := call(method)
		if err != nil {
			if rfIsInjected(err) && d.retries < rfRetryLimit {
				d.retries++
				attempt++
				d.failPos, d.failMeth = int64(n), method
				continue
			}
			d.err = err
			return d
		}
		attempt = 0
		if k == nil {
			break
		}
		d.ys = append(d.ys, rfYield{method, k, v})
		if n++; n > f.bound+2 {
			d.err = fmt.Errorf("iterator yielded more than %d elements", f.bound+2)
			return d
		}
	}
	// the end is sticky
	methods := []int{rfmNext}
	if f.isMap {
		methods = []int{rfmNext, rfmKey, rfmValue}
	}
	for _, m := range methods {
		k, _, err := call(m)
		if err != nil {
			d.stickyBad = fmt.Sprintf("%s() after the end failed: %v", rfMethodName[m], err)
			break
		}
		if k != nil {
			d.stickyBad = fmt.Sprintf("%s() after the end yielded %s", rfMethodName[m], rfShallow(k, 1))
			break
		}
	}
	return d
}

// rfRenderYields: one string per yielded element (after the faults are disarmed; shallow, no reads).
func rfRenderYields(f *rfFlavour, ys []rfYield) []string {
	out := make([]string, len(ys))
	for i, y := range ys {
		switch {
		case !f.isMap:
			out[i] = rfShallow(y.v, 1)
		case y.method == rfmNext:
			out[i] = "k=" + rfShallow(y.k, 1) + " v=" + rfShallow(y.v, 1)
		case y.method == rfmKey:
			out[i] = "k=" + rfShallow(y.k, 1)
		default:
			out[i] = "v=" + rfShallow(y.v, 1)
		}
	}
	return out
}

// rfProject: what a drain with the given methods must yield when Next() alone yields `full`.
func rfProject(full []rfYield, methods []int) []string {
	out := make([]string, 0, len(methods))
	for i, m := range methods {
		if i >= len(full) {
			break
		}
		switch m {
		case rfmNext:
			out = append(out, "k="+rfShallow(full[i].k, 1)+" v="+rfShallow(full[i].v, 1))
		case rfmKey:
			out = append(out, "k="+rfShallow(full[i].k, 1))
		default:
			out = append(out, "v="+rfShallow(full[i].v, 1))
		}
	}
	return out
}

func rfSeqDiff(got, want []string) string {
	i := 0
	for i < len(got) && i < len(want) && got[i] == want[i] {
		i++
	}
	at := func(s []string, i int) string {
		if i < len(s) {
			return clip(s[i], 80)
		}
		return "<end>"
	}
	return fmt.Sprintf("yielded %d elements, the fault-free twin %d; first difference at position %d: %s vs %s", len(got), len(want), i, at(got, i), at(want, i))
}

func rfSameSeq(a, b []string) bool {
	if len(a) != len(b) {
		return false
	}
	for i := range a {
		if a[i] != b[i] {
			return false
		}
	}
	return true
}

// rfLoaded: the loaded-value iteration of the target (never reads the ledger).
func rfLoaded(v atree.Value) (out []string, err error) {
	defer func() {
		if p := recover(); p != nil {
			err = fmt.Errorf("panic: %v", p)
		}
	}()
	switch x := v.(type) {
	case *atree.Array:
		err = x.IterateReadOnlyLoadedValues(func(e atree.Value) (bool, error) {
			out = append(out, rfShallow(e, 1))
			return true, nil
		})
	case *atree.OrderedMap:
		err = x.IterateReadOnlyLoadedValues(func(k, e atree.Value) (bool, error) {
			out = append(out, "k="+rfShallow(k, 1)+" v="+rfShallow(e, 1))
			return true, nil
		})
	}
	return out, err
}

// ---------- warm-up (partially loaded container) ----------

type rfWarm struct {
	name string
	idx  []uint64      // array positions looked up before the iteration
	keys []atree.Value // map keys looked up before the iteration
}

func rfMakeWarm(r *Rng, ts *rfSpec) rfWarm {
	n := len(ts.elems)
	if n == 0 || !r.Chance(35) {
		return rfWarm{name: "cold cache"}
	}
	cnt := 1 + r.Intn(n/12+1)
	w := rfWarm{name: fmt.Sprintf("cache warmed by %d lookups", cnt)}
	for i := 0; i < cnt; i++ {
		j := r.Intn(n)
		if ts.kind == rfArr {
			w.idx = append(w.idx, uint64(j))
		} else {
			w.keys = append(w.keys, ts.keys[j].scalarValue())
		}
	}
	return w
}

func (w *rfWarm) apply(in *rfInst) {
	switch x := in.tgt.(type) {
	case *atree.Array:
		for _, i := range w.idx {
			_, err := x.Get(i)
			must(err)
		}
	case *atree.OrderedMap:
		for _, k := range w.keys {
			_, err := x.Get(testutils.CompareValue, testutils.GetHashInput, k)
			must(err)
		}
	}
}

// ---------- the matrix ----------

type rfIterTarget struct {
	path []rfStep
	drop bool
}

// rfIterTargets: the root, up to two multi-slab child arrays and two multi-slab child maps, one other child.
func (sc *rfScenario) rfIterTargets(r *Rng) []rfIterTarget {
	out := []rfIterTarget{{}}
	var bigA, bigM, small [][]rfStep
	for _, t := range sc.targets()[1:] {
		s := sc.specAt(t)
		if s.some { // a wrapped ancestor is unwrapped by open(); the target itself must be a plain container
			continue
		}
		switch {
		case len(s.elems) >= 30 && s.kind == rfArr:
			bigA = append(bigA, t)
		case len(s.elems) >= 30:
			bigM = append(bigM, t)
		case len(s.elems) > 0:
			small = append(small, t)
		}
	}
	pick := func(l [][]rfStep, k int) {
		for i := 0; i < k && len(l) > 0; i++ {
			j := r.Intn(len(l))
			out = append(out, rfIterTarget{path: l[j], drop: r.Chance(60)})
			l = append(l[:j:j], l[j+1:]...)
		}
	}
	pick(bigM, 2)
	pick(bigA, 2)
	pick(small, 1)
	return out
}

type rfIterCase struct {
	kind string // "read", "hip", "cmp"
	k    int
}

// positions to fault: all below the budget, else a stratified sample over (method of the call in
// progress, register belongs to the container's own slab tree or not) plus the first, second and last.
func rfPickPositions(r *Rng, nr, budget int, class func(k int) string) []int {
	if nr <= budget {
		ks := make([]int, nr)
		for i := range ks {
			ks[i] = i
		}
		return ks
	}
	seen := map[int]bool{}
	var ks []int
	add := func(k int) {
		if k >= 0 && k < nr && !seen[k] && len(ks) < budget {
			seen[k] = true
			ks = append(ks, k)
		}
	}
	add(0)
	add(nr - 1)
	byClass := map[string][]int{}
	var names []string
	for k := 0; k < nr; k++ {
		c := class(k)
		if _, ok := byClass[c]; !ok {
			names = append(names, c)
		}
		byClass[c] = append(byClass[c], k)
	}
	sort.Strings(names)
	for _, c := range names {
		l := byClass[c]
		add(l[r.Intn(len(l))])
	}
	add(1)
	for tries := 0; len(ks) < budget && tries < 8*budget; tries++ {
		add(r.Intn(nr))
	}
	sort.Ints(ks)
	return ks
}

// iterMatrix runs the whole matrix on the scenario.  budget = fault positions per drain.
func (r *rfRun) iterMatrix(gr *Rng, budget int) {
	sc := r.sc
	rep := r.rep
	for ti, t := range sc.rfIterTargets(gr) {
		ts := sc.specAt(t.path)
		n := uint64(len(ts.elems))
		if n == 0 {
			continue
		}
		var flavours []rfFlavour
		if ts.kind == rfArr {
			flavours = rfArrayFlavours(gr, n)
		} else {
			flavours = rfMapFlavours(n)
		}
		plans := rfPlans(gr, ts.kind == rfMap, n)
		warm := rfMakeWarm(gr, ts)
		full := map[string][]rfYield{} // flavour name -> complete fault-free Next() drain
		for fi := range flavours {
			f := &flavours[fi]
			for pi := range plans {
				if r.nviol > 4 {
					return
				}
				p := &plans[pi]
				r.iterDrainCases(gr.Fork(uint64(ti*1000+fi*10+pi)), 1000+ti*100+fi*10+pi, t, ts, f, p, &warm, full, budget)
			}
		}
		rep.Event("iterator_matrix_targets")
	}
}

func (r *rfRun) iterDrainCases(gr *Rng, step int, t rfIterTarget, ts *rfSpec, f *rfFlavour, p *rfPlan, warm *rfWarm,
	full map[string][]rfYield, budget int) {
	sc := r.sc
	rep := r.rep
	op := &rfOp{name: f.name, path: t.path, drop: t.drop}
	what := fmt.Sprintf("%s on the %s (%s), advanced by %s", f.name, r.where(op), warm.name, p.name)
	open := func() *rfInst {
		in := sc.open(t.path, t.drop)
		warm.apply(in)
		return in
	}

	// ---- the fault-free twin ----
	tw := open()
	tw.base.LogReads = true
	tw.base.ResetLog()
	tw.base.ArmRead(-1)
	tc := newRfComp()
	var td *rfDrain
	_, pan := rfCall(func() error { td = rfDoDrain(tw, f, p, tc, true); return nil })
	if pan != "" {
		r.viol(step, "C13: an iterator panicked without any fault", what+": "+pan)
		return
	}
	nr, nHip, nCmp := tw.base.nRead, tc.nHip, tc.nCmp
	reads := make([]atree.SlabID, 0, nr)
	for _, c := range tw.base.Log {
		if c.Kind == 'R' {
			reads = append(reads, c.ID)
		}
	}
	tw.base.LogReads = false
	rep.Op(strings.SplitN(f.name, "(", 2)[0] + "/" + strings.SplitN(p.name, ",", 2)[0])
	rep.Event("iterator_matrix_drains")
	rep.Steps++
	if td.err != nil {
		r.viol(step, "C13: a fault-free iteration failed", what+": "+td.err.Error())
		return
	}
	if td.stickyBad != "" {
		r.viol(step, "C13: an iterator that reported the end yields again", what+": "+td.stickyBad)
		return
	}
	want := rfRenderYields(f, td.ys)
	if uint64(len(want)) != f.bound {
		r.viol(step, "C13: an iterator does not yield as many elements as the container (range) holds", what+fmt.Sprintf(": %d yielded, %d expected", len(want), f.bound))
		return
	}
	// projections / slices of the complete Next() drain of the same flavour
	if !p.sw {
		if f.isMap {
			if p.name == "Next" {
				full[f.name] = td.ys
			} else if fl, ok := full[f.name]; ok {
				methods := make([]int, len(td.ys))
				for i := range methods {
					methods[i] = p.method(uint64(i), 0)
				}
				if proj := rfProject(fl, methods); !rfSameSeq(want, proj) {
					r.viol(step, "C13: an iterator advanced by NextKey/NextValue (or a mixture) does not yield the keys / values of the elements the same iterator yields when advanced by Next() alone",
						what+": "+rfSeqDiff(want, proj))
					return
				}
			}
		} else if !f.rng {
			full[f.name] = td.ys
		} else if fl, ok := full[f.fullKey]; ok && f.e <= uint64(len(fl)) {
			if sl := rfRenderYields(f, fl[f.s:f.e]); !rfSameSeq(want, sl) {
				r.viol(step, "C13: a range iterator does not yield the slice of the complete iteration", what+": "+rfSeqDiff(want, sl))
				return
			}
		}
	}
	twCount := fmt.Sprint(rfCount(tw.root), rfCount(tw.tgt))
	twLoaded, twLoadedErr := rfLoaded(tw.tgt)
	if nr == 0 && !f.comps {
		rep.Event("iterator_matrix_drain_without_ledger_read")
		return
	}

	// ---- the containers' own slab tree (classification of the failed register) ----
	tree := map[atree.SlabID]bool{}
	if ids, err := atree.VerifContainerSlabIDs(tw.tgt); err == nil {
		for _, id := range ids {
			tree[id] = true
		}
	}
	callOf := func(k int, start func(c *rfCallInfo) int) *rfCallInfo {
		// last call whose start counter is <= k
		i := sort.Search(len(td.calls), func(i int) bool { return start(&td.calls[i]) > k }) - 1
		if i < 0 {
			i = 0
		}
		return &td.calls[i]
	}
	readClass := func(k int) string {
		c := callOf(k, func(c *rfCallInfo) int { return c.readStart })
		return fmt.Sprintf("%d/%t", c.method, tree[reads[k]])
	}

	var cases []rfIterCase
	for _, k := range rfPickPositions(gr, nr, budget, readClass) {
		cases = append(cases, rfIterCase{"read", k})
	}
	if nr > budget {
		rep.Event("iterator_matrix_fault_positions_sampled")
	}
	if f.comps {
		cb := budget / 3
		if cb < 2 {
			cb = 2
		}
		for _, k := range rfPickPositions(gr, nHip, cb, func(k int) string {
			return fmt.Sprint(callOf(k, func(c *rfCallInfo) int { return c.hipStart }).method)
		}) {
			cases = append(cases, rfIterCase{"hip", k})
		}
		for _, k := range rfPickPositions(gr, nCmp, cb, func(k int) string {
			return fmt.Sprint(callOf(k, func(c *rfCallInfo) int { return c.cmpStart }).method)
		}) {
			cases = append(cases, rfIterCase{"cmp", k})
		}
	}

	for _, cs := range cases {
		if r.nviol > 4 {
			return
		}
		in := open()
		c := newRfComp()
		in.base.LogReads = true
		in.base.ResetLog()
		in.base.ArmRead(-1)
		var ctx string
		switch cs.kind {
		case "read":
			in.base.ArmRead(cs.k)
			ctx = fmt.Sprintf("%s, ledger read %d of %d (register %s, %s) failing once", what, cs.k, nr, reads[cs.k], map[bool]string{true: "a slab of the container's tree", false: "a key / value / child register"}[tree[reads[cs.k]]])
		case "hip":
			c.failHip = cs.k
			ctx = fmt.Sprintf("%s, call %d of %d of the hash-input provider failing once", what, cs.k, nHip)
		default:
			c.failCmp = cs.k
			ctx = fmt.Sprintf("%s, call %d of %d of the comparator failing once", what, cs.k, nCmp)
		}
		var d *rfDrain
		_, pan := rfCall(func() error { d = rfDoDrain(in, f, p, c, false); return nil })
		fired := false
		var failedID atree.SlabID
		switch cs.kind {
		case "read":
			fired = in.base.nRead > cs.k
			for _, l := range in.base.Log {
				if l.Fail {
					failedID = l.ID
				}
			}
		case "hip":
			fired = c.nHip > cs.k
		default:
			fired = c.nCmp > cs.k
		}
		in.base.ArmRead(-1)
		in.base.LogReads = false
		rep.Event("cases")
		rep.Event("iterator_matrix_cases")
		rep.Event("iterator_matrix_cases_" + cs.kind + "_fault")
		if pan != "" {
			r.viol(step, "C13: an iterator panicked on a transient failure", ctx+": "+pan)
			continue
		}
		if !fired {
			rep.Event("armed_fault_not_reached")
			continue
		}
		rep.Event("strict_cases")
		switch {
		case d.failPos == -2:
			rep.Event("iterator_matrix_fault_in_the_constructor")
		case d.failPos >= 0 && cs.kind == "read":
			rep.Event("iterator_matrix_read_fault_in_" + rfMethodName[d.failMeth] + map[bool]string{true: "_tree_slab", false: "_key_value_or_child_register"}[tree[failedID]])
		}
		if d.failPos >= 0 {
			ctx += fmt.Sprintf(" in %s() at position %d", rfMethodName[d.failMeth], d.failPos)
			if p.sw {
				ctx += fmt.Sprintf(", retried by %s()", rfMethodName[p.method(uint64(d.failPos), 1)])
			}
		} else if d.failPos == -2 {
			ctx += " in the constructor of the iterator (called again)"
		}
		got := rfRenderYields(f, d.ys)
		// what the drain must have yielded: the twin's sequence, with the retried method at the failed position
		exp := want
		if p.sw && d.failPos >= 0 && d.err == nil {
			if fl, ok := full[f.name]; ok {
				methods := make([]int, len(td.ys))
				for i := range methods {
					methods[i] = p.method(uint64(i), 0)
				}
				if int(d.failPos) < len(methods) {
					methods[d.failPos] = p.method(uint64(d.failPos), 1)
				}
				exp = rfProject(fl, methods)
			} else {
				continue
			}
		}
		same := d.err == nil && d.stickyBad == "" && rfSameSeq(got, exp)
		if !same && f.roMap && cs.kind == "read" && !tree[failedID] {
			// observation on the unchanged library (map_iterator.go readOnlyMapIterator.Next/NextKey/NextValue):
			// the element cursor is advanced before the stored value of the key / value is read
			skipped := false
			if fl, ok := full[f.name]; ok && d.err == nil && d.failPos >= 0 && int(d.failPos) < len(fl) && len(got)+1 == len(fl) {
				rest := append(append([]rfYield{}, fl[:d.failPos]...), fl[d.failPos+1:]...)
				methods := make([]int, len(rest))
				for i := range methods {
					methods[i] = p.method(uint64(i), 0)
				}
				if int(d.failPos) < len(methods) {
					methods[d.failPos] = p.method(uint64(d.failPos), 1)
				}
				skipped = rfSameSeq(got, rfProject(rest, methods))
			}
			if skipped {
				rep.Event("observation_readonly_map_iterator_skips_element_after_failed_value_read")
			} else {
				rep.Event("observation_readonly_map_iterator_other_divergence_after_failed_value_read")
				if rep.Events["observation_readonly_map_iterator_other_divergence_after_failed_value_read"] <= 3 {
					rep.Sample(clip("read-only map iterator, other divergence: "+ctx+": "+rfSeqDiff(got, exp), 600))
				}
			}
			continue
		}
		if d.retries > 0 {
			rep.EventN("next_calls_retried_on_the_same_iterator", d.retries)
		} else {
			rep.Event("fault_absorbed_by_the_request")
		}
		if d.err != nil {
			var ee *atree.ExternalError
			if rfIsInjected(d.err) && !errors.As(d.err, &ee) {
				r.viol(step, "C18: a failed ledger read / caller-supplied component is not reported as ExternalError", ctx+fmt.Sprintf(": %T %v", d.err, d.err))
				continue
			}
			r.viol(step, "C13: iteration continued by retrying the failed call on the same iterator fails with another error; the fault-free twin completes", ctx+fmt.Sprintf(": %T %v after %d elements", d.err, d.err, len(got)))
			continue
		}
		if !rfSameSeq(got, exp) {
			r.viol(step, "C13: iteration continued by retrying the failed Next()/NextKey()/NextValue() on the same iterator yields a different sequence than the fault-free twin (element skipped, repeated or early end)", ctx+": "+rfSeqDiff(got, exp))
			continue
		}
		if d.stickyBad != "" {
			r.viol(step, "C13: an iterator that reported the end after a retried call yields again", ctx+": "+d.stickyBad)
			continue
		}
		if cnt := fmt.Sprint(rfCount(in.root), rfCount(in.tgt)); cnt != twCount {
			r.viol(step, "C13: Count() after an iteration with a transient failure differs from the fault-free twin", ctx+": "+cnt+" vs "+twCount)
			continue
		}
		if !p.sw && twLoadedErr == nil {
			ld, err := rfLoaded(in.tgt)
			if err != nil {
				r.viol(step, "C13: the loaded-value iteration fails after an iteration with a transient failure retried on the same iterator", ctx+": "+err.Error())
				continue
			}
			if !rfSameSeq(ld, twLoaded) {
				r.viol(step, "C13: the loaded-value iteration after an iteration with a transient failure retried on the same iterator differs from the fault-free twin's", ctx+": "+rfSeqDiff(ld, twLoaded))
				continue
			}
		}
		rep.Event("retried_requests")
	}
}
