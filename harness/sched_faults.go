//go:build verif

package main

// C14: ledger faults during the commits of container histories.  A live storage with container
// wrappers cannot be cloned, so every (history, commit, fault position, commit flavour) case
// re-executes the history from scratch (it is a function of its seed) up to that commit.

import (
	"errors"
	"fmt"

	"github.com/onflow/atree"
)

type faultVariant struct {
	name    string
	nondet  bool
	workers int
}

var faultVariants = []faultVariant{
	{"fast-w1", false, 1},
	{"fast-w2", false, 2},
	{"fast-w8", false, 8},
	{"nondet-w4", true, 4},
}

// faultNondetWorkers: worker counts of the order-relaxed commit, one per (history, commit) in rotation: a
// count below the number of modified slabs (1, 2, 3) keeps encoder goroutines busy while the ledger is
// being called, 4 and 16 are at or above it for most commits of these histories.
var faultNondetWorkers = []int{4, 1, 2, 3, 16}

func faultVariantsFor(h, c int) []faultVariant {
	vs := append([]faultVariant(nil), faultVariants[:3]...)
	n := faultNondetWorkers[(h+c)%len(faultNondetWorkers)]
	return append(vs, faultVariant{fmt.Sprintf("nondet-w%d", n), true, n})
}

// faultPlan: commit points of a history (step numbers after which a commit happens; the last one is
// the end of the history).
func faultPlan(sp histSpec) []int {
	sr := NewRng(sp.Seed ^ 0xFA17)
	n := 1 + sr.Intn(3) // + the final one = 2..4 commits
	pts := map[int]bool{}
	for len(pts) < n {
		pts[5+sr.Intn(sp.Steps-6)] = true
	}
	var out []int
	for s := 1; s < sp.Steps; s++ {
		if pts[s] {
			out = append(out, s)
		}
	}
	return append(out, sp.Steps)
}

type faultTwin struct {
	snaps  []*LogBase // ledger after each commit
	writes []int      // ledger calls of each commit
	what   string
	detail string
	wedged bool // a commit did not return: the storage of the twin is abandoned
}

func runFaultTwin(sp histSpec, plan []int, rep *Report) (t faultTwin) {
	e := newExec(sp, rep)
	ci := 0
	for e.step < sp.Steps && !e.failed {
		e.Step()
		if !e.failed && e.step == plan[ci] {
			err, log, hung := e.CommitWD(false, 1)
			if hung != "" {
				e.fail("C14: a fault-free commit does not return", wdDetail(hung, false, 1, -1, "no fault armed", log))
				t.wedged = true
				break
			}
			if err != nil {
				e.fail("fault-free commit failed", err.Error())
			}
			t.snaps = append(t.snaps, e.base.Clone())
			t.writes = append(t.writes, len(log))
			ci++
			e.Verify(true)
		}
	}
	t.what, t.detail = e.what, e.detail
	return t
}

// runFaulted re-executes the history, injects a fault at ledger call k of commit c, checks the
// state after the failure, retries to success (with further sampled faults) and compares with the twin.
// Every commit runs under the watchdog of commit_watchdog.go; slow = the armed call takes slowFaultDelay
// before it fails.  Returns the number of faulted commit attempts and whether a commit did not return
// (the storage is then abandoned together with the goroutines stuck in it).
func runFaulted(sp histSpec, plan []int, twin faultTwin, c, k int, v faultVariant, slow bool, fr *Rng, rep *Report, viol func(step int, what, detail string)) (int, bool) {
	e := newExec(sp, NewReport("", 0))
	w, base := e.w, e.base
	ctx := fmt.Sprintf("commit #%d fault at call %d of %d, %s", c, k, twin.writes[c], v.name)
	if slow {
		ctx += ", the failing call takes " + slowFaultDelay.String()
	}
	bad := func(what, detail string) { viol(e.step, what, ctx+" | "+detail) }
	wedged := false
	commitPlain := func() bool {
		err, log, hung := e.CommitWD(v.nondet, v.workers)
		if hung != "" {
			wedged = true
			bad("C14: a commit during which no ledger call fails does not return", wdDetail(hung, v.nondet, v.workers, int(w.St.DeltasWithoutTempAddresses()), "no fault armed", log))
			return false
		}
		if e.failed {
			return false
		}
		if err != nil {
			bad("C14: commit without injected fault failed", err.Error())
			return false
		}
		return true
	}
	// one faulted attempt; returns false when the case must be abandoned
	attempts := 0
	faulted := func(k int) bool {
		attempts++
		pend := ownedDeltas(w.St)
		nAll := int(w.St.Deltas())
		fpBefore := e.libFingerprint()
		before := segSnapshot(base)
		armSlow(base, k, slow)
		err, log, hung := e.CommitWD(v.nondet, v.workers)
		if hung != "" {
			wedged = true
			rep.Event("commit_did_not_return")
			bad("C14: a commit with a failing ledger call does not return (it neither reports the error nor finishes)",
				wdDetail(hung, v.nondet, v.workers, len(pend), fmt.Sprintf("ledger call %d of this attempt armed to fail", k), log))
			return false
		}
		disarmSlow(base)
		if e.failed {
			return false
		}
		nFail, failedID := 0, atree.SlabIDUndefined
		okCalls := map[atree.SlabID]byte{}
		afterFail := 0
		for _, cl := range log {
			switch {
			case cl.Fail:
				nFail++
				failedID = cl.ID
			default:
				okCalls[cl.ID] = cl.Kind
				if nFail > 0 {
					afterFail++
				}
			}
		}
		if nFail == 0 {
			bad("C14: commit issued fewer ledger calls than the fault-free twin (armed fault never reached)", fmt.Sprintf("log: %s err: %v", logStr(log), err))
			return false
		}
		rep.Event("faulted_commit_" + v.name)
		rep.EventN("ledger_calls_after_failed_one", afterFail)
		if err == nil {
			bad("C14: commit with a failed ledger call returned no error", logStr(log))
			return false
		}
		var ee *atree.ExternalError
		if !errors.As(err, &ee) {
			bad("C14: ledger failure not reported as ExternalError", fmt.Sprintf("%T %v", err, err))
		} else {
			rep.Err("ExternalError")
		}
		// every owned pending change is still pending, or its register now holds its encoding
		after := ownedDeltas(w.St)
		want := twin.snaps[c]
		for id, live := range pend {
			kind, done := okCalls[id]
			alive, still := after[id]
			switch {
			case done && still:
				bad("C14: change written to the ledger is still pending", id.String())
			case !done && !still:
				bad("C14: pending change lost by a failed commit (neither pending nor written)", id.String())
			case !done:
				if alive != live {
					bad("C14: pending change altered by a failed commit", id.String())
				}
				d, ok := base.Segs[id]
				if bd, bok := before[id]; ok != bok || string(d) != bd {
					bad("C14: register of a still-pending change was modified", id.String())
				}
			default: // done, no longer pending
				if (kind == 'S') != live {
					bad("C14: ledger call kind disagrees with the pending change", id.String())
				}
				d, ok := base.Segs[id]
				wd, wok := want.Segs[id]
				if ok != live || wok != live || string(d) != string(wd) {
					bad("C14: register written by the failed commit differs from the fault-free encoding", id.String())
				}
			}
		}
		for id := range after {
			if _, ok := pend[id]; !ok {
				bad("C14: failed commit created a pending change", id.String())
			}
		}
		for id := range okCalls {
			if _, ok := pend[id]; !ok {
				bad("C14: commit touched a register without pending change", id.String())
			}
		}
		if _, still := after[failedID]; !still {
			bad("C14: the change whose ledger call failed is no longer pending", failedID.String())
		}
		if got, wantN := int(w.St.DeltasWithoutTempAddresses()), len(pend)-len(okCalls); got != wantN {
			bad("C14: DeltasWithoutTempAddresses inconsistent with the successful ledger calls", fmt.Sprintf("got %d want %d", got, wantN))
		}
		if got, wantN := int(w.St.Deltas()), nAll-len(okCalls); got != wantN {
			bad("C14: Deltas inconsistent with the successful ledger calls", fmt.Sprintf("got %d want %d", got, wantN))
		}
		// reads continue to return the latest values: through the storage ...
		for id, live := range pend {
			s, found, err := w.St.Retrieve(id)
			if err != nil || found != live || (s != nil) != live {
				bad("C14: storage read after a failed commit does not return the latest state", fmt.Sprintf("%s found=%v want=%v err=%v", id, found, live, err))
			}
		}
		// ... and through every container
		e.Verify(false)
		if e.failed {
			return false
		}
		if fp := e.libFingerprint(); fp != fpBefore {
			bad("C14: content read through the library changed across a failed commit", fpBefore+" -> "+fp)
		}
		return !e.failed
	}

	ci := 0
	for e.step < sp.Steps && !e.failed {
		e.Step()
		if e.failed || e.step != plan[ci] {
			continue
		}
		if ci != c {
			if !commitPlain() {
				break
			}
		} else {
			if !faulted(k) {
				break
			}
			// retries: possibly further faults, then success
			for r := 0; r < 3 && fr.Chance(40); r++ {
				rem := int(w.St.DeltasWithoutTempAddresses())
				if rem == 0 {
					break
				}
				if !faulted(fr.Intn(rem)) {
					break
				}
				rep.Event("second_fault_in_retry")
			}
			if e.failed || !commitPlain() {
				break
			}
			if d := SameRegisters(twin.snaps[c], base); d != "" {
				bad("C14: registers after retry differ from the fault-free twin", d)
			}
			if n := w.St.DeltasWithoutTempAddresses(); n != 0 {
				bad("C14: owned pending changes remain after the successful retry", fmt.Sprint(n))
			}
			e.Verify(true)
		}
		ci++
	}
	if wedged {
		return attempts, true
	}
	if e.failed {
		bad("C14: history oracle failed: "+e.what, e.detail)
		return attempts, false
	}
	// the rest of the history was executed on the recovered storage: same final registers
	if d := SameRegisters(twin.snaps[len(twin.snaps)-1], base); d != "" {
		bad("C14: final registers of the history continued after recovery differ from the fault-free twin", d)
	}
	return attempts, false
}

func cmdFaults(a Args) {
	rep := NewReport(a.Prop, a.Seed)
	rep.Rule = "random World histories (30..80 ops, 1-3 roots each empty (40%) / prefilled with ~10-50 (30%) / ~60-260 (30%) random elements incl. nested containers, arrays+maps, depth<=3, wrappers, large values, child handles) at T in {256,300,512,1024} with 2-4 commits at seed-determined points; a fault-free twin (FastCommit, 1 worker) records the ledger after each commit and the number W of ledger calls; " +
		"for every commit, every flavour in {FastCommit workers 1,2,8; NondeterministicFastCommit workers 4/1/2/3/16 in rotation over (history, commit)} and every fault position k<W (all k if W<=12, else 12 sampled) the history is re-executed from scratch, call k of that commit fails (order-relaxed commit, even k: the failing call takes 2 ms before it fails): " +
		"EVERY commit attempt (faulted or not) runs under a watchdog and must return (20 s, or all goroutines of the process parked for 1 s); error must be *ExternalError; each owned pending id is still pending with its register untouched, or left the write set and its register equals the twin's encoding; Deltas/DeltasWithoutTempAddresses = before - successful calls; Storage.Retrieve of every pending id, VerifyArray/VerifyMap, deep shadow comparison and library fingerprint unchanged; " +
		"then retries with 0-3 further sampled faults until success: registers byte-identical to the twin at that commit, and again at the end of the continued history. non-trivial = history with >=2 commits of >=2 ledger calls each, all of whose cases ran; distinct by twin final digest. histories are added until -steps faulted commit attempts were made (or -n histories). " +
		"Default mode: 80% of the -steps budget on these (tags fa<h>), 20% on WIDE histories (tags fw<h>, faults_wide.go; -mode wide: only those, -mode world: none): " + wideRule
	rng := NewRng(a.Seed)
	defer atree.VerifSetThreshold(1024)
	// -steps = budget of faulted commit attempts; histories are added until it is used up (or -n is reached)
	budget, wideBudget := a.Steps-a.Steps/5, a.Steps/5
	switch a.Mode {
	case "world":
		budget, wideBudget = a.Steps, 0
	case "wide":
		budget, wideBudget = 0, a.Steps
	}
	total := 0
	for h := 0; h < a.N && budget > 0; h++ {
		hr := rng.Fork(uint64(h))
		tag := fmt.Sprintf("fa%d", h)
		if !want(tag) {
			continue
		}
		if total >= budget {
			rep.Event("budget_exhausted")
			break
		}
		if wdExhausted() {
			rep.Event("run_stopped_after_commits_that_did_not_return")
			break
		}
		sp := newSpec(hr, 30, 80, false)
		atree.VerifSetThreshold(sp.T)
		plan := faultPlan(sp)
		nviol := len(rep.Violations)
		viol := func(step int, what, detail string) {
			rep.Violate(h, tag, step, what, sp.String()+" | "+clip(detail, 700))
		}
		twin := runFaultTwin(sp, plan, rep)
		rep.Histories++
		rep.Steps += sp.Steps
		if twin.what != "" {
			viol(0, "C14: fault-free twin failed: "+twin.what, twin.detail)
			continue
		}
		fr := hr.Fork(99)
		multi := 0
		wedged := false
		for c, W := range twin.writes {
			rep.EventN("twin_ledger_calls", W)
			if W >= 2 {
				multi++
			}
			var ks []int
			if W <= 12 {
				for k := 0; k < W; k++ {
					ks = append(ks, k)
				}
				rep.Event("commit_exhaustive_positions")
			} else {
				seen := map[int]bool{0: true, W - 1: true}
				ks = []int{0, W - 1}
				for len(ks) < 12 {
					k := fr.Intn(W)
					if !seen[k] {
						seen[k] = true
						ks = append(ks, k)
					}
				}
				rep.Event("commit_sampled_positions")
			}
			for _, v := range faultVariantsFor(h, c) {
				for _, k := range ks {
					if len(rep.Violations) > nviol+5 || wedged {
						break
					}
					slow := v.nondet && k%2 == 0
					n, wd := runFaulted(sp, plan, twin, c, k, v, slow, fr, rep, viol)
					total += n
					wedged = wd // a commit did not return: the history is abandoned
					rep.Event("cases")
					if v.nondet {
						rep.Event(fmt.Sprintf("cases_relaxed_commit_workers_%d", v.workers))
					}
				}
			}
		}
		if multi >= 2 && len(rep.Violations) == nviol {
			rep.Distinct(ledgerDigest(twin.snaps[len(twin.snaps)-1]))
		}
		if h < 2 {
			rep.Sample(fmt.Sprintf("%s: %s commits after steps %v with %v ledger calls", tag, sp, plan, twin.writes))
		}
	}
	rep.Events["faulted_commits_total"] = total
	if wideBudget > 0 {
		rep.Events["faulted_commits_wide"] = runWideFaults(a, rep, NewRng(a.Seed^0x57494445), wideBudget)
	}
	rep.Write(a.Out + "/report.json")
}
