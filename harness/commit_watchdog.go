//go:build verif

package main

// commit_watchdog.go — every commit attempt of the fault harnesses (`faults` incl. its wide histories,
// `nestedcommitfault`, `ledgerfault`) runs on its own goroutine under a watchdog.
//
// C14 says that a commit during which a ledger call fails REPORTS AN ERROR.  A commit that never
// returns does neither that nor finish, so "the commit returns" is an oracle of its own; without the
// watchdog a hanging commit ends the whole harness process (Go's deadlock detector, or the timeout of
// the caller) and leaves no replayable input behind.
//
// Verdict "does not return":
//   - slow path: the commit has not returned after commitWatchdogTimeout (20 s; the histories of these
//     harnesses commit at most a few hundred slabs, i.e. milliseconds of work — the bound is only there
//     for a machine that is badly overloaded);
//   - fast path: the commit has not returned and in 4 consecutive samples taken 250 ms apart EVERY
//     goroutine of the process other than the watchdog itself is parked in a channel SEND or in a sync
//     primitive (WaitGroup.Wait, Mutex.Lock, Cond.Wait, semaphore), with the same goroutine identifiers and
//     states each time.  No goroutine is then running, runnable, sleeping, in a system call, waiting for
//     I/O or for a value from a channel (which might be a timer's), so nothing is left that could wake any
//     of them: this is the condition under which the Go runtime itself aborts with "all goroutines are
//     asleep - deadlock!" (the watchdog's timer is the only thing that keeps the runtime from doing so).
//     Any goroutine in `chan receive`, `select`, `sleep`, `IO wait`, `syscall`, `running` or `runnable`
//     state makes the fast path inconclusive, and the slow path decides.  (What remains is a pending
//     time.AfterFunc callback that would release one of the parked goroutines later than 1 s into a
//     commit; the harness commands using the watchdog start no goroutine besides it and the library does
//     not import package time.)
//
// After a verdict the commit goroutine and the library's worker goroutines are abandoned (leaked); the
// storage of that history must not be touched again.  A run stops adding histories after
// wdMaxHits verdicts or wdMaxWait of accumulated waiting, so that a library whose commits hang still
// produces a report quickly; the process exits normally (leaked goroutines die with it).

import (
	"fmt"
	"regexp"
	"runtime"
	"sort"
	"strings"
	"time"

	"github.com/onflow/atree"
)

const (
	commitWatchdogTimeout = 20 * time.Second
	wdSampleEvery         = 250 * time.Millisecond
	wdStableSamples       = 4
	wdMaxHits             = 3
	wdMaxWait             = 30 * time.Second
)

// wdState is process-wide: a harness process executes exactly one subcommand.
var wdState struct {
	hits   int
	waited time.Duration
}

// wdExhausted reports whether the run should stop adding histories.
func wdExhausted() bool { return wdState.hits >= wdMaxHits || wdState.waited >= wdMaxWait }

type wdOutcome struct {
	err  error
	pan  string // non-empty: the commit panicked (on its own goroutine) with this message
	hung string // non-empty: the commit did not return; the text says how that was established
}

var wdHeader = regexp.MustCompile(`^goroutine (\d+) \[([^\]]*)\]:`)

// wdParked lists the wait reasons from which only another goroutine can release a goroutine ("chan receive"
// is left out: the channel may belong to a timer).
var wdParked = map[string]bool{
	"chan send": true, "chan send (nil chan)": true, "chan receive (nil chan)": true,
	"select (no cases)": true, "semacquire": true, "sync.WaitGroup.Wait": true, "sync.Mutex.Lock": true,
	"sync.RWMutex.RLock": true, "sync.RWMutex.Lock": true, "sync.Cond.Wait": true,
}

// wdPicture returns a signature of all goroutines but the calling one and whether every one of them is parked.
func wdPicture() (sig string, allParked bool) {
	buf := make([]byte, 4<<20)
	n := runtime.Stack(buf, true)
	if n >= len(buf) {
		return "", false // truncated dump: cannot tell
	}
	var parts []string
	allParked = true
	first := true
	for _, block := range strings.Split(string(buf[:n]), "\n\n") {
		m := wdHeader.FindStringSubmatch(block)
		if m == nil {
			continue
		}
		if first { // the calling goroutine comes first in the dump
			first = false
			continue
		}
		state := m[2]
		if i := strings.Index(state, ","); i >= 0 { // ", 3 minutes", ", locked to thread"
			state = state[:i]
		}
		if !wdParked[state] {
			allParked = false
		}
		parts = append(parts, m[1]+":"+state)
	}
	if len(parts) == 0 {
		return "", false
	}
	sort.Strings(parts)
	return strings.Join(parts, " "), allParked
}

// runCommitWatched runs f (one commit attempt) on a new goroutine and waits for it under the watchdog.
func runCommitWatched(f func() error) wdOutcome {
	type res struct {
		err error
		pan string
	}
	done := make(chan res, 1)
	go func() {
		defer func() {
			if r := recover(); r != nil {
				done <- res{pan: fmt.Sprint(r)}
			}
		}()
		done <- res{err: f()}
	}()
	// almost every commit returns within microseconds: no timer for those
	for i := 0; i < 50; i++ {
		select {
		case r := <-done:
			return wdOutcome{err: r.err, pan: r.pan}
		default:
			runtime.Gosched()
		}
	}
	start := time.Now()
	timer := time.NewTimer(commitWatchdogTimeout)
	defer timer.Stop()
	tick := time.NewTicker(wdSampleEvery)
	defer tick.Stop()
	hit := func(how string) wdOutcome {
		wdState.hits++
		wdState.waited += time.Since(start)
		return wdOutcome{hung: how}
	}
	prev, stable := "", 0
	for {
		select {
		case r := <-done:
			return wdOutcome{err: r.err, pan: r.pan}
		case <-timer.C:
			select { // after a long stall of the whole process both channels may be ready: the result wins
			case r := <-done:
				return wdOutcome{err: r.err, pan: r.pan}
			default:
			}
			return hit(fmt.Sprintf("no return within %s", commitWatchdogTimeout))
		case <-tick.C:
			sig, parked := wdPicture()
			switch {
			case !parked:
				stable = 0
			case sig == prev:
				stable++
			default:
				stable = 1
			}
			prev = sig
			if stable >= wdStableSamples {
				select {
				case r := <-done:
					return wdOutcome{err: r.err, pan: r.pan}
				default:
				}
				return hit(fmt.Sprintf("deadlock: for %s every goroutine of the process except the watchdog has been parked in a channel send or sync operation [%s]", time.Since(start).Round(10*time.Millisecond), clip(sig, 160)))
			}
		}
	}
}

func commitFlavour(nondet bool, workers int) string {
	if nondet {
		return fmt.Sprintf("NondeterministicFastCommit(%d)", workers)
	}
	return fmt.Sprintf("FastCommit(%d)", workers)
}

// watchedCommit runs one of the two commits of a storage under the watchdog.
func watchedCommit(st *atree.PersistentSlabStorage, nondet bool, workers int) wdOutcome {
	return runCommitWatched(func() error {
		if nondet {
			return st.NondeterministicFastCommit(workers)
		}
		return st.FastCommit(workers)
	})
}

// CommitWD is hexec.Commit under the watchdog: error, ledger calls, and (non-empty) why the commit is
// considered hung.  After a hung commit the history must be abandoned.
func (e *hexec) CommitWD(nondet bool, workers int) (err error, log []BaseCall, hung string) {
	e.base.ResetLog()
	o := watchedCommit(e.w.St, nondet, workers)
	log = append([]BaseCall(nil), e.base.Log...)
	if o.hung != "" {
		return nil, log, o.hung
	}
	if o.pan != "" {
		e.fail("panic in implementation", o.pan)
	}
	e.base.ResetLog()
	return o.err, log, ""
}

// ---------- slow failing ledger calls ----------

// slowFaultDelay: how long an armed ledger call takes before it reports its failure when the case asks for
// a slow fault (a ledger that times out instead of refusing at once).  Commits that encode on worker
// goroutines WHILE the ledger is being called (the order-relaxed commit) are then observed with their
// workers ahead of the committing goroutine, which an instantaneous failure hardly ever produces.
const slowFaultDelay = 2 * time.Millisecond

// armSlow arms write call k like LogBase.Arm and makes exactly that call slow.
func armSlow(b *LogBase, k int, slow bool) {
	b.Arm(k)
	if !slow || k < 0 {
		b.Jitter = nil
		return
	}
	b.Jitter = func() {
		if b.FailWrite >= 0 && b.nWrite == b.FailWrite {
			time.Sleep(slowFaultDelay)
		}
	}
}

func disarmSlow(b *LogBase) {
	b.Arm(-1)
	b.Jitter = nil
}

// wdDetail renders the description of a hung commit attempt.
func wdDetail(hung string, nondet bool, workers int, pending int, fault string, log []BaseCall) string {
	return fmt.Sprintf("%s with %d owned pending slabs, %s: %s | ledger calls so far: %s", commitFlavour(nondet, workers), pending, fault, hung, clip(logStr(log), 200))
}
