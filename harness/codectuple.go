//go:build verif

package main

// codectuple.go — an application value type of the harness' own: an IMMUTABLE TUPLE of values.
//
// None of test_utils' storables is a container storable with a reference inside that can itself
// become too large to be stored inline (strings and integers have no children, SomeStorable always
// stays inline and only moves the wrapped value out).  A tuple does: its storable is
// `tag(codecTupleTag) [component storables...]`; containers are components BY REFERENCE (the
// tuple never inlines them and never mutates them), every other component is written in place.
// When the whole storable exceeds the limit handed to Value.Storable it goes through the normal
// path atree.NewStorableSlab — a large-value slab whose storable holds references to other slabs.
//
// codecDecodeStorable is the decode callback for storages that may hold tuples: it decodes
// everything test_utils.DecodeStorable decodes (same tag numbers, read off test_utils' own
// encodings at start-up) with itself as the recursion, so that tuples are also found inside
// wrappers, inlined containers and other tuples.

import (
	"bytes"
	"fmt"
	"math"
	"sort"
	"strings"

	"github.com/fxamacker/cbor/v2"
	"github.com/onflow/atree"
	testutils "github.com/onflow/atree/test_utils"
)

const codecTupleTag = 202

type codecTuple struct {
	values []atree.Value
	repr   string // content rendering fixed at creation (shadow side); "" = render on demand
}

type codecTupleStorable struct {
	elems []atree.Storable
}

var _ atree.Value = codecTuple{}
var _ atree.ContainerStorable = codecTupleStorable{}

// newCodecTuple fixes the rendering of the content at creation: the components must not be
// mutated afterwards (the tuple is immutable).
func newCodecTuple(values ...atree.Value) codecTuple {
	t := codecTuple{values: values}
	t.repr = t.render()
	return t
}

func codecTupleComponent(e atree.Value, storage atree.SlabStorage, address atree.Address) (atree.Storable, error) {
	switch x := e.(type) {
	case *atree.Array:
		return x.Storable(storage, address, 0) // by reference
	case *atree.OrderedMap:
		return x.Storable(storage, address, 0) // by reference
	case testutils.SomeValue:
		inner, err := codecTupleComponent(x.Value, storage, address)
		if err != nil {
			return nil, err
		}
		return testutils.SomeStorable{Storable: inner}, nil
	}
	// strings, integers, nested tuples: in place, whatever their size
	return e.Storable(storage, address, math.MaxUint32-16)
}

func (v codecTuple) Storable(storage atree.SlabStorage, address atree.Address, maxInlineSize uint32) (atree.Storable, error) {
	elems := make([]atree.Storable, len(v.values))
	for i, e := range v.values {
		s, err := codecTupleComponent(e, storage, address)
		if err != nil {
			return nil, err
		}
		if _, ok := s.(atree.SlabIDStorable); !ok {
			if _, isContainer := e.(*atree.Array); isContainer {
				return nil, fmt.Errorf("codecTuple: array component was not returned by reference (%T)", s)
			}
			if _, isContainer := e.(*atree.OrderedMap); isContainer {
				return nil, fmt.Errorf("codecTuple: map component was not returned by reference (%T)", s)
			}
		}
		elems[i] = s
	}
	s := codecTupleStorable{elems: elems}
	if size := s.ByteSize(); size > maxInlineSize {
		return atree.NewStorableSlab(storage, address, s, size)
	}
	return s, nil
}

func (v codecTuple) String() string {
	if v.repr != "" {
		return v.repr
	}
	return v.render()
}

func (v codecTuple) render() string {
	parts := make([]string, len(v.values))
	for i, e := range v.values {
		parts[i] = codecRenderValue(e)
	}
	return "T(" + strings.Join(parts, ",") + ")"
}

// codecRenderValue renders a value by content (containers through read-only iteration).
func codecRenderValue(v atree.Value) string {
	switch x := v.(type) {
	case *atree.Array:
		var parts []string
		err := x.IterateReadOnly(func(e atree.Value) (bool, error) {
			parts = append(parts, codecRenderValue(e))
			return true, nil
		})
		if err != nil {
			return "ERR(" + err.Error() + ")"
		}
		return "A[" + strings.Join(parts, ",") + "]"
	case *atree.OrderedMap:
		var parts []string
		err := x.IterateReadOnly(func(k, e atree.Value) (bool, error) {
			parts = append(parts, codecRenderValue(k)+":"+codecRenderValue(e))
			return true, nil
		})
		if err != nil {
			return "ERR(" + err.Error() + ")"
		}
		sort.Strings(parts)
		return "M{" + strings.Join(parts, ",") + "}"
	case testutils.SomeValue:
		return "S(" + codecRenderValue(x.Value) + ")"
	case codecTuple:
		return x.String()
	}
	return fmt.Sprintf("%T:%v", v, v)
}

func (s codecTupleStorable) Encode(enc *atree.Encoder) error {
	if err := enc.CBOR.EncodeRawBytes([]byte{0xd8, codecTupleTag}); err != nil {
		return err
	}
	if err := enc.CBOR.EncodeArrayHead(uint64(len(s.elems))); err != nil {
		return err
	}
	for _, e := range s.elems {
		if err := e.Encode(enc); err != nil {
			return err
		}
	}
	return nil
}

func (s codecTupleStorable) ByteSize() uint32 {
	size := 2 + atree.GetUintCBORSize(uint64(len(s.elems)))
	for _, e := range s.elems {
		size += e.ByteSize()
	}
	return size
}

func (s codecTupleStorable) StoredValue(storage atree.SlabStorage) (atree.Value, error) {
	values := make([]atree.Value, len(s.elems))
	for i, e := range s.elems {
		v, err := e.StoredValue(storage)
		if err != nil {
			return nil, err
		}
		values[i] = v
	}
	return codecTuple{values: values}, nil
}

func (s codecTupleStorable) ChildStorables() []atree.Storable {
	return append([]atree.Storable(nil), s.elems...)
}

func (s codecTupleStorable) HasPointer() bool {
	for _, e := range s.elems {
		if c, ok := e.(atree.ContainerStorable); ok && c.HasPointer() {
			return true
		}
	}
	return false
}

func (s codecTupleStorable) CanCopyNonRefSimple() bool { return false }

func (s codecTupleStorable) CopyNonRefSimple() (atree.Storable, error) {
	return nil, fmt.Errorf("codecTupleStorable cannot be copied")
}

func (s codecTupleStorable) String() string {
	return fmt.Sprintf("Tuple%v", s.elems)
}

// ---------- decoding ----------

// tag numbers of test_utils' value encodings, read off its own encodings
var codecTagU8, codecTagU16, codecTagU32, codecTagU64, codecTagSome, codecTagSomeNested uint64

func codecTagOf(s atree.Storable) uint64 {
	var buf bytes.Buffer
	em, err := cbor.EncOptions{}.EncMode()
	if err != nil {
		panic(err)
	}
	enc := atree.NewEncoder(&buf, em)
	must(s.Encode(enc))
	must(enc.CBOR.Flush())
	dm, err := cbor.DecOptions{}.DecMode()
	if err != nil {
		panic(err)
	}
	dec := dm.NewStreamDecoder(bytes.NewReader(buf.Bytes()))
	n, err := dec.DecodeTagNumber()
	must(err)
	return n
}

func init() {
	codecTagU8 = codecTagOf(testutils.Uint8Value(1))
	codecTagU16 = codecTagOf(testutils.Uint16Value(1))
	codecTagU32 = codecTagOf(testutils.Uint32Value(1))
	codecTagU64 = codecTagOf(testutils.Uint64Value(1))
	codecTagSome = codecTagOf(testutils.SomeStorable{Storable: testutils.Uint64Value(1)})
	codecTagSomeNested = codecTagOf(testutils.SomeStorable{Storable: testutils.SomeStorable{Storable: testutils.Uint64Value(1)}})
	for _, t := range []uint64{codecTagU8, codecTagU16, codecTagU32, codecTagU64, codecTagSome, codecTagSomeNested} {
		if t == codecTupleTag || t == codecCompositeTag {
			panic("codectuple: tag number collides with a test_utils tag")
		}
	}
	if ok, err := atree.IsCBORTagNumberRangeAvailable(codecTupleTag, codecTupleTag); err != nil || !ok {
		panic("codectuple: tag number is reserved by atree")
	}
}

func codecDecodeStorable(dec *cbor.StreamDecoder, id atree.SlabID, inlinedExtraData []atree.ExtraData) (atree.Storable, error) {
	t, err := dec.NextType()
	if err != nil {
		return nil, err
	}
	switch t {
	case cbor.TextStringType:
		s, err := dec.DecodeString()
		if err != nil {
			return nil, err
		}
		return testutils.NewStringValue(s), nil

	case cbor.TagType:
		tag, err := dec.DecodeTagNumber()
		if err != nil {
			return nil, err
		}
		switch tag {
		case atree.CBORTagInlinedArray:
			return atree.DecodeInlinedArrayStorable(dec, codecDecodeStorable, id, inlinedExtraData)
		case atree.CBORTagInlinedMap:
			return atree.DecodeInlinedMapStorable(dec, codecDecodeStorable, id, inlinedExtraData)
		case atree.CBORTagInlinedCompactMap:
			return atree.DecodeInlinedCompactMapStorable(dec, codecDecodeStorable, id, inlinedExtraData)
		case atree.CBORTagSlabID:
			return atree.DecodeSlabIDStorable(dec)
		case codecTupleTag:
			n, err := dec.DecodeArrayHead()
			if err != nil {
				return nil, err
			}
			elems := make([]atree.Storable, n)
			for i := range elems {
				elems[i], err = codecDecodeStorable(dec, id, inlinedExtraData)
				if err != nil {
					return nil, err
				}
			}
			return codecTupleStorable{elems: elems}, nil
		case codecTagU8, codecTagU16, codecTagU32, codecTagU64:
			n, err := dec.DecodeUint64()
			if err != nil {
				return nil, err
			}
			switch tag {
			case codecTagU8:
				if n > math.MaxUint8 {
					return nil, fmt.Errorf("invalid data, got %d, expected max %d", n, math.MaxUint8)
				}
				return testutils.Uint8Value(n), nil
			case codecTagU16:
				if n > math.MaxUint16 {
					return nil, fmt.Errorf("invalid data, got %d, expected max %d", n, math.MaxUint16)
				}
				return testutils.Uint16Value(n), nil
			case codecTagU32:
				if n > math.MaxUint32 {
					return nil, fmt.Errorf("invalid data, got %d, expected max %d", n, uint32(math.MaxUint32))
				}
				return testutils.Uint32Value(n), nil
			}
			return testutils.Uint64Value(n), nil
		case codecTagSome:
			s, err := codecDecodeStorable(dec, id, inlinedExtraData)
			if err != nil {
				return nil, err
			}
			return testutils.SomeStorable{Storable: s}, nil
		case codecTagSomeNested:
			count, err := dec.DecodeArrayHead()
			if err != nil {
				return nil, err
			}
			if count != 2 {
				return nil, fmt.Errorf("invalid array count for some value with nested levels encoding: got %d, expect 2", count)
			}
			levels, err := dec.DecodeUint64()
			if err != nil {
				return nil, err
			}
			if levels <= 1 {
				return nil, fmt.Errorf("invalid nested levels for some value with nested levels encoding: got %d, expect > 1", levels)
			}
			s, err := codecDecodeStorable(dec, id, inlinedExtraData)
			if err != nil {
				return nil, err
			}
			st := testutils.SomeStorable{Storable: s}
			for i := uint64(1); i < levels; i++ {
				st = testutils.SomeStorable{Storable: st}
			}
			return st, nil
		}
		return nil, fmt.Errorf("invalid tag number %d", tag)
	}
	return nil, fmt.Errorf("invalid cbor type %s for storable", t)
}
