//go:build verif

package main

// dropview_cmd.go — C15: "dropping the write set and cache reverts the view to the last commit", observed at
// container level, where slabs are mutated IN PLACE (the cached object of a committed slab is the object the
// container changes, so after DropDeltas the cache still holds uncommitted content until it is dropped too).
//
// Each case: an array or a map is built and committed (snapshot taken); a burst of mutations through the
// handle; optionally another commit + snapshot + burst; then DropDeltas and DropCache in either order (the
// property names the combination); the container re-obtained by its root identifier on the SAME storage must
// read exactly as the last snapshot, Deltas()==0, and a fresh storage over the ledger must agree.

import (
	"fmt"

	"github.com/onflow/atree"
	testutils "github.com/onflow/atree/test_utils"
)

func init() { register("dropview", cmdDropView) }

func cmdDropView(a Args) {
	rep := NewReport(a.Prop, a.Seed)
	rep.Rule = "an array or map (1..400 scalars, slab sizes 256/512/1024) is committed, mutated through its handle (in-place changes of cached slabs: set, insert/append, remove), optionally committed and mutated again; then DropDeltas and DropCache are called (both orders); the container re-obtained by its root identifier on the same storage must read exactly as at the last commit, the write set must be empty, and a fresh storage over the ledger must read the same. non-trivial = the burst changed a slab that the last commit had left in the read cache"
	rng := NewRng(a.Seed)
	defer atree.VerifSetThreshold(1024)
	n := a.N
	if n <= 0 {
		n = 300
	}
	cmpv, hip := testutils.CompareValue, testutils.GetHashInput
	for h := 0; h < n; h++ {
		hr := rng.Fork(uint64(h))
		tag := fmt.Sprintf("dv%d", h)
		if !want(tag) {
			continue
		}
		T := []uint32{256, 512, 1024}[hr.Intn(3)]
		atree.VerifSetThreshold(T)
		isMap := hr.Bool()
		size := []int{1, 5, 40, 150, 400}[hr.Intn(5)]
		rounds := 1 + hr.Intn(2)
		cacheFirst := hr.Bool()
		fail := func(step int, what, detail string) {
			rep.Violate(h, tag, step, what, fmt.Sprintf("T=%d map=%v size=%d rounds=%d cacheFirst=%v: %s", T, isMap, size, rounds, cacheFirst, detail))
		}
		func() {
			defer func() {
				if p := recover(); p != nil {
					fail(0, "C15: panic in the implementation", fmt.Sprint(p))
				}
			}()
			base := NewLogBase()
			st := newStorage(base)
			ti := testutils.NewSimpleTypeInfo(42)
			addr := mkAddr(2)
			var arr *atree.Array
			var m *atree.OrderedMap
			var err error
			shadowA := []uint64{}
			shadowM := map[uint64]uint64{}
			if isMap {
				m, err = atree.NewMap(st, addr, atree.NewDefaultDigesterBuilder(), ti)
				must(err)
				for i := 0; i < size; i++ {
					_, err = m.Set(cmpv, hip, testutils.Uint64Value(i), testutils.Uint64Value(i*3))
					must(err)
					shadowM[uint64(i)] = uint64(i * 3)
				}
			} else {
				arr, err = atree.NewArray(st, addr, ti)
				must(err)
				for i := 0; i < size; i++ {
					must(arr.Append(testutils.Uint64Value(i * 3)))
					shadowA = append(shadowA, uint64(i*3))
				}
			}
			var snapA []uint64
			snapM := map[uint64]uint64{}
			snapshot := func() {
				snapA = append([]uint64(nil), shadowA...)
				snapM = map[uint64]uint64{}
				for k, v := range shadowM {
					snapM[k] = v
				}
			}
			burst := func() {
				k := 1 + hr.Intn(30)
				for j := 0; j < k; j++ {
					v := uint64(1000000 + hr.Intn(1000000))
					if isMap {
						key := uint64(hr.Intn(size + 20))
						if _, ok := shadowM[key]; ok && hr.Chance(30) {
							_, _, err := m.Remove(cmpv, hip, testutils.Uint64Value(key))
							must(err)
							delete(shadowM, key)
						} else {
							_, err := m.Set(cmpv, hip, testutils.Uint64Value(key), testutils.Uint64Value(v))
							must(err)
							shadowM[key] = v
						}
					} else {
						switch {
						case len(shadowA) > 0 && hr.Chance(50):
							i := hr.Intn(len(shadowA))
							_, err := arr.Set(uint64(i), testutils.Uint64Value(v))
							must(err)
							shadowA[i] = v
						case len(shadowA) > 1 && hr.Chance(40):
							i := hr.Intn(len(shadowA))
							_, err := arr.Remove(uint64(i))
							must(err)
							shadowA = append(shadowA[:i], shadowA[i+1:]...)
						default:
							must(arr.Append(testutils.Uint64Value(v)))
							shadowA = append(shadowA, v)
						}
					}
					rep.Steps++
				}
			}
			must(st.FastCommit(2))
			snapshot()
			for r := 1; r < rounds; r++ {
				burst()
				must(st.FastCommit(2))
				snapshot()
			}
			burst()
			rep.Distinct(tag)
			if cacheFirst {
				st.DropCache()
				st.DropDeltas()
				st.DropCache() // the property names the combination; the cache may have been refilled from the write set
			} else {
				st.DropDeltas()
				st.DropCache()
			}
			if st.Deltas() != 0 {
				fail(1, "C15: the write set is not empty after it was dropped", fmt.Sprint(st.Deltas()))
				return
			}
			check := func(s *atree.PersistentSlabStorage, where string) bool {
				if isMap {
					id := m.SlabID()
					m2, err := atree.NewMapWithRootID(s, id, atree.NewDefaultDigesterBuilder())
					if err != nil {
						fail(2, "C15: the container cannot be read after dropping write set and cache", where+": "+err.Error())
						return false
					}
					if m2.Count() != uint64(len(snapM)) {
						fail(2, "C15: after dropping the write set and the cache the view is not the last commit", fmt.Sprintf("%s: count %d, last commit %d", where, m2.Count(), len(snapM)))
						return false
					}
					for k, v := range snapM {
						got, err := m2.Get(cmpv, hip, testutils.Uint64Value(k))
						if err != nil || got != testutils.Uint64Value(v) {
							fail(2, "C15: after dropping the write set and the cache the view is not the last commit", fmt.Sprintf("%s: key %d reads %v (%v), last commit %d", where, k, got, err, v))
							return false
						}
					}
					return true
				}
				id := arr.SlabID()
				a2, err := atree.NewArrayWithRootID(s, id)
				if err != nil {
					fail(2, "C15: the container cannot be read after dropping write set and cache", where+": "+err.Error())
					return false
				}
				if a2.Count() != uint64(len(snapA)) {
					fail(2, "C15: after dropping the write set and the cache the view is not the last commit", fmt.Sprintf("%s: count %d, last commit %d", where, a2.Count(), len(snapA)))
					return false
				}
				for i, v := range snapA {
					got, err := a2.Get(uint64(i))
					if err != nil || got != testutils.Uint64Value(v) {
						fail(2, "C15: after dropping the write set and the cache the view is not the last commit", fmt.Sprintf("%s: index %d reads %v (%v), last commit %d", where, i, got, err, v))
						return false
					}
				}
				return true
			}
			if check(st, "same storage") {
				check(newStorage(base), "fresh storage")
			}
		}()
		rep.Histories++
	}
	rep.Sample("case: kind, size, commits, burst of in-place mutations, DropDeltas/DropCache order")
	rep.Write(a.Out + "/report.json")
}
