//go:build verif

package main

// C16: (i) commits and preloads with many workers vs one worker on storages produced by World
// histories; (ii) independent histories on concurrent goroutines vs the same histories run alone;
// (iii) the same comparison with every client on its own atree.Ledger behind the production adapter
// atree.NewLedgerBaseStorage (sched_concledger.go).
// The slab size is set ONCE at the start (default 1024) and never during a concurrent phase.
// Every goroutine owns its World, ledger, generators and Report shard; results are written to
// distinct slice slots and read after wg.Wait().

import (
	"errors"
	"fmt"
	"runtime"
	"sync"
	"time"

	"github.com/onflow/atree"
)

// ---------- (i) worker counts ----------

type workersResult struct {
	digests   []string
	final     *LogBase
	cacheKeys string
	deltaKeys string
	lastErr   string
	extErr    bool
	lastCalls int
	what      string
	detail    string
	steps     int
}

// runWorkers executes the history committing with the given worker count at seed-determined points;
// failAt >= 0 arms a ledger fault at that call of the FINAL commit.
func runWorkers(sp histSpec, workers int, nondet bool, failAt int, rep *Report) (res workersResult) {
	sched := NewRng(sp.Seed ^ 0xC16C16)
	pc := []int{2, 5, 12}[sched.Intn(3)]
	e := newExec(sp, rep)
	for e.step < sp.Steps && !e.failed {
		e.Step()
		if !e.failed && sched.Chance(pc) {
			err, _ := e.Commit(nondet, workers)
			if err != nil {
				e.fail("commit failed", err.Error())
			}
			res.digests = append(res.digests, ledgerDigest(e.base))
		}
	}
	if !e.failed {
		e.base.Arm(failAt)
		err, log := e.Commit(nondet, workers)
		e.base.Arm(-1)
		res.lastCalls = len(log)
		if err != nil {
			res.lastErr = err.Error()
			var ee *atree.ExternalError
			res.extErr = errors.As(err, &ee)
			if failAt < 0 {
				e.fail("final commit failed", err.Error())
			}
		} else if failAt >= 0 {
			e.fail("commit with a failed ledger call returned no error", logStr(log))
		}
		res.digests = append(res.digests, ledgerDigest(e.base))
		d, c := atree.VerifStorageKeys(e.w.St)
		res.deltaKeys, res.cacheKeys = keySetStr(d), keySetStr(c)
		if failAt < 0 {
			e.Verify(true)
		} else {
			e.Verify(false)
		}
	}
	res.final = e.base
	res.what, res.detail, res.steps = e.what, e.detail, e.step
	return res
}

type preloadResult struct {
	err       string
	cacheKeys string
	bad       string
}

// runPreload preloads ids into a fresh storage over a copy of the ledger and checks that every
// cached slab re-encodes to its register.
func runPreload(ledger *LogBase, ids []atree.SlabID, workers int, failRead int, jitter bool) (res preloadResult) {
	b := ledger.Clone()
	if jitter {
		jr := NewRng(uint64(workers)*31 + uint64(len(ids)))
		b.Jitter = func() {
			if jr.Chance(30) {
				runtime.Gosched()
			}
		}
	}
	st := newStorage(b)
	b.ArmRead(failRead)
	defer func() {
		if r := recover(); r != nil {
			res.bad = "panic: " + fmt.Sprint(r)
		}
	}()
	// watchdog: a preload that does not return is a finding by itself (the goroutine is abandoned)
	done := make(chan error, 1)
	go func() {
		defer func() {
			if r := recover(); r != nil {
				done <- fmt.Errorf("panic: %v", r)
			}
		}()
		done <- st.BatchPreload(ids, workers)
	}()
	select {
	case err := <-done:
		if err != nil {
			res.err = err.Error()
		}
	case <-time.After(20 * time.Second):
		res.bad = fmt.Sprintf("BatchPreload with %d workers over %d ids did not return within 20 s (deadlock)", workers, len(ids))
		return res
	}
	_, c := atree.VerifStorageKeys(st)
	res.cacheKeys = keySetStr(c)
	for id := range c {
		s, _ := atree.VerifStorageCacheSlab(st, id)
		if s == nil {
			res.bad = "nil slab cached for " + id.String()
			continue
		}
		enc, err := atree.EncodeSlab(s, encMode)
		if err != nil || string(enc) != string(b.Segs[id]) {
			res.bad = fmt.Sprintf("preloaded slab %s does not re-encode to its register (%v)", id, err)
		}
	}
	if len(b.Log) != 0 {
		res.bad = "preload wrote to the ledger: " + logStr(b.Log)
	}
	return res
}

func workersHistory(rep *Report, h int, tag string, hr *Rng, maxSteps int) {
	lo := 60
	if maxSteps < lo {
		lo = maxSteps
	}
	sp := newSpec(hr, lo, maxSteps, false)
	sp.T = 1024
	sp.Opts.LargeVals = true       // more registers: each large value is a slab of its own
	sp.Prefill = 60 + hr.Intn(200) // multi-slab trees, so that commits and preloads have many jobs
	sp.Opts.KeySpace = 600
	viol := func(step int, what, detail string) {
		rep.Violate(h, tag, step, what, sp.String()+" | "+clip(detail, 700))
	}
	ref := runWorkers(sp, 1, false, -1, rep)
	rep.Histories++
	rep.Steps += ref.steps
	if ref.what != "" {
		viol(ref.steps, "C16: 1-worker execution failed: "+ref.what, ref.detail)
		return
	}
	scratch := NewReport("", 0)
	ws := []int{2 + hr.Intn(7), 2 + hr.Intn(63), 64}
	same := func(name string, r, ref workersResult, errExact bool) {
		if r.what != "" {
			viol(r.steps, "C16: "+name+" failed: "+r.what, r.detail)
			return
		}
		if len(r.digests) != len(ref.digests) {
			viol(0, "C16: "+name+": number of commits differs from the 1-worker run", "")
			return
		}
		for c := range r.digests {
			if r.digests[c] != ref.digests[c] {
				viol(c, "C16: "+name+": registers after a commit differ from the 1-worker run", fmt.Sprintf("commit #%d", c))
				return
			}
		}
		if d := SameRegisters(ref.final, r.final); d != "" {
			viol(r.steps, "C16: "+name+": final registers differ from the 1-worker run", d)
		}
		if r.cacheKeys != ref.cacheKeys {
			viol(r.steps, "C16: "+name+": read-cache key set differs from the 1-worker run", r.cacheKeys+" vs "+ref.cacheKeys)
		}
		if r.deltaKeys != ref.deltaKeys {
			viol(r.steps, "C16: "+name+": write-set key set differs from the 1-worker run", r.deltaKeys+" vs "+ref.deltaKeys)
		}
		if r.extErr != ref.extErr || (r.lastErr == "") != (ref.lastErr == "") || (errExact && r.lastErr != ref.lastErr) {
			viol(r.steps, "C16: "+name+": error differs from the 1-worker run", r.lastErr+" vs "+ref.lastErr)
		}
	}
	for _, W := range ws {
		same(fmt.Sprintf("FastCommit(%d)", W), runWorkers(sp, W, false, -1, scratch), ref, true)
		rep.Event("commit_workers_compared")
	}
	// relaxed commit: many workers vs one worker
	nref := runWorkers(sp, 1, true, -1, scratch)
	same("NondeterministicFastCommit(1) vs FastCommit(1)", nref, ref, true)
	same(fmt.Sprintf("NondeterministicFastCommit(%d)", ws[1]), runWorkers(sp, ws[1], true, -1, scratch), nref, true)
	rep.Event("relaxed_commit_workers_compared")
	// same ledger fault in the final commit: same error, registers, key sets
	if ref.lastCalls > 0 && hr.Chance(50) {
		k := hr.Intn(ref.lastCalls)
		f1 := runWorkers(sp, 1, false, k, scratch)
		fw := runWorkers(sp, ws[1], false, k, scratch)
		if !f1.extErr && f1.what == "" {
			viol(f1.steps, "C16: ledger fault during a 1-worker commit not reported as ExternalError", f1.lastErr)
		}
		same(fmt.Sprintf("FastCommit(%d) with ledger call %d failing", ws[1], k), fw, f1, true)
		rep.Event("faulted_commit_workers_compared")
	}
	// BatchPreload on fresh storages over the final ledger
	ids := ref.final.SortedIDs()
	for i := len(ids) - 1; i > 0; i-- { // order of the request must not matter for the result either
		j := hr.Intn(i + 1)
		ids[i], ids[j] = ids[j], ids[i]
	}
	present := len(ids)
	if hr.Bool() {
		for i := 0; len(ids) < 14; i++ { // absent ids: force the parallel path (>= 11 ids)
			ids = append(ids, mkID(sp.Opts.Addr, uint64(1_000_000+i)))
		}
	} else if hr.Bool() {
		ids = append(ids, mkID(7, 1), ids[0]) // an absent id and a duplicate
	}
	if len(ids) >= 11 {
		rep.Event("preload_parallel_path")
	} else {
		rep.Event("preload_sequential_path")
	}
	rep.EventN("preload_ids", present)
	p1 := runPreload(ref.final, ids, 1, -1, false)
	if p1.bad != "" || p1.err != "" {
		viol(0, "C16: BatchPreload with 1 worker misbehaved", p1.bad+" "+p1.err)
	}
	for _, W := range ws {
		pw := runPreload(ref.final, ids, W, -1, hr.Bool())
		if pw.bad != "" {
			viol(0, fmt.Sprintf("C16: BatchPreload with %d workers misbehaved", W), pw.bad)
		}
		if pw.err != p1.err || pw.cacheKeys != p1.cacheKeys {
			viol(0, fmt.Sprintf("C16: BatchPreload with %d workers differs from 1 worker (error / cache key set)", W), fmt.Sprintf("err %q vs %q; cache %s vs %s", pw.err, p1.err, pw.cacheKeys, p1.cacheKeys))
		}
		rep.Event("preload_workers_compared")
	}
	if present > 0 && hr.Chance(50) {
		k := hr.Intn(present)
		q1 := runPreload(ref.final, ids, 1, k, false)
		qw := runPreload(ref.final, ids, ws[1], k, true)
		if q1.err == "" {
			viol(0, "C16: BatchPreload with a failing ledger read returned no error", "")
		}
		if q1.err != qw.err || q1.cacheKeys != qw.cacheKeys || q1.bad != "" || qw.bad != "" {
			viol(0, fmt.Sprintf("C16: BatchPreload with a failing ledger read: %d workers differ from 1 worker", ws[1]), fmt.Sprintf("err %q vs %q; cache %s vs %s; %s %s", qw.err, q1.err, qw.cacheKeys, q1.cacheKeys, q1.bad, qw.bad))
		}
		rep.Event("faulted_preload_workers_compared")
	}
	if len(ref.digests) >= 2 && len(ref.final.Segs) >= 4 {
		rep.Distinct("w " + ledgerDigest(ref.final))
	}
	if h < 2 {
		rep.Sample(fmt.Sprintf("%s: %s commits=%d registers=%d workers=%v preload ids=%d", tag, sp, len(ref.digests), len(ref.final.Segs), ws, len(ids)))
	}
}

// ---------- (ii) concurrent goroutines ----------

type memberResult struct {
	fps    []string
	digest string
	what   string
	detail string
	steps  int
	regs   int
}

// runMember executes one independent history on its own ledger and storage.  Everything it
// touches outside the library is local to the call.
func runMember(sp histSpec, jitter bool, rep *Report) (res memberResult) {
	sched := NewRng(sp.Seed ^ 0x60607)
	jr := NewRng(sp.Seed ^ 0x71773)
	e := newExec(sp, rep)
	if jitter {
		e.base.Jitter = func() {
			if jr.Chance(30) {
				runtime.Gosched()
			}
		}
	}
	for e.step < sp.Steps && !e.failed {
		op := e.Step()
		if e.failed {
			break
		}
		res.fps = append(res.fps, op+" "+e.libFingerprint())
		if e.step%8 == 0 {
			e.Verify(true)
		}
		if sched.Chance(8) {
			err, _ := e.Commit(sched.Chance(25), 1+sched.Intn(4))
			if err != nil {
				e.fail("commit failed", err.Error())
			}
			if sched.Chance(30) {
				e.w.St.DropCache()
				e.Reopen(nil, 0)
			}
		}
		if jitter && jr.Chance(20) {
			runtime.Gosched()
		}
	}
	if !e.failed {
		err, _ := e.Commit(false, 3)
		if err != nil {
			e.fail("final commit failed", err.Error())
		}
		e.Verify(true)
	}
	res.digest = ledgerDigest(e.base)
	res.regs = len(e.base.Segs)
	res.what, res.detail, res.steps = e.what, e.detail, e.step
	return res
}

func goroutineGroup(rep *Report, g int, tag string, gr *Rng, maxSteps int) {
	n := []int{4, 16}[g%2]
	lo := 40
	if maxSteps < lo {
		lo = maxSteps
	}
	specs := make([]histSpec, n)
	for i := range specs {
		specs[i] = newSpec(gr.Fork(uint64(i)), lo, maxSteps, false)
		specs[i].T = 1024
	}
	alone := make([]memberResult, n)
	ok := true
	for i := range specs {
		alone[i] = runMember(specs[i], false, rep)
		rep.Histories++
		rep.Steps += alone[i].steps
		if alone[i].what != "" {
			rep.Violate(g, tag, alone[i].steps, "C16: history run alone failed: "+alone[i].what, specs[i].String()+" | "+clip(alone[i].detail, 600))
			ok = false
		}
	}
	if !ok {
		return
	}
	for _, gmp := range []int{1, 4, 16} {
		conc := make([]memberResult, n)
		prev := runtime.GOMAXPROCS(gmp)
		var wg sync.WaitGroup
		start := make(chan struct{})
		for i := 0; i < n; i++ {
			wg.Add(1)
			go func(i int) {
				defer wg.Done()
				<-start
				conc[i] = runMember(specs[i], true, NewReport("", 0))
			}(i)
		}
		close(start)
		wg.Wait()
		runtime.GOMAXPROCS(prev)
		rep.Event(fmt.Sprintf("concurrent_group_n%d_gmp%d", n, gmp))
		for i := range conc {
			c, a := conc[i], alone[i]
			ctx := fmt.Sprintf("member %d of %d, GOMAXPROCS=%d, %s", i, n, gmp, specs[i])
			if c.what != "" {
				rep.Violate(g, tag, c.steps, "C16: history failed when run concurrently with others but not alone: "+c.what, ctx+" | "+clip(c.detail, 600))
				continue
			}
			if len(c.fps) != len(a.fps) {
				rep.Violate(g, tag, len(c.fps), "C16: concurrent run has a different length than the run alone", ctx)
				continue
			}
			diff := false
			for s := range c.fps {
				if c.fps[s] != a.fps[s] {
					rep.Violate(g, tag, s+1, "C16: operation result differs between the concurrent run and the run alone", ctx+" | "+c.fps[s]+" vs "+a.fps[s])
					diff = true
					break
				}
			}
			if !diff && c.digest != a.digest {
				rep.Violate(g, tag, c.steps, "C16: final registers differ between the concurrent run and the run alone", ctx)
			}
		}
	}
	multi := 0
	for _, a := range alone {
		if a.regs >= 3 {
			multi++
		}
	}
	if multi*2 >= n {
		rep.Distinct(fmt.Sprintf("g %d %s", n, alone[0].digest))
	}
}

func cmdConcurrent(a Args) {
	rep := NewReport(a.Prop, a.Seed)
	rep.Rule = "slab size fixed at 1024 (set once before any goroutine starts). (i) -n World histories (60..-steps ops, large values on, 1-3 roots prefilled with 30..390 elements each): executed with FastCommit(1) and re-executed with FastCommit(W) for W in {2..8 random, 2..64 random, 64}, NondeterministicFastCommit(1) and (W), " +
		"and (50%) with the same ledger call of the final commit failing under 1 and W workers: ledger digest after every commit, final registers, read-cache key set, write-set key set and error must be equal; BatchPreload of the shuffled ledger ids (+ absent ids to reach the parallel path, + duplicates) " +
		"into fresh storages with 1 vs W workers, with Gosched jitter in the ledger and (50%) a failing ledger read: error, cache key set equal, every cached slab re-encodes to its register. " +
		"(ii) ceil(n/10) groups of 4 or 16 independent histories (40..-steps ops, roots empty or prefilled as in the other schedule checks, commits with 1-4 workers, relaxed commits, DropCache+reopen, VerifyArray/VerifyMap/health every 8 ops), each on its own storage/ledger: run alone sequentially, then on concurrent goroutines under GOMAXPROCS 1, 4, 16 with Gosched jitter in the ledger and between ops: " +
		"per-step library fingerprints and final ledger digests must be equal. " +
		"(iii) ceil(n/10) groups of 4 or 16 independent clients, each with its own in-memory atree.Ledger (absent register = empty value; slab indexes allocated from a client-specific offset, so that the clients' register keys are pairwise disjoint) behind the production adapter atree.NewLedgerBaseStorage, its own storage and World history (16..-steps/3 ops, ~80% of the clients with roots prefilled with ~5-180 elements each; VerifyArray/VerifyMap/health every 16 ops; commit with 1-4 workers / relaxed commit after 10/20/35% of the ops, followed by DropCache+reopen from the ledger through a new adapter (30%), the same with BatchPreload of every register with 1-8 workers (25%), DropCache under the live handles (20%) or nothing; final commit, reopen, VerifyArray/VerifyMap/health): run alone, then on concurrent goroutines under GOMAXPROCS 1, 4, 16 with Gosched jitter between ops and inside the ledger BEFORE it reads the key bytes: " +
		"per-step library fingerprints, register digest after every commit, final registers (key -> bytes) and the set of register keys the ledger is asked for must equal those of the run alone; every key must name a slab index this ledger allocated for that owner; a client stops at the first step known to be wrong. " +
		"Built with -race by the driver. non-trivial: (i) >=2 commits and >=4 registers; (ii) at least half of the group's histories end with >=3 registers; (iii) at least half of the group's clients made >=2 commits, >=1 reload with ledger reads and end with >=3 registers. -mode workers|goroutines|ledger selects one part"
	atree.VerifSetThreshold(1024)
	rng := NewRng(a.Seed)
	if a.Mode != "goroutines" && a.Mode != "ledger" {
		for h := 0; h < a.N; h++ {
			hr := rng.Fork(uint64(h))
			tag := fmt.Sprintf("cw%d", h)
			if !want(tag) {
				continue
			}
			workersHistory(rep, h, tag, hr, a.Steps)
		}
	}
	grng := NewRng(a.Seed ^ 0x6060)
	if a.Mode != "workers" && a.Mode != "ledger" {
		G := (a.N + 9) / 10
		for g := 0; g < G; g++ {
			gr := grng.Fork(uint64(g))
			tag := fmt.Sprintf("cg%d", g)
			if !want(tag) {
				continue
			}
			goroutineGroup(rep, g, tag, gr, a.Steps)
		}
	}
	lrng := NewRng(a.Seed ^ 0x1ED6E8)
	if a.Mode != "workers" && a.Mode != "goroutines" {
		G := (a.N + 9) / 10
		for g := 0; g < G; g++ {
			gr := lrng.Fork(uint64(g))
			tag := fmt.Sprintf("cl%d", g)
			if !want(tag) {
				continue
			}
			ledgerGroup(rep, g, tag, gr, a.Steps)
		}
	}
	rep.Write(a.Out + "/report.json")
}
