//go:build verif

package main

// Subcommand "maptree": the SLAB TREE of OrderedMap in lock step with coq/theories/MapTree.v
// (engine chk_maptree, coq/theories/MapTreeTrace.v).  One map per history, driven through
// Set/Get/Has/Remove/Count/iterators/PopIterate under a table-driven digester whose level-0
// alphabet is LARGE (so the tree gets tall), mixed with colliding clusters.  Per step the answer,
// the storeSlab/Remove log, the allocator and the root header are compared with the model; the
// whole tree (every cached field of every slab) when the map is small or every 16th step.
// Model-independent oracles: shadow dictionary, VerifyMap, storage health, reachable = live slabs,
// reopen from a fresh storage after commit, "emptied map leaves only the root slab".
// Serves C02, C05, C09 (map side).
//
// Histories of this subcommand (not the ones other subcommands build on mtrRun) additionally commit
// at random points (per-history density), run "dense stretches" (commit after every mutation, reopen
// from the ledger bytes and compare after each), and sometimes continue on the reopened map (the
// old wrapper and storage are dropped).  Commits and reopens are no trace steps.

import (
	"fmt"
	"sort"

	"github.com/onflow/atree"
	testutils "github.com/onflow/atree/test_utils"
)

func init() { register("maptree", cmdMapTree) }

type mtrKey struct {
	id  uint64
	val atree.Value
	ksz uint64
	d   [mpeLevels]uint64
}

type mtrEntry struct {
	k   *mtrKey
	vid uint64
	vsz uint64
	seq uint64
}

type mtrRun struct {
	rep  *Report
	tr   *Trace
	hist int
	tag  string
	step int
	rng  *Rng

	T         uint32
	maxInline uint64
	maxKey    uint64
	limit     uint64
	defLimit  bool // the collision limit is not configured: the library's default is in force
	mode      string
	order     string
	profile   int

	durq     int // chance (percent) of a commit after a mutation; 0 = only the scheduled reopen checks
	stretchP int // chance (per mille) that a mutation starts a dense stretch
	dense    int // remaining mutations of the current dense stretch

	nCommit, nReopen, nAdopt int

	base *LogBase
	st   *atree.PersistentSlabStorage
	rec  *RecStorage
	addr atree.Address
	ti   atree.TypeInfo
	m    *atree.OrderedMap
	b    *mpeBuilder

	pool    []*mtrKey
	probes  []*mtrKey
	ins     []*mtrKey // insertion order
	insPos  int
	live    []*mtrKey
	livePos map[uint64]int
	shadow  map[uint64]*mtrEntry
	seq     uint64
	vctr    uint64

	maxH                                                     int
	sawSplit, sawMerge, sawRebal, sawLower, sawExt, sawPromo bool
	sawRefused, sawRemoveSplit                               bool
	dead                                                     bool

	sz *mapSizes // -mode sizes (maptree_sizes.go): slab sizes of the whole legal range, directed rounds on the index level
}

func (r *mtrRun) viol(what, detail string) {
	if len(detail) > 400 {
		detail = detail[:400] + "..."
	}
	r.rep.Violate(r.hist, r.tag, r.step, what, fmt.Sprintf("T=%d %s", r.T, detail))
}

func (r *mtrRun) emit(op []uint64, obs []uint64) {
	r.tr.StepU(op, nil, obs)
	r.step++
}

func (r *mtrRun) unexpected(op string, err error, panicked bool) {
	kind := "error"
	if panicked {
		kind = "panic"
		r.rep.Err("panic")
	} else {
		r.rep.Err("other")
	}
	r.viol("C02: unexpected error ("+kind+") in "+op, fmt.Sprint(err))
	r.dead = true
}

func mtrElem(s atree.Storable) (uint64, uint64) {
	id, sz, _ := mpeIdent(s)
	return id, sz
}

// ---------- keys, digests, values ----------

func (r *mtrRun) newKey(used map[uint64]bool) *mtrKey {
	rng := r.rng
	for {
		var id uint64
		switch rng.Pick(15, 20, 25, 20, 20) {
		case 0:
			id = uint64(rng.Intn(24))
		case 1:
			id = 24 + uint64(rng.Intn(232))
		case 2:
			id = 256 + uint64(rng.Intn(65536-256))
		case 3:
			id = 65536 + rng.U64()%(1<<32-65536)
		default:
			id = 1<<32 + rng.U64()%(1<<62-1<<32)
		}
		if used[id] {
			continue
		}
		used[id] = true
		k := &mtrKey{id: id}
		if rng.Chance(60) {
			v := testutils.Uint64Value(id)
			k.val, k.ksz = v, uint64(v.ByteSize())
		} else {
			head := fmt.Sprintf("%d|", id)
			padMax := int(r.maxKey) - 2 - len(head)
			if padMax < 0 {
				padMax = 0
			}
			pad := 0
			switch rng.Pick(50, 35, 15) {
			case 0:
				pad = rng.Intn(min(padMax, 6) + 1)
			case 1:
				pad = rng.Intn(padMax + 1)
			default:
				pad = padMax
			}
			v := testutils.NewStringValue(head + mpePad(rng, pad))
			k.val, k.ksz = v, uint64(v.ByteSize())
		}
		if k.ksz > r.maxKey {
			panic(fmt.Sprintf("maptree: key size %d > %d", k.ksz, r.maxKey))
		}
		return k
	}
}

func mtrDistinct(rng *Rng, n int, special bool) []uint64 {
	seen := map[uint64]bool{}
	out := make([]uint64, 0, n)
	for len(out) < n {
		v := rng.U64()
		if special && rng.Chance(8) {
			v = mpeSpecial[rng.Intn(len(mpeSpecial))]
		}
		if !seen[v] {
			seen[v] = true
			out = append(out, v)
		}
	}
	return out
}

// genDigests: LARGE level-0 alphabets, optionally with colliding clusters
func (r *mtrRun) genDigests() {
	rng := r.rng
	n := len(r.pool)
	small := func() []uint64 { return mpeAlphabet(rng, 1+rng.Intn(3)) }
	for _, k := range r.pool {
		for l := 1; l < mpeLevels; l++ {
			k.d[l] = rng.U64()
		}
	}
	switch rng.Pick(22, 22, 30, 26) {
	case 0:
		r.mode = "distinct"
		d0 := mtrDistinct(rng, n, true)
		for i, k := range r.pool {
			k.d[0] = d0[i]
		}
	case 1:
		r.mode = "sequential"
		stride := []uint64{1, 2, 1000, 1 << 40}[rng.Intn(4)]
		span := uint64(n) * stride
		var base uint64
		switch rng.Intn(4) {
		case 0:
			base = 0
		case 1:
			base = 1
		case 2:
			base = 1<<63 - span/2 // crosses the sign bit
		default:
			base = ^uint64(0) - span + stride // ends at the maximum
		}
		for i, k := range r.pool {
			k.d[0] = base + uint64(i)*stride
		}
	case 2:
		r.mode = "clustered"
		na := n*3/4 + 1
		a0 := mtrDistinct(rng, na, true)
		a1, a2, a3 := small(), small(), small()
		for _, k := range r.pool {
			k.d[0] = a0[rng.Intn(na)]
			if rng.Chance(70) {
				k.d[1] = a1[rng.Intn(len(a1))]
				if rng.Chance(60) {
					k.d[2] = a2[rng.Intn(len(a2))]
					if rng.Chance(50) {
						k.d[3] = a3[rng.Intn(len(a3))]
					}
				}
			}
		}
	default:
		r.mode = "hot"
		// a few hot level-0 digests carrying big collision groups (external slabs), the rest distinct
		nh := 1 + rng.Intn(4)
		hot := mtrDistinct(rng, nh, true)
		d0 := mtrDistinct(rng, n, true)
		a2 := small()
		for i, k := range r.pool {
			if rng.Chance(30) {
				k.d[0] = hot[rng.Intn(nh)]
				if rng.Chance(25) {
					k.d[1] = uint64(rng.Intn(3))
					if rng.Chance(50) {
						k.d[2] = a2[rng.Intn(len(a2))]
					}
				}
			} else {
				k.d[0] = d0[i]
			}
		}
	}
}

func (r *mtrRun) genProbes(used map[uint64]bool) {
	rng := r.rng
	var d0s []uint64
	for _, k := range r.pool {
		d0s = append(d0s, k.d[0])
	}
	sort.Slice(d0s, func(i, j int) bool { return d0s[i] < d0s[j] })
	add := func(d [mpeLevels]uint64) {
		k := r.newKey(used)
		k.d = d
		r.probes = append(r.probes, k)
	}
	rnd := func() [mpeLevels]uint64 { return [mpeLevels]uint64{rng.U64(), rng.U64(), rng.U64(), rng.U64()} }
	if d0s[0] > 0 {
		d := rnd()
		d[0] = d0s[0] - 1
		add(d)
		d = rnd()
		d[0] = 0
		add(d)
	}
	if d0s[len(d0s)-1] < ^uint64(0) {
		d := rnd()
		d[0] = d0s[len(d0s)-1] + 1
		add(d)
		d = rnd()
		d[0] = ^uint64(0)
		add(d)
	}
	for t := 0; t < 6 && len(d0s) >= 2; t++ { // between two stored digests
		i := rng.Intn(len(d0s) - 1)
		if d0s[i+1]-d0s[i] > 1 {
			d := rnd()
			d[0] = d0s[i] + 1 + rng.U64()%(d0s[i+1]-d0s[i]-1)
			add(d)
		}
	}
	for t := 0; t < 4; t++ { // same level-0 digest as a pool key, different below
		src := r.pool[rng.Intn(len(r.pool))]
		d := src.d
		j := 1 + rng.Intn(mpeLevels-1)
		for l := j; l < mpeLevels; l++ {
			d[l] = rng.U64()
		}
		add(d)
	}
}

func (r *mtrRun) newValue(k *mtrKey, avoid uint64) (atree.Value, uint64, uint64) {
	if r.sz != nil && r.sz.forceV > 0 { // -mode sizes: the generator chose the value's size
		n := r.sz.forceV
		r.sz.forceV = 0
		return r.valueOfSize(k, n)
	}
	rng := r.rng
	vmax := r.maxInline - k.ksz - 1
	r.vctr++
	c := r.vctr
	for try := 0; ; try++ {
		var v atree.Value
		vid := c
		kind := 0 // 0 small uint, 1 wide uint, 2 short string, 3 long string, 4 maximal string
		switch r.profile {
		case 0:
			kind = rng.Pick(60, 15, 25, 0, 0)
		case 1:
			kind = rng.Pick(30, 15, 25, 25, 5)
		default:
			kind = rng.Pick(10, 8, 12, 50, 20)
		}
		switch kind {
		case 0:
			v = testutils.Uint64Value(vid)
		case 1:
			if rng.Bool() {
				vid = 70000 + c
			} else {
				vid = 1<<33 + c
			}
			v = testutils.Uint64Value(vid)
		default:
			head := fmt.Sprintf("%d|", vid)
			maxLen := int(vmax) - 1
			if maxLen >= 24 {
				maxLen = int(vmax) - 2
			}
			if maxLen >= 256 {
				maxLen = int(vmax) - 3
				if maxLen < 255 {
					maxLen = 255
				}
			}
			padMax := maxLen - len(head)
			if padMax < 0 {
				v = testutils.Uint64Value(vid)
				break
			}
			pad := 0
			switch kind {
			case 2:
				pad = rng.Intn(min(padMax, 12) + 1)
			case 3:
				pad = padMax/3 + rng.Intn(padMax-padMax/3+1)
			default:
				pad = padMax - rng.Intn(min(padMax, 3)+1)
			}
			v = testutils.NewStringValue(head + mpePad(rng, pad))
		}
		_, vsz, _ := mpeIdent(v)
		if vsz > vmax {
			if try > 20 {
				vid = c
				v = testutils.Uint64Value(vid)
				_, vsz, _ = mpeIdent(v)
				return v, vid, vsz
			}
			continue
		}
		if vsz == avoid && try < 6 {
			continue
		}
		return v, vid, vsz
	}
}

// ---------- comparison tail, oracles ----------

func (r *mtrRun) wantDump() uint64 {
	n := len(r.shadow)
	if n <= 40 || (n <= 150 && r.step%16 == 0) || r.step%64 == 0 {
		return 1
	}
	return 0
}

// tail of a mutating answer: write log, allocator, root header + count, optional tree dump + wf flag
func (r *mtrRun) mutTail(dump bool) ([]uint64, bool) {
	out := []uint64{uint64(len(r.rec.Log) / 2)}
	stores, removes := 0, 0
	for k := 0; k+1 < len(r.rec.Log); k += 2 {
		out = append(out, uint64(r.rec.Log[k]), uint64(r.rec.Log[k+1]))
		if r.rec.Log[k] == 1 {
			stores++
		} else {
			removes++
		}
	}
	r.rec.Log = r.rec.Log[:0]
	out = append(out, r.base.LastIndex(r.addr))
	h := atree.VerifMapRootHeader(r.m)
	out = append(out, h[0], h[1], h[2], h[3])
	if h[3] != r.m.Count() {
		r.viol("C02: extra-data count differs from Count()", fmt.Sprintf("%d vs %d", h[3], r.m.Count()))
	}
	if dump {
		var d []uint64
		err, pan := mpeCall(func() error {
			var e error
			d, e = atree.VerifMapTreeDump(r.m, mtrElem)
			return e
		})
		if err != nil {
			r.viol("C05: slab tree cannot be walked", fmt.Sprintf("panic=%v %v", pan, err))
			r.dead = true
			return out, false
		}
		out = append(out, d...)
		out = append(out, 1)
	}
	_ = stores
	_ = removes
	return out, true
}

// classify the structural effect of the step from the write log (before mutTail clears it)
func (r *mtrRun) classify(allocBefore uint64, name string) {
	stores, removes := 0, 0
	for k := 0; k+1 < len(r.rec.Log); k += 2 {
		if r.rec.Log[k] == 1 {
			stores++
		} else {
			removes++
		}
	}
	alloc := r.base.LastIndex(r.addr)
	if r.sz != nil {
		r.sizesLogHook(removes, alloc > allocBefore)
	}
	if stores >= 3 && alloc > allocBefore {
		r.rep.Event("ops_splitting_a_slab")
		r.sawSplit = true
		if name == "remove_present" {
			r.rep.Event("remove_that_split_a_slab")
			r.sawRemoveSplit = true
		}
	}
	if removes > 0 {
		r.rep.Event("ops_removing_a_slab(merge/promotion/collapse)")
		r.sawMerge = true
	}
	if stores >= 4 && removes == 0 && alloc == allocBefore {
		r.rep.Event("ops_rebalancing_two_slabs")
		r.sawRebal = true
	}
}

func (r *mtrRun) shape() {
	h, leaves, _, ext, _, err := atree.VerifMapTreeShape(r.m)
	if err != nil {
		return
	}
	if h > r.maxH {
		r.maxH = h
	}
	if ext > 0 {
		r.sawExt = true
	}
	_ = leaves
}

func (r *mtrRun) verify(where string) {
	err, pan := mpeCall(func() error {
		return atree.VerifyMap(r.m, r.addr, r.ti, testutils.CompareTypeInfo, testutils.GetHashInput, true)
	})
	if err != nil {
		r.viol("C05: VerifyMap failed after "+where, fmt.Sprintf("panic=%v %v", pan, err))
	}
	err, pan = mpeCall(func() error {
		_, e := atree.CheckStorageHealth(r.st, 1)
		return e
	})
	if err != nil {
		r.viol("C09: CheckStorageHealth failed after "+where, fmt.Sprintf("panic=%v %v", pan, err))
	}
	// C09: storage holds exactly the slabs reachable from the root
	_, _, _, _, ids, err := atree.VerifMapTreeShape(r.m)
	if err != nil {
		r.viol("C05: slab tree cannot be walked", err.Error())
		return
	}
	reach := map[atree.SlabID]bool{}
	for _, id := range ids {
		if reach[id] {
			r.viol("C09: slab reachable twice from the root", id.String())
		}
		reach[id] = true
	}
	w := &World{St: r.st, Base: r.base}
	live := w.LiveIDs()
	if len(live) != len(reach) {
		r.viol("C09: set of slabs in storage differs from the set reachable from the root", fmt.Sprintf("reachable=%d live=%d after %s", len(reach), len(live), where))
	} else {
		for _, id := range live {
			if !reach[id] {
				r.viol("C09: slab in storage is not reachable from the root (leak)", id.String())
				break
			}
		}
	}
}

func (r *mtrRun) expectedOrder() []*mtrEntry {
	out := make([]*mtrEntry, 0, len(r.shadow))
	for _, e := range r.shadow {
		out = append(out, e)
	}
	sort.Slice(out, func(i, j int) bool {
		a, b := out[i], out[j]
		for l := 0; l < mpeLevels; l++ {
			if a.k.d[l] != b.k.d[l] {
				return a.k.d[l] < b.k.d[l]
			}
		}
		return a.seq < b.seq
	})
	return out
}

// commit writes the write set to the ledger.  FastCommit encodes in worker goroutines, where a
// panic cannot be recovered: every slab of the write set is encoded here first.
func (r *mtrRun) commit() bool {
	r.nCommit++
	err, pan := mpeCall(func() error {
		deltas, _ := atree.VerifStorageKeys(r.st)
		for id, live := range deltas {
			if !live {
				continue
			}
			if slab, ok := atree.VerifStorageDeltaSlab(r.st, id); ok && slab != nil {
				if _, e := atree.EncodeSlab(slab, encMode); e != nil {
					return fmt.Errorf("slab %s: %w", id, e)
				}
			}
		}
		return nil
	})
	if err != nil {
		r.viol("C09: a slab of the write set cannot be encoded", fmt.Sprintf("panic=%v %v", pan, err))
		r.dead = true
		return false
	}
	err, pan = mpeCall(func() error { return r.st.FastCommit(2) })
	if err != nil {
		r.viol("C02: commit failed", fmt.Sprintf("panic=%v %v", pan, err))
		return false
	}
	return true
}

// reopen: after commit the map can be reopened by its root identifier in a brand-new storage and
// is the same map: same content in the same order, same slab tree (every cached field)
func (r *mtrRun) reopenCheck() { r.reopen(false) }

// reopen with adopt: the history continues on the reopened map over the same ledger (the old
// wrapper and storage are dropped: one wrapper per container).
func (r *mtrRun) reopen(adopt bool) {
	r.rep.Event("reopen_check")
	r.nReopen++
	if !r.commit() {
		return
	}
	nv := len(r.rep.Violations)
	var st2 *atree.PersistentSlabStorage
	var rec2 *RecStorage
	var sst atree.SlabStorage
	if adopt {
		st2 = newStorage(r.base)
		rec2 = &RecStorage{In: st2}
		sst = rec2
	} else {
		st2 = newStorage(r.base.Clone())
		sst = st2
	}
	b2 := &mpeBuilder{table: r.b.table}
	var m2 *atree.OrderedMap
	err, pan := mpeCall(func() error {
		var e error
		m2, e = atree.NewMapWithRootID(sst, r.m.SlabID(), b2)
		return e
	})
	if err != nil {
		r.viol("C02: map cannot be reopened by its root identifier", fmt.Sprintf("panic=%v %v", pan, err))
		return
	}
	if m2.Count() != uint64(len(r.shadow)) {
		r.viol("C02: reopened map has a different count", fmt.Sprintf("%d vs %d", m2.Count(), len(r.shadow)))
		return
	}
	want := r.expectedOrder()
	j := 0
	err, pan = mpeCall(func() error {
		return m2.IterateReadOnly(func(k, v atree.Value) (bool, error) {
			kid, _, _ := mpeIdent(k)
			vid, vsz, _ := mpeIdent(v)
			if j >= len(want) {
				r.viol("C02: reopened map yields more pairs than the dictionary holds (a removed key is back)", fmt.Sprintf("extra key %d after %d pairs", kid, j))
				j = len(want) + 1
				return false, nil
			}
			if kid != want[j].k.id || vid != want[j].vid || vsz != want[j].vsz {
				r.viol("C02: reopened map content differs", fmt.Sprintf("pos %d: (%d,%d,%d) want (%d,%d,%d)", j, kid, vid, vsz, want[j].k.id, want[j].vid, want[j].vsz))
				j = len(want) + 1
				return false, nil
			}
			j++
			return true, nil
		})
	})
	if err != nil {
		r.viol("C02: iterating the reopened map failed", fmt.Sprintf("panic=%v %v", pan, err))
		return
	}
	if j < len(want) {
		r.viol("C02: reopened map yields fewer pairs", fmt.Sprintf("%d of %d", j, len(want)))
	}
	d1, e1 := atree.VerifMapTreeDump(r.m, mtrElem)
	d2, e2 := atree.VerifMapTreeDump(m2, mtrElem)
	if e1 != nil || e2 != nil {
		r.viol("C05: slab tree cannot be walked", fmt.Sprint(e1, e2))
		return
	}
	if !mpeSameEnc(d1, d2) {
		r.viol("C05: reopened map has a different slab tree (some cached field did not survive encoding)", "")
	}
	err, pan = mpeCall(func() error {
		return atree.VerifyMap(m2, r.addr, r.ti, testutils.CompareTypeInfo, testutils.GetHashInput, true)
	})
	if err != nil {
		r.viol("C05: VerifyMap failed on the reopened map", fmt.Sprintf("panic=%v %v", pan, err))
	}
	if len(r.rep.Violations) > nv {
		// one report per history: no further random commits and comparisons
		r.durq, r.stretchP, r.dense = 0, 0, 0
		return
	}
	if adopt {
		r.rep.Event("continue_on_reopened_map")
		r.nAdopt++
		rec2.Log = rec2.Log[:0]
		r.st, r.rec, r.m, r.b = st2, rec2, m2, b2
	}
}

// durable is called after every successful mutation of a maptree history (durq, stretchP are 0 for
// the histories other subcommands build on mtrRun).
func (r *mtrRun) durable() {
	if r.dead || (r.durq == 0 && r.stretchP == 0) {
		return
	}
	rng := r.rng
	if r.dense > 0 {
		r.dense--
		if len(r.shadow) <= 250 || rng.Chance(20) {
			r.reopen(rng.Chance(8))
		} else if r.commit() {
			r.rep.Event("commit")
		}
		return
	}
	if r.stretchP > 0 && rng.Intn(1000) < r.stretchP {
		r.dense = 6 + rng.Intn(20)
		r.rep.Event("dense_stretch")
		if r.commit() { // the stretch starts from a clean cache
			r.rep.Event("commit")
		}
		return
	}
	if rng.Chance(r.durq) {
		if rng.Chance(50) && (len(r.shadow) <= 600 || rng.Chance(30)) {
			r.reopen(rng.Chance(15))
		} else if r.commit() {
			r.rep.Event("commit")
		}
	}
}

// ---------- shadow helpers ----------

func (r *mtrRun) addLive(k *mtrKey) {
	r.livePos[k.id] = len(r.live)
	r.live = append(r.live, k)
}

func (r *mtrRun) delLive(k *mtrKey) {
	p, ok := r.livePos[k.id]
	if !ok {
		return
	}
	last := r.live[len(r.live)-1]
	r.live[p] = last
	r.livePos[last.id] = p
	r.live = r.live[:len(r.live)-1]
	delete(r.livePos, k.id)
}

func (r *mtrRun) fanout(k *mtrKey) int {
	seen := map[uint64]bool{}
	for _, x := range r.live {
		if x.d[0] == k.d[0] {
			seen[x.d[1]] = true
		}
	}
	return len(seen)
}

func mtrKeyOp(code uint64, k *mtrKey) []uint64 {
	return []uint64{code, k.id, k.d[0], k.d[1], k.d[2], k.d[3]}
}

// ---------- operations ----------

func (r *mtrRun) afterMut(name string, every bool) {
	n := len(r.shadow)
	if every || n <= 40 || r.step%16 == 0 {
		r.verify(name)
		r.shape()
	}
}

func (r *mtrRun) doSet(k *mtrKey) {
	cur, present := r.shadow[k.id]
	name := "set_new"
	avoid := uint64(0)
	if present {
		name = "set_existing"
		avoid = cur.vsz
	}
	r.rep.Op(name)
	v, vid, vsz := r.newValue(k, avoid)
	d := r.wantDump()
	op := []uint64{1, k.id, k.ksz, vid, vsz, d, k.d[0], k.d[1], k.d[2], k.d[3]}

	n := r.fanout(k)
	wantRefused := !present && n >= 1 && uint64(n-1) >= r.limit
	hdr := atree.VerifMapRootHeader(r.m)
	if !present && !r.m.IsWithinSingleSlab() && k.d[0] < hdr[2] {
		r.rep.Event("set_below_first_key_of_index_root")
		r.sawLower = true
	}
	allocBefore := r.base.LastIndex(r.addr)

	var prev atree.Storable
	err, pan := mpeCall(func() error {
		var e error
		prev, e = r.m.Set(testutils.CompareValue, testutils.GetHashInput, k.val, v)
		return e
	})
	if err != nil {
		if pan || mpeClass(err) != 2 {
			r.unexpected(name, err, pan)
			r.emit(op, []uint64{3})
			return
		}
		r.rep.Err("CollisionLimitError")
		r.sawRefused = true
		if present {
			r.viol("C12: update of an existing key was refused by the collision limit", fmt.Sprintf("key %d limit %d", k.id, r.limit))
		} else if !wantRefused {
			r.viol("C12: insert refused although the collision limit is not reached", fmt.Sprintf("key %d fanout %d limit %d (not configured: %v)", k.id, n, r.limit, r.defLimit))
		}
		if len(r.rec.Log) != 0 || r.base.LastIndex(r.addr) != allocBefore {
			r.viol("C12: refused insert left a trace (write log or allocator changed)", fmt.Sprint(r.rec.Log))
		}
		t, ok := r.mutTail(d == 1)
		if !ok {
			r.emit(op, []uint64{3})
			return
		}
		r.emit(op, append([]uint64{2}, t...))
		return
	}
	if wantRefused {
		r.viol("C12: insert beyond the collision limit was accepted", fmt.Sprintf("key %d fanout %d limit %d (not configured: %v)", k.id, n, r.limit, r.defLimit))
	}
	var ans []uint64
	if prev == nil {
		if present {
			r.viol("C02: Set on a present key returned no previous value", fmt.Sprintf("key %d", k.id))
		}
		ans = []uint64{0, 0}
	} else {
		pvid, pvsz, ok := mpeIdent(prev)
		if !ok {
			r.viol("C02: Set returned an unexpected previous storable", fmt.Sprintf("%T", prev))
		}
		if !present {
			r.viol("C02: Set on an absent key returned a previous value", fmt.Sprintf("key %d prev %d", k.id, pvid))
		} else if pvid != cur.vid || pvsz != cur.vsz {
			r.viol("C02: Set returned the wrong previous value", fmt.Sprintf("key %d got (%d,%d) want (%d,%d)", k.id, pvid, pvsz, cur.vid, cur.vsz))
		}
		ans = []uint64{0, 1, pvid, pvsz}
	}
	if e, ok := r.shadow[k.id]; ok {
		e.vid, e.vsz = vid, vsz
	} else {
		r.seq++
		r.shadow[k.id] = &mtrEntry{k: k, vid: vid, vsz: vsz, seq: r.seq}
		r.addLive(k)
	}
	r.classify(allocBefore, name)
	t, ok := r.mutTail(d == 1)
	if !ok {
		r.emit(op, []uint64{3})
		return
	}
	r.emit(op, append(ans, t...))
	if r.m.Count() != uint64(len(r.shadow)) {
		r.viol("C02: Count differs from the dictionary", fmt.Sprintf("%d vs %d", r.m.Count(), len(r.shadow)))
	}
	r.afterMut(name, false)
	r.durable()
}

func (r *mtrRun) doRemove(k *mtrKey) {
	cur, present := r.shadow[k.id]
	name := "remove_absent"
	if present {
		name = "remove_present"
	}
	r.rep.Op(name)
	d := r.wantDump()
	op := []uint64{4, k.id, d, k.d[0], k.d[1], k.d[2], k.d[3]}
	allocBefore := r.base.LastIndex(r.addr)
	wasIndex := !r.m.IsWithinSingleSlab()
	var ks, vs atree.Storable
	err, pan := mpeCall(func() error {
		var e error
		ks, vs, e = r.m.Remove(testutils.CompareValue, testutils.GetHashInput, k.val)
		return e
	})
	if err != nil {
		if pan || mpeClass(err) != 1 {
			r.unexpected(name, err, pan)
			r.emit(op, []uint64{3})
			return
		}
		r.rep.Err("KeyNotFoundError")
		if present {
			r.viol("C02: Remove of a present key reported key-not-found", fmt.Sprintf("key %d", k.id))
		}
		if len(r.rec.Log) != 0 || r.base.LastIndex(r.addr) != allocBefore {
			r.viol("C02: failed Remove left a trace (write log or allocator changed)", fmt.Sprint(r.rec.Log))
		}
		t, ok := r.mutTail(d == 1)
		if !ok {
			r.emit(op, []uint64{3})
			return
		}
		r.emit(op, append([]uint64{1}, t...))
		return
	}
	kid, ksz, ok1 := mpeIdent(ks)
	vid, vsz, ok2 := mpeIdent(vs)
	if !ok1 || !ok2 {
		r.viol("C02: Remove returned unexpected storables", fmt.Sprintf("%T %T", ks, vs))
	}
	if !present {
		r.viol("C02: Remove of an absent key succeeded", fmt.Sprintf("key %d -> (%d,%d)", k.id, kid, vid))
	} else {
		if kid != k.id || ksz != k.ksz || vid != cur.vid || vsz != cur.vsz {
			r.viol("C02: Remove returned the wrong pair", fmt.Sprintf("key %d got (%d,%d,%d,%d) want (%d,%d,%d,%d)", k.id, kid, ksz, vid, vsz, k.id, k.ksz, cur.vid, cur.vsz))
		}
		delete(r.shadow, k.id)
		r.delLive(k)
	}
	r.classify(allocBefore, name)
	if wasIndex && r.m.IsWithinSingleSlab() {
		r.rep.Event("child_promoted_to_root_data_slab")
		r.sawPromo = true
	}
	t, ok := r.mutTail(d == 1)
	if !ok {
		r.emit(op, []uint64{3})
		return
	}
	r.emit(op, append([]uint64{0, kid, ksz, vid, vsz}, t...))
	if r.m.Count() != uint64(len(r.shadow)) {
		r.viol("C02: Count differs from the dictionary", fmt.Sprintf("%d vs %d", r.m.Count(), len(r.shadow)))
	}
	if len(r.shadow) == 0 {
		// C09: emptying releases every auxiliary slab: only the root remains
		w := &World{St: r.st, Base: r.base}
		if live := w.LiveIDs(); len(live) != 1 || live[0] != r.m.SlabID() {
			r.viol("C09: emptying the map did not release every other slab", fmt.Sprint(live))
		}
		r.rep.Event("emptied_by_removes")
	}
	r.afterMut(name, len(r.shadow) == 0)
	r.durable()
}

func (r *mtrRun) doGet(k *mtrKey) {
	cur, present := r.shadow[k.id]
	name := "get_absent"
	if present {
		name = "get_present"
	}
	r.rep.Op(name)
	op := mtrKeyOp(2, k)
	var v atree.Value
	err, pan := mpeCall(func() error {
		var e error
		v, e = r.m.Get(testutils.CompareValue, testutils.GetHashInput, k.val)
		return e
	})
	if err != nil {
		if pan || mpeClass(err) != 1 {
			r.unexpected(name, err, pan)
			r.emit(op, []uint64{3})
			return
		}
		r.rep.Err("KeyNotFoundError")
		if present {
			r.viol("C02: Get of a present key reported key-not-found", fmt.Sprintf("key %d", k.id))
		}
		r.emit(op, []uint64{1})
		return
	}
	vid, vsz, ok := mpeIdent(v)
	if !ok {
		r.viol("C02: Get returned an unexpected value", fmt.Sprintf("%T", v))
	}
	if !present {
		r.viol("C02: Get of an absent key returned a value", fmt.Sprintf("key %d -> %d", k.id, vid))
	} else if vid != cur.vid || vsz != cur.vsz {
		r.viol("C02: Get returned the wrong value", fmt.Sprintf("key %d got (%d,%d) want (%d,%d)", k.id, vid, vsz, cur.vid, cur.vsz))
	}
	r.emit(op, []uint64{0, vid, vsz})
}

func (r *mtrRun) doHas(k *mtrKey) {
	_, present := r.shadow[k.id]
	name := "has_absent"
	if present {
		name = "has_present"
	}
	r.rep.Op(name)
	op := mtrKeyOp(3, k)
	var b bool
	err, pan := mpeCall(func() error {
		var e error
		b, e = r.m.Has(testutils.CompareValue, testutils.GetHashInput, k.val)
		return e
	})
	if err != nil {
		r.unexpected(name, err, pan)
		r.emit(op, []uint64{3})
		return
	}
	if b != present {
		r.viol("C02: Has disagrees with the dictionary", fmt.Sprintf("key %d got %v", k.id, b))
	}
	x := uint64(0)
	if b {
		x = 1
	}
	r.emit(op, []uint64{0, x})
}

func (r *mtrRun) doCount() {
	r.rep.Op("count")
	n := r.m.Count()
	if n != uint64(len(r.shadow)) {
		r.viol("C02: Count disagrees with the dictionary", fmt.Sprintf("got %d want %d", n, len(r.shadow)))
	}
	r.emit([]uint64{5}, []uint64{0, n})
}

func (r *mtrRun) checkOrder(what string, got []mpePair, reverse bool) {
	want := r.expectedOrder()
	if reverse {
		for i, j := 0, len(want)-1; i < j; i, j = i+1, j-1 {
			want[i], want[j] = want[j], want[i]
		}
	}
	if len(got) != len(want) {
		r.viol("C13: "+what+" yielded the wrong number of pairs", fmt.Sprintf("got %d want %d", len(got), len(want)))
		return
	}
	for i := range got {
		if got[i].kid != want[i].k.id {
			r.viol("C13: "+what+" yielded keys out of canonical order", fmt.Sprintf("position %d: key %d, want %d", i, got[i].kid, want[i].k.id))
			return
		}
		if got[i].vid != want[i].vid || got[i].vsz != want[i].vsz {
			r.viol("C02: "+what+" yielded a stale value", fmt.Sprintf("position %d key %d", i, got[i].kid))
			return
		}
	}
}

func (r *mtrRun) doIterate(mutable bool) {
	name, code := "iterate_readonly", uint64(6)
	if mutable {
		name, code = "iterate_mutable", 7
	}
	r.rep.Op(name)
	var got []mpePair
	fn := func(k, v atree.Value) (bool, error) {
		kid, _, ok1 := mpeIdent(k)
		vid, vsz, ok2 := mpeIdent(v)
		if !ok1 || !ok2 {
			r.viol("C02: iterator yielded unexpected values", fmt.Sprintf("%T %T", k, v))
		}
		got = append(got, mpePair{kid, vid, vsz})
		if len(got) > 4*len(r.pool)+16 {
			return false, fmt.Errorf("iterator does not terminate")
		}
		return true, nil
	}
	err, pan := mpeCall(func() error {
		if mutable {
			return r.m.Iterate(testutils.CompareValue, testutils.GetHashInput, fn)
		}
		return r.m.IterateReadOnly(fn)
	})
	if err != nil {
		r.unexpected(name, err, pan)
		r.emit([]uint64{code}, []uint64{3})
		return
	}
	r.checkOrder(name, got, false)
	obs := []uint64{0, uint64(len(got))}
	for _, p := range got {
		obs = append(obs, p.kid, p.vid)
	}
	r.emit([]uint64{code}, obs)
	if len(r.rec.Log) != 0 {
		r.viol("C02: iteration wrote to the storage", fmt.Sprint(r.rec.Log))
		r.rec.Log = r.rec.Log[:0]
	}
}

func (r *mtrRun) doPop() {
	r.rep.Op("pop_iterate")
	var got []mpePair
	err, pan := mpeCall(func() error {
		return r.m.PopIterate(func(ks, vs atree.Storable) {
			kid, _, _ := mpeIdent(ks)
			vid, vsz, _ := mpeIdent(vs)
			got = append(got, mpePair{kid, vid, vsz})
		})
	})
	if err != nil {
		r.unexpected("pop_iterate", err, pan)
		r.emit([]uint64{8, 1}, []uint64{3})
		return
	}
	r.checkOrder("PopIterate", got, true)
	r.shadow = map[uint64]*mtrEntry{}
	r.live = r.live[:0]
	r.livePos = map[uint64]int{}
	obs := []uint64{0, uint64(len(got))}
	for _, p := range got {
		obs = append(obs, p.kid, p.vid)
	}
	t, ok := r.mutTail(true)
	if !ok {
		r.emit([]uint64{8, 1}, []uint64{3})
		return
	}
	r.emit([]uint64{8, 1}, append(obs, t...))
	if r.m.Count() != 0 {
		r.viol("C13: Count() is not 0 after PopIterate", fmt.Sprint(r.m.Count()))
	}
	w := &World{St: r.st, Base: r.base}
	if live := w.LiveIDs(); len(live) != 1 || live[0] != r.m.SlabID() {
		r.viol("C09: PopIterate did not release every slab but the root", fmt.Sprint(live))
	}
	r.verify("pop_iterate")
}

// ---------- key choice ----------

func (r *mtrRun) pickLive() *mtrKey {
	if len(r.live) == 0 {
		return nil
	}
	return r.live[r.rng.Intn(len(r.live))]
}

// pickDead: next not-stored key in the insertion order
func (r *mtrRun) pickDead() *mtrKey {
	if len(r.live) >= len(r.pool) {
		return nil
	}
	if r.rng.Chance(12) { // a random one, breaking the order now and then
		for t := 0; t < 8; t++ {
			k := r.pool[r.rng.Intn(len(r.pool))]
			if _, ok := r.shadow[k.id]; !ok {
				return k
			}
		}
	}
	for t := 0; t < len(r.ins); t++ {
		k := r.ins[r.insPos]
		r.insPos = (r.insPos + 1) % len(r.ins)
		if _, ok := r.shadow[k.id]; !ok {
			return k
		}
	}
	return nil
}

func (r *mtrRun) pickAbsent() *mtrKey {
	if r.rng.Chance(55) && len(r.probes) > 0 {
		return r.probes[r.rng.Intn(len(r.probes))]
	}
	if len(r.live) < len(r.pool) {
		for t := 0; t < 8; t++ {
			k := r.pool[r.rng.Intn(len(r.pool))]
			if _, ok := r.shadow[k.id]; !ok {
				return k
			}
		}
	}
	if len(r.probes) > 0 {
		return r.probes[r.rng.Intn(len(r.probes))]
	}
	return nil
}

// pickVictim: the key to remove in a shrinking phase (ascending / descending / random digest order)
func (r *mtrRun) pickVictim(dir int) *mtrKey {
	if len(r.live) == 0 {
		return nil
	}
	if dir == 2 || r.rng.Chance(10) {
		return r.pickLive()
	}
	best := r.live[0]
	for _, k := range r.live[1:] {
		if (dir == 0 && k.d[0] < best.d[0]) || (dir == 1 && k.d[0] > best.d[0]) {
			best = k
		}
	}
	return best
}

func (r *mtrRun) randomOp(phase int, dir int) {
	rng := r.rng
	var w []int
	switch phase {
	case 0: // grow
		w = []int{62, 10, 4, 2, 6, 3, 3, 3, 2, 0, 0}
	case 1: // churn
		w = []int{20, 28, 20, 4, 8, 4, 4, 4, 2, 0, 0}
	default: // shrink
		w = []int{3, 8, 68, 3, 5, 3, 3, 3, 2, 0, 0}
	}
	var k *mtrKey
	switch rng.Pick(w...) {
	case 0:
		if k = r.pickDead(); k == nil {
			k = r.pickLive()
		}
		if k != nil {
			r.doSet(k)
		}
	case 1:
		if k = r.pickLive(); k == nil {
			k = r.pickDead()
		}
		if k != nil {
			r.doSet(k)
		}
	case 2:
		if phase == 2 {
			k = r.pickVictim(dir)
		} else {
			k = r.pickLive()
		}
		if k == nil {
			k = r.pickAbsent()
		}
		if k != nil {
			r.doRemove(k)
		}
	case 3:
		if k = r.pickAbsent(); k != nil {
			r.doRemove(k)
		}
	case 4:
		if k = r.pickLive(); k == nil {
			k = r.pickAbsent()
		}
		if k != nil {
			r.doGet(k)
		}
	case 5:
		if k = r.pickAbsent(); k != nil {
			r.doGet(k)
		}
	case 6:
		if k = r.pickLive(); k == nil {
			k = r.pickAbsent()
		}
		if k != nil {
			r.doHas(k)
		}
	case 7:
		if k = r.pickAbsent(); k != nil {
			r.doHas(k)
		}
	default:
		r.doCount()
	}
}

// ---------- one history ----------

func (r *mtrRun) setup(maxSteps int) bool {
	rng := r.rng
	lib := mpeReadLibDefaultLimit() // before anything configures the limit
	r.T = []uint32{256, 300, 512, 1024}[rng.Pick(45, 20, 20, 15)]
	r.limit = []uint64{0, 1, 2, 3, 255}[rng.Pick(5, 8, 8, 9, 70)]
	set := atree.VerifSetThreshold(r.T)
	r.maxInline, r.maxKey = uint64(set[4]), uint64(set[5])
	r.defLimit = r.limit == mpeDocumentedDefaultLimit && rng.Bool()
	if r.defLimit {
		// not configured: exactly the value the library started with is in force
		atree.VerifSetMaxCollisionLimitPerDigest(lib)
	} else {
		atree.VerifSetMaxCollisionLimitPerDigest(uint32(r.limit))
	}
	r.profile = rng.Pick(40, 35, 25)
	r.durq = []int{0, 1, 5, 20}[rng.Pick(20, 30, 30, 20)]
	r.stretchP = []int{0, 5, 15, 40}[rng.Pick(20, 30, 30, 20)]

	// size class: small (always fully dumped), medium, large (height 3 at the small slab sizes)
	var nk int
	switch rng.Pick(50, 38, 12) {
	case 0:
		nk = 12 + rng.Intn(60)
	case 1:
		nk = 100 + rng.Intn(300)
	default:
		nk = 500 + rng.Intn(1000)
	}
	// a.Steps scales the histories: about 3.5 operations per key
	if lim := maxSteps * 2 / 7; nk > lim && lim >= 12 {
		nk = lim
	}
	used := map[uint64]bool{}
	for i := 0; i < nk; i++ {
		r.pool = append(r.pool, r.newKey(used))
	}
	r.genDigests()
	r.genProbes(used)
	r.b = &mpeBuilder{table: map[uint64][mpeLevels]uint64{}}
	for _, k := range r.pool {
		r.b.table[k.id] = k.d
	}
	for _, k := range r.probes {
		r.b.table[k.id] = k.d
	}
	// insertion order
	r.ins = append([]*mtrKey{}, r.pool...)
	switch rng.Pick(30, 30, 30, 10) {
	case 0:
		r.order = "asc"
		sort.SliceStable(r.ins, func(i, j int) bool { return r.ins[i].d[0] < r.ins[j].d[0] })
	case 1:
		r.order = "desc" // every insert is below the current minimum: firstKey lowering
		sort.SliceStable(r.ins, func(i, j int) bool { return r.ins[i].d[0] > r.ins[j].d[0] })
	case 2:
		r.order = "random"
		for i := len(r.ins) - 1; i > 0; i-- {
			j := rng.Intn(i + 1)
			r.ins[i], r.ins[j] = r.ins[j], r.ins[i]
		}
	default:
		r.order = "outside-in"
		sort.SliceStable(r.ins, func(i, j int) bool { return r.ins[i].d[0] < r.ins[j].d[0] })
		out := make([]*mtrKey, 0, len(r.ins))
		for i, j := 0, len(r.ins)-1; i <= j; i, j = i+1, j-1 {
			out = append(out, r.ins[i])
			if i != j {
				out = append(out, r.ins[j])
			}
		}
		r.ins = out
	}

	r.base = NewLogBase()
	r.st = newStorage(r.base)
	r.rec = &RecStorage{In: r.st}
	r.addr = mkAddr(1 + uint64(rng.Intn(3)))
	r.ti = testutils.NewSimpleTypeInfo(42)
	r.livePos = map[uint64]int{}
	r.shadow = map[uint64]*mtrEntry{}
	err, pan := mpeCall(func() error {
		var e error
		r.m, e = atree.NewMap(r.rec, r.addr, r.b, r.ti)
		return e
	})
	if err != nil {
		r.unexpected("NewMap", err, pan)
		return false
	}
	r.rec.Log = r.rec.Log[:0]
	return true
}

func (r *mtrRun) checkpoint() {
	r.doCount()
	if r.dead {
		return
	}
	r.doIterate(false)
	if !r.dead && len(r.shadow) <= 400 {
		r.doIterate(true)
	}
	r.verify("a checkpoint")
	r.shape()
}

func (r *mtrRun) run(maxSteps int) {
	rng := r.rng
	if !r.setup(maxSteps) {
		return
	}
	r.tr.Hist(r.tag, uint64(r.T), r.maxInline, r.limit, mpeLevels, r.m.SlabID().IndexAsUint64())
	nk := len(r.pool)
	target := nk - rng.Intn(nk/8+1)
	phase := func(kind int, dir int, until func() bool, budget int) {
		for k := 0; k < budget && !r.dead && !until(); k++ {
			r.randomOp(kind, dir)
			if r.step%97 == 96 && !r.dead {
				if len(r.shadow) <= 600 || rng.Chance(30) {
					r.reopenCheck()
				}
			}
		}
	}
	// grow
	phase(0, 0, func() bool { return len(r.shadow) >= target }, nk*3)
	if !r.dead {
		r.checkpoint()
	}
	// churn: value sizes change, keys come and go
	phase(1, 0, func() bool { return false }, nk*3/5+10)
	if !r.dead {
		r.checkpoint()
		r.reopenCheck()
	}
	// shrink to empty
	dir := rng.Intn(3)
	phase(2, dir, func() bool { return len(r.shadow) == 0 }, nk*3)
	if !r.dead {
		r.checkpoint()
	}
	// regrow to about half, churn a little
	r.insPos = rng.Intn(len(r.ins))
	phase(0, 0, func() bool { return len(r.shadow) >= nk/2+1 }, nk*2)
	phase(1, 0, func() bool { return false }, nk/5+5)
	if !r.dead {
		r.checkpoint()
		r.reopenCheck()
	}
	if !r.dead {
		r.doPop()
	}
	if !r.dead {
		r.doCount()
		r.doIterate(false)
	}
	// the emptied map must remain usable
	for i := 0; i < 6 && !r.dead; i++ {
		if k := r.pickDead(); k != nil {
			r.doSet(k)
		}
	}
	if !r.dead {
		r.checkpoint()
	}
}

func (r *mtrRun) summarize() {
	flag := func(b bool, name string) string {
		if b {
			r.rep.Event("hist_saw_" + name)
			return "1"
		}
		return "0"
	}
	r.rep.Event(fmt.Sprintf("hist_max_height_%d", r.maxH))
	fp := fmt.Sprintf("T%d lim%d %s %s p%d h%d sp%s mg%s rb%s lo%s ex%s pr%s rf%s rs%s", r.T, r.limit, r.mode, r.order, r.profile, r.maxH,
		flag(r.sawSplit, "split"), flag(r.sawMerge, "merge"), flag(r.sawRebal, "rebalance"), flag(r.sawLower, "first_key_lowered"),
		flag(r.sawExt, "external_group"), flag(r.sawPromo, "promotion"), flag(r.sawRefused, "refusal"), flag(r.sawRemoveSplit, "remove_split"))
	r.rep.Event("mode_" + r.mode)
	r.rep.Event("order_" + r.order)
	r.rep.Event(fmt.Sprintf("T_%d", r.T))
	r.rep.Event(fmt.Sprintf("commit_density_%d_stretch_%d", r.durq, r.stretchP))
	if r.defLimit {
		r.rep.Event("limit_not_configured")
	}
	if r.dead {
		r.rep.Event("hist_aborted")
	}
	if r.maxH >= 2 && r.sawSplit && r.sawMerge {
		r.rep.Distinct(fp)
	}
	r.rep.Sample(fmt.Sprintf("history %s: %d steps, %d keys + %d probes, %d commits, %d reopen checks (%d continued on the reopened map), %s", r.tag, r.step, len(r.pool), len(r.probes), r.nCommit, r.nReopen, r.nAdopt, fp))
}

func cmdMapTree(a Args) {
	if a.Mode == "sizes" {
		cmdMapTreeSizes(a)
		return
	}
	tr := NewTrace(a.Out + "/trace.txt")
	rep := NewReport(a.Prop, a.Seed)
	rep.Rule = "one OrderedMap per history in phases (grow, churn with value-size changes, shrink to empty in ascending/descending/random digest order, " +
		"regrow, PopIterate, reuse) under a 4-level table digester with LARGE level-0 alphabets (distinct / sequential incl. 0, the sign bit and 2^64-1 / " +
		"clustered / hot digests with big collision groups), insertion order ascending / descending (every insert below the minimum) / random / outside-in; " +
		"12..1500 keys; T in {256,300,512,1024}; collision limit 255 or 0..3; per step the answer, the storeSlab/Remove log, the allocator, the root header " +
		"and count are compared with the Coq model, the whole slab tree (every cached field) when <= 40 keys or every 16th step, together with the extracted " +
		"invariant checker; oracles: shadow dictionary, refusal formula, canonical order, VerifyMap, CheckStorageHealth, reachable = live slabs, reopen from a " +
		"fresh storage after commit (content, order, identical tree dump), emptied map leaves only the root slab; per history a commit density (0/1/5/20% of the mutations) " +
		"and dense stretches (6..25 mutations each committed and followed by a reopen from the ledger bytes compared with the shadow dictionary and the live tree; started after 0/0.5/1.5/4% of the mutations), " +
		"8..15% of the reopens continue the history on the reopened map; collision limit 255 explicitly or not configured (library default). non-trivial = history that reached height >= 2 " +
		"and both split and merged slabs (distinct by T, limit, digest mode, order, value profile, height and structural events)"
	lib := mpeReadLibDefaultLimit()
	defer func() {
		atree.VerifSetThreshold(1024)
		atree.VerifSetMaxCollisionLimitPerDigest(lib)
	}()
	root := NewRng(a.Seed)
	for h := 0; h < a.N; h++ {
		hr := root.Fork(uint64(h))
		tag := fmt.Sprintf("h%d", h)
		if !want(tag) {
			continue
		}
		r := &mtrRun{rep: rep, tr: tr, hist: h, tag: tag, rng: hr}
		func() {
			defer func() {
				if p := recover(); p != nil {
					r.viol("C02: unexpected error (panic outside a library call)", fmt.Sprint(p))
					r.dead = true
				}
				atree.VerifSetThreshold(1024)
				atree.VerifSetMaxCollisionLimitPerDigest(lib)
			}()
			r.run(a.Steps)
		}()
		r.summarize()
	}
	tr.Close()
	rep.Histories = tr.Hists
	rep.Steps = tr.Steps
	rep.Write(a.Out + "/report.json")
}
