//go:build verif

package main

import (
	"fmt"
	"os"
	"strings"

	"github.com/onflow/atree"
)

// writeIfChanged keeps mtimes stable so that `make` rebuilds only what depends on a real change.
func writeIfChanged(path, content string) {
	old, err := os.ReadFile(path)
	if err == nil && string(old) == content {
		return
	}
	must(os.WriteFile(path, []byte(content), 0o644))
}

// cmdGen regenerates coq/gen/*.v from the implementation as it is now.
func init() { register("gen", func(a Args) { cmdGen(a.Out) }) }

func cmdGen(out string) {
	var sb strings.Builder
	sb.WriteString("(* GENERATED from /repo by `harness gen` (VerifConsts): do not edit. *)\nFrom Coq Require Import NArith.\nLocal Open Scope N_scope.\n")
	for _, c := range atree.VerifConsts() {
		fmt.Fprintf(&sb, "Definition c_%s : N := %d.\n", c.Name, c.Val)
	}
	writeIfChanged(out+"/Consts.v", sb.String())
}
