//go:build verif

package main

import (
	"fmt"
	"os"
	"strings"

	"github.com/onflow/atree"
)

// writeIfChanged keeps mtimes stable so that `make` rebuilds only what depends on a real change.
func writeIfChanged(path, content string) {
	old, err := os.ReadFile(path)
	if err == nil && string(old) == content {
		return
	}
	must(os.WriteFile(path, []byte(content), 0o644))
}

// cmdGen regenerates coq/gen/*.v from the implementation as it is now.
func init() { register("gen", func(a Args) { cmdGen(a.Out) }) }

func cmdGen(out string) {
	var sb strings.Builder
	sb.WriteString("(* GENERATED from /repo by `harness gen` (VerifConsts): do not edit. *)\nFrom Coq Require Import NArith.\nLocal Open Scope N_scope.\n")
	for _, c := range atree.VerifConsts() {
		fmt.Fprintf(&sb, "Definition c_%s : N := %d.\n", c.Name, c.Val)
	}
	// the collision limit a process starts with (a package variable, not a constant): `gen` runs in a fresh
	// process and nothing has configured it yet
	defLimit := atree.VerifSetMaxCollisionLimitPerDigest(0)
	atree.VerifSetMaxCollisionLimitPerDigest(defLimit)
	fmt.Fprintf(&sb, "Definition c_initialMaxCollisionLimitPerDigest : N := %d.\n", defLimit)
	writeIfChanged(out+"/Consts.v", sb.String())
	genSettingsTable(out)
}

// genSettingsTable writes the outputs of the real setThreshold for slab sizes 256..32768:
// SettingsTable.v holds every T <= 4096 and every 13th above (compiled on every run),
// SettingsTableFull.v every T (compiled in the thorough tier). Rows are chunked by 500
// because one 32k-element list literal overflows coqc's stack.
func genSettingsTable(out string) {
	defer atree.VerifSetThreshold(1024)
	row := func(T uint32) string {
		r := atree.VerifSetThreshold(T)
		return fmt.Sprintf("(%d,%d,%d,%d,%d,%d)", r[0], r[1], r[2], r[3], r[4], r[5])
	}
	emit := func(name string, keep func(T uint32) bool) {
		var sb strings.Builder
		sb.WriteString("(* GENERATED from /repo by `harness gen`: outputs of setThreshold(T) = (target,min,max,maxInlineArrayElement,maxInlineMapElement,maxInlineMapKey). Do not edit. *)\nFrom Coq Require Import NArith List.\nImport ListNotations.\nLocal Open Scope N_scope.\n")
		var rows []string
		chunk := 0
		flush := func() {
			if len(rows) == 0 {
				return
			}
			fmt.Fprintf(&sb, "Definition %s_chunk%d : list (N*N*N*N*N*N) := [\n%s].\n", name, chunk, strings.Join(rows, ";\n"))
			rows = nil
			chunk++
		}
		for T := uint32(256); T <= 32768; T++ {
			if keep(T) {
				rows = append(rows, row(T))
				if len(rows) == 500 {
					flush()
				}
			}
		}
		flush()
		fmt.Fprintf(&sb, "Definition %s : list (list (N*N*N*N*N*N)) := [", name)
		for i := 0; i < chunk; i++ {
			if i > 0 {
				sb.WriteString("; ")
			}
			fmt.Fprintf(&sb, "%s_chunk%d", name, i)
		}
		sb.WriteString("].\n")
		writeIfChanged(out+"/"+name+".v", sb.String())
	}
	emit("SettingsTable", func(T uint32) bool { return T <= 4096 || T%13 == 0 || T == 32768 })
	emit("SettingsTableFull", func(T uint32) bool { return true })
}
