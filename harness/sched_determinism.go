//go:build verif

package main

// C04: the same history executed under different worker counts, GOMAXPROCS, cache/reopen
// placements, commit flavours and in fresh OS processes must give byte-identical registers and
// (for the deterministic commit) the same, strictly ascending, ledger call sequence.

import (
	"context"
	"crypto/sha256"
	"encoding/hex"
	"fmt"
	"os"
	"os/exec"
	"runtime"
	"strings"
	"time"

	"github.com/onflow/atree"
)

type detCfg struct {
	name    string
	workers int
	gmp     int // 0 = leave GOMAXPROCS alone
	reopen  int // after each commit: 0 nothing, 1 DropCache, 2 DropCache + reopen (fresh storage, re-handle)
	nondet  bool
}

// detCfgs[0] is the reference.
var detCfgs = []detCfg{
	{"w1", 1, 0, 0, false},
	{"w1-again", 1, 0, 0, false},
	{"w2", 2, 0, 0, false},
	{"w3", 3, 0, 0, false},
	{"w8", 8, 0, 0, false},
	{"w64", 64, 0, 0, false},
	{"gmp1-w8", 8, 1, 0, false},
	{"gmp4-w3", 3, 4, 0, false},
	{"gmp16-w64", 64, 16, 0, false},
	{"w2-dropcache", 2, 0, 1, false},
	{"w3-reopen", 3, 0, 2, false},
	{"gmp4-w8-reopen", 8, 4, 2, false},
	{"nondet-w1", 1, 0, 0, true},
	{"nondet-w8", 8, 0, 0, true},
	{"gmp16-nondet-w64", 64, 16, 0, true},
	{"gmp4-nondet-w3-reopen", 3, 4, 2, true},
}

type detResult struct {
	logs     []string // per commit: ordered call log
	sorted   []string // per commit: call log as a multiset
	digests  []string // per commit: ledger digest after the commit
	asc      string   // first out-of-order pair of a deterministic commit
	ascAt    int
	final    *LogBase
	what     string
	detail   string
	steps    int
	maxExtra int
	multi    int // commits that issued >= 2 ledger calls
}

// runDet executes the history of sp under cfg.  Commit points come from a generator seeded by the
// history seed only, hence are the same for every configuration.
func runDet(sp histSpec, cfg detCfg, rep *Report) (res detResult) {
	if cfg.gmp > 0 {
		prev := runtime.GOMAXPROCS(cfg.gmp)
		defer runtime.GOMAXPROCS(prev)
	}
	sched := NewRng(sp.Seed ^ 0xC04C04)
	pc := []int{3, 8, 20}[sched.Intn(3)]
	e := newExec(sp, rep)
	res.ascAt = -1
	commit := func() bool {
		err, log := e.Commit(cfg.nondet, cfg.workers)
		if e.failed {
			return false
		}
		if err != nil {
			e.fail("commit failed", err.Error())
			return false
		}
		if !cfg.nondet && res.asc == "" {
			if s := ascending(log); s != "" {
				res.asc, res.ascAt = s, len(res.logs)
			}
		}
		if len(log) >= 2 {
			res.multi++
		}
		res.logs = append(res.logs, logStr(log))
		res.sorted = append(res.sorted, sortedLogStr(log))
		res.digests = append(res.digests, ledgerDigest(e.base))
		if x := len(e.base.Segs) - len(e.w.Roots); x > res.maxExtra {
			res.maxExtra = x
		}
		switch cfg.reopen {
		case 1:
			e.w.St.DropCache()
		case 2:
			e.w.St.DropCache()
			e.Reopen(nil, 0)
		}
		return !e.failed
	}
	for e.step < sp.Steps && !e.failed {
		e.Step()
		if e.failed {
			break
		}
		if sched.Chance(pc) {
			if !commit() {
				break
			}
		}
	}
	if !e.failed {
		commit()
	}
	if !e.failed && cfg.name == detCfgs[0].name {
		e.Verify(true) // the reference execution is also checked against the shadow once
	}
	res.final = e.base
	res.what, res.detail = e.what, e.detail
	res.steps = e.step
	return res
}

// detDigest condenses what a fresh process must reproduce: every commit's ordered call log, the
// ledger after every commit, and the final registers.
func detDigest(r detResult) string {
	h := sha256.New()
	for i := range r.logs {
		fmt.Fprintf(h, "%d|%s|%s\n", i, r.logs[i], r.digests[i])
	}
	fmt.Fprintf(h, "final|%s|%s|%s", ledgerDigest(r.final), r.what, r.detail)
	return hex.EncodeToString(h.Sum(nil))
}

func detSpec(hr *Rng, maxSteps int) histSpec {
	lo := 40
	if maxSteps < lo {
		lo = maxSteps
	}
	return newSpec(hr, lo, maxSteps, false)
}

func cmdDeterminism(a Args) {
	child := a.Mode == "child"
	rep := NewReport(a.Prop, a.Seed)
	rep.Rule = fmt.Sprintf("random World histories (40..-steps ops, 1-3 roots each empty (40%%) / prefilled with ~10-50 (30%%) / ~60-260 (30%%) random elements incl. nested containers, arrays + maps with the default digester, depth<=3, wrappers, large values, child handles) at T in {256,300,512,1024}, commits at seed-determined points (p in {3,8,20}%% + final); "+
		"each history executed under %d configurations (FastCommit workers 1/1 again/2/3/8/64, GOMAXPROCS 1/4/16, DropCache or DropCache+reopen after each commit, NondeterministicFastCommit workers 1/8/64) and %s in a fresh OS process with a different GOMAXPROCS; "+
		"compared with the 1-worker reference: ledger digest after every commit, final registers byte for byte, ordered call log (deterministic commit: identical and strictly ascending by SlabID.Compare; relaxed commit: same multiset). "+
		"non-trivial = >=2 commits with >=2 ledger calls each and at some commit more registers than roots; distinct by final ledger digest", len(detCfgs), "the first max(1,min(50,n/10)) histories")
	rng := NewRng(a.Seed)
	defer atree.VerifSetThreshold(1024)
	nChild := a.N / 10
	if nChild > 50 {
		nChild = 50
	}
	if nChild < 1 {
		nChild = 1
	}
	exe, exeErr := os.Executable()
	for h := 0; h < a.N; h++ {
		hr := rng.Fork(uint64(h))
		tag := fmt.Sprintf("det%d", h)
		if !want(tag) {
			continue
		}
		sp := detSpec(hr, a.Steps)
		atree.VerifSetThreshold(sp.T)
		ref := runDet(sp, detCfgs[0], rep)
		if child {
			fmt.Printf("DIGEST %s %s\n", tag, detDigest(ref))
			continue
		}
		viol := func(step int, what, detail string) {
			rep.Violate(h, tag, step, what, sp.String()+" | "+clip(detail, 700))
		}
		rep.Histories++
		rep.Steps += ref.steps
		rep.EventN("commits", len(ref.logs))
		if ref.what != "" {
			viol(ref.steps, "C04: reference execution failed: "+ref.what, ref.detail)
			continue
		}
		if ref.asc != "" {
			viol(ref.ascAt, "C04: deterministic commit issued ledger calls out of ascending (address, index) order", ref.asc+" in "+ref.logs[ref.ascAt])
		}
		scratch := NewReport("", 0)
		for _, cfg := range detCfgs[1:] {
			r := runDet(sp, cfg, scratch)
			rep.Event("exec_" + cfg.name)
			if r.what != "" {
				viol(r.steps, "C04: execution under configuration "+cfg.name+" failed: "+r.what, r.detail)
				continue
			}
			if r.asc != "" {
				viol(r.ascAt, "C04: deterministic commit ("+cfg.name+") issued ledger calls out of ascending (address, index) order", r.asc+" in "+r.logs[r.ascAt])
			}
			if len(r.logs) != len(ref.logs) {
				viol(0, "C04: number of commits differs under "+cfg.name, fmt.Sprintf("%d vs %d", len(r.logs), len(ref.logs)))
				continue
			}
			for c := range r.logs {
				if r.digests[c] != ref.digests[c] {
					viol(c, "C04: registers after commit differ between "+cfg.name+" and the 1-worker reference", fmt.Sprintf("commit #%d", c))
					break
				}
				if !cfg.nondet && r.logs[c] != ref.logs[c] {
					viol(c, "C04: ordered ledger call log differs between "+cfg.name+" and the 1-worker reference", fmt.Sprintf("commit #%d: %s | ref: %s", c, r.logs[c], ref.logs[c]))
					break
				}
				if r.sorted[c] != ref.sorted[c] {
					viol(c, "C04: set of ledger calls differs between "+cfg.name+" and the 1-worker reference", fmt.Sprintf("commit #%d: %s | ref: %s", c, r.sorted[c], ref.sorted[c]))
					break
				}
			}
			if d := SameRegisters(ref.final, r.final); d != "" {
				viol(r.steps, "C04: final registers differ between "+cfg.name+" and the 1-worker reference", d)
			}
		}
		if rep.Histories <= nChild {
			if exeErr != nil {
				rep.Err("no_executable_path")
			} else {
				rep.Event("fresh_process_runs")
				got, err := runChild(exe, a, tag, 1+h%5)
				if err != nil {
					viol(0, "C04: execution in a fresh process failed", err.Error())
				} else if got != detDigest(ref) {
					viol(0, "C04: a fresh process produced different registers / call logs for the same history", got+" vs "+detDigest(ref))
				}
			}
		}
		if len(ref.logs) >= 2 && ref.multi >= 2 && ref.maxExtra > 0 {
			rep.Distinct(ledgerDigest(ref.final))
		}
		if h < 2 {
			rep.Sample(fmt.Sprintf("%s: %s commits=%d registers=%d first log: %s", tag, sp, len(ref.logs), len(ref.final.Segs), clip(ref.logs[0], 200)))
		}
	}
	if child {
		return
	}
	rep.Write(a.Out + "/report.json")
}

// runChild re-executes one history in a fresh OS process (hidden mode "-mode child") and returns
// the digest it printed.
func runChild(exe string, a Args, tag string, gmp int) (string, error) {
	ctx, cancel := context.WithTimeout(context.Background(), 120*time.Second)
	defer cancel()
	cmd := exec.CommandContext(ctx, exe, "determinism", "-mode", "child", "-seed", fmt.Sprint(a.Seed), "-n", fmt.Sprint(a.N),
		"-steps", fmt.Sprint(a.Steps), "-prop", a.Prop, "-only", tag, "-out", os.TempDir())
	cmd.Env = append(os.Environ(), fmt.Sprintf("GOMAXPROCS=%d", gmp))
	out, err := cmd.CombinedOutput()
	if err != nil {
		return "", fmt.Errorf("%v: %s", err, clip(string(out), 500))
	}
	for _, line := range strings.Split(string(out), "\n") {
		f := strings.Fields(line)
		if len(f) == 3 && f[0] == "DIGEST" && f[1] == tag {
			return f[2], nil
		}
	}
	return "", fmt.Errorf("no digest in child output: %s", clip(string(out), 500))
}
