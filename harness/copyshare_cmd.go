//go:build verif

package main

// copyshare_cmd.go — C17, subcommand "copyshare": a copy shares NOTHING with its source.
//
// The copy checks of batch_cmd.go / batchlife.go copy freshly built containers of plain values and
// then operate on plain values only.  A copy can also inherit IN-MEMORY state of the source handle
// (bookkeeping of nested children, the link to a parent container, cached slab objects), and such
// state only exists when the source has a past, and only matters when nested containers come into
// play after the copy.  Every history cs<k> of this subcommand therefore
//   1. runs a random nested world (workload.go: arrays/maps, depth <= 3, wrappers, large values,
//      child handles, detached containers) over ONE storage shared by two addresses;
//   2. picks a SOURCE among all live containers of any depth (roots, children that are inlined in
//      their parent, children too big to be inlined, containers detached from a parent), optionally
//      gives it more past in this session (nested arrays/maps — small and too big to inline —
//      inserted in front / under new keys, mutated through their handles; retyped; detached from its
//      parent), then removes or overwrites whatever is not a plain value until the copy is possible;
//   3. copies it — CopyNonRefSimple, or NewArrayFromBatchData / NewMapFromBatchData fed from the
//      source's own iterator (and seed) — to the same or to the other address, and ADOPTS the copy
//      as a first-class container of the world with its own shadow;
//   4. then, in the SAME session, operates on BOTH the copy and the source (one of them per move,
//      chosen at random): nested containers inserted at front-biased positions / under new keys,
//      plain inserts and removes at or before the position of a nested child, mutation of the
//      nested children through the handles they were inserted with, overwrites, PopIterate, retype,
//      with commits (no reopen) in between;
//   5. after EVERY move: VerifyArray/VerifyMap + deep comparison of every container of the storage
//      with its own shadow, storage health, and independence: every root container other than the
//      one operated on has an unchanged deep dump (every slab, header, link, element reachable from
//      it) and none of its slabs entered the write set; at every commit: ledger walk, and the
//      registers of every root not operated on since the previous commit are byte-for-byte those of
//      the previous commit; at the end of a session commit, reopen in a brand-new storage, compare
//      everything with the shadows again.  Finally everything is disposed of: no slab may remain.
// Nothing is written to the model trace.

import (
	"fmt"
	"strings"

	"github.com/onflow/atree"
	testutils "github.com/onflow/atree/test_utils"
)

func init() { register("copyshare", cmdCopyShare) }

var csSizes = []uint32{256, 300, 512, 1024}

type csPair struct {
	src, cp SV
	how     string
}

type csRun struct {
	rep    *Report
	hist   int
	tag    string
	T      uint32
	failed bool
	step   int
	ctx    string // what is going on (goes into the detail of a violation)
	hr     *Rng
	base   *LogBase
	st     *atree.PersistentSlabStorage
	ws     [2]*World
	pairs  []*csPair
	// registers of every root's slab closure at the last commit, roots operated on since then
	regs    map[SV]map[atree.SlabID]string
	touched map[SV]bool
	// measured distribution
	pastPairs   int
	nestedAfter int
}

func (r *csRun) viol(what, detail string) {
	if !r.failed {
		r.rep.Violate(r.hist, r.tag, r.step, what, fmt.Sprintf("T=%d [%s] %s", r.T, r.ctx, detail))
	}
	r.failed = true
}

func (r *csRun) roots() []SV {
	var out []SV
	for _, w := range r.ws {
		out = append(out, w.Roots...)
	}
	return out
}

// ---------- where a container lives ----------

type csLoc struct {
	sv    SV
	w     *World
	root  SV
	depth int
	parr  *svArr // parent array (nil: root or child of a map)
	pmap  *svMap // parent map
	pkey  atree.Value
	bare  bool // stored in its parent's slot without a wrapper
}

func (r *csRun) allContainers() []csLoc {
	var out []csLoc
	var rec func(w *World, root SV, s SV, d int, pa *svArr, pm *svMap, pk atree.Value)
	rec = func(w *World, root SV, s SV, d int, pa *svArr, pm *svMap, pk atree.Value) {
		_, wrapped := s.(*svSome)
		switch c := unwrapSV(s).(type) {
		case *svArr:
			out = append(out, csLoc{c, w, root, d, pa, pm, pk, !wrapped})
			for _, e := range c.elems {
				rec(w, root, e, d+1, c, nil, nil)
			}
		case *svMap:
			out = append(out, csLoc{c, w, root, d, pa, pm, pk, !wrapped})
			for _, k := range c.keys {
				rec(w, root, c.vals[keyStr(k)], d+1, nil, c, k)
			}
		}
	}
	for _, w := range r.ws {
		for _, root := range w.Roots {
			rec(w, root, root, 0, nil, nil, nil)
		}
	}
	return out
}

func (r *csRun) locate(sv SV) (csLoc, bool) {
	for _, l := range r.allContainers() {
		if l.sv == sv {
			return l, true
		}
	}
	return csLoc{}, false
}

// within runs f with the world restricted to the container sv (any depth): World.Step then picks its
// target among sv and its descendants.  Containers detached meanwhile become roots of the world.
func csWithin(w *World, sv SV, f func()) {
	all := w.Roots
	w.Roots = []SV{sv}
	defer func() {
		extra := w.Roots[1:]
		w.Roots = append(all[:len(all):len(all)], extra...)
	}()
	f()
}

// ---------- oracles ----------

func (r *csRun) closure(root atree.SlabID) map[atree.SlabID]bool {
	out := map[atree.SlabID]bool{}
	var walkS func(s atree.Storable, depth int)
	var walkID func(id atree.SlabID, depth int)
	walkS = func(s atree.Storable, depth int) {
		if s == nil || depth > 200 {
			return
		}
		if id, ok := s.(atree.SlabIDStorable); ok {
			walkID(atree.SlabID(id), depth+1)
			return
		}
		for _, c := range s.ChildStorables() {
			walkS(c, depth+1)
		}
	}
	walkID = func(id atree.SlabID, depth int) {
		if out[id] || depth > 200 {
			return
		}
		out[id] = true
		slab, ok, err := r.st.Retrieve(id)
		if err != nil || !ok {
			return // reported by the health check / ledger walk
		}
		for _, c := range slab.ChildStorables() {
			walkS(c, depth+1)
		}
	}
	walkID(root, 0)
	return out
}

type csSnap struct {
	dumps map[SV]string
	clos  map[SV]map[atree.SlabID]bool
	dirty map[atree.SlabID]bool
}

// snapOthers records, for every root container except `except`, its deep dump and the identifiers of
// all slabs reachable from it, and the current write set.
func (r *csRun) snapOthers(except SV) csSnap {
	s := csSnap{dumps: map[SV]string{}, clos: map[SV]map[atree.SlabID]bool{}, dirty: map[atree.SlabID]bool{}}
	for _, root := range r.roots() {
		if root == except {
			continue
		}
		d, err := atree.VerifDeepDump(r.st, rootValue(root))
		if err != nil {
			r.viol("C17: a container sharing the storage with a copy cannot be walked", err.Error())
			return s
		}
		s.dumps[root] = d
		s.clos[root] = r.closure(rootID(root))
	}
	deltas, _ := atree.VerifStorageKeys(r.st)
	for id := range deltas {
		s.dirty[id] = true
	}
	return s
}

func csFirstDiff(a, b string) string {
	i := 0
	for i < len(a) && i < len(b) && a[i] == b[i] {
		i++
	}
	lo := max(0, i-60)
	return fmt.Sprintf("at byte %d: before %q after %q", i, a[lo:min(len(a), i+60)], b[lo:min(len(b), i+60)])
}

func (r *csRun) describe(root SV) string {
	for _, p := range r.pairs {
		if p.cp == root {
			return fmt.Sprintf("the copy %s (%s)", rootID(root), p.how)
		}
		if p.src == root {
			return fmt.Sprintf("the source %s of a copy (%s)", rootID(root), p.how)
		}
		if l, ok := r.locate(p.src); ok && l.root == root {
			return fmt.Sprintf("container %s holding the source of a copy (%s)", rootID(root), p.how)
		}
	}
	return "bystander container " + rootID(root).String()
}

// checkOthers: what was recorded by snapOthers still holds (for the roots that are still roots).
func (r *csRun) checkOthers(s csSnap) {
	if r.failed {
		return
	}
	live := map[SV]bool{}
	for _, root := range r.roots() {
		live[root] = true
	}
	deltas, _ := atree.VerifStorageKeys(r.st)
	var newly []atree.SlabID
	for id := range deltas {
		if !s.dirty[id] {
			newly = append(newly, id)
		}
	}
	sortIDs(newly)
	for _, root := range r.roots() { // deterministic order
		before, ok := s.dumps[root]
		if !ok || !live[root] {
			continue
		}
		after, err := atree.VerifDeepDump(r.st, rootValue(root))
		if err != nil {
			r.viol("C17: an operation on one container made another container of the storage unreadable", r.describe(root)+": "+err.Error())
			return
		}
		if after != before {
			r.viol("C17: an operation on one container changed another container (slabs reachable from its root differ)", r.describe(root)+" "+csFirstDiff(before, after))
			return
		}
		for _, id := range newly {
			if s.clos[root][id] {
				r.viol("C17: an operation on one container put a slab of another container into the write set", fmt.Sprintf("%s: slab %s", r.describe(root), id))
				return
			}
		}
	}
}

func (r *csRun) verifyAll() {
	if r.failed {
		return
	}
	n := 0
	for _, w := range r.ws {
		w.VerifyAll(false)
		n += len(w.Roots)
	}
	if r.failed {
		return
	}
	found, err := atree.CheckStorageHealth(r.st, n)
	if err != nil {
		r.viol("C17: storage health check fails in a storage holding sources and copies", err.Error())
		return
	}
	for _, root := range r.roots() {
		if _, ok := found[rootID(root)]; !ok {
			r.viol("C17: a live source / copy is not among the roots found by the health check", rootID(root).String())
			return
		}
	}
}

func (r *csRun) regsOf(root SV) map[atree.SlabID]string {
	out := map[atree.SlabID]string{}
	for id := range r.closure(rootID(root)) {
		if b, ok := r.base.Segs[id]; ok {
			out[id] = string(b)
		} else {
			out[id] = "<absent>"
		}
	}
	return out
}

func (r *csRun) commit() {
	if r.failed {
		return
	}
	var err error
	if r.hr.Bool() {
		err = r.st.FastCommit(1 + r.hr.Intn(4))
	} else {
		err = r.st.NondeterministicFastCommit(1 + r.hr.Intn(4))
	}
	r.rep.Op("cs_commit")
	if err != nil {
		r.viol("C17: commit fails in a storage holding sources and copies", err.Error())
		return
	}
	u := &World{Base: r.base, Roots: r.roots(), Rep: r.rep, Fail: r.ws[0].Fail}
	u.CheckLedger()
	if r.failed {
		return
	}
	next := map[SV]map[atree.SlabID]string{}
	for _, root := range r.roots() {
		now := r.regsOf(root)
		next[root] = now
		prev, ok := r.regs[root]
		if !ok || r.touched[root] {
			continue
		}
		ids := make([]atree.SlabID, 0, len(prev))
		for id := range prev {
			ids = append(ids, id)
		}
		sortIDs(ids)
		for _, id := range ids {
			if now[id] != prev[id] {
				r.viol("C17: a register of a container that was not operated on since the previous commit changed", fmt.Sprintf("%s: register %s", r.describe(root), id))
				return
			}
		}
		if len(now) != len(prev) {
			r.viol("C17: the set of registers of a container that was not operated on since the previous commit changed", fmt.Sprintf("%s: %d -> %d", r.describe(root), len(prev), len(now)))
			return
		}
	}
	r.regs, r.touched = next, map[SV]bool{}
}

// reopen: brand-new storage over the same ledger, every container re-handled top-down (only
// directly after a commit).
func (r *csRun) reopen() {
	if r.failed {
		return
	}
	r.st = newStorage(r.base)
	r.rep.Op("cs_reopen")
	for _, w := range r.ws {
		w.St = r.st
		for _, root := range w.Roots {
			switch x := root.(type) {
			case *svArr:
				a, err := atree.NewArrayWithRootID(r.st, x.arr.SlabID())
				if err != nil {
					r.viol("C17: a source / copy cannot be reopened by its root identifier after commit", err.Error())
					return
				}
				w.rehandle(x, a)
			case *svMap:
				m, err := atree.NewMapWithRootID(r.st, x.m.SlabID(), atree.NewDefaultDigesterBuilder())
				if err != nil {
					r.viol("C17: a source / copy map cannot be reopened by its root identifier after commit", err.Error())
					return
				}
				w.rehandle(x, m)
			}
		}
	}
}

// ---------- operations with a given value ----------

// newChild creates a nested container (with its shadow) for a slot at `depth`; big = too large to be inlined.
func (r *csRun) newChild(w *World, depth int, big bool) (atree.Value, SV) {
	hr := r.hr
	var v atree.Value
	var s SV
	n := hr.Intn(4)
	if big {
		n = 30 + hr.Intn(40)
	}
	if w.Opts.Maps && hr.Chance(40) {
		ti := uint64(50 + hr.Intn(3))
		m, err := atree.NewMap(w.St, w.Addr, atree.NewDefaultDigesterBuilder(), w.ti(ti))
		must(err)
		sm := &svMap{m: m, vals: map[string]SV{}, ti: ti, vid: m.ValueID()}
		for k := 0; k < n; k++ {
			d := depth + 1
			if big {
				d = w.Opts.MaxDepth
			}
			w.mapSet(sm, w.randKey(), d)
		}
		v, s = m, sm
	} else {
		ti := uint64(40 + hr.Intn(3))
		a, err := atree.NewArray(w.St, w.Addr, w.ti(ti))
		must(err)
		sa := &svArr{arr: a, ti: ti, vid: a.ValueID()}
		for k := 0; k < n; k++ {
			d := depth + 1
			if big {
				d = w.Opts.MaxDepth
			}
			w.arrInsert(sa, uint64(len(sa.elems)), d)
		}
		v, s = a, sa
	}
	if w.Opts.Wrap && hr.Chance(25) {
		v, s = testutils.NewSomeValue(v), &svSome{s}
	}
	return v, s
}

func (r *csRun) arrInsertVal(w *World, sa *svArr, i uint64, v atree.Value, s SV) {
	var err error
	if i == uint64(len(sa.elems)) && r.hr.Bool() {
		err = sa.arr.Append(v)
	} else {
		err = sa.arr.Insert(i, v)
	}
	r.rep.Op("cs_arr_insert_nested")
	if err != nil {
		w.Fail("C01: in-range insert of a nested container failed", fmt.Sprintf("i=%d of %d: %v", i, len(sa.elems), err))
		return
	}
	sa.elems = append(sa.elems, nil)
	copy(sa.elems[i+1:], sa.elems[i:])
	sa.elems[i] = s
}

func (r *csRun) mapSetVal(w *World, sm *svMap, k atree.Value, v atree.Value, s SV) {
	old, err := sm.m.Set(testutils.CompareValue, w.Hip(), k, v)
	r.rep.Op("cs_map_set_nested")
	if err != nil {
		w.Fail("C02: map set of a nested container failed", err.Error())
		return
	}
	ks := keyStr(k)
	prev, had := sm.vals[ks]
	if had != (old != nil) {
		w.Fail("C02: Set returned previous value inconsistently", ks)
	}
	if !had {
		sm.keys = append(sm.keys, k)
	}
	sm.vals[ks] = s
	if had {
		w.handleRemoved(old, prev)
	}
}

func isContainerSV(s SV) bool {
	switch unwrapSV(s).(type) {
	case *svArr, *svMap:
		return true
	}
	return false
}

func (r *csRun) retype(w *World, sv SV) {
	switch x := sv.(type) {
	case *svArr:
		x.ti = uint64(40 + (int(x.ti)-40+1+r.hr.Intn(2))%3)
		if err := x.arr.SetType(w.ti(x.ti)); err != nil {
			w.Fail("SetType failed", err.Error())
		}
		r.rep.Op("arr.settype")
	case *svMap:
		x.ti = uint64(50 + (int(x.ti)-50+1+r.hr.Intn(2))%3)
		if err := x.m.SetType(w.ti(x.ti)); err != nil {
			w.Fail("map SetType failed", err.Error())
		}
		r.rep.Op("map.settype")
	}
}

// one operation on the array x (a source or a copy)
func (r *csRun) moveArr(w *World, x *svArr, depth int) string {
	hr := r.hr
	n := len(x.elems)
	var kids []int
	for i, e := range x.elems {
		if isContainerSV(e) {
			kids = append(kids, i)
		}
	}
	// a position among 0..lim: the front, at or before a nested child, anywhere
	pos := func(lim int) int {
		if lim <= 0 {
			return 0
		}
		switch hr.Pick(35, 30, 35) {
		case 0:
			return 0
		case 1:
			if len(kids) > 0 {
				return min(lim, hr.Intn(kids[hr.Intn(len(kids))]+1))
			}
		}
		return hr.Intn(lim + 1)
	}
	switch op := hr.Pick(22, 22, 12, 20, 8, 11, 5); {
	case op == 0:
		v, s := r.newChild(w, depth+1, hr.Chance(15))
		r.arrInsertVal(w, x, uint64(pos(n)), v, s)
		r.nestedAfter++
		return "insert nested"
	case op == 1 || n == 0:
		w.arrInsert(x, uint64(pos(n)), w.Opts.MaxDepth)
		r.rep.Op("arr.insert")
		return "insert plain"
	case op == 2:
		w.arrRemove(x, uint64(pos(n-1)))
		r.rep.Op("arr.remove")
		return "remove"
	case op == 3 && len(kids) > 0:
		kid := unwrapSV(x.elems[kids[hr.Intn(len(kids))]])
		for k := 1 + hr.Intn(3); k > 0 && !r.failed; k-- {
			csWithin(w, kid, func() { w.Step() })
		}
		r.rep.Op("cs_child_handle_steps")
		return "mutate nested child through its handle"
	case op == 4:
		w.arrSet(x, uint64(hr.Intn(n)), depth+1)
		r.rep.Op("arr.set")
		return "set"
	case op == 6:
		r.retype(w, x)
		return "retype"
	default:
		csWithin(w, x, func() { w.Step() })
		return "random step inside"
	}
}

func (r *csRun) moveMap(w *World, x *svMap, depth int) string {
	hr := r.hr
	var kids []atree.Value
	for _, k := range x.keys {
		if isContainerSV(x.vals[keyStr(k)]) {
			kids = append(kids, k)
		}
	}
	switch op := hr.Pick(22, 20, 14, 20, 8, 11, 5); {
	case op == 0:
		v, s := r.newChild(w, depth+1, hr.Chance(15))
		r.mapSetVal(w, x, w.randKey(), v, s)
		r.nestedAfter++
		return "set nested"
	case op == 1 || len(x.keys) == 0:
		w.mapSet(x, w.randKey(), w.Opts.MaxDepth)
		r.rep.Op("map.set")
		return "set plain"
	case op == 2:
		w.mapRemove(x, x.keys[hr.Intn(len(x.keys))])
		r.rep.Op("map.remove")
		return "remove"
	case op == 3 && len(kids) > 0:
		kid := unwrapSV(x.vals[keyStr(kids[hr.Intn(len(kids))])])
		for k := 1 + hr.Intn(3); k > 0 && !r.failed; k-- {
			csWithin(w, kid, func() { w.Step() })
		}
		r.rep.Op("cs_child_handle_steps")
		return "mutate nested child through its handle"
	case op == 4:
		w.mapSet(x, x.keys[hr.Intn(len(x.keys))], depth+1)
		r.rep.Op("map.set")
		return "overwrite"
	case op == 6:
		r.retype(w, x)
		return "retype"
	default:
		csWithin(w, x, func() { w.Step() })
		return "random step inside"
	}
}

// move: one operation on the source or on the copy of a pair, then every oracle.
func (r *csRun) move(p *csPair, pi int) {
	hr := r.hr
	side, name := p.cp, "copy"
	if hr.Bool() {
		side, name = p.src, "source"
	}
	l, ok := r.locate(side)
	if !ok {
		return
	}
	r.ctx = fmt.Sprintf("pair %d (%s): operating on the %s %s", pi, p.how, name, rootID(l.root))
	snap := r.snapOthers(l.root)
	if r.failed {
		return
	}
	r.touched[l.root] = true
	what := ""
	switch x := side.(type) {
	case *svArr:
		what = r.moveArr(l.w, x, l.depth)
	case *svMap:
		what = r.moveMap(l.w, x, l.depth)
	}
	r.ctx += ": " + what
	r.rep.Op("cs_move_on_" + name)
	r.step++
	r.verifyAll()
	r.checkOthers(snap)
}

// ---------- making a source and copying it ----------

// nonPlainArr lists the positions whose stored element is not a plain value (nested container,
// reference to a large-value slab, wrapper around one of them), highest first.
func nonPlainArr(a *atree.Array) ([]int, error) {
	els, err := atree.VerifArrayStorables(a)
	if err != nil {
		return nil, err
	}
	var out []int
	for i := len(els) - 1; i >= 0; i-- {
		if !plainStorable(els[i]) {
			out = append(out, i)
		}
	}
	return out, nil
}

// nonPlainMap lists the keys of entries whose stored key or value is not a plain value.
func (r *csRun) nonPlainMap(m *atree.OrderedMap) ([]atree.Value, error) {
	e, err := atree.VerifMapElements(m)
	if err != nil {
		return nil, err
	}
	var out []atree.Value
	var rec func(g *atree.VerifMapElems) error
	rec = func(g *atree.VerifMapElems) error {
		for i := range g.Elems {
			el := &g.Elems[i]
			if el.Kind != 0 {
				if el.Group != nil {
					if err := rec(el.Group); err != nil {
						return err
					}
				}
				continue
			}
			if plainStorable(el.Key) && plainStorable(el.Value) {
				continue
			}
			k, err := el.Key.StoredValue(r.st)
			if err != nil {
				return err
			}
			out = append(out, k)
		}
		return nil
	}
	return out, rec(e)
}

// purge removes or overwrites everything that is not a plain value; single: also shrink to one slab.
func (r *csRun) purge(w *World, sv SV, single bool) {
	hr := r.hr
	saved := w.Opts.LargeVals
	w.Opts.LargeVals = false
	defer func() { w.Opts.LargeVals = saved }()
	for pass := 0; pass < 4 && !r.failed; pass++ {
		switch x := sv.(type) {
		case *svArr:
			idx, err := nonPlainArr(x.arr)
			if err != nil {
				r.viol("C17: source array cannot be walked", err.Error())
				return
			}
			if len(idx) == 0 {
				pass = 99
				break
			}
			for _, i := range idx {
				if pass < 2 && hr.Chance(40) {
					w.arrSet(x, uint64(i), w.Opts.MaxDepth)
				} else {
					w.arrRemove(x, uint64(i))
				}
				r.rep.Op("cs_purge")
			}
		case *svMap:
			ks, err := r.nonPlainMap(x.m)
			if err != nil {
				r.viol("C17: source map cannot be walked", err.Error())
				return
			}
			if len(ks) == 0 {
				pass = 99
				break
			}
			for _, k := range ks {
				if _, present := x.vals[keyStr(k)]; !present {
					continue
				}
				if pass < 2 && hr.Chance(40) {
					w.mapSet(x, k, w.Opts.MaxDepth)
				} else {
					w.mapRemove(x, k)
				}
				r.rep.Op("cs_purge")
			}
		}
	}
	if !single {
		return
	}
	switch x := sv.(type) {
	case *svArr:
		for !x.arr.IsWithinSingleSlab() && len(x.elems) > 0 && !r.failed {
			w.arrRemove(x, uint64(hr.Intn(len(x.elems))))
		}
	case *svMap:
		for !x.m.IsWithinSingleSlab() && len(x.keys) > 0 && !r.failed {
			w.mapRemove(x, x.keys[hr.Intn(len(x.keys))])
		}
	}
}

// detach removes the container from its parent's slot and keeps it alive as a root of its world.
func (r *csRun) detach(l csLoc) bool {
	w := l.w
	var old atree.Storable
	switch {
	case l.parr != nil:
		i := -1
		for j, e := range l.parr.elems {
			if e == l.sv {
				i = j
			}
		}
		if i < 0 {
			return false
		}
		var err error
		old, err = l.parr.arr.Remove(uint64(i))
		if err != nil {
			w.Fail("C01: in-range remove failed", err.Error())
			return false
		}
		l.parr.elems = append(l.parr.elems[:i], l.parr.elems[i+1:]...)
	case l.pmap != nil:
		ks := keyStr(l.pkey)
		if l.pmap.vals[ks] != l.sv {
			return false
		}
		kst, vst, err := l.pmap.m.Remove(testutils.CompareValue, w.Hip(), l.pkey)
		if err != nil {
			w.Fail("C02: removing a present key failed", err.Error())
			return false
		}
		delete(l.pmap.vals, ks)
		for i, kk := range l.pmap.keys {
			if keyStr(kk) == ks {
				l.pmap.keys = append(l.pmap.keys[:i], l.pmap.keys[i+1:]...)
				break
			}
		}
		w.dispose(kst)
		old = vst
	default:
		return false
	}
	if _, ok := old.(atree.SlabIDStorable); !ok {
		w.Fail("C11: removed container was not returned as a stored standalone slab", fmt.Sprintf("%T", old))
		return false
	}
	w.Roots = append(w.Roots, l.sv)
	r.rep.Event("cs_detach")
	return true
}

func (r *csRun) liveSet() map[atree.SlabID]bool {
	out := map[atree.SlabID]bool{}
	u := &World{St: r.st, Base: r.base}
	for _, id := range u.LiveIDs() {
		out[id] = true
	}
	return out
}

func (r *csRun) makePair() {
	hr := r.hr
	cs := r.allContainers()
	if len(cs) == 0 {
		return
	}
	l := cs[hr.Intn(len(cs))]
	if hr.Chance(50) { // prefer a container that is a child of another one
		for k := 0; k < 6 && l.depth == 0; k++ {
			l = cs[hr.Intn(len(cs))]
		}
	}
	w := l.w
	kind := "array"
	if _, ok := l.sv.(*svMap); ok {
		kind = "map"
	}
	r.ctx = fmt.Sprintf("preparing %s %s (depth %d in %s) as a source", kind, rootIDOf(l.sv), l.depth, rootID(l.root))
	snap := r.snapOthers(l.root)
	if r.failed {
		return
	}
	r.touched[l.root] = true
	past := false
	// more past in this session: nested containers come and (in purge) go, retype, detach
	if hr.Chance(60) {
		for k := 1 + hr.Intn(2); k > 0 && !r.failed; k-- {
			v, s := r.newChild(w, l.depth+1, hr.Chance(25))
			switch x := l.sv.(type) {
			case *svArr:
				i := 0
				if hr.Bool() {
					i = hr.Intn(len(x.elems) + 1)
				}
				r.arrInsertVal(w, x, uint64(i), v, s)
			case *svMap:
				r.mapSetVal(w, x, w.randKey(), v, s)
			}
			if hr.Bool() && !r.failed {
				csWithin(w, unwrapSV(s), func() { w.Step() })
			}
		}
		past = true
	}
	if hr.Chance(25) && (l.depth == 0 || w.Opts.PopChild) {
		r.retype(w, l.sv)
	}
	switch x := l.sv.(type) {
	case *svArr:
		for _, e := range x.elems {
			past = past || isContainerSV(e)
		}
	case *svMap:
		for _, k := range x.keys {
			past = past || isContainerSV(x.vals[keyStr(k)])
		}
	}
	detached := false
	if l.depth > 0 && l.bare && hr.Chance(25) && !r.failed {
		detached = r.detach(l)
	}
	method := hr.Pick(65, 35) // CopyNonRefSimple / batch constructor fed from the source's iterator
	if !r.failed {
		r.purge(w, l.sv, method == 0)
	}
	r.step++
	r.verifyAll()
	r.checkOthers(snap)
	if r.failed {
		return
	}
	l, ok := r.locate(l.sv)
	if !ok {
		return
	}

	// the copy
	dw := r.ws[hr.Intn(2)]
	dst := dw.Addr
	how := ""
	live0 := r.liveSet()
	all := r.snapOthers(nil)
	if r.failed {
		return
	}
	where := "root"
	switch {
	case detached:
		where = "detached from its parent"
	case l.depth > 0:
		where = "child"
	}
	var cpSV SV
	var cpID atree.SlabID
	switch x := l.sv.(type) {
	case *svArr:
		want, err := arrCopyable(x.arr)
		if err != nil {
			r.viol("C17: source array cannot be walked", err.Error())
			return
		}
		if got := x.arr.CanCopyNonRefSimple(); got != want {
			r.viol("C17: CanCopyNonRefSimple disagrees with: single slab and all elements plain non-reference values",
				fmt.Sprintf("array %s: offered=%v expected=%v inlined=%v", rootIDOf(x), got, want, x.arr.Inlined()))
			return
		}
		if idx, _ := nonPlainArr(x.arr); len(idx) > 0 {
			r.rep.Event("cs_source_not_copyable")
			return
		}
		if method == 0 && !want {
			method = 1
		}
		if x.arr.Inlined() {
			where += ", inlined"
		}
		var cp *atree.Array
		if method == 0 {
			how = fmt.Sprintf("array CopyNonRefSimple, source %s %s", rootIDOf(x), where)
			r.ctx = how
			r.rep.Op("cs_array_copy_simple")
			cp, err = x.arr.CopyNonRefSimple(dst)
		} else {
			how = fmt.Sprintf("NewArrayFromBatchData from the iterator of source %s %s", rootIDOf(x), where)
			r.ctx = how
			r.rep.Op("cs_array_copy_batch")
			it, ierr := x.arr.ReadOnlyIterator()
			if ierr != nil {
				r.viol("C17: source array cannot be iterated", ierr.Error())
				return
			}
			cp, err = atree.NewArrayFromBatchData(r.st, dst, w.ti(x.ti), func() (atree.Value, error) { return it.Next() })
		}
		if err != nil {
			r.viol("C17: copying an array of plain values failed", err.Error())
			return
		}
		if method == 0 && !cp.IsWithinSingleSlab() {
			r.viol("C17: the copy is not a single slab", "")
		}
		if cp.Inlined() || cp.ValueID() == x.arr.ValueID() || cp.Address() != dst {
			r.viol("C17: the copy is inlined, has the value identifier of its source or a wrong address", cp.SlabID().String())
		}
		cpID = cp.SlabID()
		cpSV = &svArr{arr: cp, elems: append([]SV(nil), x.elems...), ti: x.ti, vid: cp.ValueID()}
		if atree.VerifArrayMutableElementIndex(x.arr) != nil {
			r.rep.Event("cs_array_source_tracked_children_before_and_has_none_now")
		}
	case *svMap:
		want, err := mapCopyable(x.m)
		if err != nil {
			r.viol("C17: source map cannot be walked", err.Error())
			return
		}
		if got := x.m.CanCopyNonRefSimple(); got != want {
			r.viol("C17: CanCopyNonRefSimple disagrees with: single slab and all keys and values plain non-reference values",
				fmt.Sprintf("map %s: offered=%v expected=%v inlined=%v", rootIDOf(x), got, want, x.m.Inlined()))
			return
		}
		if ks, _ := r.nonPlainMap(x.m); len(ks) > 0 {
			r.rep.Event("cs_source_not_copyable")
			return
		}
		if method == 0 && !want {
			method = 1
		}
		if x.m.Inlined() {
			where += ", inlined"
		}
		var cp *atree.OrderedMap
		if method == 0 {
			how = fmt.Sprintf("map CopyNonRefSimple, source %s %s", rootIDOf(x), where)
			r.ctx = how
			r.rep.Op("cs_map_copy_simple")
			cp, err = x.m.CopyNonRefSimple(dst, atree.NewDefaultDigesterBuilder())
		} else {
			how = fmt.Sprintf("NewMapFromBatchData from the iterator of source %s %s", rootIDOf(x), where)
			r.ctx = how
			r.rep.Op("cs_map_copy_batch")
			it, ierr := x.m.ReadOnlyIterator()
			if ierr != nil {
				r.viol("C17: source map cannot be iterated", ierr.Error())
				return
			}
			cp, err = atree.NewMapFromBatchData(r.st, dst, atree.NewDefaultDigesterBuilder(), w.ti(x.ti), testutils.CompareValue, w.Hip(), x.m.Seed(),
				func() (atree.Value, atree.Value, error) { return it.Next() })
		}
		if err != nil {
			r.viol("C17: copying a map of plain values failed", err.Error())
			return
		}
		if method == 0 && !cp.IsWithinSingleSlab() {
			r.viol("C17: the map copy is not a single slab", "")
		}
		if cp.Inlined() || cp.ValueID() == x.m.ValueID() || cp.Address() != dst || cp.Seed() != x.m.Seed() {
			r.viol("C17: the map copy is inlined, has the value identifier of its source, a wrong address or another seed", cp.SlabID().String())
		}
		cpID = cp.SlabID()
		vals := map[string]SV{}
		for k, v := range x.vals {
			vals[k] = v
		}
		cpSV = &svMap{m: cp, keys: append([]atree.Value(nil), x.keys...), vals: vals, ti: x.ti, vid: cp.ValueID(), top: true}
	}
	if r.failed {
		return
	}
	if live0[cpID] {
		r.viol("C17: the copy's root identifier is not fresh", cpID.String())
		return
	}
	for id := range r.closure(cpID) {
		if live0[id] {
			r.viol("C17: the copy refers to a slab that existed before the copy", fmt.Sprintf("copy %s: slab %s", cpID, id))
			return
		}
	}
	r.step++
	// taking the copy changed nothing that existed before (the source and its parents included)
	r.checkOthers(all)
	if r.failed {
		return
	}
	dw.Roots = append(dw.Roots, cpSV)
	p := &csPair{src: l.sv, cp: cpSV, how: how}
	r.pairs = append(r.pairs, p)
	r.rep.Event("cs_source_" + strings.ReplaceAll(strings.ReplaceAll(where, " ", "_"), ",", ""))
	if past {
		r.pastPairs++
		r.rep.Event("cs_source_held_nested_containers_before")
	}
	if dst != w.Addr {
		r.rep.Event("cs_copy_to_other_address")
	}
	r.verifyAll()
}

// rootIDOf names a container of any depth by its value identifier (an inlined container has no slab
// identifier of its own).
func rootIDOf(s SV) string {
	switch x := s.(type) {
	case *svArr:
		return x.vid.String()
	case *svMap:
		return x.vid.String()
	}
	return "?"
}

// ---------- a history ----------

func (r *csRun) history(steps int) {
	hr := r.hr
	r.base = NewLogBase()
	r.st = newStorage(r.base)
	opts := WorldOpts{Addr: 1, MaxDepth: 2 + hr.Intn(2), Wrap: hr.Chance(50), Maps: true, Detach: hr.Chance(50),
		LargeVals: hr.Chance(40), PopChild: hr.Chance(70), SelfSet: hr.Chance(30), KeySpace: 12 + hr.Intn(40)}
	for i := range r.ws {
		o := opts
		o.Addr = []uint64{1, 9}[i]
		w := NewWorld(r.base, hr, o, r.rep)
		w.St = r.st
		w.Fail = func(what, detail string) { r.viol("C17: storage holding sources and copies: "+what, detail) }
		r.ws[i] = w
	}
	r.regs, r.touched = map[SV]map[atree.SlabID]string{}, map[SV]bool{}
	r.ctx = "building the world"
	for k := 1 + hr.Intn(3); k > 0; k-- {
		w := r.ws[hr.Pick(75, 25)]
		if hr.Chance(65) {
			w.NewArrayRoot()
		} else {
			w.NewMapRoot()
		}
	}
	anyStep := func() {
		w := r.ws[0]
		if len(r.ws[1].Roots) > 0 && (len(w.Roots) == 0 || hr.Chance(35)) {
			w = r.ws[1]
		}
		if len(w.Roots) == 0 {
			w.NewArrayRoot()
		}
		for _, root := range w.Roots {
			r.touched[root] = true
		}
		w.Step()
		r.step++
	}
	sessions := 2 + hr.Intn(2)
	for s := 0; s < sessions && !r.failed; s++ {
		r.ctx = fmt.Sprintf("session %d: random steps", s)
		for k := steps/10 + hr.Intn(steps/10+1); k > 0 && !r.failed; k-- {
			anyStep()
			if k%4 == 0 {
				r.verifyAll()
			}
		}
		r.verifyAll()
		if hr.Chance(40) {
			r.commit()
		}
		first := len(r.pairs)
		for k := 1 + hr.Intn(3); k > 0 && !r.failed; k-- {
			r.makePair()
		}
		for k := steps/5 + hr.Intn(steps/5+1); k > 0 && !r.failed && len(r.pairs) > 0; k-- {
			pi := hr.Intn(len(r.pairs)) // mostly a pair of this session (its copy shares the session with its source)
			if len(r.pairs) > first && !hr.Chance(15) {
				pi = first + hr.Intn(len(r.pairs)-first)
			}
			switch {
			case hr.Chance(8):
				r.ctx = fmt.Sprintf("session %d: random step between the moves", s)
				anyStep()
				r.verifyAll()
			default:
				r.move(r.pairs[pi], pi)
			}
			if hr.Chance(22) {
				r.commit()
			}
		}
		r.ctx = fmt.Sprintf("session %d: commit and reopen", s)
		r.commit()
		r.reopen()
		r.verifyAll()
		// pairs whose source or copy is gone are dropped
		var keep []*csPair
		for _, p := range r.pairs {
			_, ok1 := r.locate(p.src)
			_, ok2 := r.locate(p.cp)
			if ok1 && ok2 {
				keep = append(keep, p)
			}
		}
		r.pairs = keep
	}
	if r.failed {
		return
	}
	r.ctx = "disposing of everything"
	for _, w := range r.ws {
		w.DisposeAll()
	}
	if r.failed {
		return
	}
	u := &World{St: r.st, Base: r.base}
	if ids := u.LiveIDs(); len(ids) != 0 {
		r.viol("C17: slabs remain after sources and copies were disposed of", fmt.Sprint(ids))
	}
}

const csRule = "-n histories cs<k> at slab sizes {256,300,512,1024}: a random nested world (arrays/maps, depth<=3, wrappers, large values, child handles, detached containers, PopIterate/SetType through child handles) over ONE storage and two addresses; 2..3 sessions, each: random steps; 1..3 times pick a source among ALL live containers (roots, inlined children, children too big to inline), optionally give it more past in this session (nested arrays/maps small or too big to inline inserted in front / under new keys and mutated through their handles, retype, detach from its parent), remove/overwrite everything that is not a plain value, copy it (CopyNonRefSimple, or NewArrayFromBatchData / NewMapFromBatchData from the source's own iterator and seed) to the same or the other address and adopt the copy with its own shadow; then -steps/5.. moves, each on the copy or on the source of a pair: nested container inserted at a front-biased position / new key, plain insert or remove at or before a nested child, mutation of nested children through their handles, overwrite, random step inside, retype; commits in between; after EVERY move VerifyArray/VerifyMap + deep comparison of every container with its shadow, storage health, and every OTHER root container (the other half of the pair, parents of sources, bystanders) has an unchanged deep dump and no slab newly in the write set; at every commit ledger walk and byte-equal registers for every root not operated on since the previous commit; end of session: commit, reopen in a new storage, compare again; finally dispose of everything, no slab remains. non-trivial = history with a copy of a source that held nested containers before and a nested container inserted into source or copy afterwards"

// csHistory runs one history (also used by mode "life" of the batch subcommand, batchlife.go);
// returns the number of steps performed.
func csHistory(rep *Report, hist int, tag string, hr *Rng, steps int) int {
	r := &csRun{rep: rep, hist: hist, tag: tag, hr: hr}
	r.T = csSizes[hr.Pick(35, 20, 25, 20)]
	atree.VerifSetThreshold(r.T)
	rep.Event(fmt.Sprintf("cs_T_%d", r.T))
	func() {
		defer func() {
			if p := recover(); p != nil {
				r.viol("C17: panic in implementation", fmt.Sprint(p))
			}
		}()
		r.history(steps)
	}()
	if r.pastPairs > 0 && r.nestedAfter > 0 {
		rep.Distinct(tag)
	}
	if r.failed {
		rep.Event("cs_history_with_violation")
	}
	rep.EventN("cs_pairs", len(r.pairs))
	return r.step
}

func cmdCopyShare(a Args) {
	rep := NewReport(a.Prop, a.Seed)
	rep.Rule = csRule
	rng := NewRng(a.Seed).Fork(17)
	defer atree.VerifSetThreshold(1024)
	steps := max(20, a.Steps)
	for k := 0; k < a.N; k++ {
		hr := rng.Fork(uint64(k))
		tag := fmt.Sprintf("cs%d", k)
		if !want(tag) {
			continue
		}
		rep.Steps += csHistory(rep, 500000+k, tag, hr, steps)
		rep.Histories++
	}
	rep.Write(a.Out + "/report.json")
}
