//go:build verif

package main

// nestedcommitfault_cmd.go — C14 / C08 for NESTED containers: commit attempts that fail part-way with
// FURTHER OPERATIONS between the attempts, so that child containers cross the inline limit (their
// register appears / disappears, their parent's register switches between embedding and referencing
// them) between a failed attempt and the next one (coq/theories/NestedFaults.v, props/C14_nested.v,
// props/C08_nested.v).  `harness faults` (sched_faults.go) retries a failed commit at once; here the
// history goes on in between.
//
// A history is a function of its seed (World of workload.go: nested arrays / maps, children mutated
// through their own handles, SomeValue wrappers, removed children kept detached or disposed).  It is
// cut into 2-3 ROUNDS; a round ends with a fault-free commit, and has 1-3 MID points strictly inside.
//   twin     executes the operations with one FastCommit(1) at every round end, nothing else; records
//            the ledger after every round and, at every mid point, the number W of pending owned slabs.
//   case     (round c, flavour v in {FastCommit, NondeterministicFastCommit} x {1, 4 workers}, position k):
//            re-executes the history from scratch; rounds before c end with a fault-free commit of
//            flavour v; in round c, at the first mid point, a commit of flavour v is attempted with ledger
//            call k armed to fail (k ranges over ALL positions 0..W-1, sampled above 10), at the later
//            mid points and (50%) at the round end further attempts fail at random positions with random
//            flavours; the operations continue in between; the round ends with a fault-free commit.
// Oracles after EVERY failed attempt (the model: C14_nested_failed_commit_keeps_view):
//   F1  the commit returned an *ExternalError, exactly one ledger call failed;
//   F2  every owned pending slab is still pending with its register untouched, or its ledger call
//       succeeded and it left the write set; nothing else became pending or was touched;
//   F3  every live container still reads back its shadow content through its handle (VerifyArray /
//       VerifyMap, deep comparison), the library fingerprint is unchanged, and every root re-opened BY
//       IDENTIFIER through the same storage instance (a new wrapper, discarded) is deep-equal to the shadow.
//   (observation, sampled: whether the ledger ALONE passes the health check at that point — in general it
//   does not, nor is that claimed: events obs_ledger_alone_*)
// After the fault-free commit that ends the round (C14_nested_retry_durable / _retry_converges,
// C08_nested_schedule_same_ledger):
//   R1  no owned slab is pending;
//   R2  the ledger is byte-identical to the twin's ledger after that round;
//   R3  a brand-new storage over a clone of the ledger reloads every root deep-equal to the shadow,
//       and CheckStorageHealth passes on it;
// and at the end of the history the ledger is byte-identical to the twin's final ledger.
// Between consecutive attempts of the faulted round the command compares the inlined flag of every
// container alive at both: a case is NON-TRIVIAL when some container crossed the inline limit between
// two attempts of which the earlier one failed.

import (
	"errors"
	"fmt"

	"github.com/onflow/atree"
)

func init() { register("nestedcommitfault", cmdNestedCommitFault) }

type ncfVariant struct {
	name    string
	nondet  bool
	workers int
}

var ncfVariants = []ncfVariant{
	{"fast-w1", false, 1},
	{"fast-w4", false, 4},
	{"nondet-w1", true, 1},
	{"nondet-w4", true, 4},
}

type ncfPlan struct {
	ends []int   // step numbers after which a round ends
	mids [][]int // per round: ascending step numbers inside the round at which an attempt fails when the round is the faulted one
}

func ncfMakePlan(sp histSpec) ncfPlan {
	sr := NewRng(sp.Seed ^ 0x4E43460A)
	nr := 2 + sr.Intn(2)
	var p ncfPlan
	per := sp.Steps / nr
	start := 0
	for r := 0; r < nr; r++ {
		end := start + per
		if r == nr-1 {
			end = sp.Steps
		}
		// mid points: 1..3, at least 3 operations after the round start, before the end, 3 apart
		nm := 1 + sr.Intn(3)
		var ms []int
		at := start + 3 + sr.Intn(4)
		for j := 0; j < nm && at < end-2; j++ {
			ms = append(ms, at)
			at += 3 + sr.Intn(6)
		}
		p.ends = append(p.ends, end)
		p.mids = append(p.mids, ms)
		start = end
	}
	return p
}

type ncfTwin struct {
	snaps  []*LogBase // ledger after each round
	w      [][]int    // pending owned slabs at each mid point
	what   string
	detail string
}

func ncfIndex(xs []int, x int) int {
	for i, y := range xs {
		if y == x {
			return i
		}
	}
	return -1
}

func ncfRunTwin(sp histSpec, plan ncfPlan, rep *Report) (t ncfTwin) {
	e := newExec(sp, rep)
	c := 0
	t.w = make([][]int, len(plan.ends))
	for e.step < sp.Steps && !e.failed {
		e.Step()
		if e.failed {
			break
		}
		if ncfIndex(plan.mids[c], e.step) >= 0 {
			t.w[c] = append(t.w[c], int(e.w.St.DeltasWithoutTempAddresses()))
		}
		if e.step == plan.ends[c] {
			err, log, hung := e.CommitWD(false, 1)
			if hung != "" {
				e.fail("C14: a fault-free commit does not return", wdDetail(hung, false, 1, -1, "no fault armed", log))
				break
			}
			if err != nil {
				e.fail("fault-free commit of the twin failed", err.Error())
			}
			t.snaps = append(t.snaps, e.base.Clone())
			e.Verify(true)
			c++
		}
	}
	t.what, t.detail = e.what, e.detail
	return t
}

// ncfFlags reads the inlined flag of every live container from its handle.
func ncfFlags(w *World) map[atree.ValueID]ndCont {
	m := map[atree.ValueID]ndCont{}
	for _, c := range ndContainers(w) {
		m[c.vid] = c
	}
	return m
}

// ncfRunCase executes one case; returns the number of failed attempts, whether a container crossed the
// inline limit after a failed attempt of the faulted round, and whether a commit did not return (watchdog
// of commit_watchdog.go: the storage is then abandoned).  Armed calls at even positions of the order-relaxed
// commit take slowFaultDelay before they fail.
func ncfRunCase(sp histSpec, plan ncfPlan, twin ncfTwin, c, k int, v ncfVariant, fr *Rng, rep *Report, viol func(step int, what, detail string)) (attempts int, crossed bool, wedged bool) {
	e := newExec(sp, NewReport("", 0))
	w, base := e.w, e.base
	ctx := fmt.Sprintf("round %d, first attempt %s fails at call %d of %d", c, v.name, k, twin.w[c][0])
	bad := func(what, detail string) { viol(e.step, what, ctx+" | "+detail) }

	commitPlain := func(v ncfVariant) bool {
		err, log, hung := e.CommitWD(v.nondet, v.workers)
		if hung != "" {
			wedged = true
			bad("C14: a commit during which no ledger call fails does not return", wdDetail(hung, v.nondet, v.workers, int(w.St.DeltasWithoutTempAddresses()), "no fault armed", log))
			return false
		}
		if e.failed {
			return false
		}
		if err != nil {
			bad("C14: commit without injected fault failed", err.Error())
			return false
		}
		return true
	}

	var prevFlags map[atree.ValueID]ndCont // flags at the previous attempt of this round (nil: none yet)
	written := map[atree.SlabID]bool{}     // registers written / removed by failed attempts of this round
	noteCrossings := func() {
		cur := ncfFlags(w)
		if prevFlags != nil {
			for vid, now := range cur {
				was, ok := prevFlags[vid]
				if !ok || was.inlined == now.inlined {
					continue
				}
				crossed = true
				if now.inlined {
					rep.Event("inlined_between_attempts")
				} else {
					rep.Event("uninlined_between_attempts")
				}
				if written[now.id] {
					rep.Event("crossing_of_a_container_whose_register_a_failed_attempt_touched")
				}
			}
		}
		prevFlags = cur
	}

	reloadThroughInstance := func() {
		e.withAux(func() {
			ids := make([]atree.SlabID, len(w.Roots))
			for i, r := range w.Roots {
				ids[i] = rootID(r)
			}
			ndReload(w, w.St, w.Roots, ids, "C14 after a failed commit, through the storage instance")
		})
	}

	failAttempt := func(k int, v ncfVariant) bool {
		attempts++
		noteCrossings()
		pend := ownedDeltas(w.St)
		nAll := int(w.St.Deltas())
		fpBefore := e.libFingerprint()
		before := segSnapshot(base)
		slow := v.nondet && k%2 == 0
		armSlow(base, k, slow)
		err, log, hung := e.CommitWD(v.nondet, v.workers)
		if hung != "" {
			wedged = true
			rep.Event("commit_did_not_return")
			how := fmt.Sprintf("ledger call %d of this attempt (%s) armed to fail", k, v.name)
			if slow {
				how += ", the failing call takes " + slowFaultDelay.String()
			}
			bad("C14: a commit with a failing ledger call does not return (it neither reports the error nor finishes)", wdDetail(hung, v.nondet, v.workers, len(pend), how, log))
			return false
		}
		disarmSlow(base)
		if e.failed {
			return false
		}
		nFail, failedID := 0, atree.SlabIDUndefined
		okCalls := map[atree.SlabID]byte{}
		afterFail := 0
		for _, cl := range log {
			if cl.Fail {
				nFail++
				failedID = cl.ID
			} else {
				okCalls[cl.ID] = cl.Kind
				written[cl.ID] = true
				if nFail > 0 {
					afterFail++
				}
			}
		}
		rep.Event("failed_attempt_" + v.name)
		rep.EventN("ledger_calls_before_the_failed_one", len(okCalls)-afterFail)
		rep.EventN("ledger_calls_after_the_failed_one", afterFail)
		// F1
		if nFail != 1 {
			bad("C14: armed ledger fault did not fire exactly once", fmt.Sprintf("fired %d times, armed at %d of %d pending; log: %s err: %v", nFail, k, len(pend), logStr(log), err))
			return false
		}
		if err == nil {
			bad("C14: commit with a failed ledger call returned no error", logStr(log))
			return false
		}
		var ee *atree.ExternalError
		if !errors.As(err, &ee) {
			bad("C14: ledger failure not reported as ExternalError", fmt.Sprintf("%T %v", err, err))
		} else {
			rep.Err("ExternalError")
		}
		// F2
		after := ownedDeltas(w.St)
		for id, live := range pend {
			kind, done := okCalls[id]
			alive, still := after[id]
			switch {
			case done && still:
				bad("C14: change written to the ledger is still pending", id.String())
			case !done && !still:
				bad("C14: pending change lost by a failed commit (neither pending nor written)", id.String())
			case !done:
				if alive != live {
					bad("C14: pending change altered by a failed commit", id.String())
				}
				d, ok := base.Segs[id]
				if bd, bok := before[id]; ok != bok || string(d) != bd {
					bad("C14: register of a still-pending change was modified", id.String())
				}
			default:
				if (kind == 'S') != live {
					bad("C14: ledger call kind disagrees with the pending change", id.String())
				}
				if _, ok := base.Segs[id]; ok != live {
					bad("C14: register of a processed change is not in the state the change asks for", id.String())
				}
			}
		}
		for id := range after {
			if _, ok := pend[id]; !ok {
				bad("C14: failed commit created a pending change", id.String())
			}
		}
		for id := range okCalls {
			if _, ok := pend[id]; !ok {
				bad("C14: commit touched a register without pending change", id.String())
			}
		}
		if _, still := after[failedID]; !still {
			bad("C14: the change whose ledger call failed is no longer pending", failedID.String())
		}
		if got, wantN := int(w.St.Deltas()), nAll-len(okCalls); got != wantN {
			bad("C14: Deltas inconsistent with the successful ledger calls", fmt.Sprintf("got %d want %d", got, wantN))
		}
		// F3
		e.Verify(false)
		if e.failed {
			return false
		}
		if fp := e.libFingerprint(); fp != fpBefore {
			bad("C14: content read through the library changed across a failed commit", fpBefore+" -> "+fp)
		}
		reloadThroughInstance()
		// observation, never a violation (C14_nested_inhabited: after a failed attempt the LEDGER alone is in
		// general not a consistent snapshot — a parent register may reference a child register not yet written)
		if !e.failed && fr.Chance(10) {
			func() {
				defer func() {
					if r := recover(); r != nil {
						rep.Event("obs_fresh_storage_over_ledger_after_failed_attempt_panics")
					}
				}()
				if _, err := atree.CheckStorageHealth(newStorage(base.Clone()), len(w.Roots)); err != nil {
					rep.Event("obs_ledger_alone_inconsistent_after_failed_attempt")
				} else {
					rep.Event("obs_ledger_alone_consistent_after_failed_attempt")
				}
			}()
		}
		return !e.failed
	}

	randVariant := func() ncfVariant { return ncfVariants[fr.Intn(len(ncfVariants))] }

	ci := 0
	for e.step < sp.Steps && !e.failed {
		e.Step()
		if e.failed {
			break
		}
		if ci == c {
			if j := ncfIndex(plan.mids[c], e.step); j >= 0 {
				if j == 0 {
					if !failAttempt(k, v) {
						break
					}
				} else if rem := int(w.St.DeltasWithoutTempAddresses()); rem > 0 {
					if !failAttempt(fr.Intn(rem), randVariant()) {
						break
					}
					rep.Event("further_failed_attempt_after_more_operations")
				}
			}
		}
		if e.step != plan.ends[ci] {
			continue
		}
		if ci != c {
			if !commitPlain(v) {
				break
			}
		} else {
			if rem := int(w.St.DeltasWithoutTempAddresses()); rem > 0 && fr.Chance(50) {
				if !failAttempt(fr.Intn(rem), randVariant()) {
					break
				}
				rep.Event("failed_attempt_at_round_end")
			}
			noteCrossings()
			if !commitPlain(randVariant()) {
				break
			}
			// R1
			if n := w.St.DeltasWithoutTempAddresses(); n != 0 {
				bad("C14: owned pending changes remain after the fault-free commit", fmt.Sprint(n))
			}
			// R2
			if d := SameRegisters(twin.snaps[c], base); d != "" {
				bad("C14: ledger after failed attempts, further operations and one fault-free commit differs from the fault-free twin", d)
			}
			// R3
			e.withAux(func() {
				st2 := newStorage(base.Clone())
				ids := make([]atree.SlabID, len(w.Roots))
				for i, r := range w.Roots {
					ids[i] = rootID(r)
				}
				ndReload(w, st2, w.Roots, ids, "C14 after the fault-free retry, fresh storage")
				if _, err := atree.CheckStorageHealth(st2, len(w.Roots)); err != nil {
					w.Fail("C14: CheckStorageHealth of a fresh storage over the ledger after the retry failed", err.Error())
				}
			})
			e.Verify(true)
		}
		ci++
	}
	if wedged {
		return attempts, crossed, true
	}
	if e.failed {
		bad("C14: history oracle failed: "+e.what, e.detail)
		return attempts, crossed, false
	}
	if d := SameRegisters(twin.snaps[len(twin.snaps)-1], base); d != "" {
		bad("C08: final ledger of the history continued after recovery differs from the fault-free twin", d)
	}
	return attempts, crossed, false
}

func cmdNestedCommitFault(a Args) {
	prop := a.Prop
	if prop == "" {
		prop = "C14"
	}
	rep := NewReport(prop, a.Seed)
	rep.Rule = "random nested World histories (36..80 ops, 1-3 roots, 60% prefilled with ~8-30 elements incl. nested containers, arrays+maps, depth 2..4, SomeValue wrappers, child handles, detached children) at T in {256,300,512} cut into 2-3 rounds with 1-3 mid points each; fault-free twin: FastCommit(1) at every round end; " +
		"for every round c, flavour in {FastCommit, NondeterministicFastCommit} x workers {1,4} and EVERY fault position k of the commit attempted at the round's first mid point (all k if W<=10, else 10 sampled incl. first/last) the history is re-executed from scratch: attempt fails at call k, operations continue, further attempts fail at random positions/flavours at the later mid points and (50%) at the round end, then one fault-free commit; " +
		"every commit attempt runs under a watchdog and must return (20 s, or all goroutines parked for 1 s); armed calls at even positions of the order-relaxed commit take 2 ms before failing; after every failed attempt: *ExternalError, exactly one failed call, every owned pending slab still pending with untouched register or processed and gone from the write set, nothing else touched, VerifyArray/VerifyMap + deep shadow comparison + library fingerprint unchanged, every root re-opened by identifier through the same storage deep-equal to the shadow; after the fault-free commit: nothing pending, ledger byte-identical to the twin's after that round, fresh storage over a clone reloads deep-equal content, CheckStorageHealth; final ledger byte-identical to the twin's. " +
		"non-trivial = case in which a container crossed the inline limit between two attempts the earlier of which failed; histories are added until -steps failed attempts were made (or -n histories)"
	rng := NewRng(a.Seed)
	defer atree.VerifSetThreshold(1024)
	budget := a.Steps
	total := 0
	sizes := []uint32{256, 300, 512}
	for h := 0; h < a.N; h++ {
		hr := rng.Fork(uint64(h))
		tag := fmt.Sprintf("ncf%d", h)
		if !want(tag) {
			continue
		}
		if total >= budget {
			rep.Event("budget_exhausted")
			break
		}
		if wdExhausted() {
			rep.Event("run_stopped_after_commits_that_did_not_return")
			break
		}
		sp := histSpec{
			Seed:  hr.U64(),
			T:     sizes[hr.Intn(len(sizes))],
			Steps: 36 + hr.Intn(45),
			Opts: WorldOpts{Addr: 1 + uint64(hr.Intn(3)), MaxDepth: 2 + hr.Intn(3), Wrap: hr.Chance(40), Maps: hr.Chance(75),
				Detach: hr.Chance(60), LargeVals: hr.Chance(20), PopChild: hr.Chance(60)},
		}
		if hr.Chance(60) {
			sp.Prefill = 8 + hr.Intn(23)
		}
		atree.VerifSetThreshold(sp.T)
		plan := ncfMakePlan(sp)
		nviol := len(rep.Violations)
		viol := func(step int, what, detail string) {
			rep.Violate(h, tag, step, what, sp.String()+" | "+clip(detail, 700))
		}
		twin := ncfRunTwin(sp, plan, rep)
		rep.Histories++
		rep.Steps += sp.Steps
		if twin.what != "" {
			viol(0, "C14: fault-free twin failed: "+twin.what, twin.detail)
			continue
		}
		fr := hr.Fork(77)
		wedged := false
		for c := range plan.ends {
			if len(plan.mids[c]) == 0 || len(twin.w[c]) == 0 {
				rep.Event("round_without_mid_point")
				continue
			}
			W := twin.w[c][0]
			rep.EventN("pending_slabs_at_first_attempt", W)
			if W == 0 {
				rep.Event("round_with_nothing_pending_at_first_mid_point")
				continue
			}
			var ks []int
			if W <= 10 {
				for k := 0; k < W; k++ {
					ks = append(ks, k)
				}
				rep.Event("round_exhaustive_positions")
			} else {
				seen := map[int]bool{0: true, W - 1: true}
				ks = []int{0, W - 1}
				for len(ks) < 10 {
					k := fr.Intn(W)
					if !seen[k] {
						seen[k] = true
						ks = append(ks, k)
					}
				}
				rep.Event("round_sampled_positions")
			}
			for _, v := range ncfVariants {
				for _, k := range ks {
					if len(rep.Violations) > nviol+5 || wedged {
						break
					}
					n, crossed, wd := ncfRunCase(sp, plan, twin, c, k, v, fr, rep, viol)
					wedged = wd // a commit did not return: the history is abandoned
					total += n
					rep.Event("cases")
					if crossed {
						rep.Event("cases_with_a_crossing_after_a_failed_attempt")
						rep.Distinct(fmt.Sprintf("%s/c%d/k%d/%s", tag, c, k, v.name))
					}
				}
			}
		}
		if h < 2 {
			rep.Sample(fmt.Sprintf("%s: %s round ends %v mid points %v pending at mid points %v", tag, sp, plan.ends, plan.mids, twin.w))
		}
	}
	rep.Events["failed_attempts_total"] = total
	rep.Write(a.Out + "/report.json")
}
