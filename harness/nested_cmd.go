//go:build verif

package main

// nested_cmd.go — C10 / C11: forests of nested arrays and maps mutated through live child handles.
//
// The command keeps ONE wrapper (*atree.Array / *atree.OrderedMap) per container (handle
// discipline, DESIGN 2.5) and a shadow tree with the expected content and the expected sizes.
// Handles are obtained three ways: the creation wrapper, parent.Get after commit + reopen
// (every container re-obtained top-down exactly once, old wrappers dropped), and mutable
// iteration (the yielded wrapper is adopted, its subtree re-obtained, and mutated inside the
// callback).  Children are driven across the inline limit in both directions, parents are
// restructured while child handles stay live, children are detached (removed / overwritten)
// with their wrapper kept, mutated while detached, and attached again elsewhere.
//
// Oracles after EVERY operation (model-independent): VerifyArray/VerifyMap on every outermost
// container, deep content comparison with the shadow, Inlined() against the prediction
// "one data slab whose inlined size <= limit of the parent slot", cached data size of every
// container against the shadow, value-ID stability, the enclosing stored slab is dirty after a
// mutation through a child handle; for operations on a detached container: every other tree is
// unchanged (bookkeeping dump, delta status and encoded bytes of every slab).  Every ~10
// operations: commit, reload every outermost container in a fresh storage over a clone of the
// ledger, deep compare, CheckStorageHealth with detached containers counted as roots.
//
// Trace (engine "nested", coq/theories/NestedTrace.v): see the encoding at the top of that file.
// With -mode selfset (or selfset+fulltrace) traced histories also write a child container back into
// the slot that holds it (op code 13; engine "nested2", coq/theories/NestedSelfSetTrace.v over
// NestedSelfSet.v); without it such self-sets happen only in histories without a trace, and the
// trace of the default mode is unchanged.

import (
	"errors"
	"fmt"
	"hash/fnv"
	"sort"
	"strconv"
	"strings"

	"github.com/onflow/atree"
	testutils "github.com/onflow/atree/test_utils"
)

func init() { register("nested", cmdNested) }

const (
	nHandleCreate = 0
	nHandleGet    = 1
	nHandleIter   = 2
	nMaxDepth     = 4
)

var nHandleNames = []string{"create", "get", "iter"}

type nNode struct {
	vid      uint64
	isMap    bool
	arr      *atree.Array
	m        *atree.OrderedMap
	elems    []*nElem // array order / map insertion order
	ti       uint64
	parent   *nNode
	detached bool // outermost because it was removed from / overwritten in a parent; wrapper kept
	dead     bool
	hkind    int
	valueID  atree.ValueID
	sid      atree.SlabID
	// the parent (and the generation of its wrapper) against which this handle's parent callback was registered
	wgen     int
	cbParent *nNode
	cbGen    int
}

type nElem struct {
	kid uint64 // maps
	ksz uint32
	key atree.Value
	id  uint64 // scalars
	val atree.Value
	sz  uint32
	// children
	child *nNode
	w     int
}

func (n *nNode) val() atree.Value {
	if n.isMap {
		return n.m
	}
	return n.arr
}
func (n *nNode) depth() int {
	d := 1
	for p := n.parent; p != nil; p = p.parent {
		d++
	}
	return d
}
func (n *nNode) outer() *nNode {
	for n.parent != nil {
		n = n.parent
	}
	return n
}
func (n *nNode) height() int {
	h := 1
	for _, e := range n.elems {
		if e.child != nil {
			if x := 1 + e.child.height(); x > h {
				h = x
			}
		}
	}
	return h
}
func (n *nNode) inlined() bool {
	if n.isMap {
		return n.m.Inlined()
	}
	return n.arr.Inlined()
}
func (n *nNode) hasChild() bool {
	for _, e := range n.elems {
		if e.child != nil {
			return true
		}
	}
	return false
}
func (n *nNode) slotOf(c *nNode) int {
	for i, e := range n.elems {
		if e.child == c {
			return i
		}
	}
	return -1
}
func (n *nNode) findKey(kid uint64) int {
	for i, e := range n.elems {
		if e.kid == kid {
			return i
		}
	}
	return -1
}
func (n *nNode) contains(x *nNode) bool { // x in the subtree of n
	for ; x != nil; x = x.parent {
		if x == n {
			return true
		}
	}
	return false
}
func kindInt(n *nNode) int64 {
	if n.isMap {
		return 1
	}
	return 0
}

func (e *nElem) value() atree.Value {
	if e.child == nil {
		return e.val
	}
	v := e.child.val()
	for k := 0; k < e.w; k++ {
		v = testutils.NewSomeValue(v)
	}
	return v
}
func (e *nElem) ints() []int64 {
	if e.child == nil {
		return []int64{0, int64(e.id), 0, int64(e.sz)}
	}
	return []int64{1, int64(e.child.vid), int64(e.w), 0}
}

type nSizes struct {
	data uint32 // base + sum of slot sizes (what the container caches)
	inl  uint32 // size as an inlined slab
	pred bool   // predicted Inlined()
}

type nH struct {
	h          int
	tag        string
	step       int
	T          uint32
	arrLim     uint32
	mapLim     uint32
	wp         [3]uint32
	c          map[string]uint32
	st         *atree.PersistentSlabStorage
	base       *LogBase
	addr       atree.Address
	rng        *Rng
	rep        *Report
	tr         *Trace
	c11        bool
	selfset    bool // -mode selfset: self-sets also in traced histories (op code 13, engine nested2)
	roots      []*nNode
	nextID     uint64
	failed     bool
	onDetached bool

	focus      *nNode
	focusGrow  bool
	focusLeft  int
	focusHi    uint32
	sinceCheck int

	// measured
	toStandalone int
	toInline     int
	maxDepth     int
	cur          *nNode // target of the operation in progress
	detachedMut  int
	detaches     int
	attaches     int
	splitsLive   int
	mergesLive   int
	kinds        [3]int
}

func (H *nH) fail(what, detail string) {
	if !H.failed {
		H.rep.Violate(H.h, H.tag, H.step, what, fmt.Sprintf("T=%d %s", H.T, detail))
	}
	H.failed = true
}

type nAbort struct{}

func nHasParentUpdater(n *nNode) bool {
	if n.isMap {
		return n.m != nil && atree.VerifMapHasParentUpdater(n.m)
	}
	return n.arr != nil && atree.VerifArrayHasParentUpdater(n.arr)
}

func (H *nH) check(err error, what string) {
	if err != nil {
		// known finding F6: a detached container that has not been mutated since it left its parent still
		// carries its parent callback; the callback holds the parent WRAPPER of that time; when the client has
		// since re-obtained the parent (a new wrapper, the old one abandoned) or disposed of it, the first
		// mutation through the detached handle runs the callback on the outdated wrapper and fails inside it
		// (also when the mutation goes through a container nested in the detached one: the notification chain
		// reaches the detached outermost container and runs ITS outdated callback).  Recognised only when the
		// outermost container still carries a callback registered against a wrapper of its former parent that
		// has been replaced or disposed of since, and the error is a missing slab met inside that callback.
		var snf *atree.SlabNotFoundError
		if c := H.cur; c != nil && errors.As(err, &snf) && nHasParentUpdater(c.outer()) && c.outer().cbParent != nil &&
			(c.outer().cbParent.dead || c.outer().cbParent.wgen != c.outer().cbGen) {
			H.fail("C11: F6 the first mutation through the handle of a detached container fails inside its outdated parent callback (the client has re-obtained or disposed of the former parent since)", what+": "+err.Error())
			panic(nAbort{})
		}
		if H.onDetached && strings.HasPrefix(what, "C10: ") {
			what = "C11: (operation through the handle of a detached container) " + what[5:]
		}
		H.fail(what, err.Error())
		panic(nAbort{})
	}
}

// ---------- values ----------

func nKeyOf(kid uint64) atree.Value {
	if kid%3 == 0 {
		return testutils.NewStringValue(fmt.Sprintf("k%03d%s", kid, strings.Repeat("y", int(kid%11))))
	}
	return testutils.Uint64Value(kid * 300)
}

func nKeyID(s atree.Storable) (uint64, bool) {
	switch k := s.(type) {
	case testutils.Uint64Value:
		return uint64(k) / 300, uint64(k)%300 == 0
	case testutils.StringValue:
		str := k.String()
		if len(str) >= 4 && str[0] == 'k' {
			n, err := strconv.ParseUint(str[1:4], 10, 64)
			return n, err == nil
		}
	}
	return 0, false
}

// newScalar creates a scalar whose stored size is at most maxSize (always inline).
func (H *nH) newScalar(maxSize uint32, big bool) *nElem {
	r := H.rng
	H.nextID++
	id := H.nextID
	e := &nElem{id: id}
	if maxSize < 12 {
		maxSize = 12
	}
	var v atree.Value
	if !big && r.Chance(45) {
		v = testutils.Uint64Value(id)
	} else {
		hi := int(maxSize) / 6
		if big {
			hi = int(maxSize) / 3
		}
		lo := 3
		if big {
			lo = int(maxSize) / 6
		}
		l := lo + r.Intn(hi-lo+1)
		ds := strconv.FormatUint(id, 10) + "|"
		if l < len(ds) {
			l = len(ds)
		}
		v = testutils.NewStringValue(ds + strings.Repeat("x", l-len(ds)))
	}
	if r.Chance(10) {
		v = testutils.NewSomeValue(v)
	}
	st, err := v.Storable(H.st, H.addr, 1<<20)
	H.check(err, "scalar Storable failed")
	e.val, e.sz = v, st.ByteSize()
	return e
}

func nScalarID(s atree.Storable) (uint64, bool) {
	switch x := s.(type) {
	case testutils.Uint64Value:
		return uint64(x), true
	case testutils.StringValue:
		str := x.String()
		if i := strings.IndexByte(str, '|'); i > 0 {
			n, err := strconv.ParseUint(str[:i], 10, 64)
			return n, err == nil
		}
	}
	return 0, false
}

// decode an element storable into the trace's (kind, id/vid, wrap levels, size)
func (H *nH) decodeStorable(s atree.Storable) (ek int64, x uint64, w int64, sz uint32, ok bool) {
	sz = s.ByteSize()
	for {
		ss, isSome := s.(testutils.SomeStorable)
		if !isSome {
			break
		}
		w++
		s = ss.Storable
	}
	switch t := s.(type) {
	case atree.SlabIDStorable:
		return 1, atree.SlabID(t).IndexAsUint64(), w, sz, true
	case atree.Slab:
		return 1, t.SlabID().IndexAsUint64(), w, sz, true
	}
	id, ok := nScalarID(s)
	return 0, id, 0, sz, ok
}

// ---------- expected sizes (from the shadow only) ----------

func (H *nH) slotLimit(p *nNode, e *nElem) uint32 {
	var l uint32
	if p.isMap {
		l = atree.VerifMaxInlineMapValueSize(e.ksz)
	} else {
		l = H.arrLim
	}
	if l < H.wp[e.w] {
		return 0
	}
	return l - H.wp[e.w]
}

func (H *nH) sizes(n *nNode, lim uint32, attached bool, memo map[*nNode]nSizes, rootIsData map[*nNode]bool) nSizes {
	var data uint32
	if n.isMap {
		data = H.c["hkeyElementsPrefixSize"]
	}
	for _, e := range n.elems {
		var es uint32
		if e.child == nil {
			es = e.sz
		} else {
			cs := H.sizes(e.child, H.slotLimit(n, e), true, memo, rootIsData)
			if cs.pred {
				es = H.wp[e.w] + cs.inl
			} else {
				es = H.wp[e.w] + H.c["slabIDStorableSize"]
			}
		}
		if n.isMap {
			es += H.c["digestSize"] + H.c["singleElementPrefixSize"] + e.ksz
		}
		data += es
	}
	s := nSizes{data: data}
	if n.isMap {
		s.inl = H.c["inlinedMapDataSlabPrefixSize"] + data
	} else {
		s.inl = H.c["inlinedArrayDataSlabPrefixSize"] + data
	}
	s.pred = attached && s.inl <= lim && rootIsData[n]
	memo[n] = s
	return s
}

// ---------- dumps (trace answers and frame fingerprints) ----------

func (H *nH) deltaStatus(deltas map[atree.SlabID]bool, id atree.SlabID) int64 {
	live, ok := deltas[id]
	switch {
	case !ok:
		return 0
	case live:
		return 1
	}
	return 2
}

func (H *nH) dumpNode(n *nNode, deltas map[atree.SlabID]bool) []int64 {
	info, err := atree.VerifContainerInfo(n.val())
	H.check(err, "C10: container bookkeeping unreadable")
	b := func(x bool) int64 {
		if x {
			return 1
		}
		return 0
	}
	out := []int64{int64(n.vid), kindInt(n), b(info.Inlined), b(info.HasParentUpdater), int64(info.DataSize),
		H.deltaStatus(deltas, n.sid)}
	if n.isMap {
		keys, vals, _, ok, err := atree.VerifMapEntries(n.m)
		H.check(err, "C10: map elements unreadable")
		if !ok {
			H.rep.Event("map_collision_group")
		}
		byKid := map[uint64]int{}
		for i, k := range keys {
			kid, ok := nKeyID(k)
			if !ok {
				H.fail("C10: content differs from shadow", fmt.Sprintf("map %d holds an unknown key %v", n.vid, k))
			}
			byKid[kid] = i
		}
		out = append(out, int64(len(keys)))
		for _, e := range n.elems {
			i, ok := byKid[e.kid]
			if !ok {
				H.fail("C10: content differs from shadow", fmt.Sprintf("map %d lacks key %d", n.vid, e.kid))
				out = append(out, int64(e.kid), -1, -1, -1, -1, -1)
				continue
			}
			ek, x, w, sz, _ := H.decodeStorable(vals[i])
			out = append(out, int64(e.kid), int64(keys[i].ByteSize()), ek, int64(x), w, int64(sz))
		}
		out = append(out, 0)
		return out
	}
	sts, err := atree.VerifArrayStorables(n.arr)
	H.check(err, "C10: array elements unreadable")
	out = append(out, int64(len(sts)))
	for _, s := range sts {
		ek, x, w, sz, _ := H.decodeStorable(s)
		out = append(out, 0, 0, ek, int64(x), w, int64(sz))
	}
	idx := atree.VerifArrayIndexMap(n.arr)
	type pr struct{ v, i uint64 }
	var ps []pr
	for k, i := range idx {
		ps = append(ps, pr{atree.VerifValueIDIndex(k), i})
	}
	sort.Slice(ps, func(a, b int) bool { return ps[a].v < ps[b].v })
	out = append(out, int64(len(ps)))
	for _, p := range ps {
		out = append(out, int64(p.v), int64(p.i))
	}
	return out
}

func (H *nH) tree(n *nNode, out []*nNode) []*nNode {
	out = append(out, n)
	for _, e := range n.elems {
		if e.child != nil {
			out = H.tree(e.child, out)
		}
	}
	return out
}

func (H *nH) live() []*nNode {
	var out []*nNode
	for _, r := range H.roots {
		out = H.tree(r, out)
	}
	return out
}

// fingerprint of every tree except the one rooted at `except`, per outermost container:
// bookkeeping + delta status + encoded bytes of every stored slab.
func (H *nH) fingerprintOthers(except *nNode) map[*nNode]string {
	deltas, _ := atree.VerifStorageKeys(H.st)
	out := map[*nNode]string{}
	for _, r := range H.roots {
		if r == except {
			continue
		}
		var sb strings.Builder
		for _, n := range H.tree(r, nil) {
			fmt.Fprint(&sb, H.dumpNode(n, deltas))
			ids, err := atree.VerifContainerSlabIDs(n.val())
			H.check(err, "C11: slab tree unreadable")
			for _, id := range ids {
				slab, ok, err := H.st.Retrieve(id)
				if err != nil || !ok {
					fmt.Fprintf(&sb, "{%d missing}", id.IndexAsUint64())
					continue
				}
				b, err := atree.EncodeSlab(slab, encMode)
				H.check(err, "C11: slab cannot be encoded")
				f := fnv.New64a()
				f.Write(b)
				fmt.Fprintf(&sb, "{%d %d %x}", id.IndexAsUint64(), H.deltaStatus(deltas, id), f.Sum64())
			}
			if !n.isMap {
				d, err := atree.VerifArrayDump(n.arr, func(s atree.Storable) (int64, uint64) {
					_, x, _, _, _ := H.decodeStorable(s)
					return int64(x), 0
				})
				H.check(err, "C11: array dump failed")
				fmt.Fprint(&sb, d)
			}
		}
		out[r] = sb.String()
	}
	return out
}

// emit writes one trace step: [code, nobs, obs..., args...] / [0, dumps...]
func (H *nH) emit(code int64, args []int64, obs ...*nNode) {
	H.emitRet(code, args, nil, obs...)
}

// emitRet: as emit, with ret appended to the answer line (the element handed back, op code 13)
func (H *nH) emitRet(code int64, args []int64, ret []int64, obs ...*nNode) {
	if H.tr == nil || H.failed {
		return
	}
	seen := map[*nNode]bool{}
	var os []*nNode
	for _, n := range obs {
		for x := n; x != nil; x = x.parent {
			if !seen[x] && !x.dead {
				seen[x] = true
				os = append(os, x)
			}
		}
	}
	op := []int64{code, int64(len(os))}
	for _, n := range os {
		op = append(op, int64(n.vid))
	}
	op = append(op, args...)
	deltas, _ := atree.VerifStorageKeys(H.st)
	ans := []int64{0}
	for _, n := range os {
		ans = append(ans, H.dumpNode(n, deltas)...)
	}
	ans = append(ans, ret...)
	H.tr.Step(op, ans)
}

func (H *nH) emitFlat(code int64, args []int64, obs []*nNode) { // observe exactly obs (no ancestors)
	if H.tr == nil || H.failed {
		return
	}
	op := []int64{code, int64(len(obs))}
	for _, n := range obs {
		op = append(op, int64(n.vid))
	}
	op = append(op, args...)
	deltas, _ := atree.VerifStorageKeys(H.st)
	ans := []int64{0}
	for _, n := range obs {
		ans = append(ans, H.dumpNode(n, deltas)...)
	}
	H.tr.Step(op, ans)
}

// ---------- oracles ----------

func (H *nH) cmpNode(n *nNode, v atree.Value, path string) {
	if n.isMap {
		m, ok := v.(*atree.OrderedMap)
		if !ok {
			H.fail("C10: content read through the parent differs from shadow", fmt.Sprintf("%s: want map got %T", path, v))
			return
		}
		if m.ValueID() != n.valueID {
			H.fail("C10: value identifier changed", path)
		}
		if m.Count() != uint64(len(n.elems)) {
			H.fail("C10: content read through the parent differs from shadow", fmt.Sprintf("%s: map count %d, shadow %d", path, m.Count(), len(n.elems)))
			return
		}
		if ti, ok := m.Type().(testutils.SimpleTypeInfo); !ok || ti.Value() != n.ti {
			H.fail("C10: type read through the parent differs from shadow", path)
		}
		cnt := 0
		err := m.IterateReadOnly(func(k, val atree.Value) (bool, error) {
			cnt++
			ks, _ := k.(atree.Storable)
			kid, ok := uint64(0), false
			if ks != nil {
				kid, ok = nKeyID(ks)
			}
			i := -1
			if ok {
				i = n.findKey(kid)
			}
			if i < 0 {
				H.fail("C10: content read through the parent differs from shadow", fmt.Sprintf("%s: unexpected key %v", path, k))
				return true, nil
			}
			H.cmpElem(n.elems[i], val, fmt.Sprintf("%s{%d}", path, kid))
			return true, nil
		})
		if err != nil || cnt != len(n.elems) {
			H.fail("C10: content read through the parent differs from shadow", fmt.Sprintf("%s: iteration yields %d of %d, %v", path, cnt, len(n.elems), err))
		}
		return
	}
	a, ok := v.(*atree.Array)
	if !ok {
		H.fail("C10: content read through the parent differs from shadow", fmt.Sprintf("%s: want array got %T", path, v))
		return
	}
	if a.ValueID() != n.valueID {
		H.fail("C10: value identifier changed", path)
	}
	if a.Count() != uint64(len(n.elems)) {
		H.fail("C10: content read through the parent differs from shadow", fmt.Sprintf("%s: array count %d, shadow %d", path, a.Count(), len(n.elems)))
		return
	}
	if ti, ok := a.Type().(testutils.SimpleTypeInfo); !ok || ti.Value() != n.ti {
		H.fail("C10: type read through the parent differs from shadow", path)
	}
	i := 0
	err := a.IterateReadOnly(func(val atree.Value) (bool, error) {
		if i < len(n.elems) {
			H.cmpElem(n.elems[i], val, fmt.Sprintf("%s[%d]", path, i))
		}
		i++
		return true, nil
	})
	if err != nil || i != len(n.elems) {
		H.fail("C10: content read through the parent differs from shadow", fmt.Sprintf("%s: iteration yields %d of %d, %v", path, i, len(n.elems), err))
	}
}

func (H *nH) cmpElem(e *nElem, v atree.Value, path string) {
	if e.child == nil {
		if keyStr(e.val) != keyStr(v) {
			H.fail("C10: content read through the parent differs from shadow", fmt.Sprintf("%s: want %v got %v", path, e.val, v))
		}
		return
	}
	for k := 0; k < e.w; k++ {
		sv, ok := v.(testutils.SomeValue)
		if !ok {
			H.fail("C10: content read through the parent differs from shadow", fmt.Sprintf("%s: want SomeValue got %T", path, v))
			return
		}
		v = sv.Value
	}
	H.cmpNode(e.child, v, path)
}

func (H *nH) verifyRoot(r *nNode, pfx string) {
	var err error
	if r.isMap {
		err = atree.VerifyMap(r.m, H.addr, testutils.NewSimpleTypeInfo(r.ti), testutils.CompareTypeInfo, testutils.GetHashInput, true)
	} else {
		err = atree.VerifyArray(r.arr, H.addr, testutils.NewSimpleTypeInfo(r.ti), testutils.CompareTypeInfo, testutils.GetHashInput, true)
	}
	if err != nil {
		H.fail(pfx+"structural verification of an outermost container failed", fmt.Sprintf("vid %d: %v", r.vid, err))
	}
}

// checkAll runs the per-operation oracles on the whole forest.
func (H *nH) checkAll() {
	if H.failed {
		return
	}
	for _, r := range H.roots {
		pfx := "C10: "
		if r.detached {
			pfx = "C11: "
		}
		H.verifyRoot(r, pfx)
		H.cmpNode(r, r.val(), fmt.Sprintf("v%d", r.vid))
		nodes := H.tree(r, nil)
		rootIsData := map[*nNode]bool{}
		infos := map[*nNode]atree.VerifNestedInfo{}
		for _, n := range nodes {
			info, err := atree.VerifContainerInfo(n.val())
			H.check(err, "C10: container bookkeeping unreadable")
			infos[n] = info
			rootIsData[n] = info.RootIsData
			if d := n.depth(); d > H.maxDepth {
				H.maxDepth = d
			}
		}
		memo := map[*nNode]nSizes{}
		H.sizes(r, 0, false, memo, rootIsData)
		for _, n := range nodes {
			info, s := infos[n], memo[n]
			if info.ValueID != n.valueID {
				H.fail(pfx+"value identifier changed", fmt.Sprintf("vid %d", n.vid))
			}
			if info.Inlined != s.pred {
				what := "C10: child is not stored inline exactly when it is one slab that fits the parent's per-element limit"
				if n.parent == nil {
					what = "C11: an outermost (detached) container is marked inlined"
				}
				H.fail(what, fmt.Sprintf("vid %d depth %d: Inlined()=%v, expected %v (inlined size %d, one data slab %v)", n.vid, n.depth(), info.Inlined, s.pred, s.inl, info.RootIsData))
			}
			if info.DataSize != s.data {
				H.fail(pfx+"cached size of a container differs from the size of its current elements", fmt.Sprintf("vid %d depth %d: cached %d, expected %d", n.vid, n.depth(), info.DataSize, s.data))
			}
			if !info.RootIsData && n.parent != nil && s.inl <= H.slotLimit(n.parent, n.parent.elems[n.parent.slotOf(n)]) {
				H.rep.Event("multi_slab_child_below_limit")
			}
			if n.parent != nil && !info.HasParentUpdater {
				H.fail("C10: attached child handle has no parent callback", fmt.Sprintf("vid %d", n.vid))
			}
		}
	}
}

// ---------- disposal ----------

func (H *nH) dispose(st atree.Storable) {
	if st == nil {
		return
	}
	v, err := st.StoredValue(H.st)
	H.check(err, "dispose: StoredValue failed")
	switch c := unwrapValueAll(v).(type) {
	case *atree.Array:
		err = c.PopIterate(func(s atree.Storable) { H.dispose(s) })
	case *atree.OrderedMap:
		err = c.PopIterate(func(k, s atree.Storable) { H.dispose(s) })
	}
	H.check(err, "dispose: PopIterate failed")
	if sid, ok := unwrapStorableAll(st).(atree.SlabIDStorable); ok {
		H.check(H.st.Remove(atree.SlabID(sid)), "dispose: Remove failed")
	}
}

func (H *nH) markDead(n *nNode) {
	n.dead = true
	for _, e := range n.elems {
		if e.child != nil {
			H.markDead(e.child)
		}
	}
	if H.focus == n {
		H.focus = nil
	}
}

func (H *nH) dropRoot(n *nNode) {
	for i, r := range H.roots {
		if r == n {
			H.roots = append(H.roots[:i], H.roots[i+1:]...)
			return
		}
	}
}

// released handles the storable the library handed back for a removed / overwritten element.
// Returns the child if it is kept alive as a detached container.
func (H *nH) released(st atree.Storable, old *nElem, keep bool) *nNode {
	if old.child == nil {
		return nil
	}
	c := old.child
	inner := unwrapStorableAll(st)
	sid, ok := inner.(atree.SlabIDStorable)
	if !ok || atree.SlabID(sid) != c.sid {
		H.fail("C11: removed/overwritten container was not handed back as a reference to its own stored slab", fmt.Sprintf("vid %d: %T %v", c.vid, inner, inner))
		panic(nAbort{})
	}
	if c.inlined() {
		H.fail("C11: removed/overwritten container is still marked inlined", fmt.Sprintf("vid %d", c.vid))
	}
	if _, found, err := H.st.Retrieve(c.sid); err != nil || !found {
		H.fail("C11: removed/overwritten container is not stored under its own identifier", fmt.Sprintf("vid %d: %v", c.vid, err))
	}
	c.parent = nil
	if keep {
		c.detached = true
		H.roots = append(H.roots, c)
		H.detaches++
		H.rep.Event("detach")
		return c
	}
	H.dispose(st)
	H.markDead(c)
	H.rep.Event("dispose_child")
	return nil
}

// ---------- primitive operations (library call + shadow + trace) ----------

type nPre struct {
	target    *nNode
	wasInl    bool
	attached  bool
	slabs     map[*nNode]int
	frame     map[*nNode]string
	frameRoot *nNode
	clean     bool
}

func (H *nH) before(n *nNode) nPre {
	H.cur = n
	p := nPre{target: n, attached: n.parent != nil, slabs: map[*nNode]int{}}
	if p.attached {
		p.wasInl = n.inlined()
	}
	for x := n.parent; x != nil; x = x.parent {
		info, err := atree.VerifContainerInfo(x.val())
		H.check(err, "C10: container bookkeeping unreadable")
		p.slabs[x] = info.DataSlabs
	}
	o := n.outer()
	H.onDetached = o.detached
	if o.detached && len(H.roots) > 1 {
		p.frame = H.fingerprintOthers(o)
		p.frameRoot = o
	}
	p.clean = H.st.Deltas() == 0
	return p
}

func (H *nH) after(p nPre, name string) {
	n := p.target
	H.rep.Op(name)
	if o := n.outer(); o.cbParent != nil && !o.dead && !nHasParentUpdater(o) {
		o.cbParent = nil // the first mutation that reaches an outermost container drops its outdated parent callback
	}
	if n.dead {
		return
	}
	if p.attached && n.parent != nil {
		H.kinds[n.hkind]++
		now := n.inlined()
		if p.wasInl && !now {
			H.toStandalone++
		}
		if !p.wasInl && now {
			H.toInline++
		}
		// the enclosing stored slab must be dirty
		s := n
		for s.parent != nil && s.inlined() {
			s = s.parent
		}
		deltas, _ := atree.VerifStorageKeys(H.st)
		if live, ok := deltas[s.sid]; !ok || !live {
			H.fail("C10: mutation through a child handle left the enclosing stored slab clean (it would not be persisted by the next commit)",
				fmt.Sprintf("%s on vid %d (handle %s), enclosing stored container %d", name, n.vid, nHandleNames[n.hkind], s.vid))
		}
		if p.clean && H.st.Deltas() == 0 {
			H.fail("C10: mutation through a child handle of a committed forest produced no delta", fmt.Sprintf("%s on vid %d", name, n.vid))
		}
	}
	for x, k := range p.slabs {
		if x.dead {
			continue
		}
		info, err := atree.VerifContainerInfo(x.val())
		H.check(err, "C10: container bookkeeping unreadable")
		if info.DataSlabs > k {
			H.splitsLive++
		}
		if info.DataSlabs < k {
			H.mergesLive++
		}
	}
	if p.frameRoot != nil {
		H.detachedMut++
		now := H.fingerprintOthers(p.frameRoot)
		for r, f := range now { // trees that were outermost before and still are
			if b, ok := p.frame[r]; ok && b != f {
				H.fail("C11: operation through the handle of a detached container changed another container (content, size bookkeeping, delta status or encoded form)",
					fmt.Sprintf("%s on detached vid %d (tree root %d) changed the tree of %d\nbefore: %s\nafter:  %s", name, n.vid, p.frameRoot.vid, r.vid, b, f))
			}
		}
	}
}

func (H *nH) opNew(isMap bool) *nNode {
	n := &nNode{isMap: isMap, hkind: nHandleCreate}
	if isMap {
		n.ti = uint64(50 + H.rng.Intn(3))
		m, err := atree.NewMap(H.st, H.addr, atree.NewDefaultDigesterBuilder(), testutils.NewSimpleTypeInfo(n.ti))
		H.check(err, "NewMap failed")
		n.m, n.sid, n.valueID = m, m.SlabID(), m.ValueID()
	} else {
		n.ti = uint64(40 + H.rng.Intn(3))
		a, err := atree.NewArray(H.st, H.addr, testutils.NewSimpleTypeInfo(n.ti))
		H.check(err, "NewArray failed")
		n.arr, n.sid, n.valueID = a, a.SlabID(), a.ValueID()
	}
	n.vid = n.sid.IndexAsUint64()
	H.roots = append(H.roots, n)
	H.rep.Op("new")
	H.emit(1, []int64{int64(n.vid), kindInt(n)}, n)
	return n
}

// attachBookkeeping: e.child (an outermost container) becomes a child of n.
func (H *nH) adoptChild(n *nNode, e *nElem) {
	if e.child != nil {
		H.dropRoot(e.child)
		e.child.parent = n
		e.child.cbParent, e.child.cbGen = n, n.wgen
		if e.child.detached {
			H.attaches++
			H.rep.Event("reattach")
		}
		e.child.detached = false
	}
}

func (H *nH) arrInsert(n *nNode, i int, e *nElem) {
	p := H.before(n)
	v := e.value()
	var err error
	if i == len(n.elems) && H.rng.Bool() {
		err = n.arr.Append(v)
	} else {
		err = n.arr.Insert(uint64(i), v)
	}
	H.check(err, "C10: in-range insert failed")
	n.elems = append(n.elems, nil)
	copy(n.elems[i+1:], n.elems[i:])
	n.elems[i] = e
	H.adoptChild(n, e)
	H.emit(2, append([]int64{int64(n.vid), int64(i)}, e.ints()...), n, e.child)
	H.after(p, "arr.insert")
}

func (H *nH) arrSet(n *nNode, i int, e *nElem, keep bool) *nNode {
	p := H.before(n)
	old := n.elems[i]
	st, err := n.arr.Set(uint64(i), e.value())
	H.check(err, "C10: in-range set failed")
	n.elems[i] = e
	H.adoptChild(n, e)
	d := H.released(st, old, keep)
	H.emit(3, append([]int64{int64(n.vid), int64(i)}, e.ints()...), n, e.child, d)
	H.after(p, "arr.set")
	return d
}

// selfSet: Array.Set / OrderedMap.Set of the child container a slot already holds (same wrappers)
func (H *nH) selfSet(n *nNode) {
	var slots []int
	for i, e := range n.elems {
		if e.child != nil {
			slots = append(slots, i)
		}
	}
	i := slots[H.rng.Intn(len(slots))]
	e := n.elems[i]
	p := H.before(n)
	var st atree.Storable
	var err error
	if n.isMap {
		st, err = n.m.Set(testutils.CompareValue, testutils.GetHashInput, e.key, e.value())
	} else {
		st, err = n.arr.Set(uint64(i), e.value())
	}
	H.check(err, "C10: writing a child container back into its own slot failed")
	if st == nil {
		H.fail("C10: writing a child container back into its own slot returned no previous element", fmt.Sprint(e.child.vid))
		panic(nAbort{})
	}
	// the element handed back is the child itself: its inlined slab if it is (still) inlined, else the
	// reference to its own stored slab; same wrappers
	ek, x, w, _, _ := H.decodeStorable(st)
	_, asSlab := unwrapStorableAll(st).(atree.Slab)
	if ek != 1 || x != e.child.vid || w != int64(e.w) || asSlab != e.child.inlined() {
		H.fail("C10: writing a child container back into its own slot did not hand back that child as it is stored",
			fmt.Sprintf("vid %d w %d inlined %v: got kind %d id %d w %d as-slab %v (%T)", e.child.vid, e.w, e.child.inlined(), ek, x, w, asSlab, unwrapStorableAll(st)))
	}
	e.child.cbParent, e.child.cbGen = n, n.wgen // setCallbackWithChild registers the callback again
	loc := int64(i)
	if n.isMap {
		loc = int64(e.kid)
	}
	inl := int64(0)
	if asSlab {
		inl = 1
	}
	H.emitRet(13, []int64{int64(n.vid), loc}, []int64{ek, int64(x), w, inl}, n, e.child)
	H.after(p, "selfset")
}

func (H *nH) arrRemove(n *nNode, i int, keep bool) *nNode {
	p := H.before(n)
	old := n.elems[i]
	st, err := n.arr.Remove(uint64(i))
	H.check(err, "C10: in-range remove failed")
	n.elems = append(n.elems[:i:i], n.elems[i+1:]...)
	d := H.released(st, old, keep)
	H.emit(4, []int64{int64(n.vid), int64(i)}, n, d)
	H.after(p, "arr.remove")
	return d
}

func (H *nH) mapSet(n *nNode, e *nElem, keep bool) *nNode {
	p := H.before(n)
	i := n.findKey(e.kid)
	st, err := n.m.Set(testutils.CompareValue, testutils.GetHashInput, e.key, e.value())
	H.check(err, "C10: map set failed")
	var d *nNode
	if i >= 0 {
		if st == nil {
			H.fail("C10: overwriting a present key returned no previous value", fmt.Sprint(e.kid))
			panic(nAbort{})
		}
		old := n.elems[i]
		n.elems[i] = e
		H.adoptChild(n, e)
		d = H.released(st, old, keep)
	} else {
		if st != nil {
			H.fail("C10: setting an absent key returned a previous value", fmt.Sprint(e.kid))
			panic(nAbort{})
		}
		n.elems = append(n.elems, e)
		H.adoptChild(n, e)
	}
	H.emit(6, append([]int64{int64(n.vid), int64(e.kid), int64(e.ksz)}, e.ints()...), n, e.child, d)
	H.after(p, "map.set")
	return d
}

func (H *nH) mapRemove(n *nNode, i int, keep bool) *nNode {
	p := H.before(n)
	old := n.elems[i]
	_, st, err := n.m.Remove(testutils.CompareValue, testutils.GetHashInput, old.key)
	H.check(err, "C10: removing a present key failed")
	n.elems = append(n.elems[:i:i], n.elems[i+1:]...)
	d := H.released(st, old, keep)
	H.emit(7, []int64{int64(n.vid), int64(old.kid)}, n, d)
	H.after(p, "map.remove")
	return d
}

func (H *nH) pop(n *nNode) {
	p := H.before(n)
	k := len(n.elems)
	var err error
	if n.isMap {
		err = n.m.PopIterate(func(_, s atree.Storable) { k--; H.dispose(s) })
	} else {
		err = n.arr.PopIterate(func(s atree.Storable) { k--; H.dispose(s) })
	}
	H.check(err, "C10: PopIterate failed")
	if k != 0 {
		H.fail("C10: PopIterate did not visit every element once", fmt.Sprint(k))
	}
	for _, e := range n.elems {
		if e.child != nil {
			e.child.parent = nil
			H.markDead(e.child)
		}
	}
	n.elems = nil
	H.emit(5, []int64{int64(n.vid)}, n)
	H.after(p, "pop")
}

func (H *nH) touch(n *nNode) {
	p := H.before(n)
	var err error
	if n.isMap {
		n.ti = uint64(50 + H.rng.Intn(3))
		err = n.m.SetType(testutils.NewSimpleTypeInfo(n.ti))
	} else {
		n.ti = uint64(40 + H.rng.Intn(3))
		err = n.arr.SetType(testutils.NewSimpleTypeInfo(n.ti))
	}
	H.check(err, "C10: SetType failed")
	H.emit(9, []int64{int64(n.vid)}, n)
	H.after(p, "settype")
}

// ---------- composite operations ----------

func (H *nH) newKeyElem(n *nNode, e *nElem, wantNew bool) {
	r := H.rng
	for try := 0; ; try++ {
		kid := uint64(1 + r.Intn(30+try))
		if wantNew && n.findKey(kid) >= 0 {
			continue
		}
		e.kid = kid
		break
	}
	e.key = nKeyOf(e.kid)
	ks, err := e.key.Storable(H.st, H.addr, 1<<20)
	H.check(err, "key Storable failed")
	e.ksz = ks.ByteSize()
}

func (H *nH) scalarFor(n *nNode, big bool) *nElem {
	lim := H.arrLim
	if n.isMap {
		lim = H.mapLim - 16
	}
	return H.newScalar(lim-4, big)
}

func (H *nH) insertScalar(n *nNode, big bool, front bool) {
	e := H.scalarFor(n, big)
	if n.isMap {
		H.newKeyElem(n, e, true)
		H.mapSet(n, e, false)
		return
	}
	i := len(n.elems)
	switch {
	case front:
		i = 0
	case H.rng.Chance(35):
		i = H.rng.Intn(len(n.elems) + 1)
	}
	H.arrInsert(n, i, e)
}

func (H *nH) keepDecision() bool {
	if H.c11 {
		return H.rng.Chance(75)
	}
	return H.rng.Chance(30)
}

func (H *nH) wrapLevels() int {
	if H.rng.Chance(35) {
		return 1 + H.rng.Intn(2)
	}
	return 0
}

// attach inserts outermost container c into q (new slot).
func (H *nH) attach(c, q *nNode) {
	e := &nElem{child: c, w: H.wrapLevels()}
	if q.isMap {
		H.newKeyElem(q, e, true)
		H.mapSet(q, e, false)
	} else {
		H.arrInsert(q, H.rng.Intn(len(q.elems)+1), e)
	}
}

func (H *nH) newChildInto(q *nNode) *nNode {
	c := H.opNew(H.rng.Chance(45))
	for k := H.rng.Intn(3); k > 0; k-- { // creation wrapper used before insertion
		H.insertScalar(c, false, false)
	}
	H.attach(c, q)
	return c
}

func (H *nH) removeAt(n *nNode, i int) *nNode {
	keep := n.elems[i].child != nil && H.keepDecision()
	slotKid := n.elems[i].kid
	var d *nNode
	if n.isMap {
		d = H.mapRemove(n, i, keep)
	} else {
		d = H.arrRemove(n, i, keep)
	}
	if d != nil && !H.failed && H.rng.Chance(50) && n.depth() < nMaxDepth {
		// re-occupy the old position / key with another child
		c := H.opNew(H.rng.Bool())
		e := &nElem{child: c, w: H.wrapLevels()}
		if n.isMap {
			e.kid = slotKid
			e.key = nKeyOf(e.kid)
			ks, err := e.key.Storable(H.st, H.addr, 1<<20)
			H.check(err, "key Storable failed")
			e.ksz = ks.ByteSize()
			H.mapSet(n, e, false)
		} else {
			H.arrInsert(n, i, e)
		}
		H.rep.Event("reoccupy")
	}
	return d
}

func (H *nH) overwriteAt(n *nNode, i int) {
	old := n.elems[i]
	keep := old.child != nil && H.keepDecision()
	var e *nElem
	if n.depth() < nMaxDepth && H.rng.Chance(35) {
		c := H.opNew(H.rng.Bool())
		e = &nElem{child: c, w: H.wrapLevels()}
	} else {
		e = H.scalarFor(n, H.rng.Chance(20))
	}
	if n.isMap {
		e.kid, e.ksz, e.key = old.kid, old.ksz, old.key
		H.mapSet(n, e, keep)
	} else {
		H.arrSet(n, i, e, keep)
	}
}

// iterate p mutably; adopt the yielded wrapper of some children, re-obtain their subtrees through
// it and mutate them inside the callback.
func (H *nH) iterate(p *nNode) {
	H.rep.Op("iterate")
	adopt := func(e *nElem, v atree.Value, loc int64) {
		if e == nil || e.child == nil || !H.rng.Chance(60) {
			return
		}
		c := e.child
		H.emitFlat(12, []int64{int64(c.vid)}, nil)
		H.setWrapper(c, unwrapValueAll(v), nHandleIter)
		H.emitFlat(8, []int64{int64(p.vid), loc}, []*nNode{p, c})
		H.rehandleChildren(c, nHandleIter)
		// mutate inside the callback
		switch {
		case len(c.elems) > 0 && H.rng.Chance(40):
			i := H.rng.Intn(len(c.elems))
			if c.elems[i].child == nil {
				if c.isMap {
					H.mapRemove(c, i, false)
				} else {
					H.arrRemove(c, i, false)
				}
				break
			}
			fallthrough
		default:
			H.insertScalar(c, H.rng.Chance(40), false)
		}
		H.rep.Event("iter_mutation")
	}
	var err error
	if p.isMap {
		err = p.m.Iterate(testutils.CompareValue, testutils.GetHashInput, func(k, v atree.Value) (bool, error) {
			ks, _ := k.(atree.Storable)
			if ks == nil {
				return true, nil
			}
			kid, ok := nKeyID(ks)
			if !ok {
				return true, nil
			}
			if i := p.findKey(kid); i >= 0 {
				adopt(p.elems[i], v, int64(kid))
			}
			return !H.failed, nil
		})
	} else if len(p.elems) > 2 && H.rng.Bool() {
		lo := H.rng.Intn(len(p.elems))
		hi := lo + 1 + H.rng.Intn(len(p.elems)-lo)
		i := lo
		err = p.arr.IterateRange(uint64(lo), uint64(hi), func(v atree.Value) (bool, error) {
			if i < len(p.elems) {
				adopt(p.elems[i], v, int64(i))
			}
			i++
			return !H.failed, nil
		})
	} else {
		i := 0
		err = p.arr.Iterate(func(v atree.Value) (bool, error) {
			if i < len(p.elems) {
				adopt(p.elems[i], v, int64(i))
			}
			i++
			return !H.failed, nil
		})
	}
	if err != nil {
		H.fail("C10: mutable iteration failed", err.Error())
	}
}

// ---------- re-handle ----------

func (H *nH) setWrapper(n *nNode, v atree.Value, kind int) {
	n.hkind = kind
	n.wgen++
	n.cbParent, n.cbGen = n.parent, 0
	if n.parent != nil {
		n.cbGen = n.parent.wgen
	}
	if n.isMap {
		m, ok := v.(*atree.OrderedMap)
		if !ok {
			H.fail("C10: re-obtained child has the wrong kind", fmt.Sprintf("vid %d: %T", n.vid, v))
			panic(nAbort{})
		}
		n.m = m
	} else {
		a, ok := v.(*atree.Array)
		if !ok {
			H.fail("C10: re-obtained child has the wrong kind", fmt.Sprintf("vid %d: %T", n.vid, v))
			panic(nAbort{})
		}
		n.arr = a
	}
}

func (H *nH) rehandleChildren(n *nNode, kind int) {
	for i, e := range n.elems {
		if e.child == nil {
			continue
		}
		var v atree.Value
		var err error
		loc := int64(i)
		if n.isMap {
			v, err = n.m.Get(testutils.CompareValue, testutils.GetHashInput, e.key)
			loc = int64(e.kid)
		} else {
			v, err = n.arr.Get(uint64(i))
		}
		H.check(err, "C10: child cannot be obtained through its parent")
		H.emitFlat(12, []int64{int64(e.child.vid)}, nil)
		H.setWrapper(e.child, unwrapValueAll(v), kind)
		H.emitFlat(8, []int64{int64(n.vid), loc}, []*nNode{n, e.child})
		H.rehandleChildren(e.child, kind)
	}
}

func (H *nH) reopen() {
	H.st = newStorage(H.base)
	H.emitFlat(11, nil, nil)
	for _, r := range H.roots {
		var v atree.Value
		var err error
		if r.isMap {
			v, err = atree.NewMapWithRootID(H.st, r.sid, atree.NewDefaultDigesterBuilder())
		} else {
			v, err = atree.NewArrayWithRootID(H.st, r.sid)
		}
		pfx := "C10: "
		if r.detached {
			pfx = "C11: detached "
		}
		H.check(err, pfx+"container cannot be reopened by its identifier after commit")
		H.setWrapper(r, v, nHandleGet)
		H.emitFlat(12, []int64{int64(r.vid)}, []*nNode{r})
		H.rehandleChildren(r, nHandleGet)
	}
	H.rep.Event("reopen")
}

// commitCheck: commit, then reload everything in a fresh storage over a clone of the ledger.
func (H *nH) commitCheck() {
	if err := H.st.FastCommit(1 + H.rng.Intn(4)); err != nil {
		H.fail("C10: commit failed", err.Error())
		return
	}
	H.rep.Op("commit")
	H.emitFlat(10, nil, H.live())
	fresh := newStorage(H.base.Clone())
	for id := range H.base.Segs {
		if _, _, err := fresh.Retrieve(id); err != nil {
			H.fail("C10: committed register cannot be decoded", fmt.Sprintf("%s: %v", id, err))
			return
		}
	}
	for _, r := range H.roots {
		pfx := "C10: mutation through a child handle was not persisted by the commit: "
		if r.detached {
			pfx = "C11: detached container is not an intact independently stored value: "
		}
		var v atree.Value
		var err error
		if r.isMap {
			v, err = atree.NewMapWithRootID(fresh, r.sid, atree.NewDefaultDigesterBuilder())
		} else {
			v, err = atree.NewArrayWithRootID(fresh, r.sid)
		}
		if err != nil {
			H.fail(pfx+"cannot be reloaded", fmt.Sprintf("vid %d: %v", r.vid, err))
			continue
		}
		was := H.failed
		H.cmpNode(r, v, fmt.Sprintf("reload v%d", r.vid))
		if !was && H.failed {
			// re-label the first violation
			last := &H.rep.Violations[len(H.rep.Violations)-1]
			last.What = pfx + last.What
		}
		var verr error
		if r.isMap {
			verr = atree.VerifyMap(v.(*atree.OrderedMap), H.addr, testutils.NewSimpleTypeInfo(r.ti), testutils.CompareTypeInfo, testutils.GetHashInput, true)
		} else {
			verr = atree.VerifyArray(v.(*atree.Array), H.addr, testutils.NewSimpleTypeInfo(r.ti), testutils.CompareTypeInfo, testutils.GetHashInput, true)
		}
		if verr != nil {
			H.fail(pfx+"reloaded container is not structurally valid", fmt.Sprintf("vid %d: %v", r.vid, verr))
		}
	}
	found, err := atree.CheckStorageHealth(fresh, len(H.roots))
	if err != nil {
		H.fail("C11: storage health check fails with detached containers counted as roots", err.Error())
	} else {
		for _, r := range H.roots {
			if _, ok := found[r.sid]; !ok {
				H.fail("C11: an outermost container is not among the roots found by the health check", fmt.Sprint(r.vid))
			}
		}
	}
}

// ---------- generator ----------

func (H *nH) pickNode(pred func(*nNode) bool) *nNode {
	var cs []*nNode
	for _, n := range H.live() {
		if pred == nil || pred(n) {
			cs = append(cs, n)
		}
	}
	if len(cs) == 0 {
		return nil
	}
	// bias towards deeper containers
	best := cs[H.rng.Intn(len(cs))]
	for k := 0; k < 2; k++ {
		x := cs[H.rng.Intn(len(cs))]
		if x.depth() > best.depth() && H.rng.Chance(70) {
			best = x
		}
	}
	return best
}

func (H *nH) shadowInl(n *nNode) uint32 {
	rootIsData := map[*nNode]bool{}
	for _, x := range H.tree(n, nil) {
		rootIsData[x] = true
	}
	memo := map[*nNode]nSizes{}
	return H.sizes(n, 1<<30, false, memo, rootIsData).inl
}

func (H *nH) burst(c *nNode) {
	e := c.parent.elems[c.parent.slotOf(c)]
	lim := H.slotLimit(c.parent, e)
	sz := H.shadowInl(c)
	if H.focusGrow {
		H.insertScalar(c, true, H.rng.Chance(20))
		if !c.dead && c.parent != nil && !c.inlined() && H.shadowInl(c) > H.focusHi {
			H.focusGrow = false
		}
		return
	}
	// shrink: remove scalar elements (children only when nothing else is left)
	if len(c.elems) == 0 {
		H.focusGrow = true
		H.focusHi = lim + uint32(H.rng.Intn(int(5*lim)+1))
		return
	}
	i := H.rng.Intn(len(c.elems))
	for k := 0; k < 4 && c.elems[i].child != nil; k++ {
		i = H.rng.Intn(len(c.elems))
	}
	H.removeAt(c, i)
	if !c.dead && c.parent != nil && c.inlined() && (sz < lim/2 || H.rng.Chance(25)) {
		H.focusGrow = true
		H.focusHi = lim + uint32(H.rng.Intn(int(5*lim)+1))
	}
}

func (H *nH) doStep() {
	r := H.rng
	if H.focus != nil && (H.focus.dead || H.focus.parent == nil || H.focusLeft <= 0) {
		H.focus = nil
	}
	if H.focus == nil && r.Chance(30) {
		if c := H.pickNode(func(n *nNode) bool { return n.parent != nil }); c != nil {
			H.focus, H.focusLeft, H.focusGrow = c, 12+r.Intn(40), c.inlined()
			e := c.parent.elems[c.parent.slotOf(c)]
			lim := H.slotLimit(c.parent, e)
			H.focusHi = lim + uint32(r.Intn(int(5*lim)+1))
		}
	}
	if H.focus != nil && r.Chance(65) {
		H.focusLeft--
		H.burst(H.focus)
		return
	}
	// C11: prefer containers in detached trees
	var n *nNode
	if H.c11 && r.Chance(35) {
		n = H.pickNode(func(x *nNode) bool { return x.outer().detached })
	}
	if n == nil {
		n = H.pickNode(nil)
	}
	if n == nil {
		H.opNew(r.Bool())
		return
	}
	var detachedRoots, extraRoots []*nNode
	for _, x := range H.roots[1:] {
		extraRoots = append(extraRoots, x)
		if x.detached {
			detachedRoots = append(detachedRoots, x)
		}
	}
	cnt := len(n.elems)
	// write a child back into the slot it already occupies, wrapped as it is stored; the library keeps it
	// attached, nothing changes.  The engine `nested` (Nested.v) has no such operation: in traced histories
	// only with -mode selfset (op code 13 of the engine `nested2`, NestedSelfSet.v); the random stream of
	// traced histories without that mode is unchanged (no draw)
	if (H.tr == nil || H.selfset) && r.Chance(4) {
		if p := H.pickNode(func(x *nNode) bool { return x.hasChild() }); p != nil {
			H.selfSet(p)
			return
		}
	}
	switch r.Pick(26, 12, 10, 20, 1, 2, 12, 7, 4, 3) {
	case 0:
		H.insertScalar(n, r.Chance(25), r.Chance(30))
	case 1:
		if n.depth() < nMaxDepth {
			c := H.newChildInto(n)
			// make deep chains common
			for c != nil && !H.failed && c.depth() < nMaxDepth && r.Chance(55) {
				c = H.newChildInto(c)
			}
		} else {
			H.insertScalar(n, false, true)
		}
	case 2:
		if cnt > 0 {
			H.overwriteAt(n, r.Intn(cnt))
		} else {
			H.insertScalar(n, false, false)
		}
	case 3:
		if cnt > 0 {
			i := r.Intn(cnt)
			if r.Chance(30) {
				i = 0 // shifts every tracked index
			}
			H.removeAt(n, i)
		} else {
			H.insertScalar(n, false, false)
		}
	case 4:
		H.pop(n)
	case 5:
		H.touch(n)
	case 6: // attach an outermost container (detached or freshly created) somewhere
		if len(extraRoots) == 0 {
			H.insertScalar(n, true, true)
			break
		}
		c := extraRoots[r.Intn(len(extraRoots))]
		if len(detachedRoots) > 0 && r.Chance(70) {
			c = detachedRoots[r.Intn(len(detachedRoots))]
		}
		q := H.pickNode(func(x *nNode) bool { return !c.contains(x) && x.depth()+c.height() <= nMaxDepth })
		if q != nil {
			H.attach(c, q)
		}
	case 7:
		if p := H.pickNode(func(x *nNode) bool { return x.hasChild() }); p != nil {
			H.iterate(p)
		}
	case 8: // restructure a parent in front of a tracked child
		if p := H.pickNode(func(x *nNode) bool { return !x.isMap && x.hasChild() }); p != nil {
			if r.Chance(60) || p.elems[0].child != nil {
				H.insertScalar(p, r.Chance(30), true)
			} else {
				H.removeAt(p, 0)
			}
		}
	case 9: // dispose of a detached container
		if len(H.roots) > 4 || (len(detachedRoots) > 0 && r.Chance(30)) {
			if len(extraRoots) > 0 {
				c := extraRoots[r.Intn(len(extraRoots))]
				if H.focus != nil && c.contains(H.focus) {
					H.focus = nil
				}
				H.dispose(atree.SlabIDStorable(c.sid))
				H.dropRoot(c)
				H.markDead(c)
				H.rep.Op("dispose_root")
			}
		}
	}
}

func cmdNested(a Args) {
	prop := a.Prop
	if prop == "" {
		prop = "C10"
	}
	rep := NewReport(prop, a.Seed)
	rep.Rule = "random forests of nested arrays/maps (depth <= 4, SomeValue wrappers, slab sizes {256,300,512,1024}) mutated through live child handles (creation wrapper, Get after commit+reopen, mutable iteration), children driven across the inline limit in both directions, parents restructured, children detached/mutated/re-attached; non-trivial = at least one inline->standalone and one standalone->inline transition through a child handle" +
		map[bool]string{true: " and one mutation of a detached child", false: ""}[prop == "C11"]
	// trace: every history by default; with more than 400 histories only the first 400 (a trace line
	// set is ~150 KB per history) unless -mode fulltrace; -mode notrace writes none;
	// -mode selfset / selfset+fulltrace: the same with self-sets in traced histories (engine nested2)
	var trAll *Trace
	traceMax := 400
	selfset := a.Mode == "selfset" || a.Mode == "selfset+fulltrace"
	if a.Mode == "fulltrace" || a.Mode == "selfset+fulltrace" {
		traceMax = a.N
	}
	if a.Mode != "notrace" {
		trAll = NewTrace(a.Out + "/trace.txt")
	}
	rng := NewRng(a.Seed)
	sizes := []uint32{256, 300, 512, 1024}
	defer atree.VerifSetThreshold(1024)
	consts := map[string]uint32{}
	for _, c := range atree.VerifConsts() {
		consts[c.Name] = uint32(c.Val)
	}
	var wp [3]uint32
	wp[1] = testutils.SomeStorable{Storable: testutils.Uint64Value(0)}.ByteSize() - testutils.Uint64Value(0).ByteSize()
	wp[2] = testutils.SomeStorable{Storable: testutils.SomeStorable{Storable: testutils.Uint64Value(0)}}.ByteSize() - testutils.Uint64Value(0).ByteSize()
	tot := struct{ toS, toI, detMut, det, att, spl, mrg, maxDepth int }{}
	for h := 0; h < a.N; h++ {
		hr := rng.Fork(uint64(h))
		tag := fmt.Sprintf("h%d", h)
		if !want(tag) {
			continue
		}
		tr := trAll
		if h >= traceMax {
			tr = nil
		}
		T := sizes[hr.Intn(len(sizes))]
		set := atree.VerifSetThreshold(T)
		H := &nH{h: h, tag: tag, T: T, arrLim: set[3], mapLim: set[4], wp: wp, c: consts, base: NewLogBase(),
			addr: mkAddr(1 + uint64(hr.Intn(3))), rng: hr, rep: rep, tr: tr, c11: prop == "C11" || hr.Chance(25), selfset: selfset}
		H.st = newStorage(H.base)
		if tr != nil {
			tr.Hist(tag, uint64(T), uint64(H.arrLim), uint64(H.mapLim), uint64(wp[1]), uint64(wp[2]),
				uint64(consts["inlinedArrayDataSlabPrefixSize"]), uint64(consts["inlinedMapDataSlabPrefixSize"]),
				uint64(consts["hkeyElementsPrefixSize"]), uint64(consts["digestSize"]+consts["singleElementPrefixSize"]),
				uint64(consts["slabIDStorableSize"]), 16)
		}
		func() {
			defer func() {
				if r := recover(); r != nil {
					if _, ok := r.(nAbort); !ok {
						H.fail("C10: panic in the implementation", fmt.Sprint(r))
					}
				}
			}()
			root := H.opNew(hr.Bool())
			// start with a chain so that depth >= 3 is common
			c := root
			for k := 0; k < 1+hr.Intn(3) && c.depth() < nMaxDepth; k++ {
				c = H.newChildInto(c)
			}
			H.checkAll()
			for H.step = 0; H.step < a.Steps && !H.failed; H.step++ {
				H.doStep()
				H.checkAll()
				H.sinceCheck++
				if H.sinceCheck >= 8+hr.Intn(5) && !H.failed {
					H.sinceCheck = 0
					H.commitCheck()
					if !H.failed && hr.Chance(35) {
						H.reopen()
						H.checkAll()
					}
				}
			}
			if !H.failed {
				H.commitCheck()
			}
			if !H.failed {
				for _, r := range H.roots {
					H.dispose(atree.SlabIDStorable(r.sid))
				}
				H.roots = nil
				if err := H.st.FastCommit(1); err != nil {
					H.fail("C10: final commit failed", err.Error())
				} else if len(H.base.Segs) != 0 {
					H.fail("C11: slabs remain after every container (attached and detached) was disposed of", fmt.Sprint(H.base.SortedIDs()))
				}
			}
		}()
		rep.Histories++
		rep.Steps += H.step
		rep.EventN("inline_to_standalone", H.toStandalone)
		rep.EventN("standalone_to_inline", H.toInline)
		rep.EventN("detached_child_mutation", H.detachedMut)
		rep.EventN("parent_split_while_handle_live", H.splitsLive)
		rep.EventN("parent_merge_while_handle_live", H.mergesLive)
		for k, c := range H.kinds {
			rep.EventN("child_op_via_"+nHandleNames[k]+"_handle", c)
		}
		rep.Event(fmt.Sprintf("max_depth_%d", H.maxDepth))
		if H.toStandalone > 0 && H.toInline > 0 && (prop != "C11" || H.detachedMut > 0) {
			rep.Distinct(tag)
		}
		tot.toS += H.toStandalone
		tot.toI += H.toInline
		if H.failed && len(rep.Samples) < 3 {
			rep.Sample(fmt.Sprintf("%s failed at step %d (T=%d)", tag, H.step, T))
		}
	}
	if trAll != nil {
		trAll.Close()
	}
	rep.Write(a.Out + "/report.json")
}
