//go:build verif

package main

// errors_cmd.go — property C18: rejected requests are categorised and leave no trace.
// Model-independent oracles on the real implementation:
//   1. maps (table-driven and default digester): absent keys, inserts beyond the collision limit;
//   2. nested forests: rejected requests on child containers leave child, ancestors, write set alone;
//   3. twins: the history and the history without its rejected requests commit identical registers;
//   4. the undefined identifier;
//   5. failing caller-supplied components (comparator, hash-input provider, digester, ledger read)
//      at EVERY call index of a lookup: ExternalError, nothing changed; ledger faults during the
//      descent of a mutation leave no trace;
//   6. the categories of all constructors of errors.go against the specification.
// Out-of-range requests on plain arrays are also covered by array_cmd.go; here they appear in
// the twins and in the nested forests.

import (
	"errors"
	"fmt"
	"sort"
	"strings"

	"github.com/onflow/atree"
	testutils "github.com/onflow/atree/test_utils"
)

func init() { register("errors", cmdErrors) }

// ---------- run context ----------

type ercRun struct {
	rep  *Report
	hist int
	tag  string
	step int
	nRej int // rejected requests checked in this history
}

func (r *ercRun) viol(what, detail string) {
	r.rep.Violate(r.hist, r.tag, r.step, what, clip(detail, 700))
}

// ercCall runs f, turning a panic of the library into an observation.
func ercCall(f func() error) (err error, panicked string) {
	defer func() {
		if p := recover(); p != nil {
			panicked = fmt.Sprint(p)
		}
	}()
	return f(), ""
}

// ---------- everything a rejected request must leave untouched ----------

type ercSnap struct {
	dump   string // VerifDeepDump of every root
	counts string // Count() of the watched containers
	deltas uint   // storage.Deltas()
	keys   string // delta key set with nil-ness
	alloc  uint64 // last slab index handed out for the address
	writes int    // ledger Store/Remove calls so far
}

type ercWatch struct {
	st    func() *atree.PersistentSlabStorage
	base  *LogBase
	addr  atree.Address
	roots func() []atree.Value // outermost containers
	extra func() []atree.Value // further containers whose Count() is watched (the child under test)
}

func ercCount(v atree.Value) uint64 {
	switch x := v.(type) {
	case *atree.Array:
		return x.Count()
	case *atree.OrderedMap:
		return x.Count()
	}
	return 0
}

func (w *ercWatch) snap() ercSnap {
	var sb, cs strings.Builder
	st := w.st()
	for _, r := range w.roots() {
		d, err := atree.VerifDeepDump(st, r)
		sb.WriteString(d)
		if err != nil {
			sb.WriteString("!" + err.Error())
		}
		sb.WriteByte('\n')
		fmt.Fprintf(&cs, "%d,", ercCount(r))
	}
	if w.extra != nil {
		for _, r := range w.extra() {
			fmt.Fprintf(&cs, "%d,", ercCount(r))
		}
	}
	dk, _ := atree.VerifStorageKeys(st)
	ids := make([]string, 0, len(dk))
	for k, v := range dk {
		ids = append(ids, fmt.Sprintf("%s:%v", k, v))
	}
	sort.Strings(ids)
	nw := 0
	for _, c := range w.base.Log {
		if c.Kind != 'R' {
			nw++
		}
	}
	return ercSnap{dump: sb.String(), counts: cs.String(), deltas: st.Deltas(), keys: strings.Join(ids, " "), alloc: w.base.LastIndex(w.addr), writes: nw}
}

func ercSnapDiff(a, b ercSnap) string {
	var d []string
	if a.dump != b.dump {
		i := 0
		for i < len(a.dump) && i < len(b.dump) && a.dump[i] == b.dump[i] {
			i++
		}
		lo := i - 60
		if lo < 0 {
			lo = 0
		}
		d = append(d, fmt.Sprintf("slab tree differs at byte %d: %q vs %q", i, clip(a.dump[lo:], 160), clip(b.dump[lo:], 160)))
	}
	if a.counts != b.counts {
		d = append(d, fmt.Sprintf("Count() %s -> %s", a.counts, b.counts))
	}
	if a.deltas != b.deltas {
		d = append(d, fmt.Sprintf("Deltas() %d -> %d", a.deltas, b.deltas))
	}
	if a.keys != b.keys {
		d = append(d, fmt.Sprintf("write-set keys [%s] -> [%s]", clip(a.keys, 200), clip(b.keys, 200)))
	}
	if a.alloc != b.alloc {
		d = append(d, fmt.Sprintf("allocator %d -> %d", a.alloc, b.alloc))
	}
	if a.writes != b.writes {
		d = append(d, fmt.Sprintf("ledger writes %d -> %d", a.writes, b.writes))
	}
	return strings.Join(d, "; ")
}

// ercIsType: errors.As against the specific error type named by the cause.
func ercIsType(err error, typ string) bool {
	switch typ {
	case "IndexOutOfBoundsError":
		var e *atree.IndexOutOfBoundsError
		return errors.As(err, &e)
	case "SliceOutOfBoundsError":
		var e *atree.SliceOutOfBoundsError
		return errors.As(err, &e)
	case "InvalidSliceIndexError":
		var e *atree.InvalidSliceIndexError
		return errors.As(err, &e)
	case "KeyNotFoundError":
		var e *atree.KeyNotFoundError
		return errors.As(err, &e)
	case "CollisionLimitError":
		var e *atree.CollisionLimitError
		return errors.As(err, &e)
	case "SlabIDError":
		var e *atree.SlabIDError
		return errors.As(err, &e)
	case "SlabNotFoundError":
		var e *atree.SlabNotFoundError
		return errors.As(err, &e)
	}
	return false
}

// rejected performs a request that must be refused and checks cause, category and "no trace".
// Returns the error (nil if the request was accepted, which is itself reported).
func (r *ercRun) rejected(w *ercWatch, what, wantType string, f func() error) error {
	r.rep.Op("rejected." + what)
	before := w.snap()
	err, pan := ercCall(f)
	after := w.snap()
	r.nRej++
	r.step++
	if pan != "" {
		r.viol("C18: "+what+": the implementation panicked instead of returning an error", pan)
		return errors.New("panic")
	}
	if err == nil {
		r.viol("C18: "+what+" was not rejected", "want "+wantType)
		return nil
	}
	r.rep.Err(wantType)
	if !ercIsType(err, wantType) {
		r.viol("C18: "+what+" is not reported as "+wantType, fmt.Sprintf("%T: %v", err, err))
	}
	if want := ercExpected[wantType]; ercAsCategory(err) != want {
		r.viol("C18: "+what+": "+wantType+" does not carry the category "+want+"Error", "errors.As finds: "+ercAsCategory(err))
	}
	if d := ercSnapDiff(before, after); d != "" {
		r.viol("C18: rejected "+what+" left a trace", d)
	}
	return err
}

// unchanged runs a request that must not change anything (Has of an absent key, failed lookups).
func (r *ercRun) unchanged(w *ercWatch, what string, f func()) {
	before := w.snap()
	_, pan := ercCall(func() error { f(); return nil })
	after := w.snap()
	if pan != "" {
		r.viol("C18: "+what+": the implementation panicked", pan)
	}
	if d := ercSnapDiff(before, after); d != "" {
		r.viol("C18: "+what+" left a trace", d)
	}
}

// ---------- table-driven digester with fault injection ----------

const ercLevels = 4

var (
	errErcCmp    = errors.New("injected comparator failure")
	errErcHip    = errors.New("injected hash-input failure")
	errErcDigest = errors.New("injected digester failure")
)

// ercFaults counts calls of the caller-supplied components and fails the chosen ones.
type ercFaults struct {
	nCmp, nHip, nDig          int
	failCmp, failHip, failDig int  // index of the call to fail; -1 = never
	sticky                    bool // fail every call from the index on
}

func newErcFaults() *ercFaults { return &ercFaults{failCmp: -1, failHip: -1, failDig: -1} }

func (f *ercFaults) reset() {
	f.nCmp, f.nHip, f.nDig = 0, 0, 0
	f.failCmp, f.failHip, f.failDig, f.sticky = -1, -1, -1, false
}

func (f *ercFaults) hit(n *int, at int) bool {
	k := *n
	*n++
	return at >= 0 && (k == at || (f.sticky && k > at))
}

func (f *ercFaults) cmp(st atree.SlabStorage, v atree.Value, s atree.Storable) (bool, error) {
	if f.hit(&f.nCmp, f.failCmp) {
		return false, errErcCmp
	}
	return testutils.CompareValue(st, v, s)
}

func (f *ercFaults) hip(v atree.Value, buf []byte) ([]byte, error) {
	if f.hit(&f.nHip, f.failHip) {
		return nil, errErcHip
	}
	return testutils.GetHashInput(v, buf)
}

type ercBuilder struct {
	table map[string][ercLevels]uint64
	f     *ercFaults
}

type ercDigester struct {
	d [ercLevels]uint64
	f *ercFaults
}

func (b *ercBuilder) SetSeed(_ uint64, _ uint64) {}

func (b *ercBuilder) Digest(hip atree.HashInputProvider, v atree.Value) (atree.Digester, error) {
	// like the built-in builder, ask the hash-input provider first and hand its error back as it is
	var scratch [32]byte
	if _, err := hip(v, scratch[:]); err != nil {
		return nil, err
	}
	d, ok := b.table[keyStr(v)]
	if !ok {
		return nil, fmt.Errorf("errors harness: key %v has no digests", v)
	}
	return &ercDigester{d: d, f: b.f}, nil
}

func (g *ercDigester) DigestPrefix(level uint) ([]atree.Digest, error) {
	if level > ercLevels {
		return nil, atree.NewHashLevelErrorf("cannot get digest < level %d: level must be [0, %d]", level, ercLevels)
	}
	var p []atree.Digest
	for i := uint(0); i < level; i++ {
		p = append(p, atree.Digest(g.d[i]))
	}
	return p, nil
}

func (g *ercDigester) Digest(level uint) (atree.Digest, error) {
	if level >= ercLevels {
		return 0, atree.NewHashLevelErrorf("cannot get digest at level %d: level must be [0, %d)", level, ercLevels)
	}
	if g.f != nil && g.f.hit(&g.f.nDig, g.f.failDig) {
		return 0, errErcDigest
	}
	return atree.Digest(g.d[level]), nil
}

func (g *ercDigester) Reset()       {}
func (g *ercDigester) Levels() uint { return ercLevels }

// ---------- values ----------

type ercVal struct {
	str bool
	n   uint64
	s   string
}

func (v ercVal) value() atree.Value {
	if v.str {
		return testutils.NewStringValue(v.s)
	}
	return testutils.Uint64Value(v.n)
}

func ercRandVal(rng *Rng, large bool) ercVal {
	switch rng.Pick(55, 30, 15) {
	case 0:
		return ercVal{n: rng.U64() >> uint(rng.Intn(60))}
	case 1:
		return ercVal{str: true, s: randStr(rng, 1+rng.Intn(20))}
	default:
		if large {
			return ercVal{str: true, s: randStr(rng, int(atree.MaxInlineMapElementSize())+rng.Intn(200))}
		}
		return ercVal{str: true, s: randStr(rng, 20+rng.Intn(20))}
	}
}

// ercDispose removes what a returned storable owns (values here are scalars or large strings).
func ercDispose(st *atree.PersistentSlabStorage, s atree.Storable) {
	if s == nil {
		return
	}
	if sid, ok := unwrapStorableAll(s).(atree.SlabIDStorable); ok {
		_ = st.Remove(atree.SlabID(sid))
	}
}

// ---------- map histories (kinds mapT, mapD) ----------

const (
	ercSet = iota
	ercRemove
	ercGet
	ercHas
	ercCommit
	ercReopen
)

type ercMapOp struct {
	kind     int
	key      atree.Value
	val      ercVal
	rejected bool
}

type ercMapEnv struct {
	base    *LogBase
	st      *atree.PersistentSlabStorage
	m       *atree.OrderedMap
	addr    atree.Address
	table   map[string][ercLevels]uint64 // nil: default digester
	faults  *ercFaults
	tinfo   atree.TypeInfo
	nReopen int
}

func (e *ercMapEnv) builder() atree.DigesterBuilder {
	if e.table == nil {
		return atree.NewDefaultDigesterBuilder()
	}
	return &ercBuilder{table: e.table, f: e.faults}
}

func newErcMapEnv(table map[string][ercLevels]uint64) *ercMapEnv {
	e := &ercMapEnv{base: NewLogBase(), addr: mkAddr(7), table: table, faults: newErcFaults(), tinfo: testutils.NewSimpleTypeInfo(51)}
	e.st = newStorage(e.base)
	m, err := atree.NewMap(e.st, e.addr, e.builder(), e.tinfo)
	must(err)
	e.m = m
	return e
}

func (e *ercMapEnv) watch() *ercWatch {
	return &ercWatch{st: func() *atree.PersistentSlabStorage { return e.st }, base: e.base, addr: e.addr,
		roots: func() []atree.Value { return []atree.Value{e.m} }}
}

// exec performs one operation; the error is the library's answer.
func (e *ercMapEnv) exec(op *ercMapOp) error {
	cmp, hip := atree.ValueComparator(e.faults.cmp), atree.HashInputProvider(e.faults.hip)
	switch op.kind {
	case ercSet:
		old, err := e.m.Set(cmp, hip, op.key, op.val.value())
		if err == nil {
			ercDispose(e.st, old)
		}
		return err
	case ercRemove:
		k, v, err := e.m.Remove(cmp, hip, op.key)
		if err == nil {
			ercDispose(e.st, k)
			ercDispose(e.st, v)
		}
		return err
	case ercGet:
		_, err := e.m.Get(cmp, hip, op.key)
		return err
	case ercHas:
		_, err := e.m.Has(cmp, hip, op.key)
		return err
	case ercCommit:
		return e.st.FastCommit(2)
	case ercReopen:
		if err := e.st.FastCommit(2); err != nil {
			return err
		}
		id := e.m.SlabID()
		e.st = newStorage(e.base)
		m, err := atree.NewMapWithRootID(e.st, id, e.builder())
		if err != nil {
			return err
		}
		e.m = m
		e.nReopen++
		return nil
	}
	return nil
}

// the shadow: live keys with their digest vectors (table mode) — enough to predict every answer
type ercShadow struct {
	live  map[string]atree.Value
	order []string
	table map[string][ercLevels]uint64
	limit uint32
}

func (s *ercShadow) has(k atree.Value) bool { _, ok := s.live[keyStr(k)]; return ok }

// fanout: number of distinct second-level digests among the live keys sharing the first-level digest
func (s *ercShadow) fanout(d0 uint64) int {
	seen := map[uint64]bool{}
	for ks := range s.live {
		d := s.table[ks]
		if d[0] == d0 {
			seen[d[1]] = true
		}
	}
	return len(seen)
}

// refused: the collision-limit criterion (validated in the design spikes, proved as C12_limit_enforced)
func (s *ercShadow) refused(k atree.Value) bool {
	if s.table == nil || s.has(k) {
		return false
	}
	f := s.fanout(s.table[keyStr(k)][0])
	return f >= 1 && uint32(f-1) >= s.limit
}

func (s *ercShadow) add(k atree.Value) {
	ks := keyStr(k)
	if _, ok := s.live[ks]; !ok {
		s.live[ks] = k
		s.order = append(s.order, ks)
	}
}

func (s *ercShadow) del(k atree.Value) {
	ks := keyStr(k)
	delete(s.live, ks)
	for i, x := range s.order {
		if x == ks {
			s.order = append(s.order[:i], s.order[i+1:]...)
			break
		}
	}
}

func (s *ercShadow) pick(rng *Rng) atree.Value {
	if len(s.order) == 0 {
		return nil
	}
	return s.live[s.order[rng.Intn(len(s.order))]]
}

// mapHistory runs one map history with rejected requests interleaved, then its twin without them.
func (r *ercRun) mapHistory(rng *Rng, tableMode bool, steps int) {
	T := []uint32{256, 256, 512, 1024}[rng.Intn(4)]
	atree.VerifSetThreshold(T)
	defer atree.VerifSetThreshold(1024)
	limit := uint32(255)
	if tableMode {
		limit = []uint32{0, 1, 2, 3, 255}[rng.Intn(5)]
	}
	atree.VerifSetMaxCollisionLimitPerDigest(limit)
	defer atree.VerifSetMaxCollisionLimitPerDigest(255)

	var table map[string][ercLevels]uint64
	nextKey := uint64(1)
	var a0 []uint64
	if tableMode {
		table = map[string][ercLevels]uint64{}
		n0 := 6 + rng.Intn(40)
		for i := 0; i < n0; i++ {
			a0 = append(a0, uint64(100+i*10)) // gaps below, between and above the stored digests
		}
	}
	// newKey makes a fresh key; in table mode with the given digest vector
	newKey := func(d [ercLevels]uint64) atree.Value {
		var k atree.Value
		if nextKey%4 == 0 {
			k = testutils.NewStringValue(fmt.Sprintf("k%d", nextKey))
		} else {
			k = testutils.Uint64Value(nextKey)
		}
		nextKey++
		if table != nil {
			table[keyStr(k)] = d
		}
		return k
	}
	randDigests := func() [ercLevels]uint64 {
		return [ercLevels]uint64{a0[rng.Intn(len(a0))], uint64(1 + rng.Intn(4)), uint64(1 + rng.Intn(2)), uint64(1 + rng.Intn(2))}
	}

	env := newErcMapEnv(table)
	sh := &ercShadow{live: map[string]atree.Value{}, table: table, limit: limit}
	w := env.watch()
	var ops []*ercMapOp
	var dead []atree.Value // removed keys (their digests stay in the table)
	inj := rng.Fork(977)

	do := func(op *ercMapOp, wantErrType string) {
		ops = append(ops, op)
		name := []string{"map.Set", "map.Remove", "map.Get", "map.Has", "commit", "reopen"}[op.kind]
		if wantErrType != "" {
			what := name + " of an absent key"
			if wantErrType == "CollisionLimitError" {
				what = name + " beyond the collision limit"
			}
			err := r.rejected(w, what, wantErrType, func() error { return env.exec(op) })
			op.rejected = err != nil
			return
		}
		r.rep.Op(name)
		r.step++
		err, pan := ercCall(func() error { return env.exec(op) })
		if pan != "" {
			r.viol("C18: "+name+" panicked", pan)
			op.rejected = true
			return
		}
		if err != nil {
			op.rejected = true
			r.viol("C18: a valid "+name+" was rejected", fmt.Sprintf("%v: %v", op.key, err))
		}
	}

	// probe: an absent key placed relative to the stored digests
	probe := func() atree.Value {
		if table == nil || len(sh.order) == 0 {
			if len(dead) > 0 && inj.Chance(30) {
				k := dead[inj.Intn(len(dead))]
				if !sh.has(k) {
					return k
				}
			}
			return newKey([ercLevels]uint64{})
		}
		ref := table[keyStr(sh.pick(inj))]
		min0, max0 := a0[0], a0[len(a0)-1]
		switch inj.Intn(9) {
		case 0:
			return newKey([ercLevels]uint64{min0 - 1 - uint64(inj.Intn(50)), 1, 1, 1}) // below every stored digest
		case 1:
			return newKey([ercLevels]uint64{max0 + 1 + uint64(inj.Intn(50)), 1, 1, 1}) // above
		case 2:
			return newKey([ercLevels]uint64{ref[0] + 1 + uint64(inj.Intn(8)), 1, 1, 1}) // between
		case 3:
			return newKey([ercLevels]uint64{ref[0], 90 + uint64(inj.Intn(5)), 1, 1}) // collides at level 0
		case 4:
			return newKey([ercLevels]uint64{ref[0], ref[1], 90, 1}) // levels 0-1
		case 5:
			return newKey([ercLevels]uint64{ref[0], ref[1], ref[2], 90}) // levels 0-2
		case 6:
			return newKey(ref) // all four levels: list mode
		case 7:
			if len(dead) > 0 {
				k := dead[inj.Intn(len(dead))]
				if !sh.has(k) {
					return k
				}
			}
			return newKey(ref)
		default:
			return newKey([ercLevels]uint64{0, 0, 0, 0})
		}
	}

	nInject := 20 + inj.Intn(6)
	injectAt := map[int]int{}
	for i := 0; i < nInject; i++ {
		injectAt[inj.Intn(steps)]++
	}
	injectOne := func() {
		// a Set that the limit must refuse, if the state offers one
		if table != nil && inj.Chance(40) && len(sh.order) > 0 {
			for try := 0; try < 8; try++ {
				ref := table[keyStr(sh.pick(inj))]
				if f := sh.fanout(ref[0]); f >= 1 && uint32(f-1) >= limit {
					d := [ercLevels]uint64{ref[0], 200 + uint64(inj.Intn(50)), 1, 1}
					if inj.Bool() {
						d = ref // same digests on all levels, different key
					}
					k := newKey(d)
					do(&ercMapOp{kind: ercSet, key: k, val: ercRandVal(inj, true)}, "CollisionLimitError")
					return
				}
			}
		}
		k := probe()
		switch inj.Intn(3) {
		case 0:
			do(&ercMapOp{kind: ercGet, key: k}, "KeyNotFoundError")
		case 1:
			do(&ercMapOp{kind: ercRemove, key: k}, "KeyNotFoundError")
		default:
			// Has of an absent key is answered "false": not an error, and it must not change anything
			op := &ercMapOp{kind: ercHas, key: k, rejected: true} // left out of the twin as well
			ops = append(ops, op)
			r.rep.Op("map.Has(absent)")
			r.unchanged(w, "map.Has of an absent key", func() {
				ok, err := env.m.Has(env.faults.cmp, env.faults.hip, k)
				if err != nil || ok {
					r.viol("C18: Has of an absent key did not answer false", fmt.Sprint(ok, err))
				}
			})
			r.nRej++
			r.step++
		}
	}

	for i := 0; i < steps; i++ {
		for n := injectAt[i]; n > 0; n-- {
			injectOne()
		}
		switch op := rng.Pick(50, 22, 12, 6, 6, 4); {
		case op == 0 || len(sh.order) == 0:
			var k atree.Value
			if len(sh.order) > 0 && rng.Chance(25) {
				k = sh.pick(rng) // update
			} else if table != nil {
				k = newKey(randDigests())
			} else {
				k = newKey([ercLevels]uint64{})
			}
			o := &ercMapOp{kind: ercSet, key: k, val: ercRandVal(rng, true)}
			if sh.refused(k) {
				do(o, "CollisionLimitError") // the random stream ran into the limit by itself
			} else {
				do(o, "")
				if !o.rejected {
					sh.add(k)
				}
			}
		case op == 1:
			k := sh.pick(rng)
			o := &ercMapOp{kind: ercRemove, key: k}
			do(o, "")
			if !o.rejected {
				sh.del(k)
				dead = append(dead, k)
			}
		case op == 2:
			do(&ercMapOp{kind: ercGet, key: sh.pick(rng)}, "")
		case op == 3:
			do(&ercMapOp{kind: ercHas, key: sh.pick(rng)}, "")
		case op == 4:
			do(&ercMapOp{kind: ercCommit}, "")
		default:
			do(&ercMapOp{kind: ercReopen}, "")
		}
		if env.m.Count() != uint64(len(sh.order)) {
			r.viol("C18: Count() differs from the number of accepted insertions", fmt.Sprintf("%d vs %d", env.m.Count(), len(sh.order)))
			break
		}
	}
	for n := injectAt[steps]; n > 0; n-- {
		injectOne()
	}
	if err := atree.VerifyMap(env.m, env.addr, env.tinfo, testutils.CompareTypeInfo, testutils.GetHashInput, true); err != nil && table == nil {
		// (with the table digester VerifyMap recomputes digests through the builder, which works as well;
		// it is only reported for the default digester to keep this oracle independent of the table)
		r.viol("C18: VerifyMap fails after a history with rejected requests", err.Error())
	}
	must(env.st.FastCommit(2))

	// twin: the same history without the rejected requests
	twin := newErcMapEnv(table)
	for _, op := range ops {
		if op.rejected {
			continue
		}
		err, pan := ercCall(func() error { return twin.exec(op) })
		if err != nil || pan != "" {
			r.viol("C18: a request accepted in the history is refused in the history without the rejected requests", fmt.Sprint(op.kind, op.key, err, pan))
			return
		}
	}
	must(twin.st.FastCommit(2))
	if d := SameRegisters(env.base, twin.base); d != "" {
		r.viol("C18: the history with rejected requests and the history without them commit different registers", d)
	}
	if env.base.LastIndex(env.addr) != twin.base.LastIndex(twin.addr) {
		r.viol("C18: rejected requests consumed slab identifiers", fmt.Sprintf("%d vs %d", env.base.LastIndex(env.addr), twin.base.LastIndex(twin.addr)))
	}
	nd, _ := atree.VerifMapDataSlabCount(env.m)
	mode := "default"
	if tableMode {
		mode = "table"
	}
	r.rep.Distinct(fmt.Sprintf("map/%s/T%d/L%d/slabs%d/keys%d/rej%d", mode, T, limit, nd, len(sh.order)/8, r.nRej/4))
	r.rep.Sample(fmt.Sprintf("%s: map %s digester, slab size %d, limit %d, %d ops, %d rejected, %d keys in %d data slabs, %d reopen; twin registers identical",
		r.tag, mode, T, limit, len(ops), r.nRej, len(sh.order), nd, env.nReopen))
}

// ---------- array histories with twins ----------

type ercArrOp struct {
	kind     int // 0 insert 1 set 2 remove 3 commit 4 reopen 5 append
	i        uint64
	val      ercVal
	rejected bool
}

type ercArrEnv struct {
	base  *LogBase
	st    *atree.PersistentSlabStorage
	a     *atree.Array
	addr  atree.Address
	tinfo atree.TypeInfo
}

func newErcArrEnv() *ercArrEnv {
	e := &ercArrEnv{base: NewLogBase(), addr: mkAddr(9), tinfo: testutils.NewSimpleTypeInfo(41)}
	e.st = newStorage(e.base)
	a, err := atree.NewArray(e.st, e.addr, e.tinfo)
	must(err)
	e.a = a
	return e
}

func (e *ercArrEnv) exec(op *ercArrOp) error {
	switch op.kind {
	case 0:
		return e.a.Insert(op.i, op.val.value())
	case 5:
		return e.a.Append(op.val.value())
	case 1:
		old, err := e.a.Set(op.i, op.val.value())
		if err == nil {
			ercDispose(e.st, old)
		}
		return err
	case 2:
		old, err := e.a.Remove(op.i)
		if err == nil {
			ercDispose(e.st, old)
		}
		return err
	case 3:
		return e.st.FastCommit(2)
	case 4:
		if err := e.st.FastCommit(2); err != nil {
			return err
		}
		id := e.a.SlabID()
		e.st = newStorage(e.base)
		a, err := atree.NewArrayWithRootID(e.st, id)
		if err != nil {
			return err
		}
		e.a = a
	}
	return nil
}

func ercArrVal(rng *Rng) ercVal {
	switch rng.Pick(50, 35, 15) {
	case 0:
		return ercVal{n: rng.U64() >> uint(rng.Intn(60))}
	case 1:
		return ercVal{str: true, s: randStr(rng, 1+rng.Intn(30))}
	default:
		return ercVal{str: true, s: randStr(rng, int(atree.MaxInlineArrayElementSize())+rng.Intn(200))} // its own slab
	}
}

var ercBeyond = []uint64{0, 1, 2, 7, 1 << 16, 1 << 32, 1 << 63}

// ercArrayRejects issues one invalid request of a random kind on the array (count n).
func (r *ercRun) arrayReject(w *ercWatch, a *atree.Array, inj *Rng, where string) {
	n := a.Count()
	over := n + ercBeyond[inj.Intn(len(ercBeyond))]
	if inj.Chance(10) {
		over = ^uint64(0) - uint64(inj.Intn(3))
	}
	if over < n { // wrapped
		over = ^uint64(0)
	}
	v := ercArrVal(inj).value()
	nop := func(atree.Value) (bool, error) { return true, nil }
	switch inj.Intn(9) {
	case 0:
		r.rejected(w, where+"Get out of range", "IndexOutOfBoundsError", func() error { _, err := a.Get(over); return err })
	case 1:
		r.rejected(w, where+"Set out of range", "IndexOutOfBoundsError", func() error { _, err := a.Set(over, v); return err })
	case 2:
		if over == n {
			over++
		}
		r.rejected(w, where+"Insert out of range", "IndexOutOfBoundsError", func() error { return a.Insert(over, v) })
	case 3:
		r.rejected(w, where+"Remove out of range", "IndexOutOfBoundsError", func() error { _, err := a.Remove(over); return err })
	case 4:
		if over == n {
			over++
		}
		s, e := over, over
		if inj.Bool() {
			s = uint64(inj.Intn(int(n%1000) + 1))
			if s > n {
				s = n
			}
		}
		r.rejected(w, where+"RangeIterator out of bounds", "SliceOutOfBoundsError", func() error { _, err := a.RangeIterator(s, e); return err })
	case 5:
		if over == n {
			over++
		}
		r.rejected(w, where+"ReadOnlyRangeIterator out of bounds", "SliceOutOfBoundsError", func() error { _, err := a.ReadOnlyRangeIterator(over, over+0); return err })
	case 6:
		if over == n {
			over++
		}
		r.rejected(w, where+"IterateRange out of bounds", "SliceOutOfBoundsError", func() error { return a.IterateRange(0, over, nop) })
	case 7:
		if n == 0 {
			r.rejected(w, where+"Get out of range", "IndexOutOfBoundsError", func() error { _, err := a.Get(0); return err })
			return
		}
		e := uint64(inj.Intn(int(n % 100000)))
		if e >= n {
			e = n - 1
		}
		s := e + 1 + uint64(inj.Intn(int(n-e)))
		if s > n {
			s = n
		}
		r.rejected(w, where+"RangeIterator with start > end", "InvalidSliceIndexError", func() error { _, err := a.RangeIterator(s, e); return err })
	default:
		if n == 0 {
			r.rejected(w, where+"Remove out of range", "IndexOutOfBoundsError", func() error { _, err := a.Remove(0); return err })
			return
		}
		r.rejected(w, where+"IterateReadOnlyRange with start > end", "InvalidSliceIndexError", func() error { return a.IterateReadOnlyRange(n, n-1, nop) })
	}
}

func (r *ercRun) arrayHistory(rng *Rng, steps int) {
	T := []uint32{256, 256, 512, 1024}[rng.Intn(4)]
	atree.VerifSetThreshold(T)
	defer atree.VerifSetThreshold(1024)
	env := newErcArrEnv()
	w := &ercWatch{st: func() *atree.PersistentSlabStorage { return env.st }, base: env.base, addr: env.addr,
		roots: func() []atree.Value { return []atree.Value{env.a} }}
	inj := rng.Fork(977)
	nInject := 20 + inj.Intn(6)
	injectAt := map[int]int{}
	for i := 0; i < nInject; i++ {
		injectAt[inj.Intn(steps+1)]++
	}
	var ops []*ercArrOp
	n := uint64(0)
	do := func(op *ercArrOp) bool {
		ops = append(ops, op)
		r.step++
		r.rep.Op([]string{"arr.Insert", "arr.Set", "arr.Remove", "commit", "reopen", "arr.Append"}[op.kind])
		err, pan := ercCall(func() error { return env.exec(op) })
		if err != nil || pan != "" {
			op.rejected = true
			r.viol("C18: a valid array request was rejected", fmt.Sprint(op.kind, op.i, n, err, pan))
			return false
		}
		return true
	}
	for i := 0; i <= steps; i++ {
		for k := injectAt[i]; k > 0; k-- {
			r.arrayReject(w, env.a, inj, "array.")
		}
		if i == steps {
			break
		}
		switch op := rng.Pick(30, 25, 15, 18, 6, 6); {
		case op == 0 || n == 0:
			if do(&ercArrOp{kind: 0, i: uint64(rng.Intn(int(n) + 1)), val: ercArrVal(rng)}) {
				n++
			}
		case op == 1:
			if do(&ercArrOp{kind: 5, val: ercArrVal(rng)}) {
				n++
			}
		case op == 2:
			do(&ercArrOp{kind: 1, i: uint64(rng.Intn(int(n))), val: ercArrVal(rng)})
		case op == 3:
			if do(&ercArrOp{kind: 2, i: uint64(rng.Intn(int(n)))}) {
				n--
			}
		case op == 4:
			do(&ercArrOp{kind: 3})
		default:
			do(&ercArrOp{kind: 4})
		}
		if env.a.Count() != n {
			r.viol("C18: Count() differs from the number of accepted requests", fmt.Sprintf("%d vs %d", env.a.Count(), n))
			break
		}
	}
	if err := atree.VerifyArray(env.a, env.addr, env.tinfo, testutils.CompareTypeInfo, testutils.GetHashInput, true); err != nil {
		r.viol("C18: VerifyArray fails after a history with rejected requests", err.Error())
	}
	must(env.st.FastCommit(2))
	twin := newErcArrEnv()
	for _, op := range ops {
		if op.rejected {
			continue
		}
		if err, pan := ercCall(func() error { return twin.exec(op) }); err != nil || pan != "" {
			r.viol("C18: a request accepted in the history is refused in the history without the rejected requests", fmt.Sprint(op.kind, op.i, err, pan))
			return
		}
	}
	must(twin.st.FastCommit(2))
	if d := SameRegisters(env.base, twin.base); d != "" {
		r.viol("C18: the history with rejected requests and the history without them commit different registers", d)
	}
	r.rep.Distinct(fmt.Sprintf("array/T%d/n%d/segs%d/rej%d", T, n/8, len(env.base.Segs), r.nRej/4))
	r.rep.Sample(fmt.Sprintf("%s: array, slab size %d, %d ops, %d rejected, %d elements in %d registers; twin registers identical", r.tag, T, len(ops), r.nRej, n, len(env.base.Segs)))
}

// ---------- nested forests ----------

type ercWorldFail struct{ what, detail string }

// nestedRun builds a forest with World; with inject=true rejected requests are issued on child
// containers between the steps.  Returns the ledger after the final commit (nil if abandoned).
func (r *ercRun) nestedRun(seed uint64, steps int, inject bool, T uint32) (base *LogBase, shape string) {
	atree.VerifSetThreshold(T)
	defer atree.VerifSetThreshold(1024)
	rng := NewRng(seed)
	inj := rng.Fork(977)
	base = NewLogBase()
	w := NewWorld(base, rng, WorldOpts{Addr: 11, MaxDepth: 3, Wrap: true, Maps: true, LargeVals: true}, r.rep)
	w.Fail = func(what, detail string) { panic(ercWorldFail{what, detail}) }
	failed := false
	defer func() {
		if p := recover(); p != nil {
			if f, ok := p.(ercWorldFail); ok {
				// a failure of a VALID request belongs to another property (C01/C02/C10); it is recorded
				// and the history abandoned
				r.rep.Event("nested_workload_failed:" + clip(f.what, 60))
				base, failed = nil, true
				return
			}
			r.viol("C18: panic in a nested history", fmt.Sprint(p))
			base = nil
		}
	}()
	_ = failed
	w.NewArrayRoot()
	if rng.Bool() {
		w.NewMapRoot()
	}
	watch := &ercWatch{st: func() *atree.PersistentSlabStorage { return w.St }, base: base, addr: w.Addr,
		roots: func() []atree.Value {
			var vs []atree.Value
			for _, s := range w.Roots {
				vs = append(vs, rootValue(s))
			}
			return vs
		}}
	nInject := 20 + inj.Intn(6)
	injectAt := map[int]int{}
	for i := 0; i < nInject; i++ {
		injectAt[steps/4+inj.Intn(steps-steps/4+1)]++
	}
	maxDepth, nChildRej := 0, 0
	for i := 0; i <= steps; i++ {
		if inject {
			for k := injectAt[i]; k > 0; k-- {
				cs := w.containers()
				// prefer children: the deeper the better
				c := cs[inj.Intn(len(cs))]
				for t := 0; t < 6 && c.depth == 0; t++ {
					c = cs[inj.Intn(len(cs))]
				}
				if c.depth > maxDepth {
					maxDepth = c.depth
				}
				if c.depth > 0 {
					nChildRej++
				}
				where := fmt.Sprintf("depth-%d child ", c.depth)
				if c.depth == 0 {
					where = "root "
				}
				switch x := c.s.(type) {
				case *svArr:
					watch.extra = func() []atree.Value { return []atree.Value{x.arr} }
					if x.arr.Count() != uint64(len(x.elems)) {
						r.viol("C18: child array Count() differs from its shadow", fmt.Sprint(x.arr.Count(), len(x.elems)))
					}
					r.arrayReject(watch, x.arr, inj, where+"array.")
				case *svMap:
					watch.extra = func() []atree.Value { return []atree.Value{x.m} }
					key := atree.Value(testutils.Uint64Value(1<<40 + inj.U64()%1000)) // never produced by World.randKey
					if inj.Chance(30) {
						key = testutils.NewStringValue("absent-" + randStr(inj, 4))
					}
					switch inj.Intn(3) {
					case 0:
						r.rejected(watch, where+"map.Get of an absent key", "KeyNotFoundError", func() error {
							_, err := x.m.Get(testutils.CompareValue, testutils.GetHashInput, key)
							return err
						})
					case 1:
						r.rejected(watch, where+"map.Remove of an absent key", "KeyNotFoundError", func() error {
							_, _, err := x.m.Remove(testutils.CompareValue, testutils.GetHashInput, key)
							return err
						})
					default:
						r.rep.Op("map.Has(absent)")
						r.nRej++
						r.unchanged(watch, where+"map.Has of an absent key", func() {
							ok, err := x.m.Has(testutils.CompareValue, testutils.GetHashInput, key)
							if ok || err != nil {
								r.viol("C18: Has of an absent key did not answer false", fmt.Sprint(ok, err))
							}
						})
					}
				}
				watch.extra = nil
			}
		}
		if i == steps {
			break
		}
		w.Step()
		r.step++
		if i%37 == 36 {
			w.Commit(2)
		}
	}
	w.VerifyAll(false)
	w.Commit(2)
	return base, fmt.Sprintf("containers%d/depth%d/childrej%d", len(w.containers())/4, maxDepth, nChildRej/4)
}

func (r *ercRun) nestedHistory(rng *Rng, steps int) {
	seed := rng.U64()
	T := []uint32{256, 512, 1024}[rng.Intn(3)]
	b1, shape := r.nestedRun(seed, steps, true, T)
	if b1 == nil {
		return
	}
	b2, _ := r.nestedRun(seed, steps, false, T)
	if b2 == nil {
		return
	}
	if d := SameRegisters(b1, b2); d != "" {
		r.viol("C18: the nested history with rejected requests and the one without them commit different registers", d)
	}
	r.rep.Distinct(fmt.Sprintf("nested/T%d/%s", T, shape))
	r.rep.Sample(fmt.Sprintf("%s: nested forest, slab size %d, %d steps, %d rejected (%s), %d registers; twin registers identical", r.tag, T, steps, r.nRej, shape, len(b1.Segs)))
}

// ---------- 4. the undefined identifier ----------

func (r *ercRun) undefinedID() {
	base := NewLogBase()
	base.LogReads = true
	st := newStorage(base)
	addr := mkAddr(13)
	a, err := atree.NewArray(st, addr, testutils.NewSimpleTypeInfo(41))
	must(err)
	for i := 0; i < 40; i++ {
		must(a.Append(testutils.Uint64Value(uint64(i))))
	}
	w := &ercWatch{st: func() *atree.PersistentSlabStorage { return st }, base: base, addr: addr, roots: func() []atree.Value { return []atree.Value{a} }}
	reads := func() int {
		n := 0
		for _, c := range base.Log {
			if c.Kind == 'R' {
				n++
			}
		}
		return n
	}
	for round := 0; round < 2; round++ { // with a pending write set, then after a commit
		slab := atree.VerifNewStorableSlabWithID(atree.SlabIDUndefined, testutils.Uint64Value(1))
		r0 := reads()
		r.rejected(w, "Storage.Store under the undefined identifier", "SlabIDError", func() error { return st.Store(atree.SlabIDUndefined, slab) })
		r.rejected(w, "Storage.Remove of the undefined identifier", "SlabIDError", func() error { return st.Remove(atree.SlabIDUndefined) })
		r.rejected(w, "NewArrayWithRootID(undefined identifier)", "SlabIDError", func() error {
			x, err := atree.NewArrayWithRootID(st, atree.SlabIDUndefined)
			if err == nil && x != nil {
				return nil
			}
			return err
		})
		r.rejected(w, "NewMapWithRootID(undefined identifier)", "SlabIDError", func() error {
			_, err := atree.NewMapWithRootID(st, atree.SlabIDUndefined, atree.NewDefaultDigesterBuilder())
			return err
		})
		if reads() != r0 {
			r.viol("C18: a request with the undefined identifier read the ledger", fmt.Sprint(reads()-r0))
		}
		// an identifier that does not exist: named as "slab not found", FatalError, nothing changed
		r.rejected(w, "NewArrayWithRootID(unknown identifier)", "SlabNotFoundError", func() error {
			_, err := atree.NewArrayWithRootID(st, mkID(13, 999999))
			return err
		})
		r.rejected(w, "NewMapWithRootID(unknown identifier)", "SlabNotFoundError", func() error {
			_, err := atree.NewMapWithRootID(st, mkID(13, 999998), atree.NewDefaultDigesterBuilder())
			return err
		})
		must(st.FastCommit(2))
	}
	// BasicSlabStorage has the same contract
	bs := atree.NewBasicSlabStorage(encMode, decMode, testutils.DecodeStorable, testutils.DecodeTypeInfo)
	for _, f := range []func() error{
		func() error {
			return bs.Store(atree.SlabIDUndefined, atree.VerifNewStorableSlabWithID(atree.SlabIDUndefined, testutils.Uint64Value(1)))
		},
		func() error { return bs.Remove(atree.SlabIDUndefined) },
	} {
		err := f()
		r.rep.Op("basic.undefined")
		if err == nil || !ercIsType(err, "SlabIDError") || ercAsCategory(err) != ercFatal || bs.Count() != 0 {
			// observation only: BasicSlabStorage (storage.go:231-239, the in-memory storage used by tests)
			// has no identifier check; the property's anchor is PersistentSlabStorage (storage.go:953-969)
			r.rep.Event("basic_slab_storage_accepts_undefined_identifier")
		}
	}
	r.rep.Distinct("undefined-id")
}

// ---------- 6. constructors against the specification ----------

func (r *ercRun) constructors() {
	rows, err := ercTable()
	if err != nil {
		r.viol("C18: errors.go cannot be parsed", err.Error())
		return
	}
	seen := map[string]bool{}
	for _, c := range rows {
		r.rep.Op("constructor")
		if c.Static == ercNone {
			r.viol("C18: constructor assigns no category", c.Name)
		}
		if c.Runtime == "" {
			r.rep.Event("constructor_not_callable:" + c.Name)
			if want, ok := ercExpected[c.Type]; ok && want != c.Static {
				r.viol("C18: constructor assigns the wrong category", fmt.Sprintf("%s: %s, expected %s", c.Name, c.Static, want))
			}
			continue
		}
		seen[c.RunType] = true
		if c.Runtime != c.Static || c.RunType != c.Type {
			r.viol("C18: category read from errors.go and category observed at run time disagree",
				fmt.Sprintf("%s: parsed %s/%s, observed %s/%s", c.Name, c.Type, c.Static, c.RunType, c.Runtime))
		}
		if c.Ambig {
			r.viol("C18: constructed error matches more than one category", c.Name)
		}
		if want, ok := ercExpected[c.RunType]; ok && want != c.Runtime {
			r.viol("C18: "+c.RunType+" carries the category "+c.Runtime+"Error, expected "+want+"Error", c.Name)
		}
	}
	for name := range ercExpected {
		if !seen[name] {
			r.viol("C18: no constructor of errors.go builds the expected error type", name)
		}
	}
	// wrapping: an uncategorised error becomes External, categorised ones are kept
	r.rep.Distinct(fmt.Sprintf("constructors/%d", len(rows)))
}

// ---------- 5. failing caller-supplied components ----------

// external checks that err is an ExternalError (and nothing else) that wraps the injected error.
func (r *ercRun) external(what string, err error, injected error) {
	if err == nil {
		r.viol("C18: "+what+": the failure of the caller-supplied component was not reported", "nil error")
		return
	}
	r.rep.Err("ExternalError")
	if c := ercAsCategory(err); c != ercExtern {
		r.viol("C18: "+what+": failure of a caller-supplied component is not reported as ExternalError", fmt.Sprintf("category %s: %T %v", c, err, err))
	}
	if !errors.Is(err, injected) && !strings.Contains(err.Error(), injected.Error()) {
		r.viol("C18: "+what+": the ExternalError does not mention the component's error", err.Error())
	}
}

// callbackCase: one map (table digester, collisions on all levels, several slabs, external groups)
// and one multi-level array; every failure index of every component for Get/Has, ledger faults for
// lookups and for the descent of mutations.
func (r *ercRun) callbackCase(rng *Rng) {
	T := []uint32{256, 256, 512}[rng.Intn(3)]
	atree.VerifSetThreshold(T)
	defer atree.VerifSetThreshold(1024)
	tableMode := rng.Chance(70)
	var table map[string][ercLevels]uint64
	if tableMode {
		table = map[string][ercLevels]uint64{}
	}
	env := newErcMapEnv(table)
	env.base.LogReads = true
	f := env.faults
	cmp, hip := atree.ValueComparator(f.cmp), atree.HashInputProvider(f.hip)
	nKeys := 20 + rng.Intn(120)
	n0 := 3 + rng.Intn(20)
	var keys []atree.Value
	mk := func(i uint64, d [ercLevels]uint64) atree.Value {
		var k atree.Value = testutils.Uint64Value(i)
		if i%5 == 0 {
			k = testutils.NewStringValue(fmt.Sprintf("key%d", i))
		}
		if table != nil {
			table[keyStr(k)] = d
		}
		return k
	}
	for i := 0; i < nKeys; i++ {
		d := [ercLevels]uint64{uint64(100 + 10*rng.Intn(n0)), uint64(1 + rng.Intn(3)), uint64(1 + rng.Intn(2)), uint64(1 + rng.Intn(2))}
		k := mk(uint64(i+1), d)
		if _, err := env.m.Set(cmp, hip, k, ercRandVal(rng, false).value()); err != nil {
			r.viol("C18: setup Set failed", err.Error())
			return
		}
		keys = append(keys, k)
	}
	must(env.st.FastCommit(2))
	w := env.watch()
	if rng.Chance(50) {
		// a low limit makes Set of a PRESENT key run the limit check (a lookup inside the mutation)
		atree.VerifSetMaxCollisionLimitPerDigest(uint32(rng.Intn(2)))
		defer atree.VerifSetMaxCollisionLimitPerDigest(255)
	}

	// the key looked up: present (any position) or absent with colliding digests
	var key atree.Value
	present := rng.Chance(75)
	if present {
		key = keys[rng.Intn(len(keys))]
	} else {
		ref := [ercLevels]uint64{}
		if table != nil {
			ref = table[keyStr(keys[rng.Intn(len(keys))])]
			if rng.Bool() {
				ref[1+rng.Intn(3)] = 77
			}
		}
		key = mk(uint64(nKeys+5), ref)
	}
	type lookup struct {
		name string
		call func() error
	}
	lookups := []lookup{
		{"OrderedMap.Get", func() error { _, err := env.m.Get(cmp, hip, key); return err }},
		{"OrderedMap.Has", func() error { _, err := env.m.Has(cmp, hip, key); return err }},
	}
	nFail := 0
	for _, lk := range lookups {
		// dry run: how often is each component called
		f.reset()
		env.st.DropCache()
		env.base.ResetLog()
		errDry, _ := ercCall(lk.call)
		if present && errDry != nil {
			r.viol("C18: lookup of a present key failed", errDry.Error())
			return
		}
		nc, nh, nd := f.nCmp, f.nHip, f.nDig
		nr := 0
		for _, c := range env.base.Log {
			if c.Kind == 'R' {
				nr++
			}
		}
		r.rep.EventN("lookup_comparator_calls", nc)
		if nc >= 2 {
			r.rep.Event("lookups_with_2_or_more_comparator_calls")
		}
		if nr >= 2 {
			r.rep.Event("lookups_with_2_or_more_ledger_reads")
		}
		r.rep.EventN("lookup_ledger_reads", nr)
		try := func(what string, arm func(k int), injected error, n int, cold bool) {
			for k := 0; k < n; k++ {
				f.reset()
				if cold {
					env.st.DropCache()
				}
				before := w.snap()
				if cold {
					env.st.DropCache()
				}
				arm(k)
				err, pan := ercCall(lk.call)
				f.reset()
				env.base.ArmRead(-1)
				after := w.snap()
				nFail++
				r.step++
				r.rep.Op("fail." + what)
				name := fmt.Sprintf("%s with the %s failing at its call %d of %d", lk.name, what, k, n)
				if pan != "" {
					r.viol("C18: "+name+" panicked", pan)
					continue
				}
				r.external(name, err, injected)
				if d := ercSnapDiff(before, after); d != "" {
					r.viol("C18: "+name+" left a trace", d)
				}
			}
		}
		try("comparator", func(k int) { f.failCmp = k }, errErcCmp, nc, false)
		try("hash-input provider", func(k int) { f.failHip = k }, errErcHip, nh, false)
		try("ledger read", func(k int) { env.base.ArmRead(k) }, errInjected, nr, true)
		// the Digester (obtained from the caller's DigesterBuilder): level 0 is checked by OrderedMap.get;
		// deeper levels are requested inside collision groups
		for k := 0; k < nd; k++ {
			f.reset()
			before := w.snap()
			f.failDig = k
			err, pan := ercCall(lk.call)
			f.reset()
			after := w.snap()
			r.rep.Op("fail.digester")
			if pan != "" {
				r.viol("C18: lookup with a failing digester panicked", pan)
				continue
			}
			if d := ercSnapDiff(before, after); d != "" {
				r.viol("C18: lookup with a failing digester left a trace", d)
			}
			if k == 0 {
				r.external(lk.name+" with the digester failing at level 0", err, errErcDigest)
			} else if err == nil || ercAsCategory(err) != ercExtern {
				// observation (the digester is not one of the three components the property names):
				// map_element.go:347,361 drop the error of digester.Digest(level) for level >= 1
				r.rep.Event("digester_failure_at_deeper_level_not_reported_as_external")
			}
		}
	}

	// mutations with a failing comparator: category, and whether the state changed (the property
	// speaks of lookups only: a change is recorded, not reported)
	if present {
		for _, mut := range []string{"Set", "Remove"} {
			for _, sticky := range []bool{false, true} {
				f.reset()
				// count on a scratch copy would change the map; use the lookup's count as the bound
				f.reset()
				_, _ = env.m.Get(cmp, hip, key)
				nc := f.nCmp + 1
				for k := 0; k < nc; k++ {
					f.reset()
					before := w.snap()
					f.failCmp, f.sticky = k, sticky
					var err error
					var pan string
					if mut == "Set" {
						err, pan = ercCall(func() error {
							old, err := env.m.Set(cmp, hip, key, testutils.Uint64Value(4242))
							if err == nil {
								ercDispose(env.st, old)
							}
							return err
						})
					} else {
						err, pan = ercCall(func() error {
							ks, vs, err := env.m.Remove(cmp, hip, key)
							if err == nil {
								ercDispose(env.st, ks)
								ercDispose(env.st, vs)
							}
							return err
						})
					}
					called := f.nCmp
					f.reset()
					after := w.snap()
					r.rep.Op("fail.mut.comparator")
					if pan != "" {
						r.viol("C18: "+mut+" with a failing comparator panicked", pan)
						return
					}
					if called <= k {
						break // the comparator is not called that often by this operation
					}
					if err == nil {
						r.rep.Event("mutation_succeeded_although_comparator_failed_once:" + mut)
						if mut == "Remove" {
							return // the key is gone
						}
						continue
					}
					if c := ercAsCategory(err); c != ercExtern {
						r.viol("C18: "+mut+": failure of the comparator is not reported as ExternalError", fmt.Sprintf("%s: %v", c, err))
					}
					if d := ercSnapDiff(before, after); d != "" {
						r.rep.Event("mutation_with_failing_comparator_changed_state:" + mut)
						return
					}
				}
			}
		}
	}

	// ledger faults during the descent of a mutation (map): the reads of the lookup come first
	if present {
		for _, mut := range []string{"Set", "Remove"} {
			f.reset()
			env.st.DropCache()
			env.base.ResetLog()
			if _, err := env.m.Get(cmp, hip, key); err != nil {
				break
			}
			nr := 0
			for _, c := range env.base.Log {
				if c.Kind == 'R' {
					nr++
				}
			}
			for k := 0; k < nr; k++ {
				env.st.DropCache()
				before := w.snap()
				env.st.DropCache()
				env.base.ArmRead(k)
				var err error
				var pan string
				if mut == "Set" {
					err, pan = ercCall(func() error { _, err := env.m.Set(cmp, hip, key, testutils.Uint64Value(99)); return err })
				} else {
					err, pan = ercCall(func() error { _, _, err := env.m.Remove(cmp, hip, key); return err })
				}
				env.base.ArmRead(-1)
				after := w.snap()
				r.rep.Op("fail.descent.map")
				name := fmt.Sprintf("OrderedMap.%s with ledger read %d of the %d lookup reads failing", mut, k, nr)
				if pan != "" {
					r.viol("C18: "+name+" panicked", pan)
					return
				}
				r.external(name, err, errInjected)
				if d := ercSnapDiff(before, after); d != "" {
					r.viol("C18: "+name+" (refused during the descent) left a trace", d)
					return
				}
			}
		}
	}
	r.rep.Distinct(fmt.Sprintf("callback/table%t/T%d/keys%d/present%t/fail%d", tableMode, T, nKeys/16, present, nFail/4))
	r.rep.Sample(fmt.Sprintf("%s: %d keys (table digester %t, slab size %d), key present %t: %d injected component failures, all ExternalError, nothing changed", r.tag, nKeys, tableMode, T, present, nFail))

	r.arrayLedgerCase(rng)
}

// arrayLedgerCase: a multi-level array read cold; every ledger read of Get fails in turn; then
// Set/Insert/Remove with a read failing during the descent.
func (r *ercRun) arrayLedgerCase(rng *Rng) {
	atree.VerifSetThreshold(256)
	defer atree.VerifSetThreshold(1024)
	env := newErcArrEnv()
	env.base.LogReads = true
	n := 300 + rng.Intn(1500)
	for i := 0; i < n; i++ {
		must(env.a.Append(testutils.Uint64Value(uint64(i) * 1000003)))
	}
	must(env.st.FastCommit(2))
	w := &ercWatch{st: func() *atree.PersistentSlabStorage { return env.st }, base: env.base, addr: env.addr,
		roots: func() []atree.Value { return []atree.Value{env.a} }}
	reads := func() int {
		c := 0
		for _, x := range env.base.Log {
			if x.Kind == 'R' {
				c++
			}
		}
		return c
	}
	for trial := 0; trial < 3; trial++ {
		i := uint64(rng.Intn(n))
		env.st.DropCache()
		env.base.ResetLog()
		if _, err := env.a.Get(i); err != nil {
			r.viol("C18: in-range Get failed", err.Error())
			return
		}
		nr := reads()
		r.rep.EventN("array_lookup_ledger_reads", nr)
		type op struct {
			name string
			call func() error
			mut  bool
		}
		ops := []op{
			{"Array.Get", func() error { _, err := env.a.Get(i); return err }, false},
			{"Array.Set", func() error { _, err := env.a.Set(i, testutils.Uint64Value(5)); return err }, true},
			{"Array.Insert", func() error { return env.a.Insert(i, testutils.Uint64Value(6)) }, true},
			{"Array.Remove", func() error { _, err := env.a.Remove(i); return err }, true},
		}
		for _, o := range ops {
			for k := 0; k < nr; k++ {
				env.st.DropCache()
				before := w.snap()
				env.st.DropCache()
				env.base.ArmRead(k)
				err, pan := ercCall(o.call)
				env.base.ArmRead(-1)
				after := w.snap()
				r.step++
				r.rep.Op("fail.ledger." + o.name)
				name := fmt.Sprintf("%s with ledger read %d of the %d path reads failing", o.name, k, nr)
				if pan != "" {
					r.viol("C18: "+name+" panicked", pan)
					return
				}
				r.external(name, err, errInjected)
				if d := ercSnapDiff(before, after); d != "" {
					if o.mut {
						r.viol("C18: "+name+" (refused during the descent) left a trace", d)
					} else {
						r.viol("C18: "+name+" left a trace", d)
					}
					return
				}
			}
		}
	}
	r.rep.Distinct(fmt.Sprintf("array-ledger/n%d", n/256))
}

// ---------- driver ----------

func cmdErrors(a Args) {
	prop := a.Prop
	if prop == "" {
		prop = "C18"
	}
	rep := NewReport(prop, a.Seed)
	rep.Rule = "per rejected request: errors.As to the specific error type and to exactly the expected category (ErrSpec.v); " +
		"deep dump of every root (all slabs, cached sizes/counts, element structure, inlined children), Count(), Deltas(), delta key set, " +
		"allocator and ledger writes equal before and after; twin history without the rejected requests commits byte-identical registers; " +
		"undefined identifier -> fatal SlabIDError, nothing changed; every failure index of comparator / hash-input provider / ledger read " +
		"during Get/Has -> ExternalError wrapping the injected error, nothing changed; ledger faults during the descent of a mutation leave no trace; " +
		"category of every constructor of errors.go (parsed and observed) = specification"
	master := NewRng(a.Seed)
	steps := a.Steps
	if steps <= 0 || steps > 400 {
		steps = 90
	}
	if steps == 300 { // the shared default
		steps = 90
	}
	totalRej := 0
	run := func(h int, tag string, f func(r *ercRun, rng *Rng)) {
		hr := master.Fork(uint64(h) + 1)
		if !want(tag) {
			return
		}
		r := &ercRun{rep: rep, hist: h, tag: tag}
		func() {
			defer func() {
				if p := recover(); p != nil {
					r.viol("C18: the harness or the implementation panicked", fmt.Sprint(p))
				}
				atree.VerifSetThreshold(1024)
				atree.VerifSetMaxCollisionLimitPerDigest(255)
			}()
			f(r, hr)
		}()
		rep.Histories++
		rep.Steps += r.step
		totalRej += r.nRej
	}
	run(-2, "ctors", func(r *ercRun, _ *Rng) { r.constructors() })
	run(-1, "undef", func(r *ercRun, _ *Rng) { r.undefinedID() })
	for h := 0; h < a.N; h++ {
		tag := fmt.Sprintf("h%d", h)
		switch h % 5 {
		case 0, 3:
			run(h, tag, func(r *ercRun, rng *Rng) { r.mapHistory(rng, true, steps+rng.Intn(steps)) })
		case 1:
			run(h, tag, func(r *ercRun, rng *Rng) { r.mapHistory(rng, false, steps+rng.Intn(steps)) })
		case 2:
			run(h, tag, func(r *ercRun, rng *Rng) { r.nestedHistory(rng, steps+rng.Intn(steps/2+1)) })
		default:
			run(h, tag, func(r *ercRun, rng *Rng) { r.arrayHistory(rng, steps+rng.Intn(steps)) })
		}
	}
	lookups := 25 * a.Depth
	if a.Mode == "thorough" {
		lookups = a.N / 4
	}
	for j := 0; j < lookups; j++ {
		run(1000000+j, fmt.Sprintf("cb%d", j), func(r *ercRun, rng *Rng) { r.callbackCase(rng) })
	}
	rep.Events["rejected_requests_checked"] = totalRej
	rep.Write(a.Out + "/report.json")
	fmt.Printf("errors: %d histories, %d steps, %d rejected requests, %d violations, %d distinct\n", rep.Histories, rep.Steps, totalRej, len(rep.Violations), rep.Nontrivial)
}
