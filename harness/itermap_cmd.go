//go:build verif

package main

// itermap: the loaded-value iterator of OrderedMap (C13) in lock-step with the model of
// coq/theories/IterMap.v (engine "itermap", coq/theories/IterMapTrace.v).
//
// One history = one root map with a table digester (or the default digester, digests recorded).
// Keys: unsigned integers, short strings, strings above the key inline limit (own slab).
// Values: unsigned integers, strings below / at / above the inline limit (own slab), Some(string)
// (wrapper around an inline string or around a slab reference), child arrays and child maps
// (inlined, own root slab, several slabs), Some(child array).
// Checkpoints: the slab tree is dumped with every cached field (hook VerifMapTreeDump) and sent to
// the model together with the slab every key / value storable references and the digests; then,
// for several sets of loaded slabs, the implementation's iterator is drained and compared with the
// model's yield on the dumped tree.  The loaded set is produced in two ways: a fresh storage over
// the committed registers into which a subset is read (Retrieve / BatchPreload), or eviction of the
// complement from the read cache of the live storage (hook VerifStorageEvict), also with
// uncommitted changes in the write set.  It is always read back with RetrieveIfLoaded
// (hook VerifStorageLoadedIDs).
//
// Model-independent oracles (violations): the yield is a subsequence of the full enumeration, has
// no duplicate key, equals the entries whose path (hook VerifMapIterDump: index slabs, data slab,
// external group slab; plus key and value slab) is loaded, is the full enumeration when everything
// is loaded, the iteration does not change the loaded set, the full enumeration is the shadow
// dictionary in canonical order.

import (
	"fmt"
	"sort"
	"strconv"
	"strings"

	"github.com/onflow/atree"
	testutils "github.com/onflow/atree/test_utils"
)

func init() { register("itermap", cmdIterMap) }

const imLevels = 4

const (
	imClsStr     = uint64(1) << 48
	imClsArr     = uint64(2) << 48
	imClsMap     = uint64(3) << 48
	imClsSomeStr = uint64(4) << 48
	imClsSomeArr = uint64(5) << 48
	imValBase    = uint64(1) << 20 // value counters start here, key counters stay below
	imNoIdent    = ^uint64(0) >> 1
)

// ---------- digester ----------

type imBuilder struct {
	table map[uint64][imLevels]uint64
	inner atree.DigesterBuilder
}

type imDigester struct{ d [imLevels]uint64 }

func (b *imBuilder) SetSeed(k0, k1 uint64) {
	if b.inner != nil {
		b.inner.SetSeed(k0, k1)
	}
}

func (b *imBuilder) Digest(hip atree.HashInputProvider, v atree.Value) (atree.Digester, error) {
	id := imIdentValue(v)
	if id == imNoIdent {
		return nil, fmt.Errorf("itermap digester: value %T has no identity", v)
	}
	if b.inner == nil {
		d, ok := b.table[id]
		if !ok {
			return nil, fmt.Errorf("itermap digester: key %d has no digests", id)
		}
		return &imDigester{d: d}, nil
	}
	dg, err := b.inner.Digest(hip, v)
	if err != nil {
		return nil, err
	}
	if _, ok := b.table[id]; !ok {
		var d [imLevels]uint64
		for l := uint(0); l < imLevels; l++ {
			x, err := dg.Digest(l)
			if err != nil {
				return nil, err
			}
			d[l] = uint64(x)
		}
		b.table[id] = d
	}
	return dg, nil
}

func (g *imDigester) DigestPrefix(level uint) ([]atree.Digest, error) {
	if level > imLevels {
		return nil, atree.NewHashLevelErrorf("cannot get digest < level %d: level must be [0, %d]", level, imLevels)
	}
	var p []atree.Digest
	for i := uint(0); i < level; i++ {
		p = append(p, atree.Digest(g.d[i]))
	}
	return p, nil
}

func (g *imDigester) Digest(level uint) (atree.Digest, error) {
	if level >= imLevels {
		return 0, atree.NewHashLevelErrorf("cannot get digest at level %d: level must be [0, %d)", level, imLevels)
	}
	return atree.Digest(g.d[level]), nil
}

func (g *imDigester) Reset()       {}
func (g *imDigester) Levels() uint { return imLevels }

// ---------- identities ----------

func imStrNum(s string) (uint64, bool) {
	i := strings.IndexByte(s, '|')
	if i <= 0 {
		return 0, false
	}
	n, err := strconv.ParseUint(s[:i], 10, 64)
	return n, err == nil
}

// imIdentValue maps a value handed out by the library (or given to it) to the harness identity.
func imIdentValue(v atree.Value) uint64 {
	switch x := v.(type) {
	case testutils.Uint64Value:
		return uint64(x)
	case testutils.StringValue:
		if n, ok := imStrNum(x.String()); ok {
			return imClsStr | n
		}
	case testutils.SomeValue:
		switch y := x.Value.(type) {
		case testutils.StringValue:
			if n, ok := imStrNum(y.String()); ok {
				return imClsSomeStr | n
			}
		case *atree.Array:
			if id := imIdentValue(y); id != imNoIdent {
				return imClsSomeArr | (id &^ imClsArr)
			}
		}
	case *atree.Array:
		if x.Count() == 0 {
			return imNoIdent
		}
		m, err := x.Get(0)
		if err != nil {
			return imNoIdent
		}
		if u, ok := m.(testutils.Uint64Value); ok {
			return imClsArr | uint64(u)
		}
	case *atree.OrderedMap:
		m, err := x.Get(testutils.CompareValue, testutils.GetHashInput, testutils.Uint64Value(0))
		if err != nil {
			return imNoIdent
		}
		if u, ok := m.(testutils.Uint64Value); ok {
			return imClsMap | uint64(u)
		}
	}
	return imNoIdent
}

func imIdentStorable(st atree.SlabStorage, s atree.Storable) uint64 {
	v, err := s.StoredValue(st)
	if err != nil {
		return imNoIdent
	}
	return imIdentValue(v)
}

// imRef is the abstraction of getLoadedValue's case distinction: the slab a storable references
// (directly or inside a wrapper), 0 = none.
func imRef(s atree.Storable) uint64 {
	if id, ok := s.(atree.SlabIDStorable); ok {
		return atree.SlabID(id).IndexAsUint64()
	}
	if w, ok := s.(atree.WrapperStorable); ok {
		if id, ok := w.UnwrapAtreeStorable().(atree.SlabIDStorable); ok {
			return atree.SlabID(id).IndexAsUint64()
		}
	}
	return 0
}

// ---------- history state ----------

type imKey struct {
	id  uint64
	val atree.Value
}

type imEntry struct {
	k   *imKey
	vid uint64
	seq uint64
}

type imRun struct {
	rep  *Report
	tr   *Trace
	hist int
	tag  string
	cp   int
	step int
	rng  *Rng
	thor bool

	T    uint32
	cfg  [6]uint32
	base *LogBase
	st   *atree.PersistentSlabStorage
	addr atree.Address
	m    *atree.OrderedMap
	b    *imBuilder
	mode string
	alph [imLevels][]uint64

	shadow  map[uint64]*imEntry
	live    []*imKey
	livePos map[uint64]int
	seq     uint64
	keyCtr  uint64
	valCtr  uint64

	failed bool
	nviol  int
	maxH   int
	seen   map[string]bool
}

func (r *imRun) viol(what, detail string) {
	if len(detail) > 500 {
		detail = detail[:500] + "..."
	}
	if r.nviol < 3 {
		r.rep.Violate(r.hist, r.tag, r.step, what, fmt.Sprintf("map %s T=%d cp=%d %s", r.mode, r.T, r.cp, detail))
	}
	r.nviol++
	r.failed = true
}

func (r *imRun) emit(op, obs []uint64) {
	r.tr.StepU(op, nil, obs)
	r.step++
}

func imAlphabet(rng *Rng, n int) []uint64 {
	special := []uint64{0, 1, 2, 255, 256, 1 << 32, 1<<63 - 1, 1 << 63, ^uint64(0) - 1, ^uint64(0)}
	seen := map[uint64]bool{}
	var out []uint64
	for len(out) < n {
		var x uint64
		if rng.Chance(20) {
			x = special[rng.Intn(len(special))]
		} else {
			x = rng.U64()
		}
		if !seen[x] {
			seen[x] = true
			out = append(out, x)
		}
	}
	return out
}

func (r *imRun) setupDigests(target int) {
	rng := r.rng
	r.b = &imBuilder{table: map[uint64][imLevels]uint64{}}
	small := func() []uint64 { return imAlphabet(rng, 1+rng.Intn(4)) }
	switch rng.Pick(12, 36, 16, 12, 24) {
	case 0: // every level has 1..4 digests: few huge groups, lists at the bottom
		r.mode = "tiny"
		for l := 0; l < imLevels; l++ {
			r.alph[l] = small()
		}
	case 1: // many level-0 digests, each shared by a few keys
		r.mode = "mix"
		g := []int{2, 3, 6}[rng.Intn(3)]
		r.alph[0] = imAlphabet(rng, max(2, target/g))
		for l := 1; l < imLevels; l++ {
			r.alph[l] = small()
		}
		if rng.Chance(40) {
			r.alph[3] = nil
		}
	case 2: // deep groups ending in lists
		r.mode = "deep"
		r.alph[0] = imAlphabet(rng, max(1, target/8))
		r.alph[1] = imAlphabet(rng, 1)
		r.alph[2] = imAlphabet(rng, 1+rng.Intn(2))
		r.alph[3] = imAlphabet(rng, 1+rng.Intn(2))
	case 3:
		r.mode = "nocoll"
	default:
		r.mode = "default"
		r.b.inner = atree.NewDefaultDigesterBuilder()
	}
}

// imStr builds "n|xxx" whose encoded size is total (or the smallest possible).
func imStr(n uint64, total int, pad byte) testutils.StringValue {
	head := strconv.FormatUint(n, 10) + "|"
	l := total - 1
	if total > 24 {
		l = total - 2
	}
	if total > 257 {
		l = total - 3
	}
	if l < len(head) {
		l = len(head)
	}
	return testutils.NewStringValue(head + strings.Repeat(string(pad), l-len(head)))
}

func (r *imRun) newKey() *imKey {
	rng := r.rng
	r.keyCtr++
	n := r.keyCtr
	maxKey := int(r.cfg[5])
	k := &imKey{}
	switch rng.Pick(45, 30, 25) {
	case 0:
		k.id, k.val = n, testutils.Uint64Value(n)
	case 1:
		k.id, k.val = imClsStr|n, imStr(n, 3+rng.Intn(max(1, maxKey-3)), 'k')
	default: // above the key inline limit: the key storable is a reference to its own slab
		k.id, k.val = imClsStr|n, imStr(n, maxKey+1+rng.Intn(60), 'K')
	}
	if r.b.inner == nil {
		var d [imLevels]uint64
		for l := 0; l < imLevels; l++ {
			if r.alph[l] == nil {
				d[l] = rng.U64()
			} else {
				d[l] = r.alph[l][rng.Intn(len(r.alph[l]))]
			}
		}
		r.b.table[k.id] = d
	}
	return k
}

// inline limit of the value stored next to this key
func (r *imRun) vinl(k *imKey) int {
	ksz := k.val.(interface{ ByteSize() uint32 }).ByteSize()
	if ksz > r.cfg[5] {
		ksz = atree.SlabIDStorable{}.ByteSize()
	}
	return int(atree.VerifMaxInlineMapValueSize(ksz))
}

func (r *imRun) childNum() uint64 {
	if r.rng.Bool() {
		return uint64(r.rng.Intn(200))
	}
	return 1<<33 + uint64(r.rng.Intn(1<<20))
}

func (r *imRun) childSize(inl int) int {
	switch r.rng.Pick(50, 28, 22) {
	case 0:
		return r.rng.Intn(4)
	case 1: // around the inline limit
		return inl/9 + r.rng.Intn(inl/6+2)
	default: // several slabs
		return int(r.T)/6 + r.rng.Intn(int(r.T)/4)
	}
}

func (r *imRun) childArr(c uint64, inl int) *atree.Array {
	a, err := atree.NewArray(r.st, r.addr, testutils.NewSimpleTypeInfo(43))
	must(err)
	must(a.Append(testutils.Uint64Value(c)))
	for k := r.childSize(inl); k > 0; k-- {
		must(a.Append(testutils.Uint64Value(r.childNum())))
	}
	return a
}

func (r *imRun) childMap(c uint64, inl int) *atree.OrderedMap {
	m, err := atree.NewMap(r.st, r.addr, atree.NewDefaultDigesterBuilder(), testutils.NewSimpleTypeInfo(53))
	must(err)
	_, err = m.Set(testutils.CompareValue, testutils.GetHashInput, testutils.Uint64Value(0), testutils.Uint64Value(c))
	must(err)
	for k := r.childSize(inl) / 2; k > 0; k-- {
		_, err = m.Set(testutils.CompareValue, testutils.GetHashInput, testutils.Uint64Value(uint64(k)), testutils.Uint64Value(r.childNum()))
		must(err)
	}
	return m
}

// newVal returns the value and its identity
func (r *imRun) newVal(inl int) (atree.Value, uint64) {
	rng := r.rng
	r.valCtr++
	c := imValBase + r.valCtr
	switch rng.Pick(22, 12, 10, 14, 5, 9, 11, 9, 8) {
	case 0:
		return testutils.Uint64Value(c), c
	case 1:
		return imStr(c, 3+rng.Intn(20), 'x'), imClsStr | c
	case 2: // just fits / just does not fit the inline limit
		return imStr(c, inl-3+rng.Intn(6), 'x'), imClsStr | c
	case 3: // above the limit: stored in its own slab
		return imStr(c, inl+1+rng.Intn(200), 'X'), imClsStr | c
	case 4:
		return testutils.NewSomeValue(imStr(c, 3+rng.Intn(max(1, inl/2)), 's')), imClsSomeStr | c
	case 5: // wrapper around a reference
		return testutils.NewSomeValue(imStr(c, inl+1+rng.Intn(120), 'S')), imClsSomeStr | c
	case 6:
		return r.childArr(c, inl), imClsArr | c
	case 7:
		return r.childMap(c, inl), imClsMap | c
	default:
		return testutils.NewSomeValue(r.childArr(c, inl)), imClsSomeArr | c
	}
}

// dispose frees everything a storable handed back by the library owns.
func (r *imRun) dispose(s atree.Storable) {
	if s == nil {
		return
	}
	v, err := s.StoredValue(r.st)
	if err != nil {
		r.viol("C13: harness: StoredValue of a returned storable failed", err.Error())
		return
	}
	if sv, ok := v.(testutils.SomeValue); ok {
		v = sv.Value
	}
	switch c := v.(type) {
	case *atree.Array:
		err = c.PopIterate(func(atree.Storable) {})
	case *atree.OrderedMap:
		err = c.PopIterate(func(atree.Storable, atree.Storable) {})
	}
	if err != nil {
		r.viol("C13: harness: emptying a removed child failed", err.Error())
	}
	if ref := imRef(s); ref != 0 {
		if err := r.st.Remove(atree.NewSlabID(r.addr, imIndex(ref))); err != nil {
			r.viol("C13: harness: removing a returned slab failed", err.Error())
		}
	}
}

func imIndex(i uint64) atree.SlabIndex {
	var x atree.SlabIndex
	for k := 7; k >= 0; k-- {
		x[k] = byte(i)
		i >>= 8
	}
	return x
}

func (r *imRun) addLive(k *imKey) {
	r.livePos[k.id] = len(r.live)
	r.live = append(r.live, k)
}

func (r *imRun) delLive(k *imKey) {
	p := r.livePos[k.id]
	last := r.live[len(r.live)-1]
	r.live[p] = last
	r.livePos[last.id] = p
	r.live = r.live[:len(r.live)-1]
	delete(r.livePos, k.id)
}

func (r *imRun) setNew() {
	k := r.newKey()
	v, vid := r.newVal(r.vinl(k))
	old, err := r.m.Set(testutils.CompareValue, testutils.GetHashInput, k.val, v)
	r.rep.Op("Set(new)")
	if err != nil {
		var cl *atree.CollisionLimitError
		if asErr(err, &cl) {
			r.rep.Err("collision_limit")
			return
		}
		r.viol("C13: harness: map insert failed", err.Error())
		return
	}
	if old != nil {
		r.viol("C13: harness: insert of a fresh key returned a previous value", fmt.Sprint(k.id))
		return
	}
	r.seq++
	r.shadow[k.id] = &imEntry{k: k, vid: vid, seq: r.seq}
	r.addLive(k)
}

func (r *imRun) setExisting() {
	if len(r.live) == 0 {
		return
	}
	k := r.live[r.rng.Intn(len(r.live))]
	v, vid := r.newVal(r.vinl(k))
	old, err := r.m.Set(testutils.CompareValue, testutils.GetHashInput, k.val, v)
	r.rep.Op("Set(existing)")
	if err != nil {
		r.viol("C13: harness: map update failed", err.Error())
		return
	}
	r.shadow[k.id].vid = vid
	r.dispose(old)
}

func (r *imRun) removeOne() {
	if len(r.live) == 0 {
		return
	}
	k := r.live[r.rng.Intn(len(r.live))]
	ks, vs, err := r.m.Remove(testutils.CompareValue, testutils.GetHashInput, k.val)
	r.rep.Op("Remove")
	if err != nil {
		r.viol("C13: harness: map remove failed", err.Error())
		return
	}
	delete(r.shadow, k.id)
	r.delLive(k)
	r.dispose(vs)
	r.dispose(ks)
}

func (r *imRun) growTo(n int) {
	for tries := 0; len(r.shadow) < n && !r.failed && tries < 4*n+50; tries++ {
		r.setNew()
	}
}

func (r *imRun) shrinkTo(n int) {
	for len(r.shadow) > n && !r.failed {
		r.removeOne()
	}
}

func (r *imRun) churn(k int) {
	for ; k > 0 && !r.failed; k-- {
		switch r.rng.Pick(35, 30, 35) {
		case 0:
			r.setNew()
		case 1:
			r.removeOne()
		default:
			r.setExisting()
		}
	}
}

// canonical order = lexicographic by digest vector, ties by insertion order
func (r *imRun) order() []*imEntry {
	out := make([]*imEntry, 0, len(r.shadow))
	for _, e := range r.shadow {
		out = append(out, e)
	}
	tb := r.b.table
	sort.Slice(out, func(i, j int) bool {
		a, b := tb[out[i].k.id], tb[out[j].k.id]
		for l := 0; l < imLevels; l++ {
			if a[l] != b[l] {
				return a[l] < b[l]
			}
		}
		return out[i].seq < out[j].seq
	})
	return out
}

// ---------- checkpoint ----------

type imPair struct{ k, v uint64 }

type imWalk struct {
	pairs []imPair   // (key identity, value identity) in enumeration order
	paths [][]uint64 // slabs to be loaded for the entry: tree path ++ key slab ++ value slab
	kref  map[uint64]uint64
	vref  map[uint64]uint64
	inner map[uint64]bool // index slabs below the root
	leaf  map[uint64]bool // data slabs below the root
	ext   map[uint64]bool // external collision-group slabs
	kv    map[uint64]bool // key / value slabs
	hgt   int
	nInl  int
	nList int
}

func (r *imRun) walk() *imWalk {
	es, h, ds, err := atree.VerifMapIterDump(r.m)
	if err != nil {
		r.viol("C13: harness: map slab tree cannot be walked", err.Error())
		return nil
	}
	w := &imWalk{kref: map[uint64]uint64{}, vref: map[uint64]uint64{}, inner: map[uint64]bool{}, leaf: map[uint64]bool{},
		ext: map[uint64]bool{}, kv: map[uint64]bool{}, hgt: h}
	root := r.m.SlabID()
	isData := map[atree.SlabID]bool{}
	for _, id := range ds {
		isData[id] = true
		if id != root {
			w.leaf[id.IndexAsUint64()] = true
		}
	}
	inl := map[[2]int]bool{}
	lists := map[string]bool{}
	for _, e := range es {
		var p []uint64
		for pi, id := range e.Path {
			x := id.IndexAsUint64()
			p = append(p, x)
			switch {
			case isData[id]:
			case e.Group == 2 && pi == len(e.Path)-1:
				w.ext[x] = true
			default:
				w.inner[x] = true
			}
		}
		kid := imIdentStorable(r.st, e.Key)
		vid := imIdentStorable(r.st, e.Value)
		if kid == imNoIdent || vid == imNoIdent {
			r.viol("C13: harness: entry without identity in the tree walk", fmt.Sprintf("%T %T", e.Key, e.Value))
			return nil
		}
		if kr := imRef(e.Key); kr != 0 {
			w.kref[kid] = kr
			w.kv[kr] = true
			p = append(p, kr)
		}
		if vr := imRef(e.Value); vr != 0 {
			w.vref[vid] = vr
			w.kv[vr] = true
			p = append(p, vr)
		}
		w.pairs = append(w.pairs, imPair{kid, vid})
		w.paths = append(w.paths, p)
		if e.Group == 1 {
			inl[[2]int{e.Slab, e.Pos}] = true
		}
		if e.List {
			lists[fmt.Sprint(e.Slab, e.Pos, e.Group)] = true
		}
	}
	w.nInl, w.nList = len(inl), len(lists)
	r.maxH = max(r.maxH, h)
	return w
}

func (w *imWalk) expected(loaded map[uint64]bool) (ps []imPair, paths [][]uint64) {
	for i, p := range w.paths {
		ok := true
		for _, id := range p {
			if !loaded[id] {
				ok = false
				break
			}
		}
		if ok {
			ps = append(ps, w.pairs[i])
			paths = append(paths, p)
		}
	}
	return
}

func imEncPairs(ps []imPair) []uint64 {
	out := []uint64{uint64(len(ps))}
	for _, p := range ps {
		out = append(out, p.k, p.v)
	}
	return out
}

func imIsSubseq(sub, full []imPair) bool {
	j := 0
	for _, x := range sub {
		for j < len(full) && full[j] != x {
			j++
		}
		if j == len(full) {
			return false
		}
		j++
	}
	return true
}

func imSamePairs(a, b []imPair) int {
	for i := 0; i < len(a) && i < len(b); i++ {
		if a[i] != b[i] {
			return i
		}
	}
	if len(a) != len(b) {
		return min(len(a), len(b))
	}
	return -1
}

func imSameIDs(a, b []atree.SlabID) bool {
	if len(a) != len(b) {
		return false
	}
	for i := range a {
		if a[i] != b[i] {
			return false
		}
	}
	return true
}

// drain runs the implementation's loaded-value iterator; flavour 0 = IterateReadOnlyLoadedValues,
// 1 = iterator object + Next.  The values are identified only afterwards (reading a child may load slabs).
func (r *imRun) drain(m *atree.OrderedMap, flavour int, bound int) (ks, vs []atree.Value, err error) {
	cb := func(k, v atree.Value) (bool, error) {
		ks = append(ks, k)
		vs = append(vs, v)
		return len(ks) <= bound, nil
	}
	if flavour == 0 {
		r.rep.Op("IterateReadOnlyLoadedValues")
		err = m.IterateReadOnlyLoadedValues(cb)
		return
	}
	r.rep.Op("ReadOnlyLoadedValueIterator+Next")
	var it *atree.MapLoadedValueIterator
	it, err = m.ReadOnlyLoadedValueIterator()
	if err != nil {
		return
	}
	for {
		var k, v atree.Value
		k, v, err = it.Next()
		if err != nil || k == nil {
			return
		}
		if resume, _ := cb(k, v); !resume {
			return
		}
	}
}

type imSubset struct {
	name string
	keep func(id uint64) bool
}

func (r *imRun) subsets(w *imWalk, all []uint64) []imSubset {
	rng := r.rng
	tree := func(x uint64) bool { return w.inner[x] || w.leaf[x] || w.ext[x] }
	out := []imSubset{
		{"nothing", func(uint64) bool { return false }},
		{"all", func(uint64) bool { return true }},
	}
	pickOne := func(set map[uint64]bool) (uint64, bool) {
		if len(set) == 0 {
			return 0, false
		}
		var xs []uint64
		for k := range set {
			xs = append(xs, k)
		}
		sort.Slice(xs, func(i, j int) bool { return xs[i] < xs[j] })
		return xs[rng.Intn(len(xs))], true
	}
	if d, ok := pickOne(w.leaf); ok {
		out = append(out, imSubset{"all_but_one_data_slab", func(x uint64) bool { return x != d }})
		out = append(out, imSubset{"no_data_slab", func(x uint64) bool { return !w.leaf[x] }})
	}
	if d, ok := pickOne(w.inner); ok {
		out = append(out, imSubset{"all_but_one_index_slab", func(x uint64) bool { return x != d }})
		out = append(out, imSubset{"no_index_slab_below_root", func(x uint64) bool { return !w.inner[x] }})
	}
	if d, ok := pickOne(w.ext); ok {
		out = append(out, imSubset{"all_but_one_external_group", func(x uint64) bool { return x != d }})
		out = append(out, imSubset{"no_external_group", func(x uint64) bool { return !w.ext[x] }})
	}
	if d, ok := pickOne(w.kv); ok {
		out = append(out, imSubset{"all_but_one_key_or_value_slab", func(x uint64) bool { return x != d }})
		out = append(out, imSubset{"tree_only", tree})
		half := map[uint64]bool{}
		for _, x := range all { // in sorted order: the draw must not depend on map iteration order
			if w.kv[x] {
				half[x] = rng.Bool()
			}
		}
		out = append(out, imSubset{"tree_and_half_of_key_value_slabs", func(x uint64) bool { return tree(x) || half[x] }})
	}
	ps := []int{15, 40, 65, 85, 95}
	if !r.thor {
		ps = []int{[]int{10, 20, 30}[rng.Intn(3)], []int{50, 60, 70}[rng.Intn(3)], []int{85, 90, 95}[rng.Intn(3)]}
	}
	for _, p := range ps {
		pick := map[uint64]bool{}
		for _, x := range all {
			pick[x] = rng.Chance(p)
		}
		out = append(out, imSubset{fmt.Sprintf("random_%d", p), func(x uint64) bool { return pick[x] }})
	}
	return out
}

func (r *imRun) reopen() (*atree.PersistentSlabStorage, *atree.OrderedMap, error) {
	st2 := newStorage(r.base)
	b2 := &imBuilder{table: r.b.table}
	if r.b.inner != nil {
		b2.inner = atree.NewDefaultDigesterBuilder()
	}
	m2, err := atree.NewMapWithRootID(st2, r.m.SlabID(), b2)
	return st2, m2, err
}

func (r *imRun) loadAll() bool {
	ids := r.base.SortedIDs()
	for _, id := range ids {
		if _, _, err := r.st.Retrieve(id); err != nil {
			r.viol("C13: harness: retrieve failed", err.Error())
			return false
		}
	}
	return true
}

// checkpoint: dirty = do not commit (the write set holds slabs), only eviction can unload then.
func (r *imRun) checkpoint(dirty bool) {
	if r.failed {
		return
	}
	r.cp++
	if !dirty {
		if err := r.st.FastCommit(2); err != nil {
			r.viol("C13: harness: commit failed", err.Error())
			return
		}
	}
	if !r.loadAll() {
		return
	}
	w := r.walk()
	if w == nil {
		return
	}
	// the tree, as the implementation caches it
	tree, err := atree.VerifMapTreeDump(r.m, func(s atree.Storable) (uint64, uint64) {
		return imIdentStorable(r.st, s), uint64(s.ByteSize())
	})
	if err != nil {
		r.viol("C13: harness: map slab tree cannot be dumped", err.Error())
		return
	}
	hdr := atree.VerifMapRootHeader(r.m)
	// full enumeration through the public read-only iterator
	var full []imPair
	{
		var ks, vs []atree.Value
		err := r.m.IterateReadOnly(func(k, v atree.Value) (bool, error) {
			ks = append(ks, k)
			vs = append(vs, v)
			return true, nil
		})
		r.rep.Op("IterateReadOnly")
		if err != nil {
			r.viol("C13: read-only iteration failed", err.Error())
			return
		}
		for i := range ks {
			full = append(full, imPair{imIdentValue(ks[i]), imIdentValue(vs[i])})
		}
	}
	ord := r.order()
	if len(ord) != len(full) {
		r.viol("C13: read-only iteration does not yield every entry once", fmt.Sprintf("yielded %d, dictionary has %d", len(full), len(ord)))
		return
	}
	for i, e := range ord {
		if full[i].k != e.k.id || full[i].v != e.vid {
			r.viol("C13: read-only iteration is not the dictionary in canonical order", fmt.Sprintf("position %d: got (%d,%d), want (%d,%d)", i, full[i].k, full[i].v, e.k.id, e.vid))
			return
		}
	}
	if p := imSamePairs(full, w.pairs); p >= 0 {
		r.viol("C13: harness: tree walk and read-only iteration disagree", fmt.Sprintf("position %d", p))
		return
	}
	// operation 0: set the tree
	op := []uint64{0, hdr[3], uint64(len(w.kref))}
	addTable := func(t map[uint64]uint64) {
		var ks []uint64
		for k := range t {
			ks = append(ks, k)
		}
		sort.Slice(ks, func(i, j int) bool { return ks[i] < ks[j] })
		for _, k := range ks {
			op = append(op, k, t[k])
		}
	}
	addTable(w.kref)
	op = append(op, uint64(len(w.vref)))
	addTable(w.vref)
	op = append(op, uint64(len(full)))
	for _, p := range full {
		d := r.b.table[p.k]
		op = append(op, p.k)
		op = append(op, d[:]...)
	}
	op = append(op, tree...)
	r.emit(op, append([]uint64{0, 1, 1, 1}, imEncPairs(full)...))

	r.rep.Event("checkpoints")
	if dirty {
		r.rep.Event("checkpoints_with_uncommitted_changes")
	}
	r.rep.Event(fmt.Sprintf("map_height_%d", w.hgt))
	r.rep.EventN("entries_seen", len(full))
	r.rep.EventN("index_slabs_below_root", len(w.inner))
	r.rep.EventN("data_slabs_below_root", len(w.leaf))
	r.rep.EventN("external_group_slabs", len(w.ext))
	r.rep.EventN("key_slabs", len(w.kref))
	r.rep.EventN("value_slabs", len(w.vref))
	r.rep.EventN("inline_groups", w.nInl)
	r.rep.EventN("list_mode_groups", w.nList)
	if len(w.leaf) > 0 {
		fp := fmt.Sprintf("%s T%d h%d idx%d data%d ext%d k%d v%d inl%d n%d", r.mode, r.T, w.hgt, len(w.inner), len(w.leaf), len(w.ext),
			min(len(w.kref), 3), min(len(w.vref), 3), min(w.nInl, 3), len(full)/8)
		r.rep.Distinct(fp)
	}

	// identifiers that can be loaded / unloaded
	rootIdx := r.m.SlabID().IndexAsUint64()
	var all []uint64
	if dirty {
		for _, id := range atree.VerifStorageCachedIDs(r.st) {
			all = append(all, id.IndexAsUint64())
		}
	} else {
		for _, id := range r.base.SortedIDs() {
			all = append(all, id.IndexAsUint64())
		}
	}
	for si, sub := range r.subsets(w, all) {
		if r.failed {
			return
		}
		evict := dirty || (si+r.cp)%2 == 0
		var st *atree.PersistentSlabStorage
		var m *atree.OrderedMap
		how := "reopen+load"
		if evict {
			how = "evict"
			if !r.loadAll() {
				return
			}
			var drop []atree.SlabID
			for _, x := range all {
				if !sub.keep(x) {
					drop = append(drop, atree.NewSlabID(r.addr, imIndex(x)))
				}
			}
			atree.VerifStorageEvict(r.st, drop)
			st, m = r.st, r.m
		} else {
			st2, m2, err := r.reopen()
			if err != nil {
				r.viol("C13: harness: map cannot be reopened", err.Error())
				return
			}
			var ids []atree.SlabID
			for _, x := range all {
				if x != rootIdx && sub.keep(x) {
					ids = append(ids, atree.NewSlabID(r.addr, imIndex(x)))
				}
			}
			if si%3 == 1 {
				err = st2.BatchPreload(ids, 3)
			} else {
				for _, id := range ids {
					if _, _, err = st2.Retrieve(id); err != nil {
						break
					}
				}
			}
			if err != nil {
				r.viol("C13: harness: preloading slabs failed", err.Error())
				return
			}
			st, m = st2, m2
		}
		before := atree.VerifStorageLoadedIDs(st)
		loaded := map[uint64]bool{}
		opIDs := []uint64{}
		for _, id := range before {
			loaded[id.IndexAsUint64()] = true
			opIDs = append(opIDs, id.IndexAsUint64())
		}
		flavour := (si + r.cp/2) % 2
		ks, vs, err := r.drain(m, flavour, len(full)+8)
		after := atree.VerifStorageLoadedIDs(st)
		where := fmt.Sprintf("subset %s via %s (%d slabs loaded), flavour %d", sub.name, how, len(before), flavour)
		r.rep.Event("loaded_subsets")
		r.rep.Event("loaded_subset:" + strings.TrimRight(sub.name, "0123456789") + ":" + how)
		if err != nil {
			r.viol("C13: map loaded-value iteration over a partially loaded map failed", where+": "+err.Error())
			return
		}
		got := make([]imPair, len(ks))
		for i := range ks {
			got[i] = imPair{imIdentValue(ks[i]), imIdentValue(vs[i])}
		}
		// model step first (the trace records what happened even if an oracle fires)
		r.emit(append([]uint64{uint64(1 + flavour), uint64(len(opIDs))}, opIDs...), append([]uint64{0}, imEncPairs(got)...))
		if !imSameIDs(before, after) {
			r.viol("C13: map loaded-value iteration changed the set of loaded slabs", fmt.Sprintf("%s: %d before, %d after", where, len(before), len(after)))
			return
		}
		expP, expPaths := w.expected(loaded)
		if si%4 == 0 || r.thor {
			obs := []uint64{0, uint64(len(expP))}
			for i, p := range expP {
				obs = append(obs, p.k, uint64(len(expPaths[i])))
				obs = append(obs, expPaths[i]...)
			}
			r.emit(append([]uint64{3, uint64(len(opIDs))}, opIDs...), obs)
		}
		if !imIsSubseq(got, full) {
			r.viol("C13: map loaded-value iteration is not an in-order subsequence of the full enumeration", where)
			return
		}
		seen := map[uint64]bool{}
		for _, p := range got {
			if seen[p.k] {
				r.viol("C13: map loaded-value iteration yields a key twice", fmt.Sprintf("%s: key %d", where, p.k))
				return
			}
			seen[p.k] = true
		}
		if p := imSamePairs(got, expP); p >= 0 {
			r.viol("C13: map loaded-value iteration does not yield exactly the entries reachable through loaded slabs",
				fmt.Sprintf("%s: yielded %d, expected %d, first difference at position %d", where, len(got), len(expP), p))
			return
		}
		if sub.name == "all" && len(got) != len(full) {
			r.viol("C13: map loaded-value iteration with every slab loaded is not the full enumeration", where)
			return
		}
		if len(got) > 0 && len(got) < len(full) {
			r.rep.Event("strict_nonempty_subsequences")
		}
		skippedKV := 0
		for i, p := range w.paths {
			treeOK := true
			n := len(p)
			if w.vref[w.pairs[i].v] != 0 {
				n--
			}
			if w.kref[w.pairs[i].k] != 0 {
				n--
			}
			for _, id := range p[:n] {
				if !loaded[id] {
					treeOK = false
				}
			}
			if treeOK {
				for _, id := range p[n:] {
					if !loaded[id] {
						skippedKV++
						break
					}
				}
			}
		}
		r.rep.EventN("entries_skipped_for_key_or_value_slab", skippedKV)
	}
	if !r.loadAll() {
		return
	}
}

func imPickSize(rng *Rng, small, mid, large, huge int) int {
	switch rng.Pick(15, 35, 35, 15) {
	case 0:
		return rng.Intn(small + 1)
	case 1:
		return small + rng.Intn(mid-small+1)
	case 2:
		return mid + rng.Intn(large-mid+1)
	default:
		return large + rng.Intn(huge-large+1)
	}
}

func (r *imRun) run() {
	target := imPickSize(r.rng, 12, 70, 260, 700)
	if r.thor {
		target = imPickSize(r.rng, 12, 80, 400, 1500)
	}
	r.setupDigests(target)
	var err error
	r.m, err = atree.NewMap(r.st, r.addr, r.b, testutils.NewSimpleTypeInfo(50))
	must(err)
	r.growTo(target / 2)
	r.checkpoint(false)
	r.growTo(target)
	r.checkpoint(false)
	r.churn(max(6, target/12))
	r.checkpoint(true)
	r.churn(max(10, target/5))
	r.checkpoint(false)
	r.shrinkTo(target / 2)
	r.churn(max(4, target/20))
	r.checkpoint(true)
	r.shrinkTo(min(len(r.shadow), r.rng.Intn(13)))
	r.checkpoint(false)
	if r.failed {
		return
	}
	r.shrinkTo(0)
	if err := r.st.FastCommit(2); err != nil {
		r.viol("C13: harness: final commit failed", err.Error())
		return
	}
	if _, err := atree.CheckStorageHealth(r.st, 1); err != nil {
		r.viol("C13: harness: storage health after emptying the map", err.Error())
	}
	if n := len(r.base.SortedIDs()); n != 1 {
		r.viol("C13: harness: slabs left behind after emptying the map", fmt.Sprint(n))
	}
}

func cmdIterMap(a Args) {
	rep := NewReport(a.Prop, a.Seed)
	rep.Rule = "one OrderedMap per history; T in {256,512,1024}; target size 0..700 entries (thorough: 0..1500; 15% <=12, 35% small, 35% medium, " +
		"15% large); keys: unsigned integers, short strings, strings above the key inline limit (own slab); values: unsigned integers, strings " +
		"below/at/above the inline limit (own slab), Some(string) inline and as wrapper around a slab reference, child arrays and child maps " +
		"(inlined, own root slab, several slabs), Some(child array); digests: table digesters (tiny alphabets 1..4 on every level / many level-0 " +
		"digests with 1..4 below / deep groups ending in lists / collision-free) or the default digester with recorded digests; phases grow, " +
		"grow, churn (uncommitted), churn, shrink+churn (uncommitted), shrink to <=12; 6 checkpoints: full dump of the slab tree + key/value slab " +
		"references + digests to the model (round-trip, invariant checker, full enumeration), then 8..16 loaded subsets (nothing, all, all but " +
		"one / none of: data slabs, index slabs, external groups, key-value slabs; tree only; random densities), each produced by reopen+load or " +
		"by evicting the complement from the live read cache, drained through IterateReadOnlyLoadedValues or the iterator object, compared with " +
		"the model's yield, and every 4th with the model's path list; non-trivial = checkpoint on a multi-slab map, distinct by digester mode, " +
		"T, height, slab counts by kind, size"
	defer func() {
		atree.VerifSetThreshold(1024)
		atree.VerifSetMaxCollisionLimitPerDigest(255)
	}()
	tr := NewTrace(a.Out + "/trace.txt")
	defer tr.Close()
	root := NewRng(a.Seed)
	hists, steps, maxH := 0, 0, 0
	for h := 0; h < a.N; h++ {
		hr := root.Fork(uint64(h))
		tag := fmt.Sprintf("h%d", h)
		if !want(tag) {
			continue
		}
		hists++
		T := []uint32{256, 512, 1024}[hr.Pick(50, 30, 20)]
		set := atree.VerifSetThreshold(T)
		atree.VerifSetMaxCollisionLimitPerDigest(255)
		base := NewLogBase()
		st := newStorage(base)
		r := &imRun{rep: rep, tr: tr, hist: h, tag: tag, rng: hr, T: T, cfg: set, base: base, st: st,
			addr: mkAddr(1 + uint64(hr.Intn(3))), thor: a.Mode == "thorough",
			shadow: map[uint64]*imEntry{}, livePos: map[uint64]int{}}
		tr.Hist(tag, uint64(T), imLevels)
		func() {
			defer func() {
				if p := recover(); p != nil {
					r.viol("C13: panic in implementation", fmt.Sprint(p))
				}
			}()
			r.run()
		}()
		steps += r.step
		maxH = max(maxH, r.maxH)
		rep.Event(fmt.Sprintf("T_%d", T))
		rep.Event("map_mode_" + r.mode)
		if h < 3 {
			rep.Sample(fmt.Sprintf("history %s: map %s T=%d, %d checkpoints, %d trace steps, max height %d", tag, r.mode, T, r.cp, r.step, r.maxH))
		}
		atree.VerifSetThreshold(1024)
	}
	rep.Events["max_tree_height"] = maxH
	rep.Histories = hists
	rep.Steps = steps
	rep.Write(a.Out + "/report.json")
}
