//go:build verif

package main

// array_cmd.go — lock-step histories for the array model (coq/theories/ArrayTree.v) with a plain
// Go slice as model-independent oracle.  Serves C01, C05, C09, C13, C18 (array side).

import (
	"fmt"
	"strconv"
	"strings"

	"github.com/onflow/atree"
	testutils "github.com/onflow/atree/test_utils"
)

func init() { register("array", cmdArray) }

// RecStorage records the storeSlab / Storage.Remove calls issued by the containers.
type RecStorage struct {
	In  *atree.PersistentSlabStorage
	Log []int64 // pairs (kind, slab index): 1 = store, 0 = remove
}

func (r *RecStorage) Store(id atree.SlabID, s atree.Slab) error {
	r.Log = append(r.Log, 1, int64(id.IndexAsUint64()))
	return r.In.Store(id, s)
}
func (r *RecStorage) Remove(id atree.SlabID) error {
	r.Log = append(r.Log, 0, int64(id.IndexAsUint64()))
	return r.In.Remove(id)
}
func (r *RecStorage) Retrieve(id atree.SlabID) (atree.Slab, bool, error) { return r.In.Retrieve(id) }
func (r *RecStorage) RetrieveIfLoaded(id atree.SlabID) atree.Slab        { return r.In.RetrieveIfLoaded(id) }
func (r *RecStorage) GenerateSlabID(a atree.Address) (atree.SlabID, error) {
	return r.In.GenerateSlabID(a)
}
func (r *RecStorage) Count() int                                { return r.In.Count() }
func (r *RecStorage) SlabIterator() (atree.SlabIterator, error) { return r.In.SlabIterator() }

type aval struct {
	id  int64
	v   atree.Value
	sz  int64 // size of the storable as stored in the array
	ext bool
}

type arrayRun struct {
	rep     *Report
	tr      *Trace
	hist    int
	tag     string
	step    int
	T       uint32
	rng     *Rng
	base    *LogBase
	st      *atree.PersistentSlabStorage
	rec     *RecStorage
	addr    atree.Address
	arr     *atree.Array
	shadow  []aval
	nextID  int64
	ti      uint64
	failed  bool
	maxH    int
	splits  int
	merges  int
	maxFan  int
	stretch int    // remaining operations of a commit-and-reopen-after-every-operation stretch
	hugeIdx uint64 // index of the current rejected request when it exceeds int64
	tall    bool   // thousands of tiny elements at the smallest slab size, then long runs of tail removals (height 3-4, index-slab rebalancing)
	deep    bool   // many small elements: index slabs with >= 32 children (binary-search routing), height 3

	sz *arraySizes // -mode sizes (array_sizes.go): slab sizes of the whole legal range, directed runs at slab boundaries
}

func (r *arrayRun) viol(what, detail string) {
	if !r.failed {
		r.rep.Violate(r.hist, r.tag, r.step, what, fmt.Sprintf("T=%d %s", r.T, detail))
	}
	r.failed = true
}

// newVal creates an element whose stored size is chosen where the code branches.
func (r *arrayRun) newVal() aval {
	if r.sz != nil && r.sz.forced != nil { // -mode sizes: the generator chose the element
		v := *r.sz.forced
		r.sz.forced = nil
		return v
	}
	rng := r.rng
	r.nextID++
	id := r.nextID
	inl := int(atree.MaxInlineArrayElementSize())
	m := int(r.T) / 2
	mkStr := func(total int) aval {
		// total encoded size = head + len; choose len so that the string value has that ByteSize
		ds := strconv.FormatInt(id, 10)
		l := total - 1
		if total > 24 {
			l = total - 2
		}
		if total > 257 {
			l = total - 3
		}
		if l < len(ds) {
			l = len(ds)
		}
		s := ds + strings.Repeat("x", l-len(ds))
		v := testutils.NewStringValue(s)
		sz := int64(v.ByteSize())
		if int(sz) > inl {
			return aval{id: -id, v: v, sz: int64(atree.SlabIDStorable{}.ByteSize()), ext: true}
		}
		return aval{id: -id, v: v, sz: sz}
	}
	pick := rng.Pick(30, 12, 18, 8, 10, 10, 12)
	if (r.deep && !rng.Chance(3)) || r.tall {
		pick = 0
	}
	switch pick {
	case 0: // small unsigned integers of every CBOR width; identity = the number
		ws := []uint64{0, 24, 256, 65536, 1 << 32}
		base := ws[rng.Intn(len(ws))]
		n := base + uint64(id)
		if base == 0 {
			n = uint64(id % 24)
		}
		v := testutils.Uint64Value(n)
		return aval{id: int64(n), v: v, sz: int64(v.ByteSize())}
	case 1:
		return mkStr(3 + rng.Intn(20))
	case 2: // just fits / just does not fit the inline limit
		return mkStr(inl - 3 + rng.Intn(6))
	case 3: // well above the limit: externalised
		return mkStr(inl + 1 + rng.Intn(200))
	case 4:
		return mkStr(m/2 - 4 + rng.Intn(8))
	case 5:
		return mkStr(inl/2 - 4 + rng.Intn(8))
	default:
		return mkStr(8 + rng.Intn(inl))
	}
}

func (r *arrayRun) elemInfo(s atree.Storable) (int64, uint64) {
	switch x := s.(type) {
	case testutils.Uint64Value:
		return int64(x), 0
	case testutils.StringValue:
		return strID(x), 0
	case atree.SlabIDStorable:
		id := atree.SlabID(x)
		slab, ok, err := r.st.Retrieve(id)
		if err != nil || !ok {
			return 0, id.IndexAsUint64()
		}
		cs := slab.ChildStorables()
		if len(cs) == 1 {
			if sv, ok := cs[0].(testutils.StringValue); ok {
				return strID(sv), id.IndexAsUint64()
			}
		}
		return 0, id.IndexAsUint64()
	}
	return 0, 0
}

func strID(s testutils.StringValue) int64 {
	str := s.String()
	str = strings.Trim(str, "\"")
	k := 0
	for k < len(str) && str[k] >= '0' && str[k] <= '9' {
		k++
	}
	n, _ := strconv.ParseInt(str[:k], 10, 64)
	return -n
}

func (r *arrayRun) encElem(s atree.Storable) []int64 {
	id, ext := r.elemInfo(s)
	return []int64{id, int64(s.ByteSize()), int64(ext)}
}

// tail of a mutating answer: write log, allocator, root header, optional dump
func (r *arrayRun) mutTail(dump bool) []int64 {
	out := []int64{int64(len(r.rec.Log) / 2)}
	out = append(out, r.rec.Log...)
	stores, removes := 0, 0
	for k := 0; k+1 < len(r.rec.Log); k += 2 {
		if r.rec.Log[k] == 1 {
			stores++
		} else {
			removes++
		}
	}
	if r.sz != nil {
		r.sizesLogHook(stores, removes)
	}
	if removes > 0 {
		r.merges++
		r.rep.Event("ops_with_merge_or_promotion")
	}
	if stores >= 3 {
		r.splits++
		r.rep.Event("ops_storing_3_or_more_slabs")
	}
	r.rec.Log = r.rec.Log[:0]
	// allocator: last index handed out for this address = result of a probe we must not make;
	// LogBase exposes its counter
	out = append(out, int64(r.base.LastIndex(r.addr)))
	h := atree.VerifArrayRootHeader(r.arr)
	out = append(out, int64(h[0]), int64(h[1]), int64(h[2]))
	if dump {
		d, err := atree.VerifArrayDump(r.arr, r.elemInfo)
		if err != nil {
			r.viol("C05: slab tree cannot be walked (missing child slab)", err.Error())
		}
		out = append(out, d...)
		r.noteShape(d)
	}
	return out
}

func (r *arrayRun) noteShape(d []int64) {
	p := 0
	maxFan := 0
	var rec func() int
	rec = func() int {
		if p >= len(d) {
			return 0
		}
		if d[p] == 0 {
			p += 6 + 3*int(d[p+5])
			return 1
		}
		n := int(d[p+4])
		if n > maxFan {
			maxFan = n
		}
		p += 5 + 4*n
		h := 0
		for k := 0; k < n; k++ {
			if x := rec(); x > h {
				h = x
			}
		}
		return h + 1
	}
	h := rec()
	if h > r.maxH {
		r.maxH = h
	}
	if maxFan > r.maxFan {
		r.maxFan = maxFan
	}
}

func (r *arrayRun) wantDump() int64 {
	if r.sz != nil {
		return r.sizesWantDump()
	}
	every := 16
	if r.deep {
		every = 96
	}
	if r.tall {
		every = 768
	}
	if len(r.shadow) <= 48 || r.step%every == 0 {
		return 1
	}
	return 0
}

func errCode(err error) int64 {
	var e1 *atree.IndexOutOfBoundsError
	var e2 *atree.SliceOutOfBoundsError
	var e3 *atree.InvalidSliceIndexError
	switch {
	case asErr(err, &e1):
		return 1
	case asErr(err, &e2):
		return 2
	case asErr(err, &e3):
		return 3
	}
	if strings.Contains(err.Error(), "exceed") {
		return 4
	}
	return 99
}

// checkUserError: argument errors carry the UserError category (C18)
func (r *arrayRun) checkUserError(err error, what string) {
	var ue *atree.UserError
	if !asErr(err, &ue) {
		r.viol("C18: "+what+" not categorised as UserError", err.Error())
	}
	var fe *atree.FatalError
	if asErr(err, &fe) {
		r.viol("C18: "+what+" categorised as FatalError", err.Error())
	}
}

func (r *arrayRun) disposeElem(s atree.Storable) {
	if sid, ok := s.(atree.SlabIDStorable); ok {
		must(r.st.Remove(atree.SlabID(sid)))
	}
}

// snapshot of everything a rejected request must leave untouched
func (r *arrayRun) stateFingerprint() string {
	d, _ := atree.VerifArrayDump(r.arr, r.elemInfo)
	dk, _ := atree.VerifStorageKeys(r.st)
	ids := make([]string, 0, len(dk))
	for k, v := range dk {
		ids = append(ids, fmt.Sprintf("%s:%v", k, v))
	}
	sortStrings(ids)
	return fmt.Sprint(d, ids, r.base.LastIndex(r.addr))
}

func (r *arrayRun) doGet(i uint64) {
	r.rep.Op("get")
	s, err := r.arr.Get(i)
	if i < uint64(len(r.shadow)) {
		if err != nil {
			r.viol("C01: in-range Get failed", err.Error())
			r.tr.Step([]int64{1, int64(i)}, []int64{99})
			r.step++
			return
		}
		// identity of the returned value
		var id int64
		switch x := s.(type) {
		case testutils.Uint64Value:
			id = int64(x)
		case testutils.StringValue:
			id = strID(x)
		}
		if id != r.shadow[i].id {
			r.viol("C01: Get returned a different element than the plain sequence holds", fmt.Sprintf("i=%d got=%d want=%d", i, id, r.shadow[i].id))
		}
		// answer: element as stored (size of storable, external index) is read from the slab tree
		e, ok := r.storedElem(i)
		if !ok {
			r.tr.Step([]int64{1, int64(i)}, []int64{99})
		} else {
			r.tr.Step([]int64{1, int64(i)}, append([]int64{0}, e...))
		}
		r.step++
		return
	}
	r.rep.Err("IndexOutOfBounds")
	opLine := "1 " + strconv.FormatUint(i, 10)
	if err == nil {
		r.viol("C01: out-of-range Get did not fail", fmt.Sprint(i))
		r.tr.StepRaw(opLine, []int64{98})
	} else {
		r.checkUserError(err, "index out of bounds")
		r.tr.StepRaw(opLine, []int64{9, errCode(err)})
	}
	r.step++
}

// storedElem reads element i as stored (id, size, ext) through the data slab (root.Get)
func (r *arrayRun) storedElem(i uint64) ([]int64, bool) {
	s, err := atree.VerifArrayGetStorable(r.arr, i)
	if err != nil {
		return nil, false
	}
	return r.encElem(s), true
}

func (r *arrayRun) doMut(kind int, i uint64) {
	r.hugeIdx = 0
	if i > 1<<63-1 {
		r.hugeIdx = i
	}
	n := uint64(len(r.shadow))
	d := r.wantDump()
	switch kind {
	case 2: // set
		r.rep.Op("set")
		v := r.newVal()
		op := []int64{2, int64(i), v.id, v.sz, b2i(v.ext), d}
		if i >= n {
			r.rejected(op, func() error { _, err := r.arr.Set(i, v.v); return err }, "set")
			return
		}
		old, err := r.arr.Set(i, v.v)
		if err != nil {
			r.viol("C01: in-range Set failed", err.Error())
			r.tr.Step(op, []int64{99})
			r.step++
			return
		}
		oid, _ := r.elemInfo(old)
		if oid != r.shadow[i].id {
			r.viol("C01: Set returned a different previous element than the plain sequence", fmt.Sprintf("i=%d got=%d want=%d", i, oid, r.shadow[i].id))
		}
		obs := append([]int64{0}, r.encElem(old)...)
		r.shadow[i] = v
		obs = append(obs, r.mutTail(d == 1)...)
		r.disposeElem(old)
		r.tr.Step(op, obs)
	case 3, 4: // insert, append
		v := r.newVal()
		var op []int64
		var err error
		if kind == 4 {
			r.rep.Op("append")
			op = []int64{4, v.id, v.sz, b2i(v.ext), d}
			i = n
			err = r.arr.Append(v.v)
		} else {
			r.rep.Op("insert")
			op = []int64{3, int64(i), v.id, v.sz, b2i(v.ext), d}
			if i > n {
				r.rejected(op, func() error { return r.arr.Insert(i, v.v) }, "insert")
				return
			}
			err = r.arr.Insert(i, v.v)
		}
		if err != nil {
			r.viol("C01: in-range Insert/Append failed", err.Error())
			r.tr.Step(op, []int64{99})
			r.step++
			return
		}
		r.shadow = append(r.shadow, aval{})
		copy(r.shadow[i+1:], r.shadow[i:])
		r.shadow[i] = v
		r.tr.Step(op, append([]int64{1}, r.mutTail(d == 1)...))
	case 5:
		r.rep.Op("remove")
		op := []int64{5, int64(i), d}
		if i >= n {
			r.rejected(op, func() error { _, err := r.arr.Remove(i); return err }, "remove")
			return
		}
		old, err := r.arr.Remove(i)
		if err != nil {
			r.viol("C01: in-range Remove failed", err.Error())
			r.tr.Step(op, []int64{99})
			r.step++
			return
		}
		oid, _ := r.elemInfo(old)
		if oid != r.shadow[i].id {
			r.viol("C01: Remove returned a different element than the plain sequence", fmt.Sprintf("i=%d got=%d want=%d", i, oid, r.shadow[i].id))
		}
		obs := append([]int64{0}, r.encElem(old)...)
		r.shadow = append(r.shadow[:i], r.shadow[i+1:]...)
		obs = append(obs, r.mutTail(d == 1)...)
		r.disposeElem(old)
		r.tr.Step(op, obs)
	}
	r.step++
	if uint64(len(r.shadow)) != r.arr.Count() {
		r.viol("C01: Count differs from the plain sequence", fmt.Sprintf("%d vs %d", r.arr.Count(), len(r.shadow)))
	}
}

// rejected: an argument error must name its cause, be a UserError, and leave no trace (C18)
func (r *arrayRun) rejected(op []int64, f func() error, what string) {
	r.rep.Err("IndexOutOfBounds")
	before := r.stateFingerprint()
	nlog := len(r.rec.Log)
	err := f()
	if err == nil {
		r.viol("C18: out-of-range "+what+" was not rejected", fmt.Sprint(op))
		r.tr.Step(op, []int64{98})
		r.step++
		return
	}
	var ioe *atree.IndexOutOfBoundsError
	if !asErr(err, &ioe) {
		r.viol("C18: out-of-range "+what+" not reported as IndexOutOfBoundsError", err.Error())
	}
	r.checkUserError(err, "index out of bounds")
	if r.stateFingerprint() != before || len(r.rec.Log) != nlog {
		r.viol("C18: rejected "+what+" left a trace (slab tree, write set or allocator changed)", fmt.Sprint(op))
	}
	obs := append([]int64{9, errCode(err)}, r.mutTail(op[len(op)-1] == 1)...)
	if r.hugeIdx != 0 {
		// the index does not fit int64: format the operation line by hand
		parts := make([]string, len(op))
		for k, x := range op {
			parts[k] = strconv.FormatInt(x, 10)
		}
		parts[1] = strconv.FormatUint(r.hugeIdx, 10)
		r.tr.StepRaw(strings.Join(parts, " "), obs)
	} else {
		r.tr.Step(op, obs)
	}
	r.step++
}

func (r *arrayRun) doIterate() {
	r.rep.Op("iterate")
	obs := []int64{4, 0}
	k := 0
	err := r.arr.IterateReadOnly(func(v atree.Value) (bool, error) {
		k++
		return true, nil
	})
	if err != nil || k != len(r.shadow) {
		r.viol("C13: read-only iteration does not yield every element exactly once", fmt.Sprintf("%d of %d %v", k, len(r.shadow), err))
	}
	// stored elements in order (through the leaves' sibling links)
	els, err := atree.VerifArrayStorables(r.arr)
	if err != nil {
		r.viol("C13: traversal along sibling links failed", err.Error())
	}
	obs[1] = int64(len(els))
	for j, s := range els {
		obs = append(obs, r.encElem(s)...)
		if j < len(r.shadow) {
			if id, _ := r.elemInfo(s); id != r.shadow[j].id {
				r.viol("C13: iteration order differs from the plain sequence", fmt.Sprintf("pos %d", j))
			}
		}
	}
	r.tr.Step([]int64{10}, obs)
	r.step++
}

func (r *arrayRun) doRange(a, b uint64) {
	r.rep.Op("range")
	n := uint64(len(r.shadow))
	var got []int64
	cnt := 0
	err := r.arr.IterateReadOnlyRange(a, b, func(v atree.Value) (bool, error) {
		var id int64
		switch x := v.(type) {
		case testutils.Uint64Value:
			id = int64(x)
		case testutils.StringValue:
			id = strID(x)
		}
		got = append(got, id)
		cnt++
		return true, nil
	})
	valid := a <= n && b <= n && a <= b
	if valid {
		if err != nil {
			r.viol("C13: valid range rejected", fmt.Sprintf("[%d,%d) of %d: %v", a, b, n, err))
			r.tr.Step([]int64{11, int64(a), int64(b)}, []int64{99})
			r.step++
			return
		}
		if cnt != int(b-a) {
			r.viol("C13: range iteration yields wrong number of elements", fmt.Sprintf("[%d,%d): %d", a, b, cnt))
		}
		for j, id := range got {
			if id != r.shadow[int(a)+j].id {
				r.viol("C13: range iteration differs from the plain sequence", fmt.Sprintf("[%d,%d) pos %d", a, b, j))
				break
			}
		}
		els, _ := atree.VerifArrayStorables(r.arr)
		obs := []int64{4, int64(b - a)}
		for _, s := range els[a:b] {
			obs = append(obs, r.encElem(s)...)
		}
		r.tr.Step([]int64{11, int64(a), int64(b)}, obs)
	} else {
		r.rep.Err("RangeError")
		if err == nil {
			r.viol("C13: invalid range accepted", fmt.Sprintf("[%d,%d) of %d", a, b, n))
			r.tr.Step([]int64{11, int64(a), int64(b)}, []int64{98})
		} else {
			r.checkUserError(err, "invalid range")
			r.tr.Step([]int64{11, int64(a), int64(b)}, []int64{9, errCode(err)})
		}
	}
	r.step++
}

func (r *arrayRun) doPop() {
	r.rep.Op("pop")
	var popped []atree.Storable
	err := r.arr.PopIterate(func(s atree.Storable) { popped = append(popped, s) })
	if err != nil {
		r.viol("C01: PopIterate failed", err.Error())
	}
	if len(popped) != len(r.shadow) {
		r.viol("C13: PopIterate did not yield every element exactly once", fmt.Sprintf("%d of %d", len(popped), len(r.shadow)))
	}
	obs := []int64{4, int64(len(popped))}
	for j, s := range popped {
		obs = append(obs, r.encElem(s)...)
		if k := len(r.shadow) - 1 - j; k >= 0 {
			if id, _ := r.elemInfo(s); id != r.shadow[k].id {
				r.viol("C13: PopIterate order is not the reverse of the sequence", fmt.Sprintf("pos %d", j))
			}
		}
	}
	r.shadow = nil
	obs = append(obs, r.mutTail(true)...)
	for _, s := range popped {
		r.disposeElem(s)
	}
	r.tr.Step([]int64{6, 1}, obs)
	r.step++
	// C09: emptying releases every auxiliary slab: only the root remains
	dk := r.liveIDs()
	if len(dk) != 1 {
		r.viol("C09: emptying the array did not release every other slab", fmt.Sprint(dk))
	}
}

func (r *arrayRun) liveIDs() []atree.SlabID {
	w := &World{St: r.st, Base: r.base}
	return w.LiveIDs()
}

func (r *arrayRun) verify() {
	if err := atree.VerifyArray(r.arr, r.addr, testutils.NewSimpleTypeInfo(r.ti), testutils.CompareTypeInfo, testutils.GetHashInput, true); err != nil {
		r.viol("C05: VerifyArray failed", err.Error())
	}
	if _, err := atree.CheckStorageHealth(r.st, 1); err != nil {
		r.viol("C09: CheckStorageHealth failed", err.Error())
	}
	// C09: storage holds exactly the slabs reachable from the root
	d, _ := atree.VerifArrayDump(r.arr, r.elemInfo)
	reach := dumpSlabIDs(d)
	live := r.liveIDs()
	if len(reach) != len(live) {
		r.viol("C09: set of slabs in storage differs from the set reachable from the root", fmt.Sprintf("reachable=%d live=%d", len(reach), len(live)))
	}
}

// dumpSlabIDs collects the slab indexes (tree slabs and external value slabs) named in a dump
func dumpSlabIDs(d []int64) map[int64]bool {
	ids := map[int64]bool{}
	p := 0
	var rec func()
	rec = func() {
		if p >= len(d) {
			return
		}
		if d[p] == 0 {
			ids[d[p+1]] = true
			n := int(d[p+5])
			p += 6
			for k := 0; k < n; k++ {
				if d[p+2] != 0 {
					ids[d[p+2]] = true
				}
				p += 3
			}
		} else {
			ids[d[p+1]] = true
			n := int(d[p+4])
			p += 5 + 4*n
			for k := 0; k < n; k++ {
				rec()
			}
		}
	}
	rec()
	return ids
}

func (r *arrayRun) reopenCheck() {
	// C01/C03: after commit the array can be reopened by its root identifier in a brand-new storage
	var err error
	mode := r.rng.Intn(4)
	if r.stretch > 0 {
		mode = 2 + r.rng.Intn(2) // commit after every operation, reopen on the same storage
	}
	if mode&1 == 1 {
		err = r.st.NondeterministicFastCommit(1 + r.rng.Intn(4))
	} else {
		err = r.st.FastCommit(1 + r.rng.Intn(4))
	}
	if err != nil {
		r.viol("commit failed", err.Error())
		return
	}
	var st2 atree.SlabStorage = newStorage(r.base.Clone())
	if mode >= 2 {
		st2 = r.st // reopen on the SAME storage (served from its read cache): C08
	}
	a2, err := atree.NewArrayWithRootID(st2, r.arr.SlabID())
	if err != nil {
		r.viol("C01: array cannot be reopened by its root identifier", err.Error())
		return
	}
	if a2.Count() != uint64(len(r.shadow)) {
		r.viol("C03: reopened array has a different count", fmt.Sprintf("%d vs %d", a2.Count(), len(r.shadow)))
		return
	}
	j := 0
	_ = a2.IterateReadOnly(func(v atree.Value) (bool, error) {
		var id int64
		switch x := v.(type) {
		case testutils.Uint64Value:
			id = int64(x)
		case testutils.StringValue:
			id = strID(x)
		}
		if j < len(r.shadow) && id != r.shadow[j].id {
			r.viol("C03: reopened array content differs", fmt.Sprintf("pos %d", j))
		}
		j++
		return true, nil
	})
	if ti, ok := a2.Type().(testutils.SimpleTypeInfo); !ok || ti.Value() != r.ti {
		r.viol("C03: reopened array has a different type", "")
	}
}

func cmdArray(a Args) {
	if a.Mode == "sizes" {
		cmdArraySizes(a)
		return
	}
	rep := NewReport(a.Prop, a.Seed)
	rep.Rule = "array histories in phases (grow, churn, shrink to empty, regrow) at slab sizes {256,257,300,511,512,1024,1536,4096,32768}; element sizes concentrated at the inline limit, half of it, a quarter slab, and above the limit (externalised); positions front/back/uniform; out-of-range requests and invalid ranges injected; per step: result, write log, allocator, root header, and (small arrays always, else every 16th step) the whole slab tree are compared with the Coq model; oracle: plain Go slice, VerifyArray, health, reopen after commit. non-trivial = at least one operation split a slab and at least one merged slabs or promoted a child to root (seen in the write log)"
	tr := NewTrace(a.Out + "/trace.txt")
	rng := NewRng(a.Seed)
	sizes := []uint32{256, 257, 300, 511, 512, 1024, 1536, 4096, 32768}
	defer atree.VerifSetThreshold(1024)
	for h := 0; h < a.N; h++ {
		hr := rng.Fork(uint64(h))
		tag := fmt.Sprintf("a%d", h)
		if !want(tag) {
			continue
		}
		T := sizes[hr.Pick(20, 8, 8, 6, 10, 14, 6, 5, 2)]
		deep := h%10 == 9
		if deep {
			T = []uint32{256, 512, 1024}[hr.Intn(3)]
		}
		tall := h%20 == 14
		if tall {
			T, deep = 256, false
		}
		atree.VerifSetThreshold(T)
		base := NewLogBase()
		st := newStorage(base)
		rec := &RecStorage{In: st}
		addr := mkAddr(1 + uint64(hr.Intn(3)))
		ti := uint64(40 + hr.Intn(3))
		arr, err := atree.NewArray(rec, addr, testutils.NewSimpleTypeInfo(ti))
		must(err)
		r := &arrayRun{rep: rep, tr: tr, hist: h, tag: tag, T: T, rng: hr, base: base, st: st, rec: rec, addr: addr, arr: arr, ti: ti, deep: deep, tall: tall}
		rec.Log = rec.Log[:0]
		tr.Hist(tag, uint64(T), arr.SlabID().IndexAsUint64(), ti)
		steps := a.Steps/2 + hr.Intn(a.Steps)
		if T >= 4096 {
			steps = steps * 2
		}
		if deep {
			steps = 2200 + hr.Intn(1500)
			if T == 256 {
				steps += 1500 // height 3 at the smallest slab size
			}
		}
		func() {
			defer func() {
				if p := recover(); p != nil {
					r.viol("panic in implementation", fmt.Sprint(p))
				}
			}()
			if tall {
				// grow by appends, then remove mostly from the tail (sometimes the front) until empty
				grow := 5000 + hr.Intn(6000)
				for k := 0; k < grow && !r.failed; k++ {
					r.doMut(4, 0)
					if k%512 == 511 {
						r.verify()
					}
				}
				front := hr.Chance(20)
				for k := 0; len(r.shadow) > 0 && !r.failed; k++ {
					n := uint64(len(r.shadow))
					switch {
					case hr.Chance(2):
						r.doMut(5, uint64(hr.Intn(int(n))))
					case front:
						r.doMut(5, 0)
					default:
						r.doMut(5, n-1)
					}
					if k%256 == 255 {
						r.verify()
					}
				}
				steps = 0
			}
			phase := 0 // 0 grow, 1 churn, 2 shrink, 3 regrow
			sawMeta, sawBack := false, false
			for k := 0; k < steps && !r.failed; k++ {
				n := uint64(len(r.shadow))
				if deep && k < steps*3/5 {
					phase = 0
				} else if k == steps*2/5 {
					phase = 1
				} else if k == steps*3/5 {
					phase = 2
				} else if k == steps*4/5 {
					phase = 3
				}
				pos := func(max uint64) uint64 { // position in [0,max]
					switch hr.Pick(40, 25, 25, 10) {
					case 0:
						return uint64(hr.Intn(int(max) + 1))
					case 1:
						return 0
					case 2:
						return max
					default:
						if max > 3 {
							return max - uint64(hr.Intn(3))
						}
						return max
					}
				}
				var wIns, wRem, wSet int
				switch phase {
				case 0, 3:
					wIns, wRem, wSet = 60, 8, 10
				case 1:
					wIns, wRem, wSet = 28, 28, 25
				default:
					wIns, wRem, wSet = 6, 65, 8
				}
				switch hr.Pick(wIns, wRem, wSet, 8, 3, 2, 2, 1) {
				case 0:
					if hr.Chance(35) {
						r.doMut(4, 0)
					} else {
						r.doMut(3, pos(n))
					}
				case 1:
					if n == 0 {
						r.doMut(5, 0) // rejected
					} else {
						r.doMut(5, pos(n-1))
					}
				case 2:
					if n == 0 {
						r.doMut(2, 0)
					} else {
						r.doMut(2, pos(n-1))
					}
				case 3:
					if n > 0 {
						r.doGet(pos(n - 1))
					} else {
						r.doGet(0)
					}
				case 4: // invalid requests
					bad := []uint64{n, n + 1, n + 7, 1 << 32, ^uint64(0) >> 1, 1 << 63, ^uint64(0)}
					i := bad[hr.Intn(len(bad))]
					switch hr.Intn(4) {
					case 0:
						r.doGet(i)
					case 1:
						r.doMut(2, i)
					case 2:
						r.doMut(5, i)
					default:
						if i == n {
							i++
						}
						r.doMut(3, i)
					}
				case 5:
					r.doIterate()
				case 6:
					x, y := pos(n), pos(n)
					if hr.Chance(25) {
						x, y = pos(n+2), pos(n+2)
					}
					if x > y && hr.Chance(80) {
						x, y = y, x
					}
					r.doRange(x, y)
				case 7:
					r.rep.Op("count/type")
					r.tr.Step([]int64{7}, []int64{2, int64(r.arr.Count())})
					r.step++
					if hr.Bool() {
						r.ti = uint64(40 + hr.Intn(3))
						must(r.arr.SetType(testutils.NewSimpleTypeInfo(r.ti)))
						r.tr.Step([]int64{9, int64(r.ti), 0}, append([]int64{1}, r.mutTail(false)...))
						r.step++
					}
					if tiv, ok := r.arr.Type().(testutils.SimpleTypeInfo); ok {
						r.tr.Step([]int64{8}, []int64{3, int64(tiv.Value())})
						r.step++
					}
				}
				h3 := atree.VerifArrayRootHeader(r.arr)
				_ = h3
				if !r.arr.IsWithinSingleSlab() {
					sawMeta = true
				} else if sawMeta {
					sawBack = true
				}
				if (k%8 == 7 && !deep && !tall) || len(r.shadow) < 40 || k%64 == 63 {
					r.verify()
				}
				if k%97 == 96 {
					r.reopenCheck()
				}
				if k == steps*3/5 && !deep && !tall && hr.Chance(40) {
					r.stretch = 80 // the shrink phase starts: root promotions happen under a commit-every-op schedule
				}
				if r.stretch > 0 {
					r.reopenCheck()
					r.stretch--
				}
			}
			if !r.failed {
				r.doIterate()
				r.reopenCheck()
				r.doPop()
				r.verify()
			}
			_ = sawBack
			if r.splits > 0 && r.merges > 0 {
				rep.Distinct(tag)
			}
			if sawMeta {
				rep.Event("reached_index_root")
			}
			rep.Event(fmt.Sprintf("max_height_%d", r.maxH))
			if r.maxFan >= 32 {
				rep.Event("index_slab_with_32_or_more_children(binary search routing)")
			}
		}()
		if h < 2 {
			rep.Sample(fmt.Sprintf("history %s: T=%d, %d steps, final length before pop %d", tag, T, r.step, len(r.shadow)))
		}
	}
	tr.Close()
	rep.Histories = tr.Hists
	rep.Steps = tr.Steps
	rep.Write(a.Out + "/report.json")
}
