//go:build verif

package main

// decode_cmd.go — C19 "decoding untrusted bytes never panics or hangs".
//
// Input streams
//   b0      every byte string of length <= 2 (65 793 inputs)
//   b1      random byte strings of length 0..64
//   b<k>    k >= 2: one VALID register (version 1 from random histories, version 0 from the
//           repository's test fixtures and from a small v0 encoder that is checked against the real
//           decoder) with its structured mutations (atree-level fields, CBOR heads, item-level edits of
//           decode_items.go: type changes, counts with payload, swaps, cuts) and byte-level mutations.
//           The version-1 corpus includes random forests of inlined arrays / maps / composite-typed
//           (compact) maps up to four levels deep (c19BuildForests).
//   after the per-register batches (same tag scheme b<k>, see kFocus / kHdr / kSpine in cmdDecode):
//   focus   one batch per register with an inlined-extra-data section: the COMPLETE item-level stream on
//           the root extra data and the section (every item retyped to every form the callbacks decode,
//           major types, counts/lengths up and down with and without payload, swaps, cuts at every byte);
//   hdr     one batch: fixed-layout headers of metadata slabs of every kind and both versions: child count
//           in {0,1,2,n-1,n,n+1,2n,255,256,0x7fff,0x8000,0xffff} x payload {as is, exactly that many
//           headers, one byte short, one header short, one byte long, one header long, none}, header fields;
//   spine   one batch: the counted fields of data slabs of every kind (element array, digests, elements).
// A panic of the implementation while the corpus is built (DecodeSlab on a register that is meant to be
// valid) does not end the run: the register is pinned into the corpus and reported by its own batch.
// For every input, inside recover(): IsRootOfAnObject, HasPointers, HasSizeLimit, DecodeSlab and, on
// success, ByteSize, ChildStorables (recursively), SlabID, EncodeSlab.  Observables: panic, wall
// time, allocated bytes (sampled on one goroutine).  Accepted inputs also go through
// PersistentSlabStorage.Retrieve + NewArrayWithRootID/NewMapWithRootID + bounded read-only iteration
// (information only: events post_*).  EncodeSlab panics on slabs decoded from attacker-made bytes are
// observations (events reencode_panic / reencode_overalloc + one sample), never violations: C19 covers
// DecodeSlab, the header queries and ByteSize/ChildStorables only.  trace.txt carries the header queries
// and the metadata-slab decodes for the Coq engine `decode` (DecodeTrace.v).
//
// Flags: default = quick tier (~700 000 inputs, ~8 s); -n 10000000 -mode thorough = thorough tier (~15 M inputs, ~2 min);
// -only b<k> replays one batch.

import (
	"encoding/binary"
	"encoding/hex"
	"errors"
	"fmt"
	"math"
	"os"
	"runtime"
	"sort"
	"strings"
	"sync"
	"sync/atomic"
	"time"

	"github.com/fxamacker/cbor/v2"
	"github.com/onflow/atree"
	testutils "github.com/onflow/atree/test_utils"
)

func init() { register("decode", cmdDecode) }

// Allocation oracle: decoding (3 header queries + DecodeSlab + ByteSize/ChildStorables walk) of an input of
// n bytes may allocate at most c19AllocBase + c19AllocPerByte*n bytes.  Tuned on the unchanged library:
// valid registers stay below 1/4 of the bound (reported as alloc_max_ratio_valid_permille).
const (
	c19AllocBase    = 16 * 1024
	c19AllocPerByte = 256
)

// ---------------------------------------------------------------------------------------------
// hardened callbacks
// ---------------------------------------------------------------------------------------------

const (
	c19TagUint8      = 161 // tag numbers of test_utils/value_utils.go (unexported there)
	c19TagUint16     = 162
	c19TagUint32     = 163
	c19TagUint64     = 164
	c19TagSome       = 165
	c19TagSomeNested = 167
	c19TagComposite  = 200 // composite type info of this harness (246 collides with CBORTagTypeInfoRef)
	c19MaxSomeLevels = 64
)

// decodeStorableSafe mirrors test_utils.DecodeStorable but bounds the attacker-chosen nesting count.
func decodeStorableSafe(dec *cbor.StreamDecoder, id atree.SlabID, inlinedExtraData []atree.ExtraData) (atree.Storable, error) {
	t, err := dec.NextType()
	if err != nil {
		return nil, err
	}
	switch t {
	case cbor.TextStringType:
		s, err := dec.DecodeString()
		if err != nil {
			return nil, err
		}
		return testutils.NewStringValue(s), nil

	case cbor.TagType:
		tagNumber, err := dec.DecodeTagNumber()
		if err != nil {
			return nil, err
		}
		switch tagNumber {
		case atree.CBORTagInlinedArray:
			return atree.DecodeInlinedArrayStorable(dec, decodeStorableSafe, id, inlinedExtraData)
		case atree.CBORTagInlinedMap:
			return atree.DecodeInlinedMapStorable(dec, decodeStorableSafe, id, inlinedExtraData)
		case atree.CBORTagInlinedCompactMap:
			return atree.DecodeInlinedCompactMapStorable(dec, decodeStorableSafe, id, inlinedExtraData)
		case atree.CBORTagSlabID:
			return atree.DecodeSlabIDStorable(dec)
		case c19TagUint8:
			n, err := dec.DecodeUint64()
			if err != nil {
				return nil, err
			}
			if n > math.MaxUint8 {
				return nil, fmt.Errorf("invalid data, got %d, expected max %d", n, math.MaxUint8)
			}
			return testutils.Uint8Value(n), nil
		case c19TagUint16:
			n, err := dec.DecodeUint64()
			if err != nil {
				return nil, err
			}
			if n > math.MaxUint16 {
				return nil, fmt.Errorf("invalid data, got %d, expected max %d", n, math.MaxUint16)
			}
			return testutils.Uint16Value(n), nil
		case c19TagUint32:
			n, err := dec.DecodeUint64()
			if err != nil {
				return nil, err
			}
			if n > math.MaxUint32 {
				return nil, fmt.Errorf("invalid data, got %d, expected max %d", n, math.MaxUint32)
			}
			return testutils.Uint32Value(n), nil
		case c19TagUint64:
			n, err := dec.DecodeUint64()
			if err != nil {
				return nil, err
			}
			return testutils.Uint64Value(n), nil
		case c19TagSome:
			st, err := decodeStorableSafe(dec, id, inlinedExtraData)
			if err != nil {
				return nil, err
			}
			return testutils.SomeStorable{Storable: st}, nil
		case c19TagSomeNested:
			count, err := dec.DecodeArrayHead()
			if err != nil {
				return nil, fmt.Errorf("invalid some value with nested levels encoding: %w", err)
			}
			if count != 2 {
				return nil, fmt.Errorf("invalid array count for some value with nested levels encoding: got %d", count)
			}
			levels, err := dec.DecodeUint64()
			if err != nil {
				return nil, fmt.Errorf("invalid nested levels: %w", err)
			}
			if levels <= 1 || levels > c19MaxSomeLevels { // the bound is the hardening
				return nil, fmt.Errorf("invalid nested levels: got %d, expect 2..%d", levels, c19MaxSomeLevels)
			}
			inner, err := decodeStorableSafe(dec, id, inlinedExtraData)
			if err != nil {
				return nil, err
			}
			st := testutils.SomeStorable{Storable: inner}
			for i := uint64(1); i < levels; i++ {
				st = testutils.SomeStorable{Storable: st}
			}
			return st, nil
		default:
			return nil, fmt.Errorf("invalid tag number %d", tagNumber)
		}
	default:
		return nil, fmt.Errorf("invalid cbor type %s for storable", t)
	}
}

// c19Composite is a composite type info (makes inlined maps eligible for the compact encoding).
type c19Composite struct{ v uint64 }

func (c c19Composite) Copy() atree.TypeInfo { return c }
func (c c19Composite) IsComposite() bool    { return true }
func (c c19Composite) Encode(enc *cbor.StreamEncoder) error {
	if err := enc.EncodeTagHead(c19TagComposite); err != nil {
		return err
	}
	return enc.EncodeUint64(c.v)
}

// c19DecodeTypeInfo = test_utils.DecodeTypeInfo plus the harness' composite tag.
func c19DecodeTypeInfo(dec *cbor.StreamDecoder) (atree.TypeInfo, error) {
	t, err := dec.NextType()
	if err != nil {
		return nil, err
	}
	switch t {
	case cbor.UintType:
		v, err := dec.DecodeUint64()
		if err != nil {
			return nil, err
		}
		return testutils.NewSimpleTypeInfo(v), nil
	case cbor.TagType:
		tag, err := dec.DecodeTagNumber()
		if err != nil {
			return nil, err
		}
		switch tag {
		case c19TagComposite:
			v, err := dec.DecodeUint64()
			if err != nil {
				return nil, err
			}
			return c19Composite{v}, nil
		case testutils.CompositeTypeInfoTagNum:
			v, err := dec.DecodeUint64()
			if err != nil {
				return nil, err
			}
			return testutils.NewCompositeTypeInfo(v), nil
		}
		return nil, fmt.Errorf("failed to decode type info")
	}
	return nil, fmt.Errorf("failed to decode type info")
}

// ---------------------------------------------------------------------------------------------
// table-driven digester: tiny alphabets per level => collision groups (inline and external)
// ---------------------------------------------------------------------------------------------

type c19DigesterBuilder struct {
	k0, k1 uint64
	alpha  [4]uint64 // alphabet size per level; 0 = full 64 bits
}

type c19Digester struct{ d [4]atree.Digest }

func c19Mix(z uint64) uint64 {
	z += 0x9E3779B97F4A7C15
	z = (z ^ (z >> 30)) * 0xBF58476D1CE4E5B9
	z = (z ^ (z >> 27)) * 0x94D049BB133111EB
	return z ^ (z >> 31)
}

func (b *c19DigesterBuilder) SetSeed(k0, k1 uint64) { b.k0, b.k1 = k0, k1 }
func (b *c19DigesterBuilder) Digest(hip atree.HashInputProvider, v atree.Value) (atree.Digester, error) {
	var scratch [64]byte
	msg, err := hip(v, scratch[:])
	if err != nil {
		return nil, err
	}
	h := uint64(14695981039346656037) ^ b.k0
	for _, c := range msg {
		h = (h ^ uint64(c)) * 1099511628211
	}
	d := &c19Digester{}
	for l := 0; l < 4; l++ {
		x := c19Mix(h + uint64(l)*0xA24BAED4963EE407)
		if b.alpha[l] > 0 {
			x %= b.alpha[l]
		}
		d.d[l] = atree.Digest(x)
	}
	return d, nil
}
func (d *c19Digester) DigestPrefix(level uint) ([]atree.Digest, error) {
	if level > 4 {
		return nil, fmt.Errorf("digest level %d out of range", level)
	}
	return append([]atree.Digest(nil), d.d[:level]...), nil
}
func (d *c19Digester) Digest(level uint) (atree.Digest, error) {
	if level >= 4 {
		return 0, fmt.Errorf("digest level %d out of range", level)
	}
	return d.d[level], nil
}
func (d *c19Digester) Reset()       {}
func (d *c19Digester) Levels() uint { return 4 }

// ---------------------------------------------------------------------------------------------
// corpus of valid registers
// ---------------------------------------------------------------------------------------------

type c19Reg struct {
	id   atree.SlabID
	data []byte
	segs map[atree.SlabID][]byte // the ledger the register lives in (read-only), nil if synthetic
	src  string                  // v1 | v1inl | v0fix | v0enc | v0conv
	pin  bool                    // always selected (a register of the corpus on which DecodeSlab panicked)
}

// c19SlabKind names the slab kind announced by the 2-byte head.
func c19SlabKind(data []byte) string {
	if len(data) < 2 {
		return "short"
	}
	v := data[0] >> 4
	f := data[1]
	k := "undef"
	switch (f & 0x18) >> 3 {
	case 0:
		switch f & 7 {
		case 0:
			k = "arrayData"
		case 1:
			k = "arrayMeta"
		default:
			k = "arrayUndef"
		}
	case 1:
		switch f & 7 {
		case 0:
			k = "mapData"
		case 1:
			k = "mapMeta"
		case 3:
			k = "collisionGroup"
		default:
			k = "mapUndef"
		}
	case 3:
		k = "storable"
	}
	r := "nonroot"
	if f&0x80 != 0 {
		r = "root"
	}
	inl := ""
	if v >= 1 && data[0]&1 != 0 {
		inl = "+inl"
	}
	return fmt.Sprintf("v%d.%s.%s%s", v, k, r, inl)
}

func c19Decode(id atree.SlabID, data []byte) (atree.Slab, error) {
	return atree.DecodeSlab(id, data, decMode, decodeStorableSafe, c19DecodeTypeInfo)
}

// c19DecodeNoPanic is c19Decode for the set-up code (corpus construction, probes): a panic of the
// implementation there must not end the run; it is returned and the register is pinned into the corpus, so
// that its own batch reports it as a violation with a replayable tag.
func c19DecodeNoPanic(id atree.SlabID, data []byte) (slab atree.Slab, err error, panicked string) {
	defer func() {
		if r := recover(); r != nil {
			slab, err, panicked = nil, errors.New("panic"), fmt.Sprint(r)
		}
	}()
	slab, err = c19Decode(id, data)
	return slab, err, ""
}

// c19V0Fixtures: version-0 registers copied from the repository's own tests
// (array_test.go TestArrayDecodeV0, map_test.go TestMapDecodeV0, storage_test.go TestGetAllChildReferences*).
var c19V0Fixtures = []string{
	// array_test.go TestArrayDecodeV0 / empty / arraySlabID (10 bytes)
	"008081182a0080990000",
	// array_test.go TestArrayDecodeV0 / dataslab as root / arraySlabID (13 bytes)
	"008081182a0080990001d8a400",
	// array_test.go TestArrayDecodeV0 / metadataslab as root / arraySlabID (57 bytes)
	"008181182a008100020102030405060708000000000000000200000009000000e4010203040506070800000000000000" +
		"030000000b0000010e",
	// array_test.go TestArrayDecodeV0 / metadataslab as root / arrayDataSlabID1 (228 bytes)
	"000001020304050607080000000000000003990009766161616161616161616161616161616161616161616176616161" +
		"616161616161616161616161616161616161617661616161616161616161616161616161616161616161766161616161" +
		"616161616161616161616161616161616176616161616161616161616161616161616161616161617661616161616161" +
		"616161616161616161616161616161766161616161616161616161616161616161616161616176616161616161616161" +
		"616161616161616161616161617661616161616161616161616161616161616161616161",
	// array_test.go TestArrayDecodeV0 / metadataslab as root / arrayDataSlabID2 (270 bytes)
	"00400000000000000000000000000000000099000b766161616161616161616161616161616161616161616176616161" +
		"616161616161616161616161616161616161617661616161616161616161616161616161616161616161766161616161" +
		"616161616161616161616161616161616176616161616161616161616161616161616161616161617661616161616161" +
		"616161616161616161616161616161766161616161616161616161616161616161616161616176616161616161616161" +
		"616161616161616161616161617661616161616161616161616161616161616161616161766161616161616161616161" +
		"6161616161616161616161d8ff5001020304050607080000000000000004",
	// array_test.go TestArrayDecodeV0 / metadataslab as root / childArraySlabID (13 bytes)
	"008081182b0080990001d8a400",
	// map_test.go TestMapDecodeV0 / empty / mapSlabID (37 bytes)
	"008883182a001b52a87803852caa49008883005b00000000000000009b0000000000000000",
	// map_test.go TestMapDecodeV0 / dataslab as root / mapSlabID (52 bytes)
	"008883182a011b52a87803852caa49008883005b000000000000000800000000000000009b000000000000000182d8a4" +
		"00d8a400",
	// map_test.go TestMapDecodeV0 / has pointer no collision / mapSlabID (75 bytes)
	"008983182a081b52a87803852caa4900890002010203040506070800000000000000020000000000000000000000f601" +
		"0203040506070800000000000000030000000000000004000000f2",
	// map_test.go TestMapDecodeV0 / has pointer no collision / id2 (258 bytes)
	"00080102030405060708000000000000000383005b000000000000002000000000000000000000000000000001000000" +
		"000000000200000000000000039b00000000000000048276616161616161616161616161616161616161616161617661" +
		"616161616161616161616161616161616161616161827662626262626262626262626262626262626262626262766262" +
		"626262626262626262626262626262626262626282766363636363636363636363636363636363636363636376636363" +
		"636363636363636363636363636363636363638276646464646464646464646464646464646464646464647664646464" +
		"646464646464646464646464646464646464",
	// map_test.go TestMapDecodeV0 / has pointer no collision / id3 (254 bytes)
	"00480000000000000000000000000000000083005b000000000000002000000000000000040000000000000005000000" +
		"000000000600000000000000079b00000000000000048276656565656565656565656565656565656565656565657665" +
		"656565656565656565656565656565656565656565827666666666666666666666666666666666666666666666766666" +
		"666666666666666666666666666666666666666682766767676767676767676767676767676767676767676776676767" +
		"67676767676767676767676767676767676767827668686868686868686868686868686868686868686868d8ff500102" +
		"0304050607080000000000000004",
	// map_test.go TestMapDecodeV0 / inline collision 1 level / mapSlabID (277 bytes)
	"008883182a081b52a87803852caa49008883005b00000000000000200000000000000000000000000000000100000000" +
		"0000000200000000000000039b0000000000000004d8fd83015b00000000000000100000000000000000000000000000" +
		"00049b000000000000000282d8a400d8a40082d8a404d8a408d8fd83015b000000000000001000000000000000010000" +
		"0000000000059b000000000000000282d8a401d8a40282d8a405d8a40ad8fd83015b0000000000000010000000000000" +
		"000200000000000000069b000000000000000282d8a402d8a40482d8a406d8a40cd8fd83015b00000000000000100000" +
		"00000000000300000000000000079b000000000000000282d8a403d8a40682d8a407d8a40e",
	// map_test.go TestMapDecodeV0 / inline collision 2 levels / mapSlabID (301 bytes)
	"008883182a081b52a87803852caa49008883005b00000000000000200000000000000000000000000000000100000000" +
		"0000000200000000000000039b0000000000000004d8fd83015b000000000000000800000000000000009b0000000000" +
		"000001d8fd8302409b000000000000000282d8a400d8a40082d8a404d8a408d8fd83015b000000000000000800000000" +
		"000000019b0000000000000001d8fd8302409b000000000000000282d8a401d8a40282d8a405d8a40ad8fd83015b0000" +
		"00000000000800000000000000009b0000000000000001d8fd8302409b000000000000000282d8a402d8a40482d8a406" +
		"d8a40cd8fd83015b000000000000000800000000000000019b0000000000000001d8fd8302409b000000000000000282" +
		"d8a403d8a40682d8a407d8a40e",
	// map_test.go TestMapDecodeV0 / external collision / mapSlabID (95 bytes)
	"00c883182a141b52a87803852caa4900c883005b0000000000000010000000000000000000000000000000019b000000" +
		"0000000002d8fed8ff5001020304050607080000000000000002d8fed8ff5001020304050607080000000000000003",
	// map_test.go TestMapDecodeV0 / external collision / id2 (192 bytes)
	"002b0000000000000000000000000000000083015b000000000000005000000000000000000000000000000002000000" +
		"000000000400000000000000060000000000000008000000000000000a000000000000000c000000000000000e000000" +
		"000000001000000000000000129b000000000000000a82d8a400d8a40082d8a402d8a40482d8a404d8a40882d8a406d8" +
		"a40c82d8a408d8a41082d8a40ad8a41482d8a40cd8a4181882d8a40ed8a4181c82d8a410d8a4182082d8a412d8a41824",
	// map_test.go TestMapDecodeV0 / external collision / id3 (192 bytes)
	"002b0000000000000000000000000000000083015b000000000000005000000000000000010000000000000003000000" +
		"000000000500000000000000070000000000000009000000000000000b000000000000000d000000000000000f000000" +
		"000000001100000000000000139b000000000000000a82d8a401d8a40282d8a403d8a40682d8a405d8a40a82d8a407d8" +
		"a40e82d8a409d8a41282d8a40bd8a41682d8a40dd8a4181a82d8a40fd8a4181e82d8a411d8a4182282d8a413d8a41826",
	// storage_test.go TestGetAllChildReferencesFromArray / root data slab with ref to nested element / parentRootID (29 bytes)
	"008081182a0080990001d8ff5001020304050607080000000000000002",
	// storage_test.go TestGetAllChildReferencesFromArray / root metadata slab / nonRootID2 (274 bytes)
	"00400000000000000000000000000000000099000b766161616161616161616161616161616161616161616176616161" +
		"616161616161616161616161616161616161617661616161616161616161616161616161616161616161766161616161" +
		"616161616161616161616161616161616176616161616161616161616161616161616161616161617661616161616161" +
		"616161616161616161616161616161766161616161616161616161616161616161616161616176616161616161616161" +
		"616161616161616161616161617661616161616161616161616161616161616161616161766161616161616161616161" +
		"61616161616161616161617661616161616161616161616161616161616161616161",
	// storage_test.go TestGetAllChildReferencesFromArray / 3-level of nested containers / childRootID (29 bytes)
	"008081182a0080990001d8ff5001020304050607080000000000000003",
	// storage_test.go TestGetAllChildReferencesFromMap / root data slab with ref / rootID (68 bytes)
	"008883182a011b52a87803852caa49008883005b000000000000000800000000000000009b000000000000000182d8a4" +
		"00d8ff5001020304050607080000000000000002",
	// storage_test.go TestGetAllChildReferencesFromMap / root metadata slab / rootID (75 bytes)
	"008983182a081b52a87803852caa49008900020102030405060708000000000000000200000000000000000000010201" +
		"0203040506070800000000000000030000000000000004000000fe",
	// storage_test.go TestGetAllChildReferencesFromMap / root metadata slab / nonRootID2 (281 bytes)
	"00480000000000000000000000000000000083005b000000000000002000000000000000040000000000000005000000" +
		"000000000600000000000000079b00000000000000048276656565656565656565656565656565656565656565657665" +
		"656565656565656565656565656565656565656565827666666666666666666666666666666666666666666666766666" +
		"666666666666666666666666666666666666666682766767676767676767676767676767676767676767676776676767" +
		"676767676767676767676767676767676767678276686868686868686868686868686868686868686868687668686868" +
		"6868686868686868686868686868686868687668686868686868686868686868686868686868686868",
}

func c19Hex(s string) []byte {
	s = strings.ReplaceAll(s, " ", "")
	b, err := hex.DecodeString(s)
	if err != nil {
		panic("bad fixture hex: " + s)
	}
	return b
}

// ---- a tiny version-0 encoder (layout comments of the decoders) ----

type c19Hdr struct {
	id       atree.SlabID
	count    uint32
	size     uint32
	firstKey uint64
}

func c19IDBytes(id atree.SlabID) []byte {
	var b [16]byte
	_, _ = id.ToRawBytes(b[:])
	return b[:]
}

func c19Uint(major byte, v uint64) []byte { // shortest CBOR head
	m := major << 5
	switch {
	case v < 24:
		return []byte{m | byte(v)}
	case v <= 0xff:
		return []byte{m | 24, byte(v)}
	case v <= 0xffff:
		return []byte{m | 25, byte(v >> 8), byte(v)}
	case v <= 0xffffffff:
		return []byte{m | 26, byte(v >> 24), byte(v >> 16), byte(v >> 8), byte(v)}
	}
	b := []byte{m | 27, 0, 0, 0, 0, 0, 0, 0, 0}
	binary.BigEndian.PutUint64(b[1:], v)
	return b
}

// v0 array metadata slab: [head][extra data + head if root][count 2][id16 count4 size4]*
func c19EncV0ArrayMeta(root bool, typeInfo uint64, hs []c19Hdr) []byte {
	flag := byte(0x01)
	var b []byte
	if root {
		flag |= 0x80
		b = append(b, 0x00, flag, 0x81)
		b = append(b, c19Uint(0, typeInfo)...)
	}
	b = append(b, 0x00, flag, byte(len(hs)>>8), byte(len(hs)))
	for _, h := range hs {
		b = append(b, c19IDBytes(h.id)...)
		b = binary.BigEndian.AppendUint32(b, h.count)
		b = binary.BigEndian.AppendUint32(b, h.size)
	}
	return b
}

// v0 map metadata slab: [head][extra data + head if root][count 2][id16 firstKey8 size4]*
func c19EncV0MapMeta(root bool, typeInfo, count, seed uint64, hs []c19Hdr) []byte {
	flag := byte(0x09)
	var b []byte
	if root {
		flag |= 0x80
		b = append(b, 0x00, flag, 0x83)
		b = append(b, c19Uint(0, typeInfo)...)
		b = append(b, c19Uint(0, count)...)
		b = append(b, c19Uint(0, seed)...)
	}
	b = append(b, 0x00, flag, byte(len(hs)>>8), byte(len(hs)))
	for _, h := range hs {
		b = append(b, c19IDBytes(h.id)...)
		b = binary.BigEndian.AppendUint64(b, h.firstKey)
		b = binary.BigEndian.AppendUint32(b, h.size)
	}
	return b
}

// v0 array data slab: root: [head][extra][head] ; non-root: [head][next 16] ; then 0x99 hi lo elements
func c19EncV0ArrayData(root bool, typeInfo uint64, next atree.SlabID, elems [][]byte, hasPtr bool) []byte {
	flag := byte(0x00)
	if hasPtr {
		flag |= 0x40
	}
	var b []byte
	if root {
		flag |= 0x80
		b = append(b, 0x00, flag, 0x81)
		b = append(b, c19Uint(0, typeInfo)...)
		b = append(b, 0x00, flag)
	} else {
		b = append(b, 0x00, flag)
		b = append(b, c19IDBytes(next)...)
	}
	b = append(b, 0x99, byte(len(elems)>>8), byte(len(elems)))
	for _, e := range elems {
		b = append(b, e...)
	}
	return b
}

// v0 map data slab: like the array data slab; content = [level, hkeys bytes, [[key, value]*]]
func c19EncV0MapData(root bool, typeInfo, seed uint64, next atree.SlabID, hkeys []uint64, kvs [][2][]byte) []byte {
	flag := byte(0x08)
	var b []byte
	if root {
		flag |= 0x80
		b = append(b, 0x00, flag, 0x83)
		b = append(b, c19Uint(0, typeInfo)...)
		b = append(b, c19Uint(0, uint64(len(kvs)))...)
		b = append(b, c19Uint(0, seed)...)
		b = append(b, 0x00, flag)
	} else {
		b = append(b, 0x00, flag)
		b = append(b, c19IDBytes(next)...)
	}
	b = append(b, 0x83, 0x00)
	b = append(b, 0x5b)
	b = binary.BigEndian.AppendUint64(b, uint64(8*len(hkeys)))
	for _, h := range hkeys {
		b = binary.BigEndian.AppendUint64(b, h)
	}
	b = append(b, 0x9b)
	b = binary.BigEndian.AppendUint64(b, uint64(len(kvs)))
	for _, kv := range kvs {
		b = append(b, 0x82)
		b = append(b, kv[0]...)
		b = append(b, kv[1]...)
	}
	return b
}

func c19ElemUint(v uint64) []byte { return append([]byte{0xd8, c19TagUint64}, c19Uint(0, v)...) }
func c19ElemText(s string) []byte { return append(c19Uint(3, uint64(len(s))), s...) }
func c19ElemRef(id atree.SlabID) []byte {
	return append([]byte{0xd8, atree.CBORTagSlabID, 0x50}, c19IDBytes(id)...)
}

// c19V0FromV1 converts a decoded version-1 metadata slab, or the bytes of a version-1 data slab
// without inlined children, to the version-0 layout.
func c19V0FromV1(id atree.SlabID, data []byte) []byte {
	if len(data) < 2 || data[0]>>4 != 1 {
		return nil
	}
	slab, err, _ := c19DecodeNoPanic(id, data)
	if err != nil || slab == nil {
		return nil
	}
	root := data[1]&0x80 != 0
	kind, _, children, _ := atree.VerifMetaHeaders(slab)
	var hs []c19Hdr
	for _, c := range children {
		hs = append(hs, c19Hdr{c.ID, c.Count, c.Size, c.FirstKey})
	}
	lay := c19Layout(data)
	switch kind {
	case 2:
		if root {
			// keep the original extra data bytes
			b := append([]byte{0x00, data[1]}, data[2:lay.extraEnd]...)
			b = append(b, c19EncV0ArrayMeta(false, 0, hs)...)
			b[len(data[2:lay.extraEnd])+3] = data[1]
			return b
		}
		return c19EncV0ArrayMeta(false, 0, hs)
	case 3:
		if root {
			b := append([]byte{0x00, data[1]}, data[2:lay.extraEnd]...)
			b = append(b, c19EncV0MapMeta(false, 0, 0, 0, hs)...)
			b[len(data[2:lay.extraEnd])+3] = data[1]
			return b
		}
		return c19EncV0MapMeta(false, 0, 0, 0, hs)
	}
	// data slabs / collision groups without inlined children
	if data[0]&0x01 != 0 || data[1]&0x18 == 0x18 || !lay.ok {
		return nil
	}
	var b []byte
	if root {
		b = append([]byte{0x00, data[1]}, data[2:lay.extraEnd]...)
		b = append(b, 0x00, data[1])
	} else {
		b = append(b, 0x00, data[1])
		if data[0]&0x02 != 0 {
			b = append(b, data[lay.nextOff:lay.nextOff+16]...)
		} else {
			b = append(b, make([]byte, 16)...)
		}
	}
	return append(b, data[lay.contentOff:]...)
}

// ---- minimal CBOR walker (heads only) used to locate fields of VALID registers ----

type c19Item struct {
	off, hlen int
	major, ai byte
	val       uint64
	end       int // end of the whole item (including children / payload)
}

func c19Head(data []byte, off int) (major, ai byte, val uint64, hlen int, ok bool) {
	if off >= len(data) {
		return
	}
	b := data[off]
	major, ai = b>>5, b&31
	switch {
	case ai < 24:
		return major, ai, uint64(ai), 1, true
	case ai == 24:
		if off+2 > len(data) {
			return
		}
		return major, ai, uint64(data[off+1]), 2, true
	case ai == 25:
		if off+3 > len(data) {
			return
		}
		return major, ai, uint64(binary.BigEndian.Uint16(data[off+1:])), 3, true
	case ai == 26:
		if off+5 > len(data) {
			return
		}
		return major, ai, uint64(binary.BigEndian.Uint32(data[off+1:])), 5, true
	case ai == 27:
		if off+9 > len(data) {
			return
		}
		return major, ai, binary.BigEndian.Uint64(data[off+1:]), 9, true
	}
	return
}

// c19Walk appends the items of the CBOR data item starting at off (pre-order); returns its end.
func c19Walk(data []byte, off int, depth int, out *[]c19Item) (int, bool) {
	if depth > 40 {
		return 0, false
	}
	major, ai, val, hlen, ok := c19Head(data, off)
	if !ok {
		return 0, false
	}
	idx := len(*out)
	*out = append(*out, c19Item{off: off, hlen: hlen, major: major, ai: ai, val: val})
	end := off + hlen
	switch major {
	case 2, 3:
		if val > uint64(len(data)-end) {
			return 0, false
		}
		end += int(val)
	case 4, 5:
		n := val
		if major == 5 {
			n *= 2
		}
		if n > uint64(len(data)) {
			return 0, false
		}
		for i := uint64(0); i < n; i++ {
			e, ok := c19Walk(data, end, depth+1, out)
			if !ok {
				return 0, false
			}
			end = e
		}
	case 6:
		e, ok := c19Walk(data, end, depth+1, out)
		if !ok {
			return 0, false
		}
		end = e
	}
	(*out)[idx].end = end
	return end, true
}

type c19Lay struct {
	ok         bool
	extraEnd   int // end of the root extra data (2 if none)
	inlEnd     int // end of inlined extra data
	nextOff    int // offset of next slab id (-1 if none)
	countOff   int // metadata slabs: offset of the 2-byte child header count (-1 otherwise)
	hdrSize    int // metadata slabs: size of one child header
	contentOff int // start of CBOR content (data slabs, storable slabs) or of the first child header
	bounds     []int
	items      []c19Item
}

// c19Layout locates the fields of a (valid) register.  Best effort: ok=false when it cannot.
func c19Layout(data []byte) c19Lay {
	l := c19Lay{nextOff: -1, countOff: -1, extraEnd: 2, inlEnd: 2}
	if len(data) < 2 {
		return l
	}
	bset := map[int]bool{0: true, 1: true, 2: true}
	v := data[0] >> 4
	f := data[1]
	root := f&0x80 != 0
	typ := (f & 0x18) >> 3
	sub := f & 7
	off := 2
	skipItem := func() bool {
		var its []c19Item
		e, ok := c19Walk(data, off, 0, &its)
		if !ok {
			return false
		}
		for _, it := range its {
			bset[it.off] = true
			bset[it.off+it.hlen] = true
		}
		l.items = append(l.items, its...)
		off = e
		bset[off] = true
		return true
	}
	finish := func(ok bool) c19Lay {
		l.ok = ok
		for b := range bset {
			if b >= 0 && b <= len(data) {
				l.bounds = append(l.bounds, b)
			}
		}
		sort.Ints(l.bounds)
		return l
	}
	if typ == 3 { // storable slab
		l.contentOff = 2
		ok := skipItem()
		return finish(ok && off == len(data))
	}
	if typ == 2 || v > 1 {
		return finish(false)
	}
	if root {
		if !skipItem() {
			return finish(false)
		}
		l.extraEnd = off
		l.inlEnd = off
		if v == 0 {
			off += 2
			bset[off] = true
		}
	}
	meta := sub == 1
	if meta {
		hs := 14
		if typ == 1 {
			hs = 18
		}
		if v == 1 {
			off += 8
			bset[off] = true
		} else {
			hs = 24
			if typ == 1 {
				hs = 28
			}
		}
		l.countOff = off
		l.hdrSize = hs
		off += 2
		l.contentOff = off
		for o := off; o <= len(data); o += hs {
			bset[o] = true
			if v == 1 {
				bset[o+8] = true
			} else {
				bset[o+16] = true
			}
			bset[o+hs-2] = true
		}
		return finish(l.countOff+2 <= len(data))
	}
	if v == 1 {
		if data[0]&0x01 != 0 {
			if !skipItem() {
				return finish(false)
			}
			l.inlEnd = off
		}
		if data[0]&0x02 != 0 {
			l.nextOff = off
			off += 16
			bset[off] = true
		}
	} else if !root {
		l.nextOff = off
		off += 16
		bset[off] = true
	}
	l.contentOff = off
	if off > len(data) {
		return finish(false)
	}
	for off < len(data) {
		if !skipItem() {
			return finish(false)
		}
	}
	return finish(true)
}

// ---- corpus builder ----

type c19Corpus struct {
	regs   []c19Reg
	events map[string]int
}

func (c *c19Corpus) addLedger(segs map[atree.SlabID][]byte, src string, seen map[string]bool) {
	ids := make([]atree.SlabID, 0, len(segs))
	for id := range segs {
		ids = append(ids, id)
	}
	sortIDs(ids)
	for _, id := range ids {
		d := segs[id]
		if seen[string(d)] {
			continue
		}
		seen[string(d)] = true
		c.regs = append(c.regs, c19Reg{id: id, data: d, segs: segs, src: src})
	}
}

func c19BuildCorpus(seed uint64, worlds, forests int, rep *Report) *c19Corpus {
	c := &c19Corpus{events: map[string]int{}}
	seen := map[string]bool{}
	rng := NewRng(seed ^ 0xC19)
	defer atree.VerifSetThreshold(1024)

	// (1) random nested histories
	for wi := 0; wi < worlds; wi++ {
		hr := rng.Fork(uint64(wi))
		T := []uint32{256, 256, 256, 400, 1024}[hr.Intn(5)]
		atree.VerifSetThreshold(T)
		base := NewLogBase()
		alpha := [][4]uint64{{0, 0, 0, 0}, {3, 2, 0, 0}, {4, 3, 2, 0}, {2, 2, 2, 2}, {16, 0, 0, 0}}[hr.Intn(5)]
		opts := WorldOpts{Addr: 1 + uint64(hr.Intn(3)), MaxDepth: 1 + hr.Intn(3), Wrap: hr.Bool(), Maps: true,
			LargeVals: hr.Chance(70), PopChild: false, KeySpace: 40 + hr.Intn(200),
			Digester: func() atree.DigesterBuilder { return &c19DigesterBuilder{alpha: alpha} }}
		w := NewWorld(base, hr, opts, NewReport("C19", seed)) // private report: workload statistics are not C19's
		failed := false
		w.Fail = func(what, detail string) { failed = true }
		func() {
			defer func() {
				if r := recover(); r != nil {
					failed = true
				}
			}()
			if hr.Bool() {
				w.NewArrayRoot()
			} else {
				w.NewMapRoot()
			}
			if hr.Chance(40) {
				w.NewMapRoot()
			}
			steps := 60 + hr.Intn(260)
			for s := 0; s < steps && !failed; s++ {
				w.Step()
			}
			w.Commit(1)
		}()
		if failed {
			c.events["corpus_world_failed"]++
			continue
		}
		c.addLedger(base.Segs, "v1", seen)
	}

	// (2) multi-level trees, external collision groups, compact maps, storable slabs
	func() {
		defer func() {
			if r := recover(); r != nil {
				c.events["corpus_big_failed"]++
			}
		}()
		atree.VerifSetThreshold(256)
		base := NewLogBase()
		st := atree.NewPersistentSlabStorage(base, encMode, decMode, decodeStorableSafe, c19DecodeTypeInfo)
		addr := mkAddr(7)
		arr, err := atree.NewArray(st, addr, testutils.NewSimpleTypeInfo(42))
		must(err)
		for i := 0; i < 700; i++ {
			var v atree.Value = testutils.Uint64Value(uint64(i) * 77)
			if i%5 == 0 {
				v = testutils.NewStringValue(randStr(rng, 5+rng.Intn(30)))
			}
			if i%97 == 0 {
				v = testutils.NewStringValue(randStr(rng, 300+rng.Intn(300)))
			}
			must(arr.Append(v))
		}
		m, err := atree.NewMap(st, addr, atree.NewDefaultDigesterBuilder(), testutils.NewSimpleTypeInfo(43))
		must(err)
		for i := 0; i < 500; i++ {
			_, err := m.Set(testutils.CompareValue, testutils.GetHashInput, testutils.Uint64Value(uint64(i)), testutils.NewStringValue(randStr(rng, 1+rng.Intn(20))))
			must(err)
		}
		m2, err := atree.NewMap(st, addr, &c19DigesterBuilder{alpha: [4]uint64{5, 2, 0, 0}}, testutils.NewSimpleTypeInfo(44))
		must(err)
		for i := 0; i < 300; i++ {
			_, err := m2.Set(testutils.CompareValue, testutils.GetHashInput, testutils.NewStringValue(fmt.Sprintf("key%04d", i)), testutils.Uint64Value(uint64(i)))
			must(err)
		}
		// compact maps: composite-typed child maps with the same string keys, inlined in an array
		parent, err := atree.NewArray(st, addr, testutils.NewSimpleTypeInfo(45))
		must(err)
		for i := 0; i < 12; i++ {
			cm, err := atree.NewMap(st, addr, atree.NewDefaultDigesterBuilder(), c19Composite{uint64(100 + i%3)})
			must(err)
			for _, k := range []string{"a", "bb", "ccc"}[:1+i%3] {
				_, err := cm.Set(testutils.CompareValue, testutils.GetHashInput, testutils.NewStringValue(k), testutils.Uint64Value(uint64(i)))
				must(err)
			}
			if i%4 == 3 {
				must(parent.Append(testutils.NewSomeValue(cm)))
			} else {
				must(parent.Append(cm))
			}
		}
		pm, err := atree.NewMap(st, addr, atree.NewDefaultDigesterBuilder(), testutils.NewSimpleTypeInfo(46))
		must(err)
		for i := 0; i < 6; i++ {
			cm, err := atree.NewMap(st, addr, atree.NewDefaultDigesterBuilder(), c19Composite{200})
			must(err)
			_, err = cm.Set(testutils.CompareValue, testutils.GetHashInput, testutils.NewStringValue("f"), testutils.Uint64Value(uint64(i)))
			must(err)
			ca, err := atree.NewArray(st, addr, testutils.NewSimpleTypeInfo(47))
			must(err)
			must(ca.Append(testutils.Uint64Value(uint64(i))))
			_, err = cm.Set(testutils.CompareValue, testutils.GetHashInput, testutils.NewStringValue("g"), ca)
			must(err)
			_, err = pm.Set(testutils.CompareValue, testutils.GetHashInput, testutils.Uint64Value(uint64(i)), cm)
			must(err)
		}
		must(st.FastCommit(1))
		c.addLedger(base.Segs, "v1", seen)
	}()

	// (2b) random forests of inlined arrays / maps / composite-typed (compact) maps, several levels deep
	c19BuildForests(c, rng.Fork(0xF0), forests, seen)

	// (3) version 0: fixtures of the repository's tests
	fixID := mkID(0x0102030405060708, 1)
	for _, h := range c19V0Fixtures {
		d := c19Hex(h)
		if seen[string(d)] {
			continue
		}
		seen[string(d)] = true
		_, err, pan := c19DecodeNoPanic(fixID, d)
		if pan == "" && err != nil {
			c.events["v0_fixture_rejected"]++
			rep.Sample(fmt.Sprintf("v0 fixture rejected: %x: %v", d, err))
			continue
		}
		if pan != "" {
			c.events["corpus_decode_panic"]++
		}
		c.regs = append(c.regs, c19Reg{id: fixID, data: d, src: "v0fix", pin: pan != ""})
	}

	// (4) version 0: own encoder (must be accepted by the real decoder)
	a := uint64(0x0102030405060708)
	var enc [][]byte
	hs := []c19Hdr{{mkID(a, 2), 9, 228, 0}, {mkID(a, 3), 11, 270, 77}, {mkID(a, 4), 1, 30, 1 << 63}}
	for n := 0; n <= 3; n++ {
		enc = append(enc, c19EncV0ArrayMeta(true, 42, hs[:n]), c19EncV0ArrayMeta(false, 0, hs[:n]))
		enc = append(enc, c19EncV0MapMeta(true, 42, 20, 0x52a87803852caa49, hs[:n]), c19EncV0MapMeta(false, 0, 0, 0, hs[:n]))
	}
	big := make([]c19Hdr, 300)
	for i := range big {
		big[i] = c19Hdr{mkID(a, uint64(10+i)), uint32(i), uint32(100 + i), uint64(i) << 32}
	}
	enc = append(enc, c19EncV0ArrayMeta(true, 1<<40, big), c19EncV0MapMeta(false, 0, 0, 0, big))
	el := [][]byte{c19ElemUint(0), c19ElemUint(1 << 40), c19ElemText("hello"), c19ElemRef(mkID(a, 9)),
		append([]byte{0xd8, c19TagSome}, c19ElemText("x")...)}
	for n := 0; n <= len(el); n++ {
		enc = append(enc, c19EncV0ArrayData(true, 42, atree.SlabIDUndefined, el[:n], n >= 4))
		enc = append(enc, c19EncV0ArrayData(false, 0, mkID(a, 5), el[:n], n >= 4))
	}
	kvs := [][2][]byte{{c19ElemUint(1), c19ElemText("one")}, {c19ElemText("k"), c19ElemUint(2)}, {c19ElemUint(3), c19ElemRef(mkID(a, 8))}}
	for n := 0; n <= len(kvs); n++ {
		enc = append(enc, c19EncV0MapData(true, 42, 99, atree.SlabIDUndefined, []uint64{5, 6, 1 << 60}[:n], kvs[:n]))
		enc = append(enc, c19EncV0MapData(false, 0, 0, mkID(a, 6), []uint64{5, 6, 1 << 60}[:n], kvs[:n]))
	}
	for _, d := range enc {
		if seen[string(d)] {
			continue
		}
		seen[string(d)] = true
		_, err, pan := c19DecodeNoPanic(fixID, d)
		if pan == "" && err != nil {
			c.events["v0_encoder_rejected"]++
			rep.Sample(fmt.Sprintf("v0 encoder output rejected: %x: %v", d, err))
			continue
		}
		if pan != "" {
			c.events["corpus_decode_panic"]++
		}
		c.regs = append(c.regs, c19Reg{id: fixID, data: d, src: "v0enc", pin: pan != ""})
	}

	// (5) version 0: conversions of version-1 registers of the corpus
	nv1 := len(c.regs)
	conv := 0
	for i := 0; i < nv1 && conv < 400; i++ {
		r := c.regs[i]
		if (r.src != "v1" && r.src != "v1inl") || i%3 != 0 {
			continue
		}
		d := c19V0FromV1(r.id, r.data)
		if d == nil || seen[string(d)] {
			continue
		}
		seen[string(d)] = true
		_, err, pan := c19DecodeNoPanic(r.id, d)
		if pan == "" && err != nil {
			c.events["v0_conversion_rejected"]++
			rep.Sample(fmt.Sprintf("v0 conversion rejected: %x: %v", d, err))
			continue
		}
		if pan != "" {
			c.events["corpus_decode_panic"]++
		}
		conv++
		c.regs = append(c.regs, c19Reg{id: r.id, data: d, src: "v0conv", pin: pan != ""})
	}
	return c
}

// c19Select keeps at most max registers, round-robin over slab kinds so that every kind stays represented.
func c19Select(regs []c19Reg, max int) []c19Reg {
	if len(regs) <= max {
		return regs
	}
	byKind := map[string][]c19Reg{}
	var kinds []string
	var out []c19Reg
	for _, r := range regs {
		if r.pin {
			out = append(out, r)
			continue
		}
		k := r.src + "/" + c19SlabKind(r.data)
		if _, ok := byKind[k]; !ok {
			kinds = append(kinds, k)
		}
		byKind[k] = append(byKind[k], r)
	}
	sort.Strings(kinds)
	for round := 0; len(out) < max; round++ {
		added := false
		for _, k := range kinds {
			if round < len(byKind[k]) && len(out) < max {
				out = append(out, byKind[k][round])
				added = true
			}
		}
		if !added {
			break
		}
	}
	return out
}

// ---------------------------------------------------------------------------------------------
// mutations
// ---------------------------------------------------------------------------------------------

type c19Input struct {
	kind string
	data []byte
}

func c19Clone(b []byte) []byte { return append([]byte(nil), b...) }

func c19Replace(data []byte, off, n int, with []byte) []byte {
	out := make([]byte, 0, len(data)-n+len(with))
	out = append(out, data[:off]...)
	out = append(out, with...)
	return append(out, data[off+n:]...)
}

var c19Tags = []byte{161, 162, 163, 164, 165, 166, 167, 200, 240, 246, 247, 248, 249, 250, 251, 252, 253, 254, 255, 0}

// c19Structured lists the edits of atree-level fields of one valid register.
func c19Structured(reg c19Reg, others []c19Reg, rng *Rng) []c19Input {
	d := reg.data
	var out []c19Input
	add := func(kind string, b []byte) { out = append(out, c19Input{kind, b}) }
	lay := c19Layout(d)

	// version nibble and every flag bit of the head
	if len(d) >= 2 {
		for v := 0; v < 16; v++ {
			b := c19Clone(d)
			b[0] = b[0]&0x0f | byte(v<<4)
			add("version", b)
		}
		for bit := 0; bit < 4; bit++ {
			b := c19Clone(d)
			b[0] ^= 1 << bit
			add("flagbit", b)
		}
		for bit := 0; bit < 8; bit++ {
			b := c19Clone(d)
			b[1] ^= 1 << bit
			add("flagbit", b)
		}
		for _, f := range []byte{0x00, 0x01, 0x02, 0x08, 0x09, 0x0a, 0x0b, 0x1f, 0x10, 0x80, 0x81, 0x88, 0x89, 0x8b, 0x9f, 0xff} {
			b := c19Clone(d)
			b[1] = f
			add("flagbyte", b)
		}
		// second head of version-0 roots
		if d[0]>>4 == 0 && d[1]&0x80 != 0 && lay.extraEnd+2 <= len(d) {
			for _, f := range []byte{0x00, 0x7f, 0xff} {
				b := c19Clone(d)
				b[lay.extraEnd], b[lay.extraEnd+1] = f, f
				add("head2", b)
			}
		}
	}

	// truncation: every prefix for short registers, every field boundary otherwise
	if len(d) <= 600 {
		for n := 0; n < len(d); n++ {
			add("trunc", c19Clone(d[:n]))
		}
	} else {
		for _, n := range lay.bounds {
			if n < len(d) {
				add("trunc", c19Clone(d[:n]))
				if n+1 < len(d) {
					add("trunc", c19Clone(d[:n+1]))
				}
			}
		}
	}
	for _, n := range []int{1, 2, 8, 16} { // extension
		add("extend", append(c19Clone(d), make([]byte, n)...))
		add("extend", append(c19Clone(d), d[:min(n, len(d))]...))
	}

	// metadata slabs: child header count, header removal/duplication
	if lay.countOff >= 0 && lay.countOff+2 <= len(d) {
		n := int(binary.BigEndian.Uint16(d[lay.countOff:]))
		for _, v := range []int{0, 1, n - 1, n + 1, 2 * n, 0xffff, 0x8000, 0x0100} {
			if v < 0 {
				continue
			}
			b := c19Clone(d)
			binary.BigEndian.PutUint16(b[lay.countOff:], uint16(v))
			add("childcount", b)
			// consistent variants: count changed AND headers removed/added
			body := lay.contentOff + v*lay.hdrSize
			if v <= n && body <= len(d) {
				add("childcount+body", c19Clone(b[:body]))
			} else if v == n+1 && n > 0 {
				add("childcount+body", append(c19Clone(b), d[lay.contentOff:lay.contentOff+lay.hdrSize]...))
			}
		}
		// count fields of the headers (array): force the uint32 sum to overflow
		if d[1]&0x18 == 0 && n >= 2 {
			b := c19Clone(d)
			co := 8
			if d[0]>>4 == 0 {
				co = 16
			}
			for i := 0; i < n && lay.contentOff+i*lay.hdrSize+co+4 <= len(b); i++ {
				binary.BigEndian.PutUint32(b[lay.contentOff+i*lay.hdrSize+co:], 0xffffffff)
			}
			add("countsum", b)
			b2 := c19Clone(d)
			binary.BigEndian.PutUint32(b2[lay.contentOff+co:], 0xffffffff)
			add("countsum", b2)
		}
	}

	// CBOR-level fields, then item-level edits (type changes, counts with payload, swaps, cuts)
	c19CBORFieldEdits(d, lay.items, add)
	c19ItemEdits(d, lay.items, 0, len(d)+1, add)
	c19StructuredTail(d, lay, others, rng, add)
	return out
}

// c19CBORFieldEdits lists the edits of the heads of the given CBOR items of a valid register.
func c19CBORFieldEdits(d []byte, items []c19Item, add func(kind string, b []byte)) {
	for _, it := range items {
		switch it.major {
		case 4, 5: // array / map heads
			n := it.val
			for _, v := range []uint64{0, 1, n - 1, n + 1, 0xffff, 1 << 31, math.MaxUint64} {
				if v == n || (n == 0 && v == math.MaxUint64-0 && false) {
					continue
				}
				if it.hlen == 3 && v <= 0xffff { // keep the fixed 3-byte head `0x99 hi lo`
					b := c19Clone(d)
					binary.BigEndian.PutUint16(b[it.off+1:], uint16(v))
					add("arrayhead", b)
				} else {
					add("arrayhead", c19Replace(d, it.off, it.hlen, c19Uint(it.major, v)))
				}
			}
			add("arrayhead", c19Replace(d, it.off, it.hlen, []byte{it.major<<5 | 31})) // indefinite
		case 2, 3: // byte / text string heads (0x59 / 0x5b digests, slab index, slab id)
			n := it.val
			for _, v := range []uint64{0, n - 1, n + 1, n + 8, n - 8, 1 << 16, 1 << 32, math.MaxUint64} {
				if v == n {
					continue
				}
				if int(v) >= 0 && v <= 0xffff && it.hlen == 3 {
					b := c19Clone(d)
					binary.BigEndian.PutUint16(b[it.off+1:], uint16(v))
					add("strhead", b)
				} else if it.hlen == 9 {
					b := c19Clone(d)
					binary.BigEndian.PutUint64(b[it.off+1:], v)
					add("strhead", b)
				} else {
					add("strhead", c19Replace(d, it.off, it.hlen, c19Uint(it.major, v)))
				}
			}
			// consistent: drop / add 8 payload bytes together with the head (digest count != element count)
			if it.major == 2 && n >= 8 {
				b := c19Replace(d, it.off, it.hlen+int(n), append(c19Uint(2, n-8), d[it.off+it.hlen:it.off+it.hlen+int(n)-8]...))
				add("strhead+body", b)
				b = c19Replace(d, it.off, it.hlen+int(n), append(c19Uint(2, n-1), d[it.off+it.hlen:it.off+it.hlen+int(n)-1]...))
				add("strhead+body", b)
			}
			if it.major == 2 {
				pay := append(c19Clone(d[it.off+it.hlen:it.off+it.hlen+int(n)]), 1, 2, 3, 4, 5, 6, 7, 8)
				add("strhead+body", c19Replace(d, it.off, it.hlen+int(n), append(c19Uint(2, n+8), pay...)))
			}
			// slab id / slab index bytes
			if it.major == 2 && (n == 16 || n == 8) {
				for _, fill := range []byte{0x00, 0xff} {
					b := c19Clone(d)
					for i := 0; i < int(n); i++ {
						b[it.off+it.hlen+i] = fill
					}
					add("slabid", b)
				}
			}
		case 6: // tags
			for _, t := range c19Tags {
				if uint64(t) == it.val {
					continue
				}
				if it.hlen == 2 {
					b := c19Clone(d)
					b[it.off+1] = t
					add("tag", b)
				} else {
					add("tag", c19Replace(d, it.off, it.hlen, c19Uint(6, uint64(t))))
				}
			}
			add("untag", c19Replace(d, it.off, it.hlen, nil))
		case 0: // unsigned integers (extra-data indexes, levels, counts, seeds, type infos, values)
			for _, v := range []uint64{0, 1, 2, 3, 23, 24, 255, 256, 65535, 65536, 1 << 32, math.MaxUint64, it.val + 1, it.val - 1} {
				if v == it.val {
					continue
				}
				add("uint", c19Replace(d, it.off, it.hlen, c19Uint(0, v)))
			}
			add("uint", c19Replace(d, it.off, it.hlen, []byte{0x20})) // negative int
			add("uint", c19Replace(d, it.off, it.hlen, []byte{0xf6})) // null
		}
		// item-level: delete, duplicate, replace with another item
		if it.end > it.off && it.end <= len(d) {
			add("itemdel", c19Replace(d, it.off, it.end-it.off, nil))
			if it.end-it.off <= 64 {
				add("itemdup", c19Replace(d, it.off, 0, d[it.off:it.end]))
			}
			add("itemrepl", c19Replace(d, it.off, it.end-it.off, []byte{0x00}))
			add("itemrepl", c19Replace(d, it.off, it.end-it.off, []byte{0x80}))
			add("itemrepl", c19Replace(d, it.off, it.end-it.off, []byte{0x60}))
		}
	}
}

// c19StructuredTail: the register-level edits that follow the item edits in c19Structured.
func c19StructuredTail(d []byte, lay c19Lay, others []c19Reg, rng *Rng, add func(kind string, b []byte)) {
	// extra-data index directly after `d8 fa|fb|fc 83`
	for i := 0; i+4 < len(d); i++ {
		if d[i] == 0xd8 && d[i+1] >= 0xfa && d[i+1] <= 0xfc && d[i+2] == 0x83 {
			for _, v := range []byte{0x00, 0x01, 0x02, 0x05, 0x17} {
				if d[i+3] != v {
					b := c19Clone(d)
					b[i+3] = v
					add("extraidx", b)
				}
			}
			add("extraidx", c19Replace(d, i+3, 1, []byte{0x18, 0xff}))
		}
	}
	// next slab id
	if lay.nextOff >= 0 && lay.nextOff+16 <= len(d) {
		for _, fill := range []byte{0x00, 0xff} {
			b := c19Clone(d)
			for i := 0; i < 16; i++ {
				b[lay.nextOff+i] = fill
			}
			add("slabid", b)
		}
		add("nextdel", c19Replace(d, lay.nextOff, 16, nil))
		add("nextdel", c19Replace(d, lay.nextOff, 8, nil))
	}
	// extra data removed / doubled
	if lay.extraEnd > 2 {
		add("extradel", c19Replace(d, 2, lay.extraEnd-2, nil))
		add("extradup", c19Replace(d, 2, 0, d[2:lay.extraEnd]))
	}
	if lay.inlEnd > lay.extraEnd {
		add("inldel", c19Replace(d, lay.extraEnd, lay.inlEnd-lay.extraEnd, nil))
		add("inldup", c19Replace(d, lay.extraEnd, 0, d[lay.extraEnd:lay.inlEnd]))
	}
	// splices: prefix of this register + suffix of another one, at field boundaries
	for k := 0; k < 24 && len(others) > 0; k++ {
		o := others[rng.Intn(len(others))]
		ol := c19Layout(o.data)
		if len(lay.bounds) == 0 || len(ol.bounds) == 0 {
			continue
		}
		p := lay.bounds[rng.Intn(len(lay.bounds))]
		q := ol.bounds[rng.Intn(len(ol.bounds))]
		add("splice", append(c19Clone(d[:p]), o.data[q:]...))
	}
	if len(others) > 0 { // head of this register on the body of another one and vice versa
		o := others[rng.Intn(len(others))]
		if len(o.data) >= 2 && len(d) >= 2 {
			add("splice", append(c19Clone(d[:2]), o.data[2:]...))
			add("splice", append(c19Clone(o.data[:2]), d[2:]...))
		}
	}
}

// c19ByteLevel produces one byte-level mutation of a valid register.
func c19ByteLevel(d []byte, others []c19Reg, rng *Rng) c19Input {
	b := c19Clone(d)
	if len(b) == 0 {
		return c19Input{"byteset", []byte{byte(rng.Intn(256))}}
	}
	switch rng.Pick(30, 20, 10, 10, 10, 8, 6, 6) {
	case 0:
		for k := 1 + rng.Intn(3); k > 0; k-- {
			i := rng.Intn(len(b))
			b[i] ^= 1 << rng.Intn(8)
		}
		return c19Input{"bitflip", b}
	case 1:
		for k := 1 + rng.Intn(2); k > 0; k-- {
			vals := []byte{0, 1, 0x7f, 0x80, 0xff, 0x99, 0x9f, 0x5b, 0x59, 0xd8, 0x83, 0x82, byte(rng.Intn(256))}
			b[rng.Intn(len(b))] = vals[rng.Intn(len(vals))]
		}
		return c19Input{"byteset", b}
	case 2:
		i := rng.Intn(len(b) + 1)
		n := 1 + rng.Intn(4)
		ins := make([]byte, n)
		for j := range ins {
			ins[j] = byte(rng.Intn(256))
		}
		return c19Input{"insert", c19Replace(b, i, 0, ins)}
	case 3:
		i := rng.Intn(len(b))
		n := 1 + rng.Intn(min(8, len(b)-i))
		return c19Input{"delete", c19Replace(b, i, n, nil)}
	case 4:
		i := rng.Intn(len(b))
		n := 1 + rng.Intn(min(32, len(b)-i))
		j := rng.Intn(len(b) + 1)
		return c19Input{"duprange", c19Replace(b, j, 0, b[i:i+n])}
	case 5:
		if len(others) > 0 {
			o := others[rng.Intn(len(others))].data
			if len(o) > 0 {
				return c19Input{"splice", append(c19Clone(b[:rng.Intn(len(b)+1)]), o[rng.Intn(len(o)):]...)}
			}
		}
		return c19Input{"trunc", b[:rng.Intn(len(b))]}
	case 6:
		return c19Input{"trunc", b[:rng.Intn(len(b))]}
	default:
		// overwrite a big-endian 16-bit field at a random position
		if len(b) >= 2 {
			i := rng.Intn(len(b) - 1)
			binary.BigEndian.PutUint16(b[i:], []uint16{0, 1, 0xffff, 0x8000, uint16(len(b)), uint16(rng.Intn(65536))}[rng.Intn(6)])
		}
		return c19Input{"be16set", b}
	}
}

// ---------------------------------------------------------------------------------------------
// one input
// ---------------------------------------------------------------------------------------------

type c19Result struct {
	hq       [6]uint64 // header queries: (class, value) x3
	accepted bool
	slab     atree.Slab
	errClass string
	panicked string // "" or description (decode / header query)
	accPanic string // panic in ByteSize / ChildStorables / SlabID
	encPanic string // panic in EncodeSlab of the accepted slab
	encCount uint64 // != 0: EncodeSlab was NOT called because it would allocate 32*encCount bytes
	elapsed  time.Duration
}

func c19HQ(f func([]byte) (bool, error), data []byte, res *[2]uint64, pan *string, name string) {
	defer func() {
		if r := recover(); r != nil {
			*pan = fmt.Sprintf("%s: %v", name, r)
		}
	}()
	v, err := f(data)
	if err != nil {
		res[0], res[1] = 1, 0
		return
	}
	res[0] = 0
	if v {
		res[1] = 1
	}
}

func c19ErrClass(err error) string {
	var de *atree.DecodingError
	var fe *atree.FatalError
	var ee *atree.ExternalError
	var ue *atree.UserError
	switch {
	case errors.As(err, &de):
		return "DecodingError"
	case errors.As(err, &ee):
		return "ExternalError"
	case errors.As(err, &fe):
		return "FatalError"
	case errors.As(err, &ue):
		return "UserError"
	}
	return "other"
}

// c19Children walks ChildStorables recursively (bounded) — must not panic.
func c19Children(s atree.Storable, depth int, budget *int) {
	if s == nil || depth > 64 || *budget <= 0 {
		return
	}
	*budget--
	_ = s.ByteSize()
	for _, c := range s.ChildStorables() {
		c19Children(c, depth+1, budget)
	}
}

// c19EncodeChecksCount: set by c19ProbeEncode when the library's encoder ties MapExtraData.Count to the
// number of elements before allocating (then no pre-screening is needed).
var c19EncodeChecksCount atomic.Bool

// c19ProbeEncode takes a valid register with an inlined compact map, rewrites the Count of its compact-map
// extra data to 2^20 (32 MiB if the encoder allocates 2*16*Count) and measures EncodeSlab.
func c19ProbeEncode(regs []c19Reg) string {
	pat := []byte{0xd8, 0xf9, 0x83, 0x83, 0xd8, c19TagComposite, 0x18}
	for _, r := range regs {
		i := strings.Index(string(r.data), string(pat))
		if i < 0 || i+9 > len(r.data) || r.data[i+8] >= 24 {
			continue
		}
		d := c19Replace(r.data, i+8, 1, []byte{0x1a, 0x00, 0x10, 0x00, 0x00})
		slab, err, _ := c19DecodeNoPanic(r.id, d)
		if err != nil || slab == nil {
			continue
		}
		var m0, m1 runtime.MemStats
		res := "unknown"
		func() {
			defer func() {
				if rec := recover(); rec != nil {
					res = "panics"
				}
			}()
			runtime.ReadMemStats(&m0)
			_, _ = atree.EncodeSlab(slab, encMode)
			runtime.ReadMemStats(&m1)
			if m1.TotalAlloc-m0.TotalAlloc > 8<<20 {
				res = "allocates_count"
			} else {
				res = "checks_count"
			}
		}()
		c19EncodeChecksCount.Store(res == "checks_count")
		return res
	}
	return "no_probe_register"
}

// c19EncodeHazard finds an inlined composite-typed map whose extra data announces a huge Count:
// MapDataSlab.canBeEncodedAsCompactMap does make([]ComparableStorable, Count) and make([]Storable, Count),
// which for Count around 2^32 is a fatal (unrecoverable) out-of-memory error.  The harness must survive,
// so such slabs are reported without calling EncodeSlab.
func c19EncodeHazard(s atree.Storable, depth int, budget *int) uint64 {
	if s == nil || depth > 64 || *budget <= 0 || c19EncodeChecksCount.Load() {
		return 0
	}
	*budget--
	if md, ok := s.(*atree.MapDataSlab); ok && md.Inlined() {
		// above 2^47 elements makeslice panics (recoverable) instead of allocating
		if ed := md.ExtraData(); ed != nil && ed.TypeInfo != nil && ed.TypeInfo.IsComposite() && ed.Count > 1<<16 && ed.Count < 1<<47 {
			return ed.Count
		}
	}
	for _, c := range s.ChildStorables() {
		if n := c19EncodeHazard(c, depth+1, budget); n != 0 {
			return n
		}
	}
	return 0
}

// c19RunOne runs the calls the property talks about on one input.  withEncode=false skips EncodeSlab
// (used for the allocation sample so that only decoding and accessors are measured).
func c19RunOne(id atree.SlabID, data []byte, withEncode bool) (res c19Result) {
	start := time.Now()
	var q [3][2]uint64
	c19HQ(atree.IsRootOfAnObject, data, &q[0], &res.panicked, "IsRootOfAnObject")
	c19HQ(atree.HasPointers, data, &q[1], &res.panicked, "HasPointers")
	c19HQ(atree.HasSizeLimit, data, &q[2], &res.panicked, "HasSizeLimit")
	res.hq = [6]uint64{q[0][0], q[0][1], q[1][0], q[1][1], q[2][0], q[2][1]}
	var slab atree.Slab
	var err error
	func() {
		defer func() {
			if r := recover(); r != nil {
				res.panicked = fmt.Sprintf("DecodeSlab: %v", r)
				slab, err = nil, errors.New("panic")
			}
		}()
		slab, err = c19Decode(id, data)
	}()
	if err != nil {
		res.errClass = c19ErrClass(err)
	} else if slab == nil {
		res.panicked = "DecodeSlab returned (nil, nil)"
	} else {
		res.accepted = true
		res.slab = slab
		func() {
			defer func() {
				if r := recover(); r != nil {
					res.accPanic = fmt.Sprintf("accessor: %v", r)
				}
			}()
			_ = slab.ByteSize()
			_ = slab.SlabID()
			budget := 100000
			c19Children(slab, 0, &budget)
		}()
		if withEncode && res.accPanic == "" {
			func() {
				defer func() {
					if r := recover(); r != nil {
						res.encPanic = fmt.Sprintf("%v", r)
					}
				}()
				budget := 100000
				if n := c19EncodeHazard(slab, 0, &budget); n != 0 {
					res.encCount = n
					return
				}
				_, _ = atree.EncodeSlab(slab, encMode)
			}()
		}
	}
	res.elapsed = time.Since(start)
	return res
}

// ---- post-decode path: Retrieve through a PersistentSlabStorage, open the container, iterate ----

type c19Overlay struct {
	under map[atree.SlabID][]byte // shared, read-only
	id    atree.SlabID
	data  []byte
}

func (o *c19Overlay) Store(atree.SlabID, []byte) error { return nil }
func (o *c19Overlay) Remove(atree.SlabID) error        { return nil }
func (o *c19Overlay) Retrieve(id atree.SlabID) ([]byte, bool, error) {
	if id == o.id {
		return o.data, true, nil
	}
	d, ok := o.under[id]
	return d, ok, nil
}
func (o *c19Overlay) GenerateSlabID(a atree.Address) (atree.SlabID, error) {
	return atree.NewSlabID(a, atree.SlabIndex{0xff, 0, 0, 0, 0, 0, 0, 1}), nil
}
func (o *c19Overlay) SegmentCounts() int    { return len(o.under) + 1 }
func (o *c19Overlay) Size() int             { return 0 }
func (o *c19Overlay) BytesRetrieved() int   { return 0 }
func (o *c19Overlay) BytesStored() int      { return 0 }
func (o *c19Overlay) SegmentsReturned() int { return 0 }
func (o *c19Overlay) SegmentsUpdated() int  { return 0 }
func (o *c19Overlay) SegmentsTouched() int  { return 0 }
func (o *c19Overlay) ResetReporter()        {}

// c19LimitStorage bounds the number of slab retrievals of one post-decode session: an accepted register
// may reference itself (e.g. an external collision group pointing at its own slab), which makes the
// iteration loop or recurse without end; that is outside C19, but the harness must survive it.
type c19LimitStorage struct {
	*atree.PersistentSlabStorage
	n int
}

func (s *c19LimitStorage) Retrieve(id atree.SlabID) (atree.Slab, bool, error) {
	s.n++
	if s.n > 4000 {
		panic("c19: retrieve limit")
	}
	return s.PersistentSlabStorage.Retrieve(id)
}

// c19PostDecode returns "" or an event name (post_decode_panic / post_decode_hang / ...).
func c19PostDecode(reg c19Reg, data []byte) (string, string) {
	type evMsg struct{ ev, msg string }
	done := make(chan evMsg, 1)
	go func() {
		ev := ""
		msg := ""
		defer func() {
			if r := recover(); r != nil {
				ev = "post_decode_panic"
				msg = fmt.Sprint(r)
				if msg == "c19: retrieve limit" {
					ev = "post_decode_cycle"
				}
			}
			done <- evMsg{ev, msg}
		}()
		st := &c19LimitStorage{PersistentSlabStorage: atree.NewPersistentSlabStorage(&c19Overlay{under: reg.segs, id: reg.id, data: data}, encMode, decMode, decodeStorableSafe, c19DecodeTypeInfo)}
		slab, found, err := st.Retrieve(reg.id)
		if err != nil || !found || slab == nil {
			ev = "post_retrieve_error"
			return
		}
		isRoot, _ := atree.IsRootOfAnObject(data)
		if !isRoot || len(data) < 2 {
			return
		}
		switch (data[1] & 0x18) >> 3 {
		case 0:
			a, err := atree.NewArrayWithRootID(st, reg.id)
			if err != nil {
				ev = "post_open_error"
				return
			}
			_ = a.Count()
			n := 0
			err = a.IterateReadOnly(func(atree.Value) (bool, error) { n++; return n < 100, nil })
			if err != nil {
				ev = "post_iterate_error"
			} else {
				ev = "post_iterate_ok"
			}
		case 1:
			m, err := atree.NewMapWithRootID(st, reg.id, atree.NewDefaultDigesterBuilder())
			if err != nil {
				ev = "post_open_error"
				return
			}
			_ = m.Count()
			n := 0
			err = m.IterateReadOnly(func(atree.Value, atree.Value) (bool, error) { n++; return n < 100, nil })
			if err != nil {
				ev = "post_iterate_error"
			} else {
				ev = "post_iterate_ok"
			}
		}
	}()
	select {
	case e := <-done:
		return e.ev, e.msg
	case <-time.After(2 * time.Second):
		return "post_decode_hang", ""
	}
}

// ---------------------------------------------------------------------------------------------
// batches
// ---------------------------------------------------------------------------------------------

type c19Stats struct {
	ops, errs, events map[string]int
	viol              []Violation
	inputs            int
	accepted          int
	encSample         string   // one EncodeSlab observation of the batch
	trace             []string // trace lines of the batch (already formatted)
	traceSteps        int
	maxElapsed        time.Duration
}

func newC19Stats() *c19Stats {
	return &c19Stats{ops: map[string]int{}, errs: map[string]int{}, events: map[string]int{}}
}

type c19Slot struct {
	start atomic.Int64 // unix nano of the running input, 0 = idle
	cur   atomic.Pointer[[]byte]
	tag   atomic.Pointer[string]
}

// c19TraceStep formats one trace step for the model engine.
//
//	kind 1: header queries            obs = c1 v1 c2 v2 c3 v3
//	kind 2: array metadata slab       obs = 1 | 0 size count hasExtra n (addr idx count size)*
//	kind 3: map metadata slab         obs = 1 | 0 size firstKey hasExtra n (addr idx firstKey size)*
//	kind 4: rejected by the dispatch  obs = 1          (len < 2, undefined slab type)
func c19TraceStep(st *c19Stats, kind uint64, data []byte, obs []uint64) {
	var sb strings.Builder
	sb.WriteString("O ")
	sb.WriteString(fmt.Sprint(kind))
	for _, b := range data {
		sb.WriteByte(' ')
		sb.WriteString(fmt.Sprint(b))
	}
	sb.WriteString("\nR ")
	sb.WriteString(uints(obs))
	sb.WriteByte('\n')
	st.trace = append(st.trace, sb.String())
	st.traceSteps++
}

// c19TraceKind decides whether the model engine fully decides this input, and under which kind.
func c19TraceKind(data []byte) uint64 {
	if len(data) < 2 {
		return 4
	}
	f := data[1]
	switch (f & 0x18) >> 3 {
	case 0:
		if f&7 == 1 {
			return 2
		}
		if f&7 != 0 {
			return 4
		}
	case 1:
		if f&7 == 1 {
			return 3
		}
		if f&7 != 0 && f&7 != 3 {
			return 4
		}
	case 2:
		return 4
	}
	return 0
}

func c19MetaObs(res c19Result) []uint64 {
	if !res.accepted {
		return []uint64{1}
	}
	kind, self, ch, hasExtra := atree.VerifMetaHeaders(res.slab)
	obs := []uint64{0, uint64(self.Size)}
	if kind == 2 {
		obs = append(obs, uint64(self.Count))
	} else {
		obs = append(obs, self.FirstKey)
	}
	if hasExtra {
		obs = append(obs, 1)
	} else {
		obs = append(obs, 0)
	}
	obs = append(obs, uint64(len(ch)))
	for _, c := range ch {
		a, i := idPair(c.ID)
		if kind == 2 {
			obs = append(obs, a, i, uint64(c.Count), uint64(c.Size))
		} else {
			obs = append(obs, a, i, c.FirstKey, uint64(c.Size))
		}
	}
	return obs
}

type c19Runner struct {
	post bool
}

// process runs one input on a worker and accounts for it.
func (r *c19Runner) process(st *c19Stats, slot *c19Slot, hist int, tag string, step int, reg c19Reg, in c19Input, traceIt bool) {
	d := in.data
	slot.cur.Store(&d)
	slot.start.Store(time.Now().UnixNano())
	res := c19RunOne(reg.id, d, true)
	// a slow run is only meaningful if it is slow again: the machine may be loaded or a GC cycle may have hit;
	// the time of an input is the fastest of up to three runs
	for retry := 0; retry < 2 && res.elapsed > 2*time.Second; retry++ {
		if again := c19RunOne(reg.id, d, true); again.elapsed < res.elapsed {
			res.elapsed = again.elapsed
		}
	}
	slot.start.Store(0)
	st.inputs++
	st.ops[in.kind]++
	sk := "kind." + c19SlabKind(d)
	if in.kind == "valid" {
		sk = "validkind." + reg.src + "." + c19SlabKind(d)
	}
	st.events[sk]++
	if res.elapsed > st.maxElapsed {
		st.maxElapsed = res.elapsed
	}
	if res.panicked != "" {
		st.viol = append(st.viol, Violation{hist, tag, step, "C19: panic in " + res.panicked + " (mutation " + in.kind + ")", "input=" + hex.EncodeToString(d)})
	}
	if res.accPanic != "" {
		st.viol = append(st.viol, Violation{hist, tag, step, "C19: accessor panic on a slab returned by DecodeSlab: " + res.accPanic + " (mutation " + in.kind + ")", "input=" + hex.EncodeToString(d)})
	}
	// EncodeSlab on a slab decoded from attacker-made bytes is outside C19 (and outside C07, which covers
	// registers produced by the library): observations only, never violations.
	if res.encPanic != "" {
		st.events["reencode_panic"]++
		if st.encSample == "" {
			st.encSample = "observation (not a C19 violation): EncodeSlab panics on a slab returned by DecodeSlab: " + res.encPanic + "; input=" + hex.EncodeToString(d)
		}
	}
	if res.encCount != 0 {
		st.events["reencode_overalloc"]++
		if st.encSample == "" {
			st.encSample = fmt.Sprintf("observation (not a C19 violation): EncodeSlab would allocate 32*Count bytes for the unchecked MapExtraData.Count=%d of an inlined map (not executed); input=%s", res.encCount, hex.EncodeToString(d))
		}
	}
	if res.elapsed > 2*time.Second {
		st.viol = append(st.viol, Violation{hist, tag, step, fmt.Sprintf("C19: hang: one input took %v (mutation %s)", res.elapsed, in.kind), "input=" + hex.EncodeToString(d)})
	}
	if res.accepted {
		st.accepted++
		st.events["accepted."+in.kind]++
		st.events["acceptedkind."+c19SlabKind(d)]++
		if in.kind == "valid" {
			// a valid register must be accepted and its header queries must succeed
		}
		if r.post && in.kind != "valid" && reg.segs != nil {
			if ev, msg := c19PostDecode(reg, d); ev != "" {
				st.events[ev]++
				if ev == "post_decode_panic" || ev == "post_decode_hang" || ev == "post_decode_cycle" {
					if st.events["sampled."+ev] < 3 {
						st.events["sampled."+ev]++
						st.trace = append(st.trace, fmt.Sprintf("# %s (%s) id=%s input=%x\n", ev, msg, reg.id, d))
					}
				}
			}
		}
	} else {
		st.events["rejected."+in.kind]++
		st.errs[res.errClass]++
		if in.kind == "valid" && res.panicked == "" {
			st.viol = append(st.viol, Violation{hist, tag, step, "C19: harness self-check: a valid register was rejected", "input=" + hex.EncodeToString(d)})
		}
	}
	if traceIt && res.panicked == "" {
		if k := c19TraceKind(d); k != 0 && len(d) <= 700 {
			if k == 4 {
				if !res.accepted {
					c19TraceStep(st, 4, d, []uint64{1})
				}
			} else {
				c19TraceStep(st, k, d, c19MetaObs(res))
			}
		}
	}
}

// ---------------------------------------------------------------------------------------------
// command
// ---------------------------------------------------------------------------------------------

func cmdDecode(a Args) {
	rep := NewReport("C19", a.Seed)
	rep.Rule = "inputs = all byte strings of length <=2, random strings of length 0..64, and for each valid register (v1 from random nested histories at slab sizes 256/400/1024 with tiny-alphabet digesters, multi-level trees, compact maps, storable slabs; v0 from the repository's test fixtures, a v0 encoder and v1->v0 conversion): structured edits of atree-level fields (version, flag bits, all prefixes, child-header counts, CBOR array/string heads, tags, extra-data indexes, slab ids, item deletion/duplication, splices), item-level edits (an item replaced by an item of every other type incl. every storable / type-info form the callbacks decode, major type changed in place, tag wrapping, counts and lengths up and down with and without the payload, sibling swaps, item tails cut) and byte-level edits; v1 corpus includes random forests of inlined arrays/maps/composite-typed (compact) maps up to 4 levels deep; directed batches: per register with an inlined-extra-data section the complete item-level stream on root extra data + section, one sweep of the fixed-layout headers of metadata slabs of every kind and version (child count 0,1,2,n-1,n,n+1,2n,255,256,0x7fff,0x8000,0xffff x payload as is / exact / one byte or header short or long / none; header fields 0,1,max), one sweep of the counted fields of data slabs; per input: 3 header queries, DecodeSlab, ByteSize/ChildStorables (recursive)/SlabID/EncodeSlab under recover; oracles: no panic, < 2 s, allocated bytes <= 16 KiB + 256*len (single-goroutine sample, measured before the parallel phase); non-trivial = a batch with at least one accepted and one rejected mutation"
	tr := NewTrace(a.Out + "/trace.txt")
	defer atree.VerifSetThreshold(1024)
	t0 := time.Now()

	N := a.N
	if N <= 100 { // default of the shared flag: use the quick tier
		N = 500000
	}
	thorough := strings.Contains(a.Mode, "thorough") || N >= 2000000
	worlds := 60
	forests := 60
	maxRegs := 600
	maxFocus := 120
	if thorough {
		worlds = 240
		forests = 400
		maxRegs = 4000
		maxFocus = 1500
	}
	corpus := c19BuildCorpus(a.Seed, worlds, forests, rep)
	for k, v := range corpus.events {
		rep.EventN(k, v)
	}
	all := corpus.regs
	regs := c19Select(all, maxRegs)
	rep.EventN("corpus_registers_total", len(all))
	rep.EventN("corpus_registers_used", len(regs))
	for _, r := range regs {
		rep.Event("corpus." + r.src + "." + c19SlabKind(r.data))
	}
	rep.Event("encode_probe." + c19ProbeEncode(all))
	tCorpus := time.Since(t0)

	const nSmall = 1 + 256 + 65536
	nRandom := 20000
	if thorough {
		nRandom = 400000
	}
	quota := 400
	if rest := N - nSmall - nRandom; rest > 0 && len(regs) > 0 && rest/len(regs) > quota {
		quota = rest / len(regs)
	}

	// directed batches after the per-register ones:
	//   focus   one per register with an inlined-extra-data section: complete item-level stream on the section
	//   hdr     fixed-layout headers of metadata slabs (all kinds, both versions): child count x payload
	//   spine   counted fields of data slabs (all kinds, both versions): count x payload
	focus := c19SelectFocus(all, maxFocus)
	perKind := 3
	if thorough {
		perKind = 12
	}
	metas := c19SelectByKind(all, perKind, func(r c19Reg, kind string) bool { return strings.Contains(kind, "Meta") })
	spines := c19SelectByKind(all, perKind, func(r c19Reg, kind string) bool {
		return strings.Contains(kind, "Data") || strings.Contains(kind, "collisionGroup") || strings.Contains(kind, "storable")
	})
	rep.EventN("corpus_focus_registers", len(focus))
	rep.EventN("corpus_header_registers", len(metas))
	rep.EventN("corpus_spine_registers", len(spines))
	for _, r := range focus {
		rep.Event(fmt.Sprintf("focus.%s.entries%d", c19SlabKind(r.data), c19SectionKinds(r.data, c19Layout(r.data))))
	}
	kFocus := 2 + len(regs)
	kHdr := kFocus + len(focus)
	kSpine := kHdr + 1
	nb := kSpine + 1
	focusCap := 6000 // quick tier: inputs per focus batch (the item-level stream of a section is rarely longer)
	stats := make([]*c19Stats, nb)
	workers := runtime.NumCPU()
	if workers > 32 {
		workers = 32
	}
	slots := make([]*c19Slot, workers)
	for i := range slots {
		slots[i] = &c19Slot{}
	}
	runner := &c19Runner{post: true}
	mkBatchRng := func(k int) *Rng { return NewRng(a.Seed*0x9E3779B97F4A7C15 ^ (uint64(k)+1)*0xD6E8FEB86659FD93) }
	traceRegs := 0

	// hang monitor: an input that does not return within 20 s is reported and the run ends
	var hangOnce sync.Once
	stopMon := make(chan struct{})
	go func() {
		for {
			select {
			case <-stopMon:
				return
			case <-time.After(500 * time.Millisecond):
			}
			now := time.Now().UnixNano()
			for _, s := range slots {
				st := s.start.Load()
				if st != 0 && now-st > int64(20*time.Second) {
					hangOnce.Do(func() {
						d := *s.cur.Load()
						tg := ""
						if p := s.tag.Load(); p != nil {
							tg = *p
						}
						rep.Violate(0, tg, 0, "C19: hang: an input did not return within 20 s", "input="+hex.EncodeToString(d))
						rep.Write(a.Out + "/report.json")
						tr.Close()
						os.Exit(0)
					})
				}
			}
		}
	}()

	// inputs of batch k (deterministic in (seed, k))
	genBatch := func(k int, rng *Rng, emit func(step int, reg c19Reg, in c19Input)) {
		switch k {
		case 0:
			reg := c19Reg{id: mkID(1, 1)}
			step := 0
			emit(step, reg, c19Input{"exhaustive", []byte{}})
			for x := 0; x < 256; x++ {
				step++
				emit(step, reg, c19Input{"exhaustive", []byte{byte(x)}})
			}
			for x := 0; x < 65536; x++ {
				step++
				emit(step, reg, c19Input{"exhaustive", []byte{byte(x >> 8), byte(x)}})
			}
		case 1:
			reg := c19Reg{id: mkID(1, 1)}
			for i := 0; i < nRandom; i++ {
				n := rng.Intn(65)
				b := make([]byte, n)
				for j := range b {
					b[j] = byte(rng.U64())
				}
				if n >= 2 && rng.Chance(70) { // plausible head so that the body decoders are reached
					b[0] = []byte{0x00, 0x10, 0x11, 0x12, 0x13}[rng.Intn(5)]
					b[1] = []byte{0x00, 0x01, 0x08, 0x09, 0x0b, 0x1f, 0x80, 0x81, 0x88, 0x89, 0x40, 0x3f}[rng.Intn(12)]
				}
				emit(i, reg, c19Input{"random", b})
			}
		default:
			switch {
			case k >= kSpine:
				step := 0
				for _, reg := range spines {
					for _, in := range c19SpineEdits(reg) {
						emit(step, reg, in)
						step++
					}
				}
			case k >= kHdr:
				step := 0
				bigDone := map[string]bool{}
				for _, reg := range metas {
					kind := c19SlabKind(reg.data)
					for _, in := range c19HeaderSweep(reg, !bigDone[kind]) {
						emit(step, reg, in)
						step++
					}
					bigDone[kind] = true
				}
			case k >= kFocus:
				reg := focus[k-kFocus]
				ss := c19FocusEdits(reg)
				if !thorough {
					ss = c19Thin(ss, focusCap, k)
				}
				emit(0, reg, c19Input{"valid", reg.data})
				for i, in := range ss {
					emit(i+1, reg, in)
				}
			default:
				reg := regs[k-2]
				step := 0
				emit(step, reg, c19Input{"valid", reg.data})
				ss := c19Structured(reg, regs, rng)
				if !thorough {
					// deterministic thinning: every kind keeps a share, positions differ from register to register
					ss = c19Thin(ss, quota*6/10, k)
				}
				for _, in := range ss {
					step++
					emit(step, reg, in)
				}
				for step < quota {
					step++
					emit(step, reg, c19ByteLevel(reg.data, regs, rng))
				}
			}
		}
	}

	// ---- phase 1: allocation sample, single goroutine, before anything else runs ----
	var ms0, ms1 runtime.MemStats
	maxRatioPermille, maxValidPermille := uint64(0), uint64(0)
	maxBytes := uint64(0)
	maxBytesLen := 0
	maxRatioInput := ""
	allocViol := 0
	allocSamples := 0
	allocBudget := 16000
	if thorough {
		allocBudget = 300000
	}
	perBatch := allocBudget / nb
	if perBatch < 20 {
		perBatch = 20
	}
	for k := 0; k < nb; k++ {
		tag := fmt.Sprintf("b%d", k)
		if !want(tag) {
			continue
		}
		rng := mkBatchRng(k)
		taken := 0
		total := quota + 1
		switch {
		case k == 0:
			total = nSmall
		case k == 1:
			total = nRandom
		case k >= kSpine:
			total = 300 * len(spines)
		case k >= kHdr:
			total = 120 * len(metas)
		case k >= kFocus:
			total = 3000
		}
		stride := 1
		if total > perBatch {
			stride = total / perBatch
		}
		genBatch(k, rng, func(step int, reg c19Reg, in c19Input) {
			hot := in.kind == "valid" || in.kind == "childcount" || in.kind == "arrayhead" || in.kind == "strhead" || in.kind == "countsum" ||
				in.kind == "hdrcount" || in.kind == "hdrcount+body" || in.kind == "count+body" || in.kind == "count-body" || in.kind == "len+body"
			if !(hot && step%2 == 0) && step%stride != 0 && in.kind != "valid" {
				return
			}
			if taken >= 3*perBatch && !(k >= kHdr && taken < 2000) { // the two directed batches span many registers
				return
			}
			taken++
			slots[0].cur.Store(&in.data)
			slots[0].tag.Store(&tag)
			slots[0].start.Store(time.Now().UnixNano())
			runtime.ReadMemStats(&ms0)
			res := c19RunOne(reg.id, in.data, false)
			runtime.ReadMemStats(&ms1)
			slots[0].start.Store(0)
			_ = res
			delta := ms1.TotalAlloc - ms0.TotalAlloc
			bound := uint64(c19AllocBase + c19AllocPerByte*len(in.data))
			pm := delta * 1000 / bound
			allocSamples++
			if pm > maxRatioPermille {
				maxRatioPermille = pm
				maxRatioInput = fmt.Sprintf("%s step %d (%s): %d bytes allocated, bound %d, input (%d bytes) %x", tag, step, in.kind, delta, bound, len(in.data), in.data[:min(len(in.data), 160)])
			}
			if delta > maxBytes {
				maxBytes = delta
				maxBytesLen = len(in.data)
			}
			if in.kind == "valid" && pm > maxValidPermille {
				maxValidPermille = pm
			}
			if delta > bound {
				allocViol++
			}
			if delta > bound && allocViol <= 10 {
				rep.Violate(k, tag, step, fmt.Sprintf("C19: allocation out of proportion: %d bytes allocated for an input of %d bytes (bound %d, mutation %s)", delta, len(in.data), bound, in.kind), "input="+hex.EncodeToString(in.data))
			}
		})
	}
	tB := time.Since(t0)

	// ---- phase 2: all inputs, parallel (panic / hang / accept-reject statistics / trace) ----
	var wg sync.WaitGroup
	next := atomic.Int64{}
	metaBatches := map[int]bool{}
	for k := 2; k < kFocus; k++ {
		kind := c19SlabKind(regs[k-2].data)
		if strings.Contains(kind, "Meta") && traceRegs < 60 {
			metaBatches[k] = true
			traceRegs++
		}
	}
	for wi := 0; wi < workers; wi++ {
		wg.Add(1)
		go func(slot *c19Slot) {
			defer wg.Done()
			for {
				k := int(next.Add(1) - 1)
				if k >= nb {
					return
				}
				tag := fmt.Sprintf("b%d", k)
				if !want(tag) {
					continue
				}
				slot.tag.Store(&tag)
				st := newC19Stats()
				stats[k] = st
				traceBudget := 400
				genBatch(k, mkBatchRng(k), func(step int, reg c19Reg, in c19Input) {
					traceIt := false
					if k == 0 {
						traceIt = false // header queries of b0 are traced separately below
					} else if metaBatches[k] && st.traceSteps < traceBudget {
						traceIt = true
					} else if k == 1 && st.traceSteps < 3000 {
						traceIt = true
					}
					runner.process(st, slot, k, tag, step, reg, in, traceIt)
					if k <= 1 || (metaBatches[k] && step%7 == 0) {
						// header queries on raw bytes
						if k == 0 || st.traceSteps < traceBudget+3000 {
							res := c19RunOne(reg.id, in.data, false)
							if res.panicked == "" && len(in.data) <= 700 {
								c19TraceStep(st, 1, in.data, res.hq[:])
							}
						}
					}
				})
			}
		}(slots[wi])
	}
	wg.Wait()
	close(stopMon)
	tA := time.Since(t0)

	// ---- merge ----
	inputs, accepted := 0, 0
	violClass := map[string]int{}
	encSampled, encSample := false, ""
	var maxElapsed time.Duration
	for k := 0; k < nb; k++ {
		st := stats[k]
		if st == nil {
			continue
		}
		tag := fmt.Sprintf("b%d", k)
		rep.Histories++
		inputs += st.inputs
		accepted += st.accepted
		if st.maxElapsed > maxElapsed {
			maxElapsed = st.maxElapsed
		}
		for n, v := range st.ops {
			rep.Ops[n] += v
		}
		for n, v := range st.errs {
			rep.Errors[n] += v
		}
		for n, v := range st.events {
			rep.Events[n] += v
		}
		for _, v := range st.viol {
			cls := v.What
			if len(cls) > 18 {
				cls = cls[:18]
			}
			violClass[cls]++
			if violClass[cls] <= 12 {
				rep.Violate(v.Hist, v.Tag, v.Step, v.What, v.Detail)
			}
		}
		if st.accepted > 0 && st.accepted < st.inputs {
			rep.Distinct(tag)
		}
		if st.encSample != "" && !encSampled {
			encSampled = true
			encSample = st.encSample
		}
		if len(st.trace) > 0 {
			tr.Hist(tag, 19)
			for _, l := range st.trace {
				if strings.HasPrefix(l, "#") {
					tr.Comment(strings.TrimSpace(l[1:]))
					continue
				}
				fmt.Fprint(tr.w, l)
				tr.Steps++
			}
		}
	}
	rep.Steps = inputs
	rep.EventN("inputs", inputs)
	rep.EventN("accepted", accepted)
	rep.EventN("rejected", inputs-accepted)
	rep.EventN("alloc_samples", allocSamples)
	rep.EventN("alloc_violations", allocViol)
	for cls, n := range violClass {
		rep.EventN("violations["+cls+"]", n)
	}
	rep.EventN("alloc_max_ratio_permille", int(maxRatioPermille))
	rep.EventN("alloc_max_ratio_valid_permille", int(maxValidPermille))
	rep.EventN("alloc_max_bytes", int(maxBytes))
	rep.EventN("alloc_max_bytes_input_len", maxBytesLen)
	rep.EventN("max_elapsed_us", int(maxElapsed/time.Microsecond))
	rep.EventN("trace_steps", tr.Steps)
	el := time.Since(t0)
	if el > 0 {
		rep.EventN("inputs_per_second", int(float64(inputs)/el.Seconds()))
	}
	rep.EventN("time_corpus_ms", int(tCorpus/time.Millisecond))
	rep.EventN("time_alloc_phase_ms", int((tB-tCorpus)/time.Millisecond))
	rep.EventN("time_parallel_phase_ms", int((tA-tB)/time.Millisecond))
	if encSampled {
		rep.Samples = append(rep.Samples, encSample) // kept in full: it is the replay input of the observation
	}
	if maxRatioInput != "" {
		rep.Sample("largest allocation relative to the bound: " + maxRatioInput)
	}
	rep.Sample(fmt.Sprintf("inputs=%d accepted=%d batches=%d registers=%d/%d workers=%d quota=%d", inputs, accepted, rep.Histories, len(regs), len(all), workers, quota))
	tr.Close()
	rep.Write(a.Out + "/report.json")
}
