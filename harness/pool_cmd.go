//go:build verif

package main

// poolcheck — C16 (pool part): SYNTACTIC check of the bracketing hypothesis of
// props/C16_pool.v (`well_bracketed`) and of the object laws (`clean_reset`, `init_sim`)
// on the library sources as they are now.  No hooks, nothing is executed.
//
//   - pools            = package-level `var X = sync.Pool{...}`
//   - direct getters   = functions calling X.Get(); putters = functions calling X.Put(..)
//     (a putter must call <arg>.Reset() before X.Put)
//   - indirect getters = functions that obtain an object from a getter and return it
//     (basicDigesterBuilder.Digest); matched at call sites by name and argument count
//   - a site           = `v := <getter call>`; the object must not be used after a put that can
//     flow to the use: a put is either deferred (then v must not be returned), or no use of v
//     follows it on the lexical continuation of the put statement (enclosing blocks are followed
//     until a return/continue/break; a put inside a loop whose object was obtained outside the loop
//     makes every use in that loop a use-after-put)
//   - struct check     = every field of the pooled struct that its methods read is either
//     assigned by the initialising getter or cleared by Reset (which the putter calls)
//
// Limits (stated, not checked): aliases of v (copies of the pointer, closures started with `go`,
// slices into a bytes.Buffer obtained with Bytes()) are followed only for `return v.Bytes()`.

import (
	"fmt"
	"go/ast"
	"go/parser"
	"go/token"
	"os"
	"path/filepath"
	"runtime/debug"
	"sort"
	"strings"
)

func init() { register("poolcheck", cmdPoolCheck) }

func atreeSrcDir(mode string) string {
	if strings.HasPrefix(mode, "src=") {
		return mode[4:]
	}
	if bi, ok := debug.ReadBuildInfo(); ok {
		for _, m := range bi.Deps {
			if m.Path == "github.com/onflow/atree" && m.Replace != nil && filepath.IsAbs(m.Replace.Path) {
				return m.Replace.Path
			}
		}
	}
	return "/repo"
}

type poolFn struct {
	pool  string
	arity int
}

type poolChecker struct {
	fset    *token.FileSet
	rep     *Report
	getters map[string]poolFn // name -> pool, number of arguments
	putters map[string]string // name -> pool
	nsites  int
}

func (pc *poolChecker) pos(p token.Pos) string {
	q := pc.fset.Position(p)
	return fmt.Sprintf("%s:%d", filepath.Base(q.Filename), q.Line)
}

func callName(c *ast.CallExpr) string {
	switch f := c.Fun.(type) {
	case *ast.Ident:
		return f.Name
	case *ast.SelectorExpr:
		return f.Sel.Name
	}
	return ""
}

// poolMethodCall reports X.<method>(...) on a known pool variable.
func poolMethodCall(c *ast.CallExpr, pools map[string]string, method string) string {
	if s, ok := c.Fun.(*ast.SelectorExpr); ok && s.Sel.Name == method {
		if x, ok := s.X.(*ast.Ident); ok {
			if _, ok := pools[x.Name]; ok {
				return x.Name
			}
		}
	}
	return ""
}

func (pc *poolChecker) isGetterCall(e ast.Expr) (poolFn, bool) {
	if t, ok := e.(*ast.TypeAssertExpr); ok {
		e = t.X
	}
	c, ok := e.(*ast.CallExpr)
	if !ok {
		return poolFn{}, false
	}
	g, ok := pc.getters[callName(c)]
	return g, ok && len(c.Args) == g.arity
}

func sameVar(id *ast.Ident, v *ast.Ident) bool {
	if id.Obj != nil && v.Obj != nil {
		return id.Obj == v.Obj
	}
	return id.Name == v.Name
}

// parents of every node below root
func parentMap(root ast.Node) map[ast.Node]ast.Node {
	par := map[ast.Node]ast.Node{}
	var stack []ast.Node
	ast.Inspect(root, func(n ast.Node) bool {
		if n == nil {
			stack = stack[:len(stack)-1]
			return true
		}
		if len(stack) > 0 {
			par[n] = stack[len(stack)-1]
		}
		stack = append(stack, n)
		return true
	})
	return par
}

func stmtList(n ast.Node) []ast.Stmt {
	switch b := n.(type) {
	case *ast.BlockStmt:
		return b.List
	case *ast.CaseClause:
		return b.Body
	case *ast.CommClause:
		return b.Body
	}
	return nil
}

type poolSite struct {
	fn     string
	v      *ast.Ident
	assign ast.Node
	pool   string
}

// sitesIn lists `v := getter(...)` / `v = getter(...)` / `var v = getter(...)` in a function body.
func (pc *poolChecker) sitesIn(fd *ast.FuncDecl) []poolSite {
	var out []poolSite
	ast.Inspect(fd.Body, func(n ast.Node) bool {
		switch s := n.(type) {
		case *ast.AssignStmt:
			if len(s.Rhs) == 1 && len(s.Lhs) >= 1 {
				if g, ok := pc.isGetterCall(s.Rhs[0]); ok {
					if id, ok := s.Lhs[0].(*ast.Ident); ok && id.Name != "_" {
						out = append(out, poolSite{fd.Name.Name, id, s, g.pool})
					} else {
						pc.rep.Event("site_result_not_in_variable")
					}
				}
			}
		case *ast.ValueSpec:
			if len(s.Values) == 1 && len(s.Names) >= 1 {
				if g, ok := pc.isGetterCall(s.Values[0]); ok {
					out = append(out, poolSite{fd.Name.Name, s.Names[0], s, g.pool})
				}
			}
		}
		return true
	})
	return out
}

type varUse struct {
	id       *ast.Ident
	kind     string // use | put | deferput | return | returnalias
	stmt     ast.Stmt
	putOther bool
}

// usesOf classifies every occurrence of the site's variable after the assignment.
func (pc *poolChecker) usesOf(fd *ast.FuncDecl, st poolSite, par map[ast.Node]ast.Node) []varUse {
	var out []varUse
	ast.Inspect(fd.Body, func(n ast.Node) bool {
		id, ok := n.(*ast.Ident)
		if !ok || id.Pos() < st.assign.End() || !sameVar(id, st.v) {
			return true
		}
		u := varUse{id: id, kind: "use"}
		if c, ok := par[id].(*ast.CallExpr); ok && len(c.Args) == 1 && c.Args[0] == ast.Expr(id) {
			if _, isPut := pc.putters[callName(c)]; isPut {
				u.kind = "put"
			}
		}
		if _, ok := par[id].(*ast.ReturnStmt); ok {
			u.kind = "return"
		}
		if s, ok := par[id].(*ast.SelectorExpr); ok && s.Sel.Name == "Bytes" {
			if c, ok := par[s].(*ast.CallExpr); ok {
				if _, ok := par[c].(*ast.ReturnStmt); ok {
					u.kind = "returnalias"
				}
			}
		}
		for a := par[ast.Node(id)]; a != nil && a != ast.Node(fd.Body); a = par[a] {
			if _, ok := a.(*ast.DeferStmt); ok && u.kind == "put" {
				u.kind = "deferput"
			}
			if s, ok := a.(ast.Stmt); ok && u.stmt == nil {
				if stmtList(par[a]) != nil {
					u.stmt = s
				}
			}
		}
		out = append(out, u)
		return true
	})
	return out
}

func within(n ast.Node, p token.Pos) bool { return n.Pos() <= p && p < n.End() }

func terminates(s ast.Stmt) bool {
	switch x := s.(type) {
	case *ast.ReturnStmt, *ast.BranchStmt:
		return true
	case *ast.ExprStmt:
		if c, ok := x.X.(*ast.CallExpr); ok && callName(c) == "panic" {
			return true
		}
	}
	return false
}

// afterPut returns the uses that the (non-deferred) put statement can flow to.
func (pc *poolChecker) afterPut(fd *ast.FuncDecl, st poolSite, put varUse, uses []varUse, par map[ast.Node]ast.Node) []varUse {
	var bad []varUse
	seen := map[*ast.Ident]bool{}
	add := func(u varUse) {
		if !seen[u.id] && u.id != put.id {
			seen[u.id] = true
			bad = append(bad, u)
		}
	}
	var cur ast.Node = put.stmt
	for cur != nil {
		switch cur.(type) {
		case *ast.CaseClause, *ast.CommClause: // no fallthrough into later clauses: continue after the switch
			cur = par[par[cur]]
			continue
		}
		blk := par[cur]
		if blk == nil {
			break
		}
		list := stmtList(blk)
		if list == nil { // cur is a clause / else branch / loop body etc.: climb
			if cur == ast.Node(fd.Body) {
				break
			}
			switch l := blk.(type) {
			case *ast.ForStmt, *ast.RangeStmt:
				if !within(l, st.assign.Pos()) { // object obtained outside the loop: next iteration uses a returned object
					for _, u := range uses {
						if within(l, u.id.Pos()) {
							add(u)
						}
					}
				}
			}
			cur = blk
			continue
		}
		stop := false
		after := false
		for _, s := range list {
			if s == cur {
				after = true
				continue
			}
			if !after {
				continue
			}
			for _, u := range uses {
				if within(s, u.id.Pos()) {
					add(u)
				}
			}
			if terminates(s) {
				stop = true
				break
			}
		}
		if stop || within(blk, st.assign.Pos()) && stmtList(blk) != nil && containsDirect(list, st.assign) {
			break
		}
		cur = blk
	}
	return bad
}

func containsDirect(list []ast.Stmt, n ast.Node) bool {
	for _, s := range list {
		if ast.Node(s) == n {
			return true
		}
		if d, ok := s.(*ast.DeclStmt); ok && within(d, n.Pos()) {
			return true
		}
	}
	return false
}

func cmdPoolCheck(a Args) {
	dir := atreeSrcDir(a.Mode)
	rep := NewReport("C16", a.Seed)
	rep.Rule = "static: every non-test .go file of " + dir + " parsed with go/parser; pools = package-level sync.Pool variables; getters/putters found from X.Get()/X.Put() and propagated through functions that return the object; one history per site `v := getter(...)`: put deferred, or no use of v on the lexical continuation of a put (blocks followed up to return/continue/break, loop back-edges when the object was obtained outside the loop), v not returned after a deferred put; every putter calls Reset before Put; every field of a pooled struct read by its methods is set by the initialising getter or cleared by Reset; non-trivial = distinct site"
	defer func() {
		if r := recover(); r != nil {
			rep.Violate(0, "poolcheck", 0, fmt.Sprintf("C16: poolcheck failed: %v", r), "")
		}
		rep.Write(filepath.Join(a.Out, "report.json"))
		fmt.Printf("poolcheck: dir=%s sites=%d functions=%d violations=%d\n", dir, rep.Histories, rep.Steps, len(rep.Violations))
	}()
	fset := token.NewFileSet()
	pkgs, err := parser.ParseDir(fset, dir, func(fi os.FileInfo) bool {
		return !strings.HasSuffix(fi.Name(), "_test.go") && !strings.HasPrefix(fi.Name(), "verif_hooks")
	}, 0)
	if err != nil {
		panic(err)
	}
	var files []*ast.File
	for name, p := range pkgs {
		if name != "atree" {
			continue
		}
		var names []string
		for fn := range p.Files {
			names = append(names, fn)
		}
		sort.Strings(names)
		for _, fn := range names {
			files = append(files, p.Files[fn])
		}
	}
	if len(files) == 0 {
		panic("no source files of package atree in " + dir)
	}
	pc := &poolChecker{fset: fset, rep: rep, getters: map[string]poolFn{}, putters: map[string]string{}}

	// 1. pools and the struct type their New returns
	pools := map[string]string{} // pool -> element type ("" if unknown)
	for _, f := range files {
		for _, d := range f.Decls {
			gd, ok := d.(*ast.GenDecl)
			if !ok || gd.Tok != token.VAR {
				continue
			}
			for _, sp := range gd.Specs {
				vs := sp.(*ast.ValueSpec)
				for i, val := range vs.Values {
					cl, ok := val.(*ast.CompositeLit)
					if !ok {
						continue
					}
					if se, ok := cl.Type.(*ast.SelectorExpr); !ok || se.Sel.Name != "Pool" {
						continue
					}
					elem := ""
					ast.Inspect(cl, func(n ast.Node) bool {
						if u, ok := n.(*ast.UnaryExpr); ok && u.Op == token.AND {
							if c, ok := u.X.(*ast.CompositeLit); ok {
								if id, ok := c.Type.(*ast.Ident); ok {
									elem = id.Name
								}
							}
						}
						return true
					})
					pools[vs.Names[i].Name] = elem
					rep.Event("pool:" + vs.Names[i].Name)
				}
			}
		}
	}

	// 2. direct getters and putters
	var funcs []*ast.FuncDecl
	for _, f := range files {
		for _, d := range f.Decls {
			if fd, ok := d.(*ast.FuncDecl); ok && fd.Body != nil {
				funcs = append(funcs, fd)
			}
		}
	}
	rep.Steps = len(funcs)
	putterOf := map[string]*ast.FuncDecl{}
	for _, fd := range funcs {
		resetSeen := map[string]bool{}
		ast.Inspect(fd.Body, func(n ast.Node) bool {
			c, ok := n.(*ast.CallExpr)
			if !ok {
				return true
			}
			if s, ok := c.Fun.(*ast.SelectorExpr); ok && s.Sel.Name == "Reset" && len(c.Args) == 0 {
				if x, ok := s.X.(*ast.Ident); ok {
					resetSeen[x.Name] = true
				}
			}
			if p := poolMethodCall(c, pools, "Get"); p != "" {
				pc.getters[fd.Name.Name] = poolFn{p, fd.Type.Params.NumFields()}
				rep.Event("getter:" + fd.Name.Name)
			}
			if p := poolMethodCall(c, pools, "Put"); p != "" {
				pc.putters[fd.Name.Name] = p
				putterOf[p] = fd
				rep.Event("putter:" + fd.Name.Name)
				arg, _ := c.Args[0].(*ast.Ident)
				if arg == nil || !resetSeen[arg.Name] {
					rep.Violate(0, pc.pos(c.Pos()), 0, "C16: object returned to "+p+" without Reset (the next user does not reset on get): "+pc.pos(c.Pos()), fd.Name.Name)
				} else {
					rep.Event("putter_resets_before_put")
				}
			}
			return true
		})
	}

	// 3. indirect getters (return the object they obtained): fixpoint
	initFn := map[string][]*ast.FuncDecl{} // pool -> functions that obtain, initialise and return the object
	for changed := true; changed; {
		changed = false
	nextFunc:
		for _, fd := range funcs {
			if _, ok := pc.getters[fd.Name.Name]; ok {
				continue
			}
			par := parentMap(fd.Body)
			for _, st := range pc.sitesIn(fd) {
				for _, u := range pc.usesOf(fd, st, par) {
					if u.kind == "return" {
						pc.getters[fd.Name.Name] = poolFn{st.pool, fd.Type.Params.NumFields()}
						initFn[st.pool] = append(initFn[st.pool], fd)
						rep.Event("getter_indirect:" + fd.Name.Name)
						changed = true
						continue nextFunc
					}
				}
			}
		}
	}

	// 4. sites
	for _, fd := range funcs {
		sites := pc.sitesIn(fd)
		if len(sites) == 0 {
			continue
		}
		par := parentMap(fd.Body)
		for _, st := range sites {
			uses := pc.usesOf(fd, st, par)
			where := pc.pos(st.assign.Pos())
			nput, ndefer, nret, nuse := 0, 0, 0, 0
			var bad []string
			for _, u := range uses {
				switch u.kind {
				case "put":
					nput++
					for _, b := range pc.afterPut(fd, st, u, uses, par) {
						bad = append(bad, fmt.Sprintf("%s (put at %s)", pc.pos(b.id.Pos()), pc.pos(u.id.Pos())))
					}
				case "deferput":
					ndefer++
				case "return", "returnalias":
					nret++
				default:
					nuse++
				}
			}
			if ndefer > 0 {
				for _, u := range uses {
					if u.kind == "return" || u.kind == "returnalias" {
						bad = append(bad, fmt.Sprintf("%s (escapes through return, put deferred)", pc.pos(u.id.Pos())))
					}
				}
			}
			if ndefer > 0 && nput > 0 {
				bad = append(bad, fmt.Sprintf("%s (returned to the pool both by a deferred put and by an explicit put: it ends up in the pool twice)", where))
			}
			kind := "leak_no_put"
			switch {
			case ndefer > 0:
				kind = "put_deferred"
			case nret > 0 && nput > 0:
				kind = "handed_to_caller_put_on_error_path"
			case nret > 0:
				kind = "handed_to_caller"
			case nput > 0:
				kind = "put_after_last_use"
			}
			pc.nsites++
			rep.Histories++
			rep.Event("pool_sites_checked")
			rep.Event("site_" + kind)
			rep.Event("site_pool:" + st.pool)
			rep.EventN("uses_between_get_and_put", nuse)
			rep.Distinct(where + ":" + kind)
			line := fmt.Sprintf("%s %s: %s := <%s> %s uses=%d puts=%d defers=%d", where, st.fn, st.v.Name, st.pool, kind, nuse, nput, ndefer)
			if kind != "put_deferred" || len(bad) > 0 {
				rep.Sample(line)
			}
			fmt.Println("site", line)
			for _, b := range bad {
				rep.Violate(pc.nsites, where, 0, "C16: pooled object used after it was returned to the pool: "+b, line)
			}
		}
	}

	// 4b. a function may only return to the pool an object it obtained itself (from a getter); putting
	// an object received as a parameter (or any other variable) makes it end up in the pool twice, once
	// from here and once from its owner, after which two users share it
	for _, fd := range funcs {
		if _, isPutter := pc.putters[fd.Name.Name]; isPutter {
			continue
		}
		own := map[string]bool{}
		for _, st := range pc.sitesIn(fd) {
			own[st.v.Name] = true
		}
		ast.Inspect(fd.Body, func(n ast.Node) bool {
			c, ok := n.(*ast.CallExpr)
			if !ok {
				return true
			}
			if _, isPut := pc.putters[callName(c)]; !isPut || len(c.Args) != 1 {
				return true
			}
			id, ok := c.Args[0].(*ast.Ident)
			if !ok {
				return true
			}
			rep.Event("put_calls_checked")
			if !own[id.Name] {
				pc.nsites++
				rep.Violate(pc.nsites, pc.pos(c.Pos()), 0,
					"C16: a pooled object is returned to the pool by a function that did not obtain it (it will be put twice and then shared): "+
						fd.Name.Name+" puts `"+id.Name+"` at "+pc.pos(c.Pos()), "")
			}
			return true
		})
	}

	// 5. pooled structs: fields read by methods must be set on get or cleared on put
	for pool, elem := range pools {
		if elem == "" {
			rep.Event("pool_element_external_type")
			continue
		}
		var fields []string
		for _, f := range files {
			ast.Inspect(f, func(n ast.Node) bool {
				ts, ok := n.(*ast.TypeSpec)
				if !ok || ts.Name.Name != elem {
					return true
				}
				if s, ok := ts.Type.(*ast.StructType); ok {
					for _, fl := range s.Fields.List {
						for _, nm := range fl.Names {
							fields = append(fields, nm.Name)
						}
					}
				}
				return false
			})
		}
		read, reset, inited, handed := map[string]string{}, map[string]bool{}, map[string]bool{}, map[string]bool{}
		fieldAccesses := func(body *ast.BlockStmt, v string, onRead func(f string, p token.Pos), onWrite func(f string)) {
			par := parentMap(body)
			ast.Inspect(body, func(n ast.Node) bool {
				s, ok := n.(*ast.SelectorExpr)
				if !ok {
					return true
				}
				x, ok := s.X.(*ast.Ident)
				if !ok || x.Name != v {
					return true
				}
				var top ast.Node = s // strip index expressions: bd.f[i] = ... writes f
				for {
					if ix, ok := par[top].(*ast.IndexExpr); ok && ix.X == top {
						top = ix
						continue
					}
					break
				}
				if as, ok := par[top].(*ast.AssignStmt); ok {
					for _, l := range as.Lhs {
						if ast.Node(l) == top {
							onWrite(s.Sel.Name)
							return true
						}
					}
				}
				onRead(s.Sel.Name, s.Pos())
				return true
			})
		}
		for _, fd := range funcs {
			if fd.Recv == nil || len(fd.Recv.List) != 1 || len(fd.Recv.List[0].Names) != 1 {
				continue
			}
			t := fd.Recv.List[0].Type
			if st, ok := t.(*ast.StarExpr); ok {
				t = st.X
			}
			if id, ok := t.(*ast.Ident); !ok || id.Name != elem {
				continue
			}
			recv := fd.Recv.List[0].Names[0].Name
			if fd.Name.Name == "Reset" {
				fieldAccesses(fd.Body, recv, func(string, token.Pos) {}, func(f string) { reset[f] = true })
			} else {
				fieldAccesses(fd.Body, recv, func(f string, p token.Pos) {
					if read[f] == "" {
						read[f] = pc.pos(p)
					}
				}, func(string) {})
			}
		}
		for _, fd := range initFn[pool] {
			for _, st := range pc.sitesIn(fd) {
				fieldAccesses(fd.Body, st.v.Name, func(f string, _ token.Pos) { handed[f] = true }, func(f string) { inited[f] = true })
			}
		}
		putterResets := false
		if p := putterOf[pool]; p != nil {
			ast.Inspect(p.Body, func(n ast.Node) bool {
				if c, ok := n.(*ast.CallExpr); ok && callName(c) == "Reset" {
					putterResets = true
				}
				return true
			})
		}
		for _, f := range fields {
			verdict := ""
			switch {
			case inited[f]:
				verdict = "set_by_getter"
			case reset[f] && putterResets:
				verdict = "cleared_by_Reset_on_put"
			case read[f] == "":
				verdict = "never_read_by_methods"
				if handed[f] {
					verdict = "output_buffer_only"
				}
			default:
				verdict = "STALE"
				rep.Violate(0, read[f], 0, fmt.Sprintf("C16: pooled %s field %s is read (%s) but neither set by the getter nor cleared by Reset on put: a goroutine can observe the previous user's data", elem, f, read[f]), pool)
			}
			rep.Event("field_" + verdict)
			fmt.Printf("field %s.%s %s\n", elem, f, verdict)
			rep.Sample(fmt.Sprintf("%s.%s: %s", elem, f, verdict))
		}
	}
	if pc.nsites == 0 {
		rep.Violate(0, "poolcheck", 0, "C16: poolcheck found no pool site (pattern of the sources changed: the check is vacuous)", dir)
	}
}
