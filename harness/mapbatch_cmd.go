//go:build verif

package main

// Subcommand "mapbatch": NewMapFromBatchData and OrderedMap.CopyNonRefSimple in lock step with
// coq/theories/MapBatch.v (engine chk_mapbatch, coq/theories/MapBatchTrace.v).
//
// One history = one storage.  A stream of 0..several thousand (key, value) pairs is generated under
// a 4-level table digester (distinct / sequential / clustered / hot digests as in "maptree", plus
// digests taken from the library's default digester), put in the order in which a source map with
// the same digests iterates (or a deliberately wrong order), and handed to the REAL
// NewMapFromBatchData.  The answer written to the trace is the complete result: the Store sequence,
// the allocator, the root header, the count and the dump of every cached field of every slab
// (header, sizes, first digests, sibling links, identifiers, the element structure of every data
// slab, external collision groups included); the Coq model must produce the same integers.  The
// history then goes on operating on the built map with the operations of "maptree" (same op codes,
// same answers, compared with MapTree.v): a batch-built map must behave like one built by Set.
// Copy histories build a small map, ask CanCopyNonRefSimple / CopyNonRefSimple (plain and
// non-copyable values, external collision groups, multi-slab sources, sources inlined in a parent
// array) and compare predicate, refusal, allocator and the copy's full dump with the model; the
// copy then replaces the source and is operated on.
//
// Model-independent oracles (C17): error class for seed 0 / unsorted digests / duplicate keys,
// count, canonical iteration order = stream, fresh and pairwise distinct identifiers, the write
// log only stores identifiers allocated by the call, the root is stored last, VerifyMap, storage
// health, reachable = live slabs, reopen after commit (reused from "maptree").

import (
	"errors"
	"fmt"
	"sort"
	"strings"

	"github.com/onflow/atree"
	testutils "github.com/onflow/atree/test_utils"
)

func init() { register("mapbatch", cmdMapBatch) }

// mbRefVal is an inline value whose storable refuses CopyNonRefSimple (it stands for a reference
// or a container); it is never encoded in these histories.
type mbRefVal struct{ id uint64 }

var _ atree.Value = mbRefVal{}
var _ atree.Storable = mbRefVal{}

func (v mbRefVal) Storable(_ atree.SlabStorage, _ atree.Address, _ uint32) (atree.Storable, error) {
	return v, nil
}
func (v mbRefVal) ByteSize() uint32                                     { return testutils.Uint64Value(v.id).ByteSize() }
func (v mbRefVal) StoredValue(_ atree.SlabStorage) (atree.Value, error) { return v, nil }
func (v mbRefVal) ChildStorables() []atree.Storable                     { return nil }
func (v mbRefVal) Encode(enc *atree.Encoder) error                      { return testutils.Uint64Value(v.id).Encode(enc) }
func (v mbRefVal) CanCopyNonRefSimple() bool                            { return false }
func (v mbRefVal) CopyNonRefSimple() (atree.Storable, error) {
	return nil, errors.New("mbRefVal cannot be copied")
}
func (v mbRefVal) String() string { return fmt.Sprintf("ref(%d)", v.id) }

func mbIdent(s atree.Storable) (uint64, uint64) {
	if v, ok := s.(mbRefVal); ok {
		return v.id, uint64(v.ByteSize())
	}
	return mtrElem(s)
}

type mbItem struct {
	k   *mtrKey
	v   atree.Value
	vid uint64
	vsz uint64
}

type mbRun struct {
	*mtrRun
	maxN     int
	kind     string // build | copy
	variant  string // canonical | deep_shuffled | unsorted | duplicate | seed0
	vprofile string
	seed     uint64
	items    []mbItem // canonical order
	stream   []mbItem // as handed to the library
	nonPlain []uint64
	height   int
	events   map[string]bool
}

func (r *mbRun) ev(name string) {
	if !r.events[name] {
		r.events[name] = true
		r.rep.Event("hist_" + name)
	}
}

func (r *mbRun) c17(what, detail string) { r.viol("C17: "+what, detail) }

// ---------- generation ----------

// a string value "vid|pad" whose encoded size is want (or as close as the CBOR head sizes allow)
func mbStrOfSize(rng *Rng, vid uint64, want int) atree.Value {
	head := fmt.Sprintf("%d|", vid)
	n := want - 1
	if n >= 24 {
		n = want - 2
	}
	if n >= 256 {
		n = want - 3
	}
	if n >= 65536 {
		n = want - 5
	}
	if n < len(head) {
		n = len(head)
	}
	return testutils.NewStringValue(head + mpePad(rng, n-len(head)))
}

func (r *mbRun) sortCanonical(xs []mbItem) {
	sort.SliceStable(xs, func(i, j int) bool {
		a, b := xs[i].k, xs[j].k
		for l := 0; l < mpeLevels; l++ {
			if a.d[l] != b.d[l] {
				return a.d[l] < b.d[l]
			}
		}
		return false
	})
}

func (r *mbRun) generate(n int) {
	rng := r.rng
	set := atree.VerifSetThreshold(r.T)
	r.maxInline, r.maxKey = uint64(set[4]), uint64(set[5])
	atree.VerifSetMaxCollisionLimitPerDigest(uint32(r.limit))
	realMaxKey := r.maxKey
	if r.maxKey >= 258 {
		// mtrRun.newKey sizes its longest string keys with a 2-byte CBOR head: longer keys are made here
		r.maxKey = 250
	}
	used := map[uint64]bool{}
	for i := 0; i < n; i++ {
		k := r.newKey(used)
		if realMaxKey > r.maxKey && rng.Chance(12) {
			want := int(r.maxKey) + 1 + rng.Intn(int(realMaxKey-r.maxKey))
			if rng.Chance(30) {
				want = int(realMaxKey) - rng.Intn(2)
			}
			v := mbStrOfSize(rng, k.id, want)
			if _, sz, ok := mpeIdent(v); ok && sz <= realMaxKey {
				k.val, k.ksz = v, sz
			}
		}
		r.pool = append(r.pool, k)
	}
	r.mode = "empty"
	if n > 0 {
		if rng.Chance(18) {
			// digests of the library's default digester (circlehash64 + blake3) under a random seed
			r.mode = "default_digester"
			db := atree.NewDefaultDigesterBuilder()
			db.SetSeed(rng.U64()|1, rng.U64())
			for _, k := range r.pool {
				dg, err := db.Digest(testutils.GetHashInput, k.val)
				must(err)
				for l := 0; l < mpeLevels; l++ {
					d, err := dg.Digest(uint(l))
					must(err)
					k.d[l] = uint64(d)
				}
				atree.VerifPutDigester(dg)
			}
		} else {
			r.genDigests()
		}
		r.genProbes(used)
	} else {
		for t := 0; t < 4; t++ {
			k := r.newKey(used)
			k.d = [mpeLevels]uint64{rng.U64(), rng.U64(), rng.U64(), rng.U64()}
			r.probes = append(r.probes, k)
		}
	}
	r.maxKey = realMaxKey
	r.b = &mpeBuilder{table: map[uint64][mpeLevels]uint64{}}
	for _, k := range r.pool {
		r.b.table[k.id] = k.d
	}
	for _, k := range r.probes {
		r.b.table[k.id] = k.d
	}
	r.ins = append([]*mtrKey{}, r.pool...)
	for i := len(r.ins) - 1; i > 0; i-- {
		j := rng.Intn(i + 1)
		r.ins[i], r.ins[j] = r.ins[j], r.ins[i]
	}
	r.order = "batch"

	// items in canonical order, then the values (so that sizes can depend on the position)
	for _, k := range r.pool {
		r.items = append(r.items, mbItem{k: k})
	}
	r.sortCanonical(r.items)
	emax := int(r.maxInline) + 8
	switch rng.Pick(27, 23, 14, 26, 10) {
	case 0:
		r.vprofile, r.profile = "small", 0
	case 1:
		r.vprofile, r.profile = "mixed", 1
	case 2:
		r.vprofile, r.profile = "large", 2
	case 3:
		r.vprofile = "boundary"
	default:
		// element costs cycle (a, a, 30) with 2a + 30 = T - 26: every data slab is closed at exactly the
		// target size; a tiny last element then underflows alone and its left sibling cannot lend (merge)
		r.vprofile = "merge_tail"
		if len(r.items) >= 4 { // 3m + 1 elements (the dropped keys stay in the pool, not inserted)
			r.items = r.items[:(len(r.items)-1)/3*3+1]
		}
		for _, it := range r.items {
			if it.k.ksz > 11 {
				it.k.val = testutils.Uint64Value(it.k.id)
				it.k.ksz = uint64(testutils.Uint64Value(it.k.id).ByteSize())
			}
		}
	}
	z := 0
	if r.vprofile == "boundary" {
		// a common element cost z such that a whole number of elements (+-1 byte) reaches the target size
		j := 2 + rng.Intn(11)
		z = (int(r.T)-26)/j + rng.Intn(3) - 1
		if z > emax {
			z = emax - rng.Intn(2)
		}
		if z < 14 {
			z = 14
		}
	}
	tail := 1 + rng.Intn(4)
	for i := range r.items {
		it := &r.items[i]
		k := it.k
		vmax := int(r.maxInline) - int(k.ksz) - 1
		if r.vprofile == "merge_tail" {
			r.vctr++
			vid := r.vctr
			a := int(r.T)/2 - 28
			cost := []int{a, a, 30}[i%3]
			want := cost - 8 - 1 - int(k.ksz)
			var v atree.Value
			if i == len(r.items)-1 && i%3 == 0 {
				v = testutils.Uint64Value(uint64(rng.Intn(20)))
				vid = uint64(v.(testutils.Uint64Value))
			} else if want < len(fmt.Sprint(vid))+2 {
				v = testutils.Uint64Value(vid)
			} else {
				v = mbStrOfSize(rng, vid, want)
			}
			_, vsz, _ := mpeIdent(v)
			if int(vsz) > vmax {
				v = testutils.Uint64Value(vid)
				_, vsz, _ = mpeIdent(v)
			}
			it.v, it.vid, it.vsz = v, vid, vsz
		} else if r.vprofile == "boundary" {
			r.vctr++
			vid := r.vctr
			want := z - 8 - 1 - int(k.ksz)
			if i >= len(r.items)-tail || rng.Chance(8) {
				switch rng.Pick(40, 30, 30) {
				case 0:
					want = 1 + rng.Intn(6)
				case 1:
					want = vmax - rng.Intn(3)
				default:
					want = 1 + rng.Intn(max(1, vmax))
				}
			}
			if want > vmax {
				want = vmax
			}
			var v atree.Value
			if want < len(fmt.Sprint(vid))+2 {
				v = testutils.Uint64Value(vid)
			} else {
				v = mbStrOfSize(rng, vid, want)
			}
			_, vsz, _ := mpeIdent(v)
			if int(vsz) > vmax {
				v = testutils.Uint64Value(vid)
				_, vsz, _ = mpeIdent(v)
			}
			it.v, it.vid, it.vsz = v, vid, vsz
		} else {
			it.v, it.vid, it.vsz = r.newValue(k, 0)
		}
	}
}

// the stream handed to the library, by variant
func (r *mbRun) makeStream() {
	rng := r.rng
	r.stream = append([]mbItem{}, r.items...)
	n := len(r.stream)
	switch r.variant {
	case "deep_shuffled":
		// level-0 digests stay sorted, the order inside every level-0 cluster is random
		changed := false
		for i := 0; i < n; {
			j := i
			for j < n && r.stream[j].k.d[0] == r.stream[i].k.d[0] {
				j++
			}
			for a := j - 1; a > i; a-- {
				b := i + rng.Intn(a-i+1)
				if a != b {
					changed = true
				}
				r.stream[a], r.stream[b] = r.stream[b], r.stream[a]
			}
			i = j
		}
		if !changed {
			r.variant = "canonical"
		}
	case "unsorted":
		var cands []int
		for i := 0; i+1 < n; i++ {
			if r.stream[i].k.d[0] < r.stream[i+1].k.d[0] {
				cands = append(cands, i)
			}
		}
		if len(cands) == 0 {
			r.variant = "canonical"
			return
		}
		i := cands[rng.Intn(len(cands))]
		r.stream[i], r.stream[i+1] = r.stream[i+1], r.stream[i]
	case "duplicate":
		if n == 0 {
			r.variant = "canonical"
			return
		}
		i := rng.Intn(n)
		// the repeated key comes later in its level-0 cluster (anywhere up to the cluster's end)
		j := i + 1
		for j < n && r.stream[j].k.d[0] == r.stream[i].k.d[0] && rng.Bool() {
			j++
		}
		dup := r.stream[i]
		r.vctr++
		dup.vid = r.vctr
		dup.v = testutils.Uint64Value(dup.vid)
		_, dup.vsz, _ = mpeIdent(dup.v)
		out := append([]mbItem{}, r.stream[:j]...)
		out = append(out, dup)
		out = append(out, r.stream[j:]...)
		r.stream = out
	}
}

// ---------- answers ----------

// TAIL with the full tree dump (MapTreeTrace.enc_tail, dump = 1); clears the write log
func (r *mbRun) tailOf(m *atree.OrderedMap, addr atree.Address) ([]uint64, bool) {
	out := []uint64{uint64(len(r.rec.Log) / 2)}
	for k := 0; k+1 < len(r.rec.Log); k += 2 {
		out = append(out, uint64(r.rec.Log[k]), uint64(r.rec.Log[k+1]))
	}
	r.rec.Log = r.rec.Log[:0]
	out = append(out, r.base.LastIndex(addr))
	h := atree.VerifMapRootHeader(m)
	out = append(out, h[0], h[1], h[2], h[3])
	var d []uint64
	err, pan := mpeCall(func() error {
		var e error
		d, e = atree.VerifMapTreeDump(m, mbIdent)
		return e
	})
	if err != nil {
		r.c17("slab tree of the result cannot be walked", fmt.Sprintf("panic=%v %v", pan, err))
		r.dead = true
		return out, false
	}
	out = append(out, d...)
	out = append(out, 1)
	return out, true
}

func (r *mbRun) buildOp(alloc0 uint64) []uint64 {
	op := []uint64{20, alloc0, r.seed, uint64(len(r.stream))}
	for _, it := range r.stream {
		op = append(op, it.k.id, it.k.ksz, it.vid, it.vsz, it.k.d[0], it.k.d[1], it.k.d[2], it.k.d[3])
	}
	return op
}

// ---------- the batch build ----------

func (r *mbRun) build() bool {
	r.rep.Op("batch_build")
	alloc0 := r.base.LastIndex(r.addr)
	op := r.buildOp(alloc0)
	pos := 0
	fn := func() (atree.Value, atree.Value, error) {
		if pos >= len(r.stream) {
			return nil, nil, nil
		}
		it := r.stream[pos]
		pos++
		return it.k.val, it.v, nil
	}
	var m *atree.OrderedMap
	err, pan := mpeCall(func() error {
		var e error
		m, e = atree.NewMapFromBatchData(r.rec, r.addr, r.b, r.ti, testutils.CompareValue, testutils.GetHashInput, r.seed, fn)
		return e
	})
	if pan {
		r.rep.Err("panic")
		r.c17("NewMapFromBatchData panicked", fmt.Sprintf("variant %s: %v", r.variant, err))
		r.emit(op, []uint64{1, 4})
		r.dead = true
		return false
	}
	if err != nil {
		code := uint64(4)
		var he *atree.HashError
		var de *atree.DuplicateKeyError
		var se *atree.HashSeedUninitializedError
		switch {
		case errors.As(err, &se):
			code = 1
			r.rep.Err("HashSeedUninitializedError")
		case errors.As(err, &he):
			code = 2
			r.rep.Err("HashError")
		case errors.As(err, &de):
			code = 3
			r.rep.Err("DuplicateKeyError")
		default:
			r.rep.Err("other")
		}
		want := map[string]uint64{"seed0": 1, "unsorted": 2, "duplicate": 3}[r.variant]
		if code != want {
			r.c17("NewMapFromBatchData failed on an admissible stream or with the wrong error",
				fmt.Sprintf("variant %s n=%d: %v", r.variant, len(r.stream), err))
		}
		if r.variant == "seed0" && (len(r.rec.Log) != 0 || r.base.LastIndex(r.addr) != alloc0) {
			r.c17("a build refused for seed 0 left a trace", fmt.Sprint(r.rec.Log))
		}
		for k := 0; k+1 < len(r.rec.Log); k += 2 {
			if r.rec.Log[k] != 1 || uint64(r.rec.Log[k+1]) <= alloc0 {
				r.c17("a failed build touched a slab it did not allocate", fmt.Sprint(r.rec.Log))
				break
			}
		}
		if len(r.rec.Log) > 0 {
			r.rep.Event("failed_build_left_external_group_slabs_behind")
		}
		r.rec.Log = r.rec.Log[:0]
		r.emit(op, []uint64{1, code})
		r.ev("refused_" + r.variant)
		return false
	}
	if r.variant == "seed0" || r.variant == "unsorted" || r.variant == "duplicate" {
		r.c17("NewMapFromBatchData accepted an inadmissible stream", fmt.Sprintf("variant %s n=%d", r.variant, len(r.stream)))
	}
	r.m = m
	last := r.base.LastIndex(r.addr)

	// C17 oracles on identifiers and the write log (before the log is consumed by the answer)
	_, leaves, index, ext, ids, serr := atree.VerifMapTreeShape(m)
	if serr != nil {
		r.c17("slab tree of the result cannot be walked", serr.Error())
		r.dead = true
		r.emit(op, []uint64{1, 4})
		return false
	}
	seen := map[atree.SlabID]bool{}
	for _, id := range ids {
		if seen[id] {
			r.c17("a slab identifier occurs twice in the built map", id.String())
		}
		seen[id] = true
		if a, i := idPair(id); mkAddr(a) != r.addr || i <= alloc0 || i > last {
			r.c17("a slab identifier of the built map was not freshly allocated under the requested address",
				fmt.Sprintf("%s not in (%d, %d]", id, alloc0, last))
		}
	}
	stored := map[uint64]bool{}
	for k := 0; k+1 < len(r.rec.Log); k += 2 {
		if r.rec.Log[k] != 1 {
			r.c17("the build removed a slab", fmt.Sprint(r.rec.Log[k+1]))
		}
		i := uint64(r.rec.Log[k+1])
		if i <= alloc0 || i > last {
			r.c17("the build stored a slab it did not allocate", fmt.Sprintf("%d not in (%d, %d]", i, alloc0, last))
		}
		stored[i] = true
	}
	for _, id := range ids {
		if !stored[id.IndexAsUint64()] {
			r.c17("a slab of the built map was never stored", id.String())
		}
	}
	if nl := len(r.rec.Log); nl < 2 || uint64(r.rec.Log[nl-1]) != m.SlabID().IndexAsUint64() {
		r.c17("the root slab is not the last slab stored by the build", fmt.Sprint(r.rec.Log))
	}
	if uint64(len(stored)) < last-alloc0 {
		r.ev("allocated_identifier_never_stored(tail_merge)")
	}
	if m.Count() != uint64(len(r.stream)) {
		r.c17("count of the built map differs from the stream length", fmt.Sprintf("%d vs %d", m.Count(), len(r.stream)))
	}
	if m.Seed() != r.seed {
		r.c17("seed of the built map differs", fmt.Sprint(m.Seed()))
	}
	if m.Address() != r.addr {
		r.c17("address of the built map differs", fmt.Sprint(m.Address()))
	}
	if ext > 0 {
		r.ev("external_collision_group")
		r.sawExt = true
	}
	r.height = 1
	if index > 0 {
		r.height = 2
		if h, _, _, _, _, e := atree.VerifMapTreeShape(m); e == nil {
			r.height = h
		}
	}
	r.rep.Event(fmt.Sprintf("built_height_%d", r.height))
	r.rep.Event("built_leaves_" + bucket(leaves))

	t, ok := r.tailOf(m, r.addr)
	if !ok {
		r.emit(op, []uint64{1, 4})
		return false
	}
	r.emit(op, append([]uint64{0}, t...))

	// shadow dictionary: ties (all digests equal) in stream order
	r.shadow = map[uint64]*mtrEntry{}
	r.live = r.live[:0]
	r.livePos = map[uint64]int{}
	for _, it := range r.stream {
		r.seq++
		r.shadow[it.k.id] = &mtrEntry{k: it.k, vid: it.vid, vsz: it.vsz, seq: r.seq}
		r.addLive(it.k)
	}
	return true
}

// ---------- copy ----------

func (r *mbRun) copyQuery(dst atree.Address, inlined bool, sw bool) *atree.OrderedMap {
	r.rep.Op("copy_query")
	alloc0 := r.base.LastIndex(dst)
	op := []uint64{21, alloc0, 0, 0, 0, uint64(len(r.nonPlain))}
	if inlined {
		op[2] = 1
	}
	if sw {
		op[3] = 1
	}
	if dst == r.addr {
		op[4] = 1
	}
	op = append(op, r.nonPlain...)

	// expected predicate, from the shape only
	_, leaves, index, ext, _, serr := atree.VerifMapTreeShape(r.m)
	if serr != nil {
		r.c17("source map cannot be walked", serr.Error())
		r.dead = true
		return nil
	}
	hasRef := false
	for _, it := range r.stream {
		if _, ok := it.v.(mbRefVal); ok {
			if _, live := r.shadow[it.k.id]; live {
				hasRef = true
			}
		}
	}
	want := leaves == 1 && index == 0 && ext == 0 && !hasRef
	got := r.m.CanCopyNonRefSimple()
	if got != want {
		r.c17("CanCopyNonRefSimple disagrees with: single data slab, no external collision group, all keys and values plain",
			fmt.Sprintf("offered=%v expected=%v leaves=%d index=%d ext=%d ref=%v inlined=%v", got, want, leaves, index, ext, hasRef, inlined))
	}
	offered := uint64(0)
	if got {
		offered = 1
	}
	r.rec.Log = r.rec.Log[:0]
	b2 := &mpeBuilder{table: r.b.table}
	var cp *atree.OrderedMap
	err, pan := mpeCall(func() error {
		var e error
		cp, e = r.m.CopyNonRefSimple(dst, b2)
		return e
	})
	if pan {
		r.rep.Err("panic")
		r.c17("CopyNonRefSimple panicked", fmt.Sprint(err))
		r.emit(op, []uint64{1, offered, 0, r.base.LastIndex(dst)})
		r.dead = true
		return nil
	}
	if err != nil {
		var ce *atree.CopyError
		if !errors.As(err, &ce) {
			r.c17("refused map copy is not reported as CopyError", err.Error())
		}
		if got {
			r.c17("CopyNonRefSimple failed although CanCopyNonRefSimple is true", err.Error())
		}
		code := uint64(3)
		if strings.Contains(err.Error(), "multi-slab") {
			code = 1
		} else if strings.Contains(err.Error(), "next slab ID") {
			code = 2
		}
		if len(r.rec.Log) != 0 {
			r.c17("a refused copy wrote to the storage", fmt.Sprint(r.rec.Log))
			r.rec.Log = r.rec.Log[:0]
		}
		r.rep.Event(fmt.Sprintf("copy_refused_code_%d", code))
		r.ev(fmt.Sprintf("copy_refused_%d", code))
		r.emit(op, []uint64{1, offered, code, r.base.LastIndex(dst)})
		return nil
	}
	if !got {
		r.c17("CopyNonRefSimple succeeded although the copy is not offered", cp.SlabID().String())
	}
	if a, i := idPair(cp.SlabID()); mkAddr(a) != dst || i != alloc0+1 {
		r.c17("the copy's root identifier was not freshly allocated under the requested address", cp.SlabID().String())
	}
	if len(r.rec.Log) != 2 || r.rec.Log[0] != 1 || uint64(r.rec.Log[1]) != alloc0+1 {
		r.c17("the copy did not issue exactly one Store, of its own root", fmt.Sprint(r.rec.Log))
	}
	if cp.Inlined() {
		r.c17("the copy is marked inlined", "")
	}
	if cp.Count() != r.m.Count() || cp.Seed() != r.m.Seed() {
		r.c17("count or seed of the copy differ", fmt.Sprintf("%d/%d %d/%d", cp.Count(), r.m.Count(), cp.Seed(), r.m.Seed()))
	}
	r.rep.Event("copy_succeeded")
	if inlined {
		r.rep.Event("copy_of_inlined_source")
		r.ev("copy_inlined_source")
	}
	r.ev("copy_ok")
	t, ok := r.tailOf(cp, dst)
	if !ok {
		r.emit(op, []uint64{1, offered, 0, r.base.LastIndex(dst)})
		return nil
	}
	r.emit(op, append([]uint64{0, offered}, t...))
	return cp
}

// ---------- histories ----------

func (r *mbRun) newStorage(bump int) {
	r.base = NewLogBase()
	r.st = newStorage(r.base)
	r.rec = &RecStorage{In: r.st}
	r.addr = mkAddr(1 + uint64(r.rng.Intn(3)))
	r.ti = testutils.NewSimpleTypeInfo(42)
	r.livePos = map[uint64]int{}
	r.shadow = map[uint64]*mtrEntry{}
	for i := 0; i < bump; i++ {
		_, err := r.base.GenerateSlabID(r.addr)
		must(err)
	}
}

func (r *mbRun) followUp(budget int) {
	rng := r.rng
	if r.dead {
		return
	}
	r.checkpoint()
	phase := func(kind, dir int, until func() bool, n int) {
		for k := 0; k < n && !r.dead && !until(); k++ {
			r.randomOp(kind, dir)
		}
	}
	never := func() bool { return false }
	phase(1, 0, never, budget)
	if !r.dead && rng.Chance(35) && len(r.shadow) <= 700 {
		r.reopenCheck()
	}
	switch rng.Pick(45, 30, 25) {
	case 0:
	case 1:
		// shrink (merges and rebalancing at every level of the batch-built tree), possibly to empty
		dir := rng.Intn(3)
		phase(2, dir, func() bool { return len(r.shadow) == 0 }, min(len(r.shadow)*2, 4*budget))
		if !r.dead {
			r.checkpoint()
		}
	default:
		if !r.dead {
			r.doPop()
		}
		for i := 0; i < 5 && !r.dead; i++ {
			if k := r.pickDead(); k != nil {
				r.doSet(k)
			}
		}
		if !r.dead {
			r.checkpoint()
		}
	}
}

func (r *mbRun) runBuild() {
	rng := r.rng
	n := 0
	switch rng.Pick(12, 38, 35, 15) {
	case 0:
		n = rng.Intn(4)
	case 1:
		n = rng.Intn(min(r.maxN, 120) + 1)
	case 2:
		n = rng.Intn(min(r.maxN, 800) + 1)
	default:
		n = rng.Intn(r.maxN + 1)
	}
	if r.T >= 4096 {
		n = min(n, max(200, r.maxN/3))
	}
	r.variant = []string{"canonical", "deep_shuffled", "unsorted", "duplicate", "seed0"}[rng.Pick(66, 14, 7, 9, 4)]
	r.generate(n)
	r.makeStream()
	r.seed = 1 + rng.U64()%(1<<62)
	if r.variant == "seed0" {
		r.seed = 0
	}
	r.newStorage(rng.Intn(3) * rng.Intn(30))
	r.tr.Hist(r.tag, uint64(r.T), r.maxInline, r.limit, mpeLevels)
	if !r.build() {
		return
	}
	r.followUp(min(40, 10+len(r.stream)/8))
}

func (r *mbRun) runCopy() {
	rng := r.rng
	// mostly single-slab sized, sometimes larger (refused: multi-slab)
	per := max(2, int(r.T)/40)
	n := 0
	switch rng.Pick(15, 55, 30) {
	case 0:
		n = rng.Intn(3)
	case 1:
		n = rng.Intn(per + 1)
	default:
		n = rng.Intn(4*per + 1)
	}
	r.variant = "canonical"
	r.generate(n)
	refs := rng.Chance(25)
	inlined := !refs && rng.Chance(30)
	if inlined {
		// small enough to be inlined into a parent array
		for len(r.items) > 3 {
			r.items = r.items[:len(r.items)-1]
		}
		for i := range r.items {
			it := &r.items[i]
			r.vctr++
			it.vid = r.vctr
			it.v = testutils.Uint64Value(it.vid)
			_, it.vsz, _ = mpeIdent(it.v)
		}
		keep := map[uint64]bool{}
		for _, it := range r.items {
			keep[it.k.id] = true
		}
		var pool []*mtrKey
		for _, k := range r.pool {
			if keep[k.id] {
				pool = append(pool, k)
			}
		}
		r.pool = pool
		r.ins = append([]*mtrKey{}, pool...)
	}
	if refs && len(r.items) > 0 {
		for t := 0; t < 1+rng.Intn(2); t++ {
			it := &r.items[rng.Intn(len(r.items))]
			if _, ok := it.v.(mbRefVal); ok {
				continue
			}
			r.vctr++
			it.vid = 1<<40 + r.vctr
			it.v = mbRefVal{id: it.vid}
			it.vsz = uint64(mbRefVal{id: it.vid}.ByteSize())
			r.nonPlain = append(r.nonPlain, it.vid)
		}
	}
	r.makeStream()
	r.seed = 1 + rng.U64()%(1<<62)
	r.newStorage(rng.Intn(20))
	r.tr.Hist(r.tag, uint64(r.T), r.maxInline, r.limit, mpeLevels)
	if !r.build() {
		return
	}
	// a few ordinary operations first (plain histories only: the maptree answers identify values by mpeIdent)
	if !refs && !inlined && rng.Chance(50) {
		for k := 0; k < 6 && !r.dead; k++ {
			r.randomOp(1, 0)
		}
	}
	if r.dead {
		return
	}
	dst := r.addr
	if rng.Bool() {
		dst = mkAddr(7 + uint64(rng.Intn(3)))
		for i := 0; i < rng.Intn(5); i++ {
			_, err := r.base.GenerateSlabID(dst)
			must(err)
		}
	}
	if inlined {
		var parent *atree.Array
		err, pan := mpeCall(func() error {
			var e error
			parent, e = atree.NewArray(r.st, mkAddr(5), testutils.NewSimpleTypeInfo(43))
			if e != nil {
				return e
			}
			return parent.Append(r.m)
		})
		if err != nil {
			r.c17("cannot nest the source map in a parent array", fmt.Sprintf("panic=%v %v", pan, err))
			return
		}
		if !r.m.Inlined() {
			r.rep.Event("source_not_inlined_by_parent")
			inlined = false
		}
		r.rec.Log = r.rec.Log[:0]
		r.copyQuery(dst, inlined, false)
		return
	}
	if refs {
		r.copyQuery(dst, false, false)
		return
	}
	// ask twice: without switching (the source stays the current map), then switch to the copy
	if rng.Chance(30) {
		if cp := r.copyQuery(dst, false, false); cp != nil {
			// the first copy is discarded again
			err, _ := mpeCall(func() error {
				if e := cp.PopIterate(func(atree.Storable, atree.Storable) {}); e != nil {
					return e
				}
				return r.st.Remove(cp.SlabID())
			})
			if err != nil {
				r.c17("disposing of a copy failed", err.Error())
				return
			}
			r.rec.Log = r.rec.Log[:0]
		}
		if r.dead {
			return
		}
	}
	cp := r.copyQuery(dst, false, true)
	if cp == nil || r.dead {
		if !r.dead {
			r.followUp(12)
		}
		return
	}
	// independence: a second, throw-away copy (other address, not traced) is mutated through the library;
	// neither the source nor the first copy may change (dump of every cached field)
	if rng.Chance(60) {
		srcDump, e1 := atree.VerifMapTreeDump(r.m, mbIdent)
		cpDump, e2 := atree.VerifMapTreeDump(cp, mbIdent)
		err, pan := mpeCall(func() error {
			cp2, e := r.m.CopyNonRefSimple(mkAddr(11), &mpeBuilder{table: r.b.table})
			if e != nil {
				return e
			}
			for t := 0; t < 10; t++ {
				var k *mtrKey
				if len(r.pool) > 0 && rng.Bool() {
					k = r.pool[rng.Intn(len(r.pool))]
				} else {
					k = r.probes[rng.Intn(len(r.probes))]
				}
				if rng.Chance(60) {
					_, e = cp2.Set(testutils.CompareValue, testutils.GetHashInput, k.val, testutils.Uint64Value(uint64(t)))
					var cl *atree.CollisionLimitError
					if errors.As(e, &cl) {
						e = nil
					}
				} else {
					_, _, e = cp2.Remove(testutils.CompareValue, testutils.GetHashInput, k.val)
					var knf *atree.KeyNotFoundError
					if errors.As(e, &knf) {
						e = nil
					}
				}
				if e != nil {
					return e
				}
			}
			if e = cp2.PopIterate(func(atree.Storable, atree.Storable) {}); e != nil {
				return e
			}
			return r.st.Remove(cp2.SlabID())
		})
		if err != nil {
			r.c17("operating on a copy failed", fmt.Sprintf("panic=%v %v", pan, err))
			return
		}
		r.rep.Event("independence_check")
		srcDump2, e3 := atree.VerifMapTreeDump(r.m, mbIdent)
		cpDump2, e4 := atree.VerifMapTreeDump(cp, mbIdent)
		if e1 != nil || e2 != nil || e3 != nil || e4 != nil || !mpeSameEnc(srcDump, srcDump2) || !mpeSameEnc(cpDump, cpDump2) {
			r.c17("operating on one copy changed the source or another copy", fmt.Sprint(e1, e2, e3, e4))
		}
		r.rec.Log = r.rec.Log[:0]
	}
	src := r.m
	r.m, r.addr = cp, dst
	// dispose of the source, go on with the copy alone
	err, _ := mpeCall(func() error {
		if e := src.PopIterate(func(atree.Storable, atree.Storable) {}); e != nil {
			return e
		}
		return r.st.Remove(src.SlabID())
	})
	if err != nil {
		r.c17("disposing of the source failed", err.Error())
		return
	}
	r.rec.Log = r.rec.Log[:0]
	r.followUp(15)
}

func (r *mbRun) summarize() {
	var evs []string
	for e := range r.events {
		evs = append(evs, e)
	}
	sort.Strings(evs)
	fp := fmt.Sprintf("T%d %s %s %s %s n%s h%d %s", r.T, r.kind, r.variant, r.mode, r.vprofile, bucket(len(r.stream)), r.height, strings.Join(evs, ","))
	r.rep.Event("kind_" + r.kind)
	r.rep.Event("variant_" + r.variant)
	r.rep.Event("digests_" + r.mode)
	r.rep.Event("values_" + r.vprofile)
	r.rep.Event(fmt.Sprintf("T_%d", r.T))
	r.rep.Event("stream_len_" + bucket(len(r.stream)))
	if r.dead {
		r.rep.Event("hist_aborted")
	}
	if r.height >= 2 || len(r.events) > 0 {
		r.rep.Distinct(fp)
	}
	r.rep.Sample(fmt.Sprintf("history %s: %d steps, %s", r.tag, r.step, fp))
}

func cmdMapBatch(a Args) {
	tr := NewTrace(a.Out + "/trace.txt")
	rep := NewReport(a.Prop, a.Seed)
	rep.Rule = "one storage per history; build histories: a stream of 0..steps (key,value) pairs (keys up to the inline key limit, values small / mixed / " +
		"near the inline limit / a common element cost that reaches the target slab size exactly or off by one, with tiny or huge tail elements) under a " +
		"4-level table digester (distinct / sequential incl. 0, the sign bit and 2^64-1 / clustered / hot digests with big and external collision groups / " +
		"digests of the library's default digester), T in {256,300,512,1024,4096,32768}, in canonical order, or with the order inside level-0 clusters " +
		"shuffled, or with two level-0 digests swapped (HashError expected), a repeated key (DuplicateKeyError expected) or seed 0, handed to the real " +
		"NewMapFromBatchData with a random pre-advanced allocator; the answer (Store sequence, allocator, root header, count, dump of every cached field of " +
		"every slab incl. sibling links, identifiers and the element structure) is compared with the Coq model MapBatch.v, then the built map is operated on " +
		"(Set/Get/Has/Remove/Count/iterators/PopIterate, shrink to empty, reopen after commit) in lock step with MapTree.v; copy histories: small maps, " +
		"CanCopyNonRefSimple/CopyNonRefSimple with plain and non-copyable values, external groups, multi-slab and parent-inlined sources, copy then used " +
		"alone; oracles: error classes, count, canonical order, fresh distinct identifiers, log stores only identifiers allocated by the call, root stored " +
		"last, VerifyMap, storage health, reachable = live, source unchanged by operations on the copy. non-trivial = a build of height >= 2 or a history " +
		"with a structural event (external group, tail merge, refusal, copy), distinct by T, kind, variant, digest mode, value profile, size class, height, events"
	defer func() {
		atree.VerifSetThreshold(1024)
		atree.VerifSetMaxCollisionLimitPerDigest(255)
	}()
	root := NewRng(a.Seed)
	maxN := a.Steps
	if maxN < 50 {
		maxN = 50
	}
	for h := 0; h < a.N; h++ {
		hr := root.Fork(uint64(h))
		tag := fmt.Sprintf("h%d", h)
		if !want(tag) {
			continue
		}
		r := &mbRun{mtrRun: &mtrRun{rep: rep, tr: tr, hist: h, tag: tag, rng: hr}, maxN: maxN, events: map[string]bool{}}
		func() {
			defer func() {
				if p := recover(); p != nil {
					r.c17("unexpected panic outside a library call", fmt.Sprint(p))
					r.dead = true
				}
				atree.VerifSetThreshold(1024)
				atree.VerifSetMaxCollisionLimitPerDigest(255)
			}()
			r.T = []uint32{256, 300, 512, 1024, 4096, 32768}[hr.Pick(36, 10, 20, 20, 11, 3)]
			r.limit = []uint64{0, 1, 2, 3, 255}[hr.Pick(4, 6, 8, 8, 74)]
			if a.Mode == "copy" || (a.Mode == "" && hr.Chance(28)) {
				r.kind = "copy"
				r.runCopy()
			} else {
				r.kind = "build"
				r.runBuild()
			}
		}()
		r.summarize()
	}
	// oracle messages of the reused "maptree" checks concern a batch-built / copied map here
	for i := range rep.Violations {
		if !strings.HasPrefix(rep.Violations[i].What, "C17") {
			rep.Violations[i].What = "C17: (batch-built or copied map) " + rep.Violations[i].What
		}
	}
	tr.Close()
	rep.Histories = tr.Hists
	rep.Steps = tr.Steps
	rep.Write(a.Out + "/report.json")
}
