//go:build verif

package main

// batch_cmd.go — C17: bulk build (NewArrayFromBatchData / NewMapFromBatchData), copy of single-slab
// containers of plain values (CanCopyNonRefSimple / CopyNonRefSimple) and the byte-slice <-> byte-array
// conversions.  Array batch builds and ByteSliceToByteArray are additionally recorded as a trace for
// the Coq model (coq/theories/Batch.v, engine "batch"): the whole slab tree (every cached field and
// every slab index), the allocator and the sequence of Store calls must be equal.
//
// Trace: configuration line [T]; operation lines
//   [1; alloc0; ti; n; (id; size; ext)*]       NewArrayFromBatchData
//   [2; alloc0; ti; est; n; byte*]             ByteSliceToByteArray[Uint8Value]
// answer line: [alloc after; nlog; (kind; slab index)*; tree dump].
//
// Tags: b<k> array streams, bm<k> maps, bc<k> copies, by<k> byte conversions, bl<k> life after bulk
// construction (mode "life", batchlife.go).

import (
	"encoding/binary"
	"fmt"
	"hash/fnv"
	"strconv"
	"strings"

	"github.com/onflow/atree"
	testutils "github.com/onflow/atree/test_utils"
)

func init() { register("batch", cmdBatch) }

var batchSizes = []uint32{256, 257, 300, 512, 1024, 4096}

type batchRun struct {
	rep    *Report
	tr     *Trace
	hist   int
	tag    string
	T      uint32
	failed bool
	// mode "life" (batchlife.go): histories run and operations issued (no trace there)
	lifeHists int
	lifeSteps int
}

func (r *batchRun) viol(what, detail string) {
	if !r.failed {
		r.rep.Violate(r.hist, r.tag, 0, what, fmt.Sprintf("T=%d %s", r.T, detail))
	}
	r.failed = true
}

func (r *batchRun) guard(f func()) {
	defer func() {
		if p := recover(); p != nil {
			r.viol("C17: panic in implementation", fmt.Sprint(p))
		}
	}()
	f()
}

// ---------- values with controlled stored size ----------

// batchStr builds a string value whose encoded size is `total` (if possible); identity = -id.
func batchStr(id int64, total int, inl int) aval {
	ds := strconv.FormatInt(id, 10)
	l := total - 1
	if total > 24 {
		l = total - 2
	}
	if total > 257 {
		l = total - 3
	}
	if l < len(ds) {
		l = len(ds)
	}
	v := testutils.NewStringValue(ds + strings.Repeat("x", l-len(ds)))
	sz := int64(v.ByteSize())
	if int(sz) > inl {
		return aval{id: -id, v: v, sz: int64(atree.SlabIDStorable{}.ByteSize()), ext: true}
	}
	return aval{id: -id, v: v, sz: sz}
}

const (
	mixSmall = iota
	mixNearLimit
	mixRandom
	mixAlternate
	mixExternal
	mixExactFill
	nMixes
)

var mixNames = []string{"small", "near_inline_limit", "random", "alternating_tiny_huge", "with_external", "exact_fill"}

// batchVal is element i of the (infinite, deterministic) stream of a family.
func batchVal(famSeed uint64, mix int, T uint32, i int) aval {
	vr := NewRng(famSeed + uint64(i)*0x9E37)
	inl := int(atree.MaxInlineArrayElementSize())
	id := int64(i + 1)
	small := func() aval {
		ws := []uint64{0, 0, 0, 24, 256, 65536}
		base := ws[vr.Intn(len(ws))]
		n := base + uint64(vr.Intn(200))
		if base == 0 {
			n = uint64(vr.Intn(24))
		}
		v := testutils.Uint64Value(n)
		return aval{id: int64(n), v: v, sz: int64(v.ByteSize())}
	}
	switch mix {
	case mixSmall:
		return small()
	case mixNearLimit:
		return batchStr(id, inl-vr.Intn(3), inl)
	case mixRandom:
		if vr.Chance(30) {
			return small()
		}
		return batchStr(id, 3+vr.Intn(inl-2), inl)
	case mixAlternate:
		if i%2 == 0 {
			v := testutils.Uint64Value(uint64(i % 24))
			return aval{id: int64(i % 24), v: v, sz: int64(v.ByteSize())}
		}
		return batchStr(id, inl, inl)
	case mixExternal:
		switch vr.Pick(25, 25, 50) {
		case 0:
			return batchStr(id, inl+1+vr.Intn(120), inl)
		case 1:
			return small()
		default:
			return batchStr(id, 3+vr.Intn(inl-2), inl)
		}
	default: // element sizes that make leaves hit the target size exactly (and one byte around it)
		k := 7 + int(famSeed%5)
		return batchStr(id, k+vr.Intn(2)*int(famSeed%2), inl)
	}
}

// ---------- element identity for dumps ----------

type batchElems struct{ ar *arrayRun }

func (b batchElems) info(s atree.Storable) (int64, uint64) {
	if u, ok := s.(testutils.Uint8Value); ok {
		return int64(u), 0
	}
	return b.ar.elemInfo(s)
}

func valID(v atree.Value) int64 {
	switch x := v.(type) {
	case testutils.Uint64Value:
		return int64(x)
	case testutils.Uint8Value:
		return int64(x)
	case testutils.StringValue:
		return strID(x)
	}
	return 0
}

// parse a dump: leaves (count per leaf, in order), height, number of index slabs
type dumpShape struct {
	leafCounts []int64
	leafSizes  []int64
	metas      int
	height     int
	ids        []int64 // every slab index named (tree slabs and external value slabs)
}

func parseDump(d []int64) (sh dumpShape, ok bool) {
	p := 0
	ok = true
	var rec func(depth int)
	rec = func(depth int) {
		if !ok || p+5 > len(d) {
			ok = false
			return
		}
		if depth+1 > sh.height {
			sh.height = depth + 1
		}
		if d[p] == 0 {
			if p+6 > len(d) {
				ok = false
				return
			}
			sh.ids = append(sh.ids, d[p+1])
			sh.leafSizes = append(sh.leafSizes, d[p+2])
			sh.leafCounts = append(sh.leafCounts, d[p+3])
			n := int(d[p+5])
			p += 6
			for k := 0; k < n; k++ {
				if p+3 > len(d) {
					ok = false
					return
				}
				if d[p+2] != 0 {
					sh.ids = append(sh.ids, d[p+2])
				}
				p += 3
			}
			return
		}
		sh.metas++
		sh.ids = append(sh.ids, d[p+1])
		n := int(d[p+4])
		p += 5 + 4*n
		for k := 0; k < n; k++ {
			rec(depth + 1)
		}
	}
	rec(0)
	if p != len(d) {
		ok = false
	}
	return
}

// ---------- part 1: array batch builds ----------

type batchEnv struct {
	base *LogBase
	st   *atree.PersistentSlabStorage
	rec  *RecStorage
	addr atree.Address
	el   batchElems
}

func newBatchEnv(addr uint64) *batchEnv {
	base := NewLogBase()
	st := newStorage(base)
	return &batchEnv{base: base, st: st, rec: &RecStorage{In: st}, addr: mkAddr(addr), el: batchElems{&arrayRun{st: st}}}
}

func (e *batchEnv) live() map[atree.SlabID]bool {
	w := &World{St: e.st, Base: e.base}
	out := map[atree.SlabID]bool{}
	for _, id := range w.LiveIDs() {
		out[id] = true
	}
	return out
}

// buildArray runs NewArrayFromBatchData on vals and applies every model-independent oracle;
// returns the dump (nil on failure).
func (r *batchRun) checkBuiltArray(env *batchEnv, arr *atree.Array, ids []int64, ti uint64, alloc0 uint64,
	liveBefore map[atree.SlabID]bool, nRoots int, log []int64, what string) []int64 {
	if arr.Count() != uint64(len(ids)) {
		r.viol("C17: "+what+": count differs from the number of elements supplied", fmt.Sprintf("%d vs %d", arr.Count(), len(ids)))
		return nil
	}
	k := 0
	err := arr.IterateReadOnly(func(v atree.Value) (bool, error) {
		if k < len(ids) && valID(v) != ids[k] {
			r.viol("C17: "+what+": content differs from the source", fmt.Sprintf("position %d: got %d want %d", k, valID(v), ids[k]))
		}
		k++
		return true, nil
	})
	if err != nil || k != len(ids) {
		r.viol("C17: "+what+": iteration does not yield every supplied element once", fmt.Sprintf("%d of %d, %v", k, len(ids), err))
		return nil
	}
	// positional reads (routing through the freshly built index slabs)
	for _, i := range []int{0, len(ids) / 3, len(ids) / 2, len(ids) - 1} {
		if i < 0 || i >= len(ids) {
			continue
		}
		v, err := arr.Get(uint64(i))
		if err != nil {
			r.viol("C17: "+what+": Get on the built array failed", fmt.Sprintf("i=%d: %v", i, err))
			return nil
		}
		if valID(v) != ids[i] {
			r.viol("C17: "+what+": Get on the built array returns a different element", fmt.Sprintf("i=%d got %d want %d", i, valID(v), ids[i]))
		}
	}
	if t, ok := arr.Type().(testutils.SimpleTypeInfo); !ok || t.Value() != ti {
		r.viol("C17: "+what+": type information differs", fmt.Sprint(arr.Type()))
	}
	if err := atree.VerifyArray(arr, env.addr, testutils.NewSimpleTypeInfo(ti), testutils.CompareTypeInfo, testutils.GetHashInput, true); err != nil {
		r.viol("C17: "+what+": result is not a valid array (VerifyArray)", err.Error())
		return nil
	}
	if _, err := atree.CheckStorageHealth(env.st, nRoots); err != nil {
		r.viol("C17: "+what+": storage health check fails after the build", err.Error())
		return nil
	}
	// sibling links: traversal along next pointers yields the same sequence
	els, err := atree.VerifArrayStorables(arr)
	if err != nil || len(els) != len(ids) {
		r.viol("C17: "+what+": traversal along sibling links does not yield every element", fmt.Sprintf("%d of %d, %v", len(els), len(ids), err))
		return nil
	}
	for j, s := range els {
		if id, _ := env.el.info(s); id != ids[j] {
			r.viol("C17: "+what+": traversal along sibling links differs from the source", fmt.Sprintf("position %d", j))
			break
		}
	}
	d, err := atree.VerifArrayDump(arr, env.el.info)
	if err != nil {
		r.viol("C17: "+what+": slab tree cannot be walked", err.Error())
		return nil
	}
	sh, ok := parseDump(d)
	if !ok {
		r.viol("C17: "+what+": malformed dump", "")
		return nil
	}
	// fresh identifiers: allocated by this call, never seen before, pairwise distinct
	seen := map[int64]bool{}
	alloc1 := env.base.LastIndex(env.addr)
	for _, id := range sh.ids {
		if uint64(id) <= alloc0 || uint64(id) > alloc1 {
			r.viol("C17: "+what+": result uses a slab identifier that was not allocated by the call", fmt.Sprintf("index %d, allocator before %d after %d", id, alloc0, alloc1))
		}
		if seen[id] {
			r.viol("C17: "+what+": slab identifier used twice in the result", fmt.Sprint(id))
		}
		seen[id] = true
		if liveBefore[mkIDa(env.addr, uint64(id))] {
			r.viol("C17: "+what+": result shares a slab with storage content that existed before", fmt.Sprint(id))
		}
	}
	// the call stored exactly the slabs of the result and removed nothing
	stored := map[int64]bool{}
	for j := 0; j+1 < len(log); j += 2 {
		if log[j] == 0 {
			r.viol("C17: "+what+": the build removed a slab", fmt.Sprint(log[j+1]))
		}
		stored[log[j+1]] = true
	}
	for id := range stored {
		if !seen[id] {
			r.viol("C17: "+what+": the build stored a slab that is not part of the result", fmt.Sprint(id))
		}
	}
	for id := range seen {
		if !stored[id] {
			r.viol("C17: "+what+": a slab of the result was never stored", fmt.Sprint(id))
		}
	}
	liveAfter := env.live()
	if len(liveAfter) != len(liveBefore)+len(seen) {
		r.viol("C17: "+what+": storage does not hold exactly the previous slabs plus the result", fmt.Sprintf("before %d result %d after %d", len(liveBefore), len(seen), len(liveAfter)))
	}
	return d
}

func mkIDa(a atree.Address, i uint64) atree.SlabID {
	var idx atree.SlabIndex
	binary.BigEndian.PutUint64(idx[:], i)
	return atree.NewSlabID(a, idx)
}

func (r *batchRun) arrayStream(famSeed uint64, mix int, n int, hr *Rng) (sh dumpShape, ok bool) {
	env := newBatchEnv(1 + uint64(hr.Intn(3)))
	nRoots := 0
	// optionally something else lives in the storage under the same address
	var other *atree.Array
	var otherDump []int64
	if hr.Bool() {
		var err error
		other, err = atree.NewArray(env.st, env.addr, testutils.NewSimpleTypeInfo(41))
		must(err)
		for k := hr.Intn(40); k > 0; k-- {
			must(other.Append(testutils.Uint64Value(uint64(k))))
		}
		otherDump, _ = atree.VerifArrayDump(other, env.el.info)
		nRoots++
	}
	for k := hr.Intn(4); k > 0; k-- {
		_, _ = env.base.GenerateSlabID(env.addr)
	}
	vals := make([]aval, n)
	ids := make([]int64, n)
	op := make([]int64, 0, 4+3*n)
	ti := uint64(40 + hr.Intn(3))
	alloc0 := env.base.LastIndex(env.addr)
	op = append(op, 1, int64(alloc0), int64(ti), int64(n))
	for i := range vals {
		vals[i] = batchVal(famSeed, mix, r.T, i)
		ids[i] = vals[i].id
		op = append(op, vals[i].id, vals[i].sz, b2i(vals[i].ext))
	}
	liveBefore := env.live()
	i := 0
	env.rec.Log = env.rec.Log[:0]
	arr, err := atree.NewArrayFromBatchData(env.rec, env.addr, testutils.NewSimpleTypeInfo(ti), func() (atree.Value, error) {
		if i == len(vals) {
			return nil, nil
		}
		i++
		return vals[i-1].v, nil
	})
	if err != nil {
		r.viol("C17: NewArrayFromBatchData failed", fmt.Sprintf("n=%d mix=%s: %v", n, mixNames[mix], err))
		r.tr.Step(op, []int64{-1})
		return sh, false
	}
	nRoots++
	log := append([]int64(nil), env.rec.Log...)
	d := r.checkBuiltArray(env, arr, ids, ti, alloc0, liveBefore, nRoots, log, "array batch build")
	if d == nil {
		r.tr.Step(op, []int64{-2})
		return sh, false
	}
	if other != nil {
		d2, _ := atree.VerifArrayDump(other, env.el.info)
		if fmt.Sprint(d2) != fmt.Sprint(otherDump) {
			r.viol("C17: array batch build changed another container in the same storage", "")
		}
	}
	obs := []int64{int64(env.base.LastIndex(env.addr)), int64(len(log) / 2)}
	obs = append(obs, log...)
	obs = append(obs, d...)
	r.tr.Step(op, obs)
	sh, _ = parseDump(d)

	// independence from later life: the built array behaves like any other (mutate, verify, dispose)
	if !r.failed && hr.Chance(40) {
		for k := 0; k < 6; k++ {
			switch {
			case arr.Count() > 0 && hr.Bool():
				old, err := arr.Remove(uint64(hr.Intn(int(arr.Count()))))
				if err != nil {
					r.viol("C17: remove on a batch-built array failed", err.Error())
					return sh, false
				}
				if sid, ok := old.(atree.SlabIDStorable); ok {
					must(env.st.Remove(atree.SlabID(sid)))
				}
			default:
				if err := arr.Insert(uint64(hr.Intn(int(arr.Count())+1)), testutils.Uint64Value(7)); err != nil {
					r.viol("C17: insert into a batch-built array failed", err.Error())
					return sh, false
				}
			}
		}
		if err := atree.VerifyArray(arr, env.addr, testutils.NewSimpleTypeInfo(ti), testutils.CompareTypeInfo, testutils.GetHashInput, true); err != nil {
			r.viol("C17: batch-built array is invalid after ordinary operations", err.Error())
		}
		if _, err := atree.CheckStorageHealth(env.st, nRoots); err != nil {
			r.viol("C17: storage health fails after operating on a batch-built array", err.Error())
		}
		// dispose: afterwards only the other container's slabs remain
		err := arr.PopIterate(func(s atree.Storable) {
			if sid, ok := s.(atree.SlabIDStorable); ok {
				must(env.st.Remove(atree.SlabID(sid)))
			}
		})
		if err != nil {
			r.viol("C17: PopIterate on a batch-built array failed", err.Error())
		}
		must(env.st.Remove(arr.SlabID()))
		if la := env.live(); len(la) != len(liveBefore) {
			r.viol("C17: disposing of a batch-built array leaves slabs behind or removes foreign slabs", fmt.Sprintf("before %d after %d", len(liveBefore), len(la)))
		}
		if other != nil {
			d2, _ := atree.VerifArrayDump(other, env.el.info)
			if fmt.Sprint(d2) != fmt.Sprint(otherDump) {
				r.viol("C17: disposing of a batch-built array changed another container", "")
			}
		}
	}
	return sh, true
}

// probe: build once (no oracles, no trace) to learn where leaves close for this family
func probeLeafBoundaries(famSeed uint64, mix int, T uint32, n int) []int {
	env := newBatchEnv(7)
	i := 0
	arr, err := atree.NewArrayFromBatchData(env.st, env.addr, testutils.NewSimpleTypeInfo(40), func() (atree.Value, error) {
		if i == n {
			return nil, nil
		}
		i++
		return batchVal(famSeed, mix, T, i-1).v, nil
	})
	if err != nil {
		return nil
	}
	d, err := atree.VerifArrayDump(arr, env.el.info)
	if err != nil {
		return nil
	}
	sh, ok := parseDump(d)
	if !ok {
		return nil
	}
	var cum []int
	t := 0
	for j := 0; j+2 < len(sh.leafCounts); j++ { // the last two leaves may have been rebalanced
		t += int(sh.leafCounts[j])
		cum = append(cum, t)
	}
	return cum // cum[j-1] = number of elements that fill exactly j leaves
}

func (r *batchRun) runArrayStreams(a Args, rng *Rng, maxLen int) {
	h := 0
	for fam := 0; h < a.N; fam++ {
		fr := rng.Fork(uint64(fam))
		T := batchSizes[fr.Intn(len(batchSizes))]
		mix := fr.Intn(nMixes)
		famSeed := fr.U64()
		// per family: boundary lengths and random lengths
		famMax := maxLen
		switch fr.Pick(50, 38, 12) {
		case 0:
			famMax = min(maxLen, 300)
		case 1:
			famMax = min(maxLen, 3000)
		}
		atree.VerifSetThreshold(T)
		st := atree.VerifSettings()
		maxN := int((st[2] - 12) / 14)
		cum := probeLeafBoundaries(famSeed, mix, T, famMax)
		var lens []int
		if len(cum) > 0 {
			js := []int{1, 2, 3, maxN - 1, maxN, maxN + 1, 2 * maxN, 2*maxN + 1, 3 * maxN, maxN*maxN - 1, maxN * maxN, maxN*maxN + 1, maxN*maxN + maxN, len(cum)}
			var cand []int
			for _, j := range js {
				if j >= 1 && j <= len(cum) {
					for dlt := -2; dlt <= 2; dlt++ {
						if x := cum[j-1] + dlt; x >= 0 && x <= famMax {
							cand = append(cand, x)
						}
					}
				}
			}
			for k := 0; k < 8 && len(cand) > 0; k++ {
				lens = append(lens, cand[fr.Intn(len(cand))])
			}
		}
		for k := 0; k < 4; k++ {
			switch fr.Pick(20, 40, 40) {
			case 0:
				lens = append(lens, fr.Intn(12))
			case 1:
				lens = append(lens, fr.Intn(min(famMax, 300)+1))
			default:
				lens = append(lens, fr.Intn(famMax+1))
			}
		}
		for li, n := range lens {
			if h >= a.N {
				break
			}
			hr := fr.Fork(uint64(1000 + li))
			tag := fmt.Sprintf("b%d", h)
			hist := h
			h++
			if !want(tag) {
				continue
			}
			r.hist, r.tag, r.T, r.failed = hist, tag, T, false
			atree.VerifSetThreshold(T)
			r.tr.Hist(tag, uint64(T))
			r.rep.Op("array_batch")
			var sh dumpShape
			var ok bool
			r.guard(func() { sh, ok = r.arrayStream(famSeed, mix, n, hr) })
			if ok {
				r.rep.Event("mix_" + mixNames[mix])
				r.rep.Event(fmt.Sprintf("height_%d", sh.height))
				r.rep.Event(fmt.Sprintf("T_%d", T))
				if n >= 10000 {
					r.rep.Event("len_ge_10000")
				}
				if len(sh.leafCounts) >= 2 {
					r.rep.Distinct(fmt.Sprintf("%d/%d/%d/%d", T, mix, sh.height, n))
				}
				if sh.height >= 3 {
					r.rep.Event("two_or_more_index_levels")
				}
				if hist < 3 {
					r.rep.Sample(fmt.Sprintf("%s: T=%d mix=%s n=%d -> %d leaves, %d index slabs, height %d", tag, T, mixNames[mix], n, len(sh.leafCounts), sh.metas, sh.height))
				}
			}
		}
	}
}

// ---------- part 2: map batch builds ----------

type mapEntry struct{ k, v atree.Value }

func mapFingerprint(m *atree.OrderedMap) (string, error) {
	e, err := atree.VerifMapElements(m)
	if err != nil {
		return "", err
	}
	var sb strings.Builder
	var rec func(g *atree.VerifMapElems)
	rec = func(g *atree.VerifMapElems) {
		fmt.Fprintf(&sb, "{%v %d %d %v:", g.IsHkey, g.Level, g.Size, g.Hkeys)
		for i := range g.Elems {
			el := &g.Elems[i]
			switch el.Kind {
			case 0:
				fmt.Fprintf(&sb, "(%T:%v=%T:%v %d)", el.Key, el.Key, el.Value, el.Value, el.Size)
			default:
				fmt.Fprintf(&sb, "[%d %d ", el.Kind, el.Size)
				rec(el.Group)
				sb.WriteString("]")
			}
		}
		sb.WriteString("}")
	}
	rec(e)
	return sb.String(), nil
}

// structure of a map independent of slab identifiers (external group identifiers and references to
// large values differ between a map and its rebuilt twin)
func mapShape(m *atree.OrderedMap, st atree.SlabStorage) (string, error) {
	e, err := atree.VerifMapElements(m)
	if err != nil {
		return "", err
	}
	var sb strings.Builder
	val := func(s atree.Storable) string {
		if sid, ok := s.(atree.SlabIDStorable); ok {
			v, err := sid.StoredValue(st)
			if err != nil {
				return "ref!" + err.Error()
			}
			return fmt.Sprintf("ref(%T:%v)", v, v)
		}
		return fmt.Sprintf("%T:%v", s, s)
	}
	var rec func(g *atree.VerifMapElems)
	rec = func(g *atree.VerifMapElems) {
		fmt.Fprintf(&sb, "{%v %d %d %v:", g.IsHkey, g.Level, g.Size, g.Hkeys)
		for i := range g.Elems {
			el := &g.Elems[i]
			switch el.Kind {
			case 0:
				fmt.Fprintf(&sb, "(%s=%s %d)", val(el.Key), val(el.Value), el.Size)
			default:
				fmt.Fprintf(&sb, "[%d %d ", el.Kind, el.Size)
				rec(el.Group)
				sb.WriteString("]")
			}
		}
		sb.WriteString("}")
	}
	rec(e)
	return sb.String(), nil
}

func mapPairs(m *atree.OrderedMap) ([]string, error) {
	var out []string
	err := m.IterateReadOnly(func(k, v atree.Value) (bool, error) {
		out = append(out, fmt.Sprintf("%T:%v=%T:%v", k, k, v, v))
		return true, nil
	})
	return out, err
}

func (r *batchRun) mapBatch(hr *Rng, maxEntries int) {
	collide := hr.Chance(25)
	n := 0
	switch hr.Pick(15, 45, 40) {
	case 0:
		n = hr.Intn(4)
	case 1:
		n = hr.Intn(min(maxEntries, 120) + 1)
	default:
		n = hr.Intn(maxEntries + 1)
	}
	if collide {
		n = min(n, 400)
	}
	// tail shapes: a few elements near the inline limit and one tiny one; when the tiny one comes last in
	// digest order the last data slab underflows and its left neighbour cannot lend (merge branch)
	tailShape := !collide && hr.Chance(30)
	tinyIdx := -1
	if tailShape {
		n = 3 + hr.Intn(6)
		tinyIdx = hr.Intn(n)
	}
	table := map[uint64][mpeLevels]uint64{}
	mkBuilder := func() atree.DigesterBuilder {
		if collide {
			return &mpeBuilder{table: table}
		}
		return atree.NewDefaultDigesterBuilder()
	}
	srcBase := NewLogBase()
	srcSt := newStorage(srcBase)
	srcAddr := mkAddr(1)
	ti := uint64(50 + hr.Intn(3))
	src, err := atree.NewMap(srcSt, srcAddr, mkBuilder(), testutils.NewSimpleTypeInfo(ti))
	must(err)
	keyLim := int(atree.MaxInlineMapKeySize())
	alpha := 1 + hr.Intn(4)
	for i := 0; i < n; i++ {
		var k atree.Value
		kid := uint64(i)*7 + uint64(hr.Intn(7))
		if collide {
			// identity-carrying keys with digests from tiny alphabets
			if hr.Bool() {
				k = testutils.Uint64Value(kid)
			} else {
				k = testutils.NewStringValue(fmt.Sprintf("%d|%s", kid, strings.Repeat("k", hr.Intn(12))))
			}
			var d [mpeLevels]uint64
			d[0] = uint64(hr.Intn(max(2, n/3)))
			for l := 1; l < mpeLevels; l++ {
				d[l] = uint64(hr.Intn(alpha))
			}
			table[kid] = d
		} else {
			switch hr.Pick(50, 30, 20) {
			case 0:
				k = testutils.Uint64Value(kid)
			case 1:
				k = testutils.NewStringValue(fmt.Sprintf("%d|%s", kid, strings.Repeat("k", hr.Intn(20))))
			default:
				k = testutils.NewStringValue(fmt.Sprintf("%d|%s", kid, strings.Repeat("k", max(0, keyLim-8+hr.Intn(8)))))
			}
		}
		var v atree.Value
		if tailShape {
			if i == tinyIdx {
				k = testutils.Uint64Value(kid)
				v = testutils.Uint64Value(uint64(hr.Intn(20)))
			} else {
				kl := max(1, keyLim-12+hr.Intn(10))
				k = testutils.NewStringValue(fmt.Sprintf("%d|%s", kid, strings.Repeat("k", kl)))
				room := int(atree.MaxInlineMapElementSize()) - int(k.(testutils.StringValue).ByteSize()) - 1
				v = testutils.NewStringValue(randStr(hr, max(1, room-6+hr.Intn(5))))
			}
			old, err := src.Set(testutils.CompareValue, testutils.GetHashInput, k, v)
			if err != nil {
				r.viol("C17: building the source map failed", err.Error())
				return
			}
			if sid, ok := old.(atree.SlabIDStorable); ok {
				must(srcSt.Remove(atree.SlabID(sid)))
			}
			continue
		}
		switch hr.Pick(40, 30, 15, 10, 5) {
		case 0:
			v = testutils.Uint64Value(uint64(hr.Intn(1 << 20)))
		case 1:
			v = testutils.NewStringValue(randStr(hr, 1+hr.Intn(30)))
		case 2:
			v = testutils.NewStringValue(randStr(hr, max(1, int(atree.MaxInlineMapElementSize())/2-6+hr.Intn(8))))
		case 3:
			v = testutils.NewStringValue(randStr(hr, int(atree.MaxInlineMapElementSize())+hr.Intn(100)))
		default:
			v = testutils.NewSomeValue(testutils.Uint64Value(uint64(i)))
		}
		old, err := src.Set(testutils.CompareValue, testutils.GetHashInput, k, v)
		if err != nil {
			var cle *atree.CollisionLimitError
			if asErr(err, &cle) {
				continue
			}
			r.viol("C17: building the source map failed", err.Error())
			return
		}
		if sid, ok := old.(atree.SlabIDStorable); ok {
			must(srcSt.Remove(atree.SlabID(sid)))
		}
	}
	if tailShape && hr.Chance(50) {
		// directed tail: learn the digest order of the keys, then size the values by rank so that the first
		// data slab reaches the slab size exactly with its last (tiny) element and one small element remains:
		// the last slab underflows and its left neighbour cannot lend, so the two are merged into ONE slab
		var order []atree.Value
		must(src.IterateReadOnly(func(k, v atree.Value) (bool, error) {
			order = append(order, k)
			return true, nil
		}))
		if len(order) >= 4 {
			T := atree.VerifSettings()[0]
			prefix := uint32(18 + 8)
			maxElem := atree.MaxInlineMapElementSize() + 8
			strOf := func(total uint32) atree.Value { // string value whose storable has (about) that size
				l := int(total) - 3
				if total <= 24 {
					l = int(total) - 1
				} else if total <= 257 {
					l = int(total) - 2
				}
				return testutils.NewStringValue(strings.Repeat("s", max(0, l)))
			}
			set := func(k atree.Value, contribution uint32) {
				ks := k.(interface{ ByteSize() uint32 }).ByteSize()
				vs := int(contribution) - 8 - 1 - int(ks)
				if vs < 1 {
					vs = 1
				}
				old, err := src.Set(testutils.CompareValue, testutils.GetHashInput, k, strOf(uint32(vs)))
				must(err)
				if sid, ok := old.(atree.SlabIDStorable); ok {
					must(srcSt.Remove(atree.SlabID(sid)))
				}
			}
			// all but the last four stay as they are only if small; simplest: keep exactly four entries
			for _, k := range order[4:] {
				ks, vs, err := src.Remove(testutils.CompareValue, testutils.GetHashInput, k)
				must(err)
				for _, st := range []atree.Storable{ks, vs} {
					if sid, ok := st.(atree.SlabIDStorable); ok {
						must(srcSt.Remove(atree.SlabID(sid)))
					}
				}
			}
			order = order[:4]
			// keys are of mixed sizes: replace them by their rank-preserving contributions only through values
			a := T/2 - prefix - 2 - uint32(hr.Intn(3))
			b := maxElem - 1 - uint32(hr.Intn(3))
			tiny := uint32(14)
			if prefix+a+b < T {
				tiny = T - prefix - a - b
				if tiny < 14 {
					tiny = 14
				}
			}
			set(order[0], a)
			set(order[1], b)
			set(order[2], tiny)
			set(order[3], 14+uint32(hr.Intn(4)))
			r.rep.Event("map_batch_directed_tail")
		}
	}
	var entries []mapEntry
	must(src.IterateReadOnly(func(k, v atree.Value) (bool, error) {
		entries = append(entries, mapEntry{k, v})
		return true, nil
	}))
	srcPairs, _ := mapPairs(src)
	srcShape, err := mapShape(src, srcSt)
	if err != nil {
		r.viol("C17: source map cannot be dumped", err.Error())
		return
	}
	srcFp, _ := mapFingerprint(src)

	// destination: same storage (other address or same address) or a new storage
	var env *batchEnv
	nRoots := 1
	sameStorage := hr.Bool()
	if sameStorage {
		env = &batchEnv{base: srcBase, st: srcSt, rec: &RecStorage{In: srcSt}, addr: mkAddr(1 + uint64(hr.Intn(2)))}
		nRoots = 2
	} else {
		env = newBatchEnv(2)
	}
	alloc0 := env.base.LastIndex(env.addr)
	liveBefore := env.live()
	build := func(feed []mapEntry, seed uint64) (*atree.OrderedMap, error) {
		i := 0
		env.rec.Log = env.rec.Log[:0]
		return atree.NewMapFromBatchData(env.rec, env.addr, mkBuilder(), testutils.NewSimpleTypeInfo(ti),
			testutils.CompareValue, testutils.GetHashInput, seed,
			func() (atree.Value, atree.Value, error) {
				if i == len(feed) {
					return nil, nil, nil
				}
				i++
				return feed[i-1].k, feed[i-1].v, nil
			})
	}

	// negative cases first (they must fail with the documented error)
	mode := hr.Pick(70, 12, 12, 6)
	switch {
	case mode == 1 && len(entries) >= 2:
		// unsorted digests: move an entry with a strictly larger level-0 digest in front of a smaller one
		dgs := entryDigests(src)
		if len(dgs) != len(entries) {
			r.viol("C17: source map dump and iteration disagree on the number of entries", fmt.Sprintf("%d vs %d", len(dgs), len(entries)))
			return
		}
		i := hr.Intn(len(entries) - 1)
		j := i + 1
		for j < len(entries) && dgs[j] == dgs[i] {
			j++
		}
		if j == len(entries) {
			break
		}
		feed := append([]mapEntry(nil), entries...)
		feed[i], feed[j] = feed[j], feed[i]
		r.rep.Op("map_batch_unsorted")
		_, err := build(feed, src.Seed())
		var he *atree.HashError
		if err == nil {
			r.viol("C17: NewMapFromBatchData accepted a stream whose digests are not sorted", fmt.Sprintf("n=%d swapped %d,%d", len(entries), i, j))
		} else if !asErr(err, &he) {
			r.viol("C17: unsorted digests are not reported as HashError", err.Error())
		} else {
			r.rep.Err("HashError")
		}
		return
	case mode == 2 && len(entries) >= 1:
		i := hr.Intn(len(entries))
		feed := append([]mapEntry(nil), entries[:i+1]...)
		feed = append(feed, entries[i])
		feed = append(feed, entries[i+1:]...)
		r.rep.Op("map_batch_duplicate")
		_, err := build(feed, src.Seed())
		var de *atree.DuplicateKeyError
		if err == nil {
			r.viol("C17: NewMapFromBatchData accepted a stream with a duplicate key", fmt.Sprintf("n=%d dup at %d", len(entries), i))
		} else if !asErr(err, &de) {
			r.viol("C17: duplicate key is not reported as DuplicateKeyError", err.Error())
		} else {
			r.rep.Err("DuplicateKeyError")
		}
		return
	case mode == 3:
		r.rep.Op("map_batch_zero_seed")
		_, err := build(entries, 0)
		var se *atree.HashSeedUninitializedError
		if err == nil || !asErr(err, &se) {
			r.viol("C17: NewMapFromBatchData with seed 0 is not rejected with HashSeedUninitializedError", fmt.Sprint(err))
		} else {
			r.rep.Err("HashSeedUninitializedError")
		}
		return
	}

	r.rep.Op("map_batch")
	cp, err := build(entries, src.Seed())
	if err != nil {
		r.viol("C17: NewMapFromBatchData failed on the source's own order and seed", fmt.Sprintf("n=%d collide=%v: %v", len(entries), collide, err))
		return
	}
	log := append([]int64(nil), env.rec.Log...)
	if cp.Count() != src.Count() {
		r.viol("C17: map batch build: count differs from the source", fmt.Sprintf("%d vs %d", cp.Count(), src.Count()))
		return
	}
	if cp.Seed() != src.Seed() {
		r.viol("C17: map batch build: seed differs from the source's", fmt.Sprintf("%d vs %d", cp.Seed(), src.Seed()))
	}
	if cp.SlabID() == src.SlabID() {
		r.viol("C17: map batch build: result has the source's root identifier", "")
	}
	cpPairs, err := mapPairs(cp)
	if err != nil {
		r.viol("C17: map batch build: iteration over the result failed", err.Error())
		return
	}
	if strings.Join(cpPairs, ";") != strings.Join(srcPairs, ";") {
		r.viol("C17: map batch build: content or iteration order differs from the source", fmt.Sprintf("n=%d", len(entries)))
		return
	}
	for k := 0; k < 5 && len(entries) > 0; k++ {
		e := entries[hr.Intn(len(entries))]
		v, err := cp.Get(testutils.CompareValue, testutils.GetHashInput, e.k)
		if err != nil || fmt.Sprint(v) != fmt.Sprint(e.v) {
			r.viol("C17: map batch build: lookup in the result differs from the source", fmt.Sprintf("key %v: %v %v", e.k, v, err))
			return
		}
	}
	if err := atree.VerifyMap(cp, env.addr, testutils.NewSimpleTypeInfo(ti), testutils.CompareTypeInfo, testutils.GetHashInput, true); err != nil {
		r.viol("C17: map batch build: result is not a valid map (VerifyMap)", fmt.Sprintf("n=%d collide=%v: %v", len(entries), collide, err))
		return
	}
	if _, err := atree.CheckStorageHealth(env.st, nRoots); err != nil {
		r.viol("C17: map batch build: storage health check fails", err.Error())
		return
	}
	// element structure as if built by individual Sets with the same digests
	cpShape, err := mapShape(cp, env.st)
	if err != nil {
		r.viol("C17: map batch build: result cannot be dumped", err.Error())
		return
	}
	if cpShape != srcShape {
		r.viol("C17: map batch build: element structure differs from the one built by individual operations", fmt.Sprintf("n=%d collide=%v", len(entries), collide))
	}
	// fresh identifiers, nothing removed, storage = before + stored
	stored := map[int64]bool{}
	alloc1 := env.base.LastIndex(env.addr)
	for j := 0; j+1 < len(log); j += 2 {
		if log[j] == 0 {
			r.viol("C17: map batch build removed a slab", fmt.Sprint(log[j+1]))
		}
		id := log[j+1]
		stored[id] = true
		if uint64(id) <= alloc0 || uint64(id) > alloc1 {
			r.viol("C17: map batch build stored a slab under an identifier it did not allocate", fmt.Sprint(id))
		}
		if liveBefore[mkIDa(env.addr, uint64(id))] {
			r.viol("C17: map batch build overwrote a slab that existed before", fmt.Sprint(id))
		}
	}
	if la := env.live(); len(la) != len(liveBefore)+len(stored) {
		r.viol("C17: map batch build: storage does not hold exactly the previous slabs plus the stored ones", fmt.Sprintf("before %d stored %d after %d", len(liveBefore), len(stored), len(la)))
	}
	if fp, _ := mapFingerprint(src); fp != srcFp {
		r.viol("C17: map batch build changed the source map", "")
	}
	n2, _ := atree.VerifMapDataSlabCount(cp)
	r.rep.Event(fmt.Sprintf("map_leaves_%s", bucket(n2)))
	if collide {
		r.rep.Event("map_with_collisions")
	}
	if n2 >= 2 {
		r.rep.Distinct(fmt.Sprintf("m/%d/%d/%v", r.T, len(entries), collide))
	}

	// independence: mutate / dispose one, the other is unaffected
	cpFp, _ := mapFingerprint(cp)
	if len(entries) > 0 {
		for k := 0; k < 4; k++ {
			e := entries[hr.Intn(len(entries))]
			if hr.Bool() {
				old, err := cp.Set(testutils.CompareValue, testutils.GetHashInput, e.k, testutils.Uint64Value(99))
				if err != nil {
					r.viol("C17: Set on a batch-built map failed", err.Error())
					return
				}
				if sid, ok := old.(atree.SlabIDStorable); ok {
					must(env.st.Remove(atree.SlabID(sid)))
				}
			} else {
				ks, vs, err := cp.Remove(testutils.CompareValue, testutils.GetHashInput, e.k)
				var knf *atree.KeyNotFoundError
				if err != nil && !asErr(err, &knf) {
					r.viol("C17: Remove on a batch-built map failed", err.Error())
					return
				}
				for _, s := range []atree.Storable{ks, vs} {
					if sid, ok := s.(atree.SlabIDStorable); ok {
						must(env.st.Remove(atree.SlabID(sid)))
					}
				}
			}
		}
		if err := atree.VerifyMap(cp, env.addr, testutils.NewSimpleTypeInfo(ti), testutils.CompareTypeInfo, testutils.GetHashInput, true); err != nil {
			r.viol("C17: batch-built map is invalid after ordinary operations", err.Error())
		}
		if fp, _ := mapFingerprint(src); fp != srcFp {
			r.viol("C17: mutating the batch-built map changed the source map", "")
		}
		cpFp, _ = mapFingerprint(cp)
		// mutate the source
		e := entries[hr.Intn(len(entries))]
		old, err := src.Set(testutils.CompareValue, testutils.GetHashInput, e.k, testutils.Uint64Value(77))
		if err != nil {
			r.viol("C17: Set on the source map failed after the batch build", err.Error())
			return
		}
		if sid, ok := old.(atree.SlabIDStorable); ok {
			must(srcSt.Remove(atree.SlabID(sid)))
		}
		if fp, _ := mapFingerprint(cp); fp != cpFp {
			r.viol("C17: mutating the source map changed the batch-built map", "")
		}
	}
	// dispose of the source; the result must survive
	err = src.PopIterate(func(k, v atree.Storable) {
		for _, s := range []atree.Storable{k, v} {
			if sid, ok := s.(atree.SlabIDStorable); ok {
				must(srcSt.Remove(atree.SlabID(sid)))
			}
		}
	})
	if err != nil {
		r.viol("C17: PopIterate on the source map failed", err.Error())
		return
	}
	must(srcSt.Remove(src.SlabID()))
	if err := atree.VerifyMap(cp, env.addr, testutils.NewSimpleTypeInfo(ti), testutils.CompareTypeInfo, testutils.GetHashInput, true); err != nil {
		r.viol("C17: disposing of the source map damaged the batch-built map", err.Error())
	}
	if fp, _ := mapFingerprint(cp); fp != cpFp {
		r.viol("C17: disposing of the source map changed the batch-built map", "")
	}
	if _, err := atree.CheckStorageHealth(env.st, 1); err != nil {
		r.viol("C17: storage health fails after disposing of the source map", err.Error())
	}
}

// entryDigests: the level-0 digest of every entry in iteration order
func entryDigests(m *atree.OrderedMap) []uint64 {
	e, err := atree.VerifMapElements(m)
	if err != nil {
		return nil
	}
	var count func(g *atree.VerifMapElems) int
	count = func(g *atree.VerifMapElems) int {
		t := 0
		for i := range g.Elems {
			if g.Elems[i].Kind == 0 {
				t++
			} else {
				t += count(g.Elems[i].Group)
			}
		}
		return t
	}
	var out []uint64
	for i := range e.Elems {
		n := 1
		if e.Elems[i].Kind != 0 {
			n = count(e.Elems[i].Group)
		}
		for k := 0; k < n; k++ {
			out = append(out, uint64(e.Hkeys[i]))
		}
	}
	return out
}

func bucket(n int) string {
	switch {
	case n <= 1:
		return "1"
	case n <= 3:
		return "2-3"
	case n <= 30:
		return "4-30"
	default:
		return "31+"
	}
}

// ---------- part 3: copy ----------

// plainStorable is the harness's own reading of "plain non-reference value": through wrappers, no
// reference to another slab and no nested container.
func plainStorable(s atree.Storable) bool {
	for {
		switch x := s.(type) {
		case atree.SlabIDStorable:
			return false
		case *atree.ArrayDataSlab, *atree.ArrayMetaDataSlab, *atree.MapDataSlab, *atree.MapMetaDataSlab, *atree.StorableSlab:
			return false
		case atree.WrapperStorable:
			s = x.UnwrapAtreeStorable()
			continue
		case testutils.Uint64Value, testutils.Uint8Value, testutils.Uint16Value, testutils.Uint32Value, testutils.StringValue:
			return true
		default:
			return false
		}
	}
}

func arrCopyable(a *atree.Array) (bool, error) {
	if !a.IsWithinSingleSlab() {
		return false, nil
	}
	els, err := atree.VerifArrayStorables(a)
	if err != nil {
		return false, err
	}
	for _, s := range els {
		if !plainStorable(s) {
			return false, nil
		}
	}
	return true, nil
}

func mapCopyable(m *atree.OrderedMap) (bool, error) {
	if !m.IsWithinSingleSlab() {
		return false, nil
	}
	e, err := atree.VerifMapElements(m)
	if err != nil {
		return false, err
	}
	var rec func(g *atree.VerifMapElems) bool
	rec = func(g *atree.VerifMapElems) bool {
		for i := range g.Elems {
			el := &g.Elems[i]
			switch el.Kind {
			case 0:
				if !plainStorable(el.Key) || !plainStorable(el.Value) {
					return false
				}
			case 1:
				if !rec(el.Group) {
					return false
				}
			default: // external collision group: a reference to another slab
				return false
			}
		}
		return true
	}
	return rec(e), nil
}

func hashStorable(s atree.Storable) int64 {
	h := fnv.New64a()
	fmt.Fprintf(h, "%T:%v", s, s)
	return int64(h.Sum64() >> 1)
}

func arrFingerprint(a *atree.Array) string {
	d, err := atree.VerifArrayDump(a, func(s atree.Storable) (int64, uint64) {
		if sid, ok := s.(atree.SlabIDStorable); ok {
			return 0, atree.SlabID(sid).IndexAsUint64()
		}
		return hashStorable(s), 0
	})
	if err != nil {
		return "dump error: " + err.Error()
	}
	return fmt.Sprint(d, a.Type())
}

func arrValues(a *atree.Array) ([]string, error) {
	var out []string
	err := a.IterateReadOnly(func(v atree.Value) (bool, error) {
		out = append(out, fmt.Sprintf("%T:%v", v, v))
		return true, nil
	})
	return out, err
}

type copyCtx struct {
	r     *batchRun
	st    *atree.PersistentSlabStorage
	base  *LogBase
	nRoot func() int // live roots not counting the copy
	hr    *Rng
}

func (c *copyCtx) liveSet() map[atree.SlabID]bool {
	w := &World{St: c.st, Base: c.base}
	out := map[atree.SlabID]bool{}
	for _, id := range w.LiveIDs() {
		out[id] = true
	}
	return out
}

// checkArrayCopy: predicate, copy, equality, validity, freshness, independence.  mutateSrc mutates the
// source through its single wrapper (nil: not possible here).  Returns the copy for the caller to keep
// (keep=true) or disposes of it.
func (c *copyCtx) checkArrayCopy(src *atree.Array, srcTI uint64, dst atree.Address, mutateSrc func(), keep bool) *atree.Array {
	r := c.r
	r.rep.Op("array_copy_query")
	want, err := arrCopyable(src)
	if err != nil {
		r.viol("C17: source array cannot be walked", err.Error())
		return nil
	}
	got := src.CanCopyNonRefSimple()
	if got != want {
		r.viol("C17: CanCopyNonRefSimple disagrees with: single slab and all elements plain non-reference values",
			fmt.Sprintf("array %s: offered=%v expected=%v single=%v inlined=%v", src.SlabID(), got, want, src.IsWithinSingleSlab(), src.Inlined()))
		return nil
	}
	srcFp := arrFingerprint(src)
	live0 := c.liveSet()
	alloc0 := c.base.LastIndex(dst)
	if !want {
		r.rep.Event("array_copy_not_offered")
		cp, err := src.CopyNonRefSimple(dst)
		if err == nil {
			r.viol("C17: CopyNonRefSimple succeeded although the copy is not offered", fmt.Sprint(cp.SlabID()))
			return nil
		}
		var ce *atree.CopyError
		if !asErr(err, &ce) {
			r.viol("C17: refused copy is not reported as CopyError", err.Error())
		}
		if len(c.liveSet()) != len(live0) || arrFingerprint(src) != srcFp {
			r.viol("C17: refused copy left a trace in storage or changed the source", "")
		}
		return nil
	}
	r.rep.Op("array_copy")
	if src.Inlined() {
		r.rep.Event("copy_of_inlined_source")
	}
	cp, err := src.CopyNonRefSimple(dst)
	if err != nil {
		r.viol("C17: CopyNonRefSimple failed although CanCopyNonRefSimple is true", err.Error())
		return nil
	}
	if cp.SlabID() == src.SlabID() || live0[cp.SlabID()] {
		r.viol("C17: the copy's root identifier is not fresh", cp.SlabID().String())
	}
	if cp.Address() != dst || cp.SlabID().IndexAsUint64() != alloc0+1 {
		r.viol("C17: the copy's root identifier was not allocated under the requested address", cp.SlabID().String())
	}
	if cp.Inlined() {
		r.viol("C17: the copy is marked inlined", "")
	}
	if !cp.IsWithinSingleSlab() {
		r.viol("C17: the copy is not a single slab", "")
	}
	sv, _ := arrValues(src)
	cv, err := arrValues(cp)
	if err != nil || strings.Join(sv, ";") != strings.Join(cv, ";") || cp.Count() != src.Count() {
		r.viol("C17: content of the copy differs from the source", fmt.Sprintf("%d vs %d elements, %v", len(cv), len(sv), err))
		return nil
	}
	if t, ok := cp.Type().(testutils.SimpleTypeInfo); !ok || t.Value() != srcTI {
		r.viol("C17: type information of the copy differs", fmt.Sprint(cp.Type()))
	}
	verify := func(what string) bool {
		if err := atree.VerifyArray(cp, dst, testutils.NewSimpleTypeInfo(srcTI), testutils.CompareTypeInfo, testutils.GetHashInput, true); err != nil {
			r.viol("C17: the copy is not a valid array (VerifyArray) "+what, fmt.Sprintf("source inlined=%v: %v", src.Inlined(), err))
			return false
		}
		return true
	}
	if !verify("right after the copy") {
		return nil
	}
	if _, err := atree.CheckStorageHealth(c.st, c.nRoot()+1); err != nil {
		r.viol("C17: storage health check fails after the copy", err.Error())
		return nil
	}
	if la := c.liveSet(); len(la) != len(live0)+1 {
		r.viol("C17: the copy did not add exactly one slab", fmt.Sprintf("%d -> %d", len(live0), len(la)))
	}
	if arrFingerprint(src) != srcFp {
		r.viol("C17: copying changed the source", "")
	}
	// independence 1: mutate the copy
	hr := c.hr
	for k := 0; k < 3; k++ {
		var err error
		switch {
		case cp.Count() > 0 && hr.Chance(35):
			_, err = cp.Remove(uint64(hr.Intn(int(cp.Count()))))
		case cp.Count() > 0 && hr.Chance(40):
			_, err = cp.Set(uint64(hr.Intn(int(cp.Count()))), testutils.Uint64Value(uint64(1000+k)))
		default:
			err = cp.Append(testutils.Uint64Value(uint64(2000 + k)))
		}
		if err != nil {
			r.viol("C17: operation on the copy failed", err.Error())
			return nil
		}
	}
	if !verify("after mutating the copy") {
		return nil
	}
	if arrFingerprint(src) != srcFp {
		r.viol("C17: mutating the copy changed the source", "")
	}
	// independence 1b: retype the copy — the source keeps its type (and vice versa afterwards)
	{
		newTI := srcTI + 7
		if err := cp.SetType(testutils.NewSimpleTypeInfo(newTI)); err != nil {
			r.viol("C17: SetType on the copy failed", err.Error())
			return nil
		}
		if t, ok := src.Type().(testutils.SimpleTypeInfo); !ok || t.Value() != srcTI {
			r.viol("C17: changing the type of the copy changed the type of the source", fmt.Sprint(src.Type()))
		}
		if err := cp.SetType(testutils.NewSimpleTypeInfo(srcTI)); err != nil {
			r.viol("C17: SetType on the copy failed", err.Error())
			return nil
		}
	}
	// independence 2: mutate the source
	if mutateSrc != nil {
		cpFp := arrFingerprint(cp)
		mutateSrc()
		if arrFingerprint(cp) != cpFp {
			r.viol("C17: mutating the source changed the copy", "")
		}
		if !verify("after mutating the source") {
			return nil
		}
	}
	if keep {
		return cp
	}
	c.disposeArray(cp)
	return nil
}

func (c *copyCtx) disposeArray(cp *atree.Array) {
	err := cp.PopIterate(func(s atree.Storable) {
		if sid, ok := s.(atree.SlabIDStorable); ok {
			must(c.st.Remove(atree.SlabID(sid)))
		}
	})
	if err != nil {
		c.r.viol("C17: PopIterate on the copy failed", err.Error())
	}
	must(c.st.Remove(cp.SlabID()))
}

func (c *copyCtx) checkMapCopy(src *atree.OrderedMap, srcTI uint64, dst atree.Address, mutateSrc func(), keep bool) *atree.OrderedMap {
	r := c.r
	r.rep.Op("map_copy_query")
	want, err := mapCopyable(src)
	if err != nil {
		r.viol("C17: source map cannot be walked", err.Error())
		return nil
	}
	got := src.CanCopyNonRefSimple()
	if got != want {
		r.viol("C17: CanCopyNonRefSimple disagrees with: single slab and all keys and values plain non-reference values",
			fmt.Sprintf("map %s: offered=%v expected=%v single=%v inlined=%v", src.SlabID(), got, want, src.IsWithinSingleSlab(), src.Inlined()))
		return nil
	}
	srcFp, _ := mapFingerprint(src)
	live0 := c.liveSet()
	alloc0 := c.base.LastIndex(dst)
	if !want {
		r.rep.Event("map_copy_not_offered")
		cp, err := src.CopyNonRefSimple(dst, atree.NewDefaultDigesterBuilder())
		if err == nil {
			r.viol("C17: map CopyNonRefSimple succeeded although the copy is not offered", fmt.Sprint(cp.SlabID()))
			return nil
		}
		var ce *atree.CopyError
		if !asErr(err, &ce) {
			r.viol("C17: refused map copy is not reported as CopyError", err.Error())
		}
		fp, _ := mapFingerprint(src)
		if len(c.liveSet()) != len(live0) || fp != srcFp {
			r.viol("C17: refused map copy left a trace in storage or changed the source", "")
		}
		return nil
	}
	r.rep.Op("map_copy")
	if src.Inlined() {
		r.rep.Event("copy_of_inlined_source")
	}
	cp, err := src.CopyNonRefSimple(dst, atree.NewDefaultDigesterBuilder())
	if err != nil {
		r.viol("C17: map CopyNonRefSimple failed although CanCopyNonRefSimple is true", err.Error())
		return nil
	}
	if cp.SlabID() == src.SlabID() || live0[cp.SlabID()] {
		r.viol("C17: the map copy's root identifier is not fresh", cp.SlabID().String())
	}
	if cp.Address() != dst || cp.SlabID().IndexAsUint64() != alloc0+1 {
		r.viol("C17: the map copy's root identifier was not allocated under the requested address", cp.SlabID().String())
	}
	if cp.Inlined() {
		r.viol("C17: the map copy is marked inlined", "")
	}
	if cp.Seed() != src.Seed() {
		r.viol("C17: the map copy has a different seed", "")
	}
	sp, _ := mapPairs(src)
	cpp, err := mapPairs(cp)
	if err != nil || strings.Join(sp, ";") != strings.Join(cpp, ";") || cp.Count() != src.Count() {
		r.viol("C17: content or order of the map copy differs from the source", fmt.Sprintf("%d vs %d entries, %v", len(cpp), len(sp), err))
		return nil
	}
	if t, ok := cp.Type().(testutils.SimpleTypeInfo); !ok || t.Value() != srcTI {
		r.viol("C17: type information of the map copy differs", fmt.Sprint(cp.Type()))
	}
	verify := func(what string) bool {
		if err := atree.VerifyMap(cp, dst, testutils.NewSimpleTypeInfo(srcTI), testutils.CompareTypeInfo, testutils.GetHashInput, true); err != nil {
			r.viol("C17: the copy is not a valid map (VerifyMap) "+what, fmt.Sprintf("source inlined=%v: %v", src.Inlined(), err))
			return false
		}
		return true
	}
	if !verify("right after the copy") {
		return nil
	}
	if _, err := atree.CheckStorageHealth(c.st, c.nRoot()+1); err != nil {
		r.viol("C17: storage health check fails after the map copy", err.Error())
		return nil
	}
	if la := c.liveSet(); len(la) != len(live0)+1 {
		r.viol("C17: the map copy did not add exactly one slab", fmt.Sprintf("%d -> %d", len(live0), len(la)))
	}
	if fp, _ := mapFingerprint(src); fp != srcFp {
		r.viol("C17: copying changed the source map", "")
	}
	hr := c.hr
	for k := 0; k < 3; k++ {
		if hr.Bool() {
			_, err = cp.Set(testutils.CompareValue, testutils.GetHashInput, testutils.Uint64Value(uint64(900000+hr.Intn(5))), testutils.Uint64Value(uint64(k)))
		} else {
			var knf *atree.KeyNotFoundError
			var key atree.Value = testutils.Uint64Value(uint64(900000 + hr.Intn(5)))
			if cp.Count() > 0 && hr.Bool() {
				it, _ := cp.ReadOnlyIterator()
				key, _, _ = it.Next()
			}
			_, _, err = cp.Remove(testutils.CompareValue, testutils.GetHashInput, key)
			if asErr(err, &knf) {
				err = nil
			}
		}
		if err != nil {
			r.viol("C17: operation on the map copy failed", err.Error())
			return nil
		}
	}
	if !verify("after mutating the copy") {
		return nil
	}
	if fp, _ := mapFingerprint(src); fp != srcFp {
		r.viol("C17: mutating the map copy changed the source", "")
	}
	if mutateSrc != nil {
		cpFp, _ := mapFingerprint(cp)
		mutateSrc()
		if fp, _ := mapFingerprint(cp); fp != cpFp {
			r.viol("C17: mutating the source changed the map copy", "")
		}
		if !verify("after mutating the source") {
			return nil
		}
	}
	if keep {
		return cp
	}
	c.disposeMap(cp)
	return nil
}

func (c *copyCtx) disposeMap(cp *atree.OrderedMap) {
	err := cp.PopIterate(func(k, v atree.Storable) {
		for _, s := range []atree.Storable{k, v} {
			if sid, ok := s.(atree.SlabIDStorable); ok {
				must(c.st.Remove(atree.SlabID(sid)))
			}
		}
	})
	if err != nil {
		c.r.viol("C17: PopIterate on the map copy failed", err.Error())
	}
	must(c.st.Remove(cp.SlabID()))
}

// copyWorld: a random nested history; at several points every live container (any depth) is queried
// and, when offered, copied.
func (r *batchRun) copyWorld(hr *Rng, steps int) {
	base := NewLogBase()
	opts := WorldOpts{Addr: 1, MaxDepth: 1 + hr.Intn(3), Wrap: hr.Chance(60), Maps: true, LargeVals: hr.Chance(50), PopChild: false, KeySpace: 12 + hr.Intn(40)}
	w := NewWorld(base, hr, opts, r.rep)
	w.Fail = func(what, detail string) { r.viol("C17: source world broken around a copy: "+what, detail) }
	c := &copyCtx{r: r, st: w.St, base: base, hr: hr, nRoot: func() int { return len(w.Roots) }}
	w.NewArrayRoot()
	if hr.Bool() {
		w.NewMapRoot()
	}
	dstOf := func() atree.Address {
		if hr.Bool() {
			return w.Addr
		}
		return mkAddr(9)
	}
	fresh := uint64(0)
	copyAll := func() {
		for _, cr := range w.containers() {
			if r.failed {
				return
			}
			switch x := cr.s.(type) {
			case *svArr:
				c.checkArrayCopy(x.arr, x.ti, dstOf(), func() {
					// only scalar elements are removed or overwritten: the other containers
					// in the list being visited must stay alive
					n := uint64(len(x.elems))
					i := uint64(0)
					scalar := false
					if n > 0 {
						i = uint64(hr.Intn(int(n)))
						_, scalar = unwrapSV(x.elems[i]).(*svScalar)
					}
					switch {
					case scalar && hr.Chance(35):
						w.arrRemove(x, i)
					case scalar && hr.Chance(50):
						w.arrSet(x, i, opts.MaxDepth) // depth = max: the new value is a scalar
					default:
						w.arrInsert(x, uint64(hr.Intn(int(n)+1)), cr.depth+1)
					}
				}, false)
			case *svMap:
				c.checkMapCopy(x.m, x.ti, dstOf(), func() {
					if len(x.keys) > 0 && hr.Chance(40) {
						k := x.keys[hr.Intn(len(x.keys))]
						if _, scalar := unwrapSV(x.vals[keyStr(k)]).(*svScalar); scalar {
							w.mapRemove(x, k)
							return
						}
					}
					fresh++
					w.mapSet(x, testutils.Uint64Value(1<<40+fresh), cr.depth+1)
				}, false)
			}
			if !r.failed {
				w.VerifyAll(true) // disposing of the copy left the world intact
			}
		}
	}
	for s := 0; s < steps && !r.failed; s++ {
		w.Step()
		if s%7 == 6 || s == steps-1 {
			w.VerifyAll(true)
			copyAll()
		}
	}
	if r.failed {
		return
	}
	// dispose of the sources; copies of the root containers must survive
	var keptA []*atree.Array
	var keptAV [][]string
	var keptATI []uint64
	var keptM []*atree.OrderedMap
	var keptMV [][]string
	var keptMTI []uint64
	extra := 0
	c.nRoot = func() int { return len(w.Roots) + extra }
	for _, root := range w.Roots {
		switch x := root.(type) {
		case *svArr:
			if x.arr.CanCopyNonRefSimple() {
				sv, _ := arrValues(x.arr)
				if cp, err := x.arr.CopyNonRefSimple(mkAddr(9)); err == nil {
					keptA, keptAV, keptATI = append(keptA, cp), append(keptAV, sv), append(keptATI, x.ti)
					extra++
				}
			}
		case *svMap:
			if x.m.CanCopyNonRefSimple() {
				sv, _ := mapPairs(x.m)
				if cp, err := x.m.CopyNonRefSimple(mkAddr(9), atree.NewDefaultDigesterBuilder()); err == nil {
					keptM, keptMV, keptMTI = append(keptM, cp), append(keptMV, sv), append(keptMTI, x.ti)
					extra++
				}
			}
		}
	}
	w.DisposeAll()
	for i, cp := range keptA {
		r.rep.Op("source_disposed_copy_checked")
		cv, err := arrValues(cp)
		if err != nil || strings.Join(cv, ";") != strings.Join(keptAV[i], ";") {
			r.viol("C17: disposing of the source changed the copy", fmt.Sprint(err))
		}
		if err := atree.VerifyArray(cp, mkAddr(9), testutils.NewSimpleTypeInfo(keptATI[i]), testutils.CompareTypeInfo, testutils.GetHashInput, true); err != nil {
			r.viol("C17: disposing of the source damaged the copy", err.Error())
		}
	}
	for i, cp := range keptM {
		r.rep.Op("source_disposed_copy_checked")
		cv, err := mapPairs(cp)
		if err != nil || strings.Join(cv, ";") != strings.Join(keptMV[i], ";") {
			r.viol("C17: disposing of the source map changed the copy", fmt.Sprint(err))
		}
		if err := atree.VerifyMap(cp, mkAddr(9), testutils.NewSimpleTypeInfo(keptMTI[i]), testutils.CompareTypeInfo, testutils.GetHashInput, true); err != nil {
			r.viol("C17: disposing of the source map damaged the copy", err.Error())
		}
	}
	if _, err := atree.CheckStorageHealth(w.St, extra); err != nil {
		r.viol("C17: storage health fails after disposing of the sources", err.Error())
	}
	if ids := w.LiveIDs(); len(ids) != extra {
		r.viol("C17: after disposing of the sources the storage does not hold exactly the copies", fmt.Sprintf("%d slabs, %d copies", len(ids), extra))
	}
	for _, cp := range keptA {
		c.disposeArray(cp)
	}
	for _, cp := range keptM {
		c.disposeMap(cp)
	}
	if ids := w.LiveIDs(); len(ids) != 0 {
		r.viol("C17: slabs remain after sources and copies were disposed of", fmt.Sprint(ids))
	}
}

// hand-built copy cases aimed at the inline boundary and at references hidden in wrappers
func (r *batchRun) copyHandBuilt(hr *Rng, which int) {
	base := NewLogBase()
	st := newStorage(base)
	addr := mkAddr(1)
	nRoots := 1
	c := &copyCtx{r: r, st: st, base: base, hr: hr, nRoot: func() int { return nRoots }}
	ti := func(n uint64) atree.TypeInfo { return testutils.NewSimpleTypeInfo(n) }
	parent, err := atree.NewArray(st, addr, ti(40))
	must(err)
	inlA := int(atree.MaxInlineArrayElementSize())
	switch which % 8 {
	case 0: // empty array, empty map
		c.checkArrayCopy(parent, 40, addr, func() { must(parent.Append(testutils.Uint64Value(1))) }, false)
		m, err := atree.NewMap(st, addr, atree.NewDefaultDigesterBuilder(), ti(50))
		must(err)
		nRoots++
		c.checkMapCopy(m, 50, mkAddr(9), nil, false)
	case 1: // a root slab filled up to just below the split
		for parent.IsWithinSingleSlab() {
			must(parent.Append(testutils.NewStringValue(randStr(hr, 1+hr.Intn(inlA-3)))))
			if h := atree.VerifArrayRootHeader(parent); int(h[1])+inlA > int(atree.VerifSettings()[2]) {
				break
			}
		}
		c.checkArrayCopy(parent, 40, mkAddr(9), func() { must(parent.Append(testutils.Uint64Value(1))) }, false)
	case 2, 3: // inlined child arrays of every size up to the inline limit
		child, err := atree.NewArray(st, addr, ti(41))
		must(err)
		must(parent.Append(child))
		for k := 0; k < 400; k++ {
			if !child.Inlined() {
				break
			}
			c.checkArrayCopy(child, 41, addr, nil, false)
			if r.failed {
				return
			}
			if which%8 == 2 {
				must(child.Append(testutils.Uint64Value(uint64(k))))
			} else {
				must(child.Append(testutils.NewStringValue(randStr(hr, 1+hr.Intn(9)))))
			}
		}
		c.checkArrayCopy(child, 41, addr, nil, false) // now standalone (referenced by the parent)
		c.checkArrayCopy(parent, 40, addr, nil, false)
	case 4: // reference hidden in a wrapper: Some(child that is too large to inline), Some(large string)
		child, err := atree.NewArray(st, addr, ti(41))
		must(err)
		nRoots++
		for k := 0; k < 200; k++ {
			must(child.Append(testutils.Uint64Value(uint64(k))))
		}
		must(parent.Append(testutils.Uint64Value(5)))
		c.checkArrayCopy(parent, 40, addr, nil, false)
		must(parent.Append(testutils.NewSomeValue(child)))
		nRoots--
		c.checkArrayCopy(parent, 40, addr, nil, false)
		p2, err := atree.NewArray(st, addr, ti(42))
		must(err)
		nRoots++
		must(p2.Append(testutils.NewSomeValue(testutils.NewSomeValue(testutils.NewStringValue(randStr(hr, inlA+50))))))
		c.checkArrayCopy(p2, 42, addr, nil, false)
		p3, err := atree.NewArray(st, addr, ti(42))
		must(err)
		nRoots++
		must(p3.Append(testutils.NewSomeValue(testutils.NewStringValue(randStr(hr, 5)))))
		c.checkArrayCopy(p3, 42, addr, nil, false)
	case 5: // multi-slab array and map: not offered, copy refused
		for parent.IsWithinSingleSlab() {
			must(parent.Append(testutils.Uint64Value(3)))
		}
		c.checkArrayCopy(parent, 40, addr, nil, false)
		m, err := atree.NewMap(st, addr, atree.NewDefaultDigesterBuilder(), ti(50))
		must(err)
		nRoots++
		for k := 0; m.IsWithinSingleSlab(); k++ {
			_, err := m.Set(testutils.CompareValue, testutils.GetHashInput, testutils.Uint64Value(uint64(k)), testutils.Uint64Value(1))
			must(err)
		}
		c.checkMapCopy(m, 50, addr, nil, false)
	case 6: // inlined child map growing up to the inline limit, inside a parent map
		pm, err := atree.NewMap(st, addr, atree.NewDefaultDigesterBuilder(), ti(50))
		must(err)
		nRoots++
		cm, err := atree.NewMap(st, addr, atree.NewDefaultDigesterBuilder(), ti(51))
		must(err)
		_, err = pm.Set(testutils.CompareValue, testutils.GetHashInput, testutils.Uint64Value(1), cm)
		must(err)
		for k := 0; k < 200; k++ {
			if !cm.Inlined() {
				break
			}
			c.checkMapCopy(cm, 51, addr, nil, false)
			if r.failed {
				return
			}
			_, err = cm.Set(testutils.CompareValue, testutils.GetHashInput, testutils.Uint64Value(uint64(k)), testutils.NewStringValue(randStr(hr, hr.Intn(6))))
			must(err)
		}
		c.checkMapCopy(cm, 51, addr, nil, false)
		c.checkMapCopy(pm, 50, addr, nil, false)
	default: // map with a large value / large key (references), with wrapped reference
		m, err := atree.NewMap(st, addr, atree.NewDefaultDigesterBuilder(), ti(50))
		must(err)
		nRoots++
		_, err = m.Set(testutils.CompareValue, testutils.GetHashInput, testutils.Uint64Value(1), testutils.Uint64Value(2))
		must(err)
		c.checkMapCopy(m, 50, addr, nil, false)
		var v atree.Value = testutils.NewStringValue(randStr(hr, int(atree.MaxInlineMapElementSize())+20))
		if hr.Bool() {
			v = testutils.NewSomeValue(v)
		}
		_, err = m.Set(testutils.CompareValue, testutils.GetHashInput, testutils.Uint64Value(2), v)
		must(err)
		c.checkMapCopy(m, 50, addr, nil, false)
		// keys colliding on EVERY digest level (last-level list mode) with a reference in a NON-first entry
		table := map[uint64][mpeLevels]uint64{}
		cm, err := atree.NewMap(st, addr, &mpeBuilder{table: table}, ti(51))
		must(err)
		nRoots++
		nk := 3 + hr.Intn(3)
		bigAt := 1 + hr.Intn(nk-1)
		for k := 0; k < nk; k++ {
			table[uint64(100+k)] = [mpeLevels]uint64{}
			var val atree.Value = testutils.Uint64Value(uint64(k))
			if k == bigAt {
				val = testutils.NewStringValue(randStr(hr, int(atree.MaxInlineMapElementSize())+30))
			}
			_, err = cm.Set(testutils.CompareValue, testutils.GetHashInput, testutils.Uint64Value(uint64(100+k)), val)
			must(err)
		}
		// the copy must not be offered (a reference sits in the group); checked once all entries are in,
		// because checkMapCopy would give an offered copy the default digester
		c.checkMapCopy(cm, 51, addr, nil, false)
	}
}

// ---------- part 4: byte conversions ----------

func (r *batchRun) byteConv(hr *Rng, maxBytes int) {
	env := newBatchEnv(1 + uint64(hr.Intn(2)))
	n := 0
	switch hr.Pick(10, 35, 35, 20) {
	case 0:
		n = hr.Intn(3)
	case 1:
		n = hr.Intn(min(maxBytes, 120) + 1)
	case 2:
		// around the single-slab boundary: the root slab holds about T/3.5 bytes
		n = max(0, int(r.T)/4-20+hr.Intn(int(r.T)/8+40))
	default:
		n = hr.Intn(maxBytes + 1)
	}
	data := make([]byte, n)
	kind := hr.Intn(4)
	for i := range data {
		switch kind {
		case 0:
			data[i] = byte(hr.Intn(24)) // 3-byte storables only
		case 1:
			data[i] = byte(24 + hr.Intn(232)) // 4-byte storables only
		default:
			data[i] = byte(hr.Intn(256))
		}
	}
	ests := []uint32{0, 0, 1, 2, 3, 4, 5, 100}
	est := ests[hr.Intn(len(ests))]
	for k := hr.Intn(3); k > 0; k-- {
		_, _ = env.base.GenerateSlabID(env.addr)
	}
	ti := uint64(40 + hr.Intn(3))
	alloc0 := env.base.LastIndex(env.addr)
	liveBefore := env.live()
	env.rec.Log = env.rec.Log[:0]
	r.rep.Op("bytes_to_array")
	arr, err := atree.ByteSliceToByteArray[testutils.Uint8Value](env.rec, env.addr, testutils.NewSimpleTypeInfo(ti), data, est)
	op := []int64{2, int64(alloc0), int64(ti), int64(est), int64(n)}
	ids := make([]int64, n)
	for i, b := range data {
		op = append(op, int64(b))
		ids[i] = int64(b)
	}
	if err != nil {
		r.viol("C17: ByteSliceToByteArray failed", fmt.Sprintf("n=%d est=%d: %v", n, est, err))
		r.tr.Step(op, []int64{-1})
		return
	}
	log := append([]int64(nil), env.rec.Log...)
	d := r.checkBuiltArray(env, arr, ids, ti, alloc0, liveBefore, 1, log, "byte slice to byte array")
	if d == nil {
		r.tr.Step(op, []int64{-2})
		return
	}
	obs := []int64{int64(env.base.LastIndex(env.addr)), int64(len(log) / 2)}
	obs = append(obs, log...)
	obs = append(obs, d...)
	r.tr.Step(op, obs)
	if arr.IsWithinSingleSlab() {
		r.rep.Event("bytes_single_slab")
	} else {
		r.rep.Event("bytes_multi_slab")
		r.rep.Distinct(fmt.Sprintf("y/%d/%d/%d", r.T, n, est))
	}
	// back
	r.rep.Op("array_to_bytes")
	back, err := atree.ByteArrayToByteSlice[testutils.Uint8Value](arr)
	if err != nil {
		r.viol("C17: ByteArrayToByteSlice failed on a byte array", err.Error())
		return
	}
	if string(back) != string(data) {
		r.viol("C17: byte slice -> byte array -> byte slice is not the identity", fmt.Sprintf("n=%d est=%d got %d bytes", n, est, len(back)))
		return
	}
	// an array built by individual appends converts to the same bytes and back to an equal array
	arr2, err := atree.NewArray(env.st, env.addr, testutils.NewSimpleTypeInfo(ti))
	must(err)
	for _, b := range data {
		must(arr2.Append(testutils.Uint8Value(b)))
	}
	// some churn so that the leaves are not in append-only shape
	for k := 0; k < 5 && n > 2; k++ {
		i := uint64(hr.Intn(n))
		s, err := arr2.Remove(i)
		must(err)
		must(arr2.Insert(i, s.(testutils.Uint8Value)))
	}
	back2, err := atree.ByteArrayToByteSlice[testutils.Uint8Value](arr2)
	if err != nil || string(back2) != string(data) {
		r.viol("C17: ByteArrayToByteSlice on an array built by individual operations differs from its content", fmt.Sprintf("n=%d: %v", n, err))
		return
	}
	arr3, err := atree.ByteSliceToByteArray[testutils.Uint8Value](env.st, env.addr, testutils.NewSimpleTypeInfo(ti), back2, est)
	if err != nil {
		r.viol("C17: ByteSliceToByteArray failed", err.Error())
		return
	}
	v2, _ := arrValues(arr2)
	v3, _ := arrValues(arr3)
	if strings.Join(v2, ";") != strings.Join(v3, ";") {
		r.viol("C17: byte array -> byte slice -> byte array does not reproduce the content", fmt.Sprintf("n=%d", n))
	}
	if err := atree.VerifyArray(arr3, env.addr, testutils.NewSimpleTypeInfo(ti), testutils.CompareTypeInfo, testutils.GetHashInput, true); err != nil {
		r.viol("C17: byte array built from a byte slice is not a valid array", err.Error())
	}
	if _, err := atree.CheckStorageHealth(env.st, 3); err != nil {
		r.viol("C17: storage health fails after byte conversions", err.Error())
	}
	// independence: mutate the converted array, the other two are unaffected
	fp2 := arrFingerprint(arr2)
	fp1 := arrFingerprint(arr)
	if n > 0 {
		_, err = arr3.Set(uint64(hr.Intn(n)), testutils.Uint8Value(7))
		must(err)
		must(arr3.Append(testutils.Uint8Value(9)))
	}
	if arrFingerprint(arr2) != fp2 || arrFingerprint(arr) != fp1 {
		r.viol("C17: mutating a converted byte array changed another array", "")
	}
	// a non-byte element is rejected with UnexpectedElementTypeError
	if n > 0 {
		r.rep.Op("array_to_bytes_wrong_type")
		pos := uint64(hr.Intn(n))
		_, err = arr2.Set(pos, testutils.Uint64Value(3))
		must(err)
		_, err = atree.ByteArrayToByteSlice[testutils.Uint8Value](arr2)
		var ue *atree.UnexpectedElementTypeError
		if err == nil {
			r.viol("C17: ByteArrayToByteSlice accepted an array with a non-byte element", fmt.Sprintf("n=%d pos=%d", n, pos))
		} else if !asErr(err, &ue) {
			r.viol("C17: non-byte element is not reported as UnexpectedElementTypeError", err.Error())
		} else {
			r.rep.Err("UnexpectedElementTypeError")
		}
	}
}

// ---------- command ----------

func cmdBatch(a Args) {
	rep := NewReport(a.Prop, a.Seed)
	rep.Rule = "(1) -n element streams through NewArrayFromBatchData at slab sizes {256,257,300,512,1024,4096}: six size mixes (small; at the inline limit; random; alternating tiny/huge; with externalised strings; sizes that hit the target size exactly), lengths = per stream family the lengths that fill exactly j leaves (j around 1..3, k*maxHeaders, maxHeaders^2) -2..+2 plus random lengths up to -steps*10; result compared with the Coq model (whole slab tree with identifiers, allocator, Store sequence) and checked by content, Get, sibling-link traversal, VerifyArray, health, identifier freshness, stored-set = result-set, later mutation and disposal. (2) n/5 maps copied through NewMapFromBatchData (default digester or table digester with collisions; same or other storage): content, order, seed, VerifyMap, health, element structure equal to the source's, freshness, independence, disposal of the source; unsorted / duplicate / zero seed rejected with the documented errors. (3) n/10 random nested histories + 8 hand-built families: every live container queried with CanCopyNonRefSimple against the harness's own predicate, copied when offered (content, validity, fresh root, not inlined, independence both ways, disposal both ways), refused with CopyError otherwise. (4) 2n/3 byte conversions both ways incl. the single-slab fast path boundary, arrays built by individual operations, and a non-byte element. non-trivial = result has at least two leaves"
	tr := NewTrace(a.Out + "/trace.txt")
	rng := NewRng(a.Seed)
	defer atree.VerifSetThreshold(1024)
	r := &batchRun{rep: rep, tr: tr}
	maxLen := a.Steps * 10
	part := func(p string) bool { return a.Mode == "" || a.Mode == p }

	if a.Mode == "life" {
		// life after bulk construction (batchlife.go); a mode of its own: nothing is written to the trace
		rep.Rule = lifeRule
		r.runLife(a, rng.Fork(5), maxLen)
	}
	if part("array") {
		r.runArrayStreams(a, rng.Fork(1), maxLen)
	}
	if part("map") {
		mr := rng.Fork(2)
		nm := max(40, a.N/5)
		for k := 0; k < nm; k++ {
			hr := mr.Fork(uint64(k))
			tag := fmt.Sprintf("bm%d", k)
			if !want(tag) {
				continue
			}
			r.hist, r.tag, r.failed = 100000+k, tag, false
			r.T = batchSizes[hr.Intn(len(batchSizes))]
			atree.VerifSetThreshold(r.T)
			r.guard(func() { r.mapBatch(hr, min(maxLen, 3000)) })
		}
	}
	if part("copy") {
		cr := rng.Fork(3)
		nc := max(24, a.N/10)
		for k := 0; k < nc; k++ {
			hr := cr.Fork(uint64(k))
			tag := fmt.Sprintf("bc%d", k)
			if !want(tag) {
				continue
			}
			r.hist, r.tag, r.failed = 200000+k, tag, false
			r.T = batchSizes[hr.Intn(len(batchSizes))]
			atree.VerifSetThreshold(r.T)
			if k < 16 {
				r.guard(func() { r.copyHandBuilt(hr, k) })
			} else {
				r.guard(func() { r.copyWorld(hr, 30+hr.Intn(40)) })
			}
		}
	}
	if part("bytes") {
		br := rng.Fork(4)
		nb := max(200, a.N*2/3)
		for k := 0; k < nb; k++ {
			hr := br.Fork(uint64(k))
			tag := fmt.Sprintf("by%d", k)
			if !want(tag) {
				continue
			}
			r.hist, r.tag, r.failed = 300000+k, tag, false
			r.T = batchSizes[hr.Intn(len(batchSizes))]
			atree.VerifSetThreshold(r.T)
			tr.Hist(tag, uint64(r.T))
			r.guard(func() { r.byteConv(hr, min(5000, maxLen*2)) })
		}
	}
	tr.Close()
	rep.Histories = tr.Hists + r.lifeHists
	rep.Steps = tr.Steps + r.lifeSteps
	rep.Write(a.Out + "/report.json")
}
