//go:build verif

package main

// maptree_sizes.go — `maptree -mode sizes`: the lock-step histories of maptree_cmd.go (same trace
// format, engine `maptree`, same oracles) generated for the slab-size arithmetic of the INDEX
// level:
//
//   * slab size per history from the whole legal range (uniform [256,2000], sizes where a map or
//     array index slab overflows at an even child count, the family 283+36k where the minimum and
//     maximum child counts of a map index slab leave no slack, the classic sizes and neighbours);
//   * fat values (two or three pairs per data slab) under distinct level-0 digests: three levels
//     from about a hundred keys, with spare keys everywhere in the digest space;
//   * RUNS of removals/insertions confined to the digest range of ONE slab of the live tree
//     (an index slab or a data slab; ascending, descending or random inside the range);
//   * PAIR rounds on two neighbouring non-root index slabs (I,J): J is first brought to a chosen
//     number of children c (c from: minimum, minimum+1, the smallest count with which a merge with
//     an underflowing neighbour no longer fits and its neighbours, maximum, uniform), then I (the
//     first or last child of its parent in most rounds) is shrunk key by key until it underflows
//     and the index level merges or rebalances;
//   * EXACT rounds: a value of one pair is replaced by one whose size makes the data slab land
//     exactly on min-1 / min / max / max+1 or underflow by exactly the neighbour's boundary pair;
//   * commits at a per-history density and reopen-from-ledger checks right after operations that
//     split, merged or rebalanced slabs.
//
// Additional model-independent oracle: every slab stored by an operation reports exactly the
// number of bytes it is encoded to (C06); VerifyMap right after every structural operation.

import (
	"fmt"
	"sort"

	"github.com/onflow/atree"
	testutils "github.com/onflow/atree/test_utils"
)

type mapSizes struct {
	forceV     uint64
	set        [6]uint32
	structural bool
	curH       int
	ops        int
	budget     int
	reopenP    int
	minc, maxc int // child counts of a non-root index slab inside the size band
	nPair      int
	nPairDone  int
	nExact     int
	lastIndex  int
	idxSplit   bool
	idxMerge   bool
	nStruct    int
	nViol0     int  // violations reported before this history
	needGrow   bool // no index slab with two siblings left: grow before the next pair round
}

// valueOfSize builds a value whose storable has exactly n bytes where possible.
func (r *mtrRun) valueOfSize(k *mtrKey, n uint64) (atree.Value, uint64, uint64) {
	vmax := r.maxInline - k.ksz - 1
	if n > vmax {
		n = vmax
	}
	if n < 1 {
		n = 1
	}
	r.vctr++
	c := r.vctr
	mk := func(vid uint64) (atree.Value, uint64, uint64) {
		v := testutils.Uint64Value(vid)
		return v, vid, uint64(v.ByteSize())
	}
	head := fmt.Sprintf("%d|", c)
	l := int(n) - 1
	if n > 24 {
		l = int(n) - 2
	}
	if n > 257 {
		l = int(n) - 3
	}
	if n == 25 {
		l = 23
	}
	if n == 258 {
		l = 255
	}
	if l >= len(head) {
		v := testutils.NewStringValue(head + mpePad(r.rng, l-len(head)))
		return v, c, uint64(v.ByteSize())
	}
	switch {
	case n >= 9:
		return mk(1<<33 + c)
	case n >= 5:
		return mk(70000 + c)
	case n >= 3:
		return mk(256 + c%65280)
	case n == 2:
		return mk(24 + c%232)
	}
	return mk(c % 24)
}

// ---------- the slab tree as seen through the hooks (headers only) ----------

type msNode struct {
	id     atree.SlabID
	size   uint32
	lo     uint64 // level-0 digests routed to this slab: lo <= d < hi (hiOpen: no upper bound)
	hi     uint64
	hiOpen bool
	depth  int
	leaf   bool
	kids   []*msNode
	parent *msNode
	pos    int
}

func (n *msNode) has(d uint64) bool { return d >= n.lo && (n.hiOpen || d < n.hi) }

type msTree struct {
	root   *msNode
	height int
	index  []*msNode
	leaves []*msNode
	bad    string // first disagreement between a child header and the child slab's own header
}

// bandCheck: every slab inside the size band, root index slab with two children, child headers
// equal to the children's own headers (cheap structural check between two VerifyMap runs).
func (r *mtrRun) bandCheck(t *msTree) string {
	if t.bad != "" {
		return t.bad
	}
	minT, maxT := r.sz.set[1], r.sz.set[2]
	all := append(append([]*msNode{}, t.index...), t.leaves...)
	for _, x := range all {
		if x.size > maxT {
			return fmt.Sprintf("slab %s of %d bytes is larger than the maximum %d", x.id, x.size, maxT)
		}
		if x.parent != nil && x.size < minT {
			return fmt.Sprintf("non-root slab %s of %d bytes is smaller than the minimum %d", x.id, x.size, minT)
		}
		if x.parent == nil && !x.leaf && len(x.kids) < 2 {
			return fmt.Sprintf("root index slab %s has %d children", x.id, len(x.kids))
		}
	}
	return ""
}

func (t *msTree) find(id atree.SlabID) *msNode {
	for _, x := range t.index {
		if x.id == id {
			return x
		}
	}
	for _, x := range t.leaves {
		if x.id == id {
			return x
		}
	}
	return nil
}

func (r *mtrRun) skeleton() *msTree {
	t := &msTree{}
	rootSlab := atree.VerifMapRoot(r.m)
	h := atree.VerifMapRootHeader(r.m)
	t.root = &msNode{id: rootSlab.SlabID(), size: uint32(h[1]), hiOpen: true}
	var rec func(n *msNode, slab atree.Slab)
	rec = func(n *msNode, slab atree.Slab) {
		if n.depth+1 > t.height {
			t.height = n.depth + 1
		}
		kind, self, children, _ := atree.VerifMetaHeaders(slab)
		if n.parent != nil && t.bad == "" {
			own := slab.ByteSize()
			if kind == 3 {
				own = self.Size
			}
			if own != n.size {
				t.bad = fmt.Sprintf("index slab %s records size %d for child %s whose size is %d", n.parent.id, n.size, n.id, own)
			}
		}
		if kind != 3 {
			n.leaf = true
			t.leaves = append(t.leaves, n)
			return
		}
		t.index = append(t.index, n)
		for i, c := range children {
			k := &msNode{id: c.ID, size: c.Size, lo: c.FirstKey, hi: n.hi, hiOpen: n.hiOpen, depth: n.depth + 1, parent: n, pos: i}
			if i == 0 {
				k.lo = n.lo
			}
			if i+1 < len(children) {
				k.hi, k.hiOpen = children[i+1].FirstKey, false
			}
			n.kids = append(n.kids, k)
		}
		for _, k := range n.kids {
			s, ok, err := r.st.Retrieve(k.id)
			if err != nil || !ok {
				panic(fmt.Sprintf("skeleton: child slab %s cannot be retrieved: %v", k.id, err))
			}
			rec(k, s)
		}
	}
	rec(t.root, rootSlab)
	r.sz.curH = t.height
	return t
}

// liveIn / deadIn: the stored (not stored) pool keys routed to the slab, ascending by digest.
func (r *mtrRun) liveIn(n *msNode) []*mtrKey {
	var out []*mtrKey
	for _, k := range r.live {
		if n.has(k.d[0]) {
			out = append(out, k)
		}
	}
	sort.Slice(out, func(i, j int) bool { return out[i].d[0] < out[j].d[0] })
	return out
}

func (r *mtrRun) deadIn(n *msNode) []*mtrKey {
	var out []*mtrKey
	for _, k := range r.pool {
		if _, ok := r.shadow[k.id]; !ok && n.has(k.d[0]) {
			out = append(out, k)
		}
	}
	sort.Slice(out, func(i, j int) bool { return out[i].d[0] < out[j].d[0] })
	return out
}

func (r *mtrRun) arrange(keys []*mtrKey, order int) []*mtrKey {
	switch order {
	case 1:
		for i, j := 0, len(keys)-1; i < j; i, j = i+1, j-1 {
			keys[i], keys[j] = keys[j], keys[i]
		}
	case 2:
		for i := len(keys) - 1; i > 0; i-- {
			j := r.rng.Intn(i + 1)
			keys[i], keys[j] = keys[j], keys[i]
		}
	}
	return keys
}

// ---------- oracles ----------

// c06Check: the slab reports exactly the bytes it is encoded to and decodes to the same size.
func c06Check(slab atree.Slab) (what, detail string) {
	id := slab.SlabID()
	sec, err := atree.VerifEncodeSections(slab, encMode)
	if err != nil {
		return "C07: a slab visible in storage cannot be encoded", fmt.Sprintf("%s: %v", id, err)
	}
	kind := atree.VerifSlabKind(slab)
	hasExtra := atree.VerifSlabHasExtraData(slab)
	omitted := 0
	if (kind == 1 || kind == 3 || kind == 6) && !hasExtra && !sec.HasNext {
		omitted = 16 // the empty sibling link of a non-root data slab is accounted for but not written
	}
	written := sec.Total - sec.EncExtraData - sec.EncInlinedExtraData
	reported := int(slab.ByteSize())
	if written+omitted != reported {
		return "C06: reported slab size differs from the bytes written",
			fmt.Sprintf("slab %s (kind %d) reports %d bytes, encoding %d - extra data %d + omitted sibling link %d = %d",
				id, kind, reported, sec.Total, sec.EncExtraData+sec.EncInlinedExtraData, omitted, written+omitted)
	}
	d, err := atree.DecodeSlab(id, sec.Bytes, decMode, testutils.DecodeStorable, testutils.DecodeTypeInfo)
	if err != nil {
		return "C07: an encoding produced by the library cannot be decoded", fmt.Sprintf("%s: %v", id, err)
	}
	if d.ByteSize() != slab.ByteSize() {
		return "C06: slab decoded from its own encoding reports a different size than the in-memory slab",
			fmt.Sprintf("slab %s (kind %d): %d vs %d", id, kind, d.ByteSize(), slab.ByteSize())
	}
	return "", ""
}

// sizesLogHook runs on the write log of a successful mutation (before it is cleared).
func (r *mtrRun) sizesLogHook(removes int, allocated bool) {
	z := r.sz
	z.structural = removes > 0 || allocated
	seen := map[int64]bool{}
	for k := 0; k+1 < len(r.rec.Log); k += 2 {
		if r.rec.Log[k] != 1 || seen[r.rec.Log[k+1]] {
			continue
		}
		seen[r.rec.Log[k+1]] = true
		slab, ok, err := r.st.Retrieve(sidOf(r.addr, r.rec.Log[k+1]))
		if err != nil || !ok || slab == nil {
			continue
		}
		var what, detail string
		_, pan := mpeCall(func() error { what, detail = c06Check(slab); return nil })
		if pan {
			what, detail = "C07: panic while encoding/decoding a stored slab", slab.SlabID().String()
		}
		if what != "" {
			r.viol(what, "stored by the operation: "+detail)
		}
	}
	if len(seen) > max(z.curH, 1) {
		z.structural = true // more slabs than one root-to-leaf path: a rebalance
	}
}

func (r *mtrRun) szAfter() {
	z := r.sz
	z.ops++
	if len(r.rep.Violations) > z.nViol0 {
		r.dead = true // one report per history
	}
	if r.dead {
		return
	}
	if z.structural {
		z.structural = false
		t := r.skeleton()
		if bad := r.bandCheck(t); bad != "" {
			r.viol("C05: a slab left its size band / index data disagrees with the slab it summarises, right after a split, merge or rebalance", bad)
			r.dead = true
			return
		}
		z.nStruct++
		if len(t.index) != z.lastIndex || z.nStruct%8 == 0 {
			err, pan := mpeCall(func() error {
				return atree.VerifyMap(r.m, r.addr, r.ti, testutils.CompareTypeInfo, testutils.GetHashInput, true)
			})
			if err != nil {
				r.viol("C05: VerifyMap failed right after an operation that split, merged or rebalanced slabs", fmt.Sprintf("panic=%v %v", pan, err))
				r.dead = true
				return
			}
		}
		if n := len(t.index); z.lastIndex != 0 && n != z.lastIndex {
			if n > z.lastIndex {
				z.idxSplit = true
				r.rep.Event("ops_splitting_an_index_slab")
			} else {
				z.idxMerge = true
				r.rep.Event("ops_merging_index_slabs_or_dropping_a_level")
			}
		}
		z.lastIndex = len(t.index)
		if t.height > r.maxH {
			r.maxH = t.height
		}
		if r.rng.Intn(100) < z.reopenP && len(r.rep.Violations) == z.nViol0 {
			r.reopen(r.rng.Chance(6))
		}
	}
}

func (r *mtrRun) left() int { return r.sz.budget - r.sz.ops }

func (r *mtrRun) szSet(k *mtrKey, vsize uint64) {
	r.sz.structural = false
	r.sz.forceV = vsize
	r.doSet(k)
	r.sz.forceV = 0
	r.szAfter()
}

func (r *mtrRun) szRemove(k *mtrKey) {
	r.sz.structural = false
	r.doRemove(k)
	r.szAfter()
}

// ---------- rounds ----------

func (r *mtrRun) pickNode(t *msTree) *msNode {
	rng := r.rng
	var inner []*msNode
	for _, x := range t.index {
		if x.parent != nil {
			inner = append(inner, x)
		}
	}
	if len(inner) > 0 && rng.Chance(55) {
		x := inner[rng.Intn(len(inner))]
		if rng.Chance(50) { // first / last child of its parent
			if rng.Bool() {
				x = x.parent.kids[0]
			} else {
				x = x.parent.kids[len(x.parent.kids)-1]
			}
		}
		return x
	}
	x := t.leaves[rng.Intn(len(t.leaves))]
	if x.parent != nil && rng.Chance(50) {
		if rng.Bool() {
			x = x.parent.kids[0]
		} else {
			x = x.parent.kids[len(x.parent.kids)-1]
		}
	}
	return x
}

func (r *mtrRun) shrinkRun(n *msNode, order int, L int) {
	r.rep.Event("run_remove")
	keys := r.arrange(r.liveIn(n), order)
	for i := 0; i < len(keys) && i < L && !r.dead && r.left() > 0; i++ {
		r.szRemove(keys[i])
	}
}

func (r *mtrRun) growRun(n *msNode, order int, L int) int {
	r.rep.Event("run_insert")
	keys := r.arrange(r.deadIn(n), order)
	i := 0
	for ; i < len(keys) && i < L && !r.dead && r.left() > 0; i++ {
		r.szSet(keys[i], 0)
	}
	return i
}

// pairRound: two neighbouring non-root index slabs; the neighbour is brought to a chosen number
// of children, then the other one is shrunk until the index level has to merge or rebalance.
func (r *mtrRun) pairRound() bool {
	rng := r.rng
	z := r.sz
	t := r.skeleton()
	var cand []*msNode
	for _, x := range t.index {
		// three or more siblings: a merge below the root does not end in a promotion (which re-splits)
		if x.parent != nil && len(x.parent.kids) >= 3 && len(x.kids) > 0 && x.kids[0].leaf {
			cand = append(cand, x)
		}
	}
	if len(cand) == 0 {
		z.needGrow = true
		return false
	}
	z.nPair++
	r.rep.Event("pair_round")
	I := cand[rng.Intn(len(cand))]
	side := 0
	switch rng.Pick(50, 30, 20) {
	case 0:
		I = I.parent.kids[0]
	case 1:
		I = I.parent.kids[len(I.parent.kids)-1]
	}
	var J *msNode
	switch {
	case I.pos == 0:
		J = I.parent.kids[1]
	case I.pos == len(I.parent.kids)-1:
		J = I.parent.kids[I.pos-1]
		side = 1
	default:
		if rng.Bool() {
			J = I.parent.kids[I.pos+1]
		} else {
			J = I.parent.kids[I.pos-1]
			side = 1
		}
	}
	// target child count of the neighbour
	fit := z.maxc + 1 - (z.minc - 1) // smallest count with which a merge with an underflowing slab no longer fits
	var c int
	switch rng.Pick(14, 14, 30, 10, 10, 8, 14) {
	case 0:
		c = z.minc
	case 1:
		c = z.minc + 1
	case 2:
		c = fit
	case 3:
		c = fit - 1
	case 4:
		c = fit + 1
	case 5:
		c = z.maxc
	default:
		c = z.minc + rng.Intn(z.maxc-z.minc+1)
	}
	if c < z.minc {
		c = z.minc
	}
	if c > z.maxc {
		c = z.maxc
	}
	idI, idJ := I.id, J.id
	// 1. bring J to c children
	for tries := 0; tries < 60 && !r.dead && r.left() > 0; tries++ {
		t = r.skeleton()
		J = t.find(idJ)
		if J == nil || J.leaf || J.parent == nil || t.find(idI) == nil {
			return false
		}
		if len(J.kids) == c {
			break
		}
		if len(J.kids) < c {
			if r.growRun(J, 2, 1+rng.Intn(3)) == 0 {
				return false // no spare keys in this range
			}
		} else {
			// consume one data slab of J: remove the pairs of a child next to a sibling it can merge into
			kid := J.kids[rng.Intn(len(J.kids))]
			r.shrinkRun(kid, rng.Intn(2), 1+rng.Intn(2))
		}
	}
	t = r.skeleton()
	I, J = t.find(idI), t.find(idJ)
	if I == nil || J == nil || I.leaf || J.leaf || len(J.kids) != c || I.parent == nil || J.parent != I.parent {
		return false
	}
	r.rep.Event(fmt.Sprintf("pair_round_neighbour_ready(c-fit=%+d)", max(min(c-fit, 2), -2)))
	// 2. shrink I until the index level reacts
	order := side // first child: ascending from its lowest key; last child: descending
	if rng.Chance(25) {
		order = 1 - order
	}
	keys := r.arrange(r.liveIn(I), order)
	nI := len(I.kids)
	for _, k := range keys {
		if r.dead || r.left() <= 0 {
			return false
		}
		r.szRemove(k)
		t = r.skeleton()
		I2, J2 := t.find(idI), t.find(idJ)
		if I2 == nil || J2 == nil || len(J2.kids) != c || I2.leaf || len(I2.kids) > nI {
			z.nPairDone++
			r.rep.Event("pair_round_index_level_reacted")
			return true
		}
		nI = len(I2.kids)
	}
	return false
}

// exactRound: one pair's value is replaced so that its data slab lands exactly where the size
// comparisons change their answer.
func (r *mtrRun) exactRound() {
	rng := r.rng
	z := r.sz
	t := r.skeleton()
	if len(t.leaves) < 2 {
		return
	}
	z.nExact++
	r.rep.Event("exact_round")
	d := t.leaves[rng.Intn(len(t.leaves))]
	if rng.Chance(50) {
		if rng.Bool() {
			d = d.parent.kids[0]
		} else {
			d = d.parent.kids[len(d.parent.kids)-1]
		}
	}
	minT, maxT := int(z.set[1]), int(z.set[2])
	pairSize := func(k *mtrKey) int { return 8 + 1 + int(k.ksz) + int(r.shadow[k.id].vsz) }
	var targets []int
	add := func(x, w int) {
		for ; w > 0; w-- {
			targets = append(targets, x)
		}
	}
	add(minT-1, 2)
	add(minT, 2)
	add(maxT, 2)
	add(maxT+1, 2)
	if d.pos > 0 {
		if ks := r.liveIn(d.parent.kids[d.pos-1]); len(ks) > 0 {
			x := pairSize(ks[len(ks)-1])
			add(minT-x, 3)
			add(minT-x-1, 1)
			add(minT-x+1, 1)
		}
	}
	if d.pos+1 < len(d.parent.kids) {
		if ks := r.liveIn(d.parent.kids[d.pos+1]); len(ks) > 0 {
			x := pairSize(ks[0])
			add(minT-x, 3)
			add(minT-x-1, 1)
			add(minT-x+1, 1)
		}
	}
	target := targets[rng.Intn(len(targets))]
	id := d.id
	for try := 0; try < 5 && !r.dead && r.left() > 0; try++ {
		t = r.skeleton()
		cur := t.find(id)
		if cur == nil || !cur.leaf || cur.parent == nil {
			return
		}
		keys := r.liveIn(cur)
		if len(keys) == 0 {
			return
		}
		size := int(cur.size)
		if size == target {
			return
		}
		k := keys[rng.Intn(len(keys))]
		vsz := int(r.shadow[k.id].vsz)
		want := vsz + target - size
		vmax := int(r.maxInline) - int(k.ksz) - 1
		if want >= 1 && want <= vmax {
			r.rep.Event("exact_set")
			r.szSet(k, uint64(want))
			return
		}
		if target > size {
			// a new pair inside the slab's range, or the largest value for this key
			if dk := r.deadIn(cur); len(dk) > 0 && rng.Bool() {
				nk := dk[rng.Intn(len(dk))]
				need := target - size - 9 - int(nk.ksz)
				if need < 1 {
					need = 1
				}
				r.szSet(nk, uint64(need))
			} else {
				r.szSet(k, uint64(vmax))
			}
		} else {
			if rng.Bool() {
				r.szSet(k, 1)
			} else {
				r.szRemove(k)
			}
		}
	}
}

// ---------- one history ----------

func (r *mtrRun) setupSizes(steps int) bool {
	rng := r.rng
	z := r.sz
	lib := mpeReadLibDefaultLimit()
	r.T = sizesPickT(rng, true)
	if r.T > 2000 {
		r.T = 256 + uint32(rng.Intn(1200)) // three levels must stay affordable for maps
	}
	r.limit = 255
	z.set = atree.VerifSetThreshold(r.T)
	r.maxInline, r.maxKey = uint64(z.set[4]), uint64(z.set[5])
	r.defLimit = rng.Bool()
	if r.defLimit {
		atree.VerifSetMaxCollisionLimitPerDigest(lib)
	} else {
		atree.VerifSetMaxCollisionLimitPerDigest(uint32(r.limit))
	}
	for n := 1; n < 4000; n++ {
		s := uint32(12 + 18*n)
		if z.minc == 0 && s >= z.set[1] {
			z.minc = n
		}
		if s <= z.set[2] {
			z.maxc = n
		}
	}
	r.profile = rng.Pick(0, 25, 75)
	r.durq = []int{0, 1, 5, 20}[rng.Pick(30, 35, 25, 10)]
	r.stretchP = []int{0, 3, 10}[rng.Pick(55, 35, 10)]
	z.reopenP = []int{0, 2, 6, 20}[rng.Pick(20, 40, 30, 10)]
	z.budget = steps

	// keys: enough for three levels with three index slabs below the root, and as many spare ones
	over := sizesMapOverflowCount(r.T)
	nk := over * 16
	if nk < 400 {
		nk = 400
	}
	if nk > 1600 {
		nk = 1600
	}
	used := map[uint64]bool{}
	keyLimit := r.maxKey
	if r.maxKey > 255 {
		r.maxKey = 255 // newKey sizes its longest string keys with a 2-byte CBOR head
	}
	for i := 0; i < nk; i++ {
		r.pool = append(r.pool, r.newKey(used))
	}
	// distinct level-0 digests (uniform or sequential): no collision groups, tall tree
	for _, k := range r.pool {
		for l := 1; l < mpeLevels; l++ {
			k.d[l] = rng.U64()
		}
	}
	if rng.Chance(75) {
		r.mode = "distinct"
		d0 := mtrDistinct(rng, nk, true)
		for i, k := range r.pool {
			k.d[0] = d0[i]
		}
	} else {
		r.mode = "sequential"
		stride := []uint64{1, 3, 1000, 1 << 40}[rng.Intn(4)]
		base := []uint64{0, 1, 1<<63 - uint64(nk)*stride/2, ^uint64(0) - uint64(nk)*stride + stride}[rng.Intn(4)]
		for i, k := range r.pool {
			k.d[0] = base + uint64(i)*stride
		}
	}
	r.genProbes(used)
	r.maxKey = keyLimit
	r.b = &mpeBuilder{table: map[uint64][mpeLevels]uint64{}}
	for _, k := range r.pool {
		r.b.table[k.id] = k.d
	}
	for _, k := range r.probes {
		r.b.table[k.id] = k.d
	}
	r.ins = append([]*mtrKey{}, r.pool...)
	r.order = "random"
	for i := len(r.ins) - 1; i > 0; i-- {
		j := rng.Intn(i + 1)
		r.ins[i], r.ins[j] = r.ins[j], r.ins[i]
	}
	r.base = NewLogBase()
	r.st = newStorage(r.base)
	r.rec = &RecStorage{In: r.st}
	r.addr = mkAddr(1 + uint64(rng.Intn(3)))
	r.ti = testutils.NewSimpleTypeInfo(42)
	r.livePos = map[uint64]int{}
	r.shadow = map[uint64]*mtrEntry{}
	err, pan := mpeCall(func() error {
		var e error
		r.m, e = atree.NewMap(r.rec, r.addr, r.b, r.ti)
		return e
	})
	if err != nil {
		r.unexpected("NewMap", err, pan)
		return false
	}
	r.rec.Log = r.rec.Log[:0]
	return true
}

func (r *mtrRun) runSizes(steps int) {
	rng := r.rng
	z := r.sz
	if !r.setupSizes(steps) {
		return
	}
	r.tr.Hist(r.tag, uint64(r.T), r.maxInline, r.limit, mpeLevels, r.m.SlabID().IndexAsUint64())
	nk := len(r.pool)
	// 1. growth in random digest order until three levels with three index slabs below the root
	for !r.dead && z.ops < z.budget/2 && len(r.shadow) < nk/2 {
		t := r.skeleton()
		if t.height >= 3 && len(t.root.kids) >= 4 {
			break
		}
		for i := 0; i < 16 && !r.dead; i++ {
			if k := r.pickDead(); k != nil {
				r.szSet(k, 0)
			}
		}
	}
	if !r.dead {
		r.checkpoint()
	}
	// 2. directed rounds
	for !r.dead && r.left() > 0 {
		t := r.skeleton()
		n := len(r.shadow)
		wIns, wRem := 22, 22
		if t.height >= 3 && len(t.root.kids) >= 4 {
			z.needGrow = false
		}
		if t.height < 3 || n < nk/8 || (z.needGrow && n < nk/2) {
			wIns, wRem = 45, 4
		} else if n > nk*3/5 {
			wIns, wRem = 8, 40
		}
		switch rng.Pick(wIns, wRem, 30, 16, 6, 2, 2) {
		case 0:
			x := r.pickNode(t)
			L := 2 + rng.Intn(30)
			if r.growRun(x, rng.Intn(3), L) == 0 {
				if k := r.pickDead(); k != nil {
					r.szSet(k, 0)
				}
			}
		case 1:
			x := r.pickNode(t)
			c := len(r.liveIn(x))
			r.shrinkRun(x, rng.Intn(3), 1+c/3+rng.Intn(c+1))
		case 2:
			if !r.pairRound() && !r.dead {
				for i := 0; i < 4 && !r.dead; i++ {
					r.randomOp(0, 0)
					z.ops++
				}
			}
		case 3:
			r.exactRound()
		case 4:
			for i := 0; i < 6 && !r.dead; i++ {
				r.randomOp(1, 0)
				z.ops++
			}
		case 5:
			if r.commit() {
				r.rep.Event("commit")
			}
			z.ops++
		default:
			if len(r.rep.Violations) == z.nViol0 {
				r.reopen(rng.Chance(10))
			}
			z.ops++
		}
	}
	if !r.dead {
		r.checkpoint()
		r.reopenCheck()
	}
	// 3. shrink to empty in ascending / descending / random digest order
	dir := rng.Intn(3)
	for k := 0; k < nk*3 && !r.dead && len(r.shadow) > 0; k++ {
		if v := r.pickVictim(dir); v != nil {
			r.szRemove(v)
		}
	}
	if !r.dead {
		r.checkpoint()
	}
	// the emptied map remains usable
	for i := 0; i < 12 && !r.dead; i++ {
		if k := r.pickDead(); k != nil {
			r.szSet(k, 0)
		}
	}
	if !r.dead {
		r.checkpoint()
		r.doPop()
	}
}

func cmdMapTreeSizes(a Args) {
	tr := NewTrace(a.Out + "/trace.txt")
	rep := NewReport(a.Prop, a.Seed)
	rep.Rule = "one OrderedMap per history for the slab-size arithmetic of the index level (same trace and oracles as the default mode): slab size from uniform [256,2000] / sizes where a map or array index slab overflows at an EVEN child count / 283+36k / classic sizes and neighbours; distinct (uniform or sequential) level-0 digests, fat values (2-3 pairs per data slab), pool of 300..1600 keys of which at most ~60% are stored (spare keys everywhere); " +
		"growth to three levels with >= 3 index slabs below the root, then rounds: RUN of insertions/removals confined to the digest range of one live slab (index or data slab, preferably the first/last child; ascending/descending/random); PAIR round on neighbouring non-root index slabs (I,J): J brought to c children (c = min, min+1, the smallest count with which a merge with an underflowing neighbour no longer fits, +-1, max, uniform), then I (first/last child of its parent in 80%) shrunk key by key until the index level merges or rebalances; EXACT round: a value resized so that a data slab lands on min-1/min/max/max+1 or underflows by exactly (+-1) the neighbour's boundary pair; churn; commit density 0/1/5/20%, dense stretches, reopen-from-ledger after 0/2/6/20% of the structural operations; finally shrink to empty (ascending/descending/random), reuse, PopIterate; " +
		"oracles: shadow dictionary, canonical order, every stored slab reports exactly its encoded length (C06), VerifyMap right after every structural operation, CheckStorageHealth, reachable = live slabs, reopen (content, order, identical tree dump, VerifyMap). non-trivial = history with three levels that split an index slab and merged index slabs (distinct by T, height, digest mode)"
	lib := mpeReadLibDefaultLimit()
	defer func() {
		atree.VerifSetThreshold(1024)
		atree.VerifSetMaxCollisionLimitPerDigest(lib)
	}()
	root := NewRng(a.Seed)
	for h := 0; h < a.N; h++ {
		hr := root.Fork(uint64(h) + 2_000_003)
		tag := fmt.Sprintf("y%d", h)
		if !want(tag) {
			continue
		}
		r := &mtrRun{rep: rep, tr: tr, hist: h, tag: tag, rng: hr, sz: &mapSizes{nViol0: len(rep.Violations)}}
		func() {
			defer func() {
				if p := recover(); p != nil {
					r.viol("C02: unexpected error (panic outside a library call)", fmt.Sprint(p))
					r.dead = true
				}
				atree.VerifSetThreshold(1024)
				atree.VerifSetMaxCollisionLimitPerDigest(lib)
			}()
			r.runSizes(a.Steps/2 + hr.Intn(a.Steps))
		}()
		z := r.sz
		rep.Event(fmt.Sprintf("hist_max_height_%d", r.maxH))
		rep.Event(fmt.Sprintf("commit_density_%d_stretch_%d_reopen_%d", r.durq, r.stretchP, z.reopenP))
		rep.EventN("pair_rounds", z.nPair)
		rep.EventN("pair_rounds_completed", z.nPairDone)
		if (r.T-283)%36 == 0 {
			rep.Event("T_in_family_283+36k")
		}
		if r.dead {
			rep.Event("hist_aborted")
		}
		if r.maxH >= 3 && z.idxSplit && z.idxMerge {
			rep.Distinct(fmt.Sprintf("T%d h%d %s", r.T, r.maxH, r.mode))
		}
		rep.Sample(fmt.Sprintf("history %s: T=%d (index slab children %d..%d), %d steps, %d keys, height %d, %d commits, %d reopen checks, pair rounds %d (completed %d), exact rounds %d", r.tag, r.T, z.minc, z.maxc, r.step, len(r.pool), r.maxH, r.nCommit, r.nReopen, z.nPair, z.nPairDone, z.nExact))
	}
	tr.Close()
	rep.Histories = tr.Hists
	rep.Steps = tr.Steps
	rep.Write(a.Out + "/report.json")
}
