//go:build verif

package main

// compact_cmd.go — C08 (and C07): same-typed inlined composite maps share one compact-map description
// in the register. After the parent slab has been decoded from the ledger (commit + drop cache, commit +
// reopen), mutating ONE such child must not change its siblings; everything must behave exactly as with
// the in-memory originals (schedule "commit only" / "never").

import (
	"fmt"

	"github.com/onflow/atree"
	testutils "github.com/onflow/atree/test_utils"
)

func init() { register("compact", cmdCompact) }

func compactTIEq(a, b atree.TypeInfo) bool {
	k1, v1 := codecTypeInfoKV(a)
	k2, v2 := codecTypeInfoKV(b)
	return k1 == k2 && v1 == v2
}

type compactChild struct {
	m      *atree.OrderedMap
	fields map[string]atree.Value
}

func cmdCompact(a Args) {
	rep := NewReport(a.Prop, a.Seed)
	rep.Rule = "a parent array or map holding 2..6 inlined composite-typed child maps with the SAME field set (compact encoding), schedules {never, commit, commit+drop cache, commit+reopen in a fresh storage}; then single-child mutations (remove a field, overwrite a field with a value of another size, add a field) in random order, after each of which EVERY child is read back field by field and compared with the shadow, and VerifyArray/VerifyMap runs on the parent; finally commit, reopen, compare again. non-trivial = parent was decoded from the ledger before the mutations"
	rng := NewRng(a.Seed)
	defer atree.VerifSetThreshold(1024)
	names := []string{"a", "b", "c", "name", "balance", "d"}
	n := a.N
	if n <= 0 {
		n = 200
	}
	for h := 0; h < n; h++ {
		hr := rng.Fork(uint64(h))
		tag := fmt.Sprintf("c%d", h)
		if !want(tag) {
			continue
		}
		T := []uint32{256, 512, 1024}[hr.Intn(3)]
		atree.VerifSetThreshold(T)
		sched := h % 4
		step := 0
		failed := false
		fail := func(what, detail string) {
			if !failed {
				rep.Violate(h, tag, step, what, fmt.Sprintf("T=%d schedule=%d %s", T, sched, detail))
			}
			failed = true
		}
		func() {
			defer func() {
				if p := recover(); p != nil {
					fail("C08: panic in implementation", fmt.Sprint(p))
				}
			}()
			base := NewLogBase()
			st := codecStorage(base)
			addr := mkAddr(1 + uint64(hr.Intn(3)))
			k := 2 + hr.Intn(5)
			nf := 2 + hr.Intn(3)
			parentIsMap := hr.Chance(35)
			ti := codecCompositeTI{uint64(1 + hr.Intn(2))}
			var parr *atree.Array
			var pmap *atree.OrderedMap
			var err error
			if parentIsMap {
				pmap, err = atree.NewMap(st, addr, atree.NewDefaultDigesterBuilder(), testutils.NewSimpleTypeInfo(50))
			} else {
				parr, err = atree.NewArray(st, addr, testutils.NewSimpleTypeInfo(40))
			}
			must(err)
			children := make([]*compactChild, k)
			val := func() atree.Value {
				if hr.Chance(30) {
					return testutils.NewStringValue(randStr(hr, 1+hr.Intn(12)))
				}
				return testutils.Uint64Value(uint64(hr.Intn(70000)))
			}
			for i := 0; i < k; i++ {
				m, err := atree.NewMap(st, addr, atree.NewDefaultDigesterBuilder(), ti)
				must(err)
				c := &compactChild{m: m, fields: map[string]atree.Value{}}
				for f := 0; f < nf; f++ {
					v := val()
					_, err := m.Set(testutils.CompareValue, testutils.GetHashInput, testutils.NewStringValue(names[f]), v)
					must(err)
					c.fields[names[f]] = v
				}
				children[i] = c
				if parentIsMap {
					_, err = pmap.Set(testutils.CompareValue, testutils.GetHashInput, testutils.Uint64Value(uint64(i)), m)
				} else {
					err = parr.Append(m)
				}
				must(err)
			}
			parentID := atree.SlabIDUndefined
			if parentIsMap {
				parentID = pmap.SlabID()
			} else {
				parentID = parr.SlabID()
			}
			// re-handle every child top-down from the (possibly reopened) parent
			rehandle := func() {
				for i := range children {
					var v atree.Value
					var err error
					if parentIsMap {
						v, err = pmap.Get(testutils.CompareValue, testutils.GetHashInput, testutils.Uint64Value(uint64(i)))
					} else {
						v, err = parr.Get(uint64(i))
					}
					if err != nil {
						fail("C08: child cannot be read through the parent", err.Error())
						return
					}
					cm, ok := v.(*atree.OrderedMap)
					if !ok {
						fail("C08: child is not a map", fmt.Sprintf("%T", v))
						return
					}
					children[i].m = cm
				}
			}
			reopen := func() {
				base = base.Clone()
				st = codecStorage(base)
				if parentIsMap {
					pmap, err = atree.NewMapWithRootID(st, parentID, atree.NewDefaultDigesterBuilder())
				} else {
					parr, err = atree.NewArrayWithRootID(st, parentID)
				}
				if err != nil {
					fail("C03: parent cannot be reopened", err.Error())
					return
				}
				rehandle()
			}
			switch sched {
			case 1:
				must(st.FastCommit(2))
			case 2:
				must(st.FastCommit(2))
				st.DropCache()
				// the parent wrapper still holds its root slab; obtain everything again from the ledger
				if parentIsMap {
					pmap, err = atree.NewMapWithRootID(st, parentID, atree.NewDefaultDigesterBuilder())
				} else {
					parr, err = atree.NewArrayWithRootID(st, parentID)
				}
				must(err)
				rehandle()
				rep.Distinct(tag)
			case 3:
				must(st.FastCommit(2))
				reopen()
				rep.Distinct(tag)
			}
			checkAll := func(where string) {
				for i, c := range children {
					if c.m.Count() != uint64(len(c.fields)) {
						fail("C08: a sibling's entry count changed", fmt.Sprintf("%s: child %d count %d, shadow %d", where, i, c.m.Count(), len(c.fields)))
						return
					}
					for f, want := range c.fields {
						got, err := c.m.Get(testutils.CompareValue, testutils.GetHashInput, testutils.NewStringValue(f))
						if err != nil {
							fail("C08: a field of an untouched sibling can no longer be read", fmt.Sprintf("%s: child %d field %s: %v", where, i, f, err))
							return
						}
						if keyStr(got) != keyStr(want) {
							fail("C08: a field of a sibling changed", fmt.Sprintf("%s: child %d field %s: got %v want %v", where, i, f, got, want))
							return
						}
					}
				}
				if parentIsMap {
					err = atree.VerifyMap(pmap, addr, testutils.NewSimpleTypeInfo(50), compactTIEq, testutils.GetHashInput, true)
				} else {
					err = atree.VerifyArray(parr, addr, testutils.NewSimpleTypeInfo(40), compactTIEq, testutils.GetHashInput, true)
				}
				if err != nil {
					fail("C05: structural verification of the parent failed", where+": "+err.Error())
				}
			}
			checkAll("before mutation")
			nops := 2 + hr.Intn(2*k)
			for step = 1; step <= nops && !failed; step++ {
				i := hr.Intn(k)
				c := children[i]
				switch hr.Pick(40, 35, 25) {
				case 0:
					if len(c.fields) == 0 {
						continue
					}
					var f string
					for f = range c.fields {
						break
					}
					// deterministic choice: smallest name
					for g := range c.fields {
						if g < f {
							f = g
						}
					}
					_, _, err := c.m.Remove(testutils.CompareValue, testutils.GetHashInput, testutils.NewStringValue(f))
					if err != nil {
						fail("C02: removing a present field failed", err.Error())
						continue
					}
					delete(c.fields, f)
					rep.Op("remove_field")
				case 1:
					f := names[hr.Intn(nf)]
					v := val()
					_, err := c.m.Set(testutils.CompareValue, testutils.GetHashInput, testutils.NewStringValue(f), v)
					if err != nil {
						fail("C02: setting a field failed", err.Error())
						continue
					}
					c.fields[f] = v
					rep.Op("set_field")
				default:
					f := names[nf+hr.Intn(len(names)-nf)]
					v := val()
					_, err := c.m.Set(testutils.CompareValue, testutils.GetHashInput, testutils.NewStringValue(f), v)
					if err != nil {
						fail("C02: adding a field failed", err.Error())
						continue
					}
					c.fields[f] = v
					rep.Op("add_field")
				}
				checkAll(fmt.Sprintf("after op %d on child %d", step, i))
			}
			if !failed {
				if err := st.FastCommit(2); err != nil {
					fail("commit failed", err.Error())
					return
				}
				reopen()
				checkAll("after final commit and reopen")
			}
		}()
		rep.Histories++
		rep.Steps += step
		if h < 2 {
			rep.Sample(fmt.Sprintf("case %s: T=%d schedule=%d", tag, T, sched))
		}
	}
	rep.Write(a.Out + "/report.json")
}
