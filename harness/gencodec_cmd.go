//go:build verif

package main

import (
	"fmt"
	"strings"

	"github.com/onflow/atree"
)

// gen-codec regenerates coq/gen/CodecConsts.v (CBOR tag numbers, head masks) from the
// implementation as it is now, so that a changed Go constant re-checks the codec proofs.
func init() { register("gen-codec", func(a Args) { cmdGenCodec(a.Out) }) }

func cmdGenCodec(out string) {
	var sb strings.Builder
	sb.WriteString("(* GENERATED from /repo by `harness gen-codec` (VerifCodecConsts): do not edit. *)\nFrom Coq Require Import NArith.\nLocal Open Scope N_scope.\n")
	for _, c := range atree.VerifCodecConsts() {
		fmt.Fprintf(&sb, "Definition c_%s : N := %d.\n", c.Name, c.Val)
	}
	writeIfChanged(out+"/CodecConsts.v", sb.String())
}
